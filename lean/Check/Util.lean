/-! Shared helpers for the trace acceptor: token parsing, verdicts. Core only. -/
namespace Check

inductive Verdict
  | ok
  | mismatch (msg : String)   -- model and implementation disagree (correspondence broken)
  | oracle (msg : String)     -- the property's oracle is false on the implementation's own output
  | bad (msg : String)        -- the line could not be read
  deriving Repr, Inhabited

def toks (line : String) : List String :=
  (line.splitOn " ").filter (· ≠ "")

def nat? (s : String) : Option Nat := s.toNat?

def nats? : List String → Option (List Nat)
  | [] => some []
  | s :: rest => do
    let n ← nat? s
    let ns ← nats? rest
    pure (n :: ns)

def hexVal (c : Char) : Option Nat :=
  if '0' ≤ c ∧ c ≤ '9' then some (c.toNat - '0'.toNat)
  else if 'a' ≤ c ∧ c ≤ 'f' then some (c.toNat - 'a'.toNat + 10)
  else none

/-- decode a hex-encoded byte string ("-" is the empty string) into bytes -/
def unhex (s : String) : Option (List Nat) :=
  if s = "-" then some [] else
  let rec go : List Char → Option (List Nat)
    | [] => some []
    | [_] => none
    | a :: b :: rest => do
      let x ← hexVal a
      let y ← hexVal b
      let r ← go rest
      pure ((x * 16 + y) :: r)
  go s.toList

/-- bytes to String (the harness only hex-encodes ASCII / UTF-8; bytes ≥ 128 are decoded as UTF-8) -/
def bytesToString (bs : List Nat) : String :=
  match String.fromUTF8? (ByteArray.mk (bs.map (·.toUInt8)).toArray) with
  | some s => s
  | none => String.ofList (bs.map Char.ofNat)

def unhexStr (s : String) : Option String := (unhex s).map bytesToString

def b2n (b : Bool) : Nat := if b then 1 else 0

end Check
