import Upf.Model.Teid
import Upf.Model.Seid
import Check.Util
/-! C07 acceptor: TEID allocator op sequences (model correspondence + uniqueness oracle), concurrent
allocation results, SEID selection under scripted random sources. -/
namespace Check.C07
open Check

def M : Nat := Gen.Consts.maxValue

def splitColon (l : List String) : List (List String) :=
  l.foldr (fun t acc => if t == ":" || t == "|" then [] :: acc else match acc with
    | [] => [[t]]
    | a :: as => (t :: a) :: as) [[]]

/-- ops: `A r` | `F id` | `Q id r`; model state `g`, oracle state `live` (ids observed allocated and not freed) -/
partial def runOps (g : Teid.G) (live : List Nat) : List String → Nat → Verdict × Nat
  | [], _ => (.ok, g.offset)
  | "A" :: r :: rest, i =>
    match r.toInt? with
    | some r =>
      -- oracle first
      if r == 0 then (.oracle s!"op {i}: TEID 0 handed out", 0)
      else if r > 0 ∧ live.contains r.toNat then (.oracle s!"op {i}: TEID {r} handed out while still allocated", 0)
      else if r > (M : Int) then (.oracle s!"op {i}: TEID {r} out of range", 0)
      else match Teid.allocate M g with
        | none => if r < 0 then runOps g live rest (i+1) else (.mismatch s!"op {i}: model refuses, observed {r}", 0)
        | some (id, g') =>
          if r < 0 then (.oracle s!"op {i}: allocation refused although offset {id - 1} is free", 0)
          else if (id : Int) != r then (.mismatch s!"op {i}: model allocates {id}, observed {r}", 0)
          else runOps g' (id :: live) rest (i+1)
    | none => (.bad "A", 0)
  | "F" :: id :: rest, i =>
    match nat? id with
    | some id => runOps (Teid.free g id) (live.filter (· != id)) rest (i+1)
    | none => (.bad "F", 0)
  | "Q" :: id :: r :: rest, i =>
    match nat? id, nat? r with
    | some id, some r =>
      let m := if id < 1 then false else g.used (id - 1)
      -- oracle: a TEID that was handed out and not released is still in use (else it can be chosen a second time)
      if live.contains id ∧ r = 0 then
        (.oracle s!"op {i}: TEID {id} was chosen and has not been released, yet it is no longer marked in use — the release of another identifier un-marked it; it can now be chosen for a second session", 0)
      else
      if b2n m != r then (.mismatch s!"op {i}: IsAllocated({id}) model {m}, observed {r}", 0)
      else runOps g live rest (i+1)
    | _, _ => (.bad "Q", 0)
  | _, _ => (.bad "ops", 0)

def check (_lineNo : Nat) (line : String) : Verdict :=
  match toks line with
  | "teid" :: off :: _n :: rest =>
    match nat? off, splitColon rest with
    | some off, [used, ops, [fin]] =>
      match nats? used, nat? fin with
      | some used, some fin =>
        let g : Teid.G := { offset := off, used := fun x => used.contains x }
        let live := used.map (· + 1)
        let (v, mo) := runOps g live ops 0
        match v with
        | .ok => if mo = fin then .ok else .mismatch s!"final cursor: model {mo}, observed {fin}"
        | v => v
      | _, _ => .bad "teid used"
    | _, _ => .bad "teid"
  | "tconc" :: _n :: ids =>
    match nats? ids with
    | some ids =>
      if ids.contains 0 then .oracle "TEID 0 (or a refusal) under concurrent allocation"
      else if ids.eraseDups.length != ids.length then .oracle "one TEID handed to two concurrent requests"
      else .ok
    | none => .bad "tconc"
  | "seid" :: rest =>
    match splitColon rest with
    | [draws, live, [n, consumed], res] =>
      match nats? draws, nats? live, nat? n, nat? consumed, nats? res with
      | some draws, some live, some n, some consumed, some res =>
        if draws.isEmpty then .bad "no draws" else
        let d : Nat → Nat := fun i => draws.getD (i % draws.length) 0
        -- replay n requests; each granted SEID becomes live
        let rec go (k : Nat) (live : List Nat) (i : Nat) (res : List Nat) : Verdict :=
          match k, res with
          | 0, [] => if i = consumed then .ok else .mismatch s!"model consumed {i} draws, observed {consumed}"
          | k+1, s :: ok :: res =>
            -- oracle on the observation alone
            if ok = 1 ∧ s = 0 then .oracle "session granted with UP SEID 0"
            else if ok = 1 ∧ live.contains s then .oracle s!"session granted with SEID {s}, which a live session already has"
            else
              let (m, i') := Seid.newSession d live i
              match m, ok with
              | some x, 1 => if x = s then go k (s :: live) i' res else .mismatch s!"model grants {x}, observed {s}"
              | none, 0 => go k live i' res
              | some x, _ => .oracle s!"refused although draw {x} was fresh (refusal only when every try collides)"
              | none, _ => .mismatch s!"model refuses, observed grant of {s}"
          | _, _ => .bad "seid results"
        go n live 0 res
      | _, _, _, _, _ => .bad "seid numbers"
    | _ => .bad "seid"
  | _ => .bad "unknown line"

end Check.C07
