import Upf.Model.Conf
import Upf.Model.Strip
import Check.Util
/-!
C18 acceptor (trace format: see harness/cmd/vh/c18.go).

Correspondence: `Conf.load` (decode ; defaults ; validate, with Go's recorded predicate verdicts) predicts the outcome
class, the refusing check and every returned field of `LoadConfigFile`; `Strip.strip` equals `removeComments` byte for
byte; `Conf.durString` equals `time.Duration.String`.

Oracle (the property on the implementation's own output): no panic; a returned configuration satisfies `Conf.Sound`
and, when the decoded values are known, `Conf.Filled` (documented defaults 2s / 5 / 15 / 5s, info, 3); inserting
comments between tokens does not change the result; on well-formed piece lists `removeComments` leaves exactly the
text; the shipped `upf.jsonc` files load.
-/
namespace Check.C18
open Check

def sections (l : List String) : List (List String) :=
  l.foldr (fun t acc => if t == "|" then [] :: acc else match acc with
    | [] => [[t]]
    | a :: as => (t :: a) :: as) [[]]

/-! ## parsing -/

def jv? (t : String) : Option Conf.JV :=
  match t.toList with
  | ['A'] => some .absent
  | ['N'] => some .null
  | ['O'] => some .other
  | ['b', '0'] => some (.bool false)
  | ['b', '1'] => some (.bool true)
  | 'i' :: r => (String.ofList r).toInt?.map .num
  | 's' :: r => (unhexStr (String.ofList r)).map .str
  | _ => none

def jvs? : List String → Option (List Conf.JV)
  | [] => some []
  | t :: r => do
    let v ← jv? t
    let vs ← jvs? r
    pure (v :: vs)

def doc? (ts : List String) : Option Conf.Doc :=
  match ts with
  | mode :: p4 :: access :: pool :: alloc :: resp :: read :: retr :: hb :: hbi :: lvl :: tc :: peers => do
    let peers ← match peers with
      | ["A"] => some Conf.JA.absent
      | ["N"] => some Conf.JA.null
      | ["O"] => some Conf.JA.other
      | "L" :: k :: es => do
        let k ← nat? k
        let es ← jvs? es
        if es.length = k then some (Conf.JA.arr es) else none
      | _ => none
    pure { mode := ← jv? mode, enableP4rt := ← jv? p4, accessIP := ← jv? access, uePool := ← jv? pool,
           enableUeIPAlloc := ← jv? alloc, peers := peers, respTimeout := ← jv? resp, readTimeout := ← jv? read,
           maxReqRetries := ← jv? retr, enableHB := ← jv? hb, hbInterval := ← jv? hbi, logLevel := ← jv? lvl,
           defaultTC := ← jv? tc }
  | _ => none

structure Entry where
  s : String
  dur : Bool
  cidr : Bool
  ip : Bool
  level : Option Int

def entries? : List String → Option (List Entry)
  | [] => some []
  | h :: f :: l :: rest => do
    let s ← unhexStr h
    let (d, c, i) ← match f.toList with
      | [d, c, i] => some (d == '1', c == '1', i == '1')
      | _ => none
    let lv ← if l = "x" then some none else l.toInt?.map some
    let es ← entries? rest
    pure ({ s := s, dur := d, cidr := c, ip := i, level := lv } :: es)
  | _ => none

def table? (ts : List String) : Option (List Entry) :=
  match ts with
  | n :: rest => do
    let n ← nat? n
    let es ← entries? rest
    if es.length = n then some es else none
  | [] => none

def predsOf (tbl : List Entry) : Conf.Preds :=
  let look (s : String) : Option Entry := tbl.find? (·.s == s)
  { dur := fun s => (look s).map (·.dur) |>.getD false,
    cidr := fun s => (look s).map (·.cidr) |>.getD false,
    ip := fun s => (look s).map (·.ip) |>.getD false,
    level := fun s => (look s).bind (·.level) }

def covered (tbl : List Entry) (ss : List String) : Option String :=
  ss.find? (fun s => !(tbl.any (·.s == s)))

inductive Res
  | err (cls msg : String)
  | ok (c : Conf.C)
  | panic (msg : String)

def strs? : List String → Option (List String)
  | [] => some []
  | h :: r => do
    let s ← unhexStr h
    let ss ← strs? r
    pure (s :: ss)

def res? (ts : List String) : Option Res :=
  match ts with
  | ["err", cls, msg] => (unhexStr msg).map (.err cls)
  | ["panic", msg] => (unhexStr msg).map .panic
  | "ok" :: mode :: p4 :: access :: pool :: alloc :: resp :: read :: retr :: hb :: hbi :: lvl :: tc :: k :: peers => do
    let k ← nat? k
    let peers ← strs? peers
    if peers.length ≠ k then none else
    let b (t : String) : Option Bool := if t = "1" then some true else if t = "0" then some false else none
    pure (.ok { mode := ← unhexStr mode, enableP4rt := ← b p4, accessIP := ← unhexStr access, uePool := ← unhexStr pool,
                enableUeIPAlloc := ← b alloc, peers := peers, respTimeout := ← unhexStr resp, readTimeout := ← nat? read,
                maxReqRetries := ← nat? retr, enableHB := ← b hb, hbInterval := ← unhexStr hbi, logLevel := ← lvl.toInt?,
                defaultTC := ← nat? tc })
  | _ => none

def docStrings (d : Conf.Doc) : List String :=
  let f : Conf.JV → List String := fun v => match v with | .str s => [s] | _ => []
  f d.mode ++ f d.accessIP ++ f d.uePool ++ f d.respTimeout ++ f d.hbInterval ++ f d.logLevel ++
  (match d.peers with | .arr l => l.flatMap f | _ => [])

def confStrings (c : Conf.C) : List String :=
  [c.mode, c.accessIP, c.uePool, c.respTimeout, c.hbInterval] ++ c.peers

/-! ## oracle messages -/

/-- which part of `Conf.Sound` fails (only called when it does) -/
def whyUnsound (P : Conf.Preds) (c : Conf.C) : String :=
  if !P.dur c.respTimeout then s!"response timeout {c.respTimeout.quote} does not parse as a duration"
  else if c.readTimeout = 0 then "read timeout is 0"
  else if c.maxReqRetries = 0 then "max_req_retries is 0"
  else if c.enableHB && !P.dur c.hbInterval then s!"heartbeat enabled but interval {c.hbInterval.quote} does not parse as a duration"
  else if c.enableP4rt && c.mode != "" then s!"UP4 enabled but mode is {c.mode.quote}"
  else if c.enableP4rt && !P.cidr c.accessIP then s!"UP4 enabled but access IP {c.accessIP.quote} does not parse as a CIDR"
  else if c.enableP4rt && !P.cidr c.uePool then s!"UP4 enabled but UE pool {c.uePool.quote} does not parse as a CIDR"
  else if !c.enableP4rt && !(["af_xdp", "af_packet", "cndp", "dpdk", "sim"].contains c.mode) then s!"BESS mode {c.mode.quote} is not a supported mode"
  else if c.enableUeIPAlloc && !P.cidr c.uePool then s!"UE IP allocation enabled but UE pool {c.uePool.quote} does not parse as a CIDR"
  else match c.peers.find? (fun p => !P.ip p) with
    | some p => s!"peer {p.quote} does not parse as an IP address"
    | none => "?"

def whyUnfilled (raw c : Conf.C) : String :=
  if raw.respTimeout = "" ∧ c.respTimeout ≠ "2s" then s!"response timeout left empty: expected the documented default \"2s\", got {c.respTimeout.quote}"
  else if raw.readTimeout = 0 ∧ c.readTimeout ≠ 15 then s!"read timeout 0/absent: expected the documented default 15, got {c.readTimeout}"
  else if raw.maxReqRetries = 0 ∧ c.maxReqRetries ≠ 5 then s!"max_req_retries 0/absent: expected the documented default 5, got {c.maxReqRetries}"
  else if c.enableHB ∧ raw.hbInterval = "" ∧ c.hbInterval ≠ "5s" then s!"heartbeat interval left empty: expected the documented default \"5s\", got {c.hbInterval.quote}"
  else "a field differs from the decoded value"

/-- the pre-decode defaults: log level info and traffic class 3 unless the document sets them -/
def preDecodeOracle (d : Conf.Doc) (c : Conf.C) : Option String :=
  if (d.logLevel = .absent ∨ d.logLevel = .null) ∧ c.logLevel ≠ Conf.infoLevel then
    some s!"log level not set in the document: expected info (0), got {c.logLevel}"
  else if (d.defaultTC = .absent ∨ d.defaultTC = .null) ∧ c.defaultTC ≠ Conf.elasticTC then
    some s!"default_tc not set in the document: expected 3, got {c.defaultTC}"
  else none

/-! ## correspondence on refusals: the error message names the check the model says refuses -/

def startsWith (s pre : String) : Bool := pre.toList.isPrefixOf s.toList
def endsWith (s suf : String) : Bool := suf.toList.isSuffixOf s.toList

def errMatches (e : Conf.Err) (cls msg : String) : Bool :=
  let inv (name : String) : Bool := cls == "other" && startsWith msg ("invalid argument '" ++ name ++ "'=")
  match e with
  | .decode => cls == "type" || (cls == "other" && startsWith msg "unrecognized level")
  | .accessIP => inv "conf.P4rtcIface.AccessIP"
  | .uePoolP4 => inv "conf.UEIPPool"
  | .uePoolAlloc => inv "conf.UEIPPool"
  | .modeP4 => inv "conf.Mode" && endsWith msg "(mode must not be set for UP4)"
  | .modeBess => inv "conf.Mode" && endsWith msg "(invalid mode)"
  | .peer p => inv "conf.CPIface.Peers" && endsWith msg ("=" ++ p ++ " (invalid IP)")
  | .respTimeout => inv "conf.RespTimeout"
  | .readTimeout => inv "conf.ReadTimeout"
  | .retries => inv "conf.MaxReqRetries"
  | .hbInterval => cls == "other" && startsWith msg "time: "

def errName : Conf.Err → String
  | .decode => "decode error"
  | .accessIP => "access IP refused"
  | .uePoolP4 => "UE pool refused (UP4)"
  | .modeP4 => "mode set with UP4"
  | .modeBess => "invalid BESS mode"
  | .uePoolAlloc => "UE pool refused (UE IP allocation)"
  | .peer p => s!"peer {p.quote} refused"
  | .respTimeout => "response timeout refused"
  | .readTimeout => "read timeout 0"
  | .retries => "retries 0"
  | .hbInterval => "heartbeat interval refused"

/-- oracle on a returned configuration alone -/
def soundVerdict (tbl : List Entry) (res : Res) : Verdict :=
  match res with
  | .panic m => .oracle s!"the loader panicked: {m}"
  | .err _ _ => .ok
  | .ok c =>
    match covered tbl (confStrings c) with
    | some s => .bad s!"no predicate verdict recorded for {s.quote}"
    | none =>
      let P := predsOf tbl
      if decide (Conf.Sound P c) then .ok
      else .oracle s!"returned configuration is not valid: {whyUnsound P c}"

def loadVerdict (d : Conf.Doc) (tbl : List Entry) (res : Res) : Verdict :=
  match soundVerdict tbl res with
  | .ok =>
    let P := predsOf tbl
    match covered tbl (docStrings d ++ [Conf.respTimeoutDefaultStr, Conf.hbIntervalDefaultStr]) with
    | some s => .bad s!"no predicate verdict recorded for {s.quote}"
    | none =>
      match res with
      | .panic _ => .ok  -- unreachable
      | .ok c =>
        match Conf.decode P d with
        | none => .mismatch "model: json.Unmarshal fails on this document; the implementation returned a configuration"
        | some raw =>
          if !decide (Conf.Filled raw c) then .oracle s!"defaults not filled in: {whyUnfilled raw c}"
          else match preDecodeOracle d c with
          | some m => .oracle m
          | none =>
            match Conf.finish P raw with
            | .ok c' => if c' = c then .ok else .mismatch s!"model returns a different configuration: {repr c'}"
            | .error e => .mismatch s!"model refuses ({errName e}); the implementation returned a configuration"
      | .err cls msg =>
        match Conf.load P d with
        | .ok _ => .mismatch s!"model accepts; the implementation refuses: {msg}"
        | .error e =>
          if errMatches e cls msg then .ok
          else .mismatch s!"model: {errName e}; implementation: [{cls}] {msg}"
  | v => v

/-! ## removeComments -/

def bytesToChars (bs : List Nat) : List Char := bs.map Char.ofNat

def piece? (t : String) : Option Strip.Piece :=
  match t.toList with
  | k :: r =>
    match unhex (String.ofList r) with
    | some bs =>
      let cs := bytesToChars bs
      if k = 't' then some (.text cs) else if k = 'l' then some (.line cs) else if k = 'b' then some (.block cs) else none
    | none => none
  | [] => none

def pieces? : List String → Option (List Strip.Piece)
  | [] => some []
  | t :: r => do
    let p ← piece? t
    let ps ← pieces? r
    pure (p :: ps)

def showBytes (cs : List Char) : String := (String.ofList cs).quote

def check (_lineNo : Nat) (line : String) : Verdict :=
  match toks line with
  | "load" :: _cls :: rest =>
    match sections rest with
    | [[], d, t, r] =>
      match doc? d, table? t, res? r with
      | some d, some t, some r => loadVerdict d t r
      | none, _, _ => .bad "load: fields"
      | _, none, _ => .bad "load: predicate table"
      | _, _, none => .bad "load: result"
    | _ => .bad "load: sections"
  | "sample" :: path :: kind :: rest =>
    match sections rest with
    | [[], d, t, r] =>
      match table? t, res? r, unhexStr path with
      | some t, some r, some path =>
        match r with
        | .err _ msg =>
          if kind = "upf" then .oracle s!"shipped sample configuration {path} does not load: {msg}"
          else if d = ["nodoc"] then .ok
          else match doc? d with
            | some d => loadVerdict d t r
            | none => .bad "sample: fields"
        | _ =>
          if d = ["nodoc"] then soundVerdict t r
          else match doc? d with
            | some d => loadVerdict d t r
            | none => .bad "sample: fields"
      | _, _, _ => .bad "sample"
    | _ => .bad "sample: sections"
  | "fuzz" :: _cls :: rest =>
    match sections rest with
    | [[], t, r] =>
      match table? t, res? r with
      | some t, some r => soundVerdict t r
      | _, _ => .bad "fuzz"
    | _ => .bad "fuzz: sections"
  | "ins" :: _desc :: rest =>
    match sections rest with
    | [[], base, var] =>
      match res? var, res? base with
      | some (.panic m), _ => .oracle s!"the loader panicked on the commented document: {m}"
      | some _, some _ =>
        if base = var then .ok
        else .oracle "inserting comments between tokens changed the result of loading"
      | _, _ => .bad "ins: results"
    | _ => .bad "ins: sections"
  | "rc" :: "P" :: rest =>
    match sections rest with
    | [ps, [out]] =>
      match pieces? ps, unhex out with
      | some ps, some out =>
        let out := bytesToChars out
        let model := Strip.strip .code (Strip.render ps)
        if Strip.wfB ps && out != Strip.expected ps then
          .oracle s!"comments are not ignored: removeComments leaves {showBytes out}, the text pieces are {showBytes (Strip.expected ps)}"
        else if model != out then .mismatch s!"scanner gives {showBytes model}, removeComments gives {showBytes out}"
        else .ok
      | _, _ => .bad "rc P"
    | _ => .bad "rc P: sections"
  | "rc" :: "R" :: inp :: "|" :: out :: [] =>
    match unhex inp, unhex out with
    | some inp, some out =>
      let model := Strip.strip .code (bytesToChars inp)
      if model != bytesToChars out then .mismatch s!"scanner gives {showBytes model}, removeComments gives {showBytes (bytesToChars out)}"
      else .ok
    | _, _ => .bad "rc R"
  | ["durstr", n, s] =>
    match nat? n, unhexStr s with
    | some n, some s =>
      if Conf.durString n = s then .ok else .mismatch s!"model Duration.String = {Conf.durString n}, Go = {s}"
    | _, _ => .bad "durstr"
  | "selfcheck-fail" :: _ => .bad "the harness's field extractor disagrees with its generator on this document"
  | ["sample-none"] => .bad "no sample configuration files found under conf/ and ptf/config/"
  | _ => .bad "unknown line"

end Check.C18
