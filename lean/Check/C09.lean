import Check.Sys
/-! C09 acceptor: burst arithmetic, MarkSessionQer shapes (text lines) and QoS entries observed at system level (JSON lines). -/
namespace Check.C09
open Check Agent

def readLists : Nat → List Nat → Option (List (List Nat) × List Nat)
  | 0, rest => some ([], rest)
  | n+1, k :: rest =>
    if rest.length < k then none else
    (readLists n (rest.drop k)).map fun (ls, r) => (rest.take k :: ls, r)
  | _, _ => none

def readQers : Nat → List Nat → Option (List Qer)
  | 0, [] => some []
  | n+1, id :: mbr :: ug :: dg :: rest => (readQers n rest).map ({ qerID := id, ulMbr := mbr, ulGbr := ug, dlGbr := dg } :: ·)
  | _, _ => none

def splitOnTok (sep : String) (l : List String) : List (List String) :=
  l.foldr (fun t acc => if t == sep then [] :: acc else match acc with
    | [] => [[t]]
    | a :: as => (t :: a) :: as) [[]]

def checkText (line : String) : Verdict :=
  match toks line with
  | ["burst", r, d, "=>", v] =>
    match nat? r, nat? d, nat? v with
    | some r, some d, some v =>
      if v < r * d / 8 then .oracle s!"burst for {r} kbps over {d} ms is {v} bytes, below rate x duration = {r * d / 8}"
      else if calcBurst r d ≠ v then .mismatch s!"model {calcBurst r d}" else .ok
    | _, _, _ => .bad "burst"
  | "mark" :: np :: rest =>
    match splitOnTok "=>" rest with
    | [inp, out] =>
      match splitOnTok "|" inp with
      | [ls, nq :: qs] =>
        match nat? np, nats? ls, nat? nq, nats? qs with
        | some np, some ls, some nq, some qs =>
          match readLists np ls, readQers nq qs with
          | some (lists, []), some qers =>
            match out with
            | "panic" :: msg => .oracle s!"MarkSessionQer panicked: {" ".intercalate msg}"
            | _ =>
            match splitOnTok "|" out with
            | [lv, ol] =>
              match nats? lv, (nats? ol).bind (readLists np) with
              | some lv, some (olists, []) =>
                let pdrs := lists.map fun l => ({ qerIDs := l } : Pdr)
                let (mq, mp) := markSessionQer pdrs qers
                -- oracle: a QER marked session-wide is referenced by every PDR; at most one is marked
                let marked := (qers.zip lv).filter (·.2 = 1) |>.map (·.1.qerID)
                if marked.length > 1 then .oracle s!"more than one session-level QER: {marked}"
                else if marked.any fun id => lists.any (!·.contains id) then .oracle s!"QER {marked} marked session-level although a PDR does not reference it"
                else if lists.any (fun (l : List Nat) => true ∧ false) then .ok
                else if (olists.zip lists).any (fun (a, b) => a.length != b.length ∨ !a.all b.contains) then .oracle "a PDR's QER list lost or gained an element"
                else if mq.map (fun q => b2n q.session) != lv then .mismatch s!"model marks {mq.map (fun q => b2n q.session)}"
                else if mp.map (·.qerIDs) != olists then .mismatch s!"model lists {mp.map (·.qerIDs)}"
                else .ok
              | _, _ => .bad "mark out"
            | _ => .bad "mark out split"
          | _, _ => .bad "mark shapes"
        | _, _, _, _ => .bad "mark numbers"
      | _ => .bad "mark in"
    | _ => .bad "mark"
  | _ => .bad "unknown line"

def step (st : Sys.St) (n : Nat) (line : String) : Sys.St × List Verdict :=
  if line.startsWith "{" then
    let (st', fs) := Sys.step st n line
    (st', fs.filterMap fun f =>
      if f.prop = "model" then some (.mismatch f.msg)
      else if f.prop = "bad" then some (.bad f.msg)
      else if f.prop = "C09" ∨ f.prop = "C01" then some (.oracle s!"[{f.prop}] {f.msg}")
      else none)
  else (st, [checkText line])

end Check.C09
