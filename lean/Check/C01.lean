import Check.Util
/-! C01 acceptor: every datagram is dropped or answered (at most once), the agent stays alive, and a valid
Heartbeat Request sent afterwards on the same association is answered; periodically a valid request on another
association must be processed normally. The oracle is the property itself on the observation. -/
namespace Check.C01
open Check

def check (_lineNo : Nat) (line : String) : Verdict :=
  if line.startsWith "{" then .ok else     -- start / note lines of the world helper
  match toks line with
  | "c01" :: state :: tname :: desc :: "=>" :: n :: _rt :: alive :: hb :: crash =>
    let what := s!"{tname} [{(unhexStr desc).getD desc}] in state {state}"
    if alive != "1" then .oracle s!"agent died on {what}: {" ".intercalate crash}"
    else if hb != "1" then .oracle s!"receive loop wedged after {what}: the following Heartbeat Request was not answered"
    else match nat? n with
      | some n => if n > 1 then .oracle s!"{n} datagrams in answer to {what}" else .ok
      | none => .bad "c01 count"
  | ["wedge", script, "=>", alive, known] =>
    if alive != "1" then .oracle s!"agent died on duplicated / late / foreign responses (script {script})"
    else if known != "1" then .oracle s!"after duplicated / late / foreign responses (script {script}) a valid request on the association was not processed normally: its receive loop was wedged and the peer dropped"
    else .ok
  | ["bounce", "=>", alive, answered] =>
    if alive != "1" then .oracle "agent died after a response of its own bounced (peer socket closed)"
    else if answered != "1" then .oracle "after one of the agent's responses bounced (ICMP port unreachable: the peer's socket was closed for a moment) the peer, back on the same address, is never answered again: the association's receive loop is gone"
    else .ok
  | ["choosemod", "=>", alive, answered] =>
    if alive != "1" then .oracle "agent died on the history: establishment, modification creating a PDR with a CHOOSE F-TEID, deletion"
    else if answered != "1" then .oracle "after the history establishment / modification creating a PDR with a CHOOSE F-TEID / deletion, an establishment with a CHOOSE F-TEID on another association is never answered (the receive loop hangs)"
    else .ok
  | "assocresp" :: variant :: n :: "=>" :: alive :: served :: crash =>
    if n = "0" then .bad "the agent sent no Association Setup Request to its configured peer"
    else if alive != "1" then .oracle s!"agent died on the response ({variant}) to its own Association Setup Request: {" ".intercalate crash}"
    else if served != "1" then .oracle s!"after the response ({variant}) to its own Association Setup Request the agent no longer sets up another association"
    else .ok
  | ["other", ok] => if ok = "1" then .ok else .oracle "a valid Association Setup Request on another association was not processed normally"
  | "raw" :: _i :: "=>" :: alive :: hb :: crash =>
    if alive != "1" then .oracle s!"agent died on the raw datagram stream: {" ".intercalate crash}"
    else if hb != "1" then .oracle "receive loop wedged by the raw datagram stream"
    else .ok
  | _ => .bad "unknown line"

end Check.C01
