import Upf.Model.PortProduct
import Check.Util
/-! C17 acceptor: the model's expansion vs the implementation's, compared on the *denoted port set*;
and the property oracle (exact cover, or refused exactly when not representable). -/
namespace Check.C17
open Check Tern

def mkPR (lo hi : Nat) : PR := ⟨BitVec.ofNat 16 lo, BitVec.ofNat 16 hi⟩

/-- the set of ports a range denotes, as a list of disjoint closed intervals -/
def denoted (pr : PR) : List (Nat × Nat) :=
  if pr.isWildcard then [(0, 65535)]
  else if pr.low.toNat ≤ pr.high.toNat then [(pr.low.toNat, pr.high.toNat)] else []

/-- `m = 0xFFFF <<< j` (prefix-shaped) ↦ `some j` -/
def prefixShape (m : Nat) : Option Nat :=
  (List.range 17).find? fun j => m = (0xFFFF <<< j) % 65536

def ruleMatches (v m p : Nat) : Bool := (p &&& m) == (v &&& m)

/-- ports matched by one ternary rule, as intervals -/
def ruleIntervals (v m : Nat) : List (Nat × Nat) :=
  match prefixShape m with
  | some j => let b := (v &&& m); [(b, b + 2^j - 1)]
  | none => ((List.range 65536).filter (ruleMatches v m)).map fun p => (p, p)

def insertSorted (x : Nat × Nat) : List (Nat × Nat) → List (Nat × Nat)
  | [] => [x]
  | y :: ys => if x.1 ≤ y.1 then x :: y :: ys else y :: insertSorted x ys

def sortIv (l : List (Nat × Nat)) : List (Nat × Nat) := l.foldr insertSorted []

/-- merge sorted intervals that touch or overlap -/
def mergeIv : List (Nat × Nat) → List (Nat × Nat)
  | [] => []
  | [x] => [x]
  | x :: y :: rest =>
    if y.1 ≤ x.2 + 1 then mergeIv ((x.1, max x.2 y.2) :: rest) else x :: mergeIv (y :: rest)
termination_by l => l.length

def normIv (l : List (Nat × Nat)) : List (Nat × Nat) := mergeIv (sortIv l)

def rulesDenote (rs : List (Nat × Nat)) : List (Nat × Nat) :=
  normIv (rs.flatMap fun r => ruleIntervals r.1 r.2)

/-- brute-force statement of the cover property, used to cross-check the interval oracle -/
def bruteCover (rs : List (Nat × Nat)) (pr : PR) : Bool :=
  (List.range 65536).all fun p =>
    (rs.any fun r => ruleMatches r.1 r.2 p) == decide (pr.denotes (BitVec.ofNat 16 p))

def pairs : List Nat → Option (List (Nat × Nat))
  | [] => some []
  | a :: b :: rest => (pairs rest).map ((a, b) :: ·)
  | _ => none

def quads : List Nat → Option (List (Nat × Nat × Nat × Nat))
  | [] => some []
  | a :: b :: c :: d :: rest => (quads rest).map ((a, b, c, d) :: ·)
  | _ => none

def modelRules (rs : List Rule) : List (Nat × Nat) := rs.map fun r => (r.port.toNat, r.mask.toNat)

def showIv (l : List (Nat × Nat)) : String := toString l

def check (lineNo : Nat) (line : String) : Verdict :=
  match toks line with
  | ["pred", lo, hi, w, e, r, width] =>
    match nats? [lo, hi, w, e, r, width] with
    | some [lo, hi, w, e, r, width] =>
      let pr := mkPR lo hi
      let mw := b2n (decide pr.isWildcard); let me := b2n (decide pr.isExact); let mr := b2n (decide pr.isRange)
      if (mw, me, mr, pr.width.toNat) = (w, e, r, width) then .ok
      else .mismatch s!"model preds=({mw},{me},{mr},{pr.width.toNat})"
    | _ => .bad "pred"
  | ["newr", lo, hi, nl, nh] =>
    match nats? [lo, hi, nl, nh] with
    | some [lo, hi, nl, nh] =>
      let exp := if lo > hi then (0, 0) else (lo, hi)
      if exp = (nl, nh) then .ok else .oracle s!"newRangeMatchPortRange must keep a proper range and zero an inverted one; expected {exp}"
    | _ => .bad "newr"
  | "triv" :: lo :: hi :: rest =>
    match nat? lo, nat? hi with
    | some lo, some hi =>
      let pr := mkPR lo hi
      let m := asTrivial pr
      match rest, m with
      | ["err"], none => .ok
      | ["err"], some _ => .oracle "refused a trivially representable range"
      | ["ok", p, k], m =>
        match nat? p, nat? k with
        | some p, some k =>
          let d := rulesDenote [(p, k)]
          if d != denoted pr then .oracle s!"rule denotes {showIv d}, range denotes {showIv (denoted pr)}"
          else if m.isNone then .mismatch "model refuses" else .ok
        | _, _ => .bad "triv"
      | _, _ => .bad "triv"
    | _, _ => .bad "triv"
  | "cplx" :: st :: lo :: hi :: rest =>
    match nat? st, nat? lo, nat? hi with
    | some st, some lo, some hi =>
      let pr := mkPR lo hi
      let m := asComplex (if st = 0 then .exact else .ternary) pr
      match rest with
      | ["err"] => if m.isNone then .ok else .oracle "refused a representable range"
      | "ok" :: _n :: rs =>
        match (nats? rs).bind pairs with
        | some rs =>
          let d := rulesDenote rs
          let wildOnlyFull := rs.all fun r => r.2 != 0 || (lo = 0 ∧ (hi = 65535 ∨ hi = 0))
          if d != denoted pr then .oracle s!"rules denote {showIv d}, range denotes {showIv (denoted pr)}"
          else if !wildOnlyFull then .oracle "wildcard rule for a range that is not 0-65535 / 0-0"
          else if lineNo % 257 = 0 ∧ !bruteCover rs pr then .oracle "brute-force cover check disagrees with interval oracle"
          else match m with
            | none => .oracle "accepted a range the strategy cannot represent (wider than 100)"
            | some mr => if rulesDenote (modelRules mr) = d then .ok else .mismatch "model denotes another set"
        | none => .bad "cplx rules"
      | _ => .bad "cplx"
    | _, _, _ => .bad "cplx"
  | "prod" :: sl :: sh :: dl :: dh :: rest =>
    match nats? [sl, sh, dl, dh] with
    | some [sl, sh, dl, dh] =>
      let s := mkPR sl sh; let d := mkPR dl dh
      let m := cartesian s d
      match rest with
      | ["err"] => if m.isNone then .ok else .oracle "refused a representable pair"
      | "ok" :: _n :: rs =>
        match (nats? rs).bind quads with
        | some rs =>
          -- the product must be a genuine product: group by the side that is constant
          let srcs := (rs.map fun r => (r.1, r.2.1)).eraseDups
          let dsts := (rs.map fun r => (r.2.2.1, r.2.2.2)).eraseDups
          let isProduct := rs.length = srcs.length * dsts.length ∧
            srcs.all fun a => dsts.all fun b => rs.contains (a.1, a.2, b.1, b.2)
          if m.isNone then .oracle "accepted a pair that cannot be represented exactly"
          else if rs.isEmpty then
            (if denoted s = [] ∨ denoted d = [] then .ok else .oracle "no entries for a pair that denotes packets")
          else if !isProduct then .oracle "entries are not the product of a source cover and a destination cover"
          else if rulesDenote srcs != denoted s then .oracle s!"source rules denote {showIv (rulesDenote srcs)}"
          else if rulesDenote dsts != denoted d then .oracle s!"destination rules denote {showIv (rulesDenote dsts)}"
          else .ok
        | none => .bad "prod rules"
      | _ => .bad "prod"
    | _ => .bad "prod"
  | "pport" :: h :: rest =>
    match unhexStr h with
    | some s =>
      let m := (parsePort s).map fun r => (r.low.toNat, r.high.toNat)
      match rest, m with
      | ["err"], none => .ok
      | ["err"], some _ => .mismatch "model accepts this port token"
      | ["ok", lo, hi], m =>
        match nat? lo, nat? hi with
        | some lo, some hi =>
          -- oracle: an accepted token is `n` or `lo-hi` with lo ≤ hi, read as decimal
          match m with
          | some (a, b) => if (a, b) = (lo, hi) then .ok else .oracle s!"port token read as {lo}-{hi}, written {a}-{b}"
          | none => .oracle "accepted a malformed or inverted port token"
        | _, _ => .bad "pport"
      | _, _ => .bad "pport"
    | none => .bad "pport hex"
  | _ => .bad "unknown line"

end Check.C17
