import Upf.Model.Route
import Check.Util
/-!
C20 acceptor.  One trace line = one event sequence driven through the real `RouteController`
(`py/c20_driver.py`), with the module graph bessd holds after every event:

  seq <if(H0)> .. <if(Hn-1)> <known0(H0)> .. <known0(Hn-1)> <mac(H0)> .. <mac(Hn-1)>
      { | <event> : <nR> {<if> <pfx> <gate>}*nR <nU> {<if> <nh> <gate> <flags>}*nU <nErr> }*
  event = N <pfx> <nh> <if> | D <pfx> <nh> <if> | G <nh>

After every event, first the *oracle* — the property itself, evaluated on the observed graph against the
kernel's routes and the known MACs (both follow from the events alone; `Route` is not consulted) — then the
*correspondence*: `Route.step` reproduces the observed graph exactly, gate numbers included (the controller's
gate allocation is deterministic).
-/
namespace Check.C20
open Check Route

structure Graph where
  routes : List (Nat × Nat × Nat)          -- interface, prefix, gate
  mods : List (Nat × Nat × Nat × Nat)      -- interface, next hop, gate of <if>Routes linked to it, flags
  errs : Nat

def noGate : Nat := 9999
def manyGates : Nat := 9998

def take3 : Nat → List Nat → Option (List (Nat × Nat × Nat) × List Nat)
  | 0, l => some ([], l)
  | n+1, a :: b :: c :: l => do
    let (xs, rest) ← take3 n l
    pure ((a, b, c) :: xs, rest)
  | _, _ => none

def take4 : Nat → List Nat → Option (List (Nat × Nat × Nat × Nat) × List Nat)
  | 0, l => some ([], l)
  | n+1, a :: b :: c :: d :: l => do
    let (xs, rest) ← take4 n l
    pure ((a, b, c, d) :: xs, rest)
  | _, _ => none

def parseGraph : List Nat → Option Graph
  | nR :: rest => do
    let (rs, rest) ← take3 nR rest
    match rest with
    | nU :: rest => do
      let (us, rest) ← take4 nU rest
      match rest with
      | [e] => some ⟨rs, us, e⟩
      | _ => none
    | _ => none
  | _ => none

def parseEv : List String → Option Ev
  | ["N", p, h, i] => do pure (.newRoute ⟨← nat? p, ← nat? h, ← nat? i⟩)
  | ["D", p, h, i] => do pure (.delRoute ⟨← nat? p, ← nat? h, ← nat? i⟩)
  | ["G", h] => do pure (.newNeigh (← nat? h))
  | _ => none

def showR (r : R) : String := s!"pfx={r.pfx} via nh={r.nh} on if={r.ifc}"

def showEv : Ev → String
  | .newRoute r => s!"NEWROUTE {showR r}"
  | .delRoute r => s!"DELROUTE {showR r}"
  | .newNeigh h => s!"NEWNEIGH nh={h}"

/-- split a token list at every occurrence of `sep` -/
def splitAt (sep : String) (l : List String) : List (List String) :=
  l.foldr (fun t acc => if t == sep then [] :: acc else match acc with
    | [] => [[t]]
    | a :: as => (t :: a) :: as) [[]]

/-! ### the oracle: the property, on the observed graph -/

def kernelRoute? (kernel : List R) (i p : Nat) : Option R := kernel.find? (fun r => r.ifc == i && r.pfx == p)

/-- `none` = the property holds in this state; `some msg` = the clause that is false -/
def oracle (kernel : List R) (known : Nat → Bool) (g : Graph) (waitingAgain : List R := []) : Option String :=
  -- installed ⇒ the kernel has the route and its next hop's MAC is known
  match g.routes.find? (fun (i, p, _) => (kernelRoute? kernel i p).isNone) with
  | some (i, p, gt) => some s!"lookup table of if={i} holds pfx={p} (gate {gt}) but the kernel has no such route"
  | none =>
  match g.routes.find? (fun (i, p, _) => match kernelRoute? kernel i p with | some r => !known r.nh || waitingAgain.contains r | none => false) with
  | some (i, p, gt) => some s!"lookup table of if={i} holds pfx={p} (gate {gt}) although the MAC of its next hop is not known"
  | none =>
  -- kernel has it and the MAC is known ⇒ installed
  match kernel.find? (fun r => known r.nh && !waitingAgain.contains r && !(g.routes.any (fun (i, p, _) => i == r.ifc && p == r.pfx))) with
  | some r => some s!"kernel route {showR r} has a resolved next hop but is not in the lookup table"
  | none =>
  -- every installed route points at the gate linked to the (complete) Update module of its next hop
  let bad := g.routes.filterMap (fun (i, p, gt) =>
    match kernelRoute? kernel i p with
    | none => none
    | some r =>
      match g.mods.find? (fun (mi, mh, _, _) => mi == i && mh == r.nh) with
      | none => some s!"route {showR r} is installed at gate {gt} but there is no Update module for its next hop on that interface"
      | some (_, _, mg, fl) =>
        if mg != gt then some s!"route {showR r} is installed at gate {gt} but the Update module of its next hop is linked at gate {mg} (9999 = not linked, 9998 = several)"
        else if fl != 3 then some s!"Update module of nh={r.nh} on if={i} is incomplete: flags {fl} (1 = linked on to Merge, 2 = rewrites to the next hop's MAC)"
        else none)
  match bad with
  | m :: _ => some m
  | [] =>
  -- a module exists only while some installed route uses it
  match g.mods.find? (fun (mi, mh, _, _) =>
      !(g.routes.any (fun (i, p, _) => i == mi && (match kernelRoute? kernel i p with | some r => r.nh == mh | none => false)))) with
  | some (mi, mh, mg, _) =>
    if mi == 9 then some s!"an Update module exists whose name is not <interface>DstMAC<MAC of a next hop> (linked at gate {mg})"
    else some s!"Update module of nh={mh} on if={mi} (gate {mg}) exists but no installed route uses it"
  | none =>
  -- distinct live next hops of one lookup module have distinct gates
  match g.mods.find? (fun (mi, mh, mg, _) => g.mods.any (fun (ni, nh', ng, _) => ni == mi && nh' != mh && ng == mg)) with
  | some (mi, mh, mg, _) => some s!"next hop {mh} shares gate {mg} of if={mi} with another live next hop"
  | none =>
  if g.errs != 0 then some s!"bessd rejected {g.errs} command(s) of the controller although the graph is in step"
  else none

/-! ### correspondence: the graph of the model state -/

def modelGraph (nIf nNh : Nat) (s : St) : Graph :=
  { routes := s.installed.map (fun e => (e.1.ifc, e.1.pfx, e.2)),
    mods := (List.range nIf).flatMap (fun i =>
      (List.range nNh).filterMap (fun h => (s.mods i h).map (fun g => (i, h, g, 3)))),
    errs := 0 }

def sameSet {α : Type} [BEq α] (a b : List α) : Bool :=
  a.length == b.length && a.all (b.contains ·) && b.all (a.contains ·)

def showRoutes (l : List (Nat × Nat × Nat)) : String :=
  " ".intercalate (l.map (fun (i, p, g) => s!"if{i}:pfx{p}->g{g}"))

def showMods (l : List (Nat × Nat × Nat × Nat)) : String :=
  " ".intercalate (l.map (fun (i, h, g, _) => s!"if{i}:nh{h}@g{g}"))

/-- next hop and interface numbers are inside the universe of the header -/
def inRange (ifmap : List Nat) : Ev → Bool
  | .newRoute r => r.nh < ifmap.length && r.ifc < 2
  | .delRoute r => r.nh < ifmap.length && r.ifc < 2
  | .newNeigh h => h < ifmap.length

/-- is the event inside the envelope? — literally the hypothesis `Route.Ev.ok` of the theorems, decided on the
model state (whose `kernel` component is the kernel's routes: `Props.C20.env_exact`); a harness error otherwise -/
def evOk (ifmap : List Nat) (s : St) (ev : Ev) : Bool :=
  inRange ifmap ev && decide (Ev.ok (fun h => ifmap.getD h 0) s ev)

def kernelStep (kernel : List R) : Ev → List R
  | .newRoute r => r :: kernel
  | .delRoute r => kernel.erase r
  | .newNeigh _ => kernel

def knownStep (known : Nat → Bool) : Ev → Nat → Bool
  | .newNeigh h => fun x => if x = h then true else known x
  | _ => known

/-- `ndb` is what the kernel's neighbour table lists now; `known` what has been resolved at some time (the oracle's "MAC is known":
the controller never un-installs on aging); `again` = kernel routes added while their next hop had aged out and not resolved again since -/
def replay (ifmap : List Nat) : List (List String) → Nat → List R → (Nat → Bool) → St → (again : List R := []) → Verdict
  | [], _, _, _, _, _ => .ok
  | seg :: rest, k, kernel, known, s, again =>
    match splitAt ":" seg with
    | [evt, gt] =>
      match evt, (nats? gt).bind parseGraph with
      | ["F", h], some g =>
        -- the neighbour entry of next hop h ages out of the kernel's table: no event reaches the controller, nothing may change
        match nat? h with
        | none => .bad s!"event {k}: cannot parse"
        | some h =>
          if h ≥ ifmap.length then .bad s!"event {k} (aging of nh={h}) is outside the envelope" else
          match oracle kernel known g again with
          | some msg => .oracle s!"after event {k} (neighbour entry of nh={h} aged out of the kernel's table): {msg}"
          | none =>
            let s' := { s with known := fun x => if x = h then false else s.known x }
            let m := modelGraph 2 ifmap.length s'
            if !sameSet m.routes g.routes || !sameSet m.mods g.mods then
              .mismatch s!"after event {k} (aging of nh={h}): the graph changed although no event was delivered"
            else replay ifmap rest (k + 1) kernel known s' again
      | _, _ =>
      match parseEv evt, (nats? gt).bind parseGraph with
      | some ev, some g =>
        if !evOk ifmap s ev then .bad s!"event {k} ({showEv ev}) is outside the envelope" else
        let kernel' := kernelStep kernel ev
        let known' := knownStep known ev
        let again' := match ev with
          | .newRoute r => if known r.nh && !s.known r.nh then r :: again else again
          | .delRoute r => again.erase r
          | .newNeigh h => again.filter (fun r => r.nh != h)
        match oracle kernel' known' g again' with
        | some msg =>
          .oracle (s!"after event {k} ({showEv ev}): {msg}" ++
            (if g.errs != 0 then s!" [bessd rejected {g.errs} command(s) during this event]" else ""))
        | none =>
          let s' := step s ev
          let m := modelGraph 2 ifmap.length s'
          if !sameSet m.routes g.routes then
            .mismatch s!"after event {k} ({showEv ev}): lookup tables: model [{showRoutes m.routes}], observed [{showRoutes g.routes}]"
          else if !sameSet m.mods g.mods then
            .mismatch s!"after event {k} ({showEv ev}): Update modules: model [{showMods m.mods}], observed [{showMods g.mods}]"
          else replay ifmap rest (k + 1) kernel' known' s' again'
      | _, _ => .bad s!"event {k}: cannot parse"
    | _ => .bad s!"event {k}: expected <event> : <graph>"

def check (_lineNo : Nat) (line : String) : Verdict :=
  match splitAt "|" (toks line) with
  | ("seq" :: hdr) :: segs =>
    match nats? hdr with
    | some hdr =>
      let n := hdr.length / 3
      if hdr.length != 3 * n || n == 0 then .bad "header" else
      let ifmap := hdr.take n
      let k0 := (hdr.drop n).take n
      let macs := hdr.drop (2 * n)
      if ifmap.any (· ≥ 2) then .bad "header: interface" else
      -- envelope: on one interface the next hops have distinct MACs
      if (List.range n).any (fun a => (List.range n).any (fun b =>
          a != b && ifmap.getD a 0 == ifmap.getD b 0 && macs.getD a 0 == macs.getD b 0)) then
        .bad "header: two next hops of one interface share a MAC (outside the envelope)" else
      let known : Nat → Bool := fun h => k0.getD h 0 == 1
      replay ifmap segs 1 [] known (Route.init known)
    | none => .bad "header numbers"
  | _ => .bad "unknown line"

end Check.C20
