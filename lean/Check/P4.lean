import Check.Sys
import Upf.Model.AgentUp4
import Upf.Model.P4Valid
/-!
Acceptor for system-level traces on the UP4 datapath. Per event: the model (`Agent4` over `Up4`) is run with the
environment's choices read off the observation (identifiers popped from set-typed pools, the fate of each Write RPC);
the Write RPCs it predicts must be the observed ones, update by update and status by status, and its switch state and
pool occupancy must be the observed ones (correspondence). The oracles of C04 (image), C15 (identifiers) and C16
(validity) are evaluated on the observation itself.
-/
namespace Check.P4
open Lean (Json)
open Check.Sys Agent Up4 Agent4

structure St4 where
  cfg : Cfg := { accessIP := 0, coreIP := 0, ueAlloc := false, endMarker := false, qci := [] }
  cfg4 : Cfg4 := { accessIP := 0, uePool := (0, 0) }
  poolBase : Option (Nat × Nat) := none
  x : World4 := {}
  started : Bool := false
  seenDiff : List String := []
  seenPool : List String := []
  /-- (session, PDR ID) of PDRs created by an accepted modification: `sendUpdate` allocates no counter cell for them (open finding) -/
  createdInMod : List (Nat × Nat) := []
  /-- meter cells a previous incarnation left configured (the crash clause of C04 speaks of table entries only) -/
  staleMeters : List (Nat × Nat) := []
  /-- histories that led to known kinds of leftovers: tags accumulated per session / globally, used to label findings -/
  tags : List String := []

/-! ## decoding the observation -/

def kindOf : Nat → P4.Kind
  | 0 => .exact | 1 => .lpm | 2 => .ternary | 3 => .range | _ => .optional

def entryOf (j : Json) : Entry :=
  { table := getNat j "t", prio := getNat j "p", action := getNat j "a",
    ms := (getArr j "m").map fun m => match arrNats m with
      | [fid, k, v, aux, len] => ⟨fid, kindOf k, v, aux, len⟩
      | _ => ⟨0, .exact, 0, 0, 0⟩,
    ps := (getArr j "ps").map fun p => match arrNats p with
      | [id, v, len] => (id, v, len)
      | _ => (0, 0, 0) }

def opOf (s : String) : Op := if s = "I" then .insert else if s = "D" then .delete else .modify

structure ObsUp where
  upd : Upd
  code : Nat
  big : Bool

def obsUpd (j : Json) : ObsUp :=
  let op := opOf (getStr j "op")
  let ent : Ent := match getStr j "kind" with
    | "t" => .tbl (entryOf ((getObj? j "e").getD Json.null))
    | "m" => .meter (getNat j "id") (getNat j "idx") ((getObj? j "cfg").map fun c => match arrNats c with
        | [a, b, c, d] => ⟨a, b, c, d⟩
        | _ => ⟨0, 0, 0, 0⟩)
    | _ => .counter (getNat j "id") (getNat j "idx")
  { upd := ⟨op, ent⟩, code := getNat j "code", big := getBool j "big" }

structure ObsRpc where
  ups : List ObsUp
  inj : Inj

def obsRpc (j : Json) : ObsRpc :=
  let ups := (getArr j "ups").map obsUpd
  let inj : Inj := match getStr j "inj" with
    | "rpc" => .rpc
    | "upd" => .upd (getNat j "j") ((ups.getD (getNat j "j") ⟨⟨.modify, .counter 0 0⟩, 0, false⟩).code)
    | _ => .none
  { ups := ups, inj := inj }

/-- the identifiers `Pop()` produced, in the order the plug-in drew them: each is visible in the Write that follows it -/
def picksOf (rs : List ObsRpc) : List Nat :=
  rs.flatMap fun r =>
    match r.ups with
    | ⟨⟨_, .counter _ idx⟩, _, _⟩ :: _ => [idx]
    | ups => ups.filterMap fun u => match u.upd.ent with
      | .meter _ idx (some _) => some idx
      | _ => none

def insertFM (m : FM) : List FM → List FM
  | [] => [m]
  | y :: ys => if m.fid ≤ y.fid then m :: y :: ys else y :: insertFM m ys

/-- match fields in ascending field id (the wire order is immaterial) -/
def canonE (e : Entry) : Entry := { e with ms := e.ms.foldr insertFM [] }

/-- for the image (C04) the priority of an applications entry is immaterial: the statement asks for one entry per filter -/
def imgE (e : Entry) : Entry :=
  let e := canonE e
  if e.table == Gen.P4Constants.TablePreQosPipeApplications then { e with prio := 0 } else e

def canonU (u : Upd) : Upd :=
  match u.ent with
  | .tbl e => { u with ent := .tbl (canonE e) }
  | _ => u

def showFM (m : FM) : String := s!"{m.fid}:{repr m.kind}:{m.v}/{m.aux}#{m.len}"
def showE (e : Entry) : String := s!"t{e.table} {e.ms.map showFM} p{e.prio} a{e.action} {e.ps}"
def showU (u : Upd) : String :=
  (match u.op with | .insert => "INSERT " | .modify => "MODIFY " | .delete => "DELETE ") ++
  match u.ent with
  | .tbl e => showE e
  | .meter id idx cfg => s!"meter {id}[{idx}] " ++ (match cfg with | some c => s!"pir={c.pir} pburst={c.pburst} cir={c.cir} cburst={c.cburst}" | none => "reset")
  | .counter id idx => s!"counter {id}[{idx}]"

def tableName (id : Nat) : String :=
  ((Up4.info.tables.find? (·.id == id)).map fun t => (t.name.splitOn ".").getLast!).getD s!"table{id}"

/-- predicted vs observed Write RPCs of one event -/
def rpcFindings (label : String) (pred : List Rpc) (obs : List ObsRpc) : List Finding :=
  if pred.length ≠ obs.length then
    [⟨"model", s!"{label}: {obs.length} Write RPCs observed, the model issues {pred.length}: observed {(obs.map fun r => r.ups.map fun u => showU u.upd).take 12}, model {(pred.map fun r => r.ups.map showU).take 12}"⟩]
  else
    (pred.zip obs).zipIdx.flatMap fun ((p, o), i) =>
      let pu := p.ups.map canonU
      let ou := o.ups.map fun u => canonU u.upd
      if pu != ou then [⟨"model", s!"{label}: Write #{i}: observed {ou.map showU}, model {pu.map showU}"⟩]
      else if p.inj != .rpc ∧ p.codes != o.ups.map (·.code) then
        [⟨"model", s!"{label}: Write #{i}: statuses {o.ups.map (·.code)}, the switch model answers {p.codes}"⟩]
      else []

def insertE (x : String) : List String → List String
  | [] => [x]
  | y :: ys => if x ≤ y then x :: y :: ys else y :: insertE x ys

def entryLines (es : List Entry) : List String := (es.map fun e => showE (canonE e)).foldr insertE []

def obsEntries (p4 : Json) : List Entry := (getArr p4 "entries").map entryOf
def obsMeters (p4 : Json) : List ((Nat × Nat) × MeterCfg) :=
  (getArr p4 "meters").map fun m => match arrNats m with
    | [id, idx, a, b, c, d] => ((id, idx), ⟨a, b, c, d⟩)
    | _ => ((0, 0), ⟨0, 0, 0, 0⟩)

def meterLines (ms : List ((Nat × Nat) × MeterCfg)) : List String :=
  (ms.map fun m => s!"meter {m.1.1}[{m.1.2}] pir={m.2.pir} pburst={m.2.pburst}").foldr insertE []

/-- switch state and pool occupancy: observation vs model -/
def stateFindings (label : String) (st : Up4.St) (p4 : Json) : List Finding :=
  let oe := entryLines (obsEntries p4)
  let me := entryLines st.srv.entries
  let om := meterLines (obsMeters p4)
  let mm := meterLines st.srv.meters
  let so := (getObj? p4 "stats").getD Json.null
  let stats : List (String × Nat) := [("ctr_free", st.ctrFree.length), ("app_free", st.appFree.length), ("sess_free", st.sessFree.length),
    ("peer_pool", st.peerPool.length), ("app_pool", st.appPool.length), ("peers", st.peers.length), ("apps", st.apps.length),
    ("meters", st.meters.length), ("ue2f", st.ue2f.length), ("f2ue", st.f2ue.length)]
  let bad := stats.filter fun (k, v) => getNat so k != v
  (if oe != me then [⟨"model", s!"{label}: switch tables differ from the model: {Check.Sys.diffStr me oe}"⟩] else []) ++
  (if om != mm then [⟨"model", s!"{label}: configured meter cells differ from the model: {Check.Sys.diffStr mm om}"⟩] else []) ++
  (if so != Json.null ∧ !bad.isEmpty then [⟨"model", s!"{label}: plug-in bookkeeping differs from the model: {bad.map fun (k, v) => s!"{k}={getNat so k} (model {v})"}"⟩] else [])

/-! ## oracles -/

/-- the P4Info the switch serves: the shipped one, with the counters resized when the harness serves a smaller pipeline -/
def servedInfo (cfg4 : Cfg4) : P4.Info :=
  if cfg4.ctrSize = 0 then Up4.info else { Up4.info with counters := Up4.info.counters.map fun a => { a with size := cfg4.ctrSize } }

/-- the counter index a terminations entry carries (its `ctr_idx` action parameter) -/
def ctrIdxOf (e : Entry) : Option Nat :=
  (Up4.info.actions.find? (·.id == e.action)).bind fun act => (act.params.find? (·.name == "ctr_idx")).bind fun p => (e.ps.find? (·.1 == p.id)).map (·.2.1)

/-- C16: every update of every Write is valid for the pipeline the switch serves: tables, match fields, actions and parameters as
declared; meter and counter indices — those written directly and those carried by a terminations entry — inside the declared arrays -/
def validityFindings (label : String) (obs : List ObsRpc) (cfg4 : Cfg4 := { accessIP := 0, uePool := (0, 0) }) : List Finding :=
  obs.flatMap fun r => r.ups.flatMap fun u =>
    (if u.big then [⟨"C16", s!"{label}: a value does not fit 64 bits: {showU u.upd}"⟩]
     else if validUpd (servedInfo cfg4) u.upd then []
     else [⟨"C16", s!"{label}: update is not valid for the pipeline's P4Info ({tableName (match u.upd.ent with | .tbl e => e.table | _ => 0)}): {showU u.upd}"⟩]) ++
    (match u.upd.ent with
     | .tbl e =>
       -- an LPM match value has no bit set beyond its prefix length (P4Runtime: the server rejects the write otherwise)
       (e.ms.filterMap fun m => if m.kind == .lpm ∧ m.aux ≤ 32 ∧ m.v % 2 ^ (32 - m.aux) != 0 then
          some ⟨"C16", s!"{label}: LPM match value {m.v} has bits set beyond its prefix length {m.aux}: {showU u.upd}"⟩ else none)
     | _ => []) ++
    (match u.upd.ent with
     | .tbl e =>
       if u.upd.op == .delete then [] else
       match ctrIdxOf e with
       | some v => if v < Up4.ctrCells cfg4 then [] else
           [⟨"C16", s!"{label}: a terminations entry counts into cell {v}, outside the counter's {Up4.ctrCells cfg4} cells: {showU u.upd}"⟩]
       | none => []
     | _ => [])

def interfacesEntries (cfg4 : Cfg4) : List Entry :=
  (buildInterface cfg4.uePool.1 cfg4.uePool.2 cfg4.sliceID true).toList ++ (buildInterface cfg4.accessIP cfg4.accessLen cfg4.sliceID false).toList

/-- the image of the live sessions: groups of candidate entries (exactly one entry of each group must be installed:
PDRs with the same key share an entry, PDRs with the same application filter share an applications entry), configured
meter cells, and what could not be built for want of an identifier -/
def image (cfg4 : Cfg4) (x : World4) : List (String × List Entry) × List (Nat × Nat) × List String :=
  let ss := live x
  let st := x.c.st
  let per := ss.flatMap fun s => s.pdrs.map fun p => (s, p, pdrImage cfg4 st s p)
  let keyed : List (String × Entry) := per.flatMap fun (_, p, r) =>
    match r with
    | some (se :: te :: apps) =>
      let se := imgE se; let te := imgE te
      [(showE { se with action := 0, ps := [] }, se), (showE { te with action := 0, ps := [] }, te)] ++
      apps.map fun ae => (s!"application {(afOf p).ip} {(afOf p).ports.low.toNat}-{(afOf p).ports.high.toNat} {(afOf p).proto}", imgE ae)
    | _ => []
  let holes := per.filterMap fun (s, p, r) => if r.isNone then some s!"PDR {p.pdrID} of session {s.lseid}" else none
  let peers : List (String × Entry) := (livePeers cfg4 ss).filterMap fun tp =>
    (mapGet st.peers tp).bind fun pr => (buildPeer pr.id tp).map fun e => (s!"peer {tp.dst}:{tp.port}", imgE e)
  let peerHoles := (livePeers cfg4 ss).filterMap fun tp => if (mapGet st.peers tp).isNone then some s!"tunnel peer {tp.dst}:{tp.port}" else none
  let ifs : List (String × Entry) := (interfacesEntries cfg4).map fun e => (showE (imgE e), imgE e)
  let all := ifs ++ keyed ++ peers
  let groups := (all.map (·.1)).eraseDups.map fun k => (k, ((all.filter (·.1 == k)).map (·.2)).eraseDups)
  let cells := ss.flatMap fun s => s.qers.flatMap fun q =>
    match mapGet st.meters (q.qerID, q.fseID) with
    | some m =>
      let mid := if m.kind = 1 then Gen.P4Constants.MeterPreQosPipeAppMeter else Gen.P4Constants.MeterPreQosPipeSessionMeter
      ([(mid, m.ul)] ++ (if m.dl ≠ m.ul then [(mid, m.dl)] else [])).filter (·.2 ≠ 0)
    | none => []
  (groups, cells.eraseDups, holes ++ peerHoles)

/-- why the plug-in's bookkeeping no longer fits the live sessions (labels for findings; computed on the model state) -/
def causes (cfg4 : Cfg4) (x : World4) : List String :=
  let st := x.c.st
  let ss := live x
  let isLive (f : Nat) : Bool := ss.any (·.lseid == f)
  let peerC := st.peers.flatMap fun (tp, pr) => pr.usedBy.filterMap fun (f, id) =>
    if !isLive f then some "reference-held-by-an-ended-or-refused-session"
    else match (ss.find? (·.lseid == f)).bind fun s => s.fars.find? (·.farID == id) with
      | some far => if tpOf cfg4 far != tp then some "tunnel-peer-reference-of-a-FAR-that-moved-or-lost-its-tunnel" else none
      | none => some "tunnel-peer-reference-of-a-removed-FAR"
  let appC := st.apps.flatMap fun (af, ap) => ap.usedBy.filterMap fun (f, id) =>
    if !isLive f then some "reference-held-by-an-ended-or-refused-session"
    else match (ss.find? (·.lseid == f)).bind fun s => s.pdrs.find? (·.pdrID == id) with
      | some p => if afOf p != af then some "application-reference-of-a-PDR-whose-filter-changed" else none
      | none => some "application-reference-of-a-removed-PDR"
  let phantom := st.apps.filterMap fun (_, ap) =>
    if st.srv.entries.any fun e => e.table == Gen.P4Constants.TablePreQosPipeApplications && e.ps.any fun pv => pv.2.1 == ap.id then none
    else some "application-recorded-without-its-entry"
  let meterC := st.meters.filterMap fun (k, _) => if !isLive k.2 then some "meter-of-an-ended-or-refused-session" else none
  (peerC ++ appC ++ phantom ++ meterC).eraseDups

/-- C04: the switch holds exactly the image; new discrepancies are reported once, with the event that introduced them -/
def imageFindings (s : St4) (p4 : Json) (label : String) (predicted : Bool) : St4 × List Finding :=
  let (groups, cells, holes) := image s.cfg4 s.x
  let oes := (obsEntries p4).map imgE
  let cands := groups.flatMap (·.2)
  let ocAll := (obsMeters p4).map (·.1)
  let oc := ocAll.filter fun c => !s.staleMeters.contains c ∨ cells.contains c
  let diffs :=
    (groups.filter fun g => !g.2.any oes.contains).map (fun g => "missing " ++ showE (g.2.headD { table := 0 })) ++
    (oes.filter (!cands.contains ·)).map (fun e => "extra " ++ showE e) ++
    (groups.filter fun g => (g.2.filter oes.contains).length > 1).map (fun g => "duplicated " ++ showE (g.2.headD { table := 0 })) ++
    (cells.filter (!ocAll.contains ·)).map (fun c => s!"missing-meter {c.1}[{c.2}]") ++
    (oc.filter (!cells.contains ·)).map (fun c => s!"extra-meter {c.1}[{c.2}]") ++
    holes.map ("no-identifier-for " ++ ·)
  let new := diffs.filter (!s.seenDiff.contains ·)
  let kindOfDiff (d : String) : String :=
    let w := d.splitOn " "
    let k := w.headD ""
    if k = "missing" ∨ k = "extra" ∨ k = "duplicated" then k ++ ":" ++ tableName (((w.getD 1 "").drop 1).toNat!) else k
  let kinds := (new.map kindOfDiff).eraseDups
  let p := if predicted then "predicted-by-model" else "not-predicted"
  ({ s with seenDiff := diffs },
   if new.isEmpty then [] else
     [⟨"C04", s!"{label} {p} causes={causes s.cfg4 s.x}: the switch does not hold the image of the live sessions {kinds}: {new.take 4}"⟩])

/-- the entries of the observation that reference identifiers, per kind: (id, key of the referencing entry) -/
def refs (es : List Entry) : List (String × Nat × String) :=
  open Gen.P4Constants in
  es.flatMap fun e =>
    let key := showE { e with action := 0, ps := [] }
    let param (a : Nat) (name : String) : Option Nat :=
      if e.action != a then none else
      (Up4.info.actions.find? (·.id == a)).bind fun act => (act.params.find? (·.name == name)).bind fun p => (e.ps.find? (·.1 == p.id)).map (·.2.1)
    let ctr := [ActionPreQosPipeUplinkTermFwd, ActionPreQosPipeUplinkTermDrop, ActionPreQosPipeDownlinkTermFwd, ActionPreQosPipeDownlinkTermDrop].filterMap
      fun a => (param a "ctr_idx").map fun v => ("counter", v, key)
    ctr

/-- C15 on the observation: a counter cell is referenced by at most one terminations entry -/
def exclusiveFindings (label : String) (p4 : Json) (counterless : Bool := false) : List Finding :=
  let rs := refs (obsEntries p4)
  -- (a live PDR created by a modification has no cell of its own and counts into cell 0: reported as such, once, by `common`)
  let dup := rs.filter fun (k, v, key) => !(counterless && k == "counter" && v == 0) && rs.any fun (k', v', key') => k == k' && v == v' && key != key'
  -- a tunnel-peer ID an installed sessions entry points to must be allocated, i.e. have its tunnel_peers entry
  let es := obsEntries p4
  let peerIDs := (es.filter (·.table == Gen.P4Constants.TablePreQosPipeTunnelPeers)).filterMap fun e => e.ms.head?.map (·.v)
  let dangling := (es.filter fun e => e.action == Gen.P4Constants.ActionPreQosPipeSetSessionDownlink).filterMap fun e =>
    match e.ps.find? (·.1 == 1) with
    | some (_, v, _) => if v != 0 && !peerIDs.contains v then some (v, showE { e with action := 0, ps := [] }) else none
    | none => none
  (match dup with
  | [] => []
  | (k, v, key) :: _ => [⟨"C15", s!"{label}: {k} cell {v} is used by two installed entries at once (one of them {key})"⟩]) ++
  (match dangling with
  | [] => []
  | (v, key) :: _ => [⟨"C15", s!"{label}: tunnel-peer ID {v} is referenced by the installed entry {key} but has no tunnel_peers entry (released while a live session uses it)"⟩])

/-- C15: pool invariants of the model state (evaluated, not assumed): free ∪ held is duplicate-free and inside the universe -/
def poolFindings (label : String) (x : World4) (p4 : Json) (skip : List (Nat × Nat) := []) (ctrCells : Nat := 1024) : List Finding :=
  let st := x.c.st
  let so := (getObj? p4 "stats").getD Json.null
  let ss := live x
  -- cells of the live PDRs that were given one (`skip`: PDRs created by a modification, which hold none)
  let heldCtr := ss.flatMap fun s => (s.pdrs.filter fun p => !skip.contains (s.lseid, p.pdrID)).map (·.ctrID)
  let heldApp := st.meters.flatMap fun m => if m.2.kind = 1 then ([m.2.ul] ++ if m.2.dl ≠ m.2.ul then [m.2.dl] else []) else []
  let heldSess := st.meters.flatMap fun m => if m.2.kind = 2 then [m.2.ul, m.2.dl] else []
  let uni (k : String) (free : Nat) (held : Nat) (size : Nat) : List Finding :=
    if so != Json.null ∧ free + held > size then
      [⟨"C15", s!"{label}: the {k} pool has {free} free identifiers while {held} are held by live owners: more than the {size} it was created with (an identifier entered the pool from elsewhere or is free and held at once)"⟩] else []
  let books (k : String) (free held size : Nat) : List Finding :=
    if so != Json.null ∧ (getObj? so "app_held").isSome ∧ free + held != size then
      [⟨"C15", s!"{label}: the {k} pool holds {free} free cells and the plug-in's meters account for {held}: together not the {size} cells the pool was created with (a cell left its pool without an owner, or entered it from another pool)"⟩] else []
  books "application-meter" (getNat so "app_free") (getNat so "app_held") 1023 ++
  books "session-meter" (getNat so "sess_free") (getNat so "sess_held") 1023 ++
  uni "counter" (getNat so "ctr_free") heldCtr.eraseDups.length ctrCells ++
  uni "application-meter" (getNat so "app_free") heldApp.eraseDups.length 1023 ++
  uni "session-meter" (getNat so "sess_free") heldSess.eraseDups.length 1023 ++
  (if !nodupNat heldCtr then [⟨"C15", s!"{label}: two live PDRs hold the same counter cell"⟩] else []) ++
  (if !nodupNat heldApp then [⟨"C15", s!"{label}: two live QERs hold the same application-meter cell"⟩] else []) ++
  (if !nodupNat heldSess then [⟨"C15", s!"{label}: two live QERs hold the same session-meter cell"⟩] else []) ++
  (if heldCtr.any st.ctrFree.contains then [⟨"C15", s!"{label}: a counter cell of a live PDR is in the free pool"⟩] else []) ++
  (if heldApp.any st.appFree.contains then [⟨"C15", s!"{label}: an application-meter cell of a live QER is in the free pool"⟩] else []) ++
  (if heldSess.any st.sessFree.contains then [⟨"C15", s!"{label}: a session-meter cell of a live QER is in the free pool"⟩] else []) ++
  (if (st.peers.map (·.2.id)).any st.peerPool.contains ∨ !nodupNat (st.peers.map (·.2.id)) then [⟨"C15", s!"{label}: a tunnel-peer ID is held twice or free and held"⟩] else []) ++
  (if (st.apps.map (·.2.id)).any st.appPool.contains ∨ !nodupNat (st.apps.map (·.2.id)) then [⟨"C15", s!"{label}: an application ID is held twice or free and held"⟩] else [])

/-- C15: a request one of whose writes failed is not answered "accepted" -/
def failedWriteFindings (label : String) (obs : List ObsRpc) (cause : Nat) : List Finding :=
  let failed := obs.any fun r => r.inj != .none ∨ r.ups.any fun u => u.code != codeOK ∧ u.code != codeAlreadyExists
  if failed ∧ cause = causeAccepted then [⟨"C15", s!"{label}: a datapath write of the request failed and the request was answered 'accepted'"⟩] else []

/-! ## stepping -/

def withEnv (x : World4) (obs : List ObsRpc) : World4 :=
  { x with c := { x.c with picks := picksOf obs, injs := obs.map (·.inj), log := [] } }

def modParts (req : ModReq) : List String :=
  (if req.cpFseid.isSome then ["cpf"] else []) ++ (if req.createPdrs.isEmpty then [] else ["cp"]) ++
  (if req.createFars.isEmpty then [] else ["cf"]) ++ (if req.createQers.isEmpty then [] else ["cq"]) ++
  (if req.updatePdrs.isEmpty then [] else ["up"]) ++ (if req.updateFars.isEmpty then [] else ["uf"]) ++
  (if req.updateQers.isEmpty then [] else ["uq"]) ++ (if req.removePdrs.isEmpty then [] else ["rp"]) ++
  (if req.removeFars.isEmpty then [] else ["rf"]) ++ (if req.removeQers.isEmpty then [] else ["rq"])

/-- does the request remove a PDR whose sessions-table key another PDR of the session (that stays) has as well -/
def removesSharing (ses : Option Session) (ids : List Nat) : Bool :=
  match ses with
  | none => false
  | some ses => ids.any fun id =>
    match ses.pdrs.find? (·.pdrID = id) with
    | none => false
    | some p => ses.pdrs.any fun q => q.pdrID != id && !ids.contains q.pdrID && q.srcIface == p.srcIface &&
        (if p.srcIface = Sdf.access then q.tunnelTEID == p.tunnelTEID && q.tunnelIP4Dst == p.tunnelIP4Dst else q.ueAddress == p.ueAddress)

def common (s : St4) (label : String) (obs : Json) (x' : World4) (cause : Nat) (checkImage : Bool) : St4 × List Finding :=
  let p4 := (getObj? obs "p4").getD Json.null
  let rpcs := (getArr p4 "rpcs").map obsRpc
  let s' := { s with x := x' }
  let rf := rpcFindings label x'.c.log rpcs
  let sf := stateFindings label x'.c.st p4
  let predicted := rf.isEmpty ∧ sf.isEmpty
  let (s'', imf) := if checkImage then imageFindings s' p4 label predicted else (s', [])
  -- C05 on UP4: with no session live the plug-in holds nothing and the switch only the interfaces entries
  let so := (getObj? p4 "stats").getD Json.null
  let idle : List Finding :=
    if !(live x').isEmpty ∨ so == Json.null then [] else
    let want : List (String × Nat) := [("ctr_free", Up4.ctrCells s.cfg4), ("app_free", 1023), ("sess_free", 1023), ("peer_pool", 253), ("app_pool", 254),
      ("peers", 0), ("apps", 0), ("meters", 0), ("ue2f", 0), ("f2ue", 0)]
    let bad := want.filter fun (k, v) => getNat so k != v
    let extra := (obsEntries p4).filter fun e => e.table != Gen.P4Constants.TablePreQosPipeInterfaces
    (if bad.isEmpty then [] else [⟨"C05", s!"{label}: no session is live, but the UP4 plug-in has not got everything back: {bad.map fun (k, v) => s!"{k}={getNat so k} (all returned: {v})"}"⟩]) ++
    (if extra.isEmpty then [] else [⟨"C05", s!"{label}: no session is live, but the switch still holds {extra.length} entries besides the interfaces, e.g. {(extra.take 2).map showE}"⟩]) ++
    (if (obsMeters p4).filter (fun m => !s.staleMeters.contains m.1) |>.isEmpty then [] else [⟨"C05", s!"{label}: no session is live, but meter cells are still configured"⟩])
  -- conditions on the pools persist: each is reported at the event that introduces it
  let strip (m : String) : String := ((m.splitOn ": ").drop 1).foldl (· ++ ·) ""
  let liveSkip := s.createdInMod.filter fun (f, id) => (live x').any fun ses => ses.lseid == f && ses.pdrs.any (·.pdrID == id)
  let pf := poolFindings label x' p4 liveSkip (Up4.ctrCells s.cfg4) ++ exclusiveFindings label p4 (!liveSkip.isEmpty)
  let newPf := pf.filter fun f => !s.seenPool.contains (strip f.msg)
  ({ s'' with seenPool := pf.map fun f => strip f.msg }, rf ++ sf ++ validityFindings label rpcs s.cfg4 ++ failedWriteFindings label rpcs cause ++ newPf ++ imf ++ idle)

def step (s : St4) (n : Nat) (line : String) : St4 × List Finding :=
  match Json.parse line with
  | .error e => (s, [⟨"bad", s!"json: {e}"⟩])
  | .ok j =>
    let obs := (getObj? j "obs").getD Json.null
    let p4 := (getObj? obs "p4").getD Json.null
    let rpcs := (getArr p4 "rpcs").map obsRpc
    match getStr j "k" with
    | "cfg" =>
      let p := (getObj? j "p4").getD Json.null
      let pool := match getNats p "uePool" with
        | [b, l] => (b, l)
        | _ => (0, 0)
      let tcs := (getArr p "qfiTC").map fun q => match arrNats q with
        | [a, b] => (a, b)
        | _ => (0, 0)
      -- a new run: new switch, new agent
      let s : St4 := {}
      ({ s with cfg := { accessIP := getNat j "access", coreIP := 0, ueAlloc := getBool j "ueAlloc", endMarker := getBool j "endMarker", qci := [] },
                cfg4 := { accessIP := getNat j "access", accessLen := getNat p "accessLen", uePool := pool, sliceID := getNat p "slice",
                          defaultTC := getNat p "defaultTC", qfiToTC := tcs, ctrSize := getNat p "ctrSize" },
                poolBase := if getBool j "ueAlloc" then some pool else none }, [])
    | "start" =>
      -- a new incarnation against the switch as the previous one left it
      let pool := if s.cfg.ueAlloc then
          s.poolBase.bind fun (b, l) => (NewPool.newPool (BitVec.ofNat 32 b) l).map fun u => ({ free := u, inv := [] } : Pool.P)
        else none
      let (c, _) := Up4.start s.cfg4 s.x.c.st.srv (rpcs.map (·.inj))
      let x' : World4 := { w := { pool := pool }, c := c }
      let stale := if s.started then (obsMeters p4).map (·.1) else []
      let s := { s with started := true, seenDiff := [], seenPool := [], staleMeters := stale }
      common s "start" obs x' 0 true
    | "kill" => (s, [])
    | "assoc" =>
      let a := getNat j "a"
      let fs := replyShape obs 6
      if getNat obs "cause" = 1 then ({ s with x := { s.x with w := assocSetup s.x.w a (getStr j "node") } }, fs)
      else (s, fs ++ [⟨"model", s!"association setup answered with cause {getNat obs "cause"}"⟩])
    | "est" =>
      let a := getNat j "a"
      let req : EstReq := { nodeID := getStr j "node", cpSeid := getNat j "cp", cpIP := getNat j "cpip",
                            pdrs := (getArr j "pdrs").map pdrIE, fars := (getArr j "fars").map farIE, qers := (getArr j "qers").map qerIE }
      let shape := replyShape obs 51
      if !shape.isEmpty then (s, shape) else
      -- a refused establishment does not reveal the SEID the session was given; what it leaves behind in the plug-in is
      -- keyed by it: take a value no real SEID can have
      let lseid := if getNat obs "up" = 0 then 18446744073709551616 + n else getNat obs "up"
      let (x', r) := Agent4.establish s.cfg s.cfg4 (withEnv s.x rpcs) a lseid req
      let label := if r.cause = 1 then "est" else "est-rejected"
      let (s', fs) := common s label obs x' (getNat obs "cause") true
      (s', replyFindings obs r ++ fs)
    | "mod" =>
      let a := getNat j "a"
      let cpf : Option (Nat × Nat) := (getObj? j "cpf").map fun t => match arrNats t with
          | [sd, ip] => (sd, ip)
          | _ => (0, 0)
      let req : ModReq := {
        seid := getNat j "seid"
        cpFseid := cpf
        createPdrs := (getArr j "cp").map pdrIE
        createFars := (getArr j "cf").map farIE
        createQers := (getArr j "cq").map qerIE
        updatePdrs := (getArr j "up").map pdrIE
        updateFars := (getArr j "uf").map farIE
        updateQers := (getArr j "uq").map qerIE
        removePdrs := getNats j "rp"
        removeFars := getNats j "rf"
        removeQers := getNats j "rq" }
      let shape := replyShape obs 53
      if !shape.isEmpty then (s, shape) else
      let (x', r) := Agent4.modify s.cfg s.cfg4 (withEnv s.x rpcs) a req
      let sharesKey := removesSharing ((s.x.w.conn a).sessions.find? (·.lseid = req.seid)) req.removePdrs
      -- an accepted Update PDR after which the rule has another application filter (its terminations entry moves to another key)
      let stored := (s.x.w.conn a).sessions.find? (·.lseid = req.seid)
      let afterS := (x'.w.conn a).sessions.find? (·.lseid = req.seid)
      let filterChange := r.cause = 1 && req.updatePdrs.any fun u =>
        match stored.bind (·.pdrs.find? (·.pdrID = u.id)), afterS.bind (·.pdrs.find? (·.pdrID = u.id)) with
        | some o, some n => afOf o != afOf n
        | _, _ => false
      let label := s!"mod{modParts req}" ++ (if sharesKey then " removes-a-PDR-that-shares-its-sessions-entry" else "") ++
        (if filterChange then " update-PDR-changes-filter" else "") ++ (if r.cause = 1 then "" else " rejected")
      -- PDRs created by this (accepted) modification and stored without a counter cell of their own
      let counterless : List (Nat × Nat) := if r.cause != 1 then [] else req.createPdrs.filterMap fun ie =>
        match afterS.bind (·.pdrs.find? (·.pdrID = ie.id)) with
        | some p => if p.ctrID == 0 && !(stored.map (·.pdrs.any (·.pdrID == ie.id))).getD false then some (req.seid, ie.id) else none
        | none => none
      let s := { s with createdInMod := s.createdInMod ++ counterless }
      let (s', fs) := common s label obs x' (getNat obs "cause") true
      (s', replyFindings obs r ++ fs ++
        (if counterless.isEmpty then [] else
          [⟨"C15", s!"{label}: a PDR created by a modification gets no counter cell of its own (stored with cell 0): PDR {counterless.map (·.2)} of session {req.seid}"⟩]))
    | "del" =>
      let a := getNat j "a"
      let shape := replyShape obs 55
      if !shape.isEmpty then (s, shape) else
      let (x', r) := Agent4.deleteSession s.cfg4 (withEnv s.x rpcs) a (getNat j "seid")
      let label := if r.cause = 1 then "del" else "del-rejected"
      let (s', fs) := common s label obs x' 0 true
      (s', replyFindings obs r ++ fs)
    | "release" =>
      let a := getNat j "a"
      -- Shutdown walks the association's sessions in map order: take the order from the observation (each session's removal
      -- begins with the DELETE of its first PDR's sessions entry, which carries its TEID or UE address)
      let keyOf (ses : Session) : Nat := match ses.pdrs.head? with
        | some p => if p.srcIface = Sdf.access then p.tunnelTEID else p.ueAddress
        | none => 0
      let posOf (ses : Session) : Nat :=
        (rpcs.zipIdx.find? fun (r, _) => r.ups.any fun u => match u.upd.ent with
          | .tbl e => e.ms.any (·.v == keyOf ses)
          | _ => false).map (·.2) |>.getD rpcs.length
      let conn := s.x.w.conn a
      let ordered := conn.sessions.foldr (fun ses acc =>
        let rec ins (l : List Session) : List Session := match l with
          | [] => [ses]
          | y :: ys => if posOf ses ≤ posOf y then ses :: y :: ys else y :: ins ys
        ins acc) []
      let x0 : World4 := { s.x with w := s.x.w.setConn a { conn with sessions := ordered } }
      let x' := Agent4.shutdownConn s.cfg4 (withEnv x0 rpcs) a
      let (s', fs) := common s "release" obs x' 0 true
      (s', replyShape obs 10 ++ fs)
    | "report65" =>
      let a := getNat j "a"
      let x' := Agent4.reportContextNotFound s.cfg4 (withEnv s.x rpcs) a (getNat j "seid")
      let (s', fs) := common s "report-context-not-found" obs x' 0 true
      (s', (if getNat obs "n" != 0 then [⟨"C02", "a Session Report Response was answered"⟩] else []) ++ fs)
    | "hb" => (s, replyShape obs 2)
    | "gen" =>
      (s, (if getStr j "error" != "" then [⟨"C16", s!"constants generator: {getStr j "error"}"⟩] else
        (if !getBool j "identical" then [⟨"C16", s!"the constants generator produced different outputs in {getNat j "runs"} runs on the same P4Info (not deterministic)"⟩] else []) ++
        (if !getBool j "equals_committed" then [⟨"C16", s!"the constants compiled into the agent are not the ones the generator derives from the shipped P4Info: {getStr j "diff"}"⟩] else [])))
    | "note" => (s, [])
    | k => (s, [⟨"bad", s!"unknown event {k}"⟩])

end Check.P4
