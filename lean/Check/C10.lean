import Check.Sys
/-! C10 acceptor: observable outcome of scripted teardown runs of the real agent. -/
namespace Check.C10
open Check Check.Sys Lean

def step (st : St) (n : Nat) (line : String) : St × List Verdict :=
  match Json.parse line with
  | .error e => (st, [.bad s!"json {e}"])
  | .ok j =>
    if getStr j "k" != "life" then
      let (st', fs) := Sys.step st n line
      (st', fs.filterMap fun f => if f.prop = "bad" then some (.bad f.msg) else none)
    else
      let obs := (getObj? j "obs").getD Json.null
      let what := s!"script {getStr j "script"} with {getNat j "assocs"} association(s)"
      let fs : List String :=
        (if getStr obs "crash" != "" then [s!"{what}: {getStr obs "crash"}"] else []) ++
        (if getBool j "stop" ∧ !getBool obs "stopped" then [s!"{what}: stopping the agent did not complete in bounded time"] else []) ++
        (if !getBool j "stop" ∧ !getBool obs "alive" then [s!"{what}: the agent is gone although it was not stopped"] else []) ++
        (if getNat obs "deleted_never" != 0 then [s!"{what}: {getNat obs "deleted_never"} datapath entries of ended sessions were never deleted"] else []) ++
        (if getNat obs "deleted_more" != 0 then [s!"{what}: {getNat obs "deleted_more"} datapath entries were deleted more than once"] else []) ++
        (if getNat obs "fresh_ok" != 1 then [s!"{what}: the same peer could not associate afresh"] else []) ++
        (if getNat obs "others_ok" != 1 then [s!"{what}: another association was affected"] else [])
      (st, fs.map fun m => .oracle s!"[C10] {m}")

end Check.C10
