import Check.P4
import Check.C06
import Check.C07
import Upf.Gen.Locks
/-! C11 acceptor: sequential cross-association histories on UP4 go through the UP4 model; concurrent streams are replayed
association by association (BESS: any serial order yields the same tables — `Tab.interleave_eq_seq`), and the quiescent
datapath is compared with what the live sessions denote; data-race reports of the agent built with -race are findings. -/
namespace Check.C11
open Lean (Json)
open Check Check.Sys

structure St where
  p4 : Bool := false
  sys : Sys.St := {}
  up4 : P4.St4 := {}
  /-- UP F-SEIDs of live sessions with the association holding them (the datapath is keyed by the SEID alone) -/
  seids : List (Nat × Nat) := []

def count (es : List Up4.Entry) (t : Nat) : Nat := (es.filter (·.table == t)).length

/-- the UP4 switch and the plug-in's books against the sessions the streams left, without fixing which identifier went where -/
def conc4 (label : String) (sessions : List Json) (p4 : Json) : List Finding :=
  open Gen.P4Constants in
  let es := P4.obsEntries p4
  let n := sessions.length
  let gnbs := (sessions.map fun s => getNat s "gnb").eraseDups.length
  let apps := ((sessions.map fun s => getStr s "app").filter (· != "")).eraseDups.length
  let appCells := (sessions.map fun s => if getNat s "nqer" = 3 then 2 else if getNat s "nqer" = 1 then 2 else 0).foldl (· + ·) 0
  let sessCells := (sessions.map fun s => if getNat s "nqer" = 3 then 2 else 0).foldl (· + ·) 0
  let nq := (sessions.map fun s => getNat s "nqer").foldl (· + ·) 0
  let want : List (String × Nat × Nat) := [
    ("sessions_uplink", count es TablePreQosPipeSessionsUplink, n), ("sessions_downlink", count es TablePreQosPipeSessionsDownlink, n),
    ("terminations_uplink", count es TablePreQosPipeTerminationsUplink, n), ("terminations_downlink", count es TablePreQosPipeTerminationsDownlink, n),
    ("tunnel_peers", count es TablePreQosPipeTunnelPeers, gnbs), ("applications", count es TablePreQosPipeApplications, apps),
    ("interfaces", count es TablePreQosPipeInterfaces, 2), ("configured meter cells", (P4.obsMeters p4).length, appCells + sessCells)]
  let so := (getObj? p4 "stats").getD Json.null
  let books : List (String × Nat × Nat) := [
    ("peers", getNat so "peers", gnbs), ("apps", getNat so "apps", apps), ("meters", getNat so "meters", nq), ("ue2f", getNat so "ue2f", n),
    ("f2ue", getNat so "f2ue", n), ("ctr_free", getNat so "ctr_free", 1024 - 2 * n), ("app_free", getNat so "app_free", 1023 - appCells),
    ("sess_free", getNat so "sess_free", 1023 - sessCells), ("peer_pool", getNat so "peer_pool", 253 - gnbs), ("app_pool", getNat so "app_pool", 254 - apps)]
  let appIDs := (es.filter (·.table == TablePreQosPipeApplications)).filterMap fun e => (e.ps.find? (·.1 == 1)).map (·.2.1)
  let termApp := (es.filter fun e => e.table == TablePreQosPipeTerminationsUplink || e.table == TablePreQosPipeTerminationsDownlink).filterMap fun e =>
    (e.ms.find? (·.fid == 2)).map (·.v)
  let noApp := termApp.filter fun a => a != 0 && !appIDs.contains a
  let param (e : Up4.Entry) (name : String) : Option Nat :=
    (Up4.info.actions.find? (·.id == e.action)).bind fun act => (act.params.find? (·.name == name)).bind fun p => (e.ps.find? (·.1 == p.id)).map (·.2.1)
  let appMeters := (es.filterMap fun e => param e "app_meter_idx").filter (· != 0)
  let sessMeters := (es.filterMap fun e => param e "session_meter_idx").filter (· != 0)
  (want.filter fun (_, got, exp) => got != exp).map (fun (k, got, exp) =>
    ⟨"C11", s!"{label}: {got} {k} entries after the concurrent streams, the {n} live sessions denote {exp}"⟩) ++
  (if so == Json.null then [] else (books.filter fun (_, got, exp) => got != exp).map (fun (k, got, exp) =>
    ⟨"C11", s!"{label}: the plug-in's {k} reads {got} after the concurrent streams, the {n} live sessions account for {exp} (a shared object or pool was miscounted)"⟩)) ++
  (if noApp.isEmpty then [] else [⟨"C11", s!"{label}: terminations entries use application IDs {noApp.take 3} that have no applications entry"⟩]) ++
  (if !Up4.nodupNat appMeters then [⟨"C11", s!"{label}: one application-meter cell is used by the entries of two rules"⟩] else []) ++
  (if !Up4.nodupNat sessMeters then [⟨"C11", s!"{label}: one session-meter cell is used by the entries of two sessions"⟩] else []) ++
  P4.exclusiveFindings label p4

def toVerdicts (keep : List String) (fs : List Finding) : List Verdict :=
  fs.filterMap fun f =>
    if f.prop = "model" then some (.mismatch f.msg)
    else if f.prop = "bad" then some (.bad f.msg)
    else if keep.contains f.prop then some (.oracle s!"[{f.prop}] {f.msg}")
    else none

/-- a line of the shared allocators' concurrency families (UE address pool, TEIDs): decided by their own acceptors -/
def allocLine (n : Nat) (line : String) : Verdict :=
  let v := if line.startsWith "tconc" then C07.check n line else C06.check n line
  match v with
  | .oracle m => .oracle s!"[C11] shared allocator under concurrent associations: {m}"
  | v => v

def step (st : St) (n : Nat) (line : String) : St × List Verdict :=
  if !line.startsWith "{" then (st, [allocLine n line]) else
  match Json.parse line with
  | .error e => (st, [.bad s!"json {e}"])
  | .ok j =>
    let obs := (getObj? j "obs").getD Json.null
    let k := getStr j "k"
    let conc := getBool j "conc"
    if k = "cfg" then
      let isP4 := (getObj? j "p4").isSome
      let st : St := { p4 := isP4 }
      if isP4 then let (u, fs) := P4.step st.up4 n line; ({ st with up4 := u }, toVerdicts [] fs)
      else let (s, fs) := Sys.step st.sys n line; ({ st with sys := s }, toVerdicts [] fs)
    else if k = "races" then
      (st, (getStrs j "races").eraseDups.map fun r => .oracle s!"[C11] data race reported by the race detector ({getStr j "dp"}, {getStr j "phase"}): {r}")
    else if k = "conc" then
      let label := s!"concurrent streams of {getNat j "assocs"} associations ({getStr j "dp"}, phase {getStr j "phase"})"
      let races := (getStrs obs "races").eraseDups.map fun r => Verdict.oracle s!"[C11] data race reported by the race detector ({getStr j "dp"}, {getStr j "phase"}): {r}"
      let dead := if getBool obs "alive" then [] else [Verdict.oracle s!"[C11] {label}: the agent died: {getStr obs "crash"}"]
      if st.p4 then
        let p4 := (getObj? obs "p4").getD Json.null
        (st, dead ++ races ++ (if p4 == Json.null then [] else toVerdicts ["C11", "C15"] (conc4 label (getArr j "sessions") p4)))
      else
        let (s, fs) := Sys.tableFindings st.sys obs true label
        let fs := fs.map fun f => if f.prop = "C03" ∨ f.prop = "C05" then { f with prop := "C11", msg := f.msg ++ " — not the outcome of any one-at-a-time ordering of the requests" } else f
        ({ st with sys := s }, dead ++ races ++ toVerdicts ["C11"] fs)
    else if conc then
      -- a request of a concurrent stream
      let cause := getNat obs "cause"
      let shape : List Verdict :=
        (if !getBool obs "alive" then [.oracle s!"[C11] the agent died or stopped answering during concurrent streams: {getStr obs "crash"}"] else
         if getNat obs "n" != 1 then [.oracle s!"[C11] {getNat obs "n"} responses to one request of a concurrent stream"] else
         if cause != 1 then [.oracle s!"[C11] a {k} request of a concurrent stream was answered with cause {cause}; one at a time it is accepted"] else [])
      -- an F-SEID keys the shared datapath: it must not be live in two associations at once
      let a := getNat j "a"
      let up := getNat obs "up"
      let dup : List Verdict :=
        if k = "est" ∧ cause = 1 then
          match st.seids.find? (fun e => e.1 == up ∧ e.2 != a) with
          | some e => [.oracle s!"[C11] UP F-SEID {up} given to a session of association {a} is held by a live session of association {e.2}: their datapath entries collide"]
          | none => []
        else []
      let seids := if k = "est" ∧ cause = 1 then (up, a) :: st.seids
                   else if k = "del" ∧ cause = 1 then st.seids.filter (fun e => !(e.1 == getNat j "seid" ∧ e.2 == a)) else st.seids
      let st := { st with seids := seids }
      if st.p4 then (st, shape ++ dup)
      else
        -- replay on the model, association by association; tables are compared at the quiescent point
        let j' := j.setObjVal! "obs" (obs.setObjVal! "conc_skip" true)
        let (s, fs) := Sys.step st.sys n j'.compress
        ({ st with sys := s }, shape ++ dup ++ toVerdicts ["C01"] fs)
    else if st.p4 then
      let (u, fs) := P4.step st.up4 n line
      ({ st with up4 := u }, toVerdicts ["C11", "C15", "C01"] fs)
    else
      let (s, fs) := Sys.step st.sys n line
      ({ st with sys := s }, toVerdicts ["C11", "C01"] fs)

end Check.C11
