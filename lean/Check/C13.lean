import Check.Sys
/-! C13 acceptor: the notifier under recorded call windows (text lines) and the full report path (JSON lines). -/
namespace Check.C13
open Check

/-- per F-SEID: the window [before, after] of the last forwarded call -/
def windows (iv : Nat) : List Nat → List (Nat × Nat × Nat) → Nat → Option String
  | [], _, _ => none
  | b :: a :: f :: fwd :: rest, last, i =>
    match last.find? (·.1 = f) with
    | none =>
      if fwd = 1 then windows iv rest ((f, b, a) :: last) (i+1)
      else some s!"call {i}: the first report for F-SEID {f} was suppressed"
    | some (_, lb, la) =>
      if fwd = 1 then
        -- some instants t1 ∈ [lb, la], t2 ∈ [b, a] with t2 − t1 ≥ iv must exist
        if a - lb ≥ iv then windows iv rest ((f, b, a) :: last.filter (·.1 ≠ f)) (i+1)
        else some s!"call {i}: notification for F-SEID {f} forwarded at most {a - lb} ns after the previous one (interval {iv} ns)"
      else
        -- suppressed: some instants with t2 − t1 < iv must exist
        if b < la + iv then windows iv rest last (i+1)
        else some s!"call {i}: report for F-SEID {f} suppressed at least {b - la} ns after the last notification (interval {iv} ns)"
  | _, _, _ => some "malformed call list"

def checkText (line : String) : Verdict :=
  match toks line with
  | "notif" :: iv :: _n :: rest =>
    match nat? iv, nats? rest with
    | some iv, some l =>
      match windows iv l [] 0 with
      | none => .ok
      | some msg => .oracle msg
    | _, _ => .bad "notif"
  | _ => .bad "unknown line"

def step (st : Sys.St) (n : Nat) (line : String) : Sys.St × List Verdict :=
  if line.startsWith "{" then
    let (st', fs) := Sys.step st n line
    (st', fs.filterMap fun f =>
      if f.prop = "model" then some (.mismatch f.msg)
      else if f.prop = "bad" then some (.bad f.msg)
      else if f.prop = "C13" ∨ f.prop = "C01" then some (.oracle s!"[{f.prop}] {f.msg}")
      else none)
  else (st, [checkText line])

end Check.C13
