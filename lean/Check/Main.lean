import Check.C01
import Check.C17
import Check.C06
import Check.C07
import Check.C08
import Check.C18
import Check.C19
import Check.C20
import Check.Sys
import Check.C09
import Check.C10
import Check.C12
import Check.C13
import Check.P4
import Check.C11
/-! upfcheck: `upfcheck <property> <trace>` replays every case of the trace through the Lean model
and the property oracle. Prints one line per problem and a summary. -/
open Check

structure Checker where
  σ : Type
  init : σ
  step : σ → Nat → String → σ × List Verdict

def stateless (f : Nat → String → Verdict) : Checker := ⟨Unit, (), fun _ n l => ((), [f n l])⟩

/-- system-level traces: keep the correspondence mismatches and the oracle findings tagged with one of `tags` -/
def sysChecker (tags : List String) : Checker :=
  ⟨Sys.St, {}, fun st n l =>
    let (st', fs) := Sys.step st n l
    (st', fs.filterMap fun f =>
      if f.prop = "model" then some (.mismatch f.msg)
      else if f.prop = "bad" then some (.bad f.msg)
      else if tags.contains f.prop then some (.oracle s!"[{f.prop}] {f.msg}")
      else none)⟩

/-- system-level traces on the UP4 datapath -/
def p4Checker (tags : List String) : Checker :=
  ⟨P4.St4, {}, fun st n l =>
    let (st', fs) := P4.step st n l
    (st', fs.filterMap fun f =>
      if f.prop = "model" then some (.mismatch f.msg)
      else if f.prop = "bad" then some (.bad f.msg)
      else if tags.contains f.prop then some (.oracle s!"[{f.prop}] {f.msg}")
      else none)⟩

/-- C05: an association that ends while the P4Runtime server refuses every write — what the agent holds itself must be returned -/
def tdFault (l : String) : Verdict :=
  match toks l with
  | ["tdfault", how, n, heldBefore, teidBefore, "=>", alive, _conns, held, teid, gauge] =>
    if n = "0" ∨ heldBefore = "0" ∨ teidBefore = "0" then .bad "teardown-fault scenario established nothing (vacuous)"
    else if alive != "1" then .oracle s!"[C05] the agent died when its association ended ({how}) while the P4Runtime server refused every write"
    else if held != "0" ∨ teid != "0" ∨ gauge != "0" then
      .oracle s!"[C05] association ended by {how} while the datapath refused the deletes: {held} UE addresses, {teid} TEIDs, {gauge} gauge units of its {n} sessions are never returned (the association and its store are gone)"
    else .ok
  | _ => .bad "tdfault line"

/-- traces that contain runs on both datapaths: a `cfg` line with a `p4` object switches to the UP4 acceptor -/
def dualChecker (tags : List String) : Checker :=
  ⟨Bool × Sys.St × P4.St4, (false, {}, {}), fun (isP4, ss, ps) n l =>
    if l.startsWith "tdfault" then ((isP4, ss, ps), [tdFault l]) else
    let isP4 := if (l.splitOn "\"k\":\"cfg\"").length > 1 then (l.splitOn "\"p4\":{").length > 1 else isP4
    if isP4 then
      let (ps', vs) := (p4Checker tags).step ps n l
      ((isP4, ss, ps'), vs)
    else
      let (ss', vs) := (sysChecker tags).step ss n l
      ((isP4, ss', ps), vs)⟩

def checker (prop : String) : Option Checker :=
  match prop with
  | "C01" => some (stateless C01.check)
  | "C17" => some (stateless C17.check)
  | "C06" => some ⟨Sys.St, {}, fun st n l =>
      -- operation sequences on the pool, and (JSON lines) sessions on a running agent that come and go
      if l.startsWith "{" then (sysChecker ["C06", "C01"]).step st n l else (st, [C06.check n l])⟩
  | "C07" => some ⟨Sys.St, {}, fun st n l =>
      -- allocator states and replayed random sources, and (JSON lines) UP-chosen and CP-chosen TEIDs on a running agent
      if l.startsWith "{" then (sysChecker ["C07", "C01"]).step st n l else (st, [C07.check n l])⟩
  | "C08" => some ⟨Sys.St, {}, fun st n l =>
      -- token-level cases, and (JSON lines) PFD provisioning on a running agent
      if l.startsWith "{" then (sysChecker ["C08", "C01"]).step st n l else (st, [C08.check n l])⟩
  | "C18" => some (stateless C18.check)
  | "C19" => some (stateless C19.check)
  | "C20" => some (stateless C20.check)
  | "C03" => some (sysChecker ["C03", "C01"])
  | "C02" => some (sysChecker ["C02", "C01", "C07"])
  | "C05" => some (dualChecker ["C05", "C01", "C06"])
  | "C14" => some (sysChecker ["C14", "C01"])
  | "C09" => some ⟨Sys.St, {}, C09.step⟩
  | "C13" => some ⟨Sys.St, {}, C13.step⟩
  | "C10" => some ⟨Sys.St, {}, C10.step⟩
  | "C12" => some ⟨Sys.St, {}, C12.step⟩
  | "C11" => some ⟨C11.St, {}, C11.step⟩
  | "C04" => some (p4Checker ["C04", "C01"])
  | "C15" => some (p4Checker ["C15", "C01"])
  | "C16" => some (p4Checker ["C16", "C01"])
  | "P4" => some (p4Checker ["C04", "C15", "C16", "C01", "C02"])
  | "SYS" => some (sysChecker ["C01", "C02", "C03", "C05", "C07", "C14"])
  | _ => none

partial def loop (h : IO.FS.Stream) (c : Checker) (st : c.σ) (n ok mm orc bad : Nat) : IO (Nat × Nat × Nat × Nat × Nat) := do
  let line ← h.getLine
  if line.isEmpty then return (n, ok, mm, orc, bad)
  let line := line.trimAsciiEnd.toString
  if line.isEmpty then loop h c st n ok mm orc bad else
  let (st', vs) := c.step st n line
  let mut ok := ok; let mut mm := mm; let mut orc := orc; let mut bad := bad
  let mut clean := true
  for v in vs do
    match v with
    | .ok => pure ()
    | .mismatch msg =>
      clean := false
      if mm < 3000 then IO.println s!"MISMATCH {n+1} :: {line.take 300} :: {msg}"
      mm := mm + 1
    | .oracle msg =>
      clean := false
      if orc < 3000 then IO.println s!"ORACLE {n+1} :: {line.take 300} :: {msg}"
      orc := orc + 1
    | .bad msg =>
      clean := false
      if bad < 25 then IO.println s!"BAD {n+1} :: {line.take 300} :: {msg}"
      bad := bad + 1
  if clean then ok := ok + 1
  loop h c st' (n+1) ok mm orc bad

def main (args : List String) : IO UInt32 := do
  match args with
  | [prop, path] =>
    match checker prop with
    | none => IO.eprintln s!"no acceptor for {prop}"; return 2
    | some c =>
      let h ← IO.FS.Handle.mk path .read
      let (n, ok, mm, orc, bad) ← loop (IO.FS.Stream.ofHandle h) c c.init 0 0 0 0 0
      IO.println s!"SUMMARY cases={n} ok={ok} mismatch={mm} oracle={orc} bad={bad}"
      return (if mm + orc + bad = 0 then 0 else 1)
  | _ => IO.eprintln "usage: upfcheck <property> <trace>"; return 2
