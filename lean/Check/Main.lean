import Check.C17
import Check.C06
import Check.C07
import Check.C08
import Check.C19
/-! upfcheck: `upfcheck <property> <trace>` replays every case of the trace through the Lean model
and the property oracle. Prints one line per problem (first 25 of each kind) and a summary. -/
open Check

def checker (prop : String) : Option (Nat → String → Verdict) :=
  match prop with
  | "C17" => some C17.check
  | "C06" => some C06.check
  | "C07" => some C07.check
  | "C08" => some C08.check
  | "C19" => some C19.check
  | _ => none

partial def loop (h : IO.FS.Stream) (f : Nat → String → Verdict) (n ok mm orc bad : Nat) : IO (Nat × Nat × Nat × Nat × Nat) := do
  let line ← h.getLine
  if line.isEmpty then return (n, ok, mm, orc, bad)
  let line := line.trimAsciiEnd.toString
  if line.isEmpty then loop h f n ok mm orc bad else
  match f n line with
  | .ok => loop h f (n+1) (ok+1) mm orc bad
  | .mismatch msg =>
    if mm < 3000 then IO.println s!"MISMATCH {n+1} :: {line.take 300} :: {msg}"
    loop h f (n+1) ok (mm+1) orc bad
  | .oracle msg =>
    if orc < 3000 then IO.println s!"ORACLE {n+1} :: {line.take 300} :: {msg}"
    loop h f (n+1) ok mm (orc+1) bad
  | .bad msg =>
    if bad < 25 then IO.println s!"BAD {n+1} :: {line.take 300} :: {msg}"
    loop h f (n+1) ok mm orc (bad+1)

def main (args : List String) : IO UInt32 := do
  match args with
  | [prop, path] =>
    match checker prop with
    | none => IO.eprintln s!"no acceptor for {prop}"; return 2
    | some f =>
      let h ← IO.FS.Handle.mk path .read
      let (n, ok, mm, orc, bad) ← loop (IO.FS.Stream.ofHandle h) f 0 0 0 0 0
      IO.println s!"SUMMARY cases={n} ok={ok} mismatch={mm} oracle={orc} bad={bad}"
      return (if mm + orc + bad = 0 then 0 else 1)
  | _ => IO.eprintln "usage: upfcheck <property> <trace>"; return 2
