import Upf.Model.IPPool
import Upf.Model.NewPool
import Check.Util
/-! C06 acceptor. Correspondence: the FIFO pool model reproduces every observed result.
Oracle (independent of the model): in range, exclusive, sticky, release exact, refused only when full. -/
namespace Check.C06
open Check

def usable (base plen : Nat) : Option (List Nat) := NewPool.newPool (BitVec.ofNat 32 base) plen

structure OSt where
  held : List (Nat × Nat) := []     -- observed (seid, addr)

def heldAddr (o : OSt) (s : Nat) : Option Nat := (o.held.find? (·.1 == s)).map (·.2)

/-- one observed operation against the abstract spec; `none` = fine -/
def oracleStep (u : List Nat) (o : OSt) (isAlloc : Bool) (s : Nat) (res : Int) : Option String × OSt :=
  if isAlloc then
    match heldAddr o s with
    | some a =>
      if res = (a : Int) then (none, o) else (some s!"session {s} holds {a} but was given {res} (not sticky)", o)
    | none =>
      if res < 0 then
        if o.held.length = u.length then (none, o)
        else (some s!"allocation for session {s} refused with {u.length - o.held.length} addresses free", o)
      else
        let a := res.toNat
        if !u.contains a then (some s!"address {a} is outside the usable pool", o)
        else if o.held.any (·.2 == a) then (some s!"address {a} handed to session {s} while another session holds it", o)
        else (none, { held := (s, a) :: o.held })
  else
    match heldAddr o s with
    | some _ =>
      if res = 1 then (none, { held := o.held.filter (·.1 != s) })
      else (some s!"release of session {s}, which holds an address, failed", o)
    | none =>
      if res = 0 then (none, o) else (some s!"release of session {s}, which holds nothing, succeeded", o)

def modelStep (p : Pool.P) (isAlloc : Bool) (s : Nat) : Int × Pool.P :=
  if isAlloc then
    match Pool.alloc p s with
    | (some a, p') => ((a : Int), p')
    | (none, p') => (-1, p')
  else
    match Pool.dealloc p s with
    | (true, p') => (1, p')
    | (false, p') => (0, p')

def int? (s : String) : Option Int := s.toInt?

partial def runOps (u : List Nat) (p : Pool.P) (o : OSt) : List String → Nat → Verdict
  | [], _ => .ok
  | k :: s :: r :: rest, i =>
    match nat? s, int? r with
    | some s, some r =>
      let isAlloc := k == "a"
      let (om, o') := oracleStep u o isAlloc s r
      match om with
      | some msg => .oracle s!"op {i}: {msg}"
      | none =>
        let (mr, p') := modelStep p isAlloc s
        if mr != r then .mismatch s!"op {i}: model result {mr}, observed {r}"
        else runOps u p' o' rest (i+1)
    | _, _ => .bad "op"
  | _, _ => .bad "ops"

def splitBar (l : List String) : List (List String) :=
  l.foldr (fun t acc => if t == "|" then [] :: acc else match acc with
    | [] => [[t]]
    | a :: as => (t :: a) :: as) [[]]

def ints? (l : List String) : Option (List Int) := l.mapM int?

def distinct (l : List Nat) : Bool := l.eraseDups.length == l.length

def check (_lineNo : Nat) (line : String) : Verdict :=
  match toks line with
  | ["new", base, plen, "err"] =>
    match nat? base, nat? plen with
    | some base, some plen => if (usable base plen).isNone then .ok else .oracle "a pool with at least two addresses was refused"
    | _, _ => .bad "new"
  | "new" :: base :: plen :: "list" :: _n :: l =>
    match nat? base, nat? plen, nats? l with
    | some base, some plen, some l =>
      match usable base plen with
      | none => .oracle "a pool below two addresses was accepted"
      | some u =>
        if !(l.all u.contains ∧ u.all l.contains ∧ distinct l) then .oracle s!"pool hands out {l}, usable addresses are {u}"
        else if l != u then .mismatch "hand-out order differs from the model" else .ok
    | _, _, _ => .bad "new list"
  | ["new", base, plen, "span", n, first, last, sorted, dist] =>
    match nats? [base, plen, n, first, last, sorted, dist] with
    | some [base, plen, n, first, last, sorted, dist] =>
      match usable base plen with
      | none => .oracle "a pool below two addresses was accepted"
      | some u =>
        if n = u.length ∧ dist = n ∧ sorted = 1 ∧ some first = u.head? ∧ some last = u.getLast? then .ok
        else .oracle s!"pool of {n} addresses {first}..{last}; usable range has {u.length}"
    | _ => .bad "new span"
  | ["newbad", _h, ok] => if ok == "0" then .ok else .oracle "malformed subnet accepted"
  | "seq" :: base :: plen :: rest =>
    match nat? base, nat? plen with
    | some base, some plen =>
      match usable base plen, rest with
      | none, ["err"] => .ok
      | none, _ => .oracle "a pool below two addresses was accepted"
      | some _, ["err"] => .oracle "a pool with at least two addresses was refused"
      | some u, _n :: ops => runOps u { free := u, inv := [] } {} ops 0
      | _, _ => .bad "seq"
    | _, _ => .bad "seq"
  | "conc" :: base :: plen :: n :: rest =>
    match nat? base, nat? plen, nat? n, (splitBar rest).mapM ints? with
    | some base, some plen, some n, some [res, rel, res2] =>
      match usable base plen with
      | none => .bad "conc pool"
      | some u =>
        let got := (res.filter (· ≥ 0)).map Int.toNat
        let refused := (res.filter (· == -1)).length
        if res.length != n ∨ rel.length != n ∨ res2.length != n then .bad "conc arity"
        else if res.any (· == -3) then .oracle "a repeated request returned another address under concurrency"
        else if !distinct got then .oracle "one address handed to two sessions under concurrency"
        else if !got.all u.contains then .oracle "address outside the pool under concurrency"
        else if refused != n - min n u.length then .oracle s!"{refused} refusals with {u.length} addresses for {n} sessions"
        else
          -- release of every even-indexed session
          let idx := List.range n
          let relOk := idx.all fun i =>
            let r := rel.getD i 9; let a := res.getD i (-9)
            if i % 2 = 0 then r == (if a ≥ 0 then 1 else 0) else r == 2
          if !relOk then .oracle "concurrent release result does not match what the session held"
          else
            let stillHeld := (idx.filter fun i => i % 2 = 1 ∧ res.getD i (-9) ≥ 0).map fun i => (res.getD i 0).toNat
            let got2 := (res2.filter (· ≥ 0)).map Int.toNat
            let free := u.length - stillHeld.length
            if !distinct got2 ∨ !got2.all u.contains then .oracle "re-allocation handed out a duplicate or foreign address"
            else if got2.any stillHeld.contains then .oracle "re-allocation handed out an address that is still held"
            else if got2.length != min n free then .oracle s!"{got2.length} re-allocations succeeded with {free} addresses free"
            else .ok
    | _, _, _, _ => .bad "conc"
  | "same" :: base :: plen :: r :: _g :: drained :: ds =>
    match nat? base, nat? plen, nat? r, nat? drained, nats? ds with
    | some base, some plen, some r, some drained, some ds =>
      match usable base plen with
      | none => .bad "same pool"
      | some u =>
        if ds.length != r then .bad "same arity"
        else if ds.any (· != 1) then .oracle "concurrent requests for one session received different addresses"
        else if drained + r != u.length then .oracle s!"{r} sessions hold addresses but only {drained} of {u.length} remain free (an address leaked)"
        else .ok
    | _, _, _, _, _ => .bad "same"
  | _ => .bad "unknown line"

end Check.C06
