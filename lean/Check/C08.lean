import Upf.Model.Sdf
import Check.Util
/-! C08 acceptor: flow-description parser, SDF filters and application IDs at PDR level. -/
namespace Check.C08
open Check Sdf Tern

def prs (p : PR) : String := s!"{p.low.toNat} {p.high.toNat}"

def epStr (e : Flow.Endpoint Net PR) : String :=
  match e.net with
  | some n => s!"1 {n.ip} {n.mask} {prs e.ports}"
  | none => s!"0 0 0 {prs e.ports}"

def filterStr (f : Filter) : String :=
  s!"{f.srcIP} {f.srcMask} {f.dstIP} {f.dstMask} {prs f.srcPorts} {prs f.dstPorts} {f.proto} {f.protoMask}"

/-- independent reading of a string in the documented grammar:
`action dir proto from ADDR [PORT] to ADDR [PORT]` -/
structure G where
  action : String
  dir : String
  proto : String
  src : String
  sport : Option String
  dst : String
  dport : Option String

def grammar (t : List String) : Option G :=
  match t with
  | [a, d, p, "from", s, "to", x] => some ⟨a, d, p, s, none, x, none⟩
  | [a, d, p, "from", s, sp, "to", x] => if sp = "to" then none else some ⟨a, d, p, s, some sp, x, none⟩
  | [a, d, p, "from", s, "to", x, dp] => some ⟨a, d, p, s, none, x, some dp⟩
  | [a, d, p, "from", s, sp, "to", x, dp] => if sp = "to" then none else some ⟨a, d, p, s, some sp, x, some dp⟩
  | _ => none

def readAddr (ue tok : String) : Option Net :=
  if tok = "any" then some ⟨0, 0⟩
  else if tok = "assigned" then
    (if ue = "0.0.0.0" ∨ ue = "" ∨ ue = "<nil>" then some ⟨0, 0⟩ else parseNet ue)
  else parseNet tok

def readPort : Option String → Option PR
  | none => some ⟨0#16, 0xFFFF#16⟩
  | some s => Tern.parsePort s

/-- what a grammar-form string says: both nets, both port ranges (none = a token is unparsable) -/
def meaning (ue : String) (g : G) : Option (Net × PR × Net × PR) :=
  if ¬ (g.action = "permit" ∨ g.action = "deny") ∨ ¬ (g.dir = "in" ∨ g.dir = "out") then none else
  match readAddr ue g.src, readPort g.sport, readAddr ue g.dst, readPort g.dport with
  | some a, some b, some c, some d => some (a, b, c, d)
  | _, _, _, _ => none

def wild : PR := ⟨0#16, 0xFFFF#16⟩

/-- the filter a grammar-form SDF denotes on a PDR of the given direction -/
def sdfMeaning (iface ue : Nat) (g : G) : Option Filter :=
  (meaning (ipString ue) g).map fun (rn, rp, un, up) =>
    let remotePort := if up.isWildcard then rp else up      -- documented work-around: a UE-side port is read as the remote port
    let f := withProto (prefill iface ue) (parseProto g.proto)
    if iface = core then { f with srcIP := rn.ip, srcMask := rn.mask, dstIP := un.ip, dstMask := un.mask, srcPorts := remotePort, dstPorts := wild }
    else { f with dstIP := rn.ip, dstMask := rn.mask, srcIP := un.ip, srcMask := un.mask, dstPorts := remotePort, srcPorts := wild }

/-- the zero value 0-0 and 0-65535 both mean wildcard: compare filters modulo that -/
def canonPorts (lo hi : String) : List String := if (lo = "0" ∧ hi = "0") then ["0", "65535"] else [lo, hi]

def canonObs : List String → String
  | "ok" :: a :: b :: c :: d :: sl :: sh :: dl :: dh :: rest =>
    " ".intercalate (["ok", a, b, c, d] ++ canonPorts sl sh ++ canonPorts dl dh ++ rest)
  | l => " ".intercalate l

def canonFilter (f : Filter) : String :=
  let cp (p : PR) : PR := if p.isWildcard then ⟨0#16, 0xFFFF#16⟩ else p
  filterStr { f with srcPorts := cp f.srcPorts, dstPorts := cp f.dstPorts }

def hasColon (s : String) : Bool := s.any (· == ':')

def unhexs (l : List String) : Option (List String) := l.mapM unhexStr

/-- parse the `n (id k fd*k)*n` table encoding -/
partial def readTable : Nat → List String → Option (List (String × List String) × List String)
  | 0, rest => some ([], rest)
  | n+1, id :: k :: rest => do
    let id ← unhexStr id
    let k ← nat? k
    let fds ← unhexs (rest.take k)
    if fds.length != k then none else
    let (tbl, rest') ← readTable n (rest.drop k)
    pure ((id, fds) :: tbl, rest')
  | _, _ => none

def check (_lineNo : Nat) (line : String) : Verdict :=
  match toks line with
  | "fd" :: flow :: ue :: "=>" :: res =>
    match unhexStr flow, unhexStr ue with
    | some flow, some ue =>
      match res with
      | "panic" :: msg => .oracle s!"parseFlowDesc panicked: {" ".intercalate msg}"
      | _ =>
      if hasColon flow ∨ hasColon ue then .ok else   -- IPv6 tokens are outside the model: crash-freedom only
      let m := parseFlowDesc flow ue
      let obs : Option String := match res with
        | ["err"] => some "err"
        | "ok" :: a :: d :: rest => match unhexStr a, unhexStr d with
          | some a, some d => some s!"ok {a} {d} {" ".intercalate rest}"
          | _, _ => none
        | _ => none
      let ms := match m with
        | none => "err"
        | some f => s!"ok {f.action} {f.dir} {parseProto f.proto} {epStr f.src} {epStr f.dst}"
      match obs with
      | none => .bad "fd result"
      | some obs =>
        -- oracle 1: an accepted description has both endpoints
        let bothOk := match res with
          | "ok" :: _ :: _ :: _ :: sh :: _ :: _ :: _ :: _ :: dh :: _ => sh == "1" && dh == "1"
          | _ => true
        if !bothOk then .oracle "accepted a description that lacks a from- or a to-clause"
        else
          -- oracle 2: a string in the documented grammar means what it says, or is refused when a token is unparsable
          match grammar (fields flow) with
          | some g =>
            let exp := match meaning ue g with
              | none => "err"
              | some (a, b, c, d) => s!"ok {g.action} {g.dir} {parseProto g.proto} 1 {a.ip} {a.mask} {prs b} 1 {c.ip} {c.mask} {prs d}"
            if obs != exp then .oracle s!"grammar reading: {exp}"
            else if obs != ms then .mismatch s!"model: {ms}" else .ok
          | none =>
            let t := fields flow
            let badHead := t.length < 3 ∨ ¬ (t.getD 0 "" = "permit" ∨ t.getD 0 "" = "deny") ∨ ¬ (t.getD 1 "" = "in" ∨ t.getD 1 "" = "out")
            let kwLast := t.length > 3 ∧ (t.getLast? = some "from" ∨ t.getLast? = some "to")
            if (badHead ∨ kwLast) ∧ obs != "err" then .oracle "accepted a description with unknown action/direction, fewer than three tokens, or a keyword without address"
            else if obs != ms then .mismatch s!"model: {ms}" else .ok
    | _, _ => .bad "fd hex"
  | "sdf" :: iface :: ue :: flow :: "=>" :: res =>
    match nat? iface, nat? ue, unhexStr flow with
    | some iface, some ue, some flow =>
      match res with
      | "panic" :: msg => .oracle s!"parsePDR panicked on an SDF filter: {" ".intercalate msg}"
      | _ =>
      if hasColon flow then .ok else
      let obs := " ".intercalate res
      let ms := match parseSDF iface ue flow with
        | .ok f => s!"ok {filterStr f}"
        | .ignored f => s!"ok {filterStr f}"
        | .rejected => "rejected"
      let pre := s!"ok {filterStr (prefill iface ue)}"
      let orc : Option String :=
        match grammar (fields flow) with
        | some g => match sdfMeaning iface ue g with
          | some f => if canonObs res = s!"ok {canonFilter f}" then none else some s!"the description denotes {canonFilter f}"
          | none => if obs = pre ∨ obs = "rejected" then none else some "malformed description yielded a filter other than the UE-address pre-fill"
        | none =>
          let t := fields flow
          let badHead := t.length < 3 ∨ ¬ (t.getD 0 "" = "permit" ∨ t.getD 0 "" = "deny") ∨ ¬ (t.getD 1 "" = "in" ∨ t.getD 1 "" = "out")
          if badHead ∧ ¬ (obs = pre ∨ obs = "rejected") then some "malformed description yielded a filter other than the UE-address pre-fill" else none
      match orc with
      | some msg => .oracle msg
      | none => if obs != ms then .mismatch s!"model: {ms}" else .ok
    | _, _, _ => .bad "sdf"
  | "app" :: iface :: ue :: app :: n :: rest =>
    match nat? iface, nat? ue, unhexStr app, nat? n with
    | some iface, some ue, some app, some n =>
      match readTable n rest with
      | some (tbl, "=>" :: res) =>
        match res with
        | "panic" :: msg => .oracle s!"parsePDR panicked on an application ID: {" ".intercalate msg}"
        | _ =>
        if tbl.any (fun e => e.2.any hasColon) then .ok else
        let obs := " ".intercalate res
        let ms := match parseApp iface ue tbl app with
          | .ok f => s!"ok {filterStr f}"
          | .ignored f => s!"ok {filterStr f}"
          | .rejected => "rejected"
        -- oracle: verbatim reading of the first description whose direction keyword matches (when all earlier ones are grammar-form)
        let want := if iface = access then "out" else "in"
        let orc : Option String :=
          match tbl.find? (·.1 = app) with
          | none => if obs = "rejected" then none else some "unknown application ID was not refused"
          | some (_, fds) =>
            let gs := fds.map fun fd => grammar (fields fd)
            if gs.any Option.isNone then none else
            let gs := gs.filterMap id
            -- stop at the first unparsable one (filter ignored) or the first matching direction
            let rec pick : List G → Option (Option Filter)
              | [] => some none
              | g :: rest => match meaning (ipString ue) g with
                | none => some none
                | some (sn, sp, dn, dp) =>
                  if g.dir = want then
                    let f := withProto (prefill iface ue) (parseProto g.proto)
                    some (some { f with srcIP := sn.ip, srcMask := sn.mask, dstIP := dn.ip, dstMask := dn.mask, srcPorts := sp, dstPorts := dp })
                  else pick rest
            match pick gs with
            | some (some f) => if canonObs res = s!"ok {canonFilter f}" then none else some s!"the provisioned description denotes {canonFilter f}"
            | some none => if obs = s!"ok {filterStr (prefill iface ue)}" then none else some "no usable description, yet the filter is not the UE-address pre-fill"
            | none => none
        match orc with
        | some msg => .oracle msg
        | none => if obs != ms then .mismatch s!"model: {ms}" else .ok
      | _ => .bad "app table"
    | _, _, _, _ => .bad "app"
  | _ => .bad "unknown line"

end Check.C08
