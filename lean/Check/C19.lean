import Upf.Model.Rest
import Check.Util
/-! C19 acceptor: bit-rate conversion and the REST handler observed black-box at the agent's HTTP port. -/
namespace Check.C19
open Check Rest

def unitMul (u : String) : Nat :=
  if u = "bps" then 1 else if u = "Kbps" then 1000 else if u = "Gbps" then 1000000000 else 1000000

def u64 (n : Nat) : BitVec 64 := BitVec.ofNat 64 n

/-- value part `gate,cir,pir,cbs,pbs,ebs,dN` of an observed sliceMeter entry with the given key -/
def entryVal (entries : List String) (key : String) : Option (List String) :=
  (entries.find? fun e => (e.splitOn "|").head? = some key).bind fun e =>
    match e.splitOn "|" with
    | [_, v] => some (v.splitOn ",")
    | _ => none

/-- the property for one direction: non-zero rate whose conversion fits 63 bits is programmed exactly; a posted burst is programmed -/
def dirOracle (entries : List String) (key : String) (rate burst : Nat) (u : String) : Option String :=
  match entryVal entries key with
  | none => some s!"no slice-meter entry {key}"
  | some v =>
    let conv := rate * unitMul u
    let pirOk := if rate ≠ 0 ∧ conv < 2^63 then v.getD 0 "" = "0" ∧ v.getD 2 "" = toString (conv / 8) else true
    let burstOk := if burst ≠ 0 then v.getD 4 "" = toString burst else true
    if !pirOk then some s!"entry {key}: rate {rate} x {unitMul u} must be metered at {conv / 8} bytes/s, programmed {v}"
    else if !burstOk then some s!"entry {key}: posted burst {burst} not programmed ({v})"
    else none

def check (_lineNo : Nat) (line : String) : Verdict :=
  match toks line with
  | ["calc", r, u, "=>", v] =>
    match nat? r, unhexStr u, nat? v with
    | some r, some u, some v =>
      if r ≠ 0 ∧ r * unitMul u < 2^63 ∧ v ≠ r * unitMul u then .oracle s!"{r} x {unitMul u} fits 63 bits but was converted to {v}"
      else if (Calc.bitRates (u64 r) (unitOfString u)).toNat ≠ v then .mismatch s!"model: {(Calc.bitRates (u64 r) (unitOfString u)).toNat}"
      else .ok
    | _, _, _ => .bad "calc"
  | "rest" :: method :: rest =>
    let (desc, obs) := rest.span (· != "=>")
    match obs with
    | "=>" :: status :: nobj :: ncmd :: alive :: entries =>
      match nat? nobj, nat? ncmd with
      | some nobj, some ncmd =>
        if alive != "1" then .oracle "agent died serving an HTTP request" else
        let isWrite := method = "PUT" ∨ method = "POST"
        match desc with
        | ["ok", ul, dl, u, ulb, dlb] =>
          match nat? ul, nat? dl, nat? ulb, nat? dlb, (if u = "-" then some "" else unhexStr u) with
          | some ul, some dl, some ulb, some dlb, some u =>
            if !isWrite then .bad "ok with other method" else
            if status != "201" ∨ nobj != 1 then .oracle s!"well-formed document answered {status} with {nobj} JSON object(s)"
            else match dirOracle entries "1,0" ul ulb u, dirOracle entries "0,1" dl dlb u with
              | some m, _ => .oracle m
              | _, some m => .oracle m
              | none, none =>
                let d : Doc := ⟨u64 ul, u64 dl, u, u64 ulb, u64 dlb⟩
                let exp := ((sliceEntries d).map fun (k, v) => k ++ "|" ++ v)
                if ncmd != 2 then .mismatch s!"model issues 2 slice-meter commands, observed {ncmd}"
                else if exp.all entries.contains ∧ entries.length = 2 then .ok else .mismatch s!"model entries {exp}"
          | _, _, _, _, _ => .bad "ok doc"
        | "malformed" :: _ | ["unreadable"] =>
          if !(status.startsWith "4") then .oracle s!"bad body answered {status}"
          else if nobj != 1 then .oracle s!"bad body answered with {nobj} responses (status {status})"
          else if ncmd != 0 then .oracle s!"bad body programmed the datapath ({ncmd} slice-meter commands)"
          else if (serve method .malformed).responses != [status.toNat!] then .mismatch s!"model answers {(serve method .malformed).responses}"
          else .ok
        | "other" :: _ =>
          if status != "405" ∨ nobj != 1 then .oracle s!"method {method} answered {status} with {nobj} object(s)"
          else if ncmd != 0 then .oracle s!"method {method} programmed the datapath"
          else if (serve method .malformed).responses != [405] then .mismatch "model does not answer 405"
          else .ok
        | _ => .bad "rest desc"
      | _, _ => .bad "rest numbers"
    | _ => .bad "rest"
  | _ => .bad "unknown line"

end Check.C19
