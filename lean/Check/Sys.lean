import Lean.Data.Json
import Upf.Model.AgentMod
import Upf.Model.Digest
import Upf.Model.NewPool
import Check.Util
/-!
Acceptor for system-level traces (JSON lines written by the harness while it drives the real agent):
the world model `Agent.World` is stepped with every event; the observed reply and the observed BESS
tables must be what the model computes (correspondence), and the property oracles are evaluated on the
observation. Every finding is tagged with the property it belongs to; a property's check keeps its own tags.
-/
namespace Check.Sys
open Lean (Json)
open Agent

structure Finding where
  prop : String            -- property id the oracle belongs to, or "model" for a correspondence mismatch
  msg : String

structure St where
  cfg : Cfg := { accessIP := 0, coreIP := 0, ueAlloc := false, endMarker := false, qci := [] }
  poolBase : Option (Nat × Nat) := none
  w : World := {}
  /-- SEIDs of ended sessions (for "nothing of an ended session remains") -/
  ended : List Nat := []
  /-- UP SEIDs handed out so far per association (liveness tracked by the model) -/
  started : Bool := false
  /-- discrepancies between tables and image already reported (each is reported once, at the event introducing it) -/
  seenDiff : List String := []
  seenResidue : List String := []
  /-- sessions whose QERs were re-labelled by a modification (their leftovers are that defect's consequence) -/
  relabelled : List Nat := []
  /-- sessions that had an accepted Update PDR changing the rule's pdrLookup key (the entries under the old key stay: their
  leftovers are that defect's consequence) -/
  keyChanged : List Nat := []
  /-- sessions for which a downlink-data notification was already forwarded (inside the 20 s interval of the run) -/
  notified : List Nat := []
  /-- largest sequence number of an agent-originated request seen so far, per association -/
  lastSeq : List (Nat × Nat) := []

def getNat (j : Json) (k : String) : Nat := ((j.getObjVal? k).toOption.bind (·.getNat?.toOption)).getD 0
def getNat? (j : Json) (k : String) : Option Nat := (j.getObjVal? k).toOption.bind (·.getNat?.toOption)
def getStr (j : Json) (k : String) : String := ((j.getObjVal? k).toOption.bind (·.getStr?.toOption)).getD ""
def getStr? (j : Json) (k : String) : Option String := (j.getObjVal? k).toOption.bind (·.getStr?.toOption)
def getBool (j : Json) (k : String) : Bool := ((j.getObjVal? k).toOption.bind (·.getBool?.toOption)).getD false
def getArr (j : Json) (k : String) : List Json := ((j.getObjVal? k).toOption.bind (·.getArr?.toOption)).map (·.toList) |>.getD []
def getObj? (j : Json) (k : String) : Option Json :=
  match (j.getObjVal? k).toOption with
  | some Json.null => none
  | o => o
def arrNats (j : Json) : List Nat := (j.getArr?.toOption.map (·.toList)).getD [] |>.map fun x => x.getNat?.toOption.getD 0
def getNats (j : Json) (k : String) : List Nat := (getObj? j k).map arrNats |>.getD []
def getStrs (j : Json) (k : String) : List String := (getArr j k).map fun x => x.getStr?.toOption.getD ""

def pdrIE (j : Json) : PdrIE :=
  { id := getNat j "id", prec := getNat j "prec", srcIface := getNat? j "src",
    fteid := (getObj? j "teid").map fun t => match arrNats t with
      | [ch, teid, ip] => (ch = 1, teid, ip)
      | _ => (false, 0, 0),
    ueip := (getObj? j "ue").map fun t => match arrNats t with
      | [fl, ip] => (fl, ip)
      | _ => (0, 0),
    app := getStr? j "app", sdf := getStr? j "sdf", ohr := getNat? j "ohr", farID := getNat j "far", qerIDs := getNats j "qers" }

def farIE (j : Json) : FarIE :=
  { id := getNat j "id", action := getNat j "act",
    fwd := (getObj? j "fwd").map fun w =>
      { dst := getNat? w "dst", smreq := getNat? w "sm",
        ohc := (getObj? w "ohc").map fun t => match arrNats t with
          | [teid, ip] => (teid, ip)
          | _ => (0, 0) } }

def qerIE (j : Json) : QerIE :=
  let two (k : String) : Nat × Nat := match getNats j k with
    | [a, b] => (a, b)
    | _ => (0, 0)
  { id := getNat j "id", qfi := getNat j "qfi", gateUL := (two "gate").1, gateDL := (two "gate").2,
    mbrUL := (two "mbr").1, mbrDL := (two "mbr").2, gbrUL := (two "gbr").1, gbrDL := (two "gbr").2 }

def tableLines (t : Tables) : List String :=
  let f (m : String) (tb : Table) := tb.map fun e => m ++ "|" ++ e.1 ++ "|" ++ e.2
  f "pdrLookup" t.pdr ++ f "farLookup" t.far ++ f "appQERLookup" t.appQer ++ f "sessionQERLookup" t.sessQer

def insertStr (x : String) : List String → List String
  | [] => [x]
  | y :: ys => if x ≤ y then x :: y :: ys else y :: insertStr x ys
def sortStrs (l : List String) : List String := l.mergeSort (fun a b => decide (a ≤ b))

def lookupModules : List String := ["pdrLookup|", "farLookup|", "appQERLookup|", "sessionQERLookup|"]
def isLookup (s : String) : Bool := lookupModules.any (fun m => s.startsWith m)

def diffStr (exp obs : List String) : String :=
  let missing := exp.filter (!obs.contains ·)
  let extra := obs.filter (!exp.contains ·)
  s!"missing {missing.take 3} extra {extra.take 3}"

def moduleOf (l : String) : String := (l.splitOn "|").headD ""

/-- compare observed tables with the model's (correspondence) and with the image of the live sessions (C03),
and look for entries of ended sessions (C05). A discrepancy is reported once, at the event that introduces it,
labelled with that event; `predicted` says that the model of the code computes exactly the observed tables,
i.e. the violation is the code's own documented behaviour and not a deviation from it. -/
def tableFindings (st : St) (obs : Json) (checkImage : Bool) (label : String) : St × List Finding :=
  -- a reply observed while requests of other associations were in flight carries no table snapshot
  if getBool obs "conc_skip" then (st, []) else
  let obsT := sortStrs ((getStrs obs "tables").filter isLookup)
  let modT := sortStrs (tableLines st.w.tables)
  let imgT := sortStrs (tableLines (image st.cfg st.w))
  let predicted := if obsT == modT then "predicted-by-model" else "not-predicted"
  let diffs := (imgT.filter (!obsT.contains ·)).map ("missing " ++ ·) ++ (obsT.filter (!imgT.contains ·)).map ("extra " ++ ·)
  let newDiffs := diffs.filter (!st.seenDiff.contains ·)
  let kinds := (newDiffs.map fun d => (d.splitOn " ").headD "" ++ ":" ++ moduleOf ((d.splitOn " ").getD 1 "")).eraseDups
  let residue := st.ended.flatMap fun seid =>
    let tag := "," ++ toString seid
    (obsT.filter fun l => (l.splitOn (tag ++ ",")).length > 1 ∨ (l.splitOn (tag ++ "|")).length > 1 ∨ l.endsWith tag)
  let newRes := residue.filter (!st.seenResidue.contains ·)
  -- leftovers of a session are reported at the event that ends it; only the most recent endings are kept under watch
  let st' := { st with seenDiff := if checkImage then diffs else st.seenDiff, seenResidue := residue, ended := st.ended.take 40 }
  (st',
   (if obsT != modT then [⟨"model", s!"{label}: tables differ from the model: {diffStr modT obsT}"⟩] else []) ++
   (if checkImage ∧ !newDiffs.isEmpty then
      [⟨"C03", s!"{label} {predicted}: tables are not the image of the live sessions {kinds}: {newDiffs.take 4}"⟩] else []) ++
   (if !newRes.isEmpty then
      [⟨"C05", s!"{label} {predicted}: entries of an ended session remain in {(newRes.map moduleOf).eraseDups}: {newRes.take 3}"⟩] else []))

/-- C09 on the observed QoS entries of one session: gate, rates, bursts as signalled -/
def qosFindings (pre : String) (cfg : Cfg) (tables : List String) (seid : Nat) (qers : List QerIE) : List Finding :=
  if tables.isEmpty then [] else
  qers.flatMap fun q =>
    let c := qosFor cfg q.qfi
    [(Sdf.access, q.gateUL, q.mbrUL, q.gbrUL), (Sdf.core, q.gateDL, q.mbrDL, q.gbrDL)].filterMap fun (iface, gate, mbr, gbr) =>
      let appKey := s!"appQERLookup|{iface},{q.id},{seid}|"
      let sessKey := s!"sessionQERLookup|{iface},{seid}|"
      let valOf (l : String) : List String := ((l.splitOn "|").getD 2 "").splitOn ","
      let entry : Option (List String) := match tables.find? (fun (l : String) => l.startsWith appKey) with
        | some l => some (valOf l)
        | none => (tables.find? (fun (l : String) => l.startsWith sessKey)).map valOf
      match entry with
      | none => some ⟨"C09", pre ++ s!"QER {q.id} of session {seid} has no entry for direction {iface}"⟩
      | some v =>
        let n (i : Nat) : Nat := (v.getD i "").toNat!
        let dir := if iface = Sdf.access then "uplink" else "downlink"
        if gate ≠ 0 then
          if n 0 = 5 then none else some ⟨"C09", pre ++ s!"QER {q.id} {dir}: closed gate programmed as gate {n 0}"⟩
        else if mbr = 0 ∧ gbr = 0 then
          if n 0 = 6 then none else some ⟨"C09", pre ++ s!"QER {q.id} {dir}: both rates zero but gate {n 0} (not unmetered)"⟩
        else if n 0 ≠ 0 then some ⟨"C09", pre ++ s!"QER {q.id} {dir}: open gate with a rate programmed as gate {n 0}"⟩
        else if gbr ≤ mbr ∧ n 2 ≠ mbr * 125 then some ⟨"C09", pre ++ s!"QER {q.id} {dir}: MBR {mbr} kbps programmed as peak rate {n 2} bytes/s, expected {mbr * 125}"⟩
        else if gbr ≤ mbr ∧ n 1 ≠ max (gbr * 125) 1 then some ⟨"C09", pre ++ s!"QER {q.id} {dir}: GBR {gbr} kbps programmed as committed rate {n 1} bytes/s"⟩
        else if gbr > mbr then none   -- outside the statement's envelope (GBR ≤ MBR): correspondence with the model only
        else if n 3 < gbr * c.burstMs / 8 ∨ n 3 < c.cbs then some ⟨"C09", pre ++ s!"QER {q.id} {dir}: committed burst {n 3} below rate x duration {gbr * c.burstMs / 8} or the configured minimum {c.cbs}"⟩
        else if n 4 < mbr * c.burstMs / 8 ∨ n 4 < c.pbs then some ⟨"C09", pre ++ s!"QER {q.id} {dir}: peak burst {n 4} below rate x duration {mbr * c.burstMs / 8} or the configured minimum {c.pbs}"⟩
        else if n 5 < mbr * c.burstMs / 8 ∨ n 5 < c.ebs then some ⟨"C09", pre ++ s!"QER {q.id} {dir}: excess burst {n 5} below rate x duration {mbr * c.burstMs / 8} or the configured minimum {c.ebs}"⟩
        else none

/-- label suffix for the end of sessions that went through a modification with a recorded defect -/
def afterLabel (st : St) (seids : List Nat) : String :=
  (if seids.any st.relabelled.contains then " after-session-QER-relabel" else "") ++
  (if seids.any st.keyChanged.contains then " after-key-changing-update" else "")

def created (obs : Json) : List CreatedPdr :=
  (getArr obs "created").map fun c =>
    match c.getArr?.toOption.map (·.toList) with
    | some [p, k, a, b] =>
      if k.getStr?.toOption = some "t" then { pdrID := p.getNat?.toOption.getD 0, teid := some (a.getNat?.toOption.getD 0, b.getNat?.toOption.getD 0), ue := none }
      else { pdrID := p.getNat?.toOption.getD 0, teid := none, ue := some (a.getNat?.toOption.getD 0) }
    | _ => { pdrID := 0, teid := none, ue := none }

/-- C02: exactly one response of the matching type with the request's sequence number -/
def replyShape (obs : Json) (wantType : Nat) : List Finding :=
  if !getBool obs "alive" then [⟨"C01", s!"agent died: {getStr obs "crash"}"⟩]
  else if getNat obs "n" != 1 then [⟨"C02", s!"{getNat obs "n"} responses to one request"⟩]
  else if getNat obs "type" != wantType then [⟨"C02", s!"response type {getNat obs "type"}, expected {wantType}"⟩]
  else if !getBool obs "seq_ok" then [⟨"C02", "response does not carry the request's sequence number"⟩]
  else []

def replyFindings (obs : Json) (r : Reply) : List Finding :=
  (if getNat obs "cause" != r.cause then [⟨"model", s!"cause {getNat obs "cause"}, model {r.cause}"⟩] else []) ++
  (if getNat obs "seid" != r.seid then [⟨"model", s!"header SEID {getNat obs "seid"}, model {r.seid}"⟩] else [])

def step (st : St) (_n : Nat) (line : String) : St × List Finding :=
  match Json.parse line with
  | .error e => (st, [⟨"bad", s!"json: {e}"⟩])
  | .ok j =>
    let obs := (getObj? j "obs").getD Json.null
    match getStr j "k" with
    | "cfg" =>
      let qci := (getArr j "qci").map fun q => match arrNats q with
        | [i, cbs, pbs, ebs, ms] => (i, (⟨cbs, pbs, ebs, ms⟩ : QosCfg))
        | _ => (0, ⟨0, 0, 0, 0⟩)
      let pool := match getNats j "pool" with
        | [b, l] => some (b, l)
        | _ => none
      ({ st with cfg := { accessIP := getNat j "access", coreIP := getNat j "core", ueAlloc := getBool j "ueAlloc",
                          endMarker := getBool j "endMarker", qci := qci }, poolBase := pool }, [])
    | "start" =>
      -- a new incarnation: empty store, fresh pools; the four lookup modules must have been cleared
      let pool := if st.cfg.ueAlloc then
          st.poolBase.bind fun (b, l) => (NewPool.newPool (BitVec.ofNat 32 b) l).map fun u => ({ free := u, inv := [] } : Pool.P)
        else none
      let st := { st with w := { pool := pool }, ended := [], started := true, seenDiff := [], seenResidue := [] }
      let left := (getStrs obs "tables").filter isLookup
      (st, if left.isEmpty then [] else [⟨"C03", s!"entries of a previous incarnation survive start-up: {left.take 3}"⟩])
    | "assoc" =>
      let a := getNat j "a"
      let fs := replyShape obs 6
      if getNat obs "cause" = 1 then ({ st with w := assocSetup st.w a (getStr j "node") }, fs)
      else (st, fs ++ [⟨"model", s!"association setup answered with cause {getNat obs "cause"}"⟩])
    | "est" =>
      let a := getNat j "a"
      let req : EstReq := { nodeID := getStr j "node", cpSeid := getNat j "cp", cpIP := getNat j "cpip",
                            pdrs := (getArr j "pdrs").map pdrIE, fars := (getArr j "fars").map farIE, qers := (getArr j "qers").map qerIE }
      let shape := replyShape obs 51
      if !shape.isEmpty then (st, shape) else
      let upSeid := getNat obs "up"
      let live := (st.w.conn a).sessions.map (·.lseid)
      -- the pool is a queue in the code; after several sessions ended at once its order depends on map iteration:
      -- take the observed address as the (admissible) choice when it is free in the model
      let obsUE : Option Nat := ((created obs).filterMap (·.ue)).head?
      let w0 : World := match obsUE, st.w.pool with
        | some ua, some pl => if pl.free.contains ua then { st.w with pool := some { pl with free := ua :: pl.free.erase ua } } else st.w
        | _, _ => st.w
      let (w', r) := establish st.cfg w0 a upSeid req
      let st' := { st with w := w' }
      let fs := replyFindings obs r ++
        (if getNat obs "cause" = 1 then
          (if getNat obs "seid" != req.cpSeid then [⟨"C02", "accepted establishment response is not addressed to the control plane's SEID"⟩] else []) ++
          (if upSeid = 0 then [⟨"C02", "accepted establishment with UP F-SEID 0"⟩, ⟨"C07", "accepted establishment with UP F-SEID 0"⟩] else []) ++
          (if live.contains upSeid then [⟨"C07", s!"UP F-SEID {upSeid} is already held by a live session of this association"⟩] else []) ++
          (if getNat obs "upip" != getNat j "n4" then [⟨"C02", "UP F-SEID does not carry the agent's N4 address"⟩] else []) ++
          (if getStr obs "node" != getStr j "n4s" then [⟨"C02", s!"Node ID {getStr obs "node"} is not the agent's"⟩] else []) ++
          (if created obs != r.created then [⟨"model", s!"Created PDR {repr (created obs)}, model {repr r.created}"⟩] else []) ++
          -- C02: one Created PDR element per UP-chosen F-TEID, and per UE address the UP allocated for a downlink PDR
          (req.pdrs.filterMap fun p =>
            let nT := ((created obs).filter fun c => c.pdrID = p.id ∧ c.teid.isSome).length
            let nU := ((created obs).filter fun c => c.pdrID = p.id ∧ c.ue.isSome).length
            let wantT := match p.fteid with | some (true, _, _) => 1 | _ => 0
            let wantU := match p.ueip, p.srcIface with
              | some (flags, _), some 1 => if st.cfg.ueAlloc ∧ needAllocIP flags then 1 else 0
              | _, _ => 0
            if nT != wantT then some ⟨"C02", s!"accepted establishment: {nT} Created PDR elements with an F-TEID for PDR {p.id}, whose F-TEID the UP {if wantT = 1 then "chose" else "did not choose"}"⟩
            else if nU != wantU ∧ r.cause = 1 then some ⟨"C02", s!"accepted establishment: {nU} Created PDR elements with a UE address for downlink PDR {p.id}, for which the UP {if wantU = 1 then "allocated one" else "allocated none"}"⟩
            else none) ++
          -- C07 / C06: reported identifiers are the programmed ones, addresses come from the pool
          ((created obs).filterMap fun c => match c.teid with
            | some (t, _) => if t = 0 then some ⟨"C07", "UP-chosen TEID 0"⟩ else
                if (getStrs obs "tables").any (fun l => l.startsWith "pdrLookup|" ∧ (l.splitOn ("," ++ toString t ++ ",")).length > 1) then none
                else some ⟨"C07", s!"reported TEID {t} is not programmed in any PDR entry"⟩
            | none => none)
        else if getNat obs "seid" != req.cpSeid ∧ getNat obs "seid" != 0 then [⟨"C02", "rejected establishment addressed to a foreign SEID"⟩] else [])
      -- C08: a PDR naming an application the association's accepted PFD requests provisioned is not refused for it
      let provisioned := (st.w.conn a).apps.map (·.1)
      let fs := fs ++ (req.pdrs.filterMap fun p => match p.app with
        | some id => if provisioned.contains id ∧ getNat obs "cause" != 1 ∧ r.cause = 1 then
            some ⟨"C08", s!"a PDR naming application {id}, provisioned by an accepted PFD Management Request of this association, was refused (cause {getNat obs "cause"})"⟩ else none
        | none => none)
      let (st'', tf) := tableFindings st' obs true (if r.cause = 1 then "est" else "est-rejected")
      -- C08: an accepted PFD Management Request replaces the whole table: an application it no longer lists gives no filter
      let unprov := req.pdrs.filterMap fun p => match p.app with
        | some id => if provisioned.contains id then none else some id
        | none => none
      let c08 : List Finding :=
        if !unprov.isEmpty ∧ getNat obs "cause" = 1 ∧ r.cause != 1 then
          [⟨"C08", s!"a PDR names application {unprov}, which the PFD Management Requests in force on this association do not provision (an accepted request replaces the whole table), yet the establishment was accepted"⟩]
        else if !unprov.isEmpty ∧ getNat obs "cause" = 1 ∧ r.cause = 1 then
          match tf.find? (fun f => f.prop = "model") with
          | some f => [⟨"C08", s!"a PDR names application {unprov}, which the PFD Management Requests in force on this association do not provision, yet its entries are not those of a PDR without an application filter ({f.msg})"⟩]
          | none => []
        else []
      let qf := if getNat obs "cause" = 1 then qosFindings "est: " st.cfg (getStrs obs "tables") upSeid req.qers else []
      (st'', fs ++ c08 ++ tf ++ qf)
    | "mod" =>
      let a := getNat j "a"
      let cpf : Option (Nat × Nat) := (getObj? j "cpf").map fun t => match arrNats t with
          | [s, ip] => (s, ip)
          | _ => (0, 0)
      let req : ModReq := {
        seid := getNat j "seid"
        cpFseid := cpf
        createPdrs := (getArr j "cp").map pdrIE
        createFars := (getArr j "cf").map farIE
        createQers := (getArr j "cq").map qerIE
        updatePdrs := (getArr j "up").map pdrIE
        updateFars := (getArr j "uf").map farIE
        updateQers := (getArr j "uq").map qerIE
        removePdrs := getNats j "rp"
        removeFars := getNats j "rf"
        removeQers := getNats j "rq" }
      let shape := replyShape obs 53
      if !shape.isEmpty then (st, shape) else
      let out := modify st.cfg st.w a req
      let st' := { st with w := out.world }
      let obsMarkers := (getArr obs "markers").map fun m => match arrNats m with
        | src :: dst :: teid :: _ => (⟨src, dst, teid⟩ : Marker)
        | _ => ⟨0, 0, 0⟩
      let wellFormedMarkers := (getArr obs "markers").all fun m => match arrNats m with
        | [_, _, _, ty, sp, dp] => ty = 254 ∧ sp = 2152 ∧ dp = 2152
        | _ => false
      let fs := replyFindings obs out.reply ++
        (if obsMarkers != out.markers then [⟨"C14", s!"end markers emitted {repr obsMarkers}, the flagged updates of known FARs call for {repr out.markers} (old tunnel of each, in order)"⟩,
                                              ⟨"model", s!"end markers {repr obsMarkers}, model {repr out.markers}"⟩] else []) ++
        (if !wellFormedMarkers then [⟨"C14", "an end marker is not a GTP-U End Marker (type 254) on UDP 2152"⟩] else [])
      let stored := ((st.w.conn a).sessions.find? (·.lseid = req.seid))
      let parts := (if req.cpFseid.isSome then ["cpf"] else []) ++ (if req.createPdrs.isEmpty then [] else ["cp"]) ++
        (if req.createFars.isEmpty then [] else ["cf"]) ++ (if req.createQers.isEmpty then [] else ["cq"]) ++
        (if req.updatePdrs.isEmpty then [] else ["up"]) ++ (if req.updateFars.isEmpty then [] else ["uf"]) ++
        (if req.updateQers.isEmpty then [] else ["uq"]) ++ (if req.removePdrs.isEmpty then [] else ["rp"]) ++
        (if req.removeFars.isEmpty then [] else ["rf"]) ++ (if req.removeQers.isEmpty then [] else ["rq"])
      let sessLevel := match stored with
        | some s => req.updateQers.any fun u => s.qers.any fun q => q.qerID = u.id ∧ q.session
        | none => false
      -- does the (model of the) marking heuristic re-label the session: another QER becomes session-level, or two are
      let sessIds (s : Session) : List Nat := (s.qers.filter Qer.session).map Qer.qerID
      let before : List Nat := match stored with
        | some s => sessIds s
        | none => []
      let after : List Nat := match (out.world.conn a).sessions.find? (·.lseid = req.seid) with
        | some s => sessIds s
        | none => []
      let existed : List Nat := match stored with
        | some s => s.qers.map Qer.qerID
        | none => []
      -- a QER that was programmed at application level becomes session-level (or the reverse), or two QERs are session-level
      let relabel := after.length > 1 ∨ after.any (fun i => !before.contains i ∧ existed.contains i) ∨ before.any (fun i => !after.contains i ∧ !req.removeQers.contains i)
      -- an accepted Update PDR after which the rule has another pdrLookup key (bess.go upserts under the new key only)
      let pdrKeys (p : Pdr) : List String := ((pdrEntries p).getD []).map (·.1)
      let afterS := (out.world.conn a).sessions.find? (·.lseid = req.seid)
      let keyChange := out.reply.cause = 1 ∧ req.updatePdrs.any fun u =>
        match stored.bind (·.pdrs.find? (·.pdrID = u.id)), afterS.bind (·.pdrs.find? (·.pdrID = u.id)) with
        | some o, some n => (pdrKeys o).any fun k => !(pdrKeys n).contains k
        | _, _ => false
      -- the re-run marking moves the session QER's ID to the end of the stored QER list of a PDR the request does not carry:
      -- the store changes, the rule is not re-sent (same call site as the relabelling: MarkSessionQer in the modification handler)
      let reorder : Bool := out.reply.cause == 1 && (match stored, afterS with
        | some o, some n => o.pdrs.any fun p => !(req.updatePdrs.any (·.id == p.pdrID)) &&
            (n.pdrs.any fun q => q.pdrID == p.pdrID && q.qerIDs != p.qerIDs)
        | _, _ => false)
      let label := s!"mod{parts}" ++ (if sessLevel then " updates-session-level-QER" else "") ++
        (if reorder then " marking-reorders-stored-PDR" else "") ++
        (if keyChange then " update-PDR-changes-key" else "") ++
        (if relabel then " session-QER-relabelled" else "") ++ (if out.reply.cause = 1 then "" else " rejected")
      let st' := if relabel then { st' with relabelled := req.seid :: st'.relabelled } else st'
      let st' := if keyChange then { st' with keyChanged := req.seid :: st'.keyChanged } else st'
      let knownS := stored.isSome
      let wantSeid := match req.cpFseid, stored with
        | some (cp, _), some _ => cp
        | none, some s => s.rseid
        | _, none => 0
      let shapeF : List Finding :=
        (if !knownS ∧ getNat obs "cause" = 1 then [⟨"C02", "modification of an unknown session accepted"⟩] else []) ++
        (if !knownS ∧ getNat obs "seid" != 0 then [⟨"C02", "rejection for an unknown session does not carry SEID 0"⟩] else []) ++
        (if knownS ∧ getNat obs "cause" = 1 ∧ getNat obs "seid" != wantSeid then [⟨"C02", s!"accepted modification response carries SEID {getNat obs "seid"}, the control plane's SEID for the session is {wantSeid}"⟩] else [])
      let fs := fs ++ shapeF
      let (st'', tf) := tableFindings st' obs (out.reply.cause = 1) label
      let predicted := if sortStrs ((getStrs obs "tables").filter isLookup) == sortStrs (tableLines st'.w.tables) then "predicted-by-model" else "not-predicted"
      let qf := if getNat obs "cause" = 1 then qosFindings s!"{label} {predicted}: " st.cfg (getStrs obs "tables") req.seid (req.createQers ++ req.updateQers.filter fun u =>
          match stored with
          | some s => s.qers.any (·.qerID = u.id)
          | none => false) else []
      (st'', fs ++ tf ++ qf)
    | "del" =>
      let a := getNat j "a"
      let shape := replyShape obs 55
      if !shape.isEmpty then (st, shape) else
      let seid := getNat j "seid"
      let (w', r) := deleteSession st.cfg st.w a seid
      let st' := { st with w := w', ended := if r.cause = 1 then seid :: st.ended else st.ended }
      let (st'', tf) := tableFindings st' obs true ("del" ++ afterLabel st [seid])
      let known := (st.w.conn a).sessions.any (·.lseid = seid)
      let shapeF : List Finding :=
        (if !known ∧ getNat obs "cause" = 1 then [⟨"C02", "deletion of an unknown session accepted"⟩] else []) ++
        (if !known ∧ getNat obs "seid" != 0 then [⟨"C02", "rejection for an unknown session does not carry SEID 0"⟩] else []) ++
        (if known ∧ getNat obs "cause" = 1 ∧ getNat obs "seid" != (((st.w.conn a).sessions.find? (·.lseid = seid)).map (·.rseid)).getD 0 then [⟨"C02", "accepted deletion response is not addressed to the control plane's SEID"⟩] else [])
      (st'', replyFindings obs r ++ shapeF ++ tf)
    | "pfd" =>
      let a := getNat j "a"
      let apps := (getArr j "apps").map fun e => (getStr e "id", getStrs e "fds")
      let shape := replyShape obs 4
      let ok := getNat obs "cause" = 1
      let want := !getBool j "bad"
      ({ st with w := pfdManagement st.w a apps ok }, shape ++
        (if ok != want then [⟨"model", s!"PFD management answered cause {getNat obs "cause"}"⟩] else []))
    | "release" =>
      let a := getNat j "a"
      let sess := (st.w.conn a).sessions.map (·.lseid)
      let st' := { st with w := shutdownConn st.cfg st.w a, ended := sess ++ st.ended }
      let (st'', tf) := tableFindings st' obs true ("release" ++ afterLabel st sess)
      (st'', replyShape obs 10 ++ tf)
    | "hb" =>
      -- a Heartbeat Request is answered in any state, and changes nothing
      (st, replyShape obs 2)
    | "resp" =>
      -- response-type messages are never answered
      if !getBool obs "alive" then (st, [⟨"C01", s!"agent died: {getStr obs "crash"}"⟩])
      else if getNat obs "n" != 0 then (st, [⟨"C02", s!"a response-type message (type {getNat j "type"}) was answered with {getNat obs "n"} datagram(s)"⟩])
      else (st, [])
    | "report65" =>
      let a := getNat j "a"
      let seid := getNat j "seid"
      let known := (st.w.conn a).sessions.any (·.lseid = seid)
      let st' := { st with w := reportContextNotFound st.cfg st.w a seid, ended := if known then seid :: st.ended else st.ended }
      let (st'', tf) := tableFindings st' obs true ("report-context-not-found" ++ afterLabel st [seid])
      (st'', (if !getBool obs "alive" then [⟨"C01", s!"agent died: {getStr obs "crash"}"⟩] else []) ++
             (if getNat obs "n" != 0 then [⟨"C02", "a Session Report Response was answered"⟩] else []) ++ tf)
    | "gone" =>
      -- the association ended by read timeout or heartbeat failure
      let a := getNat j "a"
      let sess := (st.w.conn a).sessions.map (·.lseid)
      let st' := { st with w := shutdownConn st.cfg st.w a, ended := sess ++ st.ended }
      let (st'', tf) := tableFindings st' obs true (s!"ended-by-{getStr j "how"}" ++ afterLabel st sess)
      (st'', (if !getBool obs "alive" then [⟨"C01", s!"agent died: {getStr obs "crash"}"⟩] else []) ++ tf)
    | "stats" =>
      let so := (getObj? obs "stats").getD Json.null
      let live := st.w.conns.flatMap (·.2.sessions)
      -- an address belongs to the session it was allocated for until that session ends (whatever happens to the rule
      -- that asked for it): held = the model pool's holders that are live sessions
      let wantHeld := ((st.w.pool.map (·.inv)).getD []).filter (fun e => live.any (·.lseid == e.1)) |>.length
      let wantTeid := (live.flatMap fun s => s.pdrs.filter (·.chooseTeid)).length
      let modelHeld := (st.w.pool.map (·.inv.length)).getD 0
      let (st', tf) := tableFindings st obs true "stats"
      (st', (if !getBool obs "alive" then [⟨"C01", "agent died"⟩] else
        (if st.w.pool.isSome ∧ getNat so "pool_held" != wantHeld then
          [⟨"C05", s!"{getNat so "pool_held"} UE addresses are held but {wantHeld} live sessions hold one (addresses not returned)"⟩,
           ⟨"C06", s!"the pool holds {getNat so "pool_held"} addresses while {wantHeld} live sessions were given one: an address is released exactly when its session ends"⟩] else []) ++
        (if getNat so "teid_used" != wantTeid then
          [⟨"C05", s!"{getNat so "teid_used"} TEIDs are in use but the live sessions have {wantTeid} UP-chosen TEIDs (TEIDs not returned)"⟩,
           ⟨"C07", s!"the generator records {getNat so "teid_used"} TEIDs in use while the live sessions hold {wantTeid} UP-chosen TEIDs: a TEID is in use exactly while the session it was chosen for lives"⟩] else []) ++
        (if getNat so "sessions" != live.length then
          [⟨"C05", s!"the store holds {getNat so "sessions"} session records, {live.length} sessions are live"⟩] else []) ++
        (if getNat so "gauge" != live.length then
          [⟨"C05", s!"the pfcp_sessions gauge reads {getNat so "gauge"} with {live.length} live sessions"⟩] else []) ++
        (if st.w.pool.isSome ∧ getNat so "pool_held" != modelHeld then [⟨"model", s!"pool holds {getNat so "pool_held"}, model {modelHeld}"⟩] else [])) ++ tf)
    | "ddn" =>
      let a := getNat j "a"
      let seid := getNat j "seid"
      let reports := (getArr obs "reports").map arrNats
      let sess := (st.w.conn a).sessions.find? (·.lseid = seid)
      -- the first association in the node's map receives the report (multi-association routing is documented as unimplemented)
      let want : Option (Nat × Nat) := if st.notified.contains seid then none else sess.bind digestReport
      let last := ((st.lastSeq.find? (·.1 = a)).map (·.2)).getD 0
      let st' := { st with notified := if st.notified.contains seid then st.notified else seid :: st.notified,
                           lastSeq := match reports.getLast? with
                             | some [_, _, sq, _] => (a, sq) :: st.lastSeq.filter (·.1 ≠ a)
                             | _ => st.lastSeq }
      let fs : List Finding :=
        if !getBool obs "alive" then [⟨"C01", "agent died or wedged on a downlink-data report"⟩] else
        match want, reports with
        | none, [] => []
        | none, _ =>
          if sess.isNone then [⟨"C13", s!"a Session Report Request was sent for unknown session {seid}"⟩]
          else if st.notified.contains seid then [⟨"C13", "a second notification for the session was forwarded inside the notification interval"⟩]
          else [⟨"C13", "a Session Report Request was sent although the session's downlink rule does not ask for notification (or it has no downlink PDR)"⟩]
        | some _, [] => [⟨"C13", s!"the first downlink-data report for session {seid} produced no Session Report Request"⟩]
        | some (rseid, pid), [[hs, pdr, sq, dldr]] =>
          (if hs != rseid then [⟨"C13", s!"Session Report Request addressed to SEID {hs}, the control plane's SEID is {rseid}"⟩] else []) ++
          (if pdr != pid ∨ dldr != 1 then [⟨"C13", s!"Downlink Data Report names PDR {pdr} (DLDR flag {dldr}), the session's first downlink PDR is {pid}"⟩] else []) ++
          (if sq ≤ last then [⟨"C13", s!"sequence number {sq} is not fresh (an earlier agent-originated request used {last})"⟩] else [])
        | some _, rs => [⟨"C13", s!"{rs.length} Session Report Requests for one downlink-data report"⟩]
      (st', fs)
    | "note" => (st, [])
    | k => (st, [⟨"bad", s!"unknown event {k}"⟩])

end Check.Sys
