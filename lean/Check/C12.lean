import Check.Sys
import Upf.Model.Notif
/-! C12 acceptor: retransmission series observed at a scripted lossy peer, peer heartbeats, association setup
versus datapath connectivity and configured features. -/
namespace Check.C12
open Check Check.Sys Lean

def features (ueip em : Bool) : List Nat := [0x10, if em then 1 else 0, if ueip then 4 else 0, 0]

def txList (obs : Json) (k : String) : List (Nat × Nat) := (getArr obs k).map fun e => match arrNats e with
  | [t, s] => (t, s)
  | _ => (0, 0)

def gapsOK (rt : Nat) : List (Nat × Nat) → Option String
  | (t1, _) :: (t2, s2) :: rest =>
    let g := t2 - t1
    if 10 * g < 7 * rt then some s!"retransmission after {g} us, resp_timeout is {rt} us"
    else if 10 * g > 15 * rt then some s!"retransmission only after {g} us, resp_timeout is {rt} us"
    else gapsOK rt ((t2, s2) :: rest)
  | _ => none

def step (st : St) (n : Nat) (line : String) : St × List Verdict :=
  match Json.parse line with
  | .error e => (st, [.bad s!"json {e}"])
  | .ok j =>
    let obs := (getObj? j "obs").getD Json.null
    let o (l : List String) : List Verdict := l.map fun m => Verdict.oracle s!"[C12] {m}"
    match getStr j "k" with
    | "hbseries" =>
      let N := getNat j "N"; let rt := getNat j "rt_us"; let k := getNat j "answer"; let iv := getNat j "iv_us"
      let tx := txList obs "tx"
      -- the model: the events the waiter saw
      let evs : List Retry.Ev := if k = 0 then List.replicate (N + 1) .timeout else List.replicate (k - 1) .timeout ++ [.resp 1]
      let (mtx, mres) := Retry.send 1 N evs
      let want := if k = 0 then N + 1 else k
      let sameSeq := tx.all fun e => some e.2 = tx.head?.map (·.2)
      let fs : List String :=
        (if !getBool obs "alive" then ["agent died during a heartbeat series"] else []) ++
        (if tx.length > N + 1 then [s!"{tx.length} transmissions of one request with max_req_retries {N}"] else []) ++
        (if tx.length != want then [s!"{tx.length} transmissions, expected {want} (answer at transmission {k}, 0 = never)"] else []) ++
        (if !sameSeq then ["retransmissions do not carry the same sequence number"] else []) ++
        (match gapsOK rt tx with | some m => [m] | none => []) ++
        (match tx.head? with
          | some (t0, _) => if 10 * t0 < 6 * iv ∨ 10 * t0 > 16 * iv then [s!"first heartbeat {t0} us after association, interval {iv} us"] else []
          | none => ["no heartbeat at all"]) ++
        (if k = 0 ∧ getBool obs "served" then ["peer not declared dead although every transmission went unanswered"] else []) ++
        (if k = 0 ∧ getNat obs "session_entries" != 0 then ["sessions of a dead peer are still in the datapath"] else []) ++
        (if k != 0 ∧ getNat obs "session_entries" = 0 then ["sessions removed although a transmission was answered"] else [])
      let mm : List Verdict := (if mtx != tx.length then [.mismatch s!"model: {mtx} transmissions"] else []) ++
        (if (mres == .dead) != (k == 0) then [.mismatch "model verdict differs"] else [])
      -- the session and association of this round are gone (dead peer) or were deleted by the harness: rebuild the world lazily
      (st, o fs ++ mm)
    | "assocseries" =>
      -- the agent's own Association Setup Request towards a configured peer
      let N := getNat j "N"; let rt := getNat j "rt_us"; let k := getNat j "answer"; let kind := getStr j "kind"
      let tx := txList obs "tx"
      let evs : List Retry.Ev := if k = 0 then List.replicate (N + 1) .timeout else List.replicate (k - 1) .timeout ++ [.resp 1]
      let (mtx, _) := Retry.send 1 N evs
      let want := if k = 0 then N + 1 else k
      let sameSeq := tx.all fun e => some e.2 = tx.head?.map (·.2)
      let fs : List String :=
        (if !getBool obs "alive" then ["agent died during its own association setup"] else []) ++
        (if tx.isEmpty then ["the agent sent no Association Setup Request to its configured peer"] else []) ++
        (if tx.length > N + 1 then [s!"{tx.length} transmissions of the Association Setup Request with max_req_retries {N}"] else []) ++
        (if !tx.isEmpty ∧ tx.length != want then [s!"Association Setup Request: {tx.length} transmissions, expected {want} (a response with its sequence number — {kind} — arrived at transmission {k}; 0 = never)"] else []) ++
        (if !sameSeq then ["retransmissions of the Association Setup Request do not carry the same sequence number"] else []) ++
        (if getBool j "nogaps" then [] else match gapsOK rt tx with | some m => [m] | none => []) ++
        (if kind = "accept" ∧ k != 0 ∧ !getBool obs "served" then ["the association the peer accepted is not served"] else [])
      let mm : List Verdict := if !tx.isEmpty ∧ mtx != tx.length then [.mismatch s!"model: {mtx} transmissions"] else []
      (st, o fs ++ mm)
    | "hbdup" =>
      let tx := txList obs "tx"
      let fs : List String :=
        (if !getBool obs "alive" then ["agent died on duplicated / wrong-sequence responses"] else []) ++
        (if tx.length != 2 then [s!"wrong-sequence responses to transmission 1, the answer (x3) to transmission 2: {tx.length} transmissions seen, expected 2"] else []) ++
        (if !getBool obs "served" then ["association not served after duplicated responses (peer declared dead or reader wedged)"] else []) ++
        (if (txList obs "next_tx").length > 1 then [s!"the heartbeat after the duplicated responses was answered at once but transmitted {(txList obs "next_tx").length} times"] else []) ++
        (if getNat obs "del_cause" != 1 then ["after duplicated responses the association's session is no longer known (the peer was declared dead although every request was answered)"] else [])
      (st, o fs)
    | "peerhb" =>
      let stamps := getNats obs "stamps"
      let fs : List String :=
        (if !getBool obs "alive" then ["agent died on peer heartbeats"] else []) ++
        (if stamps.length != 8 then [s!"{stamps.length} of 8 peer Heartbeat Requests answered"] else []) ++
        (if stamps.eraseDups.length > 1 then [s!"Recovery Time Stamp changed during the association: {stamps.eraseDups}"] else []) ++
        (if !(txList obs "agent_tx_during").isEmpty then ["the agent sent its own heartbeat although the peer's heartbeats arrived more often than the interval (not postponed)"] else [])
      (st, o fs)
    | "peerhbout" =>
      let iv := getNat j "iv_us"
      let gap := (getObj? obs "gap_us").bind (·.getInt?.toOption)
      let fs : List String :=
        (if !getBool obs "alive" then ["agent died on a peer heartbeat during its own outstanding heartbeat"] else []) ++
        (if !getBool obs "peer_sent" then [] else
          match gap with
          | some g => if g < 0 then ["no further heartbeat of the agent was seen after the answered one"]
                      else if 100 * g.toNat < 85 * iv then [s!"the agent's next heartbeat came {g} us after the peer's Heartbeat Request (interval {iv} us): a peer heartbeat that arrives while the agent's own is outstanding does not postpone the next one"] else []
          | none => ["no gap recorded"])
      let vac : List Verdict := if getBool obs "peer_sent" then [] else [.bad "the first heartbeat was not retransmitted: scenario vacuous"]
      (st, o fs ++ vac)
    | "assocfeat" =>
      let conn := (getObj? j "connected").bind (·.getInt?.toOption)
      let feats := getNats obs "features"
      let fs : List String :=
        (if !getBool obs "alive" then ["agent died on association setup"] else []) ++
        (if getNat obs "n" != 1 then [s!"{getNat obs "n"} responses to an Association Setup Request"] else []) ++
        (if conn = some 1 ∧ getNat obs "cause" != 1 then [s!"datapath connected but association answered with cause {getNat obs "cause"}"] else []) ++
        (if conn = some 0 ∧ getNat obs "cause" = 1 then ["datapath not connected but association accepted"] else []) ++
        (if feats != features (getBool j "ueip") (getBool j "em") then
          [s!"UP function features {feats}, configuration (UE IP allocation {getBool j "ueip"}, end marker {getBool j "em"}) calls for {features (getBool j "ueip") (getBool j "em")}"] else [])
      (st, o fs)
    | _ =>
      -- establishment / deletion / release lines of the rounds: only crash-freedom is of interest here
      let (st', fs) := Sys.step st n line
      (st', fs.filterMap fun f => if f.prop = "C01" then some (.oracle s!"[C01] {f.msg}") else if f.prop = "bad" then some (.bad f.msg) else none)

end Check.C12
