
namespace Tab

variable {K V : Type} [DecidableEq K]

abbrev T (K V : Type) := K → Option V

inductive Cmd (K V : Type) | add (k : K) (v : V) | del (k : K)

def Cmd.key : Cmd K V → K
  | .add k _ => k
  | .del k => k

def apply (t : T K V) : Cmd K V → T K V
  | .add k v => fun x => if x = k then some v else t x
  | .del k => fun x => if x = k then none else t x

def run (t : T K V) (cs : List (Cmd K V)) : T K V := cs.foldl apply t

inductive Interleave : List (Cmd K V) → List (Cmd K V) → List (Cmd K V) → Prop
  | nil : Interleave [] [] []
  | left  {x xs ys zs} : Interleave xs ys zs → Interleave (x :: xs) ys (x :: zs)
  | right {y xs ys zs} : Interleave xs ys zs → Interleave xs (y :: ys) (y :: zs)

end Tab

