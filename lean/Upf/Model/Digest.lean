import Upf.Model.Agent
/-! `handleDigestReport` (messages_session.go): which Session Report Request, if any, a downlink-data report for a
stored session produces. -/
namespace Agent

/-- (CP SEID for the header, PDR ID for the Downlink Data Report), or none when nothing is sent -/
def digestReport (s : Session) : Option (Nat × Nat) :=
  let (pdrID, farID) := match s.pdrs.find? (·.srcIface = Sdf.core) with
    | some p => (p.pdrID, p.farID)
    | none => (0, 0)
  if s.fars.any (fun f => f.farID = farID ∧ f.applyAction &&& ActionNotify = 0) then none
  else if pdrID = 0 then none
  else some (s.rseid, pdrID)

end Agent
