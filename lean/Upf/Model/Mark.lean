
namespace Mark

structure Qer where
  id : Nat
  ulMbr : Nat
  gbr : Bool          -- ulGbr > 0 || dlGbr > 0
  session : Bool      -- qosLevel == SessionQos

def intersect (a b : List Nat) : List Nat := a.filter (fun x => b.contains x)

/-- candidate list: last PDR's list intersected with every PDR's list, in order; none = early return -/
def common : List Nat → List (List Nat) → Option (List Nat)
  | acc, [] => some acc
  | acc, l :: ls =>
    let s := intersect acc l
    if s.isEmpty then none else common s ls

/-- index of the chosen QER: among candidates without GBR the one with the largest ulMbr, later wins ties -/
def choose (cands : List Nat) : List Qer → Nat → Option (Nat × Nat) → Option (Nat × Nat)   -- (index, mbr)
  | [], _, best => best
  | q :: qs, i, best =>
    if cands.contains q.id ∧ ¬ q.gbr then
      match best with
      | none => choose cands qs (i+1) (some (i, q.ulMbr))
      | some (_, m) => if q.ulMbr ≥ m then choose cands qs (i+1) (some (i, q.ulMbr)) else choose cands qs (i+1) best
    else choose cands qs (i+1) best

def mark (pdrLists : List (List Nat)) (qers : List Qer) : List Qer :=
  match pdrLists.getLast? with
  | none => qers                                        -- no PDR: nothing to do (was: index −1)
  | some last =>
    if last.length < 1 ∨ qers.length < 2 then qers
    else match common last pdrLists with
      | none => qers
      | some cands =>
        match choose cands qers 0 none with
        | none => qers                                   -- no candidate: nothing marked (was: qers[0])
        | some (i, _) => qers.set i { (qers[i]?).getD ⟨0,0,false,false⟩ with session := true }

end Mark

