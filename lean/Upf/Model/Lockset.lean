
namespace Lockset

abbrev Tid := Nat
abbrev Lock := Nat
abbrev Loc := Nat

structure St where
  owner : Lock → Option Tid            -- who holds each mutex
  inside : Tid → Option Loc            -- the location a thread is currently reading/writing, if any

inductive Act
  | acquire (t : Tid) (l : Lock)
  | release (t : Tid) (l : Lock)
  | enter (t : Tid) (x : Loc)          -- begin an access (a statement touching x)
  | leave (t : Tid)

/-- `guard x` = the mutex the discipline assigns to location x; an access is only *issued* by code
    that holds it (that is the extracted fact), and a release is not issued from inside an access -/
def step (guard : Loc → Lock) (s : St) : Act → Option St
  | .acquire t l => if s.owner l = none then some { s with owner := fun k => if k = l then some t else s.owner k } else none
  | .release t l => if s.owner l = some t ∧ s.inside t = none then some { s with owner := fun k => if k = l then none else s.owner k } else none
  | .enter t x => if s.owner (guard x) = some t ∧ s.inside t = none then some { s with inside := fun u => if u = t then some x else s.inside u } else none
  | .leave t => some { s with inside := fun u => if u = t then none else s.inside u }

def Inv (guard : Loc → Lock) (s : St) : Prop := ∀ t x, s.inside t = some x → s.owner (guard x) = some t

def run (guard : Loc → Lock) : St → List Act → Option St
  | s, [] => some s
  | s, a :: as => match step guard s a with
    | none => none
    | some s' => run guard s' as

end Lockset

