
namespace Pool

structure P where
  free : List Nat
  inv  : List (Nat × Nat)   -- (seid, addr), keys unique

def lookup (p : P) (s : Nat) : Option Nat := (p.inv.find? (·.1 == s)).map (·.2)

def alloc (p : P) (s : Nat) : Option Nat × P :=
  match lookup p s with
  | some a => (some a, p)
  | none =>
    match p.free with
    | [] => (none, p)
    | a :: fs => (some a, { free := fs, inv := (s, a) :: p.inv })

def dealloc (p : P) (s : Nat) : Bool × P :=
  match lookup p s with
  | none => (false, p)
  | some a => (true, { free := p.free ++ [a], inv := p.inv.filter (·.1 != s) })

inductive Op | alloc (s : Nat) | dealloc (s : Nat)
def step (p : P) : Op → P
  | .alloc s => (alloc p s).2
  | .dealloc s => (dealloc p s).2

structure Inv (base : List Nat) (p : P) : Prop where
  perm : (p.free ++ p.inv.map (·.2)).Perm base
  nodup : base.Nodup
  keys : (p.inv.map (·.1)).Nodup

end Pool

