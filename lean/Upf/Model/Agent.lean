import Upf.Model.Sdf
import Upf.Model.PortProduct
import Upf.Model.IPPool
import Upf.Model.Teid
import Upf.Gen.Consts
/-!
The PFCP agent on the BESS datapath, at the level of decoded information elements:
`parsePDR` / `parseFAR` / `parseQER`, `MarkSessionQer`, the establishment / modification / deletion
handlers of messages_session.go, and the command stream of bess.go applied to keyed tables.

Modelling conventions: integers are `Nat` (the harness only sends values inside their field widths);
slices are immutable lists (Go's aliasing between a stored session and its working copy is NOT modelled:
where it is observable the correspondence disagrees and the oracle decides); the session's SEID is the
observed choice of the random source.
-/
namespace Agent
open Sdf Tern

/-! ## rules as the Go structs -/

structure Pdr where
  srcIface : Nat := 0
  srcIfaceMask : Nat := 0
  tunnelIP4Dst : Nat := 0
  tunnelIP4DstMask : Nat := 0
  tunnelTEID : Nat := 0
  tunnelTEIDMask : Nat := 0
  ueAddress : Nat := 0
  af : Filter := {}
  precedence : Nat := 0
  pdrID : Nat := 0
  fseID : Nat := 0
  fseidIP : Nat := 0
  ctrID : Nat := 0
  farID : Nat := 0
  qerIDs : List Nat := []
  needDecap : Nat := 0
  allocIP : Bool := false
  chooseTeid : Bool := false
  deriving DecidableEq

structure Far where
  farID : Nat := 0
  fseID : Nat := 0
  fseidIP : Nat := 0
  dstIntf : Nat := 0
  sendEndMarker : Bool := false
  applyAction : Nat := 0
  tunnelType : Nat := 0
  tunnelIP4Src : Nat := 0
  tunnelIP4Dst : Nat := 0
  tunnelTEID : Nat := 0
  tunnelPort : Nat := 0
  deriving DecidableEq

structure Qer where
  qerID : Nat := 0
  session : Bool := false      -- qosLevel == SessionQos
  qfi : Nat := 0
  ulStatus : Nat := 0
  dlStatus : Nat := 0
  ulMbr : Nat := 0
  dlMbr : Nat := 0
  ulGbr : Nat := 0
  dlGbr : Nat := 0
  fseID : Nat := 0
  fseidIP : Nat := 0
  deriving DecidableEq

structure Session where
  lseid : Nat
  rseid : Nat
  pdrs : List Pdr := []
  fars : List Far := []
  qers : List Qer := []
  deriving DecidableEq

/-! ## decoded information elements (well-formed payloads; presence is explicit) -/

structure PdrIE where
  id : Nat
  prec : Nat
  srcIface : Option Nat := none            -- PFCP value: 0 access, 1 core, 2 SGi-LAN, 3 CP function
  fteid : Option (Bool × Nat × Nat) := none   -- CHOOSE flag, TEID, IPv4
  ueip : Option (Nat × Nat) := none        -- flags, IPv4 (0 when the V4 flag is unset)
  app : Option String := none
  sdf : Option String := none
  ohr : Option Nat := none
  farID : Nat := 0
  qerIDs : List Nat := []

structure FwdIE where
  dst : Option Nat := none
  ohc : Option (Nat × Nat) := none         -- TEID, IPv4
  smreq : Option Nat := none

structure FarIE where
  id : Nat
  action : Nat
  fwd : Option FwdIE := none               -- (Update) Forwarding Parameters

structure QerIE where
  id : Nat
  qfi : Nat := 0
  gateUL : Nat := 0
  gateDL : Nat := 0
  mbrUL : Nat := 0
  mbrDL : Nat := 0
  gbrUL : Nat := 0
  gbrDL : Nat := 0

structure QosCfg where
  cbs : Nat
  pbs : Nat
  ebs : Nat
  burstMs : Nat

structure Cfg where
  accessIP : Nat
  coreIP : Nat
  ueAlloc : Bool
  endMarker : Bool
  qci : List (Nat × QosCfg)       -- qci_qos_config as configured (the default entry 0 is added by `qosFor`)

/-! ## parsing -/

inductive PErr | reject (cause : Nat)
  deriving DecidableEq

def causeAccepted : Nat := 1
def causeRejected : Nat := 64
def causeNoAssoc : Nat := 72
def causeNoResources : Nat := 75

def has2ndBit (f : Nat) : Bool := (f &&& 2) >>> 1 == 1
/-- as written in utils.go: `(f & 0x10) == 1`, which never holds -/
def has5thBit (f : Nat) : Bool := (f &&& 16) == 1
def needAllocIP (flags : Nat) : Bool := !(has2ndBit flags && !has5thBit flags)

/-- source interface and F-TEID of the PDI (no state involved) -/
def ifaceTeid (ie : PdrIE) (p : Pdr) : Pdr :=
  let p := match ie.srcIface with
    | some 0 => { p with srcIface := access, srcIfaceMask := 0xFF }
    | some 1 => { p with srcIface := core, srcIfaceMask := 0xFF }
    | _ => p
  match ie.fteid with
  | none => p
  | some (true, _, _) => { p with chooseTeid := true }
  | some (false, teid, ip) =>
    if teid ≠ 0 then { p with tunnelTEID := teid, tunnelTEIDMask := 0xFFFFFFFF, tunnelIP4Dst := ip, tunnelIP4DstMask := 0xFFFFFFFF } else p

/-- `parseUEAddressIE`: the address is taken from the IE or allocated from the pool (the only place the pool is used) -/
def ueStep (seid : Nat) (ueip : Option (Nat × Nat)) (pool : Option Pool.P) (p : Pdr) : Except PErr Pdr × Option Pool.P :=
  match ueip with
  | none => (.ok p, pool)
  | some (flags, ip) =>
    if needAllocIP flags then
      match pool with
      | none => (.error (.reject causeRejected), pool)            -- no pool configured: refused
      | some pl =>
        match Pool.alloc pl seid with
        | (none, _) => (.error (.reject causeRejected), pool)
        | (some a, pl') => (.ok { p with ueAddress := a, allocIP := true }, some pl')
    else if flags &&& 2 = 0 ∨ flags &&& 16 ≠ 0 then (.error (.reject causeRejected), pool)   -- the IE carries no IPv4 address
    else (.ok { p with ueAddress := ip }, pool)

/-- first pass of `parsePDI` in the IE order the harness uses: source interface, F-TEID, UE address.
The pool is returned in every case: an allocation made before a later error stays made. -/
def parsePDI1 (seid : Nat) (ie : PdrIE) (pool : Option Pool.P) (p : Pdr) : Except PErr Pdr × Option Pool.P :=
  if ie.srcIface = some 3 then (.error (.reject causeRejected), pool)
  else ueStep seid ie.ueip pool (ifaceTeid ie p)

/-- second pass: application ID then SDF filter (at most one of them in the modelled envelope) -/
def parsePDI2 (apps : List (String × List String)) (ie : PdrIE) (p : Pdr) : Except PErr Pdr := do
  let p := { p with af := prefill p.srcIface p.ueAddress }
  let p ← match ie.app with
    | none => pure p
    | some a => match parseApp p.srcIface p.ueAddress apps a with
      | .ok f => pure { p with af := f }
      | .ignored _ => pure p
      | .rejected => throw (.reject causeRejected)
  match ie.sdf with
  | none => pure p
  | some s => match parseSDF p.srcIface p.ueAddress s with
    | .ok f => pure { p with af := f }
    | .ignored _ => pure p
    | .rejected => throw (.reject causeRejected)

/-- `parsePDR`; the pool is returned also when the rule is refused -/
def parsePDR (seid : Nat) (apps : List (String × List String)) (ie : PdrIE) (pool : Option Pool.P) :
    Except PErr Pdr × Option Pool.P :=
  match parsePDI1 seid ie pool { fseID := seid } with
  | (.error e, pool) => (.error e, pool)
  | (.ok p, pool) =>
    match parsePDI2 apps ie p with
    | .error e => (.error e, pool)
    | .ok p => (.ok { p with precedence := ie.prec, pdrID := ie.id, farID := ie.farID, qerIDs := ie.qerIDs,
                             needDecap := if ie.ohr = some 0 then 1 else 0 }, pool)

def ActionForward : Nat := Gen.Consts.ActionForward
def ActionDrop : Nat := Gen.Consts.ActionDrop
def ActionBuffer : Nat := Gen.Consts.ActionBuffer
def ActionNotify : Nat := Gen.Consts.ActionNotify

/-- the loop of `parseFAR` over the forwarding-parameter IEs -/
def applyFwd (cfg : Cfg) (f : Far) (w : FwdIE) : Far :=
  let f := match w.ohc with
    | none => f
    | some (teid, ip) => { f with tunnelTEID := teid, tunnelIP4Dst := ip, tunnelType := 1, tunnelPort := Gen.Consts.tunnelGTPUPort }
  let f := match w.dst with
    | none => f
    | some d =>
      let f := { f with dstIntf := d }
      if d = 0 then { f with tunnelIP4Src := cfg.accessIP } else if d = 1 then { f with tunnelIP4Src := cfg.coreIP } else f
  match w.smreq with
  | none => f
  | some fl => if has2ndBit fl then { f with sendEndMarker := true } else f

/-- `parseFAR` for create (`upd = false`) and update -/
def parseFAR (cfg : Cfg) (seid : Nat) (ie : FarIE) (upd : Bool) : Except PErr Far := do
  if ie.action % 256 = 0 then throw (.reject causeRejected)
  let f : Far := { fseID := seid, farID := ie.id, applyAction := ie.action % 256 }
  if upd then
    match ie.fwd with
    | none => throw (.reject causeRejected)            -- UpdateForwardingParameters absent: accessor error
    | some w => pure (applyFwd cfg f w)
  else if f.applyAction &&& ActionForward ≠ 0 then
    match ie.fwd with
    | none => throw (.reject causeRejected)
    | some w => pure (applyFwd cfg f w)
  else pure f

def parseQER (seid : Nat) (ie : QerIE) : Qer :=
  { qerID := ie.id, qfi := ie.qfi, ulStatus := ie.gateUL, dlStatus := ie.gateDL, ulMbr := ie.mbrUL, dlMbr := ie.mbrDL,
    ulGbr := ie.gbrUL, dlGbr := ie.gbrDL, fseID := seid }

/-! ## MarkSessionQer (session_qer.go) -/

def intersect (a b : List Nat) : List Nat := a.filter (fun x => b.contains x)

/-- candidate list: the last PDR's list intersected with every PDR's list in turn; none = early return -/
def common : List Nat → List (List Nat) → Option (List Nat)
  | acc, [] => some acc
  | acc, l :: ls =>
    let s := intersect acc l
    if s.isEmpty then none else common s ls

/-- (index, id, mbr) of the chosen QER: among candidates without GBR the largest uplink MBR, later wins ties -/
def choose (cands : List Nat) : List Qer → Nat → Option (Nat × Nat × Nat) → Option (Nat × Nat × Nat)
  | [], _, best => best
  | q :: qs, i, best =>
    if cands.contains q.qerID ∧ ¬ (q.ulGbr > 0 ∨ q.dlGbr > 0) then
      match best with
      | none => choose cands qs (i+1) (some (i, q.qerID, q.ulMbr))
      | some (_, _, m) => if q.ulMbr ≥ m then choose cands qs (i+1) (some (i, q.qerID, q.ulMbr)) else choose cands qs (i+1) best
    else choose cands qs (i+1) best

/-- move `id` to the end of a PDR's QER list if present (first occurrence) -/
def moveLast (l : List Nat) (id : Nat) : List Nat := if l.contains id then l.erase id ++ [id] else l

/-- `s.MarkSessionQer(qers)`: returns the marked `qers` and the session's PDRs with reordered lists -/
def markSessionQer (pdrs : List Pdr) (qers : List Qer) : List Qer × List Pdr :=
  match pdrs.getLast? with
  | none => (qers, pdrs)
  | some last =>
    if last.qerIDs.length < 1 ∨ qers.length < 2 then (qers, pdrs)
    else match common last.qerIDs (pdrs.map (·.qerIDs)) with
      | none => (qers, pdrs)
      | some cands =>
        match choose cands qers 0 none with
        | none => (qers, pdrs)
        | some (i, id, _) =>
          ((qers.mapIdx fun j q => if j = i then { q with session := true } else q),
           pdrs.map fun p => { p with qerIDs := moveLast p.qerIDs id })

/-! ## BESS commands and tables -/

abbrev Table := List (String × String)       -- key ↦ value, keys unique

structure Tables where
  pdr : Table := []
  far : Table := []
  appQer : Table := []
  sessQer : Table := []
  deriving DecidableEq

def Table.upsert (t : Table) (k v : String) : Table :=
  if t.any (·.1 == k) then t.map fun e => if e.1 == k then (k, v) else e else t ++ [(k, v)]

def Table.del (t : Table) (k : String) : Table := t.filter (·.1 != k)

def commaSep (l : List Nat) : String := ",".intercalate (l.map toString)

/-- entries written for one PDR: one per port rule of the Cartesian product (none when the pair is refused) -/
def pdrEntries (p : Pdr) : Option (List (String × String)) :=
  (cartesian p.af.srcPorts p.af.dstPorts).map fun rules => rules.map fun r =>
    let vals := [p.srcIface, p.tunnelIP4Dst, p.tunnelTEID, p.af.srcIP, p.af.dstIP, r.src.port.toNat, r.dst.port.toNat, p.af.proto]
    let masks := [p.srcIfaceMask, p.tunnelIP4DstMask, p.tunnelTEIDMask, p.af.srcMask, p.af.dstMask, r.src.mask.toNat, r.dst.mask.toNat, p.af.protoMask]
    (commaSep vals ++ "/" ++ commaSep masks,
     commaSep [p.needDecap, 4294967295 - p.precedence, p.pdrID, p.fseID, p.ctrID, p.qerIDs.headD 0, p.farID])

/-- `setActionValue` -/
def actionValue (f : Far) : Nat :=
  if f.applyAction &&& ActionForward ≠ 0 then
    (if f.dstIntf = 0 then Gen.Consts.farForwardD
     else if f.dstIntf = 1 ∨ f.dstIntf = 2 then Gen.Consts.farForwardU else Gen.Consts.farDrop)
  else if f.applyAction &&& ActionDrop ≠ 0 then Gen.Consts.farDrop
  else if f.applyAction &&& ActionBuffer ≠ 0 then Gen.Consts.farNotify
  else if f.applyAction &&& ActionNotify ≠ 0 then Gen.Consts.farNotify
  else Gen.Consts.farDrop

def farEntry (f : Far) : String × String :=
  (commaSep [f.farID, f.fseID],
   commaSep [f.tunnelType, actionValue f, f.tunnelType, f.tunnelIP4Src, f.tunnelIP4Dst, f.tunnelTEID, f.tunnelPort])

def u64 (n : Nat) : Nat := n % 18446744073709551616

/-- `calcBurstSizeFromRate`: `kbps/8*ms + kbps%8*ms/8` on uint64 -/
def calcBurst (kbps ms : Nat) : Nat := u64 (u64 (kbps / 8 * ms) + u64 (kbps % 8 * ms) / 8)

def qosFor (cfg : Cfg) (qfi : Nat) : QosCfg :=
  let dflt : QosCfg := match cfg.qci.find? (·.1 = 0) with
    | some (_, c) => c
    | none => ⟨Gen.Consts.DefaultBurstSize, Gen.Consts.DefaultBurstSize, Gen.Consts.DefaultBurstSize, 10⟩
  match cfg.qci.find? (·.1 = qfi) with
  | some (_, c) => c
  | none => dflt

/-- one direction of `addQER`: (gate, cir, pir) given the values carried over from the previous half -/
def qerHalf (status mbr gbr : Nat) (cir0 pir0 : Nat) : Nat × Nat × Nat :=
  if status ≠ 0 then (Gen.Consts.qerGateStatusDrop, cir0, pir0)
  else if mbr ≠ 0 ∨ gbr ≠ 0 then
    let cir := max (u64 (gbr * 1000) / 8) 1
    let pir := max (u64 (mbr * 1000) / 8) cir
    (Gen.Consts.qerGateMeter, cir, pir)
  else (Gen.Consts.qerGateUnmeter, cir0, pir0)

/-- burst sizes of one direction: (cbs, pbs, ebs), each the larger of rate × duration and the configured minimum -/
def bursts (c : QosCfg) (mbr gbr : Nat) : Nat × Nat × Nat :=
  (max (calcBurst gbr c.burstMs) c.cbs, max (calcBurst mbr c.burstMs) c.pbs, max (calcBurst mbr c.burstMs) c.ebs)

/-- the two entries (uplink, downlink) written for a QER, with the table its level selects -/
def qerEntries (cfg : Cfg) (q : Qer) : List (String × String) :=
  let c := qosFor cfg q.qfi
  let (g1, cir1, pir1) := qerHalf q.ulStatus q.ulMbr q.ulGbr 0 0
  let (cbs1, pbs1, ebs1) := bursts c q.ulMbr q.ulGbr
  let (g2, cir2, pir2) := qerHalf q.dlStatus q.dlMbr q.dlGbr cir1 pir1
  let (cbs2, pbs2, ebs2) := bursts c q.dlMbr q.dlGbr
  if q.session then
    [ (commaSep [access, q.fseID], commaSep [g1, cir1, pir1, cbs1, pbs1, ebs1]),
      (commaSep [core, q.fseID], commaSep [g2, cir2, pir2, cbs2, pbs2, ebs2]) ]
  else
    [ (commaSep [access, q.qerID, q.fseID], commaSep [g1, cir1, pir1, cbs1, pbs1, ebs1, q.qfi]),
      (commaSep [core, q.qerID, q.fseID], commaSep [g2, cir2, pir2, cbs2, pbs2, ebs2, q.qfi]) ]

def addPdr (t : Tables) (p : Pdr) : Tables :=
  match pdrEntries p with
  | none => t
  | some es => { t with pdr := es.foldl (fun tb e => tb.upsert e.1 e.2) t.pdr }

def delPdr (t : Tables) (p : Pdr) : Tables :=
  match pdrEntries p with
  | none => t
  | some es => { t with pdr := es.foldl (fun tb e => tb.del e.1) t.pdr }

def addFar (t : Tables) (f : Far) : Tables := { t with far := t.far.upsert (farEntry f).1 (farEntry f).2 }
def delFar (t : Tables) (f : Far) : Tables := { t with far := t.far.del (farEntry f).1 }

def addQer (cfg : Cfg) (t : Tables) (q : Qer) : Tables :=
  let es := qerEntries cfg q
  if q.session then { t with sessQer := es.foldl (fun tb e => tb.upsert e.1 e.2) t.sessQer }
  else { t with appQer := es.foldl (fun tb e => tb.upsert e.1 e.2) t.appQer }

def delQer (cfg : Cfg) (t : Tables) (q : Qer) : Tables :=
  let es := qerEntries cfg q
  if q.session then { t with sessQer := es.foldl (fun tb e => tb.del e.1) t.sessQer }
  else { t with appQer := es.foldl (fun tb e => tb.del e.1) t.appQer }

/-- `SendMsgToUPF(add|mod, …)`: PDRs, then FARs, then QERs (the goroutines touch different keys) -/
def sendAdd (cfg : Cfg) (t : Tables) (pdrs : List Pdr) (fars : List Far) (qers : List Qer) : Tables :=
  let t := pdrs.foldl addPdr t
  let t := fars.foldl addFar t
  qers.foldl (addQer cfg) t

def sendDel (cfg : Cfg) (t : Tables) (pdrs : List Pdr) (fars : List Far) (qers : List Qer) : Tables :=
  let t := pdrs.foldl delPdr t
  let t := fars.foldl delFar t
  qers.foldl (delQer cfg) t

/-! ## associations and the world -/

structure Conn where
  remoteNode : String := ""          -- node ID learnt at association setup ("" before)
  sessions : List Session := []
  apps : List (String × List String) := []

structure World where
  conns : List (Nat × Conn) := []    -- association index ↦ state
  pool : Option Pool.P := none
  teid : Teid.G := { offset := 0, used := fun _ => false }
  tables : Tables := {}

def World.conn (w : World) (a : Nat) : Conn := ((w.conns.find? (·.1 = a)).map (·.2)).getD {}

def World.setConn (w : World) (a : Nat) (c : Conn) : World :=
  if w.conns.any (·.1 = a) then { w with conns := w.conns.map fun e => if e.1 = a then (a, c) else e }
  else { w with conns := w.conns ++ [(a, c)] }

structure CreatedPdr where
  pdrID : Nat
  teid : Option (Nat × Nat)          -- UP-chosen F-TEID: TEID, address
  ue : Option Nat                    -- UP-allocated UE address
  deriving DecidableEq, Repr

structure Reply where
  cause : Nat
  seid : Nat                         -- SEID in the response header
  upSeid : Option Nat := none        -- UP F-SEID (accepted establishment)
  created : List CreatedPdr := []
  deriving DecidableEq, Repr

def M : Nat := Gen.Consts.maxValue

/-- what `RemoveSession` gives back: the session's UE address (keyed by its SEID) and its UP-chosen TEIDs -/
def releaseRes (pool : Option Pool.P) (g : Teid.G) (lseid : Nat) (pdrs : List Pdr) : Option Pool.P × Teid.G :=
  (pool.map fun pl => (Pool.dealloc pl lseid).2,
   pdrs.foldl (fun g p => if p.chooseTeid then Teid.free g p.tunnelTEID else g) g)

/-- the PDR loop of the establishment handler; on refusal the state reached so far is returned with the cause -/
def estPdrs (cfg : Cfg) (lseid fseidIP : Nat) (apps : List (String × List String)) :
    List PdrIE → Option Pool.P → Teid.G → List Pdr → Except (Nat × List Pdr × Option Pool.P × Teid.G) (List Pdr × Option Pool.P × Teid.G)
  | [], pool, g, acc => pure (acc.reverse, pool, g)
  | ie :: rest, pool, g, acc =>
    match parsePDR lseid apps ie pool with
    | (.error (.reject cause), pool) => throw (cause, acc.reverse, pool, g)
    | (.ok p, pool) =>
      if p.chooseTeid then
        match Teid.allocate M g with
        | none => throw (causeNoResources, acc.reverse, pool, g)
        | some (id, g') =>
          estPdrs cfg lseid fseidIP apps rest pool g'
            ({ p with tunnelTEID := id, tunnelTEIDMask := 0xFFFFFFFF, tunnelIP4Dst := cfg.accessIP, tunnelIP4DstMask := 0xFFFFFFFF, fseidIP := fseidIP } :: acc)
      else estPdrs cfg lseid fseidIP apps rest pool g ({ p with fseidIP := fseidIP } :: acc)

def mapFars (cfg : Cfg) (lseid fseidIP : Nat) (upd : Bool) : List FarIE → Except PErr (List Far)
  | [] => pure []
  | ie :: rest => do
    let f ← parseFAR cfg lseid ie upd
    let fs ← mapFars cfg lseid fseidIP upd rest
    pure ({ f with fseidIP := fseidIP } :: fs)

def createdOf (pdrs : List Pdr) : List CreatedPdr :=
  pdrs.flatMap fun p =>
    (if p.chooseTeid then [{ pdrID := p.pdrID, teid := some (p.tunnelTEID, p.tunnelIP4Dst), ue := none : CreatedPdr }] else []) ++
    (if p.allocIP ∧ p.srcIface = core then [{ pdrID := p.pdrID, teid := none, ue := some p.ueAddress : CreatedPdr }] else [])

structure EstReq where
  nodeID : String
  cpSeid : Nat
  cpIP : Nat
  pdrs : List PdrIE
  fars : List FarIE
  qers : List QerIE

/-- `handleSessionEstablishmentRequest`; `lseid` is the SEID the random source produced (observed).
A request refused after the session record was created gives back whatever it had acquired. -/
def establish (cfg : Cfg) (w : World) (a : Nat) (lseid : Nat) (r : EstReq) : World × Reply :=
  let c := w.conn a
  if r.nodeID ≠ c.remoteNode then (w, { cause := causeNoAssoc, seid := r.cpSeid })
  else
    match estPdrs cfg lseid r.cpIP c.apps r.pdrs w.pool w.teid [] with
    | .error (cause, pdrs, pool, g) =>
      let (pool, g) := releaseRes pool g lseid pdrs
      ({ w with pool := pool, teid := g }, { cause := cause, seid := r.cpSeid })
    | .ok (pdrs, pool, g) =>
      match mapFars cfg lseid r.cpIP false r.fars with
      | .error (.reject cause) =>
        let (pool, g) := releaseRes pool g lseid pdrs
        ({ w with pool := pool, teid := g }, { cause := cause, seid := r.cpSeid })
      | .ok fars =>
        let qers := r.qers.map fun ie => { parseQER lseid ie with fseidIP := r.cpIP }
        let (qers1, pdrs1) := markSessionQer pdrs qers
        -- second call, on the to-be-sent copy of the QERs (for an establishment the datapath receives the session's own rules)
        let (_, pdrs2) := markSessionQer pdrs1 qers
        let s : Session := { lseid := lseid, rseid := r.cpSeid, pdrs := pdrs2, fars := fars, qers := qers1 }
        let t := sendAdd cfg w.tables s.pdrs s.fars s.qers
        let w := { w with pool := pool, teid := g, tables := t }
        (w.setConn a { c with sessions := c.sessions ++ [s] },
         { cause := causeAccepted, seid := r.cpSeid, upSeid := some lseid, created := createdOf pdrs })

/-- `handleSessionDeletionRequest` -/
def deleteSession (cfg : Cfg) (w : World) (a : Nat) (seid : Nat) : World × Reply :=
  let c := w.conn a
  match c.sessions.find? (·.lseid = seid) with
  | none => (w, { cause := causeRejected, seid := 0 })
  | some s =>
    let t := sendDel cfg w.tables s.pdrs s.fars s.qers
    let (pool, g) := releaseRes w.pool w.teid s.lseid s.pdrs
    let w := { w with tables := t, pool := pool, teid := g }
    (w.setConn a { c with sessions := c.sessions.filter (·.lseid ≠ seid) }, { cause := causeAccepted, seid := s.rseid })

/-- the tables the live sessions denote: every rule of every stored session, installed on empty tables -/
def image (cfg : Cfg) (w : World) : Tables :=
  (w.conns.flatMap (·.2.sessions)).foldl (fun t s => sendAdd cfg t s.pdrs s.fars s.qers) {}

end Agent
