
namespace P4

inductive Kind | exact | lpm | ternary | range deriving DecidableEq, Repr

structure MF where
  id : Nat
  name : String
  bits : Nat
  kind : Kind
deriving Repr

structure Table where
  id : Nat
  name : String
  fields : List MF
  actions : List Nat
deriving Repr

structure Param where
  id : Nat
  name : String
  bits : Nat
deriving Repr

structure Action where
  id : Nat
  name : String
  params : List Param
deriving Repr

structure Info where
  tables : List Table
  actions : List Action

def info : Info := {
  tables := [
    { id := 44976597, name := "PreQosPipe.sessions_uplink",
      fields := [⟨1, "n3_address", 32, .exact⟩, ⟨2, "teid", 32, .exact⟩], actions := [19461580, 22196934, 28401267] },
    { id := 46868458, name := "PreQosPipe.applications",
      fields := [⟨1, "slice_id", 4, .exact⟩, ⟨2, "app_ip_addr", 32, .lpm⟩, ⟨3, "app_l4_port", 16, .range⟩, ⟨4, "app_ip_proto", 8, .ternary⟩],
      actions := [23010411] } ],
  actions := [
    { id := 19461580, name := "PreQosPipe.set_session_uplink", params := [⟨1, "session_meter_idx", 32⟩] },
    { id := 23010411, name := "PreQosPipe.set_app_id", params := [⟨1, "app_id", 8⟩] } ] }

structure FM where
  fieldId : Nat
  kind : Kind
  value : Nat      -- numeric value (low for range)
  aux : Nat        -- prefix len / mask / high

structure Entry where
  table : Nat
  matches_ : List FM
  action : Nat
  params : List (Nat × Nat)   -- (param id, numeric value)
  priority : Nat

def Info.table? (i : Info) (id : Nat) : Option Table := i.tables.find? (·.id == id)
def Info.action? (i : Info) (id : Nat) : Option Action := i.actions.find? (·.id == id)
def Table.field? (t : Table) (n : String) : Option MF := t.fields.find? (·.name == n)
def Action.param? (a : Action) (n : String) : Option Param := a.params.find? (·.name == n)

/-- builder in the style of the Go code: look names up in the P4Info, fail if absent -/
def withExact (i : Info) (e : Entry) (name : String) (v : Nat) : Option Entry := do
  let t ← i.table? e.table
  let f ← t.field? name
  pure { e with matches_ := e.matches_ ++ [⟨f.id, .exact, v, 0⟩] }

def withParam (i : Info) (e : Entry) (name : String) (v : Nat) : Option Entry := do
  let a ← i.action? e.action
  let p ← a.param? name
  pure { e with params := e.params ++ [(p.id, v)] }

def buildUplinkSession (i : Info) (n3 teid : BitVec 32) (meter : BitVec 32) : Option Entry := do
  let e : Entry := { table := 44976597, matches_ := [], action := 19461580, params := [], priority := 0 }
  let e ← withExact i e "n3_address" n3.toNat
  let e ← withExact i e "teid" teid.toNat
  withParam i e "session_meter_idx" meter.toNat

def validFM (t : Table) (m : FM) : Prop :=
  ∃ f ∈ t.fields, f.id = m.fieldId ∧ f.kind = m.kind ∧ m.value < 2 ^ f.bits

def valid (i : Info) (e : Entry) : Prop :=
  ∃ t, i.table? e.table = some t ∧ (∀ m ∈ e.matches_, validFM t m) ∧
    e.action ∈ t.actions ∧
    ∃ a, i.action? e.action = some a ∧ e.params.map (·.1) = a.params.map (·.id) ∧
      (∀ pv ∈ e.params, ∃ p ∈ a.params, p.id = pv.1 ∧ pv.2 < 2 ^ p.bits) ∧
    ((t.fields.any fun f => f.kind == .ternary || f.kind == .range) = true → e.priority ≠ 0)

end P4

