import Upf.Model.Calc
import Upf.Gen.Consts
/-! `ConfigHandler.ServeHTTP`, `handleSliceConfig`, `bess.addSliceMeter` (web_service.go, bess.go). -/
namespace Rest

structure Doc where
  ulMbr : BitVec 64
  dlMbr : BitVec 64
  unit : String
  ulBurst : BitVec 64
  dlBurst : BitVec 64
  deriving DecidableEq

inductive Body
  | unreadable
  | malformed
  | ok (d : Doc)
  deriving DecidableEq

structure Outcome where
  responses : List Nat          -- status of every sendHTTPResp call, in order
  programmed : Option Doc       -- the document handed to handleSliceConfig, if any
  deriving DecidableEq

/-- the decision structure of ServeHTTP -/
def serve (method : String) (b : Body) : Outcome :=
  if method = "PUT" ∨ method = "POST" then
    match b with
    | .unreadable => { responses := [400], programmed := none }
    | .malformed => { responses := [400], programmed := none }
    | .ok d => { responses := [201], programmed := some d }
  else { responses := [405], programmed := none }

/-- the two sliceMeter entries `handleSliceConfig` programs on BESS: uplink (N6) and downlink (N3).
`cir`/`pir` are carried over from the uplink half to the downlink half when the downlink rate is zero (as in the code). -/
def unitOfString (u : String) : Calc.Unit_ :=
  if u = "bps" then .bps else if u = "Kbps" then .kbps else if u = "Gbps" then .gbps else if u = "Mbps" then .mbps else .other

def sliceEntries (d : Doc) : List (String × String) :=
  let ul := Calc.bitRates d.ulMbr (unitOfString d.unit)
  let dl := Calc.bitRates d.dlMbr (unitOfString d.unit)
  let ulGate := if ul != 0#64 then Gen.Consts.sliceMeterGateMeter else Gen.Consts.sliceMeterGateUnmeter
  let ulCir := if ul != 0#64 then 1 else 0
  let ulPir := if ul != 0#64 then (ul / 8#64).toNat else 0
  let ulPbs := if d.ulBurst != 0#64 then d.ulBurst.toNat else Gen.Consts.DefaultBurstSize
  let dlGate := if dl != 0#64 then Gen.Consts.sliceMeterGateMeter else Gen.Consts.sliceMeterGateUnmeter
  let dlCir := if dl != 0#64 then 1 else ulCir
  let dlPir := if dl != 0#64 then (dl / 8#64).toNat else ulPir
  let dlPbs := if d.dlBurst != 0#64 then d.dlBurst.toNat else Gen.Consts.DefaultBurstSize
  [ (s!"{Gen.Consts.farForwardU},0", s!"{ulGate},{ulCir},{ulPir},1,{ulPbs},0,d0"),
    (s!"{Gen.Consts.farForwardD},1", s!"{dlGate},{dlCir},{dlPir},1,{dlPbs},0,d50") ]

end Rest
