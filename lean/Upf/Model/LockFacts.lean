import Upf.Gen.Locks
/-! How the regenerated lock facts are read: an object's state is accessed atomically when no function
outside the type touches its fields and every method that touches a field either starts with
`Lock(); defer Unlock()` or is a helper called only from such methods. -/
namespace Gen.Locks

def Obj.callers (o : Obj) (m : String) : List Method := o.methods.filter (·.calls.contains m)

def Obj.covered (o : Obj) (m : Method) : Bool :=
  m.locked || m.fields.isEmpty || (!(o.callers m.name).isEmpty && (o.callers m.name).all (·.locked))

def Obj.atomic (o : Obj) : Bool := o.external.isEmpty && o.methods.all o.covered

/-- the fields of an object that some uncovered method touches -/
def Obj.unguarded (o : Obj) : List String :=
  ((o.methods.filter (fun m => !o.covered m)).flatMap (·.fields)).eraseDups

end Gen.Locks
