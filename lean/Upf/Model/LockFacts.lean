import Upf.Gen.Locks
/-! How the regenerated lock facts are read: an object's state is accessed atomically when no function
outside the type touches its fields and every method that touches a field either starts with
`Lock(); defer Unlock()` or is a helper called only from such methods. -/
namespace Gen.Locks

def Obj.callers (o : Obj) (m : String) : List Method := o.methods.filter (·.calls.contains m)

def Obj.covered (o : Obj) (m : Method) : Bool :=
  m.locked || m.fields.isEmpty || (!(o.callers m.name).isEmpty && (o.callers m.name).all (·.locked))

def Obj.atomic (o : Obj) : Bool := o.external.isEmpty && o.methods.all o.covered

/-- the fields of an object that some uncovered method touches -/
def Obj.unguarded (o : Obj) : List String :=
  ((o.methods.filter (fun m => !o.covered m)).flatMap (·.fields)).eraseDups

/-- methods no other method of the type calls: where control enters the object -/
def Obj.roots (o : Obj) : List Method := o.methods.filter fun m => (o.callers m.name).isEmpty

/-- methods reachable from `ms` through calls without passing through a method that takes the lock (fuel = number of methods) -/
def Obj.reachUnlocked (o : Obj) : Nat → List Method → List Method
  | 0, ms => ms
  | fuel + 1, ms =>
    let next := ms.flatMap fun m => if m.locked then [] else o.methods.filter fun c => m.calls.contains c.name
    let all := (ms ++ next).eraseDups
    if all.length = ms.length then ms else o.reachUnlocked fuel all

/-- fields some method touches while no lock of the object is held on the path from an entry point other than the
constructors `init` (which run before any other goroutine can reach the object) -/
def Obj.exposed (o : Obj) (init : List String) : List String :=
  let entry := o.roots.filter fun m => !init.contains m.name
  (((o.reachUnlocked o.methods.length entry).filter (!·.locked)).flatMap (·.fields)).eraseDups

end Gen.Locks
