import Upf.Model.Tab

namespace Ref

open Tab

structure Far where
  id : Nat
  val : Nat

structure Sess where
  seid : Nat
  fars : List Far

abbrev Key := Nat × Nat      -- (far id, seid)

def farVal (fars : List Far) (fid : Nat) : Option Nat := (fars.find? (fun f => f.id == fid)).map (·.val)

def image (store : List Sess) : T Key Nat := fun k =>
  match store.find? (fun s => s.seid == k.2) with
  | none => none
  | some s => farVal s.fars k.1

def addCmds (seid : Nat) (fars : List Far) : List (Cmd Key Nat) := fars.map fun f => .add (f.id, seid) f.val
def delCmds (seid : Nat) (fars : List Far) : List (Cmd Key Nat) := fars.map fun f => .del (f.id, seid)

end Ref

