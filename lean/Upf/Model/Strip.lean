
namespace Strip

/-- is there a "*/" before the end of the line? (text after "/*") -/
def hasClose : List Char → Bool
  | [] => false
  | [_] => false
  | c :: d :: r =>
    if c = '\n' then false
    else if c = '*' then (if d = '/' then true else hasClose (d :: r))
    else hasClose (d :: r)

inductive Mode | code | line | block

def strip : Mode → List Char → List Char
  | _, [] => []
  | .code, [c] => [c]
  | .code, c :: d :: r =>
    if c = '/' then
      if d = '/' then strip .line r
      else if d = '*' then (if hasClose r then strip .block r else '/' :: strip .code (d :: r))
      else '/' :: strip .code (d :: r)
    else c :: strip .code (d :: r)
  | .line, c :: rest => if c = '\n' then '\n' :: strip .code rest else strip .line rest
  | .block, [_] => []
  | .block, c :: d :: r =>
    if c = '*' then (if d = '/' then strip .code r else strip .block (d :: r))
    else strip .block (d :: r)

def removeComments (s : String) : String := String.ofList (strip .code s.toList)

end Strip

namespace Strip

/-- no adjacent pair (a,b) in the list -/
def NoPair (a b : Char) : List Char → Prop
  | [] => True
  | [_] => True
  | x :: y :: rest => ¬ (x = a ∧ y = b) ∧ NoPair a b (y :: rest)

/-- text that cannot start or contain a comment, whatever follows it, provided it does not end in '/' -/
def Plain (cs : List Char) : Prop := NoPair '/' '/' cs ∧ NoPair '/' '*' cs ∧ cs.getLast? ≠ some '/'

/-- documents: plain text interleaved with comments -/
inductive Piece
  | text (cs : List Char)
  | line (body : List Char)      -- "//" body, up to (not including) the newline
  | block (body : List Char)     -- "/*" body "*/"

def render : List Piece → List Char
  | [] => []
  | .text cs :: ps => cs ++ render ps
  | .line b :: ps => '/' :: '/' :: (b ++ render ps)
  | .block b :: ps => '/' :: '*' :: (b ++ '*' :: '/' :: render ps)

def expected : List Piece → List Char
  | [] => []
  | .text cs :: ps => cs ++ expected ps
  | .line _ :: ps => expected ps
  | .block _ :: ps => expected ps

/-- well-formed documents: text is Plain; a line comment has no newline in its body and is followed by
    end of input or by text starting with a newline; a block body has no newline and no "*/" -/
def WF : List Piece → Prop
  | [] => True
  | .text cs :: ps => Plain cs ∧ WF ps
  | .line b :: ps => '\n' ∉ b ∧ WF ps ∧
      (ps = [] ∨ ∃ cs ps', ps = .text ('\n' :: cs) :: ps')
  | .block b :: ps => '\n' ∉ b ∧ NoPair '*' '/' (b ++ ['*']) ∧ WF ps

/-! executable versions of the well-formedness predicates (used by the trace acceptor; sound by `wfB_sound`) -/

def noPairB (a b : Char) : List Char → Bool
  | [] => true
  | [_] => true
  | x :: y :: rest => !(x == a && y == b) && noPairB a b (y :: rest)

def plainB (cs : List Char) : Bool :=
  noPairB '/' '/' cs && noPairB '/' '*' cs && cs.getLast? != some '/'

def startsWithNewlineText : List Piece → Bool
  | [] => true
  | .text ('\n' :: _) :: _ => true
  | _ => false

def wfB : List Piece → Bool
  | [] => true
  | .text cs :: ps => plainB cs && wfB ps
  | .line b :: ps => !b.contains '\n' && wfB ps && startsWithNewlineText ps
  | .block b :: ps => !b.contains '\n' && noPairB '*' '/' (b ++ ['*']) && wfB ps

end Strip
