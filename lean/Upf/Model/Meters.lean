
namespace Meters

inductive Kind | app | sess deriving DecidableEq

structure Meter where
  kind : Kind
  ul : Nat
  dl : Nat            -- equal to ul for a unidirectional application meter
deriving DecidableEq

structure St where
  appFree : List Nat
  sessFree : List Nat
  meters : List (Nat × Meter)        -- key = (fseid, qer) encoded as Nat; keys unique

def cells (m : Meter) : List Nat := if m.dl = m.ul then [m.ul] else [m.ul, m.dl]

def held (k : Kind) (ms : List (Nat × Meter)) : List Nat :=
  (ms.filter (fun e => e.2.kind == k)).flatMap (fun e => cells e.2)

def heldBy (k : Kind) (s : St) : List Nat := held k s.meters

/-- configureApplicationMeter / configureSessionMeter: cells `a`, `b` as popped; `ok` = the Write succeeded -/
def configure (s : St) (key : Nat) (k : Kind) (bidir : Bool) (a b : Nat) (ok : Bool) : Option St :=
  match k with
  | .app =>
    if a ∈ s.appFree ∧ (bidir → b ∈ s.appFree ∧ b ≠ a) ∧ key ∉ s.meters.map (·.1) then
      if ok then
        some { s with appFree := (s.appFree.erase a).erase (if bidir then b else a),
                      meters := (key, ⟨.app, a, if bidir then b else a⟩) :: s.meters }
      else some s                                       -- releaseIDs puts every popped cell back (repaired)
    else none
  | .sess =>
    if a ∈ s.sessFree ∧ b ∈ s.sessFree ∧ b ≠ a ∧ key ∉ s.meters.map (·.1) then
      if ok then
        some { s with sessFree := (s.sessFree.erase a).erase b,
                      meters := (key, ⟨.sess, a, b⟩) :: s.meters }
      else some s
    else none

/-- resetMeters for one QER: cells go back to the pool named by the meter's own type -/
def reset (s : St) (key : Nat) : St :=
  match s.meters.find? (fun e => e.1 == key) with
  | none => s
  | some (_, m) =>
    let rest := s.meters.filter (fun e => e.1 != key)
    match m.kind with
    | .app => { s with appFree := s.appFree ++ cells m, meters := rest }
    | .sess => { s with sessFree := s.sessFree ++ cells m, meters := rest }

structure Inv (ua us : List Nat) (s : St) : Prop where
  app  : (s.appFree ++ heldBy .app s).Perm ua
  sess : (s.sessFree ++ heldBy .sess s).Perm us
  ua_nd : ua.Nodup
  us_nd : us.Nodup
  keys : (s.meters.map (·.1)).Nodup

end Meters

