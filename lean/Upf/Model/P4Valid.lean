import Upf.Model.Up4
/-! Conformance of a P4Runtime update to a P4Info (C16), as an executable predicate. -/
namespace Up4
open P4

def fmOK (t : Table) (m : FM) : Bool :=
  t.fields.any fun f => f.id == m.fid && f.kind == m.kind && decide (m.v < 2 ^ f.bits) &&
    (match m.kind with
     | .lpm => decide (m.aux ≤ f.bits)
     | .ternary => decide (m.aux < 2 ^ f.bits)
     | .range => decide (m.aux < 2 ^ f.bits)
     | _ => true)

def needsPriority (t : Table) : Bool := t.fields.any fun f => f.kind == .ternary || f.kind == .range || f.kind == .optional

def nodupNat : List Nat → Bool
  | [] => true
  | x :: xs => !xs.contains x && nodupNat xs

def sameSet (a b : List Nat) : Bool := a.all b.contains && b.all a.contains && a.length == b.length

/-- the entry may be written to a pipeline described by `i` -/
def validEntry (i : Info) (e : Entry) : Bool :=
  match i.tables.find? (·.id == e.table) with
  | none => false
  | some t =>
    e.ms.all (fmOK t) && nodupNat (e.ms.map (·.fid)) &&
    t.actions.contains e.action &&
    (match i.actions.find? (·.id == e.action) with
     | none => false
     | some a =>
       sameSet (e.ps.map (·.1)) (a.params.map (·.id)) && nodupNat (e.ps.map (·.1)) &&
       e.ps.all fun pv => a.params.any fun p => p.id == pv.1 && decide (pv.2.1 < 2 ^ p.bits)) &&
    (!needsPriority t || e.prio != 0)

/-- only the key of an entry matters for a DELETE -/
def validKey (i : Info) (e : Entry) : Bool :=
  match i.tables.find? (·.id == e.table) with
  | none => false
  | some t => e.ms.all (fmOK t) && nodupNat (e.ms.map (·.fid)) && (!needsPriority t || e.prio != 0)

def validUpd (i : Info) (u : Upd) : Bool :=
  match u.ent with
  | .tbl e => if u.op == .delete then validKey i e else validEntry i e
  | .meter id idx _ => i.meters.any fun m => m.id == id && decide (idx < m.size)
  | .counter id idx => i.counters.any fun m => m.id == id && decide (idx < m.size)

end Up4
