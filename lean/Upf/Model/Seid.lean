import Upf.Gen.Consts
/-! `NewPFCPSession` (sessions.go): up to `maxRetries` draws from the association's random source; a draw
that is zero or that names a live session is skipped; the first other draw becomes the session's SEID. -/
namespace Seid

/-- `pick d live fuel i` = (granted SEID or none, index of the next unused draw) -/
def pick (d : Nat → Nat) (live : List Nat) : Nat → Nat → Option Nat × Nat
  | 0, i => (none, i)
  | f+1, i =>
    if d i = 0 ∨ d i ∈ live then pick d live f (i+1) else (some (d i), i+1)

def maxRetries : Nat := Gen.Consts.seidMaxRetries

def newSession (d : Nat → Nat) (live : List Nat) (i : Nat) : Option Nat × Nat := pick d live maxRetries i

end Seid
