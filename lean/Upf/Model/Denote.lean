import Upf.Model.PortProduct

namespace Tern

structure Pkt where
  srcIface : BitVec 8
  tunDst : BitVec 32
  teid : BitVec 32
  srcIP : BitVec 32
  dstIP : BitVec 32
  srcPort : U16
  dstPort : U16
  proto : BitVec 8

/-- the match part of the Go struct `pdr` -/
structure PdrM where
  srcIface : BitVec 8
  srcIfaceMask : BitVec 8
  tunDst : BitVec 32
  tunDstMask : BitVec 32
  teid : BitVec 32
  teidMask : BitVec 32
  srcIP : BitVec 32
  srcIPMask : BitVec 32
  dstIP : BitVec 32
  dstIPMask : BitVec 32
  srcPorts : PR
  dstPorts : PR
  proto : BitVec 8
  protoMask : BitVec 8

/-- one WildcardMatchCommandAddArg: Values and Masks in the order of bess.addPDR -/
structure Entry where
  p : PdrM          -- the six non-port fields are copied verbatim
  ports : Rule2     -- srcPort/srcMask, dstPort/dstMask from the expansion

def tern {n} (k v m : BitVec n) : Prop := k &&& m = v &&& m

def Entry.matches (e : Entry) (k : Pkt) : Prop :=
  tern k.srcIface e.p.srcIface e.p.srcIfaceMask ∧ tern k.tunDst e.p.tunDst e.p.tunDstMask ∧
  tern k.teid e.p.teid e.p.teidMask ∧ tern k.srcIP e.p.srcIP e.p.srcIPMask ∧
  tern k.dstIP e.p.dstIP e.p.dstIPMask ∧ e.ports.matches k.srcPort k.dstPort ∧
  tern k.proto e.p.proto e.p.protoMask

/-- what the PDR means: interface, tunnel endpoint, addresses under their prefix masks, protocol, and the two port RANGES -/
def PdrM.denotes (p : PdrM) (k : Pkt) : Prop :=
  tern k.srcIface p.srcIface p.srcIfaceMask ∧ tern k.tunDst p.tunDst p.tunDstMask ∧
  tern k.teid p.teid p.teidMask ∧ tern k.srcIP p.srcIP p.srcIPMask ∧
  tern k.dstIP p.dstIP p.dstIPMask ∧ (p.srcPorts.denotes k.srcPort ∧ p.dstPorts.denotes k.dstPort) ∧
  tern k.proto p.proto p.protoMask

def pdrEntries (p : PdrM) : Option (List Entry) :=
  (cartesian p.srcPorts p.dstPorts).map fun rs => rs.map fun r => ⟨p, r⟩

end Tern

