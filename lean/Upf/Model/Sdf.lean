import Upf.Model.Flow
import Upf.Model.PortRange
/-! Concrete lexers for the flow-description parser (hand models of `strings.Fields`, `strconv.ParseUint`,
`net.ParseCIDR` for IPv4 — validated by the correspondence run, not verified) and the PDR-level use of the
parser: `parseSDFFilter`, `parseApplicationID`, the UE-address pre-fill of `parsePDI` (parse_pdr.go). -/
namespace Sdf
open Tern

/-- `unicode.IsSpace` -/
def isSpace (c : Char) : Bool :=
  c == ' ' || c == '\t' || c == '\n' || c == '\x0b' || c == '\x0c' || c == '\r' ||
  c.toNat == 0x85 || c.toNat == 0xA0 || c.toNat == 0x1680 || (0x2000 ≤ c.toNat && c.toNat ≤ 0x200A) ||
  c.toNat == 0x2028 || c.toNat == 0x2029 || c.toNat == 0x202F || c.toNat == 0x205F || c.toNat == 0x3000

/-- `strings.Fields` -/
def fields (s : String) : List String :=
  let rec go : List Char → List Char → List String
    | [], cur => if cur.isEmpty then [] else [String.ofList cur.reverse]
    | c :: cs, cur =>
      if isSpace c then (if cur.isEmpty then go cs [] else String.ofList cur.reverse :: go cs [])
      else go cs (c :: cur)
  go s.toList []

/-- decimal `strconv.ParseUint(s, 10, bits)`: non-empty, ASCII digits only, value below `2^bits` -/
def parseUint (bits : Nat) (s : String) : Option Nat :=
  if s.isEmpty ∨ !s.all Char.isDigit then none
  else match s.toNat? with
    | some n => if n < 2 ^ bits then some n else none
    | none => none

/-- one octet of a dotted quad as `net/netip` reads it: 1–3 digits, no leading zero, ≤ 255 -/
def parseOctet (s : String) : Option Nat :=
  if s.isEmpty ∨ s.length > 3 ∨ !s.all Char.isDigit then none
  else if s.length > 1 ∧ s.front = '0' then none
  else match s.toNat? with
    | some n => if n ≤ 255 then some n else none
    | none => none

def parseIPv4 (s : String) : Option Nat :=
  match s.splitOn "." with
  | [a, b, c, d] =>
    match parseOctet a, parseOctet b, parseOctet c, parseOctet d with
    | some a, some b, some c, some d => some (a * 16777216 + b * 65536 + c * 256 + d)
    | _, _, _, _ => none
  | _ => none

/-- prefix length as `net.ParseCIDR` reads it: digits only, at most 32 (leading zeros are tolerated) -/
def parsePrefixLen (s : String) : Option Nat :=
  if s.isEmpty ∨ !s.all Char.isDigit then none
  else match s.toNat? with
    | some n => if n ≤ 32 then some n else none
    | none => none

def maskOfLen (len : Nat) : Nat := (0xFFFFFFFF <<< (32 - len)) % 4294967296

structure Net where
  ip : Nat      -- network address (already masked, as `net.ParseCIDR` returns it)
  mask : Nat
  deriving DecidableEq, Repr

/-- `endpoint.parseNet`: split on "/", default /32, `net.ParseCIDR` (IPv4 only in this model) -/
def parseNet (tok : String) : Option Net :=
  match tok.splitOn "/" with
  | [a] => (parseIPv4 a).map fun ip => ⟨ip, 0xFFFFFFFF⟩
  | [a, l] =>
    -- an IPv6 network (envelope: well formed, prefix length ≤ 96): `ip2int` / `ipMask2int` keep the low 32 bits of the
    -- masked network address and of the mask, which are zero — the filter then matches any address on that side
    if a.contains ':' then
      match l.toNat? with
      | some n => if n ≤ 96 then some ⟨0, 0⟩ else none
      | none => none
    else
    match parseIPv4 a, parsePrefixLen l with
    | some ip, some len => some ⟨ip &&& maskOfLen len, maskOfLen len⟩
    | _, _ => none
  | _ => none

def lex : Flow.Lex Net PR := { parseNet := parseNet, parsePort := Tern.parsePort, wild := ⟨0#16, 0xFFFF#16⟩ }

/-- `parseL4Proto` with its error ignored: a number below 256, `udp`, `tcp`, else the reserved value 255 -/
def parseProto (s : String) : Nat :=
  match parseUint 8 s with
  | some n => n
  | none => if s = "udp" then 17 else if s = "tcp" then 6 else 255

/-- `parseFlowDesc` -/
def parseFlowDesc (flow ue : String) : Option (Flow.IPF Net PR) := Flow.parse lex ue (fields flow)

structure Filter where
  srcIP : Nat := 0
  srcMask : Nat := 0
  dstIP : Nat := 0
  dstMask : Nat := 0
  srcPorts : PR := ⟨0#16, 0#16⟩
  dstPorts : PR := ⟨0#16, 0#16⟩
  proto : Nat := 0
  protoMask : Nat := 0
  deriving DecidableEq

def access : Nat := 1
def core : Nat := 2

def ipString (a : Nat) : String :=
  s!"{a / 16777216 % 256}.{a / 65536 % 256}.{a / 256 % 256}.{a % 256}"

/-- the pre-fill of `parsePDI`: the UE address alone, on the side the direction selects -/
def prefill (srcIface ue : Nat) : Filter :=
  if srcIface = core ∧ ue ≠ 0 then { dstIP := ue, dstMask := 0xFFFFFFFF }
  else if srcIface = access ∧ ue ≠ 0 then { srcIP := ue, srcMask := 0xFFFFFFFF }
  else {}

def withProto (f : Filter) (p : Nat) : Filter := if p ≠ 255 then { f with proto := p, protoMask := 255 } else f

def netOf (e : Flow.Endpoint Net PR) : Net := e.net.getD ⟨0, 0⟩

/-- `parseSDFFilter` on an already parsed rule -/
def applySdf (srcIface : Nat) (f : Filter) (ipf : Flow.IPF Net PR) : Filter :=
  let f := withProto f (parseProto ipf.proto)
  if srcIface = core then
    let f := { f with dstIP := (netOf ipf.dst).ip, dstMask := (netOf ipf.dst).mask,
                      srcIP := (netOf ipf.src).ip, srcMask := (netOf ipf.src).mask,
                      dstPorts := ipf.dst.ports, srcPorts := ipf.src.ports }
    if ¬ f.dstPorts.isWildcard then { f with srcPorts := f.dstPorts, dstPorts := ⟨0#16, 0xFFFF#16⟩ } else f
  else if srcIface = access then
    let f := { f with srcIP := (netOf ipf.dst).ip, srcMask := (netOf ipf.dst).mask,
                      dstIP := (netOf ipf.src).ip, dstMask := (netOf ipf.src).mask,
                      dstPorts := ipf.src.ports, srcPorts := ipf.dst.ports }
    if ¬ f.srcPorts.isWildcard then { f with dstPorts := f.srcPorts, srcPorts := ⟨0#16, 0xFFFF#16⟩ } else f
  else f

inductive SdfResult
  | ok (f : Filter)
  | ignored (f : Filter)      -- errBadFilterDesc: the PDR keeps the pre-fill
  | rejected                  -- another error: the rule (and the request) is refused

/-- `parseSDFFilter` (an empty description is an error that refuses the rule) -/
def parseSDF (srcIface ue : Nat) (flow : String) : SdfResult :=
  let f0 := prefill srcIface ue
  if flow = "" then .rejected
  else match parseFlowDesc flow (ipString ue) with
    | none => .ignored f0
    | some ipf => .ok (applySdf srcIface f0 ipf)

/-- `parseApplicationID`: the first provisioned description whose direction keyword matches is taken verbatim -/
def applyApp (srcIface ue : Nat) (f0 : Filter) : List String → SdfResult
  | [] => .ok f0
  | fd :: rest =>
    match parseFlowDesc fd (ipString ue) with
    | none => .ignored f0
    | some ipf =>
      if (srcIface = access ∧ ipf.dir = "out") ∨ (srcIface = core ∧ ipf.dir = "in") then
        let f := withProto f0 (parseProto ipf.proto)
        .ok { f with dstIP := (netOf ipf.dst).ip, dstMask := (netOf ipf.dst).mask,
                     srcIP := (netOf ipf.src).ip, srcMask := (netOf ipf.src).mask,
                     dstPorts := ipf.dst.ports, srcPorts := ipf.src.ports }
      else applyApp srcIface ue f0 rest

def parseApp (srcIface ue : Nat) (table : List (String × List String)) (appID : String) : SdfResult :=
  match table.find? (·.1 = appID) with
  | none => .rejected
  | some (_, fds) => applyApp srcIface ue (prefill srcIface ue) fds

end Sdf
