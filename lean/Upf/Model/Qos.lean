
namespace Qos

abbrev U64 := BitVec 64

def maxU (x y : U64) : U64 := if x < y then y else x

/-- `maxUint64(((gbr * 1000) / 8), 1)` and `maxUint64(((mbr * 1000) / 8), cir)` -/
def cir (gbr : U64) : U64 := maxU ((gbr * 1000#64) / 8#64) 1#64
def pir (mbr gbr : U64) : U64 := maxU ((mbr * 1000#64) / 8#64) (cir gbr)

inductive Gate | meter | drop | unmeter deriving DecidableEq

/-- gate selection for one direction: status is the PFCP gate status (0 = open) -/
def gate (status : BitVec 8) (mbr gbr : U64) : Gate :=
  if status ≠ 0#8 then .drop else if mbr ≠ 0#64 ∨ gbr ≠ 0#64 then .meter else .unmeter

end Qos

