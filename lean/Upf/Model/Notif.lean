
namespace Notif

structure St where
  last : Nat → Option Nat        -- fseid ↦ time of last forwarded notification

def shouldNotify (iv : Nat) (st : St) (now fseid : Nat) : Bool × St :=
  match st.last fseid with
  | none => (true, { last := fun x => if x = fseid then some now else st.last x })
  | some t =>
    if now - t ≥ iv then (true, { last := fun x => if x = fseid then some now else st.last x })
    else (false, st)

/-- run a time-stamped report sequence; returns the forwarded notifications (time, fseid), oldest first -/
def run (iv : Nat) : St → List (Nat × Nat) → List (Nat × Nat)
  | _, [] => []
  | st, (t, f) :: rest =>
    let (b, st') := shouldNotify iv st t f
    if b then (t, f) :: run iv st' rest else run iv st' rest

def Mono : List (Nat × Nat) → Prop
  | [] => True
  | [_] => True
  | a :: b :: rest => a.1 ≤ b.1 ∧ Mono (b :: rest)

end Notif

namespace Retry

/-- events seen by the waiter of one request: a timeout, or a response carrying a sequence number -/
inductive Ev | timeout | resp (seq : Nat) | shutdown

inductive Res | answered | dead | aborted | pending deriving DecidableEq

/-- sendPFCPRequestMessage: first transmission, then up to N retransmissions on timeouts -/
def go (seq : Nat) : Nat → Nat → List Ev → Nat × Res     -- retriesLeft, transmissions so far
  | _, tx, [] => (tx, .pending)
  | r, tx, .timeout :: es => if r > 0 then go seq (r-1) (tx+1) es else (tx, .dead)
  | r, tx, .resp s :: es => if s = seq then (tx, .answered) else go seq r tx es   -- wrong sequence: not delivered to this waiter
  | _, tx, .shutdown :: _ => (tx, .aborted)

def send (seq N : Nat) (es : List Ev) : Nat × Res := go seq N 1 es

/-- the same loop with the retry budget at the width the code gives it (`upf.maxReqRetries` is a `uint8`): `retriesLeft > 0`,
`retriesLeft--` on 8-bit values -/
def goU8 (seq : Nat) : BitVec 8 → Nat → List Ev → Nat × Res
  | _, tx, [] => (tx, .pending)
  | r, tx, .timeout :: es => if r > 0#8 then goU8 seq (r - 1#8) (tx+1) es else (tx, .dead)
  | r, tx, .resp s :: es => if s = seq then (tx, .answered) else goU8 seq r tx es
  | _, tx, .shutdown :: _ => (tx, .aborted)

def sendU8 (seq : Nat) (N : BitVec 8) (es : List Ev) : Nat × Res := goU8 seq N 1 es

end Retry

