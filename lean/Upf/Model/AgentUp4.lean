import Upf.Model.AgentMod
import Upf.Model.Up4
/-!
The session handlers of messages_session.go on the UP4 datapath: the same parsing, marking and store
handling as on BESS (`Agent.establish`, `Agent.modify`, …), with `SendMsgToUPF` of up4.go in place of the
BESS command stream — it can refuse, and then the handlers answer "request rejected".
-/
namespace Agent4
open Agent Up4

structure World4 where
  w : World := {}
  c : Ctx := { st := {} }

/-- `SendMsgToUPF`: (tryConnect is a no-op while connected) -/
def rulesOf (s : Session) : Rules := { pdrs := s.pdrs, fars := s.fars, qers := s.qers }

/-- `handleSessionEstablishmentRequest` on UP4 -/
def establish (cfg : Cfg) (cfg4 : Cfg4) (x : World4) (a lseid : Nat) (r : EstReq) : World4 × Reply :=
  let w := x.w
  let c := w.conn a
  if r.nodeID ≠ c.remoteNode then (x, { cause := causeNoAssoc, seid := r.cpSeid })
  else
    match estPdrs cfg lseid r.cpIP c.apps r.pdrs w.pool w.teid [] with
    | .error (cause, pdrs, pool, g) =>
      let (pool, g) := releaseRes pool g lseid pdrs
      ({ x with w := { w with pool := pool, teid := g } }, { cause := cause, seid := r.cpSeid })
    | .ok (pdrs, pool, g) =>
      match mapFars cfg lseid r.cpIP false r.fars with
      | .error (.reject cause) =>
        let (pool, g) := releaseRes pool g lseid pdrs
        ({ x with w := { w with pool := pool, teid := g } }, { cause := cause, seid := r.cpSeid })
      | .ok fars =>
        let qers := r.qers.map fun ie => { parseQER lseid ie with fseidIP := r.cpIP }
        let (qers1, pdrs1) := markSessionQer pdrs qers
        let (addQ, pdrs2) := markSessionQer pdrs1 qers
        let all : Rules := { pdrs := pdrs2, fars := fars, qers := qers1 }
        let updated : Rules := { pdrs := pdrs2, fars := fars, qers := addQ }
        let (c4, pdrs3, ok) := sendCreate cfg4 x.c all updated
        if !ok then
          let (pool, g) := releaseRes pool g lseid pdrs
          ({ w := { w with pool := pool, teid := g }, c := c4 }, { cause := causeRejected, seid := r.cpSeid })
        else
          let s : Session := { lseid := lseid, rseid := r.cpSeid, pdrs := pdrs3, fars := fars, qers := qers1 }
          let w := { w with pool := pool, teid := g }
          ({ w := w.setConn a { c with sessions := c.sessions ++ [s] }, c := c4 },
           { cause := causeAccepted, seid := r.cpSeid, upSeid := some lseid, created := createdOf pdrs })

/-- `handleSessionDeletionRequest` on UP4 -/
def deleteSession (cfg4 : Cfg4) (x : World4) (a seid : Nat) : World4 × Reply :=
  let w := x.w
  let c := w.conn a
  match c.sessions.find? (·.lseid = seid) with
  | none => (x, { cause := causeRejected, seid := 0 })
  | some s =>
    let (c4, ok) := sendDelete cfg4 x.c (rulesOf s)
    if !ok then ({ x with c := c4 }, { cause := causeRejected, seid := 0 })
    else
      let (pool, g) := releaseRes w.pool w.teid s.lseid s.pdrs
      let w := { w with pool := pool, teid := g }
      ({ w := w.setConn a { c with sessions := c.sessions.filter (·.lseid ≠ seid) }, c := c4 }, { cause := causeAccepted, seid := s.rseid })

/-- `handleSessionModificationRequest` on UP4 -/
def modify (cfg : Cfg) (cfg4 : Cfg4) (x : World4) (a : Nat) (r : ModReq) : World4 × Reply :=
  let w := x.w
  let c := w.conn a
  match c.sessions.find? (·.lseid = r.seid) with
  | none => (x, { cause := causeRejected, seid := 0 })
  | some s0 =>
    let s := match r.cpFseid with
      | some (cp, _) => { s0 with rseid := cp }
      | none => s0
    let fseidIP := match r.cpFseid with | some (_, ip) => ip | none => 0
    let rej (w : World) (c4 : Ctx) : World4 × Reply := ({ w := w, c := c4 }, { cause := causeRejected, seid := s.rseid })
    match parsePdrs r.seid fseidIP c.apps r.createPdrs w.pool with
    | .error (_, pool) => rej { w with pool := pool } x.c
    | .ok (cp, pool) =>
    match mapFars cfg r.seid fseidIP false r.createFars with
    | .error _ => rej { w with pool := pool } x.c
    | .ok cf =>
    let cq := r.createQers.map fun ie => { parseQER r.seid ie with fseidIP := fseidIP }
    match parsePdrs r.seid fseidIP c.apps r.updatePdrs pool with
    | .error (_, pool) => rej { w with pool := pool } x.c
    | .ok (up, pool) =>
    match mapFars cfg r.seid fseidIP true r.updateFars with
    | .error _ => rej { w with pool := pool } x.c
    | .ok uf =>
    let uq := r.updateQers.map fun ie => { parseQER r.seid ie with fseidIP := fseidIP }
    let (pdrs1, sentUp) := updPdrs (s.pdrs ++ cp) up
    let (fars1, sentUf, _) := updFars (s.fars ++ cf) uf
    let (qers1, sentUq) := updQers (s.qers ++ cq) uq
    let addP := cp ++ sentUp
    let addF := cf ++ sentUf
    let addQ := cq ++ sentUq
    let (qersM, pdrsM2) := markSessionQer pdrs1 qers1
    let addQM := addQ.map fun q => match qersM.find? (·.qerID = q.qerID) with
      | some y => { q with session := y.session }
      | none => q
    let addPM := addP.map fun p => match pdrsM2.find? (·.pdrID = p.pdrID) with
      | some q => { p with qerIDs := q.qerIDs }
      | none => p
    let w1 := { w with pool := pool }
    let (c4, ok) := sendUpdate cfg4 x.c { pdrs := pdrsM2, fars := fars1, qers := qersM } { pdrs := addPM, fars := addF, qers := addQM }
    if !ok then rej w1 c4 else
    match removeAll (·.pdrID) pdrsM2 r.removePdrs with
    | none => rej w1 c4
    | some (pdrs2, delP) =>
    match removeAll (·.farID) fars1 r.removeFars with
    | none => rej w1 c4
    | some (fars2, delF) =>
    match removeAll (·.qerID) qersM r.removeQers with
    | none => rej w1 c4
    | some (qers2, delQ) =>
    let (c4, ok) := sendDelete cfg4 c4 { pdrs := delP, fars := delF, qers := delQ }
    if !ok then rej w1 c4 else
    let s' : Session := { s with pdrs := pdrs2, fars := fars2, qers := qers2 }
    ({ w := w1.setConn a { c with sessions := c.sessions.map fun y => if y.lseid = r.seid then s' else y }, c := c4 },
     { cause := causeAccepted, seid := s.rseid })

/-- one session leaves (association release, timeout, report "context not found"): the datapath's answer is ignored -/
def dropSession (cfg4 : Cfg4) (x : World4) (s : Session) : World4 :=
  let (c4, _) := sendDelete cfg4 x.c (rulesOf s)
  let (pool, g) := releaseRes x.w.pool x.w.teid s.lseid s.pdrs
  { w := { x.w with pool := pool, teid := g }, c := c4 }

def shutdownConn (cfg4 : Cfg4) (x : World4) (a : Nat) : World4 :=
  let c := x.w.conn a
  let x := c.sessions.foldl (dropSession cfg4) x
  { x with w := { x.w with conns := x.w.conns.filter (·.1 ≠ a) } }

/-- Session Report Response 'session context not found': the session is removed locally -/
def reportContextNotFound (cfg4 : Cfg4) (x : World4) (a seid : Nat) : World4 :=
  let c := x.w.conn a
  match c.sessions.find? (·.lseid = seid) with
  | none => x
  | some s =>
    let x := dropSession cfg4 x s
    { x with w := x.w.setConn a { c with sessions := c.sessions.filter (·.lseid ≠ seid) } }

/-! ## the image of the live sessions (C04) -/

def live (x : World4) : List Session := x.w.conns.flatMap (·.2.sessions)

/-- entries a live PDR denotes, with the identifiers the plug-in currently associates with its FAR, QERs and filter;
`none` when an identifier the entry needs is not allocated -/
def pdrImage (cfg4 : Cfg4) (st : St) (s : Session) (p : Pdr) : Option (List Entry) := do
  let far ← s.fars.find? (·.farID = p.farID)
  let needPeer := far.dstIntf = 0 ∧ far.tunnelTEID ≠ 0
  let peerID ← if needPeer then (mapGet st.peers (tpOf cfg4 far)).map (·.id) else some ((mapGet st.peers (tpOf cfg4 far)).map (·.id) |>.getD 0)
  let sessMeter : Meter := if p.qerIDs.length = 2 then (mapGet st.meters (p.qerIDs.getD 1 0, p.fseID)).getD zeroMeter else { kind := 2, ul := 0, dl := 0 }
  let se ← buildSessions p sessMeter peerID (buffers far)
  let ue ← if p.srcIface = Sdf.access then (s.pdrs.find? (·.srcIface ≠ Sdf.access)).map (·.ueAddress) else some p.ueAddress
  let p := { p with ueAddress := ue }
  let appID ← if appFilterEmpty p then some 0 else (mapGet st.apps (afOf p)).map (·.id)
  let appMeter : Meter := if p.qerIDs ≠ [] then (mapGet st.meters (p.qerIDs.headD 0, p.fseID)).getD zeroMeter else { kind := 1, ul := 0, dl := 0 }
  let related : Option Qer := if p.qerIDs ≠ [] then s.qers.find? (·.qerID = p.qerIDs.headD 0) else none
  let qfi := match related with | some q => q.qfi | none => Gen.Consts.DefaultQFI
  let rq : Qer := related.getD {}
  let tc := (mapGet cfg4.qfiToTC rq.qfi).getD cfg4.defaultTC
  let te ← buildTerminations p appMeter far appID qfi tc rq
  let ae ← if appFilterEmpty p then some [] else (buildApplication p cfg4.sliceID appID).map ([·])
  pure ([se, te] ++ ae)

/-- tunnel peers the live FARs use (forwarding towards the access network through a tunnel) -/
def livePeers (cfg4 : Cfg4) (ss : List Session) : List TP :=
  (ss.flatMap fun s => (s.fars.filter fun f => f.tunnelTEID ≠ 0 ∧ f.dstIntf = 0).map (tpOf cfg4)).eraseDups

end Agent4
