
namespace Marker

structure Far where
  id : Nat
  peer : Nat        -- tunnelIP4Dst
  src : Nat         -- tunnelIP4Src
  teid : Nat
  sndem : Bool      -- sendEndMarker flag carried by the update
deriving DecidableEq

structure Pkt where
  src : Nat
  dst : Nat
  teid : Nat
deriving DecidableEq

def marker (old : Far) : Pkt := ⟨old.src, old.peer, old.teid⟩

/-- `UpdateFAR`: first stored FAR with that id; marker from the STORED one if the update carries the flag -/
def updateOne : List Far → Far → Option (List Far × List Pkt)
  | [], _ => none                                           -- ErrNotFound: handler logs and continues
  | v :: vs, f =>
    if v.id = f.id then some (f :: vs, if f.sndem then [marker v] else [])
    else (updateOne vs f).map fun (vs', m) => (v :: vs', m)

def updateAll : List Far → List Far → List Far × List Pkt
  | fars, [] => (fars, [])
  | fars, u :: us =>
    match updateOne fars u with
    | none => updateAll fars us
    | some (fars', m) => let (fs, ms) := updateAll fars' us; (fs, m ++ ms)

def find (fars : List Far) (id : Nat) : Option Far := fars.find? (fun v => v.id == id)

end Marker

