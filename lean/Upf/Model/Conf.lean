
namespace Conf

structure Preds where
  dur : String → Bool      -- time.ParseDuration succeeds
  cidr : String → Bool     -- net.ParseCIDR succeeds
  ip : String → Bool       -- net.ParseIP ≠ nil

structure C where
  mode : String
  enableP4rt : Bool
  accessIP : String
  uePool : String
  enableUeIPAlloc : Bool
  peers : List String
  respTimeout : String
  readTimeout : Nat
  maxReqRetries : Nat
  enableHB : Bool
  hbInterval : String

def defaults (c : C) : C :=
  { c with respTimeout := if c.respTimeout = "" then "2s" else c.respTimeout,
           readTimeout := if c.readTimeout = 0 then 15 else c.readTimeout,
           maxReqRetries := if c.maxReqRetries = 0 then 5 else c.maxReqRetries,
           hbInterval := if c.enableHB ∧ c.hbInterval = "" then "5s" else c.hbInterval }

def modes : List String := ["af_xdp", "af_packet", "cndp", "dpdk", "sim"]

def validate (P : Preds) (c : C) : Bool :=
  (if c.enableP4rt then P.cidr c.accessIP && P.cidr c.uePool && (c.mode == "") else modes.contains c.mode) &&
  (if c.enableUeIPAlloc then P.cidr c.uePool else true) &&
  c.peers.all P.ip &&
  P.dur c.respTimeout && (c.readTimeout != 0) && (c.maxReqRetries != 0) &&
  (if c.enableHB then P.dur c.hbInterval else true)

def finish (P : Preds) (raw : C) : Option C :=
  let c := defaults raw
  if validate P c then some c else none

structure Valid (P : Preds) (raw c : C) : Prop where
  resp : P.dur c.respTimeout = true ∧ (raw.respTimeout = "" → c.respTimeout = "2s")
  read : c.readTimeout ≠ 0 ∧ (raw.readTimeout = 0 → c.readTimeout = 15)
  retr : c.maxReqRetries ≠ 0 ∧ (raw.maxReqRetries = 0 → c.maxReqRetries = 5)
  hb   : c.enableHB = true → P.dur c.hbInterval = true ∧ (raw.hbInterval = "" → c.hbInterval = "5s")
  mode : if c.enableP4rt then c.mode = "" ∧ P.cidr c.accessIP = true ∧ P.cidr c.uePool = true else c.mode ∈ modes
  pool : c.enableUeIPAlloc = true → P.cidr c.uePool = true
  peers : ∀ p ∈ c.peers, P.ip p = true
  same : c.mode = raw.mode ∧ c.enableP4rt = raw.enableP4rt ∧ c.peers = raw.peers ∧ c.accessIP = raw.accessIP ∧
         c.uePool = raw.uePool ∧ c.enableHB = raw.enableHB ∧ c.enableUeIPAlloc = raw.enableUeIPAlloc

end Conf

