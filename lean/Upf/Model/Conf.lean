import Upf.Gen.Consts
import Upf.Gen.Conf
import Upf.Model.Strip
/-!
# Configuration loading (pfcpiface/config.go), after comment removal

`LoadConfigFile` = `removeComments` (model: `Upf/Model/Strip.lean`) ; `json.Unmarshal` into a `Conf` that already
carries two pre-decode defaults ; "set defaults, when missing" ; `validateConf`.

* `decode`  — what `encoding/json` does to the thirteen fields the property speaks about, given for each field
  the JSON value the document holds for its key (`JV`: absent / null / integer / string / bool / anything else).
  A value of the wrong JSON kind or an integer outside the field's unsigned range makes `Unmarshal` return an
  error (it keeps decoding, but the error is returned and `LoadConfigFile` drops the configuration).
* `defaults` — the four `if … == zero { … = default }` assignments; the defaults are computed from the
  regenerated constants (`Gen.Consts`) the way the code computes them (`Duration.String()`, `uint32(Seconds())`).
* `validate` — `validateConf`, check by check and in the code's order, returning WHICH check refused.

The standard-library predicates (`time.ParseDuration`, `net.ParseCIDR`, `net.ParseIP`, `zapcore.Level.UnmarshalText`)
are parameters (`Preds`): the theorems hold for every choice of them, the acceptor instantiates them with Go's
recorded verdicts.
-/
namespace Conf

structure Preds where
  dur : String → Bool            -- time.ParseDuration succeeds
  cidr : String → Bool           -- net.ParseCIDR succeeds
  ip : String → Bool             -- net.ParseIP ≠ nil
  level : String → Option Int    -- zapcore.Level.UnmarshalText: the level, or an error

/-- the fields of `Conf` the property speaks about -/
structure C where
  mode : String
  enableP4rt : Bool
  accessIP : String
  uePool : String
  enableUeIPAlloc : Bool
  peers : List String
  respTimeout : String
  readTimeout : Nat
  maxReqRetries : Nat
  enableHB : Bool
  hbInterval : String
  logLevel : Int
  defaultTC : Nat
  deriving DecidableEq, Repr

/-! ## `time.Duration.String()` for non-negative durations (nanoseconds) -/

/-- `fmtFrac`: the fraction of `v / 10^prec` without trailing zeros (and without the point when it is zero),
pushed in front of `acc`; returns the integer part too -/
def fmtFrac : Nat → Nat → Bool → List Char → List Char × Nat
  | 0, v, pr, acc => (if pr then '.' :: acc else acc, v)
  | p+1, v, pr, acc =>
    let digit := v % 10
    let pr := pr || digit != 0
    fmtFrac p (v / 10) pr (if pr then Char.ofNat (48 + digit) :: acc else acc)

def durChars (d : Nat) : List Char :=
  if d < 1000000000 then
    if d = 0 then ['0', 's']
    else if d < 1000 then Nat.toDigits 10 d ++ ['n', 's']
    else if d < 1000000 then
      let (frac, u) := fmtFrac 3 d false ['µ', 's']
      Nat.toDigits 10 u ++ frac
    else
      let (frac, u) := fmtFrac 6 d false ['m', 's']
      Nat.toDigits 10 u ++ frac
  else
    let (frac, u) := fmtFrac 9 d false ['s']
    let s := Nat.toDigits 10 (u % 60) ++ frac
    let u := u / 60
    if u > 0 then
      let s := Nat.toDigits 10 (u % 60) ++ 'm' :: s
      let u := u / 60
      if u > 0 then Nat.toDigits 10 u ++ 'h' :: s else s
    else s

def durString (d : Nat) : String := String.ofList (durChars d)

/-! ## defaults, from the regenerated constants -/

/-- `respTimeoutDefault.String()` -/
def respTimeoutDefaultStr : String := durString Gen.Consts.respTimeoutDefault
/-- `hbIntervalDefault.String()` -/
def hbIntervalDefaultStr : String := durString Gen.Consts.hbIntervalDefault
/-- `uint32(readTimeoutDefault.Seconds())` (exact for whole seconds; truncation otherwise) -/
def readTimeoutDefaultSecs : Nat := Gen.Consts.readTimeoutDefault / 1000000000 % 2 ^ 32
/-- `maxReqRetriesDefault` stored in a `uint8` -/
def maxReqRetriesDefault : Nat := Gen.Consts.maxReqRetriesDefault

/-- the configuration `json.Unmarshal` starts from: Go zero values, except the two fields set before decoding -/
def init : C :=
  { mode := "", enableP4rt := false, accessIP := "", uePool := "", enableUeIPAlloc := false, peers := [],
    respTimeout := "", readTimeout := 0, maxReqRetries := 0, enableHB := false, hbInterval := "",
    logLevel := Gen.Conf.logLevelInit, defaultTC := Gen.Conf.defaultTCInit.toNat }

/-! ## decoding -/

/-- what a document holds under a key -/
inductive JV
  | absent                -- key not in the document
  | null                  -- JSON null: leaves the field as it is
  | num (n : Int)         -- integer literal without fraction or exponent
  | str (s : String)
  | bool (b : Bool)
  | other                 -- object, array, number with fraction/exponent
  deriving DecidableEq, Repr

/-- what a document holds under `peers` -/
inductive JA
  | absent
  | null
  | arr (l : List JV)
  | other
  deriving DecidableEq, Repr

structure Doc where
  mode : JV
  enableP4rt : JV
  accessIP : JV
  uePool : JV
  enableUeIPAlloc : JV
  peers : JA
  respTimeout : JV
  readTimeout : JV
  maxReqRetries : JV
  enableHB : JV
  hbInterval : JV
  logLevel : JV
  defaultTC : JV
  deriving DecidableEq, Repr

def decStr (cur : String) : JV → Option String
  | .absent => some cur
  | .null => some cur
  | .str s => some s
  | _ => none

def decBool (cur : Bool) : JV → Option Bool
  | .absent => some cur
  | .null => some cur
  | .bool b => some b
  | _ => none

/-- unsigned field of `bits` bits -/
def decUint (bits : Nat) (cur : Nat) : JV → Option Nat
  | .absent => some cur
  | .null => some cur
  | .num n => if 0 ≤ n ∧ n < 2 ^ bits then some n.toNat else none
  | _ => none

/-- `zapcore.Level` implements `encoding.TextUnmarshaler`: only a JSON string is accepted -/
def decLevel (P : Preds) (cur : Int) : JV → Option Int
  | .absent => some cur
  | .null => some cur
  | .str s => P.level s
  | _ => none

/-- `[]string`: each element is a string, or null (which leaves the fresh element empty) -/
def decPeers : JA → Option (List String)
  | .absent => some []
  | .null => some []
  | .arr l => l.mapM (decStr "")
  | .other => none

def decode (P : Preds) (d : Doc) : Option C := do
  let mode ← decStr init.mode d.mode
  let p4 ← decBool init.enableP4rt d.enableP4rt
  let access ← decStr init.accessIP d.accessIP
  let pool ← decStr init.uePool d.uePool
  let alloc ← decBool init.enableUeIPAlloc d.enableUeIPAlloc
  let peers ← decPeers d.peers
  let resp ← decStr init.respTimeout d.respTimeout
  let read ← decUint 32 init.readTimeout d.readTimeout
  let retr ← decUint 8 init.maxReqRetries d.maxReqRetries
  let hb ← decBool init.enableHB d.enableHB
  let hbi ← decStr init.hbInterval d.hbInterval
  let lvl ← decLevel P init.logLevel d.logLevel
  let tc ← decUint 8 init.defaultTC d.defaultTC
  pure { mode := mode, enableP4rt := p4, accessIP := access, uePool := pool, enableUeIPAlloc := alloc, peers := peers,
         respTimeout := resp, readTimeout := read, maxReqRetries := retr, enableHB := hb, hbInterval := hbi,
         logLevel := lvl, defaultTC := tc }

/-! ## "Set defaults, when missing" -/

def defaults (c : C) : C :=
  { c with respTimeout := if c.respTimeout = "" then respTimeoutDefaultStr else c.respTimeout,
           readTimeout := if c.readTimeout = 0 then readTimeoutDefaultSecs else c.readTimeout,
           maxReqRetries := if c.maxReqRetries = 0 then maxReqRetriesDefault else c.maxReqRetries,
           hbInterval := if c.enableHB = true ∧ c.hbInterval = "" then hbIntervalDefaultStr else c.hbInterval }

/-! ## `validateConf` -/

def modes : List String := Gen.Conf.validModes

/-- which check refused the configuration (in the order the code performs them) -/
inductive Err
  | decode                  -- json.Unmarshal returned an error
  | accessIP                -- UP4: access IP is not a CIDR
  | uePoolP4                -- UP4: UE pool is not a CIDR
  | modeP4                  -- UP4: mode set
  | modeBess                -- BESS: mode not one of the supported ones
  | uePoolAlloc             -- UE IP allocation enabled: UE pool is not a CIDR
  | peer (p : String)       -- first peer that is not an IP address
  | respTimeout
  | readTimeout
  | retries
  | hbInterval
  deriving DecidableEq, Repr

/-- one `if bad { return err }` -/
def check (bad : Bool) (e : Err) : Option Err := if bad then some e else none

/-- the checks of `validateConf` in the code's order; the checks of the branch not taken are vacuous -/
def checks (P : Preds) (c : C) : List (Option Err) :=
  [ check (c.enableP4rt && !P.cidr c.accessIP) .accessIP,
    check (c.enableP4rt && !P.cidr c.uePool) .uePoolP4,
    check (c.enableP4rt && c.mode != "") .modeP4,
    check (!c.enableP4rt && !modes.contains c.mode) .modeBess,
    check (c.enableUeIPAlloc && !P.cidr c.uePool) .uePoolAlloc,
    (c.peers.find? (fun p => !P.ip p)).map .peer,
    check (!P.dur c.respTimeout) .respTimeout,
    check (c.readTimeout == 0) .readTimeout,
    check (c.maxReqRetries == 0) .retries,
    check (c.enableHB && !P.dur c.hbInterval) .hbInterval ]

/-- `validateConf`: the first check that refuses, if any -/
def validate (P : Preds) (c : C) : Option Err := (checks P c).findSome? id

instance : DecidableEq (Except Err C)
  | .ok a, .ok b => if h : a = b then isTrue (by rw [h]) else isFalse (by intro e; cases e; exact h rfl)
  | .error a, .error b => if h : a = b then isTrue (by rw [h]) else isFalse (by intro e; cases e; exact h rfl)
  | .ok _, .error _ => isFalse (by intro e; cases e)
  | .error _, .ok _ => isFalse (by intro e; cases e)

/-- defaults, then validation -/
def finish (P : Preds) (raw : C) : Except Err C :=
  let c := defaults raw
  match validate P c with
  | none => .ok c
  | some e => .error e

/-- `LoadConfigFile` on a comment-free document -/
def load (P : Preds) (d : Doc) : Except Err C :=
  match decode P d with
  | none => .error .decode
  | some raw => finish P raw

/-- `LoadConfigFile` on the content of a file: remove comments, tokenise, decode, fill defaults, validate.
`parse` stands for `encoding/json`'s reading of the comment-free text (which value, if any, sits under each of the
model's keys; `none` = syntax error). It is not modelled: the theorems hold for every `parse`. -/
def loadFile (parse : List Char → Option Doc) (P : Preds) (text : List Char) : Except Err C :=
  match parse (Strip.strip .code text) with
  | none => .error .decode
  | some d => load P d

/-! ## the property's predicates (documented literals, not the constants) -/

/-- what every returned configuration satisfies, whatever the document was -/
def Sound (P : Preds) (c : C) : Prop :=
  P.dur c.respTimeout = true ∧
  c.readTimeout ≠ 0 ∧
  c.maxReqRetries ≠ 0 ∧
  (c.enableHB = true → P.dur c.hbInterval = true) ∧
  (if c.enableP4rt = true then c.mode = "" ∧ P.cidr c.accessIP = true ∧ P.cidr c.uePool = true
   else c.mode ∈ ["af_xdp", "af_packet", "cndp", "dpdk", "sim"]) ∧
  (c.enableUeIPAlloc = true → P.cidr c.uePool = true) ∧
  (∀ p ∈ c.peers, P.ip p = true)

instance (P : Preds) (c : C) : Decidable (Sound P c) := by unfold Sound; infer_instance

/-- the documented defaults are filled in, everything else is what was decoded -/
def Filled (raw c : C) : Prop :=
  c.respTimeout = (if raw.respTimeout = "" then "2s" else raw.respTimeout) ∧
  c.readTimeout = (if raw.readTimeout = 0 then 15 else raw.readTimeout) ∧
  c.maxReqRetries = (if raw.maxReqRetries = 0 then 5 else raw.maxReqRetries) ∧
  (c.enableHB = true → c.hbInterval = (if raw.hbInterval = "" then "5s" else raw.hbInterval)) ∧
  (c.enableHB = false → c.hbInterval = raw.hbInterval) ∧
  c.mode = raw.mode ∧ c.enableP4rt = raw.enableP4rt ∧ c.accessIP = raw.accessIP ∧ c.uePool = raw.uePool ∧
  c.enableUeIPAlloc = raw.enableUeIPAlloc ∧ c.peers = raw.peers ∧ c.enableHB = raw.enableHB ∧
  c.logLevel = raw.logLevel ∧ c.defaultTC = raw.defaultTC

instance (raw c : C) : Decidable (Filled raw c) := by unfold Filled; infer_instance

def Valid (P : Preds) (raw c : C) : Prop := Sound P c ∧ Filled raw c

instance (P : Preds) (raw c : C) : Decidable (Valid P raw c) := by unfold Valid; infer_instance

/-- log level `info` (zapcore.InfoLevel) and traffic class ELASTIC, the documented pre-decode defaults -/
def infoLevel : Int := 0
def elasticTC : Nat := 3

end Conf
