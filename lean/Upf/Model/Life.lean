
namespace Life

structure Facts where
  guarded : Bool   -- Shutdown body runs at most once per association
  waits   : Bool   -- node closes pConnDone only after every association has reported

structure Conn where
  exists_  : Bool := false
  execs    : List Nat := []     -- program counters (1..5) of running Shutdown executions
  started  : Bool := false      -- some execution has been admitted (what sync.Once remembers)
  shutClosed : Bool := false
  sessions : List Nat := []
  deleted  : List Nat := []     -- ghost: datapath deletes issued, in order
  reported : Bool := false      -- address sent on pConnDone
  sockClosed : Bool := false

structure St where
  conns : Nat → Conn
  cancelled : Bool := false
  listenerClosed : Bool := false
  doneBuf : Nat := 0            -- messages buffered in pConnDone
  doneClosed : Bool := false
  exited : Bool := false
  panicked : Bool := false

def upd (f : Nat → Conn) (a : Nat) (c : Conn) : Nat → Conn := fun b => if b = a then c else f b
@[simp] theorem upd_same (f a c) : upd f a c a = c := by simp [upd]
@[simp] theorem upd_other (f a c b) (h : b ≠ a) : upd f a c b = f b := by simp [upd, h]

inductive Act
  | newConn (a : Nat) (sess : List Nat)   -- first datagram of a new peer (only while listening)
  | trigger (a : Nat)                     -- some goroutine of `a` calls Shutdown (release/timeout/hb/ctx)
  | sd (a : Nat) (i : Nat)                -- the i-th running execution of Shutdown at `a` takes one step
  | nRecv                                 -- node takes one address from pConnDone
  | stop | nCloseListener | nCloseDone | nExit

def allReported (s : St) : Prop := ∀ a, (s.conns a).exists_ = true → (s.conns a).reported = true

open Classical in
/-- one atomic step; `none` = not enabled -/
noncomputable def step (f : Facts) (s : St) : Act → Option St
  | .newConn a sess =>
    if s.listenerClosed ∨ (s.conns a).exists_ then none
    else some { s with conns := upd s.conns a { exists_ := true, sessions := sess } }
  | .trigger a =>
    let c := s.conns a
    if ¬ c.exists_ then none
    else if f.guarded ∧ c.started then some s          -- Once: later callers do nothing
    else some { s with conns := upd s.conns a { c with started := true, execs := c.execs ++ [1] } }
  | .sd a i =>
    let c := s.conns a
    match c.execs[i]? with
    | none => none
    | some pc =>
      let adv (c' : Conn) (pc' : Nat) : St := { s with conns := upd s.conns a { c' with execs := c'.execs.set i pc' } }
      match pc with
      | 1 => if c.shutClosed then some { s with panicked := true }        -- close of closed channel
             else some (adv { c with shutClosed := true } 2)
      | 2 => some (adv c 3)                                               -- cancel heartbeat
      | 3 => match c.sessions with
             | [] => some (adv c 4)
             | x :: xs => some (adv { c with sessions := xs, deleted := c.deleted ++ [x] } 3)
      | 4 => if s.doneClosed then some { s with panicked := true }        -- send on closed channel
             else if s.doneBuf ≥ 100 then none                            -- would block
             else some { (adv { c with reported := true } 5) with doneBuf := s.doneBuf + 1 }
      | 5 => some (adv { c with sockClosed := true } 6)
      | _ => none
  | .nRecv => if s.doneBuf = 0 ∨ s.doneClosed then none else some { s with doneBuf := s.doneBuf - 1 }
  | .stop => some { s with cancelled := true }
  | .nCloseListener => if s.cancelled then some { s with listenerClosed := true } else none
  | .nCloseDone =>
    if ¬ s.listenerClosed ∨ s.doneClosed then none
    else if f.waits ∧ ¬ allReported s then none
    else some { s with doneClosed := true }
  | .nExit => if s.doneClosed then some { s with exited := true } else none

noncomputable def run (f : Facts) : St → List Act → Option St
  | s, [] => some s
  | s, a :: as => match step f s a with
    | none => none
    | some s' => run f s' as

def init : St := { conns := fun _ => {} }

end Life

namespace Life

structure CInv (c : Conn) : Prop where
  one   : c.execs.length ≤ 1
  fresh : c.started = false → c.execs = [] ∧ c.shutClosed = false ∧ c.reported = false
  notEx : c.exists_ = false → c.started = false
  pc1   : ∀ pc ∈ c.execs, pc = 1 → c.shutClosed = false
  pc4   : ∀ pc ∈ c.execs, pc ≤ 4 → c.reported = false

structure Inv (s : St) : Prop where
  ok    : s.panicked = false
  conns : ∀ a, CInv (s.conns a)
  closed : s.doneClosed = true → allReported s ∧ s.listenerClosed = true

end Life

