/-! P4Info as the agent reads it: tables with match fields and admissible actions, actions with parameters,
meter and counter arrays. `Gen/P4Info.lean` instantiates these from the shipped p4info.txt. -/
namespace P4

inductive Kind | exact | lpm | ternary | range | optional deriving DecidableEq, Repr

structure MF where
  id : Nat
  name : String
  bits : Nat
  kind : Kind
deriving Repr, DecidableEq

structure Table where
  id : Nat
  name : String
  size : Nat
  fields : List MF
  actions : List Nat        -- action refs usable in table entries (DEFAULT_ONLY refs are left out)
deriving Repr, DecidableEq

structure Param where
  id : Nat
  name : String
  bits : Nat
deriving Repr, DecidableEq

structure Action where
  id : Nat
  name : String
  params : List Param
deriving Repr, DecidableEq

structure Arr where
  id : Nat
  name : String
  size : Nat
deriving Repr, DecidableEq

structure Info where
  tables : List Table
  actions : List Action
  meters : List Arr
  counters : List Arr
deriving Repr

end P4
