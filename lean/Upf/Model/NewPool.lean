
namespace NewPool

abbrev U32 := BitVec 32

def maskOf (len : Nat) : U32 := (BitVec.allOnes 32) <<< (32 - len)

/-- `for ip = ip.Mask(mask); ipnet.Contains(ip); inc(ip)` then drop first and last; error below two addresses -/
def newPool (ip : U32) (len : Nat) : Option (List Nat) :=
  let net := (ip &&& maskOf len).toNat
  let size := 2 ^ (32 - len)
  if size < 2 then none else some ((List.range' net size).drop 1 |>.dropLast)

end NewPool

