
namespace Tern

abbrev U16 := BitVec 16
def limit : U16 := 0xFFFF#16

def maxPort (port mask : U16) : U16 := (limit - mask) + (port &&& mask)

structure LoopSt where
  bit : U16
  mask : U16
  testMask : U16
  netPort : U16
  maximumPort : U16

def loopBody (port end_ : U16) (s : LoopSt) : Option LoopSt :=
  if 0#16 < s.netPort ∧ s.maximumPort < end_ then
    let netPort := port &&& s.testMask
    if netPort < port then none
    else
      let maximumPort := maxPort netPort s.testMask
      let mask := if maximumPort ≤ end_ then s.testMask else s.mask
      some { bit := s.bit <<< 1, mask := mask, testMask := s.testMask - s.bit,
             netPort := netPort, maximumPort := maximumPort }
  else none

def loop (port end_ : U16) : Nat → LoopSt → U16
  | 0, s => s.mask
  | fuel+1, s =>
    match loopBody port end_ s with
    | none => s.mask
    | some s' => loop port end_ fuel s'

def init (port : U16) : LoopSt :=
  { bit := 1#16, mask := limit, testMask := limit,
    netPort := port &&& limit, maximumPort := maxPort (port &&& limit) limit }

def portMask (port end_ : U16) : U16 := loop port end_ 32 (init port)

/-- soundness-relevant invariant, no shape needed -/
def Good (port end_ m : U16) : Prop := port &&& m = port ∧ port.toNat + (~~~m).toNat ≤ end_.toNat

def hi (j : Nat) : U16 := limit <<< j

def Shape (m : U16) : Prop := ∃ j, m = hi j

structure Inv (s : LoopSt) : Prop where
  idx : ∃ i, s.testMask = hi i ∧ s.bit = 1#16 <<< i
  shape : Shape s.mask

structure Rule where
  port : U16
  mask : U16

def expand (high : U16) : Nat → Nat → List Rule
  | 0, _ => []
  | fuel+1, port =>
    if port ≤ high.toNat then
      let p : U16 := BitVec.ofNat 16 port
      let m := portMask p high
      { port := p, mask := m } :: expand high fuel ((maxPort p m).toNat + 1)
    else []

def ternary (low high : U16) : List Rule := expand high 65536 low.toNat

def Rule.matches (r : Rule) (p : U16) : Prop := p &&& r.mask = r.port &&& r.mask

end Tern

