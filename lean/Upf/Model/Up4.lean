import Upf.Model.Agent
import Upf.Model.P4Types
import Upf.Gen.P4Info
import Upf.Gen.P4Constants
import Upf.Gen.Leaf
/-!
The UP4 plug-in (up4.go, p4rt_translator.go, the Write path of p4rtc.go) together with a P4Runtime switch that
follows the specification's Write semantics (INSERT of an existing key: ALREADY_EXISTS; MODIFY / DELETE of a missing
key: NOT_FOUND; a batch continues after a failed update; an RPC that fails as a whole changes nothing).

Everything the environment decides is an input: `picks` are the identifiers `Pop()` takes out of the three set-typed
pools (Go map iteration order), `injs` is the fate of each Write RPC in the order the plug-in issues them. The theorems
quantify over both.
-/
namespace Up4
open Agent P4

/-! ## P4Runtime entities -/

structure FM where
  fid : Nat
  kind : Kind
  v : Nat          -- value (low for a range)
  aux : Nat        -- prefix length / mask / high
  len : Nat        -- bytes on the wire (fixed by the Go type of the argument)
  deriving DecidableEq, Repr

structure Entry where
  table : Nat
  ms : List FM := []
  prio : Nat := 0
  action : Nat := 0
  ps : List (Nat × Nat × Nat) := []       -- parameter id, value, bytes on the wire
  deriving DecidableEq, Repr

structure MeterCfg where
  cir : Nat
  cburst : Nat
  pir : Nat
  pburst : Nat
  deriving DecidableEq, Repr

inductive Ent
  | tbl (e : Entry)
  | meter (id idx : Nat) (cfg : Option MeterCfg)
  | counter (id idx : Nat)
  deriving DecidableEq, Repr

inductive Op | insert | modify | delete deriving DecidableEq, Repr

structure Upd where
  op : Op
  ent : Ent
  deriving DecidableEq, Repr

def codeOK : Nat := 0
def codeNotFound : Nat := 5
def codeAlreadyExists : Nat := 6

/-! ## the switch -/

structure Srv where
  entries : List Entry := []                       -- at most one entry per key
  meters : List ((Nat × Nat) × MeterCfg) := []     -- configured cells: (meter id, index) ↦ configuration
  deriving DecidableEq, Repr

/-- the key of a table entry: table, match fields, priority -/
def Entry.key (e : Entry) : Nat × List FM × Nat := (e.table, e.ms, e.prio)

def Srv.has (s : Srv) (e : Entry) : Bool := s.entries.any (·.key == e.key)

/-- one update at the switch: new state and canonical status code -/
def Srv.apply (s : Srv) (u : Upd) : Srv × Nat :=
  match u.ent with
  | .tbl e =>
    match u.op with
    | .insert => if s.has e then (s, codeAlreadyExists) else ({ s with entries := s.entries ++ [e] }, codeOK)
    | .modify => if s.has e then ({ s with entries := s.entries.map fun x => if x.key == e.key then e else x }, codeOK) else (s, codeNotFound)
    | .delete => if s.has e then ({ s with entries := s.entries.filter fun x => !(x.key == e.key) }, codeOK) else (s, codeNotFound)
  | .meter id idx cfg =>
    let rest := s.meters.filter fun m => !(m.1 == (id, idx))
    match cfg with
    | some c => ({ s with meters := rest ++ [((id, idx), c)] }, codeOK)
    | none => ({ s with meters := rest }, codeOK)            -- no configuration: back to the default (unconfigured)
  | .counter _ _ => (s, codeOK)

/-- what the environment does to one Write RPC -/
inductive Inj
  | none                         -- served
  | rpc                          -- fails as a whole (transport / UNAVAILABLE …): nothing is applied
  | upd (j code : Nat)           -- update number j is refused with `code`, the others are served
  deriving DecidableEq, Repr

/-- a batch at the switch: updates in order, each with its status -/
def Srv.batch (s : Srv) (inj : Inj) : List Upd → Nat → Srv × List Nat
  | [], _ => (s, [])
  | u :: rest, j =>
    let (s1, c) := match inj with
      | .upd k code => if k = j then (s, code) else s.apply u
      | _ => s.apply u
    let (s2, cs) := Srv.batch s1 inj rest (j + 1)
    (s2, c :: cs)

/-- outcome of a Write as `convertError` presents it to the plug-in -/
inductive WRes
  | ok
  | rpcErr                       -- not a P4Runtime error
  | p4Err (codes : List Nat)     -- per-update statuses, at least one not OK
  deriving DecidableEq, Repr

structure Rpc where
  ups : List Upd
  inj : Inj
  codes : List Nat               -- statuses (empty when the RPC failed as a whole)
  deriving DecidableEq, Repr

/-! ## configuration and plug-in state -/

structure Cfg4 where
  accessIP : Nat
  accessLen : Nat := 32
  uePool : Nat × Nat             -- network, prefix length
  sliceID : Nat := 0
  defaultTC : Nat := 3
  qfiToTC : List (Nat × Nat) := []
  ctrSize : Nat := 0             -- cells of the PDR counter in the pipeline the switch serves (0: as in the shipped P4Info)
  deriving Repr

structure TP where               -- tunnelParams
  src : Nat
  dst : Nat
  port : Nat
  deriving DecidableEq, Repr

structure AF where               -- up4ApplicationFilter
  ip : Nat
  ports : Tern.PR
  proto : Nat
  deriving DecidableEq

structure Shared where           -- tunnelPeer / internalApp
  id : Nat
  usedBy : List (Nat × Nat)      -- (F-SEID, FAR or PDR id), a set
  deriving DecidableEq, Repr

structure AppRec where           -- internalApp
  id : Nat
  usedBy : List (Nat × Nat)
  entry : Option Entry := none   -- the applications entry installed for the filter
  deriving DecidableEq, Repr

structure Meter where
  kind : Nat                     -- meterTypeApplication = 1, meterTypeSession = 2, 0 for the zero value
  ul : Nat
  dl : Nat
  deriving DecidableEq, Repr

structure St where
  ctrFree : List Nat := []                 -- counterIDsPool of the pre-QoS counter (a set)
  appFree : List Nat := []                 -- appMeterCellIDsPool (a set)
  sessFree : List Nat := []                -- sessMeterCellIDsPool (a set)
  peerPool : List Nat := []                -- tunnelPeerIDsPool (a queue)
  appPool : List Nat := []                 -- applicationIDsPool (a queue)
  peers : List (TP × Shared) := []
  apps : List (AF × AppRec) := []
  meters : List ((Nat × Nat) × Meter) := []   -- (QER id, F-SEID) ↦ meter
  ue2f : List (Nat × Nat) := []
  f2ue : List (Nat × Nat) := []
  srv : Srv := {}

structure Ctx where
  st : St
  picks : List Nat := []
  injs : List Inj := []
  log : List Rpc := []                     -- RPCs issued so far, oldest first

/-! ## small map / set helpers (Go maps with value semantics) -/

def setAdd (l : List Nat) (x : Nat) : List Nat := if l.contains x then l else l ++ [x]
def pairAdd (l : List (Nat × Nat)) (x : Nat × Nat) : List (Nat × Nat) := if l.contains x then l else l ++ [x]

def mapGet {κ ν : Type} [BEq κ] : List (κ × ν) → κ → Option ν
  | [], _ => none
  | e :: rest, k => if e.1 == k then some e.2 else mapGet rest k
def mapDel {κ ν : Type} [BEq κ] : List (κ × ν) → κ → List (κ × ν)
  | [], _ => []
  | e :: rest, k => if e.1 == k then mapDel rest k else e :: mapDel rest k
def mapPut {κ ν : Type} [BEq κ] : List (κ × ν) → κ → ν → List (κ × ν)
  | [], k, v => [(k, v)]
  | e :: rest, k, v => if e.1 == k then (k, v) :: rest else e :: mapPut rest k v

/-- `Pop()` of a set: the environment's pick when it is a member, else (no admissible pick supplied) the first element -/
def pop (c : Ctx) (free : List Nat) : Option (Nat × List Nat × Ctx) :=
  match free with
  | [] => none
  | x :: _ =>
    match c.picks with
    | p :: rest => if free.contains p then some (p, free.erase p, { c with picks := rest })
                   else some (x, free.erase x, { c with picks := rest })
    | [] => some (x, free.erase x, c)

/-- the environment's decision for the next Write RPC -/
def nextInj (c : Ctx) : Inj := c.injs.headD .none

/-- one Write RPC -/
def write (c : Ctx) (ups : List Upd) : Ctx × WRes :=
  let inj := nextInj c
  if inj = .rpc then
    ({ c with injs := c.injs.tail, log := c.log ++ [{ ups := ups, inj := inj, codes := [] }] }, .rpcErr)
  else
    let res := c.st.srv.batch inj ups 0
    ({ c with st := { c.st with srv := res.1 }, injs := c.injs.tail, log := c.log ++ [{ ups := ups, inj := inj, codes := res.2 }] },
     if res.2.all (· == codeOK) then .ok else .p4Err res.2)

/-! ## entry builders (p4rt_translator.go): names are looked up in the P4Info, a missing name is an error -/

def info : Info := Gen.P4Info.info

def withExact (e : Entry) (name : String) (v len : Nat) : Option Entry := do
  let t ← info.tables.find? (·.id == e.table)
  let f ← t.fields.find? (·.name == name)
  pure { e with ms := e.ms ++ [⟨f.id, .exact, v, 0, len⟩] }

def withLpm (e : Entry) (name : String) (v plen : Nat) : Option Entry := do
  let t ← info.tables.find? (·.id == e.table)
  let f ← t.fields.find? (·.name == name)
  pure { e with ms := e.ms ++ [⟨f.id, .lpm, v, plen, 4⟩] }

def withRange (e : Entry) (name : String) (lo hi len : Nat) : Option Entry := do
  let t ← info.tables.find? (·.id == e.table)
  let f ← t.fields.find? (·.name == name)
  pure { e with ms := e.ms ++ [⟨f.id, .range, lo, hi, len⟩] }

def withTernary (e : Entry) (name : String) (v mask len : Nat) : Option Entry := do
  let t ← info.tables.find? (·.id == e.table)
  let f ← t.fields.find? (·.name == name)
  pure { e with ms := e.ms ++ [⟨f.id, .ternary, v, mask, len⟩] }

def withParam (e : Entry) (name : String) (v len : Nat) : Option Entry := do
  let a ← info.actions.find? (·.id == e.action)
  let p ← a.params.find? (·.name == name)
  pure { e with ps := e.ps ++ [(p.id, v, len)] }

open Gen.Consts Gen.P4Constants in
/-- `BuildInterfaceTableEntry`; `srcIface` and `direction` are Go `int`s (4 bytes) -/
def buildInterface (ip plen slice : Nat) (isCore : Bool) : Option Entry := do
  let e : Entry := { table := TablePreQosPipeInterfaces, action := ActionPreQosPipeSetSourceIface }
  let e ← withLpm e FieldIPv4DstPrefix ip plen
  let e ← withParam e FieldSrcIface (if isCore then Sdf.core else Sdf.access) 4
  let e ← withParam e FieldDirection (if isCore then DirectionDownlink else DirectionUplink) 4
  withParam e FieldSliceID slice 1

/-- trailing zero bits of a 32-bit mask (`bits.TrailingZeros32`) -/
def tz32 (m : Nat) : Nat := if m % 4294967296 = 0 then 32 else (List.range 32).find? (fun i => m / 2 ^ i % 2 = 1) |>.getD 32

open Gen.Consts Gen.P4Constants in
/-- the body of `BuildApplicationsTableEntry` once it is decided which optional match fields are written -/
def buildApplicationWith (prio slice appID ip plen lo hi proto mask : Nat) (useLpm useRange useProto : Bool) : Option Entry := do
  let e : Entry := { table := TablePreQosPipeApplications, prio := prio, action := ActionPreQosPipeSetAppId }
  let e ← withExact e FieldSliceID slice 1
  let e ← if useLpm then withLpm e FieldAppIPAddress ip plen else pure e
  let e ← if useRange then withRange e FieldAppL4Port lo hi 2 else pure e
  let e ← if useProto then withTernary e FieldAppIPProto proto mask 1 else pure e
  withParam e FieldApplicationID appID 1

/-- `BuildApplicationsTableEntry` -/
def buildApplication (p : Pdr) (slice appID : Nat) : Option Entry :=
  let (ip, mask, ports) :=
    if p.srcIface = Sdf.access then (p.af.dstIP, p.af.dstMask, p.af.dstPorts)
    else if p.srcIface = Sdf.core then (p.af.srcIP, p.af.srcMask, p.af.srcPorts)
    else (0, 0, (⟨0#16, 0#16⟩ : Tern.PR))
  let plen := 32 - tz32 mask
  buildApplicationWith (65535 - p.precedence) slice appID ip plen ports.low.toNat ports.high.toNat p.af.proto p.af.protoMask
    (decide (plen > 0)) (decide (¬ ports.isWildcard)) (decide (p.af.proto ≠ 0 ∧ p.af.protoMask ≠ 0))

def buffers (f : Far) : Bool := Gen.Leaf.far_Buffers (BitVec.ofNat 8 f.applyAction)
def drops (f : Far) : Bool := Gen.Leaf.far_Drops (BitVec.ofNat 8 f.applyAction)
def forwards (f : Far) : Bool := Gen.Leaf.far_Forwards (BitVec.ofNat 8 f.applyAction)

open Gen.Consts Gen.P4Constants in
/-- `BuildSessionsTableEntry` -/
def buildSessions (p : Pdr) (sess : Meter) (peerID : Nat) (buffering : Bool) : Option Entry :=
  if p.srcIface = Sdf.access then do
    let e : Entry := { table := TablePreQosPipeSessionsUplink, action := ActionPreQosPipeSetSessionUplink }
    let e ← withExact e FieldN3Address p.tunnelIP4Dst 4
    let e ← withExact e FieldTEID p.tunnelTEID 4
    withParam e FieldSessionMeterIndex sess.ul 4
  else if p.srcIface = Sdf.core then do
    let e : Entry := { table := TablePreQosPipeSessionsDownlink,
                       action := if buffering then ActionPreQosPipeSetSessionDownlinkBuff else ActionPreQosPipeSetSessionDownlink }
    let e ← withExact e FieldUEAddress p.ueAddress 4
    let e ← if buffering then pure e else withParam e FieldTunnelPeerID peerID 1
    withParam e FieldSessionMeterIndex sess.dl 4
  else none

def gateClosed : Nat := 1      -- ie.GateStatusClosed

open Gen.Consts Gen.P4Constants in
/-- `BuildTerminationsTableEntry` -/
def buildTerminations (p : Pdr) (app : Meter) (f : Far) (appID qfi tc : Nat) (q : Qer) : Option Entry :=
  if p.srcIface = Sdf.access then do
    let drop := drops f || q.ulStatus == gateClosed
    let e : Entry := { table := TablePreQosPipeTerminationsUplink,
                       action := if drop then ActionPreQosPipeUplinkTermDrop else ActionPreQosPipeUplinkTermFwd }
    let e ← withExact e FieldUEAddress p.ueAddress 4
    let e ← withExact e FieldApplicationID appID 1
    let e ← if drop then pure e else do
      let e ← withParam e FieldTrafficClass tc 1
      withParam e FieldAppMeterIndex app.ul 4
    withParam e FieldCounterIndex p.ctrID 4
  else if p.srcIface = Sdf.core then do
    let drop := drops f || q.dlStatus == gateClosed
    let e : Entry := { table := TablePreQosPipeTerminationsDownlink,
                       action := if drop then ActionPreQosPipeDownlinkTermDrop else ActionPreQosPipeDownlinkTermFwd }
    let e ← withExact e FieldUEAddress p.ueAddress 4
    let e ← withExact e FieldApplicationID appID 1
    let e ← if drop then pure e else do
      let e ← withParam e FieldTEID f.tunnelTEID 4
      let e ← withParam e FieldQFI qfi 1
      let e ← withParam e FieldTrafficClass tc 1
      withParam e FieldAppMeterIndex app.dl 4
    withParam e FieldCounterIndex p.ctrID 4
  else none

open Gen.Consts Gen.P4Constants in
/-- `BuildGTPTunnelPeerTableEntry` -/
def buildPeer (id : Nat) (t : TP) : Option Entry := do
  let e : Entry := { table := TablePreQosPipeTunnelPeers, action := ActionPreQosPipeLoadTunnelParam }
  let e ← withExact e FieldTunnelPeerID id 1
  let e ← withParam e FieldTunnelSrcAddress t.src 4
  let e ← withParam e FieldTunnelDstAddress t.dst 4
  withParam e FieldTunnelSrcPort t.port 2

/-- `getMeterConfigurationFromQER` (the GBR is not used) -/
def meterCfg (mbr : Nat) : MeterCfg :=
  { cir := 0, cburst := 0, pir := if mbr ≠ 0 then u64 (u64 (mbr * 1000) / 8) else 0, pburst := calcBurst mbr 10 }

/-! ## start-up -/

def clearedTables : List Nat :=
  open Gen.P4Constants in
  [TablePreQosPipeSessionsUplink, TablePreQosPipeSessionsDownlink, TablePreQosPipeTerminationsUplink,
   TablePreQosPipeTerminationsDownlink, TablePreQosPipeTunnelPeers, TablePreQosPipeInterfaces, TablePreQosPipeApplications]

def arrSize (l : List Arr) (id : Nat) : Nat := ((l.find? (·.id == id)).map (·.size)).getD 0

/-- size of `counterIDsPool`: the size the served P4Info declares for the pre-QoS counter -/
def ctrCells (cfg : Cfg4) : Nat :=
  if cfg.ctrSize = 0 then arrSize info.counters Gen.P4Constants.CounterPreQosPipePreQosCounter else cfg.ctrSize

/-- `SetUpfInfo` + the first `tryConnect`: pools, `clearDatapathState` against whatever the switch still holds -/
def start (cfg : Cfg4) (srv : Srv) (injs : List Inj) : Ctx × Bool :=
  let st : St := {
    peerPool := (List.range Gen.Consts.maxGTPTunnelPeerIDs).map (· + 2),
    appPool := (List.range Gen.Consts.maxApplicationIDs).map (· + 1),
    srv := srv }
  let c : Ctx := { st := st, injs := injs }
  -- ClearTables: one batch deleting every entry read from the seven tables, table by table
  let dels := clearedTables.flatMap fun t => (srv.entries.filter (·.table == t)).map fun e => (⟨.delete, .tbl e⟩ : Upd)
  let (c, r) := write c dels
  if r ≠ .ok then (c, false) else
  let st := { c.st with
    ctrFree := List.range (ctrCells cfg),
    appFree := (List.range (arrSize info.meters Gen.P4Constants.MeterPreQosPipeAppMeter - 1)).map (· + 1),
    sessFree := (List.range (arrSize info.meters Gen.P4Constants.MeterPreQosPipeSessionMeter - 1)).map (· + 1) }
  let c := { c with st := st }
  match buildInterface cfg.uePool.1 cfg.uePool.2 cfg.sliceID true, buildInterface cfg.accessIP cfg.accessLen cfg.sliceID false with
  | some ue, some n3 =>
    let (c, r) := write c [⟨.insert, .tbl ue⟩, ⟨.insert, .tbl n3⟩]
    (c, r == .ok)
  | _, _ => (c, false)

/-! ## tunnel peers and applications (reference counted) -/

def tpOf (cfg : Cfg4) (f : Far) : TP := { src := cfg.accessIP, dst := f.tunnelIP4Dst, port := f.tunnelPort }

/-- `addOrUpdateGTPTunnelPeer`; `false` = error -/
def addOrUpdatePeer (cfg : Cfg4) (c : Ctx) (f : Far) : Ctx × Bool :=
  let tp := tpOf cfg f
  match mapGet c.st.peers tp with
  | some pr =>
    -- the set behind `usedBy` is shared with the map: the reference is recorded before the write
    let pr' : Shared := { pr with usedBy := pairAdd pr.usedBy (f.fseID, f.farID) }
    let c := { c with st := { c.st with peers := mapPut c.st.peers tp pr' } }
    match buildPeer pr.id tp with
    | none => (c, false)
    | some e =>
      let (c, r) := write c [⟨.modify, .tbl e⟩]
      (c, r == .ok)
  | none =>
    match c.st.peerPool with
    | [] => (c, false)
    | id :: pool =>
      let c := { c with st := { c.st with peerPool := pool } }
      match buildPeer id tp with
      | none => (c, false)                       -- (release looks the peer up in the map, where it is not yet: the ID is not returned)
      | some e =>
        let (c, r) := write c [⟨.insert, .tbl e⟩]
        if r == .ok then ({ c with st := { c.st with peers := mapPut c.st.peers tp { id := id, usedBy := [(f.fseID, f.farID)] } } }, true)
        else (c, false)

/-- `updateTunnelPeersBasedOnFARs` -/
def updatePeers (cfg : Cfg4) : Ctx → List Far → Ctx × Bool
  | c, [] => (c, true)
  | c, f :: rest =>
    if f.dstIntf = 0 ∧ f.tunnelTEID ≠ 0 then     -- (whatever the FAR's action: `prepare` needs the peer of every FAR that names a tunnel)
      match addOrUpdatePeer cfg c f with
      | (c, false) => (c, false)
      | (c, true) => updatePeers cfg c rest
    else updatePeers cfg c rest

/-- `removeGTPTunnelPeer` -/
def removePeer (cfg : Cfg4) (c : Ctx) (f : Far) : Ctx :=
  let tp := tpOf cfg f
  match mapGet c.st.peers tp with
  | none => c
  | some pr =>
    let used := pr.usedBy.filter (· != (f.fseID, f.farID))
    let c := { c with st := { c.st with peers := mapPut c.st.peers tp { pr with usedBy := used } } }
    if used ≠ [] then c else
    match buildPeer pr.id tp with
    | none => c
    | some e =>
      let (c, _) := write c [⟨.delete, .tbl e⟩]
      { c with st := { c.st with peers := mapDel c.st.peers tp, peerPool := c.st.peerPool ++ [pr.id] } }

def afOf (p : Pdr) : AF :=
  if p.srcIface = Sdf.access then { ip := p.af.dstIP, ports := p.af.dstPorts, proto := p.af.proto }
  else if p.srcIface = Sdf.core then { ip := p.af.srcIP, ports := p.af.srcPorts, proto := p.af.proto }
  else { ip := 0, ports := ⟨0#16, 0#16⟩, proto := p.af.proto }

/-- `IsAppFilterEmpty` -/
def appFilterEmpty (p : Pdr) : Bool :=
  p.af.proto = 0 ∧ ((p.srcIface = Sdf.access ∧ p.af.dstIP = 0 ∧ p.af.dstPorts.isWildcard) ∨
                   (p.srcIface = Sdf.core ∧ p.af.srcIP = 0 ∧ p.af.srcPorts.isWildcard))

/-- `addInternalApplicationIDAndGetP4rtEntry`: entry to install (if new), application ID; `none` = error -/
def addApp (cfg : Cfg4) (st : St) (p : Pdr) : St × Option (Option Entry × Nat) :=
  let af := afOf p
  match mapGet st.apps af with
  | some ap => ({ st with apps := mapPut st.apps af { ap with usedBy := pairAdd ap.usedBy (p.fseID, p.pdrID) } }, some (none, ap.id))
  | none =>
    match st.appPool with
    | [] => (st, none)
    | id :: pool =>
      let st := { st with appPool := pool }
      match buildApplication p cfg.sliceID id with
      | none => (st, none)
      | some e => ({ st with apps := mapPut st.apps af { id := id, usedBy := [(p.fseID, p.pdrID)], entry := some e } }, some (some e, id))

/-- `removeInternalApplicationIDAndGetP4rtEntry` -/
def removeApp (_cfg : Cfg4) (st : St) (p : Pdr) : St × Option Entry × Nat :=
  let af := afOf p
  match mapGet st.apps af with
  | none => (st, none, 0)
  | some ap =>
    let used := ap.usedBy.filter (· != (p.fseID, p.pdrID))
    let st := { st with apps := mapPut st.apps af { ap with usedBy := used } }
    if used ≠ [] then (st, none, ap.id) else
    match ap.entry with
    | none => (st, none, ap.id)
    | some e => ({ st with apps := mapDel st.apps af, appPool := st.appPool ++ [ap.id] }, some e, ap.id)

/-! ## meters -/

open Gen.P4Constants in
/-- `configureApplicationMeter` -/
def configureAppMeter (c : Ctx) (q : Qer) (bidir : Bool) : Ctx × Option Meter :=
  match pop c c.st.appFree with
  | none => (c, none)
  | some (ul, free, c) =>
    let c := { c with st := { c.st with appFree := free } }
    let second : Option (Nat × Ctx) :=
      if bidir then
        match pop c c.st.appFree with
        | none => none
        | some (dl, free, c) => some (dl, { c with st := { c.st with appFree := free } })
      else some (ul, c)
    match second with
    | none => ({ c with st := { c.st with appFree := setAdd c.st.appFree ul } }, none)
    | some (dl, c) =>
      let ups : List Upd :=
        (if ul ≠ 0 then [⟨.modify, .meter MeterPreQosPipeAppMeter ul (some (meterCfg q.ulMbr))⟩] else []) ++
        (if dl ≠ ul then [⟨.modify, .meter MeterPreQosPipeAppMeter dl (some (meterCfg q.dlMbr))⟩] else [])
      let (c, r) := write c ups
      if r == .ok then (c, some { kind := 1, ul := ul, dl := dl })
      else
        -- releaseIDs: the cells go back to the application pool they came from
        let free := if ul ≠ 0 then setAdd c.st.appFree ul else c.st.appFree
        let free := if dl ≠ ul ∧ dl ≠ 0 then setAdd free dl else free
        ({ c with st := { c.st with appFree := free } }, none)

open Gen.P4Constants in
/-- `configureSessionMeter` -/
def configureSessMeter (c : Ctx) (q : Qer) : Ctx × Option Meter :=
  match pop c c.st.sessFree with
  | none => (c, none)
  | some (ul, free, c) =>
    let c := { c with st := { c.st with sessFree := free } }
    match pop c c.st.sessFree with
    | none => ({ c with st := { c.st with sessFree := if ul ≠ 0 then setAdd c.st.sessFree ul else c.st.sessFree } }, none)
    | some (dl, free, c) =>
      let c := { c with st := { c.st with sessFree := free } }
      let (c, r) := write c [⟨.modify, .meter MeterPreQosPipeSessionMeter ul (some (meterCfg q.ulMbr))⟩,
                             ⟨.modify, .meter MeterPreQosPipeSessionMeter dl (some (meterCfg q.dlMbr))⟩]
      if r == .ok then (c, some { kind := 2, ul := ul, dl := dl })
      else
        let free := if ul ≠ 0 then setAdd c.st.sessFree ul else c.st.sessFree
        let free := if dl ≠ 0 then setAdd free dl else free
        ({ c with st := { c.st with sessFree := free } }, none)

/-- `configureMeters`; `n` = number of QERs in the message -/
def configureMeters (n : Nat) : Ctx → List Qer → Ctx × Bool
  | c, [] => (c, true)
  | c, q :: rest =>
    let (c, m) := if q.session then configureSessMeter c q else configureAppMeter c q (n == 1)
    match m with
    | none => (c, false)
    | some m => configureMeters n { c with st := { c.st with meters := mapPut c.st.meters (q.qerID, q.fseID) m } } rest

open Gen.P4Constants in
/-- `resetMeters` -/
def resetMeters : Ctx → List Qer → Ctx
  | c, [] => c
  | c, q :: rest =>
    match mapGet c.st.meters (q.qerID, q.fseID) with
    | none => resetMeters c rest
    | some m =>
      let mid := if m.kind = 1 then MeterPreQosPipeAppMeter else MeterPreQosPipeSessionMeter
      if m.kind = 1 ∨ m.kind = 2 then
        let ups : List Upd := [⟨.modify, .meter mid m.ul none⟩] ++ (if m.dl ≠ m.ul then [⟨.modify, .meter mid m.dl none⟩] else [])
        let (c, _) := write c ups
        let st := c.st
        let st :=
          if m.kind = 1 then
            let free := if m.ul ≠ 0 then setAdd st.appFree m.ul else st.appFree
            { st with appFree := if m.dl ≠ m.ul ∧ m.dl ≠ 0 then setAdd free m.dl else free }
          else
            let free := if m.ul ≠ 0 then setAdd st.sessFree m.ul else st.sessFree
            { st with sessFree := if m.dl ≠ 0 then setAdd free m.dl else free }
        resetMeters { c with st := { st with meters := mapDel st.meters (q.qerID, q.fseID) } } rest
      else resetMeters { c with st := { c.st with meters := mapDel c.st.meters (q.qerID, q.fseID) } } rest

/-! ## the per-PDR orchestration -/

def zeroMeter : Meter := { kind := 0, ul := 0, dl := 0 }

/-- which statuses `modifyUP4ForwardingConfiguration` lets pass -/
def tolerated (op : Op) (r : WRes) : Bool :=
  match r with
  | .ok => true
  | .rpcErr => false
  | .p4Err codes => codes.all fun c => c == codeAlreadyExists || c == codeOK || (op == .delete && c == codeNotFound)

/-- the application part of one PDR: reference taken (INSERT / MODIFY) or dropped (DELETE); entry to write, application ID -/
def appStep (cfg : Cfg4) (op : Op) (st : St) (p : Pdr) : St × Option Entry × Nat :=
  if appFilterEmpty p then (st, none, 0)
  else if op ≠ .delete then
    match addApp cfg st p with
    | (st, some (e, id)) => (st, e, id)
    | (st, none) => (st, none, 0)
  else removeApp cfg st p

/-- one PDR of `modifyUP4ForwardingConfiguration` up to the Write: the application bookkeeping is updated, the entries are built;
`none` = an error before anything is written for this PDR -/
def prepare (cfg : Cfg4) (allFars : List Far) (qers : List Qer) (op : Op) (st : St) (p : Pdr) : St × Option (List Entry) :=
  if p.precedence > 65535 ∨ (p.precedence = 65535 ∧ !appFilterEmpty p) then (st, none) else
  match allFars.find? (·.farID = p.farID) with
  | none => (st, none)
  | some far =>
  let peer := mapGet st.peers (tpOf cfg far)
  if peer.isNone ∧ far.dstIntf = 0 ∧ far.tunnelTEID ≠ 0 then (st, none) else     -- (only a FAR towards the access network refers to a tunnel peer)
  let peerID := (peer.map (·.id)).getD 0
  let sessMeter : Meter :=
    if p.qerIDs.length = 2 then (mapGet st.meters (p.qerIDs.getD 1 0, p.fseID)).getD zeroMeter else { kind := 2, ul := 0, dl := 0 }
  match buildSessions p sessMeter peerID (buffers far) with
  | none => (st, none)
  | some sessionsEntry =>
  let ue : Option Nat := if p.srcIface = Sdf.access then mapGet st.f2ue p.fseID else some p.ueAddress
  match ue with
  | none => (st, none)
  | some ueAddr =>
  let p := { p with ueAddress := ueAddr }
  let app := appStep cfg op st p
  let st := app.1
  let appMeter : Meter := if p.qerIDs ≠ [] then (mapGet st.meters (p.qerIDs.headD 0, p.fseID)).getD zeroMeter else { kind := 1, ul := 0, dl := 0 }
  let related : Option Qer := if p.qerIDs ≠ [] then qers.find? (·.qerID = p.qerIDs.headD 0) else none
  let qfi := match related with | some q => q.qfi | none => Gen.Consts.DefaultQFI
  let rq : Qer := related.getD {}
  let tc := (mapGet cfg.qfiToTC rq.qfi).getD cfg.defaultTC
  match buildTerminations p appMeter far app.2.2 qfi tc rq with
  | none => (st, none)
  | some term => (st, some ([sessionsEntry] ++ app.2.1.toList ++ [term]))

/-- `modifyUP4ForwardingConfiguration` -/
def modifyFwd (cfg : Cfg4) (allFars : List Far) (qers : List Qer) (op : Op) : Ctx → List Pdr → Ctx × Bool
  | c, [] => (c, true)
  | c, p :: rest =>
    match prepare cfg allFars qers op c.st p with
    | (st, none) => ({ c with st := st }, false)
    | (st, some entries) =>
      let r := write { c with st := st } (entries.map fun e => ⟨op, .tbl e⟩)
      if tolerated op r.2 then modifyFwd cfg allFars qers op r.1 rest else (r.1, false)

/-! ## create / update / delete -/

structure Rules where
  pdrs : List Pdr := []
  fars : List Far := []
  qers : List Qer := []

open Gen.P4Constants in
/-- the counter loop of `sendCreate`: the i-th PDR of the session gets a counter for each PDR of the message -/
def allocCounters : Ctx → Nat → List Pdr → List Pdr → Ctx × List Pdr × Bool
  | c, 0, done, todo => (c, done.reverse ++ todo, true)
  | c, _ + 1, done, [] => (c, done.reverse, true)      -- (Go would index out of range; the handlers pass equally long lists)
  | c, n + 1, done, p :: todo =>
    match pop c c.st.ctrFree with
    | none => (c, done.reverse ++ p :: todo, false)
    | some (id, free, c) =>
      let c := { c with st := { c.st with ctrFree := free } }
      let p := { p with ctrID := id }
      let (c, r) := write c [⟨.modify, .counter CounterPreQosPipePreQosCounter id⟩, ⟨.modify, .counter CounterPostQosPipePostQosCounter id⟩]
      if r == .ok then allocCounters c n (p :: done) todo else (c, (p :: done).reverse ++ todo, false)

def updateMaps (st : St) (pdrs : List Pdr) : St :=
  pdrs.foldl (fun st p => if p.srcIface = Sdf.access then st
    else { st with ue2f := mapPut st.ue2f p.ueAddress p.fseID, f2ue := mapPut st.f2ue p.fseID p.ueAddress }) st

def removeMaps (st : St) (pdrs : List Pdr) : St :=
  pdrs.foldl (fun st p => if p.srcIface = Sdf.access then st
    else { st with ue2f := mapDel st.ue2f p.ueAddress, f2ue := mapDel st.f2ue p.fseID }) st

/-- `sendCreate`; returns the session's PDRs with their counters -/
def sendCreate (cfg : Cfg4) (c : Ctx) (all updated : Rules) : Ctx × List Pdr × Bool :=
  let (c, pdrs, ok) := allocCounters c updated.pdrs.length [] all.pdrs
  if !ok then (c, pdrs, false) else
  let c := { c with st := updateMaps c.st updated.pdrs }
  let (c, ok) := configureMeters updated.qers.length c updated.qers
  if !ok then (c, pdrs, false) else
  let (c, ok) := updatePeers cfg c updated.fars
  if !ok then (c, pdrs, false) else
  let (c, ok) := modifyFwd cfg all.fars all.qers .insert c pdrs
  (c, pdrs, ok)

/-- `sendUpdate` -/
def sendUpdate (cfg : Cfg4) (c : Ctx) (all updated : Rules) : Ctx × Bool :=
  let c := { c with st := updateMaps c.st updated.pdrs }
  let (c, ok) := updatePeers cfg c updated.fars
  if !ok then (c, false) else
  modifyFwd cfg all.fars all.qers .modify c all.pdrs

/-- `sendDelete` -/
def sendDelete (cfg : Cfg4) (c : Ctx) (del : Rules) : Ctx × Bool :=
  let (c, ok) := modifyFwd cfg del.fars del.qers .delete c del.pdrs
  if !ok then (c, false) else
  let c := { c with st := { c.st with ctrFree := del.pdrs.foldl (fun l p => setAdd l p.ctrID) c.st.ctrFree } }
  let c := resetMeters c del.qers
  let c := del.fars.foldl (removePeer cfg) c
  ({ c with st := removeMaps c.st del.pdrs }, true)

end Up4
