import Upf.Model.Agent
/-! `handleSessionModificationRequest` and the remaining handlers (messages_session.go, messages_conn.go). -/
namespace Agent

structure ModReq where
  seid : Nat
  cpFseid : Option (Nat × Nat) := none       -- new CP SEID, IPv4
  createPdrs : List PdrIE := []
  createFars : List FarIE := []
  createQers : List QerIE := []
  updatePdrs : List PdrIE := []
  updateFars : List FarIE := []
  updateQers : List QerIE := []
  removePdrs : List Nat := []
  removeFars : List Nat := []
  removeQers : List Nat := []

/-- an end marker as far as the property speaks about it: taken from the FAR stored before the update -/
structure Marker where
  src : Nat
  dst : Nat
  teid : Nat
  deriving DecidableEq, Repr

def markerOf (f : Far) : Marker := { src := f.tunnelIP4Src, dst := f.tunnelIP4Dst, teid := f.tunnelTEID }

def parsePdrs (seid fseidIP : Nat) (apps : List (String × List String)) :
    List PdrIE → Option Pool.P → Except (PErr × Option Pool.P) (List Pdr × Option Pool.P)
  | [], pool => pure ([], pool)
  | ie :: rest, pool =>
    match parsePDR seid apps ie pool with
    | (.error e, pool) => throw (e, pool)
    | (.ok p, pool) => do
      let (ps, pool) ← parsePdrs seid fseidIP apps rest pool
      pure ({ p with fseidIP := fseidIP } :: ps, pool)

/-- `UpdatePDR` for each parsed PDR: replace the stored rule with the same ID; unknown IDs are skipped -/
def updPdrs (stored : List Pdr) (ups : List Pdr) : List Pdr × List Pdr :=
  ups.foldl (fun (st, sent) p =>
    if st.any (·.pdrID = p.pdrID) then (st.map fun q => if q.pdrID = p.pdrID then { p with ctrID := q.ctrID } else q, sent ++ [p]) else (st, sent)) (stored, [])

/-- `UpdateFAR`: replace by ID; a flagged update of a known FAR yields a marker from the OLD rule -/
def updFars (stored : List Far) (ups : List Far) : List Far × List Far × List Marker :=
  ups.foldl (fun (st, sent, ms) f =>
    match st.find? (·.farID = f.farID) with
    | none => (st, sent, ms)
    | some old =>
      (st.map fun q => if q.farID = f.farID then f else q, sent ++ [f], if f.sendEndMarker then ms ++ [markerOf old] else ms))
    (stored, [], [])

def updQers (stored : List Qer) (ups : List Qer) : List Qer × List Qer :=
  ups.foldl (fun (st, sent) q =>
    if st.any (·.qerID = q.qerID) then (st.map fun x => if x.qerID = q.qerID then q else x, sent ++ [q]) else (st, sent)) (stored, [])

/-- remove by ID, in order; `none` when an ID is unknown (the request is then rejected) -/
def removeAll {α : Type} (idOf : α → Nat) : List α → List Nat → Option (List α × List α)
  | st, [] => some (st, [])
  | st, id :: rest =>
    match st.find? (fun x => idOf x = id) with
    | none => none
    | some x =>
      -- the first rule with this ID leaves the list
      let st' := st.eraseP (fun y => idOf y = id)
      (removeAll idOf st' rest).map fun (s, del) => (s, x :: del)

/-- the copy of a created / updated QER that goes to the datapath: its level is the one the marking chose for the session's QER -/
def withMarkedLevel (qersM : List Qer) (q : Qer) : Qer :=
  match qersM.find? (·.qerID = q.qerID) with
  | some x => { q with session := x.session }
  | none => q

/-- the copy of a created / updated PDR that goes to the datapath: its QER list is the (reordered) list of the session's PDR -/
def withMarkedLists (pdrsM2 : List Pdr) (p : Pdr) : Pdr :=
  match pdrsM2.find? (·.pdrID = p.pdrID) with
  | some q => { p with qerIDs := q.qerIDs }
  | none => p

structure ModOut where
  world : World
  reply : Reply
  markers : List Marker := []

/-- `handleSessionModificationRequest` -/
def modify (cfg : Cfg) (w : World) (a : Nat) (r : ModReq) : ModOut :=
  let c := w.conn a
  match c.sessions.find? (·.lseid = r.seid) with
  | none => { world := w, reply := { cause := causeRejected, seid := 0 } }
  | some s0 =>
    let s := match r.cpFseid with
      | some (cp, _) => { s0 with rseid := cp }
      | none => s0
    let fseidIP := match r.cpFseid with | some (_, ip) => ip | none => 0
    let rej (w : World) : ModOut := { world := w, reply := { cause := causeRejected, seid := s.rseid } }
    match parsePdrs r.seid fseidIP c.apps r.createPdrs w.pool with
    | .error (_, pool) => rej { w with pool := pool }
    | .ok (cp, pool) =>
    match mapFars cfg r.seid fseidIP false r.createFars with
    | .error _ => rej { w with pool := pool }
    | .ok cf =>
    let cq := r.createQers.map fun ie => { parseQER r.seid ie with fseidIP := fseidIP }
    match parsePdrs r.seid fseidIP c.apps r.updatePdrs pool with
    | .error (_, pool) => rej { w with pool := pool }
    | .ok (up, pool) =>
    match mapFars cfg r.seid fseidIP true r.updateFars with
    | .error _ => rej { w with pool := pool }
    | .ok uf =>
    let uq := r.updateQers.map fun ie => { parseQER r.seid ie with fseidIP := fseidIP }
    let (pdrs1, sentUp) := updPdrs (s.pdrs ++ cp) up
    let (fars1, sentUf, markers) := updFars (s.fars ++ cf) uf
    let (qers1, sentUq) := updQers (s.qers ++ cq) uq
    let addP := cp ++ sentUp
    let addF := cf ++ sentUf
    let addQ := cq ++ sentUq
    let (qersM, pdrsM2) := markSessionQer pdrs1 qers1
    -- the QERs handed to the datapath carry the level chosen among all QERs of the session
    let addQM := addQ.map (withMarkedLevel qersM)
    -- the PDR copies handed to the datapath share their QER lists with the session's: take the reordered lists
    let addPM := addP.map (withMarkedLists pdrsM2)
    let t := sendAdd cfg w.tables addPM addF addQM
    let w1 := { w with pool := pool, tables := t }
    let markers := if cfg.endMarker then markers else []
    match removeAll (·.pdrID) pdrsM2 r.removePdrs with
    | none => { rej w1 with markers := markers }
    | some (pdrs2, delP) =>
    match removeAll (·.farID) fars1 r.removeFars with
    | none => { rej w1 with markers := markers }
    | some (fars2, delF) =>
    match removeAll (·.qerID) qersM r.removeQers with
    | none => { rej w1 with markers := markers }
    | some (qers2, delQ) =>
    let t := sendDel cfg w1.tables delP delF delQ
    let s' : Session := { s with pdrs := pdrs2, fars := fars2, qers := qers2 }
    -- a removed PDR takes its UP-chosen TEID with it (the stored session no longer has the rule when it ends)
    let g := delP.foldl (fun g p => if p.chooseTeid then Teid.free g p.tunnelTEID else g) w1.teid
    let w2 := { w1 with tables := t, teid := g }
    { world := w2.setConn a { c with sessions := c.sessions.map fun x => if x.lseid = r.seid then s' else x },
      reply := { cause := causeAccepted, seid := s.rseid }, markers := markers }

/-- association setup: the node ID is remembered (datapath connected); setup on an existing association overwrites it -/
def assocSetup (w : World) (a : Nat) (nodeID : String) : World :=
  w.setConn a { w.conn a with remoteNode := nodeID }

/-- one session leaves: its datapath entries are deleted, its address and TEIDs returned, its record dropped -/
def dropSession (cfg : Cfg) (w : World) (s : Session) : World :=
  let t := sendDel cfg w.tables s.pdrs s.fars s.qers
  let (pool, g) := releaseRes w.pool w.teid s.lseid s.pdrs
  { w with tables := t, pool := pool, teid := g }

/-- `Shutdown`: every session of the association is removed and the association forgotten -/
def shutdownConn (cfg : Cfg) (w : World) (a : Nat) : World :=
  let c := w.conn a
  let w := c.sessions.foldl (dropSession cfg) w
  { w with conns := w.conns.filter (·.1 ≠ a) }

/-- Session Report Response 'session context not found': the session is removed locally -/
def reportContextNotFound (cfg : Cfg) (w : World) (a seid : Nat) : World :=
  let c := w.conn a
  match c.sessions.find? (·.lseid = seid) with
  | none => w
  | some s =>
    let w := dropSession cfg w s
    w.setConn a { c with sessions := c.sessions.filter (·.lseid ≠ seid) }

/-- PFD management: an accepted request replaces the whole table; a rejected one leaves it as it was -/
def pfdManagement (w : World) (a : Nat) (apps : List (String × List String)) (ok : Bool) : World :=
  if ok then w.setConn a { w.conn a with apps := apps } else w

end Agent
