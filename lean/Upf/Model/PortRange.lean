import Upf.Model.Tern

namespace Tern

structure PR where
  low : U16
  high : U16
  deriving DecidableEq

def PR.isWildcard (pr : PR) : Prop := (pr.low = 0#16 ∧ pr.high = 0xFFFF#16) ∨ (pr.low = 0#16 ∧ pr.high = 0#16)
def PR.isExact (pr : PR) : Prop := pr.low = pr.high ∧ pr.high ≠ 0#16
def PR.isRange (pr : PR) : Prop := ¬ pr.isExact ∧ ¬ pr.isWildcard
instance (pr : PR) : Decidable pr.isWildcard := by unfold PR.isWildcard; exact inferInstance
instance (pr : PR) : Decidable pr.isExact := by unfold PR.isExact; exact inferInstance
instance (pr : PR) : Decidable pr.isRange := by unfold PR.isRange; exact inferInstance

def PR.width (pr : PR) : U16 := if pr.isWildcard then 0xFFFF#16 else pr.high - pr.low + 1#16

def PR.denotes (pr : PR) (p : U16) : Prop := pr.isWildcard ∨ (pr.low.toNat ≤ p.toNat ∧ p.toNat ≤ pr.high.toNat)

instance (pr : PR) (p : U16) : Decidable (pr.denotes p) := by unfold PR.denotes; exact inferInstance

inductive Strategy | exact | ternary

def asTrivial (pr : PR) : Option Rule :=
  if pr.isWildcard then some ⟨0#16, 0#16⟩
  else if pr.isExact then some ⟨pr.low, 0xFFFF#16⟩
  else none

/-- `for port := int(low); port <= int(high); port++ { append {uint16(port), 0xFFFF} }` -/
def exactRules (pr : PR) : List Rule :=
  (List.range' pr.low.toNat (pr.high.toNat + 1 - pr.low.toNat)).map fun n => ⟨BitVec.ofNat 16 n, 0xFFFF#16⟩

def asComplex (s : Strategy) (pr : PR) : Option (List Rule) :=
  if pr.isExact then some [⟨pr.low, 0xFFFF#16⟩]
  else if pr.isWildcard then some [⟨0#16, 0#16⟩]
  else match s with
    | .exact => if pr.width > 100#16 then none else some (exactRules pr)
    | .ternary => some (ternary pr.low pr.high)

/-- `newRangeMatchPortRange`: an inverted pair becomes the zero value -/
def newRange (lo hi : U16) : PR := if lo > hi then ⟨0#16, 0#16⟩ else ⟨lo, hi⟩

/-- decimal port lexing as `strconv.ParseUint(s, 10, 16)` accepts it: non-empty, digits only, ≤ 65535
(hand model of the library function; validated by the correspondence run, not verified) -/
def parseU16 (s : String) : Option U16 :=
  if s.isEmpty ∨ !s.all Char.isDigit then none
  else match s.toNat? with
    | some n => if n ≤ 65535 then some (BitVec.ofNat 16 n) else none
    | none => none

/-- `endpoint.parsePort` after `strings.Split(port, "-")` -/
def parsePortParts : List String → Option PR
  | [a] => (parseU16 a).map fun n => newRange n n
  | [a, b] =>
    match parseU16 a, parseU16 b with
    | some lo, some hi => if lo > hi then none else some (newRange lo hi)
    | _, _ => none
  | _ => none

def parsePort (s : String) : Option PR := parsePortParts (s.splitOn "-")

end Tern

