import Upf.Model.PortRange

namespace Tern

structure Rule2 where
  src : Rule
  dst : Rule

def Rule2.matches (r : Rule2) (sp dp : U16) : Prop := r.src.matches sp ∧ r.dst.matches dp

def cartesian (s d : PR) : Option (List Rule2) :=
  if s.isRange ∧ d.isRange then none
  else if s.isRange then
    match asComplex .exact s, asTrivial d with
    | some rs, some t => some (rs.map fun r => ⟨r, t⟩)
    | _, _ => none
  else if d.isRange then
    match asComplex .exact d, asTrivial s with
    | some rs, some t => some (rs.map fun r => ⟨t, r⟩)
    | _, _ => none
  else
    match asTrivial s, asTrivial d with
    | some a, some b => some [⟨a, b⟩]
    | _, _ => none

end Tern

