/-! scratch: token-level model of parseFlowDesc AFTER the intended repair
    (bounds checks on the look-ahead; both clauses required). Lexing of addresses and ports is a parameter. -/
namespace Flow

structure Lex (Net Port : Type) where
  parseNet  : String → Option Net
  parsePort : String → Option Port
  wild      : Port                      -- newWildcardPortRange()

structure Endpoint (Net Port : Type) where
  net : Option Net
  ports : Port

structure IPF (Net Port : Type) where
  action : String
  dir : String
  proto : String
  src : Endpoint Net Port
  dst : Endpoint Net Port

variable {Net Port : Type}

def xform (ue tok : String) : String :=
  if tok = "any" then "0.0.0.0/0"
  else if tok = "assigned" then
    (if ue = "0.0.0.0" ∨ ue = "" ∨ ue = "<nil>" then "0.0.0.0/0" else ue)
  else tok

/-- the `for i := 3; i < len(fields); i++ { switch fields[i] … }` loop -/
def loop (L : Lex Net Port) (ue : String) : List String → IPF Net Port → Option (IPF Net Port)
  | [], f => some f
  | [t], f => if t = "from" ∨ t = "to" then none else some f           -- keyword with no address: refused
  | [t, x], f =>
    if t = "from" then (L.parseNet (xform ue x)).map fun n => { f with src := { f.src with net := some n } }
    else if t = "to" then (L.parseNet (xform ue x)).map fun n => { f with dst := { f.dst with net := some n } }
    else loop L ue [x] f
  | t :: x :: y :: rest, f =>
    if t = "from" then
      match L.parseNet (xform ue x) with
      | none => none
      | some n =>
        let f := { f with src := { f.src with net := some n } }
        if y = "to" then loop L ue (y :: rest) f
        else match L.parsePort y with
          | none => none
          | some p => loop L ue rest { f with src := { f.src with ports := p } }
    else if t = "to" then
      match L.parseNet (xform ue x) with
      | none => none
      | some n =>
        match L.parsePort y with
        | none => none
        | some p => loop L ue rest { f with dst := { net := some n, ports := p } }
    else loop L ue (x :: y :: rest) f

def parse (L : Lex Net Port) (ue : String) (toks : List String) : Option (IPF Net Port) :=
  match toks with
  | a :: d :: p :: rest =>
    if ¬ (a = "permit" ∨ a = "deny") then none
    else if ¬ (d = "in" ∨ d = "out") then none
    else
      match loop L ue rest { action := a, dir := d, proto := p,
                             src := ⟨none, L.wild⟩, dst := ⟨none, L.wild⟩ } with
      | none => none
      | some f => if f.src.net.isSome ∧ f.dst.net.isSome then some f else none   -- repair: both clauses required
  | _ => none

/-! grammar side -/
structure EP where
  addr : String              -- "any" | "assigned" | a.b.c.d[/len]
  port : Option String       -- "n" | "lo-hi"

structure Rule where
  action : String
  dir : String
  proto : String
  src : EP
  dst : EP

def EP.render (kw : String) (e : EP) : List String :=
  kw :: e.addr :: (match e.port with | none => [] | some p => [p])

def Rule.render (r : Rule) : List String :=
  [r.action, r.dir, r.proto] ++ r.src.render "from" ++ r.dst.render "to"

end Flow
