/-!
# Model of `conf/route_control.py` — `RouteController` (C20)

State and the three netlink handlers, transcribed from the file *with the C20 repair applied*
(`fix-C20.diff`: the unresolved-ARP cache keeps every waiting route; deleting a route that is still waiting
removes it from that cache; the delete path names the Update module like the add path).

* `neigh`    = `_neighbor_cache`               : next hop ↦ (gate_idx, route_count)  — keyed by next hop alone, as in the code
* `pending`  = `_unresolved_arp_queries_cache` : the lists of all next hops flattened, arrival order kept
* `gateCnt`  = `_module_gate_count_cache`      : per interface (per `<if>Routes` module), never decremented
* `installed`, `mods` = what bessd holds after the commands the controller issued (all accepted):
  entries of the `<if>Routes` lookup tables (with the route they were added for) and the Update modules
  `<if>DstMAC<mac of nh>` with the output gate of `<if>Routes` connected to them
* `kernel`, `known` are the environment: the kernel's routes and the next hops whose MAC the neighbour
  table (NDB) has.  `RTM_NEWNEIGH` makes a MAC known and is delivered to the handler in the same step.

Definitions only; the invariant and its proof are in `Upf/Proofs/Route.lean`.
-/
namespace Route

structure R where
  pfx : Nat
  nh : Nat
  ifc : Nat
deriving DecidableEq, Repr

/-- the key of a route in bessd: which lookup module, which prefix -/
def R.key (r : R) : Nat × Nat := (r.ifc, r.pfx)

structure St where
  kernel : List R
  known : Nat → Bool
  neigh : Nat → Option (Nat × Nat)
  pending : List R
  gateCnt : Nat → Nat
  installed : List (R × Nat)
  mods : Nat → Nat → Option Nat          -- interface → next hop → gate of `<if>Routes` linked to the module

def init (known : Nat → Bool) : St :=
  { kernel := [], known := known, neigh := fun _ => none, pending := [],
    gateCnt := fun _ => 0, installed := [], mods := fun _ _ => none }

def cnt (nh : Nat) (l : List (R × Nat)) : Nat := (l.filter (fun e => e.1.nh == nh)).length

/-- `_add_neighbor`: gate from the cache entry of the next hop, else the interface's counter; the route goes
into the lookup table; a new next hop gets its Update module, the two links, a cache entry and bumps the counter -/
def addNeighbor (s : St) (r : R) : St :=
  match s.neigh r.nh with
  | some (g, c) =>
    { s with installed := (r, g) :: s.installed,
             neigh := fun x => if x = r.nh then some (g, c + 1) else s.neigh x }
  | none =>
    { s with installed := (r, s.gateCnt r.ifc) :: s.installed,
             mods := fun i x => if i = r.ifc ∧ x = r.nh then some (s.gateCnt r.ifc) else s.mods i x,
             neigh := fun x => if x = r.nh then some (s.gateCnt r.ifc, 1) else s.neigh x,
             gateCnt := fun i => if i = r.ifc then s.gateCnt r.ifc + 1 else s.gateCnt i }

/-- `add_new_route_entry`: MAC known → `_add_neighbor`; unknown → `_probe_addr` (repaired: append) -/
def newRoute (s : St) (r : R) : St :=
  let s := { s with kernel := r :: s.kernel }
  if s.known r.nh then addNeighbor s r else { s with pending := s.pending ++ [r] }

/-- `add_unresolved_new_neighbor` (repaired): every route waiting for this next hop is installed, in arrival order -/
def newNeigh (s : St) (nh : Nat) : St :=
  let s' := { s with known := fun x => if x = nh then true else s.known x,
                     pending := s.pending.filter (fun r => r.nh != nh) }
  (s.pending.filter (fun r => r.nh == nh)).foldl addNeighbor s'

/-- `delete_route_entry` (repaired): cached next hop → table entry removed, count decremented, at 0 the Update
module (named from the route's interface, like the add path) and the cache entry go; next hop not cached → the
route is dropped from the waiting list -/
def delRoute (s : St) (r : R) : St :=
  let s := { s with kernel := s.kernel.erase r }
  match s.neigh r.nh with
  | some (g, c) =>
    let inst := s.installed.filter (fun e => e.1 != r)
    if c = 1 then
      { s with installed := inst,
               mods := fun i x => if i = r.ifc ∧ x = r.nh then none else s.mods i x,
               neigh := fun x => if x = r.nh then none else s.neigh x }
    else
      { s with installed := inst, neigh := fun x => if x = r.nh then some (g, c - 1) else s.neigh x }
  | none => { s with pending := s.pending.erase r }

/-- events the kernel can deliver -/
inductive Ev | newRoute (r : R) | delRoute (r : R) | newNeigh (nh : Nat)
deriving Repr

def step (s : St) : Ev → St
  | .newRoute r => newRoute s r
  | .delRoute r => delRoute s r
  | .newNeigh nh => newNeigh s nh

def run (s : St) (evs : List Ev) : St := evs.foldl step s

/-- The envelope (the kernel's own discipline and the deployment assumption), relative to `ifOf`, the interface
on which a next hop is on-link: a new route leaves through its next hop's interface and its (interface, prefix)
slot is free; only a route the kernel has is deleted; neighbour events are unconstrained (repeats allowed). -/
def Ev.ok (ifOf : Nat → Nat) (s : St) : Ev → Prop
  | .newRoute r => r.ifc = ifOf r.nh ∧ r.key ∉ s.kernel.map R.key
  | .delRoute r => r ∈ s.kernel
  | .newNeigh _ => True

/-- a whole event sequence respects the envelope -/
def Valid (ifOf : Nat → Nat) : St → List Ev → Prop
  | _, [] => True
  | s, e :: es => e.ok ifOf s ∧ Valid ifOf (step s e) es

instance decOk (ifOf : Nat → Nat) (s : St) : (e : Ev) → Decidable (e.ok ifOf s)
  | .newRoute r => inferInstanceAs (Decidable (r.ifc = ifOf r.nh ∧ r.key ∉ s.kernel.map R.key))
  | .delRoute r => inferInstanceAs (Decidable (r ∈ s.kernel))
  | .newNeigh _ => inferInstanceAs (Decidable True)

instance decValid (ifOf : Nat → Nat) : (s : St) → (evs : List Ev) → Decidable (Valid ifOf s evs)
  | _, [] => inferInstanceAs (Decidable True)
  | s, e :: es => @instDecidableAnd _ _ (decOk ifOf s e) (decValid ifOf (step s e) es)

/-- what the kernel holds / which MACs are known after the events, computed from the events alone -/
def kernelStep (k : List R) : Ev → List R
  | .newRoute r => r :: k
  | .delRoute r => k.erase r
  | .newNeigh _ => k

def knownStep (kn : Nat → Bool) : Ev → Nat → Bool
  | .newNeigh nh => fun x => if x = nh then true else kn x
  | _ => kn

inductive Reach (ifOf : Nat → Nat) : St → Prop
  | init (known : Nat → Bool) : Reach ifOf (init known)
  | step {s e} : Reach ifOf s → e.ok ifOf s → Reach ifOf (step s e)

/-- the invariant: controller caches, bessd's module graph and kernel/neighbour facts agree -/
structure Inv (ifOf : Nat → Nat) (s : St) : Prop where
  kn   : s.kernel.Nodup
  kif  : ∀ r ∈ s.kernel, r.ifc = ifOf r.nh
  keyN : (s.kernel.map R.key).Nodup
  inst : ∀ r, r ∈ s.installed.map (·.1) ↔ (r ∈ s.kernel ∧ s.known r.nh = true)
  instN : (s.installed.map (·.1)).Nodup
  pend : ∀ r, r ∈ s.pending ↔ (r ∈ s.kernel ∧ s.known r.nh = false)
  pendN : s.pending.Nodup
  ngh  : ∀ nh, match s.neigh nh with
               | some (g, c) => c = cnt nh s.installed ∧ 1 ≤ c ∧ g < s.gateCnt (ifOf nh) ∧
                                s.mods (ifOf nh) nh = some g ∧ (∀ e ∈ s.installed, e.1.nh = nh → e.2 = g)
               | none => cnt nh s.installed = 0 ∧ s.mods (ifOf nh) nh = none
  modsIf : ∀ i nh, i ≠ ifOf nh → s.mods i nh = none
  gates : ∀ a b g h c d, s.neigh a = some (g, c) → s.neigh b = some (h, d) → a ≠ b → ifOf a = ifOf b → g ≠ h

end Route
