
namespace Route

structure R where
  pfx : Nat
  nh : Nat
deriving DecidableEq

structure St where
  kernel : List R                       -- ghost: what the kernel has
  known : Nat → Bool                    -- ghost/env: next hops whose MAC is known
  neigh : Nat → Option (Nat × Nat)      -- _neighbor_cache: nh ↦ (gate, route count)
  pending : List R                      -- _unresolved_arp_queries_cache (repaired: all waiting routes)
  gateCnt : Nat                         -- _module_gate_count_cache for the interface
  installed : List (R × Nat)            -- BESS: routes in the lookup module with their gate
  mods : Nat → Option Nat               -- BESS: MAC-rewrite module of a next hop, linked at this gate

def cnt (nh : Nat) (l : List (R × Nat)) : Nat := (l.filter (fun e => e.1.nh == nh)).length

def addNeighbor (s : St) (r : R) : St :=
  match s.neigh r.nh with
  | some (g, c) =>
    { s with installed := (r, g) :: s.installed,
             neigh := fun x => if x = r.nh then some (g, c + 1) else s.neigh x }
  | none =>
    { s with installed := (r, s.gateCnt) :: s.installed,
             mods := fun x => if x = r.nh then some s.gateCnt else s.mods x,
             neigh := fun x => if x = r.nh then some (s.gateCnt, 1) else s.neigh x,
             gateCnt := s.gateCnt + 1 }

def newRoute (s : St) (r : R) : St :=
  let s := { s with kernel := r :: s.kernel }
  if s.known r.nh then addNeighbor s r else { s with pending := r :: s.pending }

def newNeigh (s : St) (nh : Nat) : St :=
  let s' := { s with known := fun x => if x = nh then true else s.known x,
                     pending := s.pending.filter (fun r => r.nh != nh) }
  (s.pending.filter (fun r => r.nh == nh)).foldl addNeighbor s'

def delRoute (s : St) (r : R) : St :=
  let s := { s with kernel := s.kernel.erase r }
  match s.neigh r.nh with
  | some (g, c) =>
    let inst := s.installed.filter (fun e => e.1 != r)
    if c = 1 then
      { s with installed := inst, mods := fun x => if x = r.nh then none else s.mods x,
               neigh := fun x => if x = r.nh then none else s.neigh x }
    else
      { s with installed := inst, neigh := fun x => if x = r.nh then some (g, c - 1) else s.neigh x }
  | none => { s with pending := s.pending.erase r }

/-- the invariant: controller caches, BESS state and kernel/neighbour facts agree -/
structure Inv (s : St) : Prop where
  kn   : s.kernel.Nodup
  inst : ∀ r, r ∈ s.installed.map (·.1) ↔ (r ∈ s.kernel ∧ s.known r.nh = true)
  instN : (s.installed.map (·.1)).Nodup
  pend : ∀ r, r ∈ s.pending ↔ (r ∈ s.kernel ∧ s.known r.nh = false)
  pendN : s.pending.Nodup
  ngh  : ∀ nh, match s.neigh nh with
               | some (g, c) => c = cnt nh s.installed ∧ 1 ≤ c ∧ g < s.gateCnt ∧ s.mods nh = some g ∧
                                (∀ e ∈ s.installed, e.1.nh = nh → e.2 = g)
               | none => cnt nh s.installed = 0 ∧ s.mods nh = none
  gates : ∀ a b g h c d, s.neigh a = some (g, c) → s.neigh b = some (h, d) → a ≠ b → g ≠ h

end Route

namespace Route

/-- "weak" invariant used while a batch of pending routes is being installed:
    everything of Inv except the two iff's, which are re-established at the end -/
structure W (s : St) : Prop where
  instN : (s.installed.map (·.1)).Nodup
  ngh  : ∀ nh, match s.neigh nh with
               | some (g, c) => c = cnt nh s.installed ∧ 1 ≤ c ∧ g < s.gateCnt ∧ s.mods nh = some g ∧
                                (∀ e ∈ s.installed, e.1.nh = nh → e.2 = g)
               | none => cnt nh s.installed = 0 ∧ s.mods nh = none
  gates : ∀ a b g h c d, s.neigh a = some (g, c) → s.neigh b = some (h, d) → a ≠ b → g ≠ h

/-- events the kernel can deliver, with the kernel's own discipline as the envelope -/
inductive Ev | newRoute (r : R) | delRoute (r : R) | newNeigh (nh : Nat)

def Ev.ok (s : St) : Ev → Prop
  | .newRoute r => r ∉ s.kernel
  | .delRoute r => r ∈ s.kernel
  | .newNeigh _ => True

def step (s : St) : Ev → St
  | .newRoute r => newRoute s r
  | .delRoute r => delRoute s r
  | .newNeigh nh => newNeigh s nh

inductive Reach : St → Prop
  | init : Reach { kernel := [], known := fun _ => false, neigh := fun _ => none, pending := [],
                   gateCnt := 0, installed := [], mods := fun _ => none }
  | step {s e} : Reach s → e.ok s → Reach (step s e)

end Route

