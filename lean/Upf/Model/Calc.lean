
namespace Calc

abbrev U64 := BitVec 64

inductive Unit_ | bps | kbps | mbps | gbps | other
def Unit_.factor : Unit_ → Nat
  | .bps => 1 | .kbps => 1000 | .gbps => 1000000000 | _ => 1000000

/-- transcription of calculateBitRates: int64 multiply, signed `val > 0` test -/
def bitRates (mbr : U64) (u : Unit_) : U64 :=
  match u with
  | .bps => mbr
  | u =>
    let val : U64 := mbr * BitVec.ofNat 64 u.factor
    if BitVec.slt 0#64 val then val else 0x7FFFFFFFFFFFFFFF#64

end Calc

