
namespace Teid

structure G where
  offset : Nat
  used : Nat → Bool

def nextOff (M o : Nat) : Nat := (o + 1) % M

/-- scan at most `fuel` positions starting at `o`, cyclically; first unused offset -/
def scan (M : Nat) (used : Nat → Bool) : Nat → Nat → Option Nat
  | 0, _ => none
  | f+1, o => if used o then scan M used f (nextOff M o) else some o

def allocate (M : Nat) (g : G) : Option (Nat × G) :=
  match scan M g.used M g.offset with
  | none => none
  | some o => some (o + 1, { offset := nextOff M o, used := fun x => if x = o then true else g.used x })

def free (g : G) (id : Nat) : G :=
  if id < 1 then g else { g with used := fun x => if x = id - 1 then false else g.used x }

end Teid

