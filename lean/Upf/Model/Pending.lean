/-! Requests the agent originates (heartbeats, association setup towards configured peers): `pendingReqs`,
`sendPFCPRequestMessage`, `handleIncomingResponse` (messages.go, messages_conn.go), at the granularity that decides
whether the association's reader can block. -/
namespace Pending

structure St where
  pend : List (Nat × Bool) := []     -- (sequence number, the requester is still waiting on the reply channel)
  served : Bool := true              -- the association's reader is running (false after Shutdown)
  deriving DecidableEq

inductive Ev
  | originate (seq : Nat)            -- the request is stored and sent; its requester waits (with retransmissions)
  | response (seq : Nat)             -- a response-type datagram with this sequence number arrives
  | giveUp (seq : Nat)               -- all transmissions went unanswered: the requester returns, the caller shuts the association down
  deriving DecidableEq

inductive Out | ok | delivered | ignored | blocked | notServed
  deriving DecidableEq, Repr

/-- `deletes` / `shuts` are the two regenerated facts: the reader deletes the entry when it delivers; a requester
that gives up is followed by Shutdown -/
def step (deletes shuts : Bool) (s : St) : Ev → St × Out
  | .originate q => if s.served then ({ s with pend := (q, true) :: s.pend.filter (·.1 ≠ q) }, .ok) else (s, .notServed)
  | .response q =>
    if !s.served then (s, .notServed) else
    match s.pend.find? (·.1 = q) with
    | none => (s, .ignored)
    | some (_, true) =>
      -- delivered: the requester returns; the entry is deleted (or, without the delete, stays with nobody waiting)
      (if deletes then { s with pend := s.pend.filter (·.1 ≠ q) }
       else { s with pend := s.pend.map fun e => if e.1 = q then (q, false) else e }, .delivered)
    | some (_, false) => (s, .blocked)        -- send on a channel nobody receives from: the reader is stuck
  | .giveUp q =>
    if !s.served then (s, .notServed) else
    ({ pend := s.pend.map (fun e => if e.1 = q then (q, false) else e), served := !shuts }, .ok)

def Inv (s : St) : Prop := s.served = true → ∀ e ∈ s.pend, e.2 = true

end Pending
