import Upf.Proofs.AgentMarker
import Upf.Proofs.AgentMarkerMod
/-!
# C14 — End markers go to the old tunnel, once

`Agent.updFars` transcribes the Update FAR loop of the modification handler with `UpdateFAR`/`addEndMarker`
(session_far.go); `Agent.modify` emits the collected markers only when the feature is enabled and only after the
datapath update. Statements hold for every stored FAR list and every list of updates.
-/
namespace Props.C14
open Agent

/-- one marker per update that carries the flag AND names a stored FAR; each is built from the FAR as it was stored
BEFORE this message (old peer address, old TEID, the UPF address of that interface); in message order; nothing else -/
theorem markers_exact (stored ups : List Far) (hnd : (ups.map (·.farID)).Nodup) :
    (updFars stored ups).2.2 =
      ups.filterMap fun f => if f.sendEndMarker then (stored.find? (·.farID = f.farID)).map markerOf else none :=
  updFars_markers stored ups hnd

/-- no flag, no marker -/
theorem markers_none_without_flag (stored ups : List Far) (hnd : (ups.map (·.farID)).Nodup)
    (h : ∀ f ∈ ups, f.sendEndMarker = false) : (updFars stored ups).2.2 = [] := by
  rw [updFars_markers stored ups hnd]
  apply List.filterMap_eq_nil_iff.mpr
  intro f hf; simp [h f hf]

/-- unknown FAR IDs, no marker -/
theorem markers_none_for_unknown (stored ups : List Far) (hnd : (ups.map (·.farID)).Nodup)
    (h : ∀ f ∈ ups, stored.find? (·.farID = f.farID) = none) : (updFars stored ups).2.2 = [] := by
  rw [updFars_markers stored ups hnd]
  apply List.filterMap_eq_nil_iff.mpr
  intro f hf; simp [h f hf]

/-- the marker's addressing is the stored (old) tunnel: destination = old peer, TEID = old TEID, source = old UPF-side address -/
theorem marker_fields (f : Far) : (markerOf f).dst = f.tunnelIP4Dst ∧ (markerOf f).teid = f.tunnelTEID ∧ (markerOf f).src = f.tunnelIP4Src :=
  ⟨rfl, rfl, rfl⟩

/-- the flag is bit 2 (SNDEM) of PFCPSMReq-Flags inside the (Update) Forwarding Parameters; creations never emit
(the creation path does not go through `updFars`), and the GTP-U port the code uses is 2152 -/
theorem flag_and_port (cfg : Cfg) (f : Far) (w : FwdIE) :
    ((applyFwd cfg f w).sendEndMarker = true ↔ (f.sendEndMarker = true ∨ ∃ fl, w.smreq = some fl ∧ has2ndBit fl = true)) ∧
    Gen.Consts.tunnelGTPUPort = 2152 := by
  refine ⟨?_, by decide⟩
  unfold applyFwd
  cases w.ohc <;> cases w.dst <;> cases hs : w.smreq <;> simp only [hs] <;> repeat' split
  all_goals simp_all

/-! ### at the level of the handler (`Agent.modify` = handleSessionModificationRequest) -/

/-- what a Session Modification emits: with the feature enabled exactly the markers its Update FAR loop collected over the session's
FARs (stored before this message, plus those the message creates) — they are emitted once the create / update part has been programmed,
whether or not a later Remove step refuses the request; with the feature disabled, none -/
theorem modification_emits_exactly (cfg : Cfg) (w : World) (a : Nat) (r : ModReq) (s0 : Session)
    (h : (w.conn a).sessions.find? (·.lseid = r.seid) = some s0)
    (cp up : List Pdr) (pool1 pool2 : Option Pool.P) (cf uf : List Far)
    (hcp : parsePdrs r.seid (fseidIPOf r) (w.conn a).apps r.createPdrs w.pool = .ok (cp, pool1))
    (hcf : mapFars cfg r.seid (fseidIPOf r) false r.createFars = .ok cf)
    (hup : parsePdrs r.seid (fseidIPOf r) (w.conn a).apps r.updatePdrs pool1 = .ok (up, pool2))
    (huf : mapFars cfg r.seid (fseidIPOf r) true r.updateFars = .ok uf) :
    (modify cfg w a r).markers = if cfg.endMarker then (updFars (s0.fars ++ cf) uf).2.2 else [] :=
  modify_markers cfg w a r s0 h cp up pool1 pool2 cf uf hcp hcf hup huf

/-- a modification that fails before anything is programmed emits none: unknown session, a Create PDR that does not parse,
an Update FAR that does not parse -/
theorem failed_modification_emits_none (cfg : Cfg) (w : World) (a : Nat) (r : ModReq) :
    ((w.conn a).sessions.find? (·.lseid = r.seid) = none → (modify cfg w a r).markers = []) ∧
    (∀ e, parsePdrs r.seid (fseidIPOf r) (w.conn a).apps r.createPdrs w.pool = .error e → (modify cfg w a r).markers = []) ∧
    (∀ e, mapFars cfg r.seid (fseidIPOf r) true r.updateFars = .error e → (modify cfg w a r).markers = []) :=
  ⟨modify_no_marker_unknown_session cfg w a r, fun e => modify_no_marker_bad_create_pdr cfg w a r e,
   fun e => modify_no_marker_bad_update_far cfg w a r e⟩

-- non-vacuity: an established session whose downlink FAR forwards to gNB 0xC6120109 / TEID 7; a handover (Update FAR with the flag, new
-- gNB 0xC612010A / TEID 8) emits one marker to the OLD tunnel, sourced from the access address
def nvCfg : Cfg := { accessIP := 0xC6120101, coreIP := 0x7F000001, ueAlloc := false, endMarker := true, qci := [] }
def nvW : World := (establish nvCfg { conns := [(0, { remoteNode := "smf" })] } 0 77
  { nodeID := "smf", cpSeid := 5001, cpIP := 1,
    pdrs := [{ id := 1, prec := 1, srcIface := some 1, ueip := some (2, 0x0A3C0001), farID := 1 }],
    fars := [{ id := 1, action := 2, fwd := some { dst := some 0, ohc := some (7, 0xC6120109) } }], qers := [] }).1
example : (modify nvCfg nvW 0 { seid := 77, updateFars := [{ id := 1, action := 2, fwd := some { dst := some 0, ohc := some (8, 0xC612010A), smreq := some 2 } }] }).markers
    = [⟨0xC6120101, 0xC6120109, 7⟩] := by decide +kernel

-- non-vacuity: two flagged updates, one of an unknown FAR
example : (updFars [{ farID := 2, tunnelIP4Dst := 10, tunnelTEID := 7 }]
    [{ farID := 2, sendEndMarker := true, tunnelIP4Dst := 11 }, { farID := 9, sendEndMarker := true }]).2.2 = [⟨0, 10, 7⟩] := by decide

end Props.C14
