import Upf.Proofs.AgentMarker
/-!
# C14 — End markers go to the old tunnel, once

`Agent.updFars` transcribes the Update FAR loop of the modification handler with `UpdateFAR`/`addEndMarker`
(session_far.go); `Agent.modify` emits the collected markers only when the feature is enabled and only after the
datapath update. Statements hold for every stored FAR list and every list of updates.
-/
namespace Props.C14
open Agent

/-- one marker per update that carries the flag AND names a stored FAR; each is built from the FAR as it was stored
BEFORE this message (old peer address, old TEID, the UPF address of that interface); in message order; nothing else -/
theorem markers_exact (stored ups : List Far) (hnd : (ups.map (·.farID)).Nodup) :
    (updFars stored ups).2.2 =
      ups.filterMap fun f => if f.sendEndMarker then (stored.find? (·.farID = f.farID)).map markerOf else none :=
  updFars_markers stored ups hnd

/-- no flag, no marker -/
theorem markers_none_without_flag (stored ups : List Far) (hnd : (ups.map (·.farID)).Nodup)
    (h : ∀ f ∈ ups, f.sendEndMarker = false) : (updFars stored ups).2.2 = [] := by
  rw [updFars_markers stored ups hnd]
  apply List.filterMap_eq_nil_iff.mpr
  intro f hf; simp [h f hf]

/-- unknown FAR IDs, no marker -/
theorem markers_none_for_unknown (stored ups : List Far) (hnd : (ups.map (·.farID)).Nodup)
    (h : ∀ f ∈ ups, stored.find? (·.farID = f.farID) = none) : (updFars stored ups).2.2 = [] := by
  rw [updFars_markers stored ups hnd]
  apply List.filterMap_eq_nil_iff.mpr
  intro f hf; simp [h f hf]

/-- the marker's addressing is the stored (old) tunnel: destination = old peer, TEID = old TEID, source = old UPF-side address -/
theorem marker_fields (f : Far) : (markerOf f).dst = f.tunnelIP4Dst ∧ (markerOf f).teid = f.tunnelTEID ∧ (markerOf f).src = f.tunnelIP4Src :=
  ⟨rfl, rfl, rfl⟩

/-- the flag is bit 2 (SNDEM) of PFCPSMReq-Flags inside the (Update) Forwarding Parameters; creations never emit
(the creation path does not go through `updFars`), and the GTP-U port the code uses is 2152 -/
theorem flag_and_port (cfg : Cfg) (f : Far) (w : FwdIE) :
    ((applyFwd cfg f w).sendEndMarker = true ↔ (f.sendEndMarker = true ∨ ∃ fl, w.smreq = some fl ∧ has2ndBit fl = true)) ∧
    Gen.Consts.tunnelGTPUPort = 2152 := by
  refine ⟨?_, by decide⟩
  unfold applyFwd
  cases w.ohc <;> cases w.dst <;> cases hs : w.smreq <;> simp only [hs] <;> repeat' split
  all_goals simp_all

-- non-vacuity: two flagged updates, one of an unknown FAR
example : (updFars [{ farID := 2, tunnelIP4Dst := 10, tunnelTEID := 7 }]
    [{ farID := 2, sendEndMarker := true, tunnelIP4Dst := 11 }, { farID := 9, sendEndMarker := true }]).2.2 = [⟨0, 10, 7⟩] := by decide

end Props.C14
