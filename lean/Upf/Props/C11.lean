import Upf.Proofs.Lockset
import Upf.Proofs.Tab
import Upf.Model.LockFacts
import Upf.Proofs.Local
import Upf.Proofs.AnyHistory
/-!
# C11 — concurrent associations do not interfere

What a theorem can carry here (DESIGN.md, "runtime behaviour the model cannot exhibit"): the Go scheduler and memory
model are not modelled; the logic is.

* `Gen.Locks` is regenerated from the source on every run: per mutex-carrying type, which methods start with
  `Lock(); defer Unlock()`, which fields each method touches, which methods it calls, which functions outside the type
  touch its fields. The facts below are evaluated on it (`decide`): the state every association shares is only reached
  with a lock of its object held.
* `Lockset.race_free`: in a program obeying such a discipline (an access is only issued by a thread holding the guard
  of the location) no two threads are ever inside accesses guarded by the same mutex — no data race, for every schedule
  of any length and any number of threads.
* With `UP4.SendMsgToUPF` holding one mutex for the whole request, a concurrent execution of the UP4 plug-in IS a
  one-at-a-time ordering of the requests: C04 / C15 / C16, which are proved / checked for every request sequence, apply.
* On BESS the associations' requests program disjoint keys; `Tab.interleave_eq_seq`: every interleaving of two command
  streams on disjoint keys ends in the same tables as one stream after the other.

The implementation side is decided by the correspondence run: streams from 2–8 associations at the same time against the
agent built with the race detector, on both datapaths.
-/
namespace C11
open Gen.Locks

/-- UP4: the bookkeeping shared by all associations -/
def up4Shared : List String :=
  ["counters", "meters", "appMeterCellIDsPool", "sessMeterCellIDsPool", "ueAddrToFSEID", "fseidToUEAddr",
   "tunnelPeerIDs", "tunnelPeerIDsPool", "applicationIDs", "applicationIDsPool"]

/-- **T1 fact**: apart from the constructor `SetUpfInfo` (which runs before the plug-in is handed to any other goroutine),
no path from an entry point of `UP4` reaches a method touching the shared bookkeeping without passing through a method
that takes a lock; in particular `SendMsgToUPF` — the entry every association's goroutine uses — takes it first. -/
theorem up4_shared_state_guarded :
    (UP4.exposed ["SetUpfInfo"]).filter up4Shared.contains = [] ∧
    (UP4.methods.find? (·.name == "SendMsgToUPF")).map (·.locked) = some true ∧
    UP4.external = [] ∧ UP4.mutexes.contains "mu" = true := by decide

/-- the fields named above exist (the fact is about something): each is touched by some method -/
theorem up4_shared_fields_exist : up4Shared.all (fun f => UP4.methods.any fun m => m.fields.contains f) = true := by decide

/-- the other objects all associations share: UE address pool and TEID generator are atomic objects -/
theorem pools_atomic : IPPool.atomic = true ∧ FTEIDGenerator.atomic = true := by decide

/-- lock discipline ⇒ no data race, for every schedule -/
theorem no_race_under_discipline (guard : Lockset.Loc → Lockset.Lock) (acts : List Lockset.Act) (s s' : Lockset.St)
    (h0 : Lockset.Inv guard s) (hr : Lockset.run guard s acts = some s') (t u : Lockset.Tid) (x y : Lockset.Loc)
    (htu : t ≠ u) (hx : s'.inside t = some x) (hy : s'.inside u = some y) : guard x ≠ guard y :=
  Lockset.race_free guard acts s s' h0 hr t u x y htu hx hy

/-- in particular never inside the same location -/
theorem never_same_location (guard : Lockset.Loc → Lockset.Lock) (acts : List Lockset.Act) (s s' : Lockset.St)
    (h0 : Lockset.Inv guard s) (hr : Lockset.run guard s acts = some s') (t u : Lockset.Tid) (x : Lockset.Loc)
    (htu : t ≠ u) (hx : s'.inside t = some x) : s'.inside u ≠ some x := by
  intro hy
  exact Lockset.race_free guard acts s s' h0 hr t u x x htu hx hy rfl

/-- BESS: the tables after any interleaving of two associations' command streams on disjoint keys are those of the
sequential composition — the outcome is that of a one-at-a-time ordering -/
theorem interleaving_is_serial {K V : Type} [DecidableEq K] (xs ys zs : List (Tab.Cmd K V)) (hi : Tab.Interleave xs ys zs)
    (hd : ∀ a ∈ xs, ∀ b ∈ ys, a.key ≠ b.key) (t : Tab.T K V) : Tab.run t zs = Tab.run (Tab.run t xs) ys :=
  Tab.interleave_eq_seq xs ys zs hi hd t

-- the discipline is satisfiable and the conclusion not vacuous: a two-thread schedule in which both threads get inside
example : ∃ s', Lockset.run (fun _ => 0) { owner := fun _ => none, inside := fun _ => none }
    [.acquire 1 0, .enter 1 7, .leave 1, .release 1 0, .acquire 2 0, .enter 2 7] = some s' ∧ s'.inside 2 = some 7 := by
  refine ⟨_, rfl, rfl⟩
-- and an access without the guard is not a step of a disciplined program
example : Lockset.run (fun _ => 0) { owner := fun _ => none, inside := fun _ => none } [.acquire 1 0, .enter 2 7] = none := rfl

/-! ### at the level of the agent's handlers (BESS agent model): the store of another association is never touched -/

/-- whatever association `a` sends — a Session Establishment, Modification or Deletion (accepted or refused at any point), a report
answered "context not found" — and however `a` ends (release, timeout, heartbeat failure, stop), the record the agent holds for any
OTHER association `a'` (its node ID, PFD table and every stored session with all rules) is exactly what it was -/
theorem other_associations_store_untouched (cfg : Agent.Cfg) (w : Agent.World) (a a' : Nat) (h : a' ≠ a) :
    (∀ lseid r, (Agent.establish cfg w a lseid r).1.conn a' = w.conn a') ∧
    (∀ r, (Agent.modify cfg w a r).world.conn a' = w.conn a') ∧
    (∀ seid, (Agent.deleteSession cfg w a seid).1.conn a' = w.conn a') ∧
    (∀ seid, (Agent.reportContextNotFound cfg w a seid).conn a' = w.conn a') ∧
    (Agent.shutdownConn cfg w a).conn a' = w.conn a' :=
  ⟨fun l r => Agent.establish_local cfg w a a' l r h, fun r => Agent.modify_local cfg w a a' r h,
   fun s => Agent.delete_local cfg w a a' s h, fun s => Agent.report_local cfg w a a' s h, Agent.shutdown_local cfg w a a' h⟩

/-- lifted to histories: whatever the OTHER associations send, in any number and order (establishments, modifications with any mix
of IEs, deletions, PFD updates, reports, their own setup and ending — each accepted or refused), the record of association `a'` is
what it was. Serial histories only: that concurrent handlers behave like some serial order is what the lock facts and the
race-detector runs are for. -/
theorem foreign_requests_never_touch_an_association (cfg : Agent.Cfg) (a' : Nat) (qs : List Agent.Req) (w : Agent.World)
    (h : ∀ q ∈ qs, a' ≠ q.by) : (qs.foldl (Agent.stepReq cfg) w).conn a' = w.conn a' :=
  Agent.foreign_history_keeps_record cfg a' qs w h

end C11
