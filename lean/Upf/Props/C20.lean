import Upf.Proofs.Route
/-!
# C20 — BESS route modules mirror the kernel's routes and neighbours

`Route` (`Upf/Model/Route.lean`) transcribes the three netlink handlers of `conf/route_control.py`
(`add_new_route_entry`/`_add_neighbor`, `delete_route_entry`, `add_unresolved_new_neighbor`) with the C20 repair
applied, together with what bessd holds after the commands they issue.  All theorems are for **every** event
sequence `evs` that respects the envelope `Valid ifOf` (each next hop is on-link on one interface `ifOf nh`; the
kernel holds at most one route per (interface, prefix), adds only routes it does not have, deletes only routes it
has; RTM_NEWNEIGH may come at any time, repeatedly), from **every** initial neighbour table `known0`, with any
number of prefixes, next hops and interfaces.
-/
namespace Props.C20
open Route

variable (ifOf : Nat → Nat) (known0 : Nat → Bool) (evs : List Ev)

/-- the state the controller, bessd and the kernel are in after `evs` -/
abbrev after : St := run (init known0) evs

/-- refinement: after every event sequence the eleven-clause invariant `Route.Inv` relates the controller's
caches, bessd's module graph and the kernel's routes / known MACs -/
theorem route_refines (hv : Valid ifOf (init known0) evs) : Inv ifOf (after known0 evs) :=
  run_inv evs (init known0) (inv_init known0) hv

/-- the two environment components of the state are exactly what the events say: the kernel's routes are the
added minus the deleted ones, the known MACs are the initial ones plus every RTM_NEWNEIGH so far -/
theorem env_exact :
    (after known0 evs).kernel = evs.foldl kernelStep [] ∧
    (after known0 evs).known = evs.foldl knownStep known0 := by
  have := run_env evs (init known0)
  exact this

/-- a route is in its interface's lookup table iff the kernel has it and its next hop's MAC is known -/
theorem installed_iff (hv : Valid ifOf (init known0) evs) (r : R) :
    (∃ g, (r, g) ∈ (after known0 evs).installed) ↔
      (r ∈ (after known0 evs).kernel ∧ (after known0 evs).known r.nh = true) := by
  rw [← (route_refines ifOf known0 evs hv).inst r]
  simp only [List.mem_map]
  constructor
  · rintro ⟨g, hg⟩; exact ⟨(r, g), hg, rfl⟩
  · rintro ⟨e, he, rfl⟩; exact ⟨e.2, he⟩

/-- no lookup table holds two entries for one prefix: `delete prefix` removes exactly the route it was issued
for, `add` never replaces another route's entry (so the route-indexed `installed` list *is* bessd's table) -/
theorem table_keys_unique (hv : Valid ifOf (init known0) evs) (e e' : R × Nat)
    (he : e ∈ (after known0 evs).installed) (he' : e' ∈ (after known0 evs).installed)
    (hk : e.1.ifc = e'.1.ifc ∧ e.1.pfx = e'.1.pfx) : e = e' := by
  have hi := route_refines ifOf known0 evs hv
  have h1 : e.1 = e'.1 := Route.table_keys_unique _ hi e e' he he' (by simp [R.key, hk.1, hk.2])
  have hn := hi.instN
  -- equal routes in a list whose routes are pairwise distinct: equal entries
  have : ∀ (l : List (R × Nat)), (l.map (·.1)).Nodup → e ∈ l → e' ∈ l → e = e' := by
    intro l
    induction l with
    | nil => intro _ h; cases h
    | cons x xs ih =>
      intro hnd ha hb
      simp only [List.map_cons, List.nodup_cons] at hnd
      rcases List.mem_cons.mp ha with rfl | ha' <;> rcases List.mem_cons.mp hb with rfl | hb'
      · rfl
      · exact absurd (List.mem_map.mpr ⟨e', hb', h1.symm⟩) hnd.1
      · exact absurd (List.mem_map.mpr ⟨e, ha', h1⟩) hnd.1
      · exact ih hnd.2 ha' hb'
  exact this _ hn he he'

/-- the routes still waiting are exactly the kernel's routes whose next hop is unresolved — in particular a route
deleted while waiting is gone from the waiting list, and several routes can wait for one next hop -/
theorem waiting_iff (hv : Valid ifOf (init known0) evs) (r : R) :
    r ∈ (after known0 evs).pending ↔
      (r ∈ (after known0 evs).kernel ∧ (after known0 evs).known r.nh = false) :=
  (route_refines ifOf known0 evs hv).pend r

/-- RTM_NEWNEIGH for `nh` installs *every* kernel route through `nh` (all that were waiting, not just one), and
installs nothing the kernel does not have -/
theorem newneigh_installs_all (hv : Valid ifOf (init known0) evs) (nh : Nat) (r : R) (hr : r.nh = nh) :
    (∃ g, (r, g) ∈ (after known0 (evs ++ [Ev.newNeigh nh])).installed) ↔ r ∈ (after known0 evs).kernel := by
  have hv' : Valid ifOf (init known0) (evs ++ [Ev.newNeigh nh]) := valid_append evs _ _ hv ⟨trivial, trivial⟩
  rw [installed_iff ifOf known0 _ hv' r]
  have e1 := (env_exact known0 (evs ++ [Ev.newNeigh nh]))
  have e0 := (env_exact known0 evs)
  rw [e1.1, e1.2, e0.1]
  simp only [List.foldl_append, List.foldl_cons, List.foldl_nil, kernelStep, knownStep, hr, if_true, and_true]

/-- all routes through one next hop share one output gate, and that gate is the one connected to the single
Update module of that next hop on the route's interface -/
theorem shared_gate (hv : Valid ifOf (init known0) evs) (e : R × Nat) (he : e ∈ (after known0 evs).installed) :
    (after known0 evs).mods e.1.ifc e.1.nh = some e.2 ∧ e.1.ifc = ifOf e.1.nh :=
  ⟨Route.shared_gate _ (route_refines ifOf known0 evs hv) e he,
   Route.installed_if _ (route_refines ifOf known0 evs hv) e he⟩

theorem same_nexthop_same_gate (hv : Valid ifOf (init known0) evs) (e e' : R × Nat)
    (he : e ∈ (after known0 evs).installed) (he' : e' ∈ (after known0 evs).installed) (hn : e.1.nh = e'.1.nh) :
    e.2 = e'.2 ∧ e.1.ifc = e'.1.ifc := by
  obtain ⟨h1, h2⟩ := shared_gate ifOf known0 evs hv e he
  obtain ⟨h1', h2'⟩ := shared_gate ifOf known0 evs hv e' he'
  have hi : e.1.ifc = e'.1.ifc := by rw [h2, h2', hn]
  rw [hi, hn, h1'] at h1
  exact ⟨(Option.some.inj h1).symm, hi⟩

/-- the Update module of a next hop exists iff at least one installed route uses it -/
theorem module_iff_used (hv : Valid ifOf (init known0) evs) (i nh : Nat) :
    ((after known0 evs).mods i nh).isSome ↔ ∃ e ∈ (after known0 evs).installed, e.1.ifc = i ∧ e.1.nh = nh :=
  Route.module_iff_used _ (route_refines ifOf known0 evs hv) i nh

/-- two live next hops of one lookup module never share a gate -/
theorem gates_distinct (hv : Valid ifOf (init known0) evs) (i a b g g' : Nat)
    (ha : (after known0 evs).mods i a = some g) (hb : (after known0 evs).mods i b = some g') (hab : a ≠ b) :
    g ≠ g' :=
  Route.gates_distinct _ (route_refines ifOf known0 evs hv) i a b g g' ha hb hab

/-- the neighbour cache's reference count of a next hop is the number of installed routes through it; an entry
exists iff that number is positive (the entry and the module go when the last route goes) -/
theorem refcount_exact (hv : Valid ifOf (init known0) evs) (nh : Nat) :
    match (after known0 evs).neigh nh with
    | some (_, c) => c = cnt nh (after known0 evs).installed ∧ 1 ≤ c
    | none => cnt nh (after known0 evs).installed = 0 := by
  have := (route_refines ifOf known0 evs hv).ngh nh
  cases hn : (after known0 evs).neigh nh with
  | none => rw [hn] at this; exact this.1
  | some gc => obtain ⟨g, c⟩ := gc; rw [hn] at this; exact ⟨this.1, this.2.1⟩

/-! ### non-vacuity: the envelope is satisfiable by the sequences on which the unrepaired file failed, and the
model does the right thing on them (next hops 0, 1 on interface 0, next hop 2 on interface 1) -/

def ifOf₀ : Nat → Nat := fun h => if h = 2 then 1 else 0
def unknown : Nat → Bool := fun _ => false

-- two routes wait for one next hop; both are installed at one gate when it resolves
example : Valid ifOf₀ (init unknown) [.newRoute ⟨0, 0, 0⟩, .newRoute ⟨1, 0, 0⟩, .newNeigh 0] := by decide
example : (after unknown [.newRoute ⟨0, 0, 0⟩, .newRoute ⟨1, 0, 0⟩, .newNeigh 0]).installed
    = [(⟨1, 0, 0⟩, 0), (⟨0, 0, 0⟩, 0)] := by decide
-- a route deleted while waiting is not installed later
example : Valid ifOf₀ (init unknown) [.newRoute ⟨0, 0, 0⟩, .delRoute ⟨0, 0, 0⟩, .newNeigh 0] := by decide
example : (after unknown [.newRoute ⟨0, 0, 0⟩, .delRoute ⟨0, 0, 0⟩, .newNeigh 0]).installed = [] := by decide
-- the last route of a next hop goes: module and cache entry go, the gate is not reused
example : Valid ifOf₀ (init unknown)
    [.newNeigh 0, .newRoute ⟨0, 0, 0⟩, .delRoute ⟨0, 0, 0⟩, .newRoute ⟨1, 1, 0⟩, .newNeigh 1, .newRoute ⟨0, 2, 1⟩, .newNeigh 2] := by
  decide
example :
    let s := after unknown
      [.newNeigh 0, .newRoute ⟨0, 0, 0⟩, .delRoute ⟨0, 0, 0⟩, .newRoute ⟨1, 1, 0⟩, .newNeigh 1, .newRoute ⟨0, 2, 1⟩, .newNeigh 2]
    s.mods 0 0 = none ∧ s.neigh 0 = none ∧ s.mods 0 1 = some 1 ∧ s.mods 1 2 = some 0 ∧
    s.installed = [(⟨0, 2, 1⟩, 0), (⟨1, 1, 0⟩, 1)] := by decide
-- outside the envelope: a second route for an occupied (interface, prefix) slot, a route through the wrong interface
example : ¬ Valid ifOf₀ (init unknown) [.newRoute ⟨0, 0, 0⟩, .newRoute ⟨0, 1, 0⟩] := by decide
example : ¬ Valid ifOf₀ (init unknown) [.newRoute ⟨0, 2, 0⟩] := by decide

end Props.C20
