import Upf.Proofs.Calc
import Upf.Gen.Leaf
import Upf.Model.Rest
/-!
# C19 — The slice-configuration REST endpoint programs what was posted, or nothing

`Gen.Leaf.calculateBitRates` is regenerated from web_service.go on every run; the conversion theorem is
stated about that generated definition directly (no hand model in between). `Rest.serve` transcribes the
decision structure of `ConfigHandler.ServeHTTP`, with the response actions as a list.
-/
namespace Props.C19

/-- the stated unit: bps 1, Kbps 10^3, Gbps 10^9, Mbps and anything else (unstated) 10^6 — literals of the property -/
def unitOf (u : String) : Nat :=
  if u = "bps" then 1 else if u = "Kbps" then 1000 else if u = "Gbps" then 1000000000 else 1000000

theorem key (mbr : BitVec 64) (k : Nat) (hm : 0 < mbr.toNat) (hk0 : 0 < k) (hk : k < 2^64) (hf : mbr.toNat * k < 2^63) :
    (if BitVec.slt 0#64 (mbr * BitVec.ofNat 64 k) = true then mbr * BitVec.ofNat 64 k else 9223372036854775807#64).toNat
      = mbr.toNat * k := by
  have e := Calc.mul_fit mbr k hk hf
  have hp : 0 < mbr.toNat * k := Nat.mul_pos hm hk0
  have hs : BitVec.slt 0#64 (mbr * BitVec.ofNat 64 k) = true :=
    Calc.slt_pos _ (by rw [e]; exact hp) (by rw [e]; exact hf)
  simp only [hs, if_true, e]

/-- for every 64-bit rate and every unit string: a non-zero rate whose converted value fits in 63 bits is converted exactly -/
theorem calc_exact (mbr : BitVec 64) (u : String) (h0 : mbr ≠ 0#64)
    (hfit : mbr.toNat * unitOf u < 2^63) :
    (Gen.Leaf.calculateBitRates mbr u).toNat = mbr.toNat * unitOf u := by
  have hm : 0 < mbr.toNat := by
    rcases Nat.eq_zero_or_pos mbr.toNat with h | h
    · exact absurd (BitVec.eq_of_toNat_eq (by simpa using h)) h0
    · exact h
  unfold Gen.Leaf.calculateBitRates unitOf at *
  by_cases h1 : u = "bps"
  · simp [h1]
  · by_cases h2 : u = "Kbps"
    · simp only [h1, h2, beq_iff_eq, if_false, if_true] at hfit ⊢
      simpa using key mbr 1000 hm (by decide) (by decide) (by simpa using hfit)
    · by_cases h3 : u = "Gbps"
      · simp only [h1, h2, h3, beq_iff_eq, if_false, if_true] at hfit ⊢
        simpa using key mbr 1000000000 hm (by decide) (by decide) (by simpa using hfit)
      · by_cases h4 : u = "Mbps"
        · simp only [h1, h2, h3, h4, beq_iff_eq, if_false, if_true] at hfit ⊢
          simpa using key mbr 1000000 hm (by decide) (by decide) (by simpa using hfit)
        · simp only [h1, h2, h3, h4, beq_iff_eq, if_false] at hfit ⊢
          simpa using key mbr 1000000 hm (by decide) (by decide) (by simpa using hfit)

/-- T1: the unit constants of the code are the documented powers of ten -/
theorem units_match : Gen.Consts.KB = 1000 ∧ Gen.Consts.MB = 1000000 ∧ Gen.Consts.GB = 1000000000 := by decide

/-- T1 tie: the hand transcription used by the trace acceptor equals the regenerated function, for all inputs -/
theorem calc_model_eq (mbr : BitVec 64) (u : String) :
    Gen.Leaf.calculateBitRates mbr u = Calc.bitRates mbr (Rest.unitOfString u) := by
  unfold Gen.Leaf.calculateBitRates Rest.unitOfString Calc.bitRates
  by_cases h1 : u = "bps"
  · simp [h1]
  · by_cases h2 : u = "Kbps"
    · simp [h1, h2, Calc.Unit_.factor] <;> rfl
    · by_cases h3 : u = "Gbps"
      · simp [h1, h2, h3, Calc.Unit_.factor] <;> rfl
      · by_cases h4 : u = "Mbps"
        · simp [h1, h2, h3, h4, Calc.Unit_.factor] <;> rfl
        · simp [h1, h2, h3, h4, Calc.Unit_.factor] <;> rfl

open Rest

/-- PUT/POST with a decodable body: exactly one response, 201, and the document is programmed -/
theorem ok_programs (m : String) (d : Doc) (hm : m = "PUT" ∨ m = "POST") :
    serve m (.ok d) = { responses := [201], programmed := some d } := by
  rcases hm with h | h <;> simp [serve, h]

/-- unreadable or malformed body: a single 400 and nothing is programmed -/
theorem bad_body (m : String) (hm : m = "PUT" ∨ m = "POST") (b : Body) (hb : b = .unreadable ∨ b = .malformed) :
    serve m b = { responses := [400], programmed := none } := by
  rcases hm with h | h <;> rcases hb with hb | hb <;> simp [serve, h, hb]

/-- any other method: a single 405 and nothing is programmed -/
theorem other_method (m : String) (b : Body) (hm : ¬ (m = "PUT" ∨ m = "POST")) :
    serve m b = { responses := [405], programmed := none } := by
  have h1 : m ≠ "PUT" := fun h => hm (Or.inl h)
  have h2 : m ≠ "POST" := fun h => hm (Or.inr h)
  simp [serve, h1, h2]

-- non-vacuity
example : (Gen.Leaf.calculateBitRates 5#64 "Kbps").toNat = 5000 ∧ 5 * unitOf "Kbps" < 2^63 := by decide
example : (Gen.Leaf.calculateBitRates 9223372036854775807#64 "Kbps") = 9223372036854775807#64 := by decide

end Props.C19
