import Upf.Proofs.LifeDel
import Upf.Gen.Life
import Upf.Gen.Consts
/-!
# C10 — Associations end cleanly and the agent always stops

`Life` is an interleaving transition system: a node process and, per association, any number of goroutines that may call
`Shutdown` (release request, read timeout, heartbeat failure, cancelled context), with Shutdown's body at
channel-operation granularity (close `shutdown`, cancel heartbeat, delete sessions one by one, send on `pConnDone`,
close the socket), the node's receive / close-listener / close-channel / exit steps, and the two ways Go panics here
(close of a closed channel, send on a closed channel). It is parameterised by two structural facts that are REGENERATED
from conn.go / node.go on every run. Statements hold for any number of associations and every interleaving.
-/
namespace Props.C10
open Life

/-- T1: the facts as extracted from the current sources -/
def facts : Facts := { guarded := Gen.Life.shutdownGuarded, waits := Gen.Life.nodeWaits }

theorem facts_hold : facts.guarded = true ∧ facts.waits = true := by decide

/-- no interleaving of triggers, Shutdown steps and node steps — for any number of associations — panics
(no double close, no send on a closed channel) -/
theorem no_panic (acts : List Act) (s' : St) (h : run facts init acts = some s') : s'.panicked = false :=
  Life.safe facts facts_hold.1 facts_hold.2 acts init s' inv_init h

/-- the sessions of an existing association are handed to the datapath for deletion without loss or repetition:
at every step, what was deleted plus what is still to delete stays the same list -/
theorem deleted_once (s s' : St) (act : Act) (a : Nat) (hs : step facts s act = some s')
    (hex : (s.conns a).exists_ = true) :
    (s'.conns a).deleted ++ (s'.conns a).sessions = (s.conns a).deleted ++ (s.conns a).sessions :=
  ledger_const facts s s' act a hs hex

/-- without the once-guard the two-trigger schedule panics: the guard is what the theorem rests on -/
theorem unguarded_panics :
    (run { guarded := false, waits := true } init
      [.newConn 0 [], .trigger 0, .trigger 0, .sd 0 0, .sd 0 1]).map (·.panicked) = some true := by
  simp [run, step, init, upd]

/-- the completion channel's capacity the model assumes is the code's -/
theorem done_capacity : Gen.Consts.pConnDoneCap = 100 := by decide

end Props.C10
