import Upf.Model.P4Valid
import Upf.Proofs.Up4Basic
/-!
# C16 — every P4Runtime write is valid for the shipped pipeline

`Up4.validEntry Gen.P4Info.info e` says what the property says: the table exists, every match field belongs to it with
the declared kind and a value inside the declared width, the action is one of the table's (non default-only) action
references and carries exactly its declared parameters with values inside their widths, and a table with ternary, range
or optional fields gets a non-zero priority. `Gen.P4Info` is regenerated from conf/p4/bin/p4info.txt and `Gen.P4Constants`
from the compiled package internal/p4constants on every run; the builders are the model of p4rt_translator.go
(`Upf/Model/Up4.lean`), which looks every field and parameter up BY NAME in that P4Info as the Go code does.

The theorems hold for ALL inputs inside the widths of the Go types the values come from (uint8 / uint16 / uint32) and the
configuration bounds the property names (slice ≤ 15, TC ≤ 3, QFI < 64).
-/
namespace C16
open Up4 P4 Agent

local macro "p4simp" : tactic =>
  `(tactic| simp [validEntry, Up4.info, fmOK, needsPriority, nodupNat, sameSet])

/-- `BuildGTPTunnelPeerTableEntry` -/
theorem peer_valid (id : Nat) (t : TP) (h1 : id < 256) (hs : t.src < 2^32) (hd : t.dst < 2^32) (hp : t.port < 2^16) :
    ∃ e, buildPeer id t = some e ∧ validEntry Up4.info e = true := by
  refine ⟨_, rfl, ?_⟩
  p4simp; omega

/-- `BuildInterfaceTableEntry` (both the N3 address and the UE pool entry) -/
theorem interface_valid (ip plen slice : Nat) (isCore : Bool) (hi : ip < 2^32) (hl : plen ≤ 32) (hs : slice < 16) :
    ∃ e, buildInterface ip plen slice isCore = some e ∧ validEntry Up4.info e = true := by
  refine ⟨_, rfl, ?_⟩
  cases isCore <;> (p4simp; simp [Sdf.core, Sdf.access, Gen.Consts.DirectionDownlink, Gen.Consts.DirectionUplink]; omega)

/-- `buildUplinkSessionsEntry` -/
theorem sessions_uplink_valid (p : Pdr) (m : Meter) (peer : Nat) (buf : Bool) (ha : p.srcIface = Sdf.access)
    (h1 : p.tunnelIP4Dst < 2^32) (h2 : p.tunnelTEID < 2^32) (h3 : m.ul < 2^32) :
    ∃ e, buildSessions p m peer buf = some e ∧ validEntry Up4.info e = true := by
  refine ⟨_, by simp only [buildSessions, ha, if_true]; rfl, ?_⟩
  p4simp; omega

/-- `buildDownlinkSessionsEntry`, forwarding and buffering -/
theorem sessions_downlink_valid (p : Pdr) (m : Meter) (peer : Nat) (buf : Bool) (hc : p.srcIface = Sdf.core)
    (h1 : p.ueAddress < 2^32) (h2 : peer < 256) (h3 : m.dl < 2^32) :
    ∃ e, buildSessions p m peer buf = some e ∧ validEntry Up4.info e = true := by
  have hne : ¬ (Sdf.core = Sdf.access) := by decide
  cases buf
  · refine ⟨_, by simp only [buildSessions, hc, hne, if_false, if_true]; rfl, ?_⟩
    p4simp; omega
  · refine ⟨_, by simp only [buildSessions, hc, hne, if_false, if_true]; rfl, ?_⟩
    p4simp; omega

/-- `buildUplinkTerminationsEntry`, forward and drop -/
theorem terminations_uplink_valid (p : Pdr) (m : Meter) (f : Far) (appID qfi tc : Nat) (q : Qer) (ha : p.srcIface = Sdf.access)
    (h1 : p.ueAddress < 2^32) (h2 : appID < 256) (h3 : tc < 4) (h4 : m.ul < 2^32) (h5 : p.ctrID < 2^32) :
    ∃ e, buildTerminations p m f appID qfi tc q = some e ∧ validEntry Up4.info e = true := by
  cases hd : (drops f || q.ulStatus == gateClosed)
  · refine ⟨_, by simp only [buildTerminations, ha, if_true, hd]; rfl, ?_⟩
    p4simp; omega
  · refine ⟨_, by simp only [buildTerminations, ha, if_true, hd]; rfl, ?_⟩
    p4simp; omega

/-- `buildDownlinkTerminationsEntry`, forward and drop -/
theorem terminations_downlink_valid (p : Pdr) (m : Meter) (f : Far) (appID qfi tc : Nat) (q : Qer) (hc : p.srcIface = Sdf.core)
    (h1 : p.ueAddress < 2^32) (h2 : appID < 256) (h3 : tc < 4) (h4 : m.dl < 2^32) (h5 : p.ctrID < 2^32)
    (h6 : f.tunnelTEID < 2^32) (h7 : qfi < 64) :
    ∃ e, buildTerminations p m f appID qfi tc q = some e ∧ validEntry Up4.info e = true := by
  have hne : ¬ (Sdf.core = Sdf.access) := by decide
  cases hd : (drops f || q.dlStatus == gateClosed)
  · refine ⟨_, by simp only [buildTerminations, hc, hne, if_false, if_true, hd]; rfl, ?_⟩
    p4simp; omega
  · refine ⟨_, by simp only [buildTerminations, hc, hne, if_false, if_true, hd]; rfl, ?_⟩
    p4simp; omega

/-- `32 - bits.TrailingZeros32(mask)` is a prefix length -/
theorem plen_le (mask : Nat) : 32 - tz32 mask ≤ 32 := by omega

/-- the body of `BuildApplicationsTableEntry`, all eight combinations of optional fields -/
theorem application_with_valid (prio slice appID ip plen lo hi proto mask : Nat) (a b c : Bool)
    (hp : prio ≠ 0) (hs : slice < 16) (ha : appID < 256) (hi' : ip < 2^32) (hl : plen ≤ 32) (hlo : lo < 2^16) (hhi : hi < 2^16)
    (hpr : proto < 256) (hm : mask < 256) :
    ∃ e, buildApplicationWith prio slice appID ip plen lo hi proto mask a b c = some e ∧ validEntry Up4.info e = true := by
  cases a <;> cases b <;> cases c <;> (refine ⟨_, rfl, ?_⟩; p4simp; omega)

/-- `BuildApplicationsTableEntry` for a PDR that passed `verifyPDR` (precedence below 65535 when it has an application
filter: priority = 65535 - precedence ≠ 0) -/
theorem application_valid (p : Pdr) (slice appID : Nat) (hs : slice < 16) (ha : appID < 256)
    (hprec : p.precedence < 65535)
    (h1 : p.af.srcIP < 2^32) (h2 : p.af.dstIP < 2^32) (h3 : p.af.proto < 256) (h4 : p.af.protoMask < 256) :
    ∃ e, buildApplication p slice appID = some e ∧ validEntry Up4.info e = true := by
  unfold buildApplication
  by_cases hA : p.srcIface = Sdf.access
  · simp only [hA, if_true]
    exact application_with_valid _ _ _ _ _ _ _ _ _ _ _ _ (by omega) hs ha h2 (plen_le _) p.af.dstPorts.low.isLt p.af.dstPorts.high.isLt h3 h4
  · by_cases hC : p.srcIface = Sdf.core
    · simp only [hA, hC, if_true, if_false]
      exact application_with_valid _ _ _ _ _ _ _ _ _ _ _ _ (by omega) hs ha h1 (plen_le _) p.af.srcPorts.low.isLt p.af.srcPorts.high.isLt h3 h4
    · simp only [hA, hC, if_false]
      exact application_with_valid _ _ _ _ _ _ _ _ _ _ _ _ (by omega) hs ha (by decide) (plen_le _) (by decide) (by decide) h3 h4

/-- what `verifyPDR` leaves through: an application entry is only built for a precedence below 65535 -/
theorem verified_priority (p : Pdr) (hv : ¬ (p.precedence > 65535 ∨ (p.precedence = 65535 ∧ (!appFilterEmpty p) = true)))
    (hf : appFilterEmpty p = false) : p.precedence < 65535 ∧ 65535 - p.precedence ≠ 0 := by
  simp [hf] at hv; omega

/-- the specification is not vacuous: the same entry with priority 0 is refused (the defect repaired by the fix) -/
example : validEntry Up4.info { table := Gen.P4Constants.TablePreQosPipeApplications, ms := [⟨1, .exact, 0, 0, 1⟩], prio := 0, action := Gen.P4Constants.ActionPreQosPipeSetAppId, ps := [(1, 7, 1)] } = false := by decide
example : validEntry Up4.info { table := Gen.P4Constants.TablePreQosPipeApplications, ms := [⟨1, .exact, 0, 0, 1⟩], prio := 5, action := Gen.P4Constants.ActionPreQosPipeSetAppId, ps := [(1, 7, 1)] } = true := by decide
-- a parameter too many, a value too wide, a foreign action: refused
example : validEntry Up4.info { table := Gen.P4Constants.TablePreQosPipeTunnelPeers, ms := [⟨1, .exact, 2, 0, 1⟩], action := Gen.P4Constants.ActionPreQosPipeLoadTunnelParam, ps := [(1, 1, 4), (2, 2, 4)] } = false := by decide
example : validEntry Up4.info { table := Gen.P4Constants.TablePreQosPipeTunnelPeers, ms := [⟨1, .exact, 256, 0, 1⟩], action := Gen.P4Constants.ActionPreQosPipeLoadTunnelParam, ps := [(1, 1, 4), (2, 2, 4), (3, 2152, 2)] } = false := by decide
example : validEntry Up4.info { table := Gen.P4Constants.TablePreQosPipeTunnelPeers, ms := [⟨1, .exact, 2, 0, 1⟩], action := Gen.P4Constants.ActionPreQosPipeSetAppId, ps := [(1, 1, 1)] } = false := by decide

/-! ## meter and counter indices -/

/-- cells of the application and session meter pools (1 … size-1) and counter cells (0 … size-1) are inside the arrays -/
theorem meter_index_valid (idx : Nat) (cfg : Option MeterCfg) (h : idx < 1024) :
    validUpd Up4.info ⟨.modify, .meter Gen.P4Constants.MeterPreQosPipeAppMeter idx cfg⟩ = true ∧
    validUpd Up4.info ⟨.modify, .meter Gen.P4Constants.MeterPreQosPipeSessionMeter idx cfg⟩ = true := by
  simp [validUpd, Up4.info]; omega

theorem counter_index_valid (idx : Nat) (h : idx < 1024) :
    validUpd Up4.info ⟨.modify, .counter Gen.P4Constants.CounterPreQosPipePreQosCounter idx⟩ = true ∧
    validUpd Up4.info ⟨.modify, .counter Gen.P4Constants.CounterPostQosPipePostQosCounter idx⟩ = true := by
  simp [validUpd, Up4.info]; omega

/-- the pools are created inside the arrays: `start` fills them from the sizes the P4Info declares (`ctrCells` is the size of the
pre-QoS counter in the served P4Info: 1024 in the shipped one) -/
theorem shipped_counter_cells (cfg : Cfg4) (h : cfg.ctrSize = 0) : ctrCells cfg = 1024 := by
  have h1 : arrSize Up4.info.counters Gen.P4Constants.CounterPreQosPipePreQosCounter = 1024 := by decide
  unfold ctrCells; rw [if_pos h]; exact h1

theorem start_pools_in_range (cfg : Cfg4) (srv : Srv) (injs : List Inj) :
    (∀ i ∈ (start cfg srv injs).1.st.ctrFree, i < ctrCells cfg) ∧ (∀ i ∈ (start cfg srv injs).1.st.appFree, 1 ≤ i ∧ i < 1024) ∧
    (∀ i ∈ (start cfg srv injs).1.st.sessFree, 1 ≤ i ∧ i < 1024) := by
  have h2 : arrSize Up4.info.meters Gen.P4Constants.MeterPreQosPipeAppMeter = 1024 := by decide
  have h3 : arrSize Up4.info.meters Gen.P4Constants.MeterPreQosPipeSessionMeter = 1024 := by decide
  unfold start
  simp only [h2, h3]
  split
  · simp
  · split
    · simp; omega
    · simp; omega

theorem slice_aux : ∀ a : Fin 16, ∀ b : Fin 4,
    (BitVec.setWidth 64 ((BitVec.ofNat 8 a.val <<< (2#64).toNat) + (BitVec.ofNat 8 b.val &&& 3#8))).toNat < 64 := by decide

/-- `GetSliceTCMeterIndex` (generated from utils.go): an accepted (slice, TC) pair indexes inside the slice meter of size 64 -/
theorem slice_index_lt_64 (s tc : BitVec 8) (i : BitVec 64) (h : Gen.Leaf.GetSliceTCMeterIndex s tc = some i) : i.toNat < 64 := by
  unfold Gen.Leaf.GetSliceTCMeterIndex at h
  split at h
  · cases h
  · split at h
    · cases h
    · cases h
      rename_i h1 h2
      have hs : s.toNat < 16 := by
        have : ¬ (16 ≤ s.toNat) := by simpa [BitVec.ule] using h1
        omega
      have ht : tc.toNat < 4 := by
        have : ¬ (4 ≤ tc.toNat) := by simpa [BitVec.ule] using h2
        omega
      have := slice_aux ⟨s.toNat, hs⟩ ⟨tc.toNat, ht⟩
      simpa using this

theorem slice_meter_declared : arrSize Up4.info.meters Gen.P4Constants.MeterPreQosPipeSliceTcMeter = 64 := by decide

/-! ## the compiled constants name the pipeline objects the builders mean -/

theorem constants_resolve :
    (Up4.info.tables.find? (·.id == Gen.P4Constants.TablePreQosPipeSessionsUplink)).map (·.name) = some "PreQosPipe.sessions_uplink" ∧
    (Up4.info.tables.find? (·.id == Gen.P4Constants.TablePreQosPipeSessionsDownlink)).map (·.name) = some "PreQosPipe.sessions_downlink" ∧
    (Up4.info.tables.find? (·.id == Gen.P4Constants.TablePreQosPipeTerminationsUplink)).map (·.name) = some "PreQosPipe.terminations_uplink" ∧
    (Up4.info.tables.find? (·.id == Gen.P4Constants.TablePreQosPipeTerminationsDownlink)).map (·.name) = some "PreQosPipe.terminations_downlink" ∧
    (Up4.info.tables.find? (·.id == Gen.P4Constants.TablePreQosPipeTunnelPeers)).map (·.name) = some "PreQosPipe.tunnel_peers" ∧
    (Up4.info.tables.find? (·.id == Gen.P4Constants.TablePreQosPipeInterfaces)).map (·.name) = some "PreQosPipe.interfaces" ∧
    (Up4.info.tables.find? (·.id == Gen.P4Constants.TablePreQosPipeApplications)).map (·.name) = some "PreQosPipe.applications" ∧
    (Up4.info.actions.find? (·.id == Gen.P4Constants.ActionPreQosPipeSetSessionUplink)).map (·.name) = some "PreQosPipe.set_session_uplink" ∧
    (Up4.info.actions.find? (·.id == Gen.P4Constants.ActionPreQosPipeSetSessionDownlink)).map (·.name) = some "PreQosPipe.set_session_downlink" ∧
    (Up4.info.actions.find? (·.id == Gen.P4Constants.ActionPreQosPipeSetSessionDownlinkBuff)).map (·.name) = some "PreQosPipe.set_session_downlink_buff" ∧
    (Up4.info.actions.find? (·.id == Gen.P4Constants.ActionPreQosPipeUplinkTermFwd)).map (·.name) = some "PreQosPipe.uplink_term_fwd" ∧
    (Up4.info.actions.find? (·.id == Gen.P4Constants.ActionPreQosPipeUplinkTermDrop)).map (·.name) = some "PreQosPipe.uplink_term_drop" ∧
    (Up4.info.actions.find? (·.id == Gen.P4Constants.ActionPreQosPipeDownlinkTermFwd)).map (·.name) = some "PreQosPipe.downlink_term_fwd" ∧
    (Up4.info.actions.find? (·.id == Gen.P4Constants.ActionPreQosPipeDownlinkTermDrop)).map (·.name) = some "PreQosPipe.downlink_term_drop" ∧
    (Up4.info.actions.find? (·.id == Gen.P4Constants.ActionPreQosPipeSetAppId)).map (·.name) = some "PreQosPipe.set_app_id" ∧
    (Up4.info.actions.find? (·.id == Gen.P4Constants.ActionPreQosPipeLoadTunnelParam)).map (·.name) = some "PreQosPipe.load_tunnel_param" ∧
    (Up4.info.actions.find? (·.id == Gen.P4Constants.ActionPreQosPipeSetSourceIface)).map (·.name) = some "PreQosPipe.set_source_iface" ∧
    (Up4.info.meters.find? (·.id == Gen.P4Constants.MeterPreQosPipeAppMeter)).map (·.name) = some "PreQosPipe.app_meter" ∧
    (Up4.info.meters.find? (·.id == Gen.P4Constants.MeterPreQosPipeSessionMeter)).map (·.name) = some "PreQosPipe.session_meter" ∧
    (Up4.info.meters.find? (·.id == Gen.P4Constants.MeterPreQosPipeSliceTcMeter)).map (·.name) = some "PreQosPipe.slice_tc_meter" ∧
    (Up4.info.counters.find? (·.id == Gen.P4Constants.CounterPreQosPipePreQosCounter)).map (·.name) = some "PreQosPipe.pre_qos_counter" ∧
    (Up4.info.counters.find? (·.id == Gen.P4Constants.CounterPostQosPipePostQosCounter)).map (·.name) = some "PostQosPipe.post_qos_counter" := by
  simp [Up4.info]

/-- the widths compiled into `GetSliceTCMeterIndex` are the pipeline's -/
theorem widths_match :
    Gen.P4Constants.BitwidthMfSliceId = 4 ∧ Gen.P4Constants.BitwidthApTc = 2 ∧ Gen.P4Constants.BitwidthApQfi = 6 ∧
    Gen.P4Constants.MeterSizePreQosPipeAppMeter = 1024 ∧ Gen.P4Constants.MeterSizePreQosPipeSessionMeter = 1024 ∧
    Gen.P4Constants.MeterSizePreQosPipeSliceTcMeter = 64 ∧ Gen.P4Constants.CounterSizePreQosPipePreQosCounter = 1024 := by decide

end C16
