import Upf.Proofs.AgentMark
import Upf.Proofs.AgentQos
import Upf.Proofs.GenEqAgent
import Upf.Proofs.History
import Upf.Proofs.ModRem
/-!
# C09 — QoS is enforced as signalled; the session-wide limiter is chosen soundly (BESS part)

`Agent.qerHalf` / `Agent.bursts` transcribe one direction of `bess.addQER`, `Agent.calcBurst` transcribes
`calcBurstSizeFromRate`, `Agent.markSessionQer` transcribes `MarkSessionQer` (session_qer.go). The gate numbers
come from the regenerated constants. All statements are for every rate / burst configuration / rule set.
-/
namespace Props.C09
open Agent

/-- the gate numbers of the code are the datapath's meter / drop / pass gates -/
theorem gates : Gen.Consts.qerGateMeter = 0 ∧ Gen.Consts.qerGateStatusDrop = 5 ∧ Gen.Consts.qerGateUnmeter = 6 := consts_gates

/-- a closed gate drops that direction, whatever the rates -/
theorem closed_drops (status mbr gbr c0 p0 : Nat) (h : status ≠ 0) :
    (qerHalf status mbr gbr c0 p0).1 = Gen.Consts.qerGateStatusDrop := half_closed status mbr gbr c0 p0 h

/-- both rates zero mean unmetered -/
theorem unmetered (c0 p0 : Nat) : (qerHalf 0 0 0 c0 p0).1 = Gen.Consts.qerGateUnmeter := half_unmetered c0 p0

/-- open gate, 40-bit rates with GBR ≤ MBR, not both zero: metered; the peak rate is exactly MBR × 125 bytes/s and the
committed rate GBR × 125 floored at 1 — independent of what the other direction left behind -/
theorem pir_exact (mbr gbr c0 p0 : Nat) (hm : mbr < 2^40) (hle : gbr ≤ mbr) (hne : mbr ≠ 0 ∨ gbr ≠ 0) :
    qerHalf 0 mbr gbr c0 p0 = (Gen.Consts.qerGateMeter, max (gbr * 125) 1, mbr * 125) := half_exact mbr gbr c0 p0 hm hle hne

/-- rate × duration is computed exactly: ⌊kbps · ms / 8⌋ bytes -/
theorem burst_exact (kbps ms : Nat) (h : kbps * ms < 2^64) : calcBurst kbps ms = kbps * ms / 8 := calcBurst_exact kbps ms h

/-- every burst size is at least rate × duration and at least the operator-configured minimum for the QFI -/
theorem burst_lower (c : QosCfg) (mbr gbr : Nat) (hm : mbr * c.burstMs < 2^64) (hg : gbr * c.burstMs < 2^64) :
    let (cbs, pbs, ebs) := bursts c mbr gbr
    cbs ≥ gbr * c.burstMs / 8 ∧ cbs ≥ c.cbs ∧ pbs ≥ mbr * c.burstMs / 8 ∧ pbs ≥ c.pbs ∧ ebs ≥ mbr * c.burstMs / 8 ∧ ebs ≥ c.ebs := by
  simp only [bursts, calcBurst_exact _ _ hm, calcBurst_exact _ _ hg]
  omega

/-- a QER that a marking call labels session-wide is referenced by every PDR of the session and has no GBR -/
theorem mark_sound (pdrs : List Pdr) (qers : List Qer) (k : Nat) (q q' : Qer)
    (hq : qers[k]? = some q) (hq' : (markSessionQer pdrs qers).1[k]? = some q')
    (hnew : q.session = false) (hmarked : q'.session = true) :
    (∀ p ∈ pdrs, q'.qerID ∈ p.qerIDs) ∧ q'.ulGbr = 0 ∧ q'.dlGbr = 0 :=
  Agent.mark_sound pdrs qers k q q' hq hq' hnew hmarked

/-- one marking call labels at most one QER -/
theorem mark_unique_per_call (pdrs : List Pdr) (qers : List Qer) (k1 k2 : Nat) (q1 q2 q1' q2' : Qer)
    (h1 : qers[k1]? = some q1) (h2 : qers[k2]? = some q2)
    (h1' : (markSessionQer pdrs qers).1[k1]? = some q1') (h2' : (markSessionQer pdrs qers).1[k2]? = some q2')
    (n1 : q1.session = false) (n2 : q2.session = false) (m1 : q1'.session = true) (m2 : q2'.session = true) : k1 = k2 :=
  Agent.mark_at_most_one pdrs qers k1 k2 q1 q2 q1' q2' h1 h2 h1' h2' n1 n2 m1 m2

/-- The FULL statement of the last clause — over modification histories the session-wide QER is never re-labelled —
does NOT hold for the code as it is (known finding C09-session-qer-relabel): marks are never reset and the choice
follows the largest MBR, so updating another QER can make it session-level too. Witness: PDR lists [1,2]; QER 1 with
uplink MBR 8 and QER 2 with 24; the first call labels QER 2, and after QER 1 is updated to 123457 the next call labels
QER 1 as well. -/
theorem mark_stable_fails :
    let pdrs : List Pdr := [{ qerIDs := [1, 2] }]
    let q0 : List Qer := [{ qerID := 1, ulMbr := 8 }, { qerID := 2, ulMbr := 24 }]
    let q1 := (markSessionQer pdrs q0).1
    let q1' := q1.map fun q => if q.qerID = 1 then { q with ulMbr := 123457, session := false } else q
    let q2 := (markSessionQer (markSessionQer pdrs q0).2 q1').1
    q1.map (·.session) = [false, true] ∧ q2.map (·.session) = [true, true] := by decide

/-- T1 tie: `calcBurstSizeFromRate` as regenerated from utils.go IS the model's `calcBurst`, every pair of 64-bit inputs — so
`burst_exact` / `burst_lower` speak about the code's function -/
theorem burst_is_the_code (kbps ms : BitVec 64) :
    (Gen.Leaf.calcBurstSizeFromRate kbps ms).toNat = calcBurst kbps.toNat ms.toNat := Agent.calcBurst_gen kbps ms

/-- **what is programmed is what is stored**: along every history in the envelope (`Agent.Inv`), for every stored session whose rules have
pairwise different keys, the two entries `bess.addQER` builds for each of its QERs (gate, rates, bursts of `qerHalf` / `bursts`, uplink and
downlink) lie in the lookup table its level selects, under the QER's key — for application QERs and the session-wide one alike -/
theorem stored_qer_is_programmed (cfg : Cfg) (w : World) (hI : Inv cfg w) (s : Session) (hs : s ∈ allSessions w) (hnd : SelfNodup cfg s)
    (q : Qer) (hq : q ∈ s.qers) (e : String × String) (he : e ∈ qerEntries cfg q) :
    (w.tables.tab (if q.session then Tb.sess else Tb.app)).get e.1 = some e.2 := by
  by_cases hsess : q.session = true
  · rw [if_pos hsess]
    have hm : e ∈ s.kv cfg .sess := by
      show e ∈ sessQerKV cfg s.qers
      unfold sessQerKV
      exact List.mem_flatMap.mpr ⟨q, List.mem_filter.mpr ⟨hq, by simpa using hsess⟩, he⟩
    exact (hI.img .sess e.1 e.2).mpr ⟨s, hs, (lastVal_of_nodup _ (hnd .sess) e.1 e.2).mpr hm⟩
  · rw [if_neg hsess]
    have hm : e ∈ s.kv cfg .app := by
      show e ∈ appQerKV cfg s.qers
      unfold appQerKV
      exact List.mem_flatMap.mpr ⟨q, List.mem_filter.mpr ⟨hq, by simpa using hsess⟩, he⟩
    exact (hI.img .app e.1 e.2).mpr ⟨s, hs, (lastVal_of_nodup _ (hnd .app) e.1 e.2).mpr hm⟩

-- non-vacuity
example : qerHalf 0 1000 0 7 9 = (0, 1, 125000) ∧ qerHalf 1 1000 0 7 9 = (5, 7, 9) := by decide
example : calcBurst 24 9 = 27 := by decide
example : (markSessionQer [{ qerIDs := [1, 4] }, { qerIDs := [2, 4] }] [{ qerID := 1 }, { qerID := 2 }, { qerID := 4, ulMbr := 9 }]).1.map (·.session)
    = [false, false, true] := by decide

end Props.C09
