import Upf.Proofs.Up4Frames
import Upf.Proofs.Up4Ids
import Upf.Proofs.Up4Reject
import Upf.Proofs.Up4Counters
import Upf.Proofs.Up4Live
/-!
# C15 — P4 datapath IDs stay exclusive and in their own pool under write failures

Model: `Upf/Model/Up4.lean` (up4.go after the repairs recorded in known_findings.json). Everything the environment decides
is universally quantified: the cells `Pop()` hands out (`picks`) and the fate of every Write RPC (`injs`: served, failed as
a whole, one update refused with any status) — "whichever P4Runtime writes fail" is `∀ injs`.

Proved here, for every request sequence of any length and every environment:
* meter cells (both pools): a cell is never free while a recorded meter holds it, never held by two meters, never outside
  1…1023; an application-meter operation never touches the session pool nor the reverse, and a failed meter Write puts
  the popped cells back where they came from (no migration);
* an establishment or the create/update part of a modification whose datapath answered "accepted" had no failed Write
  (other than the tolerated ALREADY_EXISTS).
* tunnel-peer IDs and application IDs: the ID a recorded peer / application holds is never in the free queue, two recorded
  holders never share an ID, the queue never holds an ID twice.
* counter cells, at the plug-in's interface: the cells an establishment hands out are pairwise distinct, were free and are no
  longer free; only the counter loop of `sendCreate` takes cells and only an accepted `sendDelete` returns cells — exactly
  those of the deleted PDRs; along every history the ledger "free / left the pool and not yet returned" never has a cell on
  both sides nor twice on one (`counters_inv`).
That the cells which left the pool are the `ctrID`s of the PDRs of the stored sessions (the owners live in the handlers' state)
is decided by the correspondence run and the oracles of the acceptor (`Check/P4.lean`: `poolFindings`, `exclusiveFindings`);
it is false of the code for a PDR created by a modification (open finding) — see DESIGN.md.
-/
namespace C15
open Up4

/-- a request at the datapath interface, with what the environment will do during it -/
inductive Req
  | create (all updated : Rules)
  | update (all updated : Rules)
  | delete (del : Rules)

structure Step where
  req : Req
  picks : List Nat
  injs : List Inj

def apply (cfg : Cfg4) (c : Ctx) (s : Step) : Ctx :=
  let c := { c with picks := s.picks, injs := s.injs }
  match s.req with
  | .create all updated => (sendCreate cfg c all updated).1
  | .update all updated => (sendUpdate cfg c all updated).1
  | .delete del => (sendDelete cfg c del).1

/-- the plug-in after start-up against any switch content and any history of requests under any environment -/
def run (cfg : Cfg4) (srv : Srv) (startInjs : List Inj) (h : List Step) : Ctx := h.foldl (apply cfg) (start cfg srv startInjs).1

/-- **the meter invariant holds in every reachable state** -/
theorem meters_inv (cfg : Cfg4) (srv : Srv) (startInjs : List Inj) (h : List Step) : MInv (run cfg srv startInjs h).st := by
  unfold run
  have base := start_inv cfg srv startInjs
  generalize (start cfg srv startInjs).1 = c at base
  induction h generalizing c with
  | nil => exact base
  | cons s rest ih =>
    simp only [List.foldl_cons]
    apply ih
    unfold apply
    cases s.req with
    | create all updated => exact sendCreate_inv cfg _ all updated base
    | update all updated => exact sendUpdate_inv cfg _ all updated base
    | delete del => exact sendDelete_inv cfg _ del base

/-- **the tunnel-peer and application ID invariants hold in every reachable state** -/
theorem ids_inv (cfg : Cfg4) (srv : Srv) (startInjs : List Inj) (h : List Step) : IdsInv (run cfg srv startInjs h).st := by
  unfold run
  have base := start_idsinv cfg srv startInjs
  generalize (start cfg srv startInjs).1 = c at base
  induction h generalizing c with
  | nil => exact base
  | cons s rest ih =>
    simp only [List.foldl_cons]
    apply ih
    unfold apply
    cases s.req with
    | create all updated => exact sendCreate_idsinv cfg _ all updated base
    | update all updated => exact sendUpdate_idsinv cfg _ all updated base
    | delete del => exact sendDelete_idsinv cfg _ del base

/-- a tunnel-peer ID in use is not free, and is not the ID of another peer -/
theorem peer_id_exclusive (cfg : Cfg4) (srv : Srv) (si : List Inj) (h : List Step) (tp : TP) (pr : Shared)
    (hp : mapGet (run cfg srv si h).st.peers tp = some pr) :
    pr.id ∉ (run cfg srv si h).st.peerPool ∧
    ∀ tp' pr', tp' ≠ tp → mapGet (run cfg srv si h).st.peers tp' = some pr' → pr'.id ≠ pr.id :=
  ⟨(ids_inv cfg srv si h).peers.held tp pr hp, fun tp' pr' hne hp' => (ids_inv cfg srv si h).peers.owners tp' tp pr' pr hne hp' hp⟩

/-- an application ID in use is not free, and is not the ID of another application -/
theorem app_id_exclusive (cfg : Cfg4) (srv : Srv) (si : List Inj) (h : List Step) (af : AF) (ap : AppRec)
    (hp : mapGet (run cfg srv si h).st.apps af = some ap) :
    ap.id ∉ (run cfg srv si h).st.appPool ∧
    ∀ af' ap', af' ≠ af → mapGet (run cfg srv si h).st.apps af' = some ap' → ap'.id ≠ ap.id :=
  ⟨(ids_inv cfg srv si h).apps.held af ap hp, fun af' ap' hne hp' => (ids_inv cfg srv si h).apps.owners af' af ap' ap hne hp' hp⟩

/-- never free while held: the cells of a recorded meter are not in the pool they were taken from -/
theorem held_not_free (cfg : Cfg4) (srv : Srv) (si : List Inj) (h : List Step) (key : Nat × Nat) (m : Meter)
    (hm : mapGet (run cfg srv si h).st.meters key = some m) :
    (m.kind = 1 → m.ul ∉ (run cfg srv si h).st.appFree ∧ m.dl ∉ (run cfg srv si h).st.appFree) ∧
    (m.kind = 2 → m.ul ∉ (run cfg srv si h).st.sessFree ∧ m.dl ∉ (run cfg srv si h).st.sessFree) :=
  ⟨(meters_inv cfg srv si h).appHeld key m hm, (meters_inv cfg srv si h).sessHeld key m hm⟩

/-- never two owners: two recorded meters of the same pool have no cell in common -/
theorem no_two_owners (cfg : Cfg4) (srv : Srv) (si : List Inj) (h : List Step) (k1 k2 : Nat × Nat) (m1 m2 : Meter) (hne : k1 ≠ k2)
    (h1 : mapGet (run cfg srv si h).st.meters k1 = some m1) (h2 : mapGet (run cfg srv si h).st.meters k2 = some m2)
    (hk : m1.kind = m2.kind) : m1.ul ≠ m2.ul ∧ m1.ul ≠ m2.dl ∧ m1.dl ≠ m2.ul ∧ m1.dl ≠ m2.dl :=
  (meters_inv cfg srv si h).owners k1 k2 m1 m2 hne h1 h2 hk

/-- the pools are sets (no cell is free twice), and every cell lies inside its array (C16 uses this) -/
theorem pools_nodup_in_range (cfg : Cfg4) (srv : Srv) (si : List Inj) (h : List Step) :
    (run cfg srv si h).st.appFree.Nodup ∧ (run cfg srv si h).st.sessFree.Nodup ∧
    (∀ x ∈ (run cfg srv si h).st.appFree, 1 ≤ x ∧ x < 1024) ∧ (∀ x ∈ (run cfg srv si h).st.sessFree, 1 ≤ x ∧ x < 1024) ∧
    (∀ k m, mapGet (run cfg srv si h).st.meters k = some m → 1 ≤ m.ul ∧ m.ul < 1024 ∧ 1 ≤ m.dl ∧ m.dl < 1024) :=
  let i := meters_inv cfg srv si h
  ⟨i.appNd, i.sessNd, i.appRange, i.sessRange, i.heldRange⟩

/-- no migration, application side: whatever is picked and whatever the Write does, `configureApplicationMeter` leaves the
session pool and the meters map alone, and when it fails the application pool has exactly the members it had -/
theorem app_meter_stays_in_its_pool (c : Ctx) (q : Agent.Qer) (bidir : Bool) (hI : MInv c.st) :
    (configureAppMeter c q bidir).1.st.sessFree = c.st.sessFree ∧
    ((configureAppMeter c q bidir).2 = none → ∀ x, x ∈ (configureAppMeter c q bidir).1.st.appFree ↔ x ∈ c.st.appFree) :=
  let s := configureAppMeter_spec c q bidir hI
  ⟨s.1, fun h => (s.2.2.1 h).1⟩

/-- no migration, session side -/
theorem sess_meter_stays_in_its_pool (c : Ctx) (q : Agent.Qer) (hI : MInv c.st) :
    (configureSessMeter c q).1.st.appFree = c.st.appFree ∧
    ((configureSessMeter c q).2 = none → ∀ x, x ∈ (configureSessMeter c q).1.st.sessFree ↔ x ∈ c.st.sessFree) :=
  let s := configureSessMeter_spec c q hI
  ⟨s.1, fun h => (s.2.2.1 h).1⟩

/-- **a failed write is a rejection** (establishment): if `sendCreate` reports success, every Write RPC it issued was
served and every update answered OK or ALREADY_EXISTS — for every environment -/
theorem create_accepted_only_without_failed_write (cfg : Cfg4) (c : Ctx) (all updated : Rules)
    (hok : (sendCreate cfg c all updated).2.2 = true) :
    ∃ l, (sendCreate cfg c all updated).1.log = c.log ++ l ∧ ∀ r ∈ l, r.good = true := by
  obtain ⟨l, e, g⟩ := sendCreate_ext cfg c all updated
  exact ⟨l, e, g hok⟩

/-- the same for the create/update part of a modification -/
theorem update_accepted_only_without_failed_write (cfg : Cfg4) (c : Ctx) (all updated : Rules)
    (hok : (sendUpdate cfg c all updated).2 = true) :
    ∃ l, (sendUpdate cfg c all updated).1.log = c.log ++ l ∧ ∀ r ∈ l, r.good = true := by
  obtain ⟨l, e, g⟩ := sendUpdate_ext cfg c all updated
  exact ⟨l, e, g hok⟩

/-! ## counter cells -/

/-- the cells an accepted establishment gave to the session's PDRs: pairwise distinct, taken from the free pool, no longer free;
the pool lost nothing else -/
theorem created_counter_cells_exclusive (c : Ctx) (n : Nat) (pdrs : List Agent.Pdr) (hnd : c.st.ctrFree.Nodup)
    (hok : (allocCounters c n [] pdrs).2.2 = true) :
    ∃ ids : List Nat, ids.Nodup ∧ ids.length = min n pdrs.length ∧
      (allocCounters c n [] pdrs).2.1 = assign (pdrs.take n) ids ++ pdrs.drop n ∧
      (∀ i ∈ ids, i ∈ c.st.ctrFree ∧ i ∉ (allocCounters c n [] pdrs).1.st.ctrFree) ∧
      (∀ x ∈ (allocCounters c n [] pdrs).1.st.ctrFree, x ∈ c.st.ctrFree) :=
  created_cells_exclusive c n pdrs hnd hok

/-- a modification never touches the counter pool; a refused deletion neither; an accepted deletion returns exactly the cells of
the deleted PDRs -/
theorem update_keeps_counter_pool (cfg : Cfg4) (c : Ctx) (all updated : Rules) : (sendUpdate cfg c all updated).1.st.ctrFree = c.st.ctrFree :=
  sendUpdate_ctr cfg c all updated
theorem delete_returns_the_deleted_cells (cfg : Cfg4) (c : Ctx) (del : Rules) :
    (sendDelete cfg c del).1.st.ctrFree =
      if (sendDelete cfg c del).2 then (del.pdrs.map (·.ctrID)).foldl setAdd c.st.ctrFree else c.st.ctrFree :=
  sendDelete_ctr cfg c del

/-- the handler stores what the plug-in returned: the session an accepted establishment appends to the association's store holds,
PDR by PDR, pairwise distinct counter cells, each free before the request and not free after it -/
theorem established_session_holds_fresh_cells (cfg : Agent.Cfg) (cfg4 : Cfg4) (x : Agent4.World4) (a lseid : Nat) (r : Agent.EstReq)
    (hnd : x.c.st.ctrFree.Nodup) (h : (Agent4.establish cfg cfg4 x a lseid r).2.upSeid.isSome) :
    ∃ s : Agent.Session, s.lseid = lseid ∧
      ((Agent4.establish cfg cfg4 x a lseid r).1.w.conn a).sessions = (x.w.conn a).sessions ++ [s] ∧
      (s.pdrs.map (·.ctrID)).Nodup ∧
      ∀ i ∈ s.pdrs.map (·.ctrID), i ∈ x.c.st.ctrFree ∧ i ∉ (Agent4.establish cfg cfg4 x a lseid r).1.c.st.ctrFree :=
  Agent4.establish_session_cells cfg cfg4 x a lseid r hnd h

/-- Session Deletion: accepted — the session leaves the store and exactly its PDRs' cells return; refused — store and pool untouched -/
theorem deleted_session_returns_its_cells (cfg4 : Cfg4) (x : Agent4.World4) (a seid : Nat) (s : Agent.Session)
    (hs : (x.w.conn a).sessions.find? (·.lseid = seid) = some s) :
    ((Agent4.deleteSession cfg4 x a seid).2.cause = Agent.causeAccepted →
        (Agent4.deleteSession cfg4 x a seid).1.c.st.ctrFree = (s.pdrs.map (·.ctrID)).foldl setAdd x.c.st.ctrFree ∧
        ((Agent4.deleteSession cfg4 x a seid).1.w.conn a).sessions = (x.w.conn a).sessions.filter (·.lseid ≠ seid)) ∧
    ((Agent4.deleteSession cfg4 x a seid).2.cause ≠ Agent.causeAccepted →
        (Agent4.deleteSession cfg4 x a seid).1.c.st.ctrFree = x.c.st.ctrFree ∧ (Agent4.deleteSession cfg4 x a seid).1.w = x.w) :=
  Agent4.delete_session_cells cfg4 x a seid s hs

/-- the counter ledger along a history: the cells that leave the pool during a create are booked as held, an accepted delete
takes the cells of the deleted PDRs off the books -/
def ledgerStep (cfg : Cfg4) (x : Ctx × List Nat) (s : Step) : Ctx × List Nat :=
  let c := { x.1 with picks := s.picks, injs := s.injs }
  match s.req with
  | .create all updated => ((sendCreate cfg c all updated).1, x.2 ++ leftPool c.st.ctrFree (sendCreate cfg c all updated).1.st.ctrFree)
  | .update all updated => ((sendUpdate cfg c all updated).1, x.2)
  | .delete del => ((sendDelete cfg c del).1,
      if (sendDelete cfg c del).2 then x.2.filter (fun y => !(del.pdrs.map (·.ctrID)).contains y) else x.2)

def ledger (cfg : Cfg4) (srv : Srv) (startInjs : List Inj) (h : List Step) : Ctx × List Nat :=
  h.foldl (ledgerStep cfg) ((start cfg srv startInjs).1, [])

/-- the ledger's first component is the run itself -/
theorem ledger_is_run (cfg : Cfg4) (srv : Srv) (startInjs : List Inj) (h : List Step) :
    (ledger cfg srv startInjs h).1 = run cfg srv startInjs h := by
  unfold ledger run
  generalize (start cfg srv startInjs).1 = c
  generalize ([] : List Nat) = held
  induction h generalizing c held with
  | nil => rfl
  | cons s rest ih =>
    simp only [List.foldl_cons]
    have : (ledgerStep cfg (c, held) s).1 = apply cfg c s := by
      unfold ledgerStep apply
      cases s.req <;> rfl
    rw [← this]
    exact ih _ _

/-- **counter cells, every history, every environment**: a cell is never free while it is booked as held (handed out and not yet
returned by an accepted deletion), never booked twice, and the pool never holds a cell twice -/
theorem counters_inv (cfg : Cfg4) (srv : Srv) (startInjs : List Inj) (h : List Step) :
    CInv (ledger cfg srv startInjs h).1.st.ctrFree (ledger cfg srv startInjs h).2 := by
  unfold ledger
  have base : CInv (start cfg srv startInjs).1.st.ctrFree [] := ⟨start_ctr_nodup cfg srv startInjs, List.nodup_nil, by simp⟩
  generalize (start cfg srv startInjs).1 = c at base
  generalize ([] : List Nat) = held at base
  induction h generalizing c held with
  | nil => exact base
  | cons s rest ih =>
    simp only [List.foldl_cons]
    apply ih
    show CInv (ledgerStep cfg (c, held) s).1.st.ctrFree (ledgerStep cfg (c, held) s).2
    unfold ledgerStep
    cases s.req with
    | create all updated => exact sendCreate_ledger cfg _ all updated held base
    | update all updated => simp only; rw [sendUpdate_ctr]; exact base
    | delete del => exact sendDelete_ledger cfg _ del held base

/-! ## the statements are about something: small concrete runs (evaluated by the kernel) -/

private def c0 (injs : List Inj) (picks : List Nat) : Ctx :=
  { st := { appFree := [1, 2, 3], sessFree := [1, 2, 3], ctrFree := [0, 1, 2] }, injs := injs, picks := picks }
private def q1 : Agent.Qer := { qerID := 1, fseID := 7, ulMbr := 8, dlMbr := 16 }

-- the application-meter Write fails as a whole: refused, both cells back in the application pool, session pool untouched
example : (configureAppMeter (c0 [.rpc] [3, 1]) q1 true).2 = none := by decide
example : (configureAppMeter (c0 [.rpc] [3, 1]) q1 true).1.st.appFree = [2, 3, 1] := by decide
example : (configureAppMeter (c0 [.rpc] [3, 1]) q1 true).1.st.sessFree = [1, 2, 3] := by decide
-- one update refused with INTERNAL: the same
example : (configureAppMeter (c0 [.upd 1 13] [3, 1]) q1 true).2 = none := by decide
-- served: the meter holds the picked cells, which left the pool
example : (configureAppMeter (c0 [] [3, 1]) q1 true).2 = some { kind := 1, ul := 3, dl := 1 } := by decide
example : (configureAppMeter (c0 [] [3, 1]) q1 true).1.st.appFree = [2] := by decide
-- `Rpc.good` tells failed writes from served ones
example : (Rpc.good { ups := [], inj := .rpc, codes := [] }) = false := by decide
example : (Rpc.good { ups := [], inj := .none, codes := [0, 6] }) = true := by decide
example : (Rpc.good { ups := [], inj := .upd 0 13, codes := [13, 0] }) = false := by decide

-- counter cells: two PDRs get the two cells the environment picks (2, then 0), the pool keeps the third
example : ((allocCounters (c0 [] [2, 0]) 2 [] [{ pdrID := 1 }, { pdrID := 2 }]).2.1.map (·.ctrID), (allocCounters (c0 [] [2, 0]) 2 [] [{ pdrID := 1 }, { pdrID := 2 }]).1.st.ctrFree) = ([2, 0], [1]) := by decide
-- the reset of the second cell fails: refused, both cells have left the pool (the ledger books them as held)
example : (allocCounters (c0 [.none, .rpc] [2, 0]) 2 [] [{ pdrID := 1 }, { pdrID := 2 }]).2.2 = false ∧ (allocCounters (c0 [.none, .rpc] [2, 0]) 2 [] [{ pdrID := 1 }, { pdrID := 2 }]).1.st.ctrFree = [1] := by decide

end C15
