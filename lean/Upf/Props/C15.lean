import Upf.Proofs.Up4Frames
import Upf.Proofs.Up4Ids
import Upf.Proofs.Up4Reject
/-!
# C15 — P4 datapath IDs stay exclusive and in their own pool under write failures

Model: `Upf/Model/Up4.lean` (up4.go after the repairs recorded in known_findings.json). Everything the environment decides
is universally quantified: the cells `Pop()` hands out (`picks`) and the fate of every Write RPC (`injs`: served, failed as
a whole, one update refused with any status) — "whichever P4Runtime writes fail" is `∀ injs`.

Proved here, for every request sequence of any length and every environment:
* meter cells (both pools): a cell is never free while a recorded meter holds it, never held by two meters, never outside
  1…1023; an application-meter operation never touches the session pool nor the reverse, and a failed meter Write puts
  the popped cells back where they came from (no migration);
* an establishment or the create/update part of a modification whose datapath answered "accepted" had no failed Write
  (other than the tolerated ALREADY_EXISTS).
* tunnel-peer IDs and application IDs: the ID a recorded peer / application holds is never in the free queue, two recorded
  holders never share an ID, the queue never holds an ID twice.
Counter cells are decided by the correspondence run and the oracles of the acceptor (`Check/P4.lean`: `poolFindings`,
`exclusiveFindings`), not by a theorem: their owners are the PDRs of the stored sessions, which live in the handlers'
state — see DESIGN.md.
-/
namespace C15
open Up4

/-- a request at the datapath interface, with what the environment will do during it -/
inductive Req
  | create (all updated : Rules)
  | update (all updated : Rules)
  | delete (del : Rules)

structure Step where
  req : Req
  picks : List Nat
  injs : List Inj

def apply (cfg : Cfg4) (c : Ctx) (s : Step) : Ctx :=
  let c := { c with picks := s.picks, injs := s.injs }
  match s.req with
  | .create all updated => (sendCreate cfg c all updated).1
  | .update all updated => (sendUpdate cfg c all updated).1
  | .delete del => (sendDelete cfg c del).1

/-- the plug-in after start-up against any switch content and any history of requests under any environment -/
def run (cfg : Cfg4) (srv : Srv) (startInjs : List Inj) (h : List Step) : Ctx := h.foldl (apply cfg) (start cfg srv startInjs).1

/-- **the meter invariant holds in every reachable state** -/
theorem meters_inv (cfg : Cfg4) (srv : Srv) (startInjs : List Inj) (h : List Step) : MInv (run cfg srv startInjs h).st := by
  unfold run
  have base := start_inv cfg srv startInjs
  generalize (start cfg srv startInjs).1 = c at base
  induction h generalizing c with
  | nil => exact base
  | cons s rest ih =>
    simp only [List.foldl_cons]
    apply ih
    unfold apply
    cases s.req with
    | create all updated => exact sendCreate_inv cfg _ all updated base
    | update all updated => exact sendUpdate_inv cfg _ all updated base
    | delete del => exact sendDelete_inv cfg _ del base

/-- **the tunnel-peer and application ID invariants hold in every reachable state** -/
theorem ids_inv (cfg : Cfg4) (srv : Srv) (startInjs : List Inj) (h : List Step) : IdsInv (run cfg srv startInjs h).st := by
  unfold run
  have base := start_idsinv cfg srv startInjs
  generalize (start cfg srv startInjs).1 = c at base
  induction h generalizing c with
  | nil => exact base
  | cons s rest ih =>
    simp only [List.foldl_cons]
    apply ih
    unfold apply
    cases s.req with
    | create all updated => exact sendCreate_idsinv cfg _ all updated base
    | update all updated => exact sendUpdate_idsinv cfg _ all updated base
    | delete del => exact sendDelete_idsinv cfg _ del base

/-- a tunnel-peer ID in use is not free, and is not the ID of another peer -/
theorem peer_id_exclusive (cfg : Cfg4) (srv : Srv) (si : List Inj) (h : List Step) (tp : TP) (pr : Shared)
    (hp : mapGet (run cfg srv si h).st.peers tp = some pr) :
    pr.id ∉ (run cfg srv si h).st.peerPool ∧
    ∀ tp' pr', tp' ≠ tp → mapGet (run cfg srv si h).st.peers tp' = some pr' → pr'.id ≠ pr.id :=
  ⟨(ids_inv cfg srv si h).peers.held tp pr hp, fun tp' pr' hne hp' => (ids_inv cfg srv si h).peers.owners tp' tp pr' pr hne hp' hp⟩

/-- an application ID in use is not free, and is not the ID of another application -/
theorem app_id_exclusive (cfg : Cfg4) (srv : Srv) (si : List Inj) (h : List Step) (af : AF) (ap : AppRec)
    (hp : mapGet (run cfg srv si h).st.apps af = some ap) :
    ap.id ∉ (run cfg srv si h).st.appPool ∧
    ∀ af' ap', af' ≠ af → mapGet (run cfg srv si h).st.apps af' = some ap' → ap'.id ≠ ap.id :=
  ⟨(ids_inv cfg srv si h).apps.held af ap hp, fun af' ap' hne hp' => (ids_inv cfg srv si h).apps.owners af' af ap' ap hne hp' hp⟩

/-- never free while held: the cells of a recorded meter are not in the pool they were taken from -/
theorem held_not_free (cfg : Cfg4) (srv : Srv) (si : List Inj) (h : List Step) (key : Nat × Nat) (m : Meter)
    (hm : mapGet (run cfg srv si h).st.meters key = some m) :
    (m.kind = 1 → m.ul ∉ (run cfg srv si h).st.appFree ∧ m.dl ∉ (run cfg srv si h).st.appFree) ∧
    (m.kind = 2 → m.ul ∉ (run cfg srv si h).st.sessFree ∧ m.dl ∉ (run cfg srv si h).st.sessFree) :=
  ⟨(meters_inv cfg srv si h).appHeld key m hm, (meters_inv cfg srv si h).sessHeld key m hm⟩

/-- never two owners: two recorded meters of the same pool have no cell in common -/
theorem no_two_owners (cfg : Cfg4) (srv : Srv) (si : List Inj) (h : List Step) (k1 k2 : Nat × Nat) (m1 m2 : Meter) (hne : k1 ≠ k2)
    (h1 : mapGet (run cfg srv si h).st.meters k1 = some m1) (h2 : mapGet (run cfg srv si h).st.meters k2 = some m2)
    (hk : m1.kind = m2.kind) : m1.ul ≠ m2.ul ∧ m1.ul ≠ m2.dl ∧ m1.dl ≠ m2.ul ∧ m1.dl ≠ m2.dl :=
  (meters_inv cfg srv si h).owners k1 k2 m1 m2 hne h1 h2 hk

/-- the pools are sets (no cell is free twice), and every cell lies inside its array (C16 uses this) -/
theorem pools_nodup_in_range (cfg : Cfg4) (srv : Srv) (si : List Inj) (h : List Step) :
    (run cfg srv si h).st.appFree.Nodup ∧ (run cfg srv si h).st.sessFree.Nodup ∧
    (∀ x ∈ (run cfg srv si h).st.appFree, 1 ≤ x ∧ x < 1024) ∧ (∀ x ∈ (run cfg srv si h).st.sessFree, 1 ≤ x ∧ x < 1024) ∧
    (∀ k m, mapGet (run cfg srv si h).st.meters k = some m → 1 ≤ m.ul ∧ m.ul < 1024 ∧ 1 ≤ m.dl ∧ m.dl < 1024) :=
  let i := meters_inv cfg srv si h
  ⟨i.appNd, i.sessNd, i.appRange, i.sessRange, i.heldRange⟩

/-- no migration, application side: whatever is picked and whatever the Write does, `configureApplicationMeter` leaves the
session pool and the meters map alone, and when it fails the application pool has exactly the members it had -/
theorem app_meter_stays_in_its_pool (c : Ctx) (q : Agent.Qer) (bidir : Bool) (hI : MInv c.st) :
    (configureAppMeter c q bidir).1.st.sessFree = c.st.sessFree ∧
    ((configureAppMeter c q bidir).2 = none → ∀ x, x ∈ (configureAppMeter c q bidir).1.st.appFree ↔ x ∈ c.st.appFree) :=
  let s := configureAppMeter_spec c q bidir hI
  ⟨s.1, fun h => (s.2.2.1 h).1⟩

/-- no migration, session side -/
theorem sess_meter_stays_in_its_pool (c : Ctx) (q : Agent.Qer) (hI : MInv c.st) :
    (configureSessMeter c q).1.st.appFree = c.st.appFree ∧
    ((configureSessMeter c q).2 = none → ∀ x, x ∈ (configureSessMeter c q).1.st.sessFree ↔ x ∈ c.st.sessFree) :=
  let s := configureSessMeter_spec c q hI
  ⟨s.1, fun h => (s.2.2.1 h).1⟩

/-- **a failed write is a rejection** (establishment): if `sendCreate` reports success, every Write RPC it issued was
served and every update answered OK or ALREADY_EXISTS — for every environment -/
theorem create_accepted_only_without_failed_write (cfg : Cfg4) (c : Ctx) (all updated : Rules)
    (hok : (sendCreate cfg c all updated).2.2 = true) :
    ∃ l, (sendCreate cfg c all updated).1.log = c.log ++ l ∧ ∀ r ∈ l, r.good = true := by
  obtain ⟨l, e, g⟩ := sendCreate_ext cfg c all updated
  exact ⟨l, e, g hok⟩

/-- the same for the create/update part of a modification -/
theorem update_accepted_only_without_failed_write (cfg : Cfg4) (c : Ctx) (all updated : Rules)
    (hok : (sendUpdate cfg c all updated).2 = true) :
    ∃ l, (sendUpdate cfg c all updated).1.log = c.log ++ l ∧ ∀ r ∈ l, r.good = true := by
  obtain ⟨l, e, g⟩ := sendUpdate_ext cfg c all updated
  exact ⟨l, e, g hok⟩

/-! ## the statements are about something: small concrete runs (evaluated by the kernel) -/

private def c0 (injs : List Inj) (picks : List Nat) : Ctx :=
  { st := { appFree := [1, 2, 3], sessFree := [1, 2, 3], ctrFree := [0, 1, 2] }, injs := injs, picks := picks }
private def q1 : Agent.Qer := { qerID := 1, fseID := 7, ulMbr := 8, dlMbr := 16 }

-- the application-meter Write fails as a whole: refused, both cells back in the application pool, session pool untouched
example : (configureAppMeter (c0 [.rpc] [3, 1]) q1 true).2 = none := by decide
example : (configureAppMeter (c0 [.rpc] [3, 1]) q1 true).1.st.appFree = [2, 3, 1] := by decide
example : (configureAppMeter (c0 [.rpc] [3, 1]) q1 true).1.st.sessFree = [1, 2, 3] := by decide
-- one update refused with INTERNAL: the same
example : (configureAppMeter (c0 [.upd 1 13] [3, 1]) q1 true).2 = none := by decide
-- served: the meter holds the picked cells, which left the pool
example : (configureAppMeter (c0 [] [3, 1]) q1 true).2 = some { kind := 1, ul := 3, dl := 1 } := by decide
example : (configureAppMeter (c0 [] [3, 1]) q1 true).1.st.appFree = [2] := by decide
-- `Rpc.good` tells failed writes from served ones
example : (Rpc.good { ups := [], inj := .rpc, codes := [] }) = false := by decide
example : (Rpc.good { ups := [], inj := .none, codes := [0, 6] }) = true := by decide
example : (Rpc.good { ups := [], inj := .upd 0 13, codes := [13, 0] }) = false := by decide

end C15
