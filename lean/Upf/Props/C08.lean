import Upf.Proofs.Flow
import Upf.Model.Sdf
/-!
# C08 — SDF filters and PFD-backed application IDs mean what they say

`Flow.parse` transcribes `parseFlowDesc` (parse_sdf.go) on the token list, `Sdf.parseSDF` / `Sdf.parseApp`
transcribe `parseSDFFilter` / `parseApplicationID` with the UE-address pre-fill of `parsePDI`.
The parser theorems hold for every lexer `L` (so in particular for the concrete one, `Sdf.lex`), every UE
address string and every token list; lexing of dotted quads and decimal numbers is a hand model validated
by the correspondence run.
-/
namespace Props.C08
open Sdf Tern

variable {N P : Type}

/-- round trip: a rule rendered in the documented grammar parses to exactly what was written -/
theorem roundtrip (L : Flow.Lex N P) (ue : String) (r : Flow.Rule)
    (ha : r.action = "permit" ∨ r.action = "deny") (hd : r.dir = "in" ∨ r.dir = "out")
    (n1 n2 : N) (hn1 : L.parseNet (Flow.xform ue r.src.addr) = some n1) (hn2 : L.parseNet (Flow.xform ue r.dst.addr) = some n2)
    (p1 p2 : P)
    (hp1 : ∀ s, r.src.port = some s → L.parsePort s = some p1 ∧ s ≠ "to")
    (hp1' : r.src.port = none → p1 = L.wild)
    (hp2 : ∀ s, r.dst.port = some s → L.parsePort s = some p2)
    (hp2' : r.dst.port = none → p2 = L.wild) :
    Flow.parse L ue r.render = some { action := r.action, dir := r.dir, proto := r.proto,
                                      src := ⟨some n1, p1⟩, dst := ⟨some n2, p2⟩ } :=
  Flow.roundtrip L ue r ha hd n1 n2 hn1 hn2 p1 p2 hp1 hp1' hp2 hp2'

/-- fewer than three tokens: refused -/
theorem refused_short (L : Flow.Lex N P) (ue : String) (toks : List String) (h : toks.length < 3) :
    Flow.parse L ue toks = none := Flow.refused_short L ue toks h

/-- unknown action: refused, whatever follows -/
theorem refused_action (L : Flow.Lex N P) (ue a : String) (rest : List String)
    (h : ¬ (a = "permit" ∨ a = "deny")) : Flow.parse L ue (a :: rest) = none := Flow.refused_action L ue a rest h

/-- unknown direction: refused, whatever follows -/
theorem refused_dir (L : Flow.Lex N P) (ue a d : String) (rest : List String)
    (h : ¬ (d = "in" ∨ d = "out")) : Flow.parse L ue (a :: d :: rest) = none := Flow.refused_dir L ue a d rest h

/-- an accepted description always has both a from- and a to-network (nothing is dereferenced that is absent) -/
theorem ok_has_both (L : Flow.Lex N P) (ue : String) (toks : List String) (f : Flow.IPF N P)
    (h : Flow.parse L ue toks = some f) : f.src.net.isSome ∧ f.dst.net.isSome := Flow.ok_has_both L ue toks f h

/-- a keyword without address (last token) is refused wherever it occurs, for every prefix of tokens -/
theorem trailing_keyword_refused (L : Flow.Lex N P) (ue kw : String) (hk : kw = "from" ∨ kw = "to")
    (hnet : L.parseNet (Flow.xform ue kw) = none) (hport : L.parsePort kw = none)
    (pre : List String) (f : Flow.IPF N P) : Flow.loop L ue (pre ++ [kw]) f = none :=
  Flow.loop_trailing_kw L ue kw hk hnet hport pre.length pre rfl f

/-- a malformed description is inert: the PDR keeps exactly the UE-address pre-fill -/
theorem error_is_inert (iface ue : Nat) (flow : String) (hne : flow ≠ "")
    (h : parseFlowDesc flow (ipString ue) = none) :
    (match parseSDF iface ue flow with | .ignored f => f = prefill iface ue | _ => False) := by
  simp [parseSDF, hne, h]

/-- downlink (core) PDR: packet source = the from-clause, destination = the to-clause; protocol as written -/
theorem sdf_downlink (f0 : Filter) (ipf : Flow.IPF Net PR) :
    let f := applySdf core f0 ipf
    f.srcIP = (netOf ipf.src).ip ∧ f.srcMask = (netOf ipf.src).mask ∧
    f.dstIP = (netOf ipf.dst).ip ∧ f.dstMask = (netOf ipf.dst).mask ∧
    (ipf.dst.ports.isWildcard → f.srcPorts = ipf.src.ports ∧ f.dstPorts = ipf.dst.ports) ∧
    (¬ ipf.dst.ports.isWildcard → f.srcPorts = ipf.dst.ports ∧ f.dstPorts = ⟨0#16, 0xFFFF#16⟩) := by
  intro f
  simp only [f, applySdf, core, access]
  by_cases h : ipf.dst.ports.isWildcard <;> simp [h]

/-- uplink (access) PDR: the same description is mirrored: packet destination = the from-clause -/
theorem sdf_uplink (f0 : Filter) (ipf : Flow.IPF Net PR) :
    let f := applySdf access f0 ipf
    f.dstIP = (netOf ipf.src).ip ∧ f.dstMask = (netOf ipf.src).mask ∧
    f.srcIP = (netOf ipf.dst).ip ∧ f.srcMask = (netOf ipf.dst).mask ∧
    (ipf.dst.ports.isWildcard → f.dstPorts = ipf.src.ports ∧ f.srcPorts = ipf.dst.ports) ∧
    (¬ ipf.dst.ports.isWildcard → f.dstPorts = ipf.dst.ports ∧ f.srcPorts = ⟨0#16, 0xFFFF#16⟩) := by
  intro f
  simp only [f, applySdf, core, access]
  by_cases h : ipf.dst.ports.isWildcard <;> simp [h]

/-- protocol: a number, tcp or udp is matched exactly; anything else (ip) leaves the protocol unmatched -/
theorem proto_exact (f : Filter) (p : Nat) :
    (p ≠ 255 → (withProto f p).proto = p ∧ (withProto f p).protoMask = 255) ∧ (p = 255 → withProto f p = f) := by
  constructor <;> intro h <;> simp [withProto, h]

/-- application ID not provisioned: the rule is refused -/
theorem app_unknown_refused (iface ue : Nat) (table : List (String × List String)) (app : String)
    (h : table.find? (·.1 = app) = none) :
    (match parseApp iface ue table app with | .rejected => True | _ => False) := by
  simp [parseApp, h]

/-- PFD-backed filter: the first description whose direction keyword matches is taken verbatim —
source to packet source, destination to packet destination — when the ones before it parse and do not match -/
theorem pfd_verbatim (iface ue : Nat) (f0 : Filter) (fd : String) (rest : List String) (ipf : Flow.IPF Net PR)
    (hp : parseFlowDesc fd (ipString ue) = some ipf)
    (hd : (iface = access ∧ ipf.dir = "out") ∨ (iface = core ∧ ipf.dir = "in")) :
    (match applyApp iface ue f0 (fd :: rest) with
     | .ok f => f.srcIP = (netOf ipf.src).ip ∧ f.srcMask = (netOf ipf.src).mask ∧ f.dstIP = (netOf ipf.dst).ip ∧
                f.dstMask = (netOf ipf.dst).mask ∧ f.srcPorts = ipf.src.ports ∧ f.dstPorts = ipf.dst.ports
     | _ => False) := by
  simp [applyApp, hp, hd]

theorem pfd_skips_other_direction (iface ue : Nat) (f0 : Filter) (fd : String) (rest : List String) (ipf : Flow.IPF Net PR)
    (hp : parseFlowDesc fd (ipString ue) = some ipf)
    (hd : ¬ ((iface = access ∧ ipf.dir = "out") ∨ (iface = core ∧ ipf.dir = "in"))) :
    applyApp iface ue f0 (fd :: rest) = applyApp iface ue f0 rest := by
  simp [applyApp, hp, hd]

-- non-vacuity: a toy lexer satisfies the hypotheses of `roundtrip` and `trailing_keyword_refused`
def toyLex : Flow.Lex String Nat :=
  { parseNet := fun s => if s = "from" ∨ s = "to" then none else some s,
    parsePort := fun s => if s = "80" then some 80 else none, wild := 0 }

example : Flow.parse toyLex "10.0.0.1" ["permit", "out", "ip", "from", "any", "80", "to", "assigned"] =
    some { action := "permit", dir := "out", proto := "ip", src := ⟨some "0.0.0.0/0", 80⟩, dst := ⟨some "10.0.0.1", 0⟩ } := by
  simp [Flow.parse, Flow.loop, Flow.xform, toyLex]

example : Flow.parse toyLex "" ["permit", "out", "ip", "from", "any", "to"] = none := by
  simp [Flow.parse, Flow.loop, Flow.xform, toyLex]

end Props.C08
