import Upf.Proofs.PortWild
/-!
# C17 — Port ranges are expanded exactly or refused

Property theorems only; lemmas live in `Upf/Proofs`. `PR` is a `(low, high)` pair of `BitVec 16`, so
every statement below quantifies over all 2^32 ranges; nothing is enumerated.
`Tern.asTrivial`, `Tern.asComplex`, `Tern.cartesian` transcribe `asTrivialTernaryMatch`,
`asComplexTernaryMatches` and `CreatePortRangeCartesianProduct` of `pfcpiface/parse_pdr.go`.
-/
namespace Props.C17
open Tern

/-- a single-rule conversion, when accepted, matches exactly the denoted ports -/
theorem trivial_cover (pr : PR) (r : Rule) (h : asTrivial pr = some r) (p : U16) :
    r.matches p ↔ pr.denotes p := Tern.trivial_cover pr r h p

/-- exact-match strategy: accepted ⇒ the rules together match exactly the denoted ports -/
theorem exact_cover (pr : PR) (rs : List Rule) (h : asComplex .exact pr = some rs) (p : U16) :
    (∃ r ∈ rs, r.matches p) ↔ pr.denotes p := Tern.complex_cover .exact pr rs h p

/-- ternary strategy: never refused, and the rules together match exactly the denoted ports -/
theorem ternary_cover (pr : PR) (rs : List Rule) (h : asComplex .ternary pr = some rs) (p : U16) :
    (∃ r ∈ rs, r.matches p) ↔ pr.denotes p := Tern.complex_cover .ternary pr rs h p

/-- the raw ternary loop, for every low/high (also inverted ones, which denote nothing) -/
theorem ternary_loop_cover (low high p : U16) :
    (∃ r ∈ ternary low high, r.matches p) ↔ (low.toNat ≤ p.toNat ∧ p.toNat ≤ high.toNat) :=
  Tern.ternary_cover low high p

/-- an accepted pair: some entry matches (sp, dp) iff sp is in the first range and dp in the second -/
theorem product_cover (s d : PR) (rs : List Rule2) (h : cartesian s d = some rs) (sp dp : U16) :
    (∃ r ∈ rs, r.matches sp dp) ↔ (s.denotes sp ∧ d.denotes dp) := Tern.product_cover s d rs h sp dp

/-- a wildcard rule appears only for 0-65535 or the zero value 0-0 -/
theorem wildcard_only_full (st : Strategy) (pr : PR) (rs : List Rule) (h : asComplex st pr = some rs)
    (r : Rule) (hr : r ∈ rs) (hm : r.mask = 0#16) :
    (pr.low = 0#16 ∧ pr.high = 0xFFFF#16) ∨ (pr.low = 0#16 ∧ pr.high = 0#16) :=
  Tern.complex_wildcard_only_full st pr rs h r hr hm

/-- refused exactly when both sides are true ranges, or the single true range is wider than 100 -/
theorem refused_iff (s d : PR) : cartesian s d = none ↔
    ((s.isRange ∧ d.isRange) ∨ (s.isRange ∧ s.width > 100#16) ∨ (d.isRange ∧ d.width > 100#16)) :=
  Tern.refused_iff s d

/-- an inverted `lo-hi` port token is refused -/
theorem parsePort_inverted (a b : String) (lo hi : U16) (ha : parseU16 a = some lo) (hb : parseU16 b = some hi)
    (h : lo > hi) : parsePortParts [a, b] = none := by
  simp [parsePortParts, ha, hb, h]

/-- an accepted token is kept as written (no silent conversion to the zero value) -/
theorem parsePort_kept (a b : String) (lo hi : U16) (ha : parseU16 a = some lo) (hb : parseU16 b = some hi)
    (h : ¬ lo > hi) : parsePortParts [a, b] = some ⟨lo, hi⟩ := by
  simp [parsePortParts, ha, hb, h, newRange]

-- non-vacuity: the hypotheses are met by concrete, non-trivial ranges
example : asComplex .ternary ⟨1#16, 65534#16⟩ ≠ none ∧ (asComplex .ternary ⟨1#16, 65534#16⟩).map List.length = some 30 := by decide
example : (asComplex .exact ⟨1000#16, 1099#16⟩).map List.length = some 100 ∧ asComplex .exact ⟨1000#16, 1100#16⟩ = none := by decide
example : (cartesian ⟨10#16, 12#16⟩ ⟨80#16, 80#16⟩).map List.length = some 3 := by decide
example : cartesian ⟨10#16, 12#16⟩ ⟨80#16, 81#16⟩ = none := by decide

end Props.C17
