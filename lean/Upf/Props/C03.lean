import Upf.Proofs.Denote
import Upf.Proofs.Ref
import Upf.Proofs.Tab
import Upf.Model.AgentMod
import Upf.Proofs.BessAddDel
import Upf.Proofs.BessImage
import Upf.Proofs.History
import Upf.Proofs.ModMix
import Upf.Proofs.ModRem
import Upf.Proofs.GenEqAgent
/-!
# C03 — BESS tables are exactly the image of the live sessions' rules

Three layers.
1. Packet level (`Tern.entries_denote`): the pdrLookup entries written for a PDR classify exactly the packets the
   PDR denotes — for ALL packets of the eight match fields and all PDRs whose port pair is accepted.
2. Table level (`Ref`, `Tab`): on keyed tables with upsert/delete (the semantics of the lookup modules), the commands of
   an establishment / a deletion turn the image of the stored sessions into the image of the new store; command
   streams on disjoint keys commute, so the goroutine fan-out of bess.go does not matter.
3. Agent level (`Agent.establish`, `Agent.modify`, `Agent.deleteSession`, `Agent.image`): the executable model of the
   handlers, tied to the real agent by trace acceptance; `Agent.image` is the specification the oracle evaluates.
   The refinement of layer 2 is proved on the reduced table model (`Ref`: FAR table); on `Agent`, with the real key
   strings of all four tables, what is proved is "delete key = add key" for every rule set (`delete_key_is_add_key`),
   what an accepted establishment and a deletion write (`establishment_upserts_its_rules`,
   `deletion_removes_only_the_sessions_keys`), and that entries of other sessions are untouched — the full image
   refinement over modifications is decided per observed history (it is false of the code for key-changing updates and
   re-labelled session QERs: open findings) — partial.
-/
namespace Props.C03
open Tern

/-- a packet is classified to the PDR by some written entry iff it matches the PDR's source interface, tunnel
endpoint, UE/remote addresses, ports and protocol — all packets, symbolic -/
theorem entries_denote (p : PdrM) (es : List Entry) (h : pdrEntries p = some es) (k : Pkt) :
    (∃ e ∈ es, e.matches k) ↔ p.denotes k := Tern.entries_denote p es h k

/-- priorities order PDRs as their precedence does (lower precedence value = higher priority), without wrap-around -/
theorem priority_order (a b : BitVec 32) (h : a.toNat < b.toNat) :
    (0xFFFFFFFF#32 - b).toNat < (0xFFFFFFFF#32 - a).toNat := Tern.priority_order a b h

/-- the agent model writes one entry per rule of the same port product, priority `MaxUint32 − precedence` -/
theorem agent_entries_from_product (p : Agent.Pdr) :
    (Agent.pdrEntries p).map List.length = (cartesian p.af.srcPorts p.af.dstPorts).map List.length := by
  unfold Agent.pdrEntries
  cases cartesian p.af.srcPorts p.af.dstPorts <;> simp

/-- establishment on the table model: the add commands turn the image of the store into the image of the store plus the session -/
theorem est_refines (store : List Ref.Sess) (seid : Nat) (fars : List Ref.Far)
    (hfresh : ∀ s ∈ store, s.seid ≠ seid) (hnd : (fars.map (·.id)).Nodup) :
    Tab.run (Ref.image store) (Ref.addCmds seid fars) = Ref.image (⟨seid, fars⟩ :: store) :=
  Ref.est_refines store seid fars hfresh hnd

/-- deletion on the table model: the delete commands remove exactly the session's entries -/
theorem del_refines (store : List Ref.Sess) (s : Ref.Sess) (hfresh : ∀ x ∈ store, x.seid ≠ s.seid) :
    Tab.run (Ref.image (s :: store)) (Ref.delCmds s.seid s.fars) = Ref.image store :=
  Ref.del_refines store s hfresh

/-- commands on different keys commute (the per-rule goroutines may run in any order) -/
theorem disjoint_keys_commute {K V : Type} [DecidableEq K] (a b : Tab.Cmd K V) (h : a.key ≠ b.key) (t : Tab.T K V) :
    Tab.apply (Tab.apply t a) b = Tab.apply (Tab.apply t b) a := Tab.commute a b h t

/-- a request naming an unknown session is rejected and writes nothing (agent model) -/
theorem unknown_session_writes_nothing (cfg : Agent.Cfg) (w : Agent.World) (a seid : Nat)
    (h : (w.conn a).sessions.find? (·.lseid = seid) = none) :
    (Agent.deleteSession cfg w a seid).1 = w ∧ (Agent.deleteSession cfg w a seid).2.cause = Agent.causeRejected ∧
    (Agent.modify cfg w a { seid := seid }).world = w ∧ (Agent.modify cfg w a { seid := seid }).reply.cause = Agent.causeRejected := by
  simp [Agent.deleteSession, Agent.modify, h]

/-- an establishment without matching association is rejected with "no established association" and writes nothing -/
theorem no_association_writes_nothing (cfg : Agent.Cfg) (w : Agent.World) (a lseid : Nat) (r : Agent.EstReq)
    (h : r.nodeID ≠ (w.conn a).remoteNode) :
    (Agent.establish cfg w a lseid r).1 = w ∧ (Agent.establish cfg w a lseid r).2.cause = Agent.causeNoAssoc := by
  simp [Agent.establish, h]

/-! ### agent level, the four lookup tables with their real key strings -/

/-- **delete key = add key**, all rule sets: after `SendMsgToUPF(add)` and `SendMsgToUPF(del)` of the same stored rules
every lookup table is the table before, less the keys of those rules — nothing else is added, changed or removed -/
theorem delete_key_is_add_key (cfg : Agent.Cfg) (t : Agent.Tables) (pdrs : List Agent.Pdr) (fars : List Agent.Far) (qers : List Agent.Qer) :
    Agent.sendDel cfg (Agent.sendAdd cfg t pdrs fars qers) pdrs fars qers =
      { pdr := t.pdr.without ((Agent.pdrKV pdrs).map (·.1)), far := t.far.without ((Agent.farKV fars).map (·.1)),
        appQer := t.appQer.without ((Agent.appQerKV cfg qers).map (·.1)),
        sessQer := t.sessQer.without ((Agent.sessQerKV cfg qers).map (·.1)) } :=
  Agent.sendDel_sendAdd cfg t pdrs fars qers

/-- an accepted establishment appends the session to the association's store and upserts exactly its rules -/
theorem establishment_upserts_its_rules (cfg : Agent.Cfg) (w : Agent.World) (a lseid : Nat) (r : Agent.EstReq)
    (h : (Agent.establish cfg w a lseid r).2.upSeid.isSome) :
    ∃ s : Agent.Session, s.lseid = lseid ∧
      (Agent.establish cfg w a lseid r).1.tables = Agent.sendAdd cfg w.tables s.pdrs s.fars s.qers ∧
      ((Agent.establish cfg w a lseid r).1.conn a).sessions = (w.conn a).sessions ++ [s] :=
  Agent.establish_tables cfg w a lseid r h

/-- deleting a known session removes exactly the keys of its stored rules from each table -/
theorem deletion_removes_only_the_sessions_keys (cfg : Agent.Cfg) (w : Agent.World) (a seid : Nat) (s : Agent.Session)
    (h : (w.conn a).sessions.find? (·.lseid = seid) = some s) :
    (Agent.deleteSession cfg w a seid).1.tables =
      { pdr := w.tables.pdr.without ((Agent.pdrKV s.pdrs).map (·.1)), far := w.tables.far.without ((Agent.farKV s.fars).map (·.1)),
        appQer := w.tables.appQer.without ((Agent.appQerKV cfg s.qers).map (·.1)),
        sessQer := w.tables.sessQer.without ((Agent.sessQerKV cfg s.qers).map (·.1)) } :=
  Agent.deleteSession_tables cfg w a seid s h

/-- … so an entry under any other key (another session's rule) is still there, unchanged, and nothing remains under a deleted key -/
theorem other_entries_untouched {t : Agent.Table} {K : List String} {e : String × String} (he : e ∈ t) (hk : e.1 ∉ K) : e ∈ t.without K :=
  Agent.Table.mem_without he hk
theorem deleted_keys_gone {t : Agent.Table} {K : List String} {e : String × String} (hk : e.1 ∈ K) : e ∉ t.without K :=
  Agent.Table.not_mem_without hk

/-! non-vacuity: a concrete establishment (uplink + downlink PDR, two FARs, one QER) on an association is accepted, writes two
pdrLookup entries, and its deletion leaves the tables empty again -/
def exCfg : Agent.Cfg := { accessIP := 0xC6120101, coreIP := 0x7F000001, ueAlloc := false, endMarker := false, qci := [] }
def exW : Agent.World := { conns := [(0, { remoteNode := "smf" })] }
def exP1 : Agent.PdrIE := { id := 1, prec := 100, srcIface := some 0, fteid := some (false, 1000, 0xC6120101), ueip := some (2, 0x0A3C0001), ohr := some 0, farID := 1, qerIDs := [1] }
def exP2 : Agent.PdrIE := { id := 2, prec := 100, srcIface := some 1, ueip := some (2, 0x0A3C0001), farID := 2, qerIDs := [1] }
def exF1 : Agent.FarIE := { id := 1, action := 2, fwd := some { dst := some 1 } }
def exF2 : Agent.FarIE := { id := 2, action := 2, fwd := some { dst := some 0, ohc := some (1001, 0xC6120109) } }
def exReq : Agent.EstReq := { nodeID := "smf", cpSeid := 5001, cpIP := 167772161, pdrs := [exP1, exP2], fars := [exF1, exF2], qers := [{ id := 1, qfi := 9, mbrUL := 1000, mbrDL := 2000 }] }
example : (Agent.establish exCfg exW 0 77 exReq).2.upSeid = some 77 := by decide +kernel
example : (Agent.establish exCfg exW 0 77 exReq).1.tables.pdr.length = 2 ∧ (Agent.establish exCfg exW 0 77 exReq).1.tables.far.length = 2 := by decide +kernel
example : (Agent.deleteSession exCfg (Agent.establish exCfg exW 0 77 exReq).1 0 77).1.tables = exW.tables := by decide +kernel

-- non-vacuity: a PDR with a three-port source range has three entries
example : (Agent.pdrEntries { af := { srcPorts := ⟨80#16, 82#16⟩, dstPorts := ⟨0#16, 65535#16⟩ } }).map List.length = some 3 := by decide

open Agent in
section
/-! ### agent level: the tables are the image of the store along every history (establishment, deletion, report
"context not found", association ending, association setup, PFD update — any number of associations and sessions).
`Agent.Inv` = association indices distinct ∧ stored sessions pairwise disjoint in SEID and keys ∧ `ImgOf` (under every
key of each lookup table lies exactly the value the owning session's rules denote; nothing under any other key). The
envelope `EnvOK` is the one of the property: a session that an establishment stores has a SEID and match keys no stored
session has (unambiguous rule sets; C07 gives the SEID part per association). Session Modifications that carry Update FAR IEs only
(handover, idle / active transitions, action changes), Remove PDR / FAR / QER IEs only, or Create PDR / FAR / QER IEs only are inside the theorem, for sessions whose
session-QER marking is stable (and, for removals, whose rules have pairwise different keys);
modifications that mix these kinds of IEs are reduced to them (`mixed_modification_is_three_messages`); modifications that update PDRs or QERs are outside it (open findings: key-changing Update PDR, QER relabelling)
and stay decided per observed history. -/

theorem image_after_establishment (cfg : Cfg) (w : World) (a lseid : Nat) (r : EstReq) (hI : Inv cfg w)
    (henv : (establish cfg w a lseid r).2.upSeid.isSome → ∀ s : Session, newSession cfg w a lseid r = some s → ∀ s' ∈ allSessions w, Disj cfg s s') :
    Inv cfg (establish cfg w a lseid r).1 := establish_inv cfg w a lseid r hI henv

theorem image_after_deletion (cfg : Cfg) (w : World) (a seid : Nat) (hI : Inv cfg w) : Inv cfg (deleteSession cfg w a seid).1 :=
  delete_inv cfg w a seid hI

theorem image_after_report_context_not_found (cfg : Cfg) (w : World) (a seid : Nat) (hI : Inv cfg w) :
    Inv cfg (reportContextNotFound cfg w a seid) := report_inv cfg w a seid hI

theorem image_after_association_end (cfg : Cfg) (w : World) (a : Nat) (hI : Inv cfg w) : Inv cfg (shutdownConn cfg w a) :=
  shutdown_inv cfg w a hI

/-- a refused establishment — wrong node ID, a Create PDR or Create FAR that does not parse, no TEID or address left — writes nothing to the
datapath and stores nothing (what it had acquired is given back: `establishment_keeps_chosen_teids_distinct`, C05) -/
theorem refused_establishment_writes_nothing (cfg : Cfg) (w : World) (a lseid : Nat) (r : EstReq)
    (h : (establish cfg w a lseid r).2.upSeid = none) :
    (establish cfg w a lseid r).1.tables = w.tables ∧ (establish cfg w a lseid r).1.conns = w.conns := by
  rcases establish_cases cfg w a lseid r with ⟨hc, ht, _⟩ | ⟨s, _, _, _, _, hu⟩
  · exact ⟨ht, hc⟩
  · rw [hu] at h; cases h

/-- a modification that only updates FARs — accepted, or refused because an Update FAR does not parse — upserts farLookup entries under
the keys the session already has (the key determines the FAR ID: `farKey_inj`), so the tables stay the image of the store -/
theorem image_after_far_update (cfg : Cfg) (w : World) (a : Nat) (r : ModReq) (s0 : Session) (hI : Inv cfg w) (hr : FarOnly r)
    (h : (w.conn a).sessions.find? (·.lseid = r.seid) = some s0)
    (hstable : markSessionQer s0.pdrs s0.qers = (s0.qers, s0.pdrs))
    (hwf : ∀ q ∈ s0.fars, q.fseID = s0.lseid) : Inv cfg (modify cfg w a r).world := modFar_inv cfg w a r s0 hI hr h hstable hwf

/-- a modification that only removes rules (Remove PDR / FAR / QER) — accepted, or refused because an ID is unknown — deletes the entries of
the removed rules and nothing else: the tables stay the image of the store, for a session whose rules have pairwise different keys -/
theorem image_after_removal (cfg : Cfg) (w : World) (a : Nat) (r : ModReq) (s0 : Session) (hI : Inv cfg w) (hr : RemOnly r)
    (h : (w.conn a).sessions.find? (·.lseid = r.seid) = some s0)
    (hstable : markSessionQer s0.pdrs s0.qers = (s0.qers, s0.pdrs)) (hnd : SelfNodup cfg s0) :
    Inv cfg (modify cfg w a r).world := modRem_inv cfg w a r s0 hI hr h hstable hnd

/-- a modification that only creates rules (Create PDR / FAR / QER) — accepted, or refused while parsing — upserts the created rules'
entries over the session's: the tables stay the image of the store, for new rule IDs and keys no other session has (`AddEnv`) -/
theorem image_after_creation (cfg : Cfg) (w : World) (a : Nat) (r : ModReq) (s0 : Session) (hI : Inv cfg w) (hW : FarWf w) (hr : AddOnly r)
    (h : (w.conn a).sessions.find? (·.lseid = r.seid) = some s0)
    (henv : ∀ cp pool1 cf, parsePdrs r.seid (fseidIPOf' r) (w.conn a).apps r.createPdrs w.pool = .ok (cp, pool1) →
      mapFars cfg r.seid (fseidIPOf' r) false r.createFars = .ok cf → AddEnv cfg w r s0 cp cf) :
    Inv cfg (modify cfg w a r).world := (modAdd_inv cfg w a r s0 hI hW hr h henv).1

/-- **one message = three messages**: an accepted Session Modification that creates rules, updates FARs and removes rules in one message
(no Update PDR / Update QER) leaves store, tables, TEIDs and pool exactly as its create part, its Update FAR part and its remove part sent
one after the other would — so it keeps the tables the image of the store whenever the three parts are in the envelope -/
theorem mixed_modification_is_three_messages (cfg : Cfg) (w : World) (a : Nat) (r : ModReq) (s0 : Session) (hm : MixedOk cfg w a r s0) :
    (modify cfg w a r).world = [Ev.modAdd a (rAdd r), Ev.modFar a (rUpd r), Ev.modRem a (rRem r)].foldl (stepEv cfg) w := hm.world

theorem image_after_mixed_modification (cfg : Cfg) (w : World) (a : Nat) (r : ModReq) (s0 : Session) (hm : MixedOk cfg w a r s0)
    (hI : Inv cfg w) (hW : FarWf w) (henv : EnvOK cfg w [Ev.modAdd a (rAdd r), Ev.modFar a (rUpd r), Ev.modRem a (rRem r)]) :
    Inv cfg (modify cfg w a r).world := by
  rw [hm.world]; exact (inv_run cfg _ w hI hW henv).1

/-- **every FAR has one entry with what the control plane sent**: along every history in the envelope, for every stored session whose rules
have pairwise different keys, farLookup holds under the FAR's key (FAR ID, SEID) exactly the entry `addFAR` builds from the stored rule:
action (`setActionValue`), tunnel type, addresses, TEID and port -/
theorem stored_far_is_programmed (cfg : Cfg) (w : World) (hI : Inv cfg w) (s : Session) (hs : s ∈ allSessions w) (hnd : SelfNodup cfg s)
    (f : Far) (hf : f ∈ s.fars) : (w.tables.tab .far).get (farEntry f).1 = some (farEntry f).2 := by
  have hm : farEntry f ∈ s.kv cfg .far := List.mem_map_of_mem hf
  exact (hI.img .far _ _).mpr ⟨s, hs, (lastVal_of_nodup _ (hnd .far) _ _).mpr hm⟩

/-- … and every entry the PDR's port product yields lies in pdrLookup with the PDR's session, FAR, first QER, decapsulation flag and
priority `MaxUint32 − precedence` -/
theorem stored_pdr_is_programmed (cfg : Cfg) (w : World) (hI : Inv cfg w) (s : Session) (hs : s ∈ allSessions w) (hnd : SelfNodup cfg s)
    (p : Pdr) (hp : p ∈ s.pdrs) (es : List (String × String)) (hes : pdrEntries p = some es) (e : String × String) (he : e ∈ es) :
    (w.tables.tab .pdr).get e.1 = some e.2 := by
  have hm : e ∈ s.kv cfg .pdr := by
    show e ∈ pdrKV s.pdrs
    unfold pdrKV
    exact List.mem_flatMap.mpr ⟨p, hp, by rw [hes]; exact he⟩
  exact (hI.img .pdr _ _).mpr ⟨s, hs, (lastVal_of_nodup _ (hnd .pdr) _ _).mpr hm⟩

/-- what `image_after_far_update` asks of the stored FARs is an invariant, not an assumption: along every history every stored FAR carries
the SEID of its session (`parseFAR` writes it, `UpdateFAR` keeps it) -/
theorem stored_fars_carry_the_seid (cfg : Cfg) (pool : Option Pool.P) (g : Teid.G) (evs : List Ev)
    (henv : EnvOK cfg { pool := pool, teid := g } evs) : FarWf (evs.foldl (stepEv cfg) { pool := pool, teid := g }) :=
  (inv_run cfg evs _ (inv_start cfg pool g) (farwf_start pool g) henv).2

/-- the invariant is the statement about `Agent.image` (the specification the trace oracle evaluates): each lookup
table, read as a map, is the table obtained by installing every stored session's rules on empty tables -/
theorem invariant_is_image (cfg : Cfg) (w : World) (hI : Inv cfg w) (X : Tb) (k : String) :
    (w.tables.tab X).get k = ((image cfg w).tab X).get k := inv_iff_image cfg w hI X k

/-- **from start-up on, after every request of every history in the envelope, the four BESS lookup tables are exactly
the image of the stored sessions** -/
theorem tables_are_the_image_along_every_history (cfg : Cfg) (pool : Option Pool.P) (g : Teid.G) (evs : List Ev)
    (henv : EnvOK cfg { pool := pool, teid := g } evs) (X : Tb) (k : String) :
    ((evs.foldl (stepEv cfg) { pool := pool, teid := g }).tables.tab X).get k =
      ((image cfg (evs.foldl (stepEv cfg) { pool := pool, teid := g })).tab X).get k :=
  inv_iff_image cfg _ (inv_run cfg evs _ (inv_start cfg pool g) (farwf_start pool g) henv).1 X k

/-- and an ended session has left nothing: a key is present only if a stored session has it -/
theorem nothing_else_is_present (cfg : Cfg) (w : World) (hI : Inv cfg w) (X : Tb) (k v : String)
    (h : (w.tables.tab X).get k = some v) : ∃ s ∈ allSessions w, k ∈ s.keysOf cfg X := by
  obtain ⟨s, hs, hv⟩ := (hI.img X k v).mp h
  exact ⟨s, hs, key_of_lastVal hv⟩

-- non-vacuity: two sessions with different TEIDs / UE addresses on one association satisfy the envelope; a second
-- association's session too; the run installs 4 + 2 pdrLookup entries and the deletion of the first leaves 4
def exP1b : Agent.PdrIE := { exP1 with fteid := some (false, 2000, 0xC6120101), ueip := some (2, 0x0A3C0002) }
def exP2b : Agent.PdrIE := { exP2 with ueip := some (2, 0x0A3C0002) }
def exReq2 : Agent.EstReq := { exReq with cpSeid := 5002, pdrs := [exP1b, exP2b] }
def exW1 : Agent.World := (Agent.establish exCfg exW 0 77 exReq).1
-- a handover of the first session (Update FAR 2 only) is in the envelope: FAR-only, stable marking
example : FarOnly { seid := 77, updateFars := [{ exF2 with fwd := some { dst := some 0, ohc := some (2001, 0xC612010A) } }] } ∧
    (∀ s0 ∈ (exW1.conn 0).sessions, markSessionQer s0.pdrs s0.qers = (s0.qers, s0.pdrs)) := by
  refine ⟨⟨rfl, rfl, rfl, rfl, rfl, rfl, rfl, rfl⟩, ?_⟩
  decide +kernel
-- … and so is the removal of its downlink rule: the session's keys are pairwise different
example : RemOnly { seid := 77, removePdrs := [2], removeFars := [2] } ∧ (∀ s0 ∈ (exW1.conn 0).sessions, SelfNodup exCfg s0) := by
  refine ⟨⟨rfl, rfl, rfl, rfl, rfl, rfl⟩, ?_⟩
  intro s0 hs0 X
  have : ∀ s ∈ (exW1.conn 0).sessions, (s.keysOf exCfg .pdr).Nodup ∧ (s.keysOf exCfg .far).Nodup ∧ (s.keysOf exCfg .app).Nodup ∧ (s.keysOf exCfg .sess).Nodup := by
    decide +kernel
  cases X
  · exact (this s0 hs0).1
  · exact (this s0 hs0).2.1
  · exact (this s0 hs0).2.2.1
  · exact (this s0 hs0).2.2.2
example : (Agent.establish exCfg exW1 0 78 exReq2).2.cause = 1 ∧ (Agent.establish exCfg exW1 0 78 exReq2).1.tables.pdr.length = 4 := by decide +kernel
example : (allSessions exW1).length = 1 := by decide +kernel
example : ∀ s, newSession exCfg exW1 0 78 exReq2 = some s → ∀ s' ∈ allSessions exW1, Disj exCfg s s' := by
  intro s hs
  have hmem : s ∈ ((Agent.establish exCfg exW1 0 78 exReq2).1.conn 0).sessions := List.mem_of_find?_eq_some hs
  have hl : s.lseid = 78 := by simpa using List.find?_some hs
  have hall : ∀ s ∈ ((Agent.establish exCfg exW1 0 78 exReq2).1.conn 0).sessions, s.lseid = 78 → ∀ s' ∈ allSessions exW1, Disj exCfg s s' := by
    decide +kernel
  exact hall s hmem hl

end

-- a creation on the first session: an uplink PDR under another TEID with its own FAR
section
open Agent
def exAddPdr : PdrIE := { id := 3, prec := 50, srcIface := some 0, fteid := some (false, 3000, 0xC6120101), ueip := some (2, 0x0A3C0001), ohr := some 0, farID := 3, qerIDs := [1] }
def exAddFar : FarIE := { id := 3, action := 2, fwd := some { dst := some 1 } }
def exAdd : ModReq := { seid := 77, createPdrs := [exAddPdr], createFars := [exAddFar] }
def exCP : List Pdr := match parsePdrs 77 0 (exW1.conn 0).apps exAdd.createPdrs exW1.pool with | .ok (cp, _) => cp | .error _ => []
def exCF : List Far := match mapFars exCfg 77 0 false exAdd.createFars with | .ok cf => cf | .error _ => []
example : exCP.length = 1 ∧ exCF.length = 1 := by decide +kernel
-- the created rules satisfy the envelope of `image_after_creation` (one stored session: no other session's keys to avoid)
example : AddOnly exAdd ∧ ∀ s0 ∈ (exW1.conn 0).sessions,
    markSessionQer (s0.pdrs ++ exCP) (s0.qers ++ createdQers exAdd) = (s0.qers ++ createdQers exAdd, s0.pdrs ++ exCP) ∧
    (∀ p ∈ exCP, ∀ q ∈ s0.pdrs, q.pdrID ≠ p.pdrID) ∧ (exCP.map (·.pdrID)).Nodup ∧ (∀ p ∈ exCP, p.chooseTeid = false) := by
  refine ⟨⟨rfl, rfl, rfl, rfl, rfl, rfl⟩, ?_⟩
  decide +kernel
-- and the modification is accepted and adds one pdrLookup entry and one FAR
example : (modify exCfg exW1 0 exAdd).reply.cause = 1 ∧ (modify exCfg exW1 0 exAdd).world.tables.pdr.length = 3 ∧
    (modify exCfg exW1 0 exAdd).world.tables.far.length = 3 := by decide +kernel
end


section
open Agent
-- one message: create the uplink rule of `exAdd`, hand FAR 2 over to another gNB, remove PDR 1 with FAR 1
def exMixFar : FarIE := { id := 2, action := 2, fwd := some { dst := some 0, ohc := some (2001, 0xC612010A) } }
def exMix : ModReq := { seid := 77, createPdrs := [exAddPdr], createFars := [exAddFar], updateFars := [exMixFar], removePdrs := [1], removeFars := [1] }
def exS0 : Session := ((exW1.conn 0).sessions.head?).getD { lseid := 0, rseid := 0 }
def exUF : List Far := match mapFars exCfg 77 0 true exMix.updateFars with | .ok uf => uf | .error _ => []
def exRP : List Pdr × List Pdr := (removeAll (·.pdrID) (exS0.pdrs ++ exCP) exMix.removePdrs).getD ([], [])
def exRF : List Far × List Far := (removeAll (·.farID) (updFars (exS0.fars ++ exCF) exUF).1 exMix.removeFars).getD ([], [])
def exRQ : List Qer × List Qer := (removeAll (·.qerID) (exS0.qers ++ createdQers exMix) exMix.removeQers).getD ([], [])
example : (modify exCfg exW1 0 exMix).reply.cause = 1 ∧ (modify exCfg exW1 0 exMix).world.tables.pdr.length = 2 ∧
    (modify exCfg exW1 0 exMix).world.tables.far.length = 2 := by decide +kernel
example : MixedOk exCfg exW1 0 exMix exS0 := by
  have hpar : ∃ v, parsePdrs exMix.seid (fseidIPOf' exMix) (exW1.conn 0).apps exMix.createPdrs exW1.pool = .ok v := by
    cases h : parsePdrs exMix.seid (fseidIPOf' exMix) (exW1.conn 0).apps exMix.createPdrs exW1.pool with
    | ok v => exact ⟨v, rfl⟩
    | error e =>
      have : exCP.length = 1 := by decide +kernel
      simp [exCP, exAdd, exMix, fseidIPOf'] at this h
      simp [h] at this
  obtain ⟨v, hv⟩ := hpar
  have hcp : v.1 = exCP := by
    have h' : parsePdrs 77 0 (exW1.conn 0).apps exAdd.createPdrs exW1.pool = .ok v := hv
    simp [exCP, h']
  refine ⟨⟨rfl, rfl⟩, by decide +kernel, exCP, v.2, exCF, exUF, exRP.1, exRP.2, exRF.1, exRF.2, exRQ.1, exRQ.2, ?_, ?_, ?_, ?_⟩
  · rw [hv, ← hcp]
  · show mapFars exCfg 77 0 false exAdd.createFars = .ok exCF
    cases h : mapFars exCfg 77 0 false exAdd.createFars with
    | ok cf => simp [exCF, h]
    | error e =>
      have : exCF.length = 1 := by decide +kernel
      simp [exCF, h] at this
  · show mapFars exCfg 77 0 true exMix.updateFars = .ok exUF
    cases h : mapFars exCfg 77 0 true exMix.updateFars with
    | ok uf => simp [exUF, h]
    | error e =>
      have : exUF.length = 1 := by decide +kernel
      simp [exUF, h] at this
  · decide +kernel
end

/-! ### ties to the regenerated leaf functions (T1): the model's action encoding and allocation test ARE the Go functions -/

/-- `bess.setActionValue` (regenerated from bess.go) is the model's `actionValue`, every destination-interface and apply-action byte -/
theorem action_encoding_is_the_code (d a : BitVec 8) :
    (Gen.Leaf.bess_setActionValue d a).toNat = Agent.actionValue { dstIntf := d.toNat, applyAction := a.toNat } := Agent.actionValue_gen d a

/-- `needAllocIP` / `has2ndBit` / `has5thBit` (regenerated from parse_pdr.go / utils.go) are the model's, all 256 flag bytes -/
theorem alloc_test_is_the_code : ∀ f < 256, Gen.Leaf.needAllocIP (BitVec.ofNat 8 f) = Agent.needAllocIP f := Agent.needAllocIP_gen

end Props.C03
