import Upf.Proofs.Denote
import Upf.Proofs.Ref
import Upf.Proofs.Tab
import Upf.Model.AgentMod
/-!
# C03 — BESS tables are exactly the image of the live sessions' rules

Three layers.
1. Packet level (`Tern.entries_denote`): the pdrLookup entries written for a PDR classify exactly the packets the
   PDR denotes — for ALL packets of the eight match fields and all PDRs whose port pair is accepted.
2. Table level (`Ref`, `Tab`): on keyed tables with upsert/delete (the semantics of the lookup modules), the commands of
   an establishment / a deletion turn the image of the stored sessions into the image of the new store; command
   streams on disjoint keys commute, so the goroutine fan-out of bess.go does not matter.
3. Agent level (`Agent.establish`, `Agent.modify`, `Agent.deleteSession`, `Agent.image`): the executable model of the
   handlers, tied to the real agent by trace acceptance; `Agent.image` is the specification the oracle evaluates.
   The refinement of layer 2 is proved on the reduced table model (`Ref`: FAR table), not yet on `Agent` — partial.
-/
namespace Props.C03
open Tern

/-- a packet is classified to the PDR by some written entry iff it matches the PDR's source interface, tunnel
endpoint, UE/remote addresses, ports and protocol — all packets, symbolic -/
theorem entries_denote (p : PdrM) (es : List Entry) (h : pdrEntries p = some es) (k : Pkt) :
    (∃ e ∈ es, e.matches k) ↔ p.denotes k := Tern.entries_denote p es h k

/-- priorities order PDRs as their precedence does (lower precedence value = higher priority), without wrap-around -/
theorem priority_order (a b : BitVec 32) (h : a.toNat < b.toNat) :
    (0xFFFFFFFF#32 - b).toNat < (0xFFFFFFFF#32 - a).toNat := Tern.priority_order a b h

/-- the agent model writes one entry per rule of the same port product, priority `MaxUint32 − precedence` -/
theorem agent_entries_from_product (p : Agent.Pdr) :
    (Agent.pdrEntries p).map List.length = (cartesian p.af.srcPorts p.af.dstPorts).map List.length := by
  unfold Agent.pdrEntries
  cases cartesian p.af.srcPorts p.af.dstPorts <;> simp

/-- establishment on the table model: the add commands turn the image of the store into the image of the store plus the session -/
theorem est_refines (store : List Ref.Sess) (seid : Nat) (fars : List Ref.Far)
    (hfresh : ∀ s ∈ store, s.seid ≠ seid) (hnd : (fars.map (·.id)).Nodup) :
    Tab.run (Ref.image store) (Ref.addCmds seid fars) = Ref.image (⟨seid, fars⟩ :: store) :=
  Ref.est_refines store seid fars hfresh hnd

/-- deletion on the table model: the delete commands remove exactly the session's entries -/
theorem del_refines (store : List Ref.Sess) (s : Ref.Sess) (hfresh : ∀ x ∈ store, x.seid ≠ s.seid) :
    Tab.run (Ref.image (s :: store)) (Ref.delCmds s.seid s.fars) = Ref.image store :=
  Ref.del_refines store s hfresh

/-- commands on different keys commute (the per-rule goroutines may run in any order) -/
theorem disjoint_keys_commute {K V : Type} [DecidableEq K] (a b : Tab.Cmd K V) (h : a.key ≠ b.key) (t : Tab.T K V) :
    Tab.apply (Tab.apply t a) b = Tab.apply (Tab.apply t b) a := Tab.commute a b h t

/-- a request naming an unknown session is rejected and writes nothing (agent model) -/
theorem unknown_session_writes_nothing (cfg : Agent.Cfg) (w : Agent.World) (a seid : Nat)
    (h : (w.conn a).sessions.find? (·.lseid = seid) = none) :
    (Agent.deleteSession cfg w a seid).1 = w ∧ (Agent.deleteSession cfg w a seid).2.cause = Agent.causeRejected ∧
    (Agent.modify cfg w a { seid := seid }).world = w ∧ (Agent.modify cfg w a { seid := seid }).reply.cause = Agent.causeRejected := by
  simp [Agent.deleteSession, Agent.modify, h]

/-- an establishment without matching association is rejected with "no established association" and writes nothing -/
theorem no_association_writes_nothing (cfg : Agent.Cfg) (w : Agent.World) (a lseid : Nat) (r : Agent.EstReq)
    (h : r.nodeID ≠ (w.conn a).remoteNode) :
    (Agent.establish cfg w a lseid r).1 = w ∧ (Agent.establish cfg w a lseid r).2.cause = Agent.causeNoAssoc := by
  simp [Agent.establish, h]

-- non-vacuity: a PDR with a three-port source range has three entries
example : (Agent.pdrEntries { af := { srcPorts := ⟨80#16, 82#16⟩, dstPorts := ⟨0#16, 65535#16⟩ } }).map List.length = some 3 := by decide

end Props.C03
