import Upf.Proofs.Notif
import Upf.Model.Digest
/-!
# C13 — Downlink data notifications reach the control plane once per interval

`Notif.shouldNotify` transcribes `downlinkDataNotifier.shouldNotify` with an explicit clock; `Agent.digestReport`
transcribes `handleDigestReport`. Statements hold for every monotone time-stamped report sequence over any number of
sessions, every interval, every stored session.
-/
namespace Props.C13
open Notif

/-- a first report for a session is never suppressed -/
theorem first_passes (iv : Nat) (st : St) (t f : Nat) (rest : List (Nat × Nat)) (h : st.last f = none) :
    (t, f) ∈ run iv st ((t, f) :: rest) := Notif.first_passes iv st t f rest h

/-- after a notification for `f` was forwarded at `t0`, every later forwarded notification for `f` is at least one
interval later — however many reports arrive, for any number of other sessions in between -/
theorem spacing (iv : Nat) (evs : List (Nat × Nat)) (st : St) (f t0 : Nat)
    (h0 : st.last f = some t0) (hge : ∀ e ∈ evs, t0 ≤ e.1) (hm : Mono evs) :
    ∀ e ∈ run iv st evs, e.2 = f → e.1 ≥ t0 + iv := Notif.spacing_aux iv evs st f t0 h0 hge hm

/-- a report inside the interval is suppressed and leaves the state unchanged -/
theorem suppressed_inside (iv : Nat) (st : St) (now f t : Nat) (h : st.last f = some t) (hlt : now - t < iv) :
    shouldNotify iv st now f = (false, st) := by
  simp [shouldNotify, h, Nat.not_le.mpr hlt]

/-- a report at or after the interval passes -/
theorem passes_after (iv : Nat) (st : St) (now f t : Nat) (h : st.last f = some t) (hge : now - t ≥ iv) :
    (shouldNotify iv st now f).1 = true := by
  simp [shouldNotify, h, hge]

/-- T1: the interval both datapaths pass to the notifier is 20 s -/
theorem interval_20s : Gen.Consts.notifyIntervalNs_notifyListen = 20000000000 := by decide

open Agent

/-- what is reported: the control plane's SEID and the session's FIRST downlink PDR; only if that PDR's FAR (when the
session has it) asks for notification -/
theorem report_shape (s : Session) (seid pid : Nat) (h : digestReport s = some (seid, pid)) :
    seid = s.rseid ∧ pid ≠ 0 ∧ ∃ p, s.pdrs.find? (·.srcIface = Sdf.core) = some p ∧ p.pdrID = pid ∧
      ∀ f ∈ s.fars, f.farID = p.farID → f.applyAction &&& ActionNotify ≠ 0 := by
  unfold digestReport at h
  cases hp : s.pdrs.find? (·.srcIface = Sdf.core) with
  | none => simp [hp] at h
  | some p =>
    simp only [hp] at h
    split at h
    · cases h
    · rename_i hany
      split at h
      · cases h
      · rename_i hz
        cases h
        refine ⟨rfl, hz, p, rfl, rfl, ?_⟩
        intro f hf hid hbit
        apply hany
        simp only [List.any_eq_true, decide_eq_true_eq]
        exact ⟨f, hf, hid, hbit⟩

/-- a downlink rule that does not ask for notification: nothing is sent -/
theorem no_report_without_notify (s : Session) (p : Pdr) (f : Far)
    (hp : s.pdrs.find? (·.srcIface = Sdf.core) = some p) (hf : f ∈ s.fars) (hid : f.farID = p.farID)
    (hbit : f.applyAction &&& ActionNotify = 0) : digestReport s = none := by
  unfold digestReport
  simp only [hp]
  simp only [List.any_eq_true, decide_eq_true_eq]
  have : ∃ x, x ∈ s.fars ∧ x.farID = p.farID ∧ x.applyAction &&& ActionNotify = 0 := ⟨f, hf, hid, hbit⟩
  simp [this]

-- non-vacuity
example : run 20 { last := fun _ => none } [(0, 1), (5, 1), (5, 2), (19, 1), (20, 1), (25, 2), (41, 1)] = [(0, 1), (5, 2), (20, 1), (25, 2), (41, 1)] := by decide
example : digestReport ⟨1, 9, [{ srcIface := 1, pdrID := 1, farID := 1 }, { srcIface := 2, pdrID := 2, farID := 2 }],
    [{ farID := 2, applyAction := 12 }], []⟩ = some (9, 2) := by decide

end Props.C13
