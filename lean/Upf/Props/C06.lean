import Upf.Proofs.IPPool
import Upf.Proofs.NewPool
import Upf.Proofs.Lockset
import Upf.Model.LockFacts
import Upf.Proofs.PoolWorld
import Upf.Proofs.History
import Upf.Proofs.AnyHistory
/-!
# C06 — UE IP pool: in range, exclusive, sticky, conserved

`Pool.P` transcribes `IPPool` (`freePool` as a FIFO list, `inventory` as an association list);
`NewPool.newPool` transcribes `NewIPPool` for IPv4 prefixes. All statements are for every pool, every
session id and every operation sequence — no bound on length or on the number of sessions.
-/
namespace Props.C06
open Pool

/-- construction: for every prefix of length ≤ 30 the pool holds exactly the addresses strictly between
the network and the broadcast address, each once -/
theorem newPool_ok (ip : NewPool.U32) (len : Nat) (hl : len ≤ 30) :
    ∃ l, NewPool.newPool ip len = some l ∧ l.Nodup ∧ l.length = 2 ^ (32 - len) - 2 ∧
      ∀ a, a ∈ l ↔ ((ip &&& NewPool.maskOf len).toNat < a ∧ a < (ip &&& NewPool.maskOf len).toNat + 2 ^ (32 - len) - 1) :=
  NewPool.newPool_spec ip len hl

/-- the invariant (free ++ held is a permutation of the pool; no session twice) holds in every reachable state -/
theorem reachable (base : List Nat) (h : base.Nodup) (ops : List Op) :
    Inv base (ops.foldl step { free := base, inv := [] }) := Pool.reachable base h ops

/-- exclusive: no address is held by two sessions -/
theorem exclusive (base : List Nat) (p : P) (h : Inv base p) (s1 s2 a : Nat)
    (h1 : (s1, a) ∈ p.inv) (h2 : (s2, a) ∈ p.inv) : s1 = s2 := Pool.exclusive base p h s1 s2 a h1 h2

/-- in range: whatever is handed out is an address of the pool -/
theorem in_range (base : List Nat) (p : P) (h : Inv base p) (s a : Nat)
    (ha : (alloc p s).1 = some a) : a ∈ base := Pool.alloc_from_base base p h s a ha

/-- sticky: asking again for the same session returns the same address -/
theorem sticky (p : P) (s a : Nat) (h : (alloc p s).1 = some a) :
    (alloc (alloc p s).2 s).1 = some a := Pool.sticky p s a h

/-- refused only when the session holds nothing and no address is free -/
theorem refuse_iff_full (p : P) (s : Nat) :
    (alloc p s).1 = none ↔ (lookup p s = none ∧ p.free = []) := Pool.refuse_iff_full p s

/-- conservation in every reachable state: #free + #held = pool size -/
theorem conserved (base : List Nat) (h : base.Nodup) (ops : List Op) :
    let p := ops.foldl step { free := base, inv := [] }
    p.free.length + p.inv.length = base.length := by
  intro p
  have := (Pool.reachable base h ops).perm.length_eq
  simpa using this

/-- release makes exactly the session's address reusable: it is appended to the free list and only the
session's entry leaves the inventory -/
theorem release_exact (p : P) (s a : Nat) (h : lookup p s = some a) :
    dealloc p s = (true, { free := p.free ++ [a], inv := p.inv.filter (·.1 != s) }) := by
  simp [dealloc, h]

/-- releasing a session that holds nothing changes nothing -/
theorem release_unknown (p : P) (s : Nat) (h : lookup p s = none) : dealloc p s = (false, p) := by
  simp [dealloc, h]

/-- mutual exclusion: under the lock discipline (every access to a location is issued by a thread that
holds the location's mutex — the regenerated fact `Gen.Locks`), two threads are never inside accesses
guarded by the same mutex, in any interleaving -/
theorem interleavings_exclusive (guard : Lockset.Loc → Lockset.Lock) (acts : List Lockset.Act) (s s' : Lockset.St)
    (h0 : Lockset.Inv guard s) (hr : Lockset.run guard s acts = some s') (t u : Lockset.Tid) (x y : Lockset.Loc)
    (htu : t ≠ u) (hx : s'.inside t = some x) (hy : s'.inside u = some y) : guard x ≠ guard y :=
  Lockset.race_free guard acts s s' h0 hr t u x y htu hx hy

/-- T1 fact, regenerated from ip_pool.go on every run: every `*IPPool` method that touches `freePool` or
`inventory` starts with `i.mu.Lock(); defer i.mu.Unlock()`, and nothing outside the type touches them -/
theorem ipPool_atomic : Gen.Locks.IPPool.atomic = true := by decide

-- non-vacuity: a /30 pool, two sessions, a third is refused, release, the address comes back
example : (NewPool.newPool 0x0A000000#32 30) = some [167772161, 167772162] := by decide
example :
    let p0 : P := { free := [1, 2], inv := [] }
    let p1 := (alloc p0 7).2; let p2 := (alloc p1 8).2
    (alloc p2 9).1 = none ∧ (alloc p2 7).1 = some 1 ∧ (alloc (dealloc p2 7).2 9).1 = some 1 := by decide

/-! ### at the level of the agent: the pool as the handlers use it (BESS agent model, any number of associations) -/

/-- **along every history** of association setups, PFD updates, establishments (accepted, or refused at any point after an address was
taken), deletions, reports "context not found", association endings, FAR-updating and rule-removing modifications, starting from the freshly built
pool: the pool invariant holds (free ++ held is a permutation of the configured addresses — so no address is held twice and none is
lost — and no session holds two), and every held address is held under the SEID of a stored session -/
theorem pool_invariant_along_every_history (base : List Nat) (hb : base.Nodup) (cfg : Agent.Cfg) (g : Teid.G) (evs : List Agent.Ev)
    (henv : Agent.EnvOK cfg { pool := some { free := base, inv := [] }, teid := g } evs) :
    let w := evs.foldl (Agent.stepEv cfg) { pool := some { free := base, inv := [] }, teid := g }
    Agent.PoolInv base w.pool ∧ Agent.Owned w := by
  refine Agent.pool_run base cfg evs _ (Agent.inv_start cfg _ g) (Agent.farwf_start _ g) henv ?_ ?_
  · exact ⟨by simp, hb, by simp⟩
  · intro k hk; simp [Agent.poolKeys] at hk

/-- **no envelope at all**: after EVERY sequence of requests on the agent model — association setups, PFD updates, establishments,
Session Modifications with any mix of create / update / remove IEs, deletions, reports, association endings, each accepted or
refused at any point, over any number of associations — the pool invariant holds: free ++ held is a permutation of the configured
addresses (none handed out twice, none lost) and no session holds two -/
theorem pool_invariant_after_any_requests (base : List Nat) (hb : base.Nodup) (cfg : Agent.Cfg) (g : Teid.G) (qs : List Agent.Req) :
    Agent.PoolInv base (qs.foldl (Agent.stepReq cfg) { pool := some { free := base, inv := [] }, teid := g }).pool :=
  Agent.pool_any_history base cfg qs _ ⟨by simp, hb, by simp⟩

/-- one step of it: every Session Modification, whatever it carries, keeps the invariant, and only the session it names can come
to hold an address through it -/
theorem any_modification_keeps_pool (base : List Nat) (cfg : Agent.Cfg) (w : Agent.World) (a : Nat) (r : Agent.ModReq)
    (hP : Agent.PoolInv base w.pool) :
    Agent.PoolInv base (Agent.modify cfg w a r).world.pool ∧
    ∀ k ∈ Agent.poolKeys (Agent.modify cfg w a r).world.pool, k ∈ Agent.poolKeys w.pool ∨ k = r.seid :=
  Agent.modify_pool_any base cfg w a r hP

/-- and only establishments and modifications ever take an address: after any other request (deletion, report, association setup or
ending, PFD update) every session that holds an address held it before -/
theorem only_establishments_and_modifications_take_addresses (cfg : Agent.Cfg) (w : Agent.World) (q : Agent.Req)
    (hq : q.mayAllocate = false) (k : Nat) (h : k ∈ Agent.poolKeys (Agent.stepReq cfg w q).pool) : k ∈ Agent.poolKeys w.pool :=
  Agent.only_est_or_mod_take_addresses cfg w q hq k h

end Props.C06
