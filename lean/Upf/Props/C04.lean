import Upf.Model.AgentUp4
import Upf.Proofs.Up4Meters
import Upf.Proofs.Up4Start
import Upf.Proofs.Up4Refs
/-!
# C04 — UP4 tables are the image of the live sessions' rules

The full statement — `tables = image(live sessions)` after every accepted request of every history — is NOT a theorem
of the model of the current code: the correspondence run finds histories on which the real plug-in (and the model, which
predicts it) leaves the switch different from the image (a refused request is not rolled back; the reference of a FAR
whose tunnel changed is never dropped; Remove PDR deletes a shared sessions entry; a changed application filter keeps
its old reference). They are listed in known_findings.json and reported as KNOWN-FINDING by the check. What is proved
here is the part of the statement that is decision logic and reference counting, for all inputs (`…_partial` in the sense
of DESIGN.md); the image itself is decided per observed history by the acceptor (`Check/P4.lean`, `imageFindings`), which
compares the harness' P4Runtime server with `Agent4.pdrImage` after every response.
-/
namespace C04
open Up4 Agent

/-- the action of a terminations entry follows FAR and QER, uplink: drop iff the FAR drops or the uplink gate is closed;
otherwise forward with the traffic class, the application meter cell and the PDR's counter -/
theorem uplink_termination_action (p : Pdr) (m : Meter) (f : Far) (appID qfi tc : Nat) (q : Qer) (ha : p.srcIface = Sdf.access) :
    ∃ e, buildTerminations p m f appID qfi tc q = some e ∧
      e.table = Gen.P4Constants.TablePreQosPipeTerminationsUplink ∧
      e.ms = [⟨1, .exact, p.ueAddress, 0, 4⟩, ⟨2, .exact, appID, 0, 1⟩] ∧
      (if drops f || q.ulStatus == gateClosed
       then e.action = Gen.P4Constants.ActionPreQosPipeUplinkTermDrop ∧ e.ps = [(1, p.ctrID, 4)]
       else e.action = Gen.P4Constants.ActionPreQosPipeUplinkTermFwd ∧ e.ps = [(2, tc, 1), (3, m.ul, 4), (1, p.ctrID, 4)]) := by
  cases hd : (drops f || q.ulStatus == gateClosed)
  · exact ⟨_, by simp only [buildTerminations, ha, if_true, hd]; rfl, rfl, rfl, by simp⟩
  · exact ⟨_, by simp only [buildTerminations, ha, if_true, hd]; rfl, rfl, rfl, by simp⟩

/-- downlink: drop iff the FAR drops or the downlink gate is closed; otherwise forward with the FAR's TEID, the QFI, the
traffic class, the application meter cell and the PDR's counter -/
theorem downlink_termination_action (p : Pdr) (m : Meter) (f : Far) (appID qfi tc : Nat) (q : Qer) (hc : p.srcIface = Sdf.core) :
    ∃ e, buildTerminations p m f appID qfi tc q = some e ∧
      e.table = Gen.P4Constants.TablePreQosPipeTerminationsDownlink ∧
      e.ms = [⟨1, .exact, p.ueAddress, 0, 4⟩, ⟨2, .exact, appID, 0, 1⟩] ∧
      (if drops f || q.dlStatus == gateClosed
       then e.action = Gen.P4Constants.ActionPreQosPipeDownlinkTermDrop ∧ e.ps = [(1, p.ctrID, 4)]
       else e.action = Gen.P4Constants.ActionPreQosPipeDownlinkTermFwd ∧
            e.ps = [(2, f.tunnelTEID, 4), (3, qfi, 1), (4, tc, 1), (5, m.dl, 4), (1, p.ctrID, 4)]) := by
  have hne : ¬ (Sdf.core = Sdf.access) := by decide
  cases hd : (drops f || q.dlStatus == gateClosed)
  · exact ⟨_, by simp only [buildTerminations, hc, hne, if_false, if_true, hd]; rfl, rfl, rfl, by simp⟩
  · exact ⟨_, by simp only [buildTerminations, hc, hne, if_false, if_true, hd]; rfl, rfl, rfl, by simp⟩

/-- a sessions entry sits under the N3 address and TEID of an uplink PDR … -/
theorem uplink_sessions_entry (p : Pdr) (m : Meter) (peer : Nat) (buf : Bool) (ha : p.srcIface = Sdf.access) :
    ∃ e, buildSessions p m peer buf = some e ∧ e.table = Gen.P4Constants.TablePreQosPipeSessionsUplink ∧
      e.ms = [⟨1, .exact, p.tunnelIP4Dst, 0, 4⟩, ⟨2, .exact, p.tunnelTEID, 0, 4⟩] ∧
      e.action = Gen.P4Constants.ActionPreQosPipeSetSessionUplink ∧ e.ps = [(1, m.ul, 4)] :=
  ⟨_, by simp only [buildSessions, ha, if_true]; rfl, rfl, rfl, rfl, rfl⟩

/-- … and under the UE address of a downlink PDR: buffering iff the FAR buffers, otherwise towards the tunnel peer -/
theorem downlink_sessions_entry (p : Pdr) (m : Meter) (peer : Nat) (buf : Bool) (hc : p.srcIface = Sdf.core) :
    ∃ e, buildSessions p m peer buf = some e ∧ e.table = Gen.P4Constants.TablePreQosPipeSessionsDownlink ∧
      e.ms = [⟨1, .exact, p.ueAddress, 0, 4⟩] ∧
      (if buf then e.action = Gen.P4Constants.ActionPreQosPipeSetSessionDownlinkBuff ∧ e.ps = [(1, m.dl, 4)]
       else e.action = Gen.P4Constants.ActionPreQosPipeSetSessionDownlink ∧ e.ps = [(1, peer, 1), (2, m.dl, 4)]) := by
  have hne : ¬ (Sdf.core = Sdf.access) := by decide
  cases buf
  · exact ⟨_, by simp only [buildSessions, hc, hne, if_false, if_true]; rfl, rfl, rfl, by simp⟩
  · exact ⟨_, by simp only [buildSessions, hc, hne, if_false, if_true]; rfl, rfl, rfl, by simp⟩

/-- the tunnel peer entry carries the access address, the FAR's outer-header address and port -/
theorem tunnel_peer_entry (id : Nat) (t : TP) :
    ∃ e, buildPeer id t = some e ∧ e.table = Gen.P4Constants.TablePreQosPipeTunnelPeers ∧ e.ms = [⟨1, .exact, id, 0, 1⟩] ∧
      e.action = Gen.P4Constants.ActionPreQosPipeLoadTunnelParam ∧ e.ps = [(1, t.src, 4), (2, t.dst, 4), (3, t.port, 2)] :=
  ⟨_, rfl, rfl, rfl, rfl, rfl⟩

/-! ## reference counting of tunnel peers -/

/-- the last user leaves: the peer is forgotten and its ID goes back to the pool (the DELETE is issued whatever it answers) -/
theorem last_user_removes_peer (cfg : Cfg4) (c : Ctx) (f : Far) (pr : Shared) (e : Entry)
    (hg : mapGet c.st.peers (tpOf cfg f) = some pr) (hu : pr.usedBy.filter (· != (f.fseID, f.farID)) = [])
    (hb : buildPeer pr.id (tpOf cfg f) = some e) :
    mapGet (removePeer cfg c f).st.peers (tpOf cfg f) = none ∧ (removePeer cfg c f).st.peerPool = c.st.peerPool ++ [pr.id] ∧
    ∃ r, (removePeer cfg c f).log = c.log ++ [r] ∧ r.ups = [⟨.delete, .tbl e⟩] := by
  unfold removePeer
  simp only [hg, hu, ne_eq, not_true_eq_false, if_false, hb]
  refine ⟨?_, by simp, ?_⟩
  · rw [mapGet_mapDel]; simp
  · unfold write
    dsimp only
    split <;> exact ⟨_, rfl, rfl⟩

/-- another user remains: nothing is written, the peer stays, only the reference is dropped -/
theorem shared_peer_stays (cfg : Cfg4) (c : Ctx) (f : Far) (pr : Shared)
    (hg : mapGet c.st.peers (tpOf cfg f) = some pr) (hu : pr.usedBy.filter (· != (f.fseID, f.farID)) ≠ []) :
    (removePeer cfg c f).log = c.log ∧
    mapGet (removePeer cfg c f).st.peers (tpOf cfg f) = some { pr with usedBy := pr.usedBy.filter (· != (f.fseID, f.farID)) } ∧
    (removePeer cfg c f).st.peerPool = c.st.peerPool := by
  unfold removePeer
  simp only [hg, hu, ne_eq, not_false_eq_true, if_true]
  rw [mapGet_mapPut]; simp

/-- a second user of a known peer: the entry is re-written with the SAME ID (MODIFY), no ID is taken -/
theorem known_peer_is_shared (cfg : Cfg4) (c : Ctx) (f : Far) (pr : Shared) (e : Entry)
    (hg : mapGet c.st.peers (tpOf cfg f) = some pr) (hb : buildPeer pr.id (tpOf cfg f) = some e) :
    (addOrUpdatePeer cfg c f).1.st.peerPool = c.st.peerPool ∧
    mapGet (addOrUpdatePeer cfg c f).1.st.peers (tpOf cfg f) = some { pr with usedBy := pairAdd pr.usedBy (f.fseID, f.farID) } := by
  unfold addOrUpdatePeer
  simp only [hg, hb]
  refine ⟨by simp, ?_⟩
  simp only [write_peers]
  rw [mapGet_mapPut]; simp

/-! ### tunnel peers: "present iff at least one live rule uses it", the bookkeeping half

A FAR *uses* a peer when it names a tunnel towards the access network (`namesTunnel`), whatever its action: the plug-in
builds and deletes a rule's entries only while the peer of its FAR is known (`entries_need_the_peer`). -/

/-- an accepted establishment leaves every tunnel-naming FAR it carried with a reference on its peer -/
theorem created_far_holds_its_peer (cfg : Cfg4) (c : Ctx) (all updated : Rules) (ok : (sendCreate cfg c all updated).2.2 = true)
    (f : Far) (hf : f ∈ updated.fars) (hn : namesTunnel f) : HasRef cfg (sendCreate cfg c all updated).1.st f :=
  sendCreate_refs cfg c all updated ok f hf hn

/-- so does an accepted modification for the FARs it created or updated -/
theorem updated_far_holds_its_peer (cfg : Cfg4) (c : Ctx) (all updated : Rules) (ok : (sendUpdate cfg c all updated).2 = true)
    (f : Far) (hf : f ∈ updated.fars) (hn : namesTunnel f) : HasRef cfg (sendUpdate cfg c all updated).1.st f :=
  sendUpdate_refs cfg c all updated ok f hf hn

/-- releasing the peers of removed FARs never takes the reference of another FAR (another session, or another FAR ID of the
same session) — in particular a peer some other FAR still names is not deleted under it -/
theorem removal_keeps_other_references (cfg : Cfg4) (g : Far) (fs : List Far) (c : Ctx)
    (hd : ∀ f ∈ fs, (g.fseID, g.farID) ≠ (f.fseID, f.farID)) (h : HasRef cfg c.st g) :
    HasRef cfg (fs.foldl (removePeer cfg) c).st g :=
  removePeers_keep_others cfg g fs c hd h

/-- requests of other sessions only add references -/
theorem later_requests_keep_references (cfg : Cfg4) (g : Far) (fs : List Far) (c : Ctx) (h : HasRef cfg c.st g) :
    HasRef cfg (updatePeers cfg c fs).1.st g :=
  updatePeers_mono cfg g fs c h

/-- the entries of a PDR whose FAR names a tunnel are built (for INSERT, MODIFY and DELETE alike) only while the FAR's peer is known:
the condition under which the peer is required is the one under which the reference is taken -/
theorem entries_need_the_peer (cfg : Cfg4) (fars : List Far) (qers : List Qer) (op : Op) (st : St) (p : Pdr) (es : List Entry) (far : Far)
    (hf : fars.find? (·.farID = p.farID) = some far) (ht : namesTunnel far)
    (h : (prepare cfg fars qers op st p).2 = some es) : (mapGet st.peers (tpOf cfg far)).isSome :=
  prepare_needs_peer cfg fars qers op st p es far hf ht h

def exCfg : Cfg4 := { accessIP := 0xC6120101, accessLen := 32, uePool := (0x0A3C0000, 16), sliceID := 0, defaultTC := 3, qfiToTC := [] }
def exFar : Far := { farID := 2, fseID := 77, applyAction := 0x0C, dstIntf := 0, tunnelTEID := 80100, tunnelIP4Dst := 0xC6120109, tunnelPort := 2152 }
def exCtx : Ctx := { st := { peerPool := [2, 3] } }

/-- the premises are satisfiable: a buffering FAR (BUFF|NOCP) that names a gNB takes a peer ID and holds the reference -/
example : (exFar.dstIntf = 0 ∧ exFar.tunnelTEID ≠ 0) ∧ (updatePeers exCfg exCtx [exFar]).2 = true ∧
    (mapGet (updatePeers exCfg exCtx [exFar]).1.st.peers (tpOf exCfg exFar)).map (·.usedBy) = some [(77, 2)] := by
  decide

/-- table entries left behind by a previous, killed incarnation are cleared at start-up: whatever the switch held, after a
start-up whose Writes are served every entry of the seven tables the agent owns is one of the two interfaces entries
(N3 address, UE pool) it has just written -/
theorem restart_clears_tables (cfg : Cfg4) (srv : Srv) (ue n3 : Entry)
    (hue : buildInterface cfg.uePool.1 cfg.uePool.2 cfg.sliceID true = some ue)
    (hn3 : buildInterface cfg.accessIP cfg.accessLen cfg.sliceID false = some n3)
    (e : Entry) (he : e ∈ (start cfg srv []).1.st.srv.entries) (ht : e.table ∈ clearedTables) : e = ue ∨ e = n3 :=
  start_tables cfg srv ue n3 hue hn3 e he ht

/-- the traffic class is the one configured for the QFI, else the default -/
theorem traffic_class_choice (cfg : Cfg4) (qfi : Nat) :
    (mapGet cfg.qfiToTC qfi).getD cfg.defaultTC = match mapGet cfg.qfiToTC qfi with | some tc => tc | none => cfg.defaultTC := by
  cases mapGet cfg.qfiToTC qfi <;> rfl

end C04
