import Upf.Proofs.Notif
import Upf.Proofs.Pending
import Upf.Gen.Handlers
import Upf.Gen.Consts
import Upf.Gen.Retry
/-!
# C12 — Association, heartbeat and retransmission contract

`Retry.send seq N evs` transcribes `sendPFCPRequestMessage` as the waiter of one request sees it: the first
transmission, then one retransmission per timeout while retries are left; a response is delivered to it only when it
carries the request's sequence number (`handleIncomingResponse` looks the pending request up by sequence number).
Statements hold for every retry count, every sequence number and every sequence of timeouts / responses / shutdown.
-/
namespace Props.C12
open Retry

/-- at most 1 + max_req_retries transmissions, whatever happens -/
theorem tx_bound (seq N : Nat) (es : List Ev) : (send seq N es).1 ≤ 1 + N := Retry.tx_bound seq N es

/-- the peer is declared dead only when every one of the 1 + N transmissions went unanswered -/
theorem dead_iff_all_unanswered (seq N : Nat) (es : List Ev) (h : (send seq N es).2 = .dead) :
    (send seq N es).1 = 1 + N ∧ (es.filter (fun e => match e with | .timeout => true | _ => false)).length ≥ N + 1 := by
  have := Retry.dead_all_timeouts seq es N 1 h
  unfold send; omega

/-- it stops as soon as a response with the request's sequence number arrives: nothing after it matters -/
theorem stops_on_match (seq r tx : Nat) (rest : List Ev) : go seq r tx (.resp seq :: rest) = (tx, .answered) := by
  simp [go]

/-- a response with another sequence number is ignored by this waiter -/
theorem wrong_seq_ignored (seq s r tx : Nat) (rest : List Ev) (h : s ≠ seq) : go seq r tx (.resp s :: rest) = go seq r tx rest := by
  simp [go, h]

/-- the defaults of the contract: 5 retries, 2 s response timeout, 5 s heartbeat interval (regenerated constants) -/
theorem defaults : Gen.Consts.maxReqRetriesDefault = 5 ∧ Gen.Consts.respTimeoutDefault = 2000000000 ∧
    Gen.Consts.hbIntervalDefault = 5000000000 := by decide

/-- a late or duplicated response never blocks the reader that delivers responses (see C01), so the agent's own
requests and the peer's heartbeats keep being served -/
theorem late_or_duplicate_harmless (es : List Pending.Ev) (e : Pending.Ev) :
    (Pending.step Gen.Handlers.responseDeletesEntry Gen.Handlers.timeoutLeadsToShutdown (Pending.run {} es) e).2 ≠ .blocked := by
  have h1 : Gen.Handlers.responseDeletesEntry = true := by decide
  have h2 : Gen.Handlers.timeoutLeadsToShutdown = true := by decide
  rw [h1, h2]
  apply Pending.never_blocks
  apply Pending.inv_run
  intro _ x hx; cases hx

-- non-vacuity: N = 2; answered at the third transmission; never answered
example : send 7 2 [.timeout, .resp 6, .timeout, .resp 7, .timeout] = (3, .answered) := by decide
example : send 7 2 [.timeout, .timeout, .timeout] = (3, .dead) := by decide

/-! ### the loop at the width the code gives it

`Gen.Retry` is regenerated from messages.go / upf.go on every run: the statements of `sendPFCPRequestMessage` (log calls dropped)
and the type of `upf.maxReqRetries`. `Retry.goU8` transcribes exactly these statements on 8-bit values. -/

/-- T1: the retransmission loop is, statement by statement, the one `Retry.goU8` was written against, and its budget is a `uint8` -/
theorem retry_loop_is_the_modelled_one :
    Gen.Retry.body = ["{", "pConn.pendingReqs.Store(r.msg.Sequence(), r)", "pConn.SendPFCPMsg(r.msg)",
      "retriesLeft := pConn.upf.maxReqRetries", "for {",
      "if reply, rc := r.GetResponse(pConn.shutdown, pConn.upf.respTimeout); rc {",
      "if retriesLeft > 0 {", "pConn.SendPFCPMsg(r.msg)", "retriesLeft--", "} else {", "return nil, true", "}",
      "} else {", "return reply, false", "}", "}", "}"] ∧ Gen.Retry.retriesType = "uint8" := by decide

/-- for EVERY value the configuration can carry (0..255, the largest included) the 8-bit loop is the loop over `Nat` the other
statements are about: no wrap-around, no comparison that is always true -/
theorem loop_at_code_width_is_the_model (seq : Nat) (N : BitVec 8) (es : List Ev) : sendU8 seq N es = send seq N.toNat es :=
  Retry.sendU8_eq seq N es

/-- hence at most 1 + max_req_retries ≤ 256 transmissions of one request, whatever the peer does -/
theorem tx_bound_at_code_width (seq : Nat) (N : BitVec 8) (es : List Ev) :
    (sendU8 seq N es).1 ≤ 1 + N.toNat ∧ (sendU8 seq N es).1 ≤ 256 := Retry.tx_bound_u8 seq N es

-- non-vacuity at the boundary: budget 255, a peer that never answers: 256 transmissions, then dead
example : sendU8 7 255#8 (List.replicate 300 .timeout) = (256, .dead) := by decide +kernel

end Props.C12
