import Upf.Proofs.TeidRun
import Upf.Proofs.Seid
import Upf.Gen.Leaf
import Upf.Model.LockFacts
/-!
# C07 — UP-chosen identifiers are unique among live users

`Teid.allocate M` transcribes `FTEIDGenerator.Allocate` for an arbitrary modulus `M` (the code's `maxValue`),
`Seid.pick` transcribes the retry loop of `NewPFCPSession`. Theorems hold for every `M > 0`, every cursor
position (so also across the 32-bit wrap-around), every used-set, every random source.
-/
namespace Props.C07

/-- a granted TEID is non-zero, at most `M`, was free, and becomes used; nothing else changes -/
theorem alloc_fresh (M : Nat) (g : Teid.G) (id : Nat) (g' : Teid.G) (ho : g.offset < M)
    (h : Teid.allocate M g = some (id, g')) :
    id ≠ 0 ∧ id ≤ M ∧ g.used (id - 1) = false ∧ g'.used (id - 1) = true ∧
    (∀ x, x ≠ id - 1 → g'.used x = g.used x) ∧ g'.offset < M := Teid.alloc_fresh M g id g' ho h

/-- allocation is refused only when every one of the `M` identifiers is in use -/
theorem alloc_full (M : Nat) (g : Teid.G) (hM : 0 < M) (ho : g.offset < M) (h : Teid.allocate M g = none) :
    ∀ x, x < M → g.used x = true := Teid.alloc_full M g hM ho h

/-- for every operation sequence: the TEIDs allocated and not freed are pairwise distinct, non-zero, ≤ M -/
theorem live_distinct (M : Nat) (hM : 0 < M) (ops : List Teid.Op) :
    let s := Teid.runS M Teid.init ops
    s.live.Nodup ∧ ∀ id ∈ s.live, id ≠ 0 ∧ id ≤ M := by
  intro s
  have h := Teid.inv_runS M ops Teid.init (Teid.inv_init M hM)
  exact ⟨h.nodup, fun id hid => ⟨(h.used id hid).1, (h.used id hid).2.1⟩⟩

/-- T1: the cursor update regenerated from fteid.go is `(o + 1) mod maxValue` on 32 bits, for every cursor
below the modulus (the generator keeps it there: `alloc_fresh`'s last conjunct) -/
theorem updateOffset_eq (o : BitVec 32) (h : o.toNat < Gen.Consts.maxValue) :
    (Gen.Leaf.FTEIDGenerator_updateOffset o).toNat = Teid.nextOff Gen.Consts.maxValue o.toNat := by
  unfold Gen.Leaf.FTEIDGenerator_updateOffset Teid.nextOff
  unfold Gen.Consts.maxValue at *
  simp only [BitVec.toNat_umod, BitVec.toNat_add, BitVec.toNat_ofNat, Nat.reducePow, Nat.reduceMod]
  omega

/-- T1: the modulus keeps identifiers inside 32 bits and above zero -/
theorem modulus_ok : Gen.Consts.minValue = 1 ∧ 0 < Gen.Consts.maxValue ∧ Gen.Consts.maxValue < 2 ^ 32 := by decide

/-- T1: every `*FTEIDGenerator` method touching `offset`/`usedMap` holds the mutex (or is a helper of one that does) -/
theorem fteid_atomic : Gen.Locks.FTEIDGenerator.atomic = true := by decide

/-- a granted SEID is non-zero and differs from every live session's SEID, whatever the random source returns -/
theorem seid_fresh (d : Nat → Nat) (live : List Nat) (i x j : Nat)
    (h : Seid.newSession d live i = (some x, j)) : x ≠ 0 ∧ x ∉ live := by
  have := Seid.pick_fresh d live _ i x j h
  exact ⟨this.1, this.2.1⟩

/-- establishment is refused exactly when every one of the `maxRetries` draws is zero or taken -/
theorem seid_refused_iff (d : Nat → Nat) (live : List Nat) (i : Nat) :
    (Seid.newSession d live i).1 = none ↔ ∀ k, k < Seid.maxRetries → (d (i + k) = 0 ∨ d (i + k) ∈ live) :=
  Seid.pick_none_iff d live _ i

-- non-vacuity: wrap-around at a small modulus; a repeating source
example : (Teid.allocate 3 { offset := 2, used := fun x => x == 2 }).map (·.1) = some 1 := by decide
example : (Teid.allocate 3 { offset := 1, used := fun _ => true }).map (·.1) = none := by decide
example : (Seid.pick (fun i => if i < 2 then 7 else 9) [7] 100 0) = (some 9, 3) := by decide

end Props.C07
