import Upf.Proofs.TeidRun
import Upf.Proofs.Seid
import Upf.Gen.Leaf
import Upf.Model.LockFacts
import Upf.Proofs.TeidWorld
import Upf.Proofs.History
import Upf.Proofs.AgentReply
import Upf.Proofs.ModTeid
/-!
# C07 — UP-chosen identifiers are unique among live users

`Teid.allocate M` transcribes `FTEIDGenerator.Allocate` for an arbitrary modulus `M` (the code's `maxValue`),
`Seid.pick` transcribes the retry loop of `NewPFCPSession`. Theorems hold for every `M > 0`, every cursor
position (so also across the 32-bit wrap-around), every used-set, every random source.
-/
namespace Props.C07

/-- a granted TEID is non-zero, at most `M`, was free, and becomes used; nothing else changes -/
theorem alloc_fresh (M : Nat) (g : Teid.G) (id : Nat) (g' : Teid.G) (ho : g.offset < M)
    (h : Teid.allocate M g = some (id, g')) :
    id ≠ 0 ∧ id ≤ M ∧ g.used (id - 1) = false ∧ g'.used (id - 1) = true ∧
    (∀ x, x ≠ id - 1 → g'.used x = g.used x) ∧ g'.offset < M := Teid.alloc_fresh M g id g' ho h

/-- allocation is refused only when every one of the `M` identifiers is in use -/
theorem alloc_full (M : Nat) (g : Teid.G) (hM : 0 < M) (ho : g.offset < M) (h : Teid.allocate M g = none) :
    ∀ x, x < M → g.used x = true := Teid.alloc_full M g hM ho h

/-- for every operation sequence: the TEIDs allocated and not freed are pairwise distinct, non-zero, ≤ M -/
theorem live_distinct (M : Nat) (hM : 0 < M) (ops : List Teid.Op) :
    let s := Teid.runS M Teid.init ops
    s.live.Nodup ∧ ∀ id ∈ s.live, id ≠ 0 ∧ id ≤ M := by
  intro s
  have h := Teid.inv_runS M ops Teid.init (Teid.inv_init M hM)
  exact ⟨h.nodup, fun id hid => ⟨(h.used id hid).1, (h.used id hid).2.1⟩⟩

/-- T1: the cursor update regenerated from fteid.go is `(o + 1) mod maxValue` on 32 bits, for every cursor
below the modulus (the generator keeps it there: `alloc_fresh`'s last conjunct) -/
theorem updateOffset_eq (o : BitVec 32) (h : o.toNat < Gen.Consts.maxValue) :
    (Gen.Leaf.FTEIDGenerator_updateOffset o).toNat = Teid.nextOff Gen.Consts.maxValue o.toNat := by
  unfold Gen.Leaf.FTEIDGenerator_updateOffset Teid.nextOff
  unfold Gen.Consts.maxValue at *
  simp only [BitVec.toNat_umod, BitVec.toNat_add, BitVec.toNat_ofNat, Nat.reducePow, Nat.reduceMod]
  omega

/-- T1: the modulus keeps identifiers inside 32 bits and above zero -/
theorem modulus_ok : Gen.Consts.minValue = 1 ∧ 0 < Gen.Consts.maxValue ∧ Gen.Consts.maxValue < 2 ^ 32 := by decide

/-- T1: every `*FTEIDGenerator` method touching `offset`/`usedMap` holds the mutex (or is a helper of one that does) -/
theorem fteid_atomic : Gen.Locks.FTEIDGenerator.atomic = true := by decide

/-- a granted SEID is non-zero and differs from every live session's SEID, whatever the random source returns -/
theorem seid_fresh (d : Nat → Nat) (live : List Nat) (i x j : Nat)
    (h : Seid.newSession d live i = (some x, j)) : x ≠ 0 ∧ x ∉ live := by
  have := Seid.pick_fresh d live _ i x j h
  exact ⟨this.1, this.2.1⟩

/-- establishment is refused exactly when every one of the `maxRetries` draws is zero or taken -/
theorem seid_refused_iff (d : Nat → Nat) (live : List Nat) (i : Nat) :
    (Seid.newSession d live i).1 = none ↔ ∀ k, k < Seid.maxRetries → (d (i + k) = 0 ∨ d (i + k) ∈ live) :=
  Seid.pick_none_iff d live _ i

-- non-vacuity: wrap-around at a small modulus; a repeating source
example : (Teid.allocate 3 { offset := 2, used := fun x => x == 2 }).map (·.1) = some 1 := by decide
example : (Teid.allocate 3 { offset := 1, used := fun _ => true }).map (·.1) = none := by decide
example : (Seid.pick (fun i => if i < 2 then 7 else 9) [7] 100 0) = (some 9, 3) := by decide

/-! ### at the level of the agent (handlers of messages_session.go on the BESS agent model)

`Agent.chosen w` lists the TEIDs of the stored sessions' PDRs whose F-TEID the UP chose (CHOOSE flag), over ALL associations.
`TeidInv` = the allocator's cursor is in range ∧ those TEIDs are pairwise different, non-zero and marked in use. -/

/-- an establishment — accepted, or refused at any point of its PDR loop or afterwards (the TEIDs it had chosen are given back) —
keeps every chosen TEID of every stored session different from all others and in use -/
theorem establishment_keeps_chosen_teids_distinct (cfg : Agent.Cfg) (w : Agent.World) (a lseid : Nat) (r : Agent.EstReq)
    (hk : (w.conns.map (·.1)).Nodup) (hT : Agent.TeidInv w) : Agent.TeidInv (Agent.establish cfg w a lseid r).1 :=
  Agent.establish_teid cfg w a lseid r hk hT

/-- deletion / report "context not found" / association ending give back exactly the TEIDs of the sessions that end -/
theorem endings_return_only_their_teids (cfg : Agent.Cfg) (w : Agent.World) (a seid : Nat) (hI : Agent.Inv cfg w) (hT : Agent.TeidInv w) :
    Agent.TeidInv (Agent.deleteSession cfg w a seid).1 ∧ Agent.TeidInv (Agent.reportContextNotFound cfg w a seid) ∧
    Agent.TeidInv (Agent.shutdownConn cfg w a) :=
  ⟨Agent.delete_teid cfg w a seid hI hT, Agent.report_teid cfg w a seid hI hT, Agent.shutdown_teid cfg w a hI hT⟩

/-- **from start-up on, along every history** of association setups, PFD updates, establishments, deletions, reports and
association endings (any number of associations and sessions; envelope as in C03: stored sessions have distinct SEIDs and
match keys): the TEIDs the agent has chosen and not yet released are non-zero, pairwise different across all associations,
and in use in the allocator — so none of them can be chosen again (`alloc_fresh`); and nothing else is in use: no TEID is ever leaked -/
theorem chosen_teids_distinct_along_every_history (cfg : Agent.Cfg) (pool : Option Pool.P) (g : Teid.G) (hg : g.offset < Agent.M)
    (hfresh : ∀ x, g.used x = false) (evs : List Agent.Ev) (henv : Agent.EnvOK cfg { pool := pool, teid := g } evs) :
    let w := evs.foldl (Agent.stepEv cfg) { pool := pool, teid := g }
    (Agent.chosen w).Nodup ∧ (∀ t ∈ Agent.chosen w, 1 ≤ t ∧ w.teid.used (t - 1) = true) ∧
    (∀ x, w.teid.used x = true → x + 1 ∈ Agent.chosen w) := by
  have h := Agent.inv_teid_run cfg evs { pool := pool, teid := g } (Agent.inv_start cfg pool g) (Agent.farwf_start pool g)
    ⟨hg, by simp [Agent.chosen, Agent.allSessions, Agent.flat, Agent.Held, hfresh]⟩ henv
  exact h.2.held

-- non-vacuity: an establishment with a CHOOSE F-TEID on the uplink PDR chooses TEID 1 on a fresh allocator
example : Agent.chosen (Agent.establish { accessIP := 0xC6120101, coreIP := 0x7F000001, ueAlloc := false, endMarker := false, qci := [] }
    { conns := [(0, { remoteNode := "smf" })] } 0 77
    { nodeID := "smf", cpSeid := 1, cpIP := 1,
      pdrs := [{ id := 1, prec := 1, srcIface := some 0, fteid := some (true, 0, 0), ueip := some (2, 0x0A3C0001), farID := 1 }],
      fars := [{ id := 1, action := 2, fwd := some { dst := some 1 } }], qers := [] }).1 = [1] := by decide +kernel

/-- a Session Modification that is refused — at whatever point: a rule that does not parse, a Remove PDR / FAR / QER naming an unknown
rule after other removals were already applied to the handler's copy — releases no TEID and leaves the store as it was: the TEID of
a PDR that stays stored stays in use -/
theorem refused_modification_releases_no_teid (cfg : Agent.Cfg) (w : Agent.World) (a : Nat) (r : Agent.ModReq)
    (hrej : (Agent.modify cfg w a r).reply.cause ≠ Agent.causeAccepted) :
    (Agent.modify cfg w a r).world.conns = w.conns ∧ (Agent.modify cfg w a r).world.teid = w.teid :=
  Agent.refused_modification_commits_nothing cfg w a r hrej

/-- the Session Modification handler never takes a TEID: for EVERY request (any mix of IEs, CHOOSE flags included, accepted or
refused) no free TEID becomes marked in use and the cursor stays where it was — a modification can only return TEIDs. So the only
place a TEID is chosen is the establishment's PDR loop, which `alloc_fresh` / `establishment_keeps_chosen_teids_distinct` cover. -/
theorem modification_allocates_no_teid (cfg : Agent.Cfg) (w : Agent.World) (a : Nat) (r : Agent.ModReq) :
    (∀ x, (Agent.modify cfg w a r).world.teid.used x = true → w.teid.used x = true) ∧
    (Agent.modify cfg w a r).world.teid.offset = w.teid.offset :=
  Agent.modify_allocates_no_teid cfg w a r

/-- and no other request does either: deletions, reports, association setups and endings, PFD updates only ever clear marks — a TEID
in use after any non-establishment request was in use before it -/
theorem only_establishment_takes_teids (cfg : Agent.Cfg) (w : Agent.World) (q : Agent.Req) (hq : q.isEst = false) (x : Nat)
    (h : (Agent.stepReq cfg w q).teid.used x = true) : w.teid.used x = true :=
  Agent.only_establishment_takes_teids cfg w q hq x h

section
open Agent
def exCfgT : Cfg := { accessIP := 0xC6120101, coreIP := 0x7F000001, ueAlloc := false, endMarker := false, qci := [] }
def exWT : World := (establish exCfgT { conns := [(0, { remoteNode := "smf" })] } 0 77
    { nodeID := "smf", cpSeid := 1, cpIP := 1,
      pdrs := [{ id := 1, prec := 1, srcIface := some 0, fteid := some (true, 0, 0), ueip := some (2, 0x0A3C0001), farID := 1 }],
      fars := [{ id := 1, action := 2, fwd := some { dst := some 1 } }], qers := [] }).1
-- non-vacuity: Remove PDR 1 (its TEID was chosen by the UP) followed by Remove QER 999 (unknown) is refused, and TEID 1 stays in use
example : (modify exCfgT exWT 0 { seid := 77, removePdrs := [1], removeQers := [999] }).reply.cause ≠ causeAccepted ∧
    (modify exCfgT exWT 0 { seid := 77, removePdrs := [1], removeQers := [999] }).world.teid.used 0 = true ∧
    -- while the accepted removal does return it
    (modify exCfgT exWT 0 { seid := 77, removePdrs := [1] }).reply.cause = causeAccepted ∧
    (modify exCfgT exWT 0 { seid := 77, removePdrs := [1] }).world.teid.used 0 = false := by decide +kernel
end

end Props.C07
