import Upf.Proofs.Strip
import Upf.Proofs.Conf
/-!
# C18 — configuration loading yields a validated configuration or an error

`LoadConfigFile` = `removeComments` ; `json.Unmarshal` over two pre-decode defaults ; four "when missing" defaults ;
`validateConf`.

* `Strip.strip .code` is a three-mode scanner equivalent to the regexp `(?m)//.*$|/\*.*?\*/` under Go's leftmost-first
  matching (tied to `removeComments` byte for byte by the trace acceptor; the regexp literal itself is regenerated and
  pinned by `comment_regexp_pinned`).
* `Conf.load P d` = `Conf.decode` ; `Conf.finish` transcribes the rest; the standard-library predicates are the
  parameter `P`, so every theorem holds whatever `time.ParseDuration`, `net.ParseCIDR`, `net.ParseIP` and
  `zapcore.Level.UnmarshalText` decide.

JSON tokenising itself, the regexp engine and the four library predicates are not modelled (the property is "partial"
in exactly that sense); they are exercised by the correspondence run.
-/
namespace Props.C18
open Strip Conf

/-! ## comments -/

/-- For every well-formed document (plain text pieces interleaved with `//…` comments that run to the end of their
line and single-line `/*…*/` comments) the scanner returns exactly the text pieces. -/
theorem strip_render (ps : List Piece) (h : WF ps) : strip .code (render ps) = expected ps :=
  Strip.strip_render ps h

/-- Hence the result depends on the text pieces only: two well-formed documents with the same text — e.g. one with
and one without comments, or with comments at other places — strip to the same string. -/
theorem comments_ignored (ps qs : List Piece) (hp : WF ps) (hq : WF qs) (h : expected ps = expected qs) :
    strip .code (render ps) = strip .code (render qs) := by
  rw [Strip.strip_render ps hp, Strip.strip_render qs hq, h]

/-- a single-line block comment between two texts (the first not ending in `/`, as no JSON token does) vanishes -/
theorem insert_block_comment (a c body : List Char) (ha : Plain a) (hc : Plain c)
    (hb : '\n' ∉ body) (hb' : NoPair '*' '/' (body ++ ['*'])) :
    strip .code (a ++ '/' :: '*' :: (body ++ '*' :: '/' :: c)) = a ++ c := by
  have := Strip.strip_render [.text a, .block body, .text c] ⟨ha, hb, hb', hc, trivial⟩
  simpa [render, expected] using this

/-- a line comment vanishes up to (not including) its newline -/
theorem insert_line_comment (a c body : List Char) (ha : Plain a) (hc : Plain ('\n' :: c)) (hb : '\n' ∉ body) :
    strip .code (a ++ '/' :: '/' :: (body ++ '\n' :: c)) = a ++ '\n' :: c := by
  have := Strip.strip_render [.text a, .line body, .text ('\n' :: c)] ⟨ha, hb, ⟨hc, trivial⟩, Or.inr ⟨c, [], rfl⟩⟩
  simpa [render, expected] using this

/-- a line comment may end the input without a newline -/
theorem insert_line_comment_eof (a body : List Char) (ha : Plain a) (hb : '\n' ∉ body) :
    strip .code (a ++ '/' :: '/' :: body) = a := by
  have := Strip.strip_render [.text a, .line body] ⟨ha, hb, trivial, Or.inl rfl⟩
  simpa [render, expected] using this

/-- text without `//`, `/*` and a trailing `/` is returned unchanged: a value that contains no comment marker is
never altered -/
theorem comment_free_unchanged (cs : List Char) (h : Plain cs) : strip .code cs = cs := Strip.strip_plain cs h

/-- what is left of a well-formed document is comment-free, so a second pass changes nothing -/
theorem strip_idempotent (ps : List Piece) (h : WF ps) :
    Plain (strip .code (render ps)) ∧ strip .code (strip .code (render ps)) = strip .code (render ps) := by
  refine ⟨?_, Strip.strip_idem_render ps h⟩
  rw [Strip.strip_render ps h]
  exact Strip.expected_plain ps h

/-- the scanner only deletes — on ANY input, in any mode, the output is never longer than the input -/
theorem strip_never_longer (m : Mode) (s : List Char) : (strip m s).length ≤ s.length := Strip.strip_length_le m s

/-- the executable well-formedness test the acceptor uses implies `WF` -/
theorem wf_check_sound (ps : List Piece) (h : wfB ps = true) : WF ps := Strip.wfB_sound ps h

/-- T1: the regexp the scanner was proved against is the one in `removeComments` (regenerated literal), and matches
are replaced by the empty string -/
theorem comment_regexp_pinned :
    Gen.Conf.commentRegex = "(?m)//.*$|/\\*.*?\\*/" ∧ Gen.Conf.commentReplacement = "" := by decide

/-! ## defaults (T1: regenerated constants equal the documented literals) -/

/-- response timeout 2 s, 5 retries, read timeout 15 s, heartbeat interval 5 s — as constants and in the form the
code stores them (`Duration.String()`, `uint32(Seconds())`) -/
theorem defaults_documented :
    Gen.Consts.respTimeoutDefault = 2 * 1000000000 ∧ Gen.Consts.maxReqRetriesDefault = 5 ∧
    Gen.Consts.readTimeoutDefault = 15 * 1000000000 ∧ Gen.Consts.hbIntervalDefault = 5 * 1000000000 ∧
    respTimeoutDefaultStr = "2s" ∧ maxReqRetriesDefault = 5 ∧ readTimeoutDefaultSecs = 15 ∧ hbIntervalDefaultStr = "5s" := by
  decide

/-- log level `info` (zapcore.InfoLevel = 0) and traffic class ELASTIC (3) are assigned before decoding -/
theorem pre_decode_defaults_documented :
    Gen.Conf.logLevelInit = 0 ∧ Gen.Conf.defaultTCInit = 3 ∧ Conf.init.logLevel = infoLevel ∧ Conf.init.defaultTC = elasticTC := by
  decide

/-- the supported BESS modes are the five documented ones -/
theorem modes_documented (m : String) : m ∈ Conf.modes ↔ m ∈ ["af_xdp", "af_packet", "cndp", "dpdk", "sim"] :=
  Conf.mem_modes m

/-- the JSON keys the document generator and the sample files use are the struct tags -/
theorem keys_documented :
    Gen.Conf.keyMode = "mode" ∧ Gen.Conf.keyEnableP4rt = "enable_p4rt" ∧ Gen.Conf.keyCPIface = "cpiface" ∧
    Gen.Conf.keyP4rtcIface = "p4rtciface" ∧ Gen.Conf.keyReadTimeout = "read_timeout" ∧ Gen.Conf.keyLogLevel = "log_level" ∧
    Gen.Conf.keyMaxReqRetries = "max_req_retries" ∧ Gen.Conf.keyRespTimeout = "resp_timeout" ∧
    Gen.Conf.keyEnableHBTimer = "enable_hbTimer" ∧ Gen.Conf.keyHeartBeatInterval = "heart_beat_interval" ∧
    Gen.Conf.keyPeers = "peers" ∧ Gen.Conf.keyEnableUeIPAlloc = "enable_ue_ip_alloc" ∧ Gen.Conf.keyUEIPPool = "ue_ip_pool" ∧
    Gen.Conf.keyAccessIP = "access_ip" ∧ Gen.Conf.keyDefaultTC = "default_tc" := by
  decide

/-! ## defaults then validation -/

/-- For all decoded configurations and all library predicates: a returned configuration has the documented defaults
filled in, every duration it will use parses, read timeout and retries are non-zero, the mode is one of the five BESS
modes or — with UP4 — empty with access IP and UE pool parsing, the UE pool parses when UE IP allocation is on, every
peer parses, and every other field is what was decoded. -/
theorem finish_valid (P : Preds) (raw c : C) (h : finish P raw = .ok c) : Valid P raw c := Conf.finish_valid P raw c h

/-- …and nothing valid is refused: loading succeeds exactly when the configuration with defaults is sound -/
theorem finish_ok_iff (P : Preds) (raw c : C) : finish P raw = .ok c ↔ c = defaults raw ∧ Sound P (defaults raw) :=
  Conf.finish_ok_iff P raw c

/-- a refusal names a check that really fails -/
theorem refusal_justified (P : Preds) (raw : C) (e : Err) (h : finish P raw = .error e) :
    ErrMeans P (defaults raw) e ∧ ¬ Sound P (defaults raw) := Conf.finish_error_means P raw e h

/-- loading is total: a sound configuration or an error, nothing else -/
theorem finish_total (P : Preds) (raw : C) :
    (∃ c, finish P raw = .ok c ∧ Valid P raw c) ∨ (∃ e, finish P raw = .error e) := by
  cases h : finish P raw with
  | ok c => exact Or.inl ⟨c, rfl, Conf.finish_valid P raw c h⟩
  | error e => exact Or.inr ⟨e, rfl⟩

/-- the `ReadTimeout == 0` and `MaxReqRetries == 0` checks of `validateConf` can never fire after the defaults -/
theorem zero_checks_dead (P : Preds) (raw : C) :
    finish P raw ≠ .error .readTimeout ∧ finish P raw ≠ .error .retries ∧ finish P raw ≠ .error .decode :=
  Conf.finish_zero_checks_dead P raw

/-- filling defaults twice is filling them once -/
theorem defaults_idempotent (raw : C) : defaults (defaults raw) = defaults raw := Conf.defaults_idem raw

/-! ## decoding, then the above -/

/-- For every document (any JSON value, or none, under each key) and all library predicates: if loading returns a
configuration then decoding succeeded and the configuration is valid with respect to the decoded values. -/
theorem load_valid (P : Preds) (d : Doc) (c : C) (h : load P d = .ok c) :
    ∃ raw, decode P d = some raw ∧ Valid P raw c := Conf.load_valid P d c h

/-- a document that does not mention the log level / the default traffic class gets `info` / 3 -/
theorem load_pre_decode_defaults (P : Preds) (d : Doc) (c : C) (h : load P d = .ok c) :
    ((d.logLevel = .absent ∨ d.logLevel = .null) → c.logLevel = infoLevel) ∧
    ((d.defaultTC = .absent ∨ d.defaultTC = .null) → c.defaultTC = elasticTC) := by
  obtain ⟨raw, hd, _, hf⟩ := Conf.load_valid P d c h
  have hf' := hf
  unfold Filled at hf'
  obtain ⟨_, _, _, _, _, _, _, _, _, _, _, _, hl, ht⟩ := hf'
  have df := Conf.decode_fields P d raw hd
  obtain ⟨_, _, _, _, _, _, _, _, _, _, _, dl, dt⟩ := df
  constructor
  · intro ha
    rw [hl]
    rcases ha with ha | ha <;> rw [ha] at dl <;> simp [decLevel] at dl <;> exact dl.symm
  · intro ha
    rw [ht]
    rcases ha with ha | ha <;> rw [ha] at dt <;> simp [decUint] at dt <;> exact dt.symm

/-- a document whose values have the wrong JSON kind or an out-of-range integer is refused as a decoding error, and
only such a document is -/
theorem load_decode_error_iff (P : Preds) (d : Doc) : load P d = .error .decode ↔ decode P d = none :=
  Conf.load_decode_error_iff P d

/-! ## end to end: file content in, configuration or error out

`loadFile parse P text` composes the scanner, a JSON reader `parse` (a parameter: any function from comment-free text
to "what sits under each key", or a syntax error), decoding, defaults and validation. -/

/-- For ANY file content, any JSON reader and any library predicates: loading returns an error or a configuration
that is sound and has the documented defaults filled in relative to what was decoded. -/
theorem loadFile_valid (parse : List Char → Option Doc) (P : Preds) (text : List Char) :
    (∃ e, loadFile parse P text = .error e) ∨
    (∃ c d raw, loadFile parse P text = .ok c ∧ parse (strip .code text) = some d ∧ decode P d = some raw ∧ Valid P raw c) := by
  unfold loadFile
  cases hp : parse (strip .code text) with
  | none => exact Or.inl ⟨_, rfl⟩
  | some d =>
    cases hl : load P d with
    | error e => exact Or.inl ⟨e, hl⟩
    | ok c =>
      obtain ⟨raw, hd, hv⟩ := Conf.load_valid P d c hl
      exact Or.inr ⟨c, d, raw, hl, rfl, hd, hv⟩

/-- Comments are ignored end to end: a well-formed commented document loads exactly like its text with the comments
deleted — whatever the JSON reader and the predicates are. -/
theorem loadFile_comments_ignored (parse : List Char → Option Doc) (P : Preds) (ps : List Piece) (h : WF ps) :
    loadFile parse P (render ps) = loadFile parse P (expected ps) := by
  unfold loadFile
  rw [Strip.strip_render ps h, Strip.strip_plain _ (Strip.expected_plain ps h)]

/-- …so two well-formed documents that differ only in their comments load alike -/
theorem loadFile_comment_placement_irrelevant (parse : List Char → Option Doc) (P : Preds) (ps qs : List Piece)
    (hp : WF ps) (hq : WF qs) (h : expected ps = expected qs) :
    loadFile parse P (render ps) = loadFile parse P (render qs) := by
  rw [loadFile_comments_ignored parse P ps hp, loadFile_comments_ignored parse P qs hq, h]

/-! ## non-vacuity and limits -/

private def P0 : Preds :=
  { dur := fun s => ["2s", "5s", "1m"].contains s, cidr := fun s => ["198.18.0.1/32", "10.250.0.0/16"].contains s,
    ip := fun s => ["10.0.0.1"].contains s, level := fun s => if s = "debug" then some (-1) else none }

private def docBess : Doc :=
  { mode := .str "dpdk", enableP4rt := .absent, accessIP := .absent, uePool := .absent, enableUeIPAlloc := .absent,
    peers := .arr [.str "10.0.0.1"], respTimeout := .absent, readTimeout := .num 0, maxReqRetries := .null,
    enableHB := .bool true, hbInterval := .str "", logLevel := .absent, defaultTC := .absent }

private def confBess : C :=
  { mode := "dpdk", enableP4rt := false, accessIP := "", uePool := "", enableUeIPAlloc := false,
    peers := ["10.0.0.1"], respTimeout := "2s", readTimeout := 15, maxReqRetries := 5, enableHB := true,
    hbInterval := "5s", logLevel := 0, defaultTC := 3 }

private def docUp4 : Doc :=
  { docBess with
    mode := .absent, enableP4rt := .bool true, accessIP := .str "198.18.0.1/32", uePool := .str "10.250.0.0/16",
    logLevel := .str "debug", defaultTC := .num 1 }

-- a BESS document with nothing but a mode, a peer and the heartbeat switch loads, with every default filled in
example : load P0 docBess = .ok confBess := by decide
-- UP4: mode must be absent, access IP and UE pool must parse; explicit log level and traffic class are kept
example : load P0 docUp4 = .ok { confBess with mode := "", enableP4rt := true, accessIP := "198.18.0.1/32",
                                               uePool := "10.250.0.0/16", logLevel := -1, defaultTC := 1 } := by decide
example : load P0 { docBess with enableP4rt := .bool true, accessIP := .str "198.18.0.1/32", uePool := .str "10.250.0.0/16" }
    = .error .modeP4 := by decide
example : load P0 { docUp4 with uePool := .absent } = .error .uePoolP4 := by decide
example : load P0 { docUp4 with accessIP := .str "198.18.0.1" } = .error .accessIP := by decide
example : load P0 { docBess with enableUeIPAlloc := .bool true } = .error .uePoolAlloc := by decide
example : load P0 { docBess with respTimeout := .str "2" } = .error .respTimeout := by decide
example : load P0 { docBess with mode := .str "DPDK" } = .error .modeBess := by decide
example : load P0 { docBess with peers := .arr [.str "10.0.0.1", .str "upf.example.org"] } = .error (.peer "upf.example.org") := by decide
example : load P0 { docBess with hbInterval := .str "5" } = .error .hbInterval := by decide
example : load P0 { docBess with readTimeout := .num 4294967296 } = .error .decode := by decide
example : load P0 { docBess with maxReqRetries := .str "5" } = .error .decode := by decide
example : load P0 { docBess with logLevel := .str "trace" } = .error .decode := by decide

-- a well-formed document with all three kinds of pieces; two block comments on one line; `//` inside a block comment
private def sampleDoc : List Piece :=
  [.text "{ ".toList, .block " a // b ".toList, .text " \"x\": 1, ".toList, .block "".toList, .text " \"p\": \"/tmp/y\" ".toList,
   .line " tail /* not a block */".toList, .text "\n}".toList, .line "".toList]
example : WF sampleDoc := wf_check_sound _ (by decide)
example : String.ofList (render sampleDoc) = "{ /* a // b */ \"x\": 1, /**/ \"p\": \"/tmp/y\" // tail /* not a block */\n}//" := by decide
example : String.ofList (strip .code (render sampleDoc)) = "{  \"x\": 1,  \"p\": \"/tmp/y\" \n}" := by decide

-- limits the property states: a multi-line block comment is NOT removed (the document then fails to parse, loudly);
-- a marker inside a string IS treated as a comment
example : removeComments "{ /* a\n b */ }" = "{ /* a\n b */ }" := by decide
example : removeComments "{\"u\": \"http://x\"}" = "{\"u\": \"http:" := by decide
example : removeComments "{\"u\": \"a/*b*/c\"}" = "{\"u\": \"ac\"}" := by decide
-- not idempotent outside well-formed documents: deleting a comment can create a new marker
example : removeComments "a //**/ b" = "a " ∧ removeComments "a /*/**/*/ b" = "a */ b" ∧ removeComments "1 //**// 2" = "1 " := by decide

end Props.C18
