import Upf.Proofs.Pending
import Upf.Proofs.Flow
import Upf.Gen.Handlers
import Upf.Model.Agent
/-!
# C01 — No PFCP datagram can crash or wedge the agent

What is proved, and how it is tied to the code:
* crash: T1 facts regenerated from the Go sources — the dispatcher `HandlePFCPMsg` starts with a deferred `recover` that
  neither re-panics nor exits, and every message-level IE field a handler dereferences is nil-tested first — plus the
  totality of the parsers on the model (C08: an accepted flow description has both endpoints, every malformed token list
  is refused; `parsePDR`/`parseFAR`/`markSessionQer` are total functions, with the refusals the Go performs).
* wedge: the only place the association's reader can block is the delivery of a response to a waiting requester;
  with the two regenerated facts (the entry is deleted on delivery; a requester that gives up is followed by Shutdown)
  `never_blocks` shows no response — late, duplicated, with any sequence number — can block it, in any reachable state.
* the tie: exhaustive single IE mutations of every dispatched message type in six association/session states and a raw
  datagram stream against the REAL agent (child process), with a valid Heartbeat Request after every case.
-/
namespace Props.C01

/-- T1: the dispatcher recovers -/
theorem dispatcher_recovers : Gen.Handlers.dispatcherRecovers = true := by decide

/-- T1: no handler dereferences a message-level IE field without a nil test -/
theorem handlers_nil_guarded : Gen.Handlers.all.all (fun h => h.unguarded.isEmpty) = true := by decide

/-- T1: the pending-request facts -/
theorem pending_facts : Gen.Handlers.responseDeletesEntry = true ∧ Gen.Handlers.timeoutLeadsToShutdown = true := by decide

/-- no response can block the reader, in every state reachable by any sequence of originations, responses and give-ups -/
theorem reader_never_blocks (es : List Pending.Ev) (e : Pending.Ev) :
    (Pending.step Gen.Handlers.responseDeletesEntry Gen.Handlers.timeoutLeadsToShutdown (Pending.run {} es) e).2 ≠ .blocked := by
  have h1 : Gen.Handlers.responseDeletesEntry = true := by decide
  have h2 : Gen.Handlers.timeoutLeadsToShutdown = true := by decide
  rw [h1, h2]
  apply Pending.never_blocks
  apply Pending.inv_run
  intro _ x hx; cases hx

/-- without the delete a duplicated response DOES block (the statement above is not vacuous) -/
theorem duplicate_blocks_without_delete :
    let s1 := (Pending.step false true {} (.originate 7)).1
    let s2 := (Pending.step false true s1 (.response 7)).1
    (Pending.step false true s2 (.response 7)).2 = .blocked := by decide

/-- flow descriptions: whatever the token list, the parser returns (it is a total function) and an accepted result has
both networks — the nil dereference of parseSDFFilter / parseApplicationID cannot happen -/
theorem flow_parser_safe {N P : Type} (L : Flow.Lex N P) (ue : String) (toks : List String) (f : Flow.IPF N P)
    (h : Flow.parse L ue toks = some f) : f.src.net.isSome ∧ f.dst.net.isSome := Flow.ok_has_both L ue toks f h

/-- marking on a session without PDRs changes nothing (it used to index the empty list) -/
theorem mark_no_pdrs (qers : List Agent.Qer) : Agent.markSessionQer [] qers = (qers, []) := rfl

end Props.C01
