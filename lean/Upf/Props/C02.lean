import Upf.Proofs.AgentWorld
/-!
# C02 — Every request gets exactly one correctly addressed response

In the agent model every session handler returns exactly one `Reply` (the Go handlers have one `reply` variable and
one `SendPFCPMsg`); the trace acceptor counts the datagrams on the peer socket, so a second send anywhere is a trace
the model rejects. The theorems below state how that one reply is addressed, for every world, association and request.
-/
namespace Props.C02
open Agent

/-- every establishment reply — accepted or rejected — is addressed to the control plane's SEID of the request -/
theorem est_reply_seid (cfg : Cfg) (w : World) (a lseid : Nat) (r : EstReq) :
    (establish cfg w a lseid r).2.seid = r.cpSeid := by
  simp only [establish]
  split
  · rfl
  · cases estPdrs cfg lseid r.cpIP (w.conn a).apps r.pdrs w.pool w.teid [] with
    | error e => cases e; rfl
    | ok v =>
      obtain ⟨pdrs, pool, g⟩ := v
      simp only
      cases mapFars cfg lseid r.cpIP false r.fars with
      | error e => cases e; rfl
      | ok fars => rfl

/-- a reply that carries a UP F-SEID is an accepted one, carries exactly `lseid`, and the session is then stored under it -/
theorem est_upseid_iff_stored (cfg : Cfg) (w : World) (a lseid : Nat) (r : EstReq) (s : Nat)
    (h : (establish cfg w a lseid r).2.upSeid = some s) :
    s = lseid ∧ (establish cfg w a lseid r).2.cause = causeAccepted ∧
    (((establish cfg w a lseid r).1.conn a).sessions.any (·.lseid = lseid)) = true := by
  simp only [establish] at h ⊢
  split at h
  · cases h
  · rename_i hn
    simp only [hn, if_false]
    cases h1 : estPdrs cfg lseid r.cpIP (w.conn a).apps r.pdrs w.pool w.teid [] with
    | error e => cases e; simp [h1] at h
    | ok v =>
      obtain ⟨pdrs, pool, g⟩ := v
      simp only [h1] at h ⊢
      cases h2 : mapFars cfg lseid r.cpIP false r.fars with
      | error e => cases e; simp [h2] at h
      | ok fars =>
        simp only [h2] at h ⊢
        refine ⟨by simpa using h.symm, by simp [causeAccepted], ?_⟩
        rw [conn_setConn]
        simp

/-- deletion: unknown session ⇒ rejected with SEID 0; known ⇒ accepted and addressed to the stored CP SEID -/
theorem del_reply (cfg : Cfg) (w : World) (a seid : Nat) :
    (((w.conn a).sessions.find? (·.lseid = seid)) = none →
        (deleteSession cfg w a seid).2 = { cause := causeRejected, seid := 0 }) ∧
    (∀ s, ((w.conn a).sessions.find? (·.lseid = seid)) = some s →
        (deleteSession cfg w a seid).2 = { cause := causeAccepted, seid := s.rseid }) := by
  constructor
  · intro h; simp [deleteSession, h]
  · intro s h; simp [deleteSession, h]

/-- modification of an unknown session: rejected with SEID 0 and nothing changes -/
theorem mod_unknown (cfg : Cfg) (w : World) (a : Nat) (r : ModReq)
    (h : (w.conn a).sessions.find? (·.lseid = r.seid) = none) :
    (Agent.modify cfg w a r).reply = { cause := causeRejected, seid := 0 } ∧ (Agent.modify cfg w a r).world = w ∧ (Agent.modify cfg w a r).markers = [] := by
  simp [Agent.modify, h]

/-- cause values: acceptance is 1; the rejection causes differ from it -/
theorem causes : causeAccepted = 1 ∧ causeRejected = 64 ∧ causeNoAssoc = 72 ∧ causeNoResources = 75 := ⟨rfl, rfl, rfl, rfl⟩

end Props.C02
