import Upf.Proofs.AgentWorld
import Upf.Gen.Dispatch
import Upf.Proofs.AgentReply
import Upf.Proofs.Addressable
/-!
# C02 — Every request gets exactly one correctly addressed response

In the agent model every session handler returns exactly one `Reply` (the Go handlers have one `reply` variable and
one `SendPFCPMsg`); the trace acceptor counts the datagrams on the peer socket, so a second send anywhere is a trace
the model rejects. The theorems below state how that one reply is addressed, for every world, association and request.
-/
namespace Props.C02
open Agent

/-- every establishment reply — accepted or rejected — is addressed to the control plane's SEID of the request -/
theorem est_reply_seid (cfg : Cfg) (w : World) (a lseid : Nat) (r : EstReq) :
    (establish cfg w a lseid r).2.seid = r.cpSeid := by
  simp only [establish]
  split
  · rfl
  · cases estPdrs cfg lseid r.cpIP (w.conn a).apps r.pdrs w.pool w.teid [] with
    | error e => cases e; rfl
    | ok v =>
      obtain ⟨pdrs, pool, g⟩ := v
      simp only
      cases mapFars cfg lseid r.cpIP false r.fars with
      | error e => cases e; rfl
      | ok fars => rfl

/-- a reply that carries a UP F-SEID is an accepted one, carries exactly `lseid`, and the session is then stored under it -/
theorem est_upseid_iff_stored (cfg : Cfg) (w : World) (a lseid : Nat) (r : EstReq) (s : Nat)
    (h : (establish cfg w a lseid r).2.upSeid = some s) :
    s = lseid ∧ (establish cfg w a lseid r).2.cause = causeAccepted ∧
    (((establish cfg w a lseid r).1.conn a).sessions.any (·.lseid = lseid)) = true := by
  simp only [establish] at h ⊢
  split at h
  · cases h
  · rename_i hn
    simp only [hn, if_false]
    cases h1 : estPdrs cfg lseid r.cpIP (w.conn a).apps r.pdrs w.pool w.teid [] with
    | error e => cases e; simp [h1] at h
    | ok v =>
      obtain ⟨pdrs, pool, g⟩ := v
      simp only [h1] at h ⊢
      cases h2 : mapFars cfg lseid r.cpIP false r.fars with
      | error e => cases e; simp [h2] at h
      | ok fars =>
        simp only [h2] at h ⊢
        refine ⟨by simpa using h.symm, by simp [causeAccepted], ?_⟩
        rw [conn_setConn]
        simp

/-- deletion: unknown session ⇒ rejected with SEID 0; known ⇒ accepted and addressed to the stored CP SEID -/
theorem del_reply (cfg : Cfg) (w : World) (a seid : Nat) :
    (((w.conn a).sessions.find? (·.lseid = seid)) = none →
        (deleteSession cfg w a seid).2 = { cause := causeRejected, seid := 0 }) ∧
    (∀ s, ((w.conn a).sessions.find? (·.lseid = seid)) = some s →
        (deleteSession cfg w a seid).2 = { cause := causeAccepted, seid := s.rseid }) := by
  constructor
  · intro h; simp [deleteSession, h]
  · intro s h; simp [deleteSession, h]

/-- modification of an unknown session: rejected with SEID 0 and nothing changes -/
theorem mod_unknown (cfg : Cfg) (w : World) (a : Nat) (r : ModReq)
    (h : (w.conn a).sessions.find? (·.lseid = r.seid) = none) :
    (Agent.modify cfg w a r).reply = { cause := causeRejected, seid := 0 } ∧ (Agent.modify cfg w a r).world = w ∧ (Agent.modify cfg w a r).markers = [] := by
  simp [Agent.modify, h]

/-- modification of a known session: the one reply — accepted or rejected at any point — is addressed to the control plane's SEID
for that session: the one this request brings in a CP F-SEID, else the stored one -/
theorem mod_reply_seid (cfg : Cfg) (w : World) (a : Nat) (r : ModReq) (s0 : Session)
    (h : (w.conn a).sessions.find? (·.lseid = r.seid) = some s0) :
    (modify cfg w a r).reply.seid = cpSeidAfter r s0 := Agent.mod_reply_seid cfg w a r s0 h

/-- an accepted modification stores that SEID with the session (same UP SEID), so a CP F-SEID change is remembered … -/
theorem mod_accepted_stores_cp_seid (cfg : Cfg) (w : World) (a : Nat) (r : ModReq) (s0 : Session)
    (h : (w.conn a).sessions.find? (·.lseid = r.seid) = some s0) (hacc : (modify cfg w a r).reply.cause = causeAccepted) :
    ∃ s', ((modify cfg w a r).world.conn a).sessions.find? (·.lseid = r.seid) = some s' ∧ s'.rseid = cpSeidAfter r s0 ∧ s'.lseid = r.seid :=
  Agent.mod_accepted_stores_cp_seid cfg w a r s0 h hacc

/-- … and the next response for the session (its Session Deletion Response) carries it -/
theorem cp_seid_change_is_remembered (cfg : Cfg) (w : World) (a : Nat) (r : ModReq) (s0 : Session)
    (h : (w.conn a).sessions.find? (·.lseid = r.seid) = some s0) (hacc : (modify cfg w a r).reply.cause = causeAccepted) :
    (deleteSession cfg (modify cfg w a r).world a r.seid).2 = { cause := causeAccepted, seid := cpSeidAfter r s0 } :=
  Agent.cp_seid_change_is_remembered cfg w a r s0 h hacc

-- non-vacuity: an established session (CP SEID 5001), a modification that only brings a new CP F-SEID (9999) is accepted and answered
-- with 9999, and so is the deletion that follows
def nvCfg : Cfg := { accessIP := 0xC6120101, coreIP := 0x7F000001, ueAlloc := false, endMarker := false, qci := [] }
def nvW : World := (establish nvCfg { conns := [(0, { remoteNode := "smf" })] } 0 77
  { nodeID := "smf", cpSeid := 5001, cpIP := 1,
    pdrs := [{ id := 1, prec := 1, srcIface := some 1, ueip := some (2, 0x0A3C0001), farID := 1 }],
    fars := [{ id := 1, action := 2, fwd := some { dst := some 0, ohc := some (7, 0xC6120109) } }], qers := [] }).1
example : (modify nvCfg nvW 0 { seid := 77, cpFseid := some (9999, 1) }).reply = { cause := 1, seid := 9999 } ∧
    (deleteSession nvCfg (modify nvCfg nvW 0 { seid := 77, cpFseid := some (9999, 1) }).world 0 77).2 = { cause := 1, seid := 9999 } := by
  decide +kernel

/-- cause values: acceptance is 1; the rejection causes differ from it -/
theorem causes : causeAccepted = 1 ∧ causeRejected = 64 ∧ causeNoAssoc = 72 ∧ causeNoResources = 75 := ⟨rfl, rfl, rfl, rfl⟩

/-! ## the dispatcher (T1: `Gen.Dispatch` is regenerated from `PFCPConn.HandlePFCPMsg` on every run) -/

open Gen.Dispatch in
/-- PFCP request types the agent serves, with the response type each must be answered with -/
def served : List (Nat × String × String) :=
  [(1, "handleHeartbeatRequest", "NewHeartbeatResponse"), (3, "handlePFDMgmtRequest", "NewPFDManagementResponse"),
   (5, "handleAssociationSetupRequest", "NewAssociationSetupResponse"), (9, "handleAssociationReleaseRequest", "NewAssociationReleaseResponse"),
   (50, "handleSessionEstablishmentRequest", "NewSessionEstablishmentResponse"),
   (52, "handleSessionModificationRequest", "NewSessionModificationResponse"),
   (54, "handleSessionDeletionRequest", "NewSessionDeletionResponse")]

/-- PFCP response-type messages (TS 29.244 table 7.3-1: node and session related responses, incl. Version Not Supported) -/
def responseTypes : List Nat := [2, 4, 6, 8, 10, 11, 13, 15, 51, 53, 55, 57]

/-- every served request type is dispatched by exactly one clause, to its own handler, and that clause takes the handler's reply -/
theorem every_request_has_one_replying_clause :
    served.all (fun (t, h, _) =>
      (Gen.Dispatch.clauses.filter (·.types.contains t)).map (fun c => (c.handler, c.takesReply, c.returns)) == [(h, true, false)]) = true := by
  decide

/-- the handler of a request type builds responses of the matching type only, and sends nothing itself: the one datagram per
request is the dispatcher's -/
theorem handlers_build_the_matching_response :
    served.all (fun (_, h, ctor) =>
      (Gen.Dispatch.constructors.filter (·.1 == h)).map (·.2) == [[ctor]] &&
      (Gen.Dispatch.handlerSends.filter (·.1 == h)).map (·.2) == [0]) = true := by
  decide

/-- the dispatcher puts at most one datagram on the wire per incoming message: its only send is the top-level
`if reply != nil { SendPFCPMsg(reply) }` after the switch, and it has no loop -/
theorem one_send_per_message :
    Gen.Dispatch.sendCalls = 1 ∧ Gen.Dispatch.guardedSendsAfterSwitch = 1 ∧ Gen.Dispatch.loops = 0 := by
  decide

/-- response-type messages are never answered: a clause that serves a response type takes no reply, its handler builds no message
and sends nothing; any other type falls to the default clause, which returns -/
theorem response_types_are_never_answered :
    (Gen.Dispatch.clauses.filter (fun c => c.types.any responseTypes.contains)).all (fun c =>
      !c.takesReply &&
      (Gen.Dispatch.constructors.filter (·.1 == c.handler)).map (·.2) == [[]] &&
      (Gen.Dispatch.handlerSends.filter (·.1 == c.handler)).map (·.2) == [0]) = true ∧
    Gen.Dispatch.defaultReturns = true ∧
    (Gen.Dispatch.clauses.filter (·.takesReply)).all (fun c => c.types.all (fun t => !responseTypes.contains t)) = true := by
  decide

/-! ### the UP F-SEID addresses the session in all later requests (BESS agent model, arbitrary requests, no envelope) -/

/-- an accepted establishment returns a UP F-SEID under which the session is stored … -/
theorem accepted_establishment_is_addressable (cfg : Agent.Cfg) (w : Agent.World) (a lseid : Nat) (r : Agent.EstReq)
    (h : (Agent.establish cfg w a lseid r).2.upSeid = some lseid) : Agent.Known (Agent.establish cfg w a lseid r).1 a lseid :=
  Agent.establish_makes_known cfg w a lseid r h

/-- … and it **stays addressable until it ends**: after ANY further requests — of any association, accepted or refused, any mix of
IEs, in any number — none of which is the deletion of the session, a report for it answered "context not found" or the ending of its
association, the session is still known to its association … -/
theorem session_addressable_until_it_ends (cfg : Agent.Cfg) (a l : Nat) (qs : List Agent.Req) (w : Agent.World)
    (hq : ∀ q ∈ qs, q.ends a l = false) (h : Agent.Known w a l) : Agent.Known (qs.foldl (Agent.stepReq cfg) w) a l :=
  Agent.known_until_ended cfg a l qs w hq h

/-- … so a modification naming it is answered for that session (header SEID = the control plane's SEID for it), never as unknown -/
theorem known_session_modification_is_addressed (cfg : Agent.Cfg) (w : Agent.World) (a : Nat) (r : Agent.ModReq)
    (h : Agent.Known w a r.seid) :
    ∃ s0, (w.conn a).sessions.find? (·.lseid = r.seid) = some s0 ∧ (Agent.modify cfg w a r).reply.seid = Agent.cpSeidAfter r s0 :=
  Agent.known_modify_addressed cfg w a r h

end Props.C02
