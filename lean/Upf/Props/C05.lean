import Upf.Proofs.AgentPool
import Upf.Proofs.AgentWorld
import Upf.Proofs.TeidRun
import Upf.Proofs.BessAddDel
import Upf.Proofs.BessEnd
import Upf.Proofs.TeidWorld
import Upf.Proofs.PoolWorld
import Upf.Proofs.History
import Upf.Proofs.ModTeid
/-!
# C05 — Ending a session reclaims everything it ever acquired (BESS part)

`Agent.releaseRes` transcribes what `RemoveSession` gives back; `Agent.dropSession` / `deleteSession` /
`shutdownConn` / `reportContextNotFound` are the ways a session ends; refusals during establishment go through the same
release. Statements hold for every world and request.
-/
namespace Props.C05
open Agent

/-- the pool invariant of C06 (free ++ held is a permutation of the pool, no session twice) survives every establishment —
accepted, or refused at any point after it had acquired an address or TEIDs -/
theorem pool_conserved_establish (base : List Nat) (cfg : Cfg) (w : World) (a lseid : Nat) (r : EstReq)
    (h : PoolInv base w.pool) : PoolInv base (establish cfg w a lseid r).1.pool := inv_establish base cfg w a lseid r h

/-- … and every deletion -/
theorem pool_conserved_delete (base : List Nat) (cfg : Cfg) (w : World) (a seid : Nat)
    (h : PoolInv base w.pool) : PoolInv base (deleteSession cfg w a seid).1.pool := inv_delete base cfg w a seid h

/-- after the release the session's SEID holds no address any more -/
theorem address_returned (pl : Pool.P) (g : Teid.G) (lseid : Nat) (pdrs : List Pdr) (hk : (pl.inv.map (·.1)).Nodup) :
    match (releaseRes (some pl) g lseid pdrs).1 with
    | some pl' => Pool.lookup pl' lseid = none
    | none => False := release_frees_address pl g lseid pdrs hk

/-- a released TEID is no longer marked used -/
theorem teid_returned (g : Teid.G) (id : Nat) (h : 1 ≤ id) : (Teid.free g id).used (id - 1) = false := by
  unfold Teid.free
  have : ¬ id < 1 := by omega
  simp [this]

/-- an accepted deletion drops exactly the session's record from its association -/
theorem record_dropped (cfg : Cfg) (w : World) (a seid : Nat) (s : Session)
    (h : (w.conn a).sessions.find? (·.lseid = seid) = some s) :
    ((deleteSession cfg w a seid).1.conn a).sessions = (w.conn a).sessions.filter (·.lseid ≠ seid) := by
  simp only [deleteSession, h]
  rw [conn_setConn]

/-- an association that ends forgets all its sessions (release, read timeout, heartbeat failure) -/
theorem association_forgotten (cfg : Cfg) (w : World) (a : Nat) :
    ((shutdownConn cfg w a).conns.find? (·.1 = a)) = none := by
  simp only [shutdownConn]
  apply List.find?_eq_none.mpr
  intro x hx
  have := (List.mem_filter.mp hx).2
  simpa using this

/-- attach / detach on BESS: an accepted establishment followed by the deletion of that session leaves every lookup table as it
was before the session existed — for every request, world and configuration — whenever the session's SEID is new on the
association and its rules' keys were not in use (distinct live rules have distinct keys). No number of attach/detach cycles
grows a table. -/
theorem attach_detach_restores_tables (cfg : Cfg) (w : World) (a lseid : Nat) (r : EstReq)
    (h : (establish cfg w a lseid r).2.upSeid.isSome)
    (hnew : ∀ x ∈ (w.conn a).sessions, x.lseid ≠ lseid)
    (hfresh : ∀ s : Session, (establish cfg w a lseid r).1.tables = sendAdd cfg w.tables s.pdrs s.fars s.qers →
      (∀ k ∈ (pdrKV s.pdrs).map (·.1), k ∉ w.tables.pdr.map (·.1)) ∧ (∀ k ∈ (farKV s.fars).map (·.1), k ∉ w.tables.far.map (·.1)) ∧
      (∀ k ∈ (appQerKV cfg s.qers).map (·.1), k ∉ w.tables.appQer.map (·.1)) ∧
      (∀ k ∈ (sessQerKV cfg s.qers).map (·.1), k ∉ w.tables.sessQer.map (·.1))) :
    (deleteSession cfg (establish cfg w a lseid r).1 a lseid).1.tables = w.tables :=
  establish_then_delete cfg w a lseid r h hnew hfresh

/-- Session Deletion sends the deletion of the stored rules: nothing under one of the session's keys remains in any table -/
theorem deleted_session_leaves_no_key (cfg : Cfg) (w : World) (a seid : Nat) (s : Session)
    (h : (w.conn a).sessions.find? (·.lseid = seid) = some s) (e : String × String) :
    (e.1 ∈ (pdrKV s.pdrs).map (·.1) → e ∉ (deleteSession cfg w a seid).1.tables.pdr) ∧
    (e.1 ∈ (farKV s.fars).map (·.1) → e ∉ (deleteSession cfg w a seid).1.tables.far) ∧
    (e.1 ∈ (appQerKV cfg s.qers).map (·.1) → e ∉ (deleteSession cfg w a seid).1.tables.appQer) ∧
    (e.1 ∈ (sessQerKV cfg s.qers).map (·.1) → e ∉ (deleteSession cfg w a seid).1.tables.sessQer) := by
  rw [deleteSession_tables cfg w a seid s h]
  exact ⟨Table.not_mem_without, Table.not_mem_without, Table.not_mem_without, Table.not_mem_without⟩


/-- Association Release, read timeout, heartbeat failure (`Shutdown`): afterwards no lookup table has an entry under a key of any
rule of any session of the association, and nothing was added -/
theorem released_association_leaves_no_key (cfg : Cfg) (w : World) (a : Nat) (s : Session) (hs : s ∈ (w.conn a).sessions)
    (m k : String) (hk : (m, k) ∈ s.keys cfg) : ¬ (shutdownConn cfg w a).tables.has m k :=
  shutdown_leaves_no_key cfg w a s hs m k hk
theorem release_adds_nothing (cfg : Cfg) (w : World) (a : Nat) (m k : String) (h : (shutdownConn cfg w a).tables.has m k) :
    w.tables.has m k := shutdown_adds_nothing cfg w a m k h

/-- Session Report Response "session context not found" -/
theorem reported_unknown_session_leaves_no_key (cfg : Cfg) (w : World) (a seid : Nat) (s : Session)
    (h : (w.conn a).sessions.find? (·.lseid = seid) = some s) (m k : String) (hk : (m, k) ∈ s.keys cfg) :
    ¬ (reportContextNotFound cfg w a seid).tables.has m k :=
  report_leaves_no_key cfg w a seid s h m k hk


-- non-vacuity: a session holding address 5 and TEID 3 gives both back
example : (match (releaseRes (some { free := [6], inv := [(77, 5)] }) { offset := 3, used := fun x => x == 2 } 77 [{ chooseTeid := true, tunnelTEID := 3 }]) with
    | (some pl, g) => (pl.free, pl.inv, g.used 2)
    | _ => ([], [], true)) = ([6, 5], [], false) := by decide

/-! ### along every history (BESS agent model, any number of associations; `Agent.inv_teid_run`) -/

/-- **no TEID and no table entry is ever leaked**: from start-up on, after every request of every history in the envelope
(establishments accepted or refused at any point, deletions, reports "context not found", association endings, FAR-updating and rule-removing modifications), a TEID is in use
in the allocator only if a stored session's PDR holds it, and a key is present in a lookup table only if a stored session has it -/
theorem nothing_leaks_along_every_history (cfg : Cfg) (pool : Option Pool.P) (g : Teid.G) (hg : g.offset < M)
    (hfresh : ∀ x, g.used x = false) (evs : List Ev) (henv : EnvOK cfg { pool := pool, teid := g } evs) :
    let w := evs.foldl (stepEv cfg) { pool := pool, teid := g }
    (∀ x, w.teid.used x = true → x + 1 ∈ chosen w) ∧
    (∀ X k v, (w.tables.tab X).get k = some v → ∃ s ∈ allSessions w, k ∈ s.keysOf cfg X) := by
  have h := inv_teid_run cfg evs { pool := pool, teid := g } (inv_start cfg pool g) (farwf_start pool g)
    ⟨hg, by simp [chosen, allSessions, flat, Held, hfresh]⟩ henv
  refine ⟨h.2.held.2.2, fun X k v hv => ?_⟩
  obtain ⟨s, hs, hl⟩ := (h.1.img X k v).mp hv
  exact ⟨s, hs, key_of_lastVal hl⟩

/-- … so once the last session has ended — however each of them ended — no TEID is in use and the four lookup tables are empty -/
theorem all_ended_all_returned (cfg : Cfg) (pool : Option Pool.P) (g : Teid.G) (hg : g.offset < M)
    (hfresh : ∀ x, g.used x = false) (evs : List Ev) (henv : EnvOK cfg { pool := pool, teid := g } evs)
    (hnone : allSessions (evs.foldl (stepEv cfg) { pool := pool, teid := g }) = []) :
    (∀ x, (evs.foldl (stepEv cfg) { pool := pool, teid := g }).teid.used x = false) ∧
    (∀ X k, ((evs.foldl (stepEv cfg) { pool := pool, teid := g }).tables.tab X).get k = none) := by
  have h := nothing_leaks_along_every_history cfg pool g hg hfresh evs henv
  refine ⟨fun x => ?_, fun X k => ?_⟩
  · cases hu : (evs.foldl (stepEv cfg) { pool := pool, teid := g }).teid.used x with
    | false => rfl
    | true =>
      have := h.1 x hu
      simp [chosen, hnone] at this
  · cases hv : ((evs.foldl (stepEv cfg) { pool := pool, teid := g }).tables.tab X).get k with
    | none => rfl
    | some v =>
      obtain ⟨s, hs, _⟩ := h.2 X k v hv
      rw [hnone] at hs; cases hs

/-- **no UE address is ever leaked**: along every history from the freshly built pool, an address is held only under the SEID of a stored
session; once no session is left, every configured address is free again -/
theorem addresses_all_returned (base : List Nat) (hb : base.Nodup) (cfg : Cfg) (g : Teid.G) (evs : List Ev)
    (henv : EnvOK cfg { pool := some { free := base, inv := [] }, teid := g } evs)
    (hnone : allSessions (evs.foldl (stepEv cfg) { pool := some { free := base, inv := [] }, teid := g }) = [])
    (p : Pool.P) (hp : (evs.foldl (stepEv cfg) { pool := some { free := base, inv := [] }, teid := g }).pool = some p) :
    p.inv = [] ∧ p.free.Perm base := by
  have h := pool_run base cfg evs { pool := some { free := base, inv := [] }, teid := g } (inv_start cfg _ g) (farwf_start _ g) henv
    ⟨by simp, hb, by simp⟩ (by intro k hk; simp [poolKeys] at hk)
  rw [hp] at h
  have hi : p.inv = [] := by
    cases hi : p.inv with
    | nil => rfl
    | cons e rest =>
      have := h.2 e.1 (by simp [poolKeys, hp, hi])
      rw [hnone] at this
      obtain ⟨s, hs, _⟩ := this; cases hs
  refine ⟨hi, ?_⟩
  have hperm := h.1.perm
  simpa [hi] using hperm

/-- **no envelope**: in every state of the agent model, whatever accepted or refused requests preceded, a Session Deletion of a stored
session leaves its SEID without UE address and every TEID the UP chose for one of its stored PDRs free again -/
theorem deletion_returns_address_and_teids (cfg : Agent.Cfg) (w : Agent.World) (a seid : Nat) (s : Agent.Session)
    (hf : (w.conn a).sessions.find? (·.lseid = seid) = some s) :
    s.lseid ∉ Agent.poolKeys (Agent.deleteSession cfg w a seid).1.pool ∧
    ∀ p ∈ s.pdrs, p.chooseTeid = true → 1 ≤ p.tunnelTEID →
      (Agent.deleteSession cfg w a seid).1.teid.used (p.tunnelTEID - 1) = false :=
  Agent.deletion_returns_address_and_teids cfg w a seid s hf

/-- the same for the other ways a session ends, again in every state: a Session Report answered "context not found" … -/
theorem report_returns_address_and_teids (cfg : Agent.Cfg) (w : Agent.World) (a seid : Nat) (s : Agent.Session)
    (hf : (w.conn a).sessions.find? (·.lseid = seid) = some s) :
    s.lseid ∉ Agent.poolKeys (Agent.reportContextNotFound cfg w a seid).pool ∧
    ∀ p ∈ s.pdrs, p.chooseTeid = true → 1 ≤ p.tunnelTEID →
      (Agent.reportContextNotFound cfg w a seid).teid.used (p.tunnelTEID - 1) = false :=
  Agent.report_returns_address_and_teids cfg w a seid s hf

/-- … and the ending of the association (release, read timeout, heartbeat failure, stop), for every session it holds -/
theorem association_ending_returns_addresses_and_teids (cfg : Agent.Cfg) (w : Agent.World) (a : Nat) (s : Agent.Session)
    (hs : s ∈ (w.conn a).sessions) :
    s.lseid ∉ Agent.poolKeys (Agent.shutdownConn cfg w a).pool ∧
    ∀ p ∈ s.pdrs, p.chooseTeid = true → 1 ≤ p.tunnelTEID → (Agent.shutdownConn cfg w a).teid.used (p.tunnelTEID - 1) = false :=
  Agent.shutdown_returns_addresses_and_teids cfg w a s hs

end Props.C05
