import Upf.Proofs.AgentPool
import Upf.Proofs.AgentWorld
import Upf.Proofs.TeidRun
/-!
# C05 — Ending a session reclaims everything it ever acquired (BESS part)

`Agent.releaseRes` transcribes what `RemoveSession` gives back; `Agent.dropSession` / `deleteSession` /
`shutdownConn` / `reportContextNotFound` are the ways a session ends; refusals during establishment go through the same
release. Statements hold for every world and request.
-/
namespace Props.C05
open Agent

/-- the pool invariant of C06 (free ++ held is a permutation of the pool, no session twice) survives every establishment —
accepted, or refused at any point after it had acquired an address or TEIDs -/
theorem pool_conserved_establish (base : List Nat) (cfg : Cfg) (w : World) (a lseid : Nat) (r : EstReq)
    (h : PoolInv base w.pool) : PoolInv base (establish cfg w a lseid r).1.pool := inv_establish base cfg w a lseid r h

/-- … and every deletion -/
theorem pool_conserved_delete (base : List Nat) (cfg : Cfg) (w : World) (a seid : Nat)
    (h : PoolInv base w.pool) : PoolInv base (deleteSession cfg w a seid).1.pool := inv_delete base cfg w a seid h

/-- after the release the session's SEID holds no address any more -/
theorem address_returned (pl : Pool.P) (g : Teid.G) (lseid : Nat) (pdrs : List Pdr) (hk : (pl.inv.map (·.1)).Nodup) :
    match (releaseRes (some pl) g lseid pdrs).1 with
    | some pl' => Pool.lookup pl' lseid = none
    | none => False := release_frees_address pl g lseid pdrs hk

/-- a released TEID is no longer marked used -/
theorem teid_returned (g : Teid.G) (id : Nat) (h : 1 ≤ id) : (Teid.free g id).used (id - 1) = false := by
  unfold Teid.free
  have : ¬ id < 1 := by omega
  simp [this]

/-- an accepted deletion drops exactly the session's record from its association -/
theorem record_dropped (cfg : Cfg) (w : World) (a seid : Nat) (s : Session)
    (h : (w.conn a).sessions.find? (·.lseid = seid) = some s) :
    ((deleteSession cfg w a seid).1.conn a).sessions = (w.conn a).sessions.filter (·.lseid ≠ seid) := by
  simp only [deleteSession, h]
  rw [conn_setConn]

/-- an association that ends forgets all its sessions (release, read timeout, heartbeat failure) -/
theorem association_forgotten (cfg : Cfg) (w : World) (a : Nat) :
    ((shutdownConn cfg w a).conns.find? (·.1 = a)) = none := by
  simp only [shutdownConn]
  apply List.find?_eq_none.mpr
  intro x hx
  have := (List.mem_filter.mp hx).2
  simpa using this

-- non-vacuity: a session holding address 5 and TEID 3 gives both back
example : (match (releaseRes (some { free := [6], inv := [(77, 5)] }) { offset := 3, used := fun x => x == 2 } 77 [{ chooseTeid := true, tunnelTEID := 3 }]) with
    | (some pl, g) => (pl.free, pl.inv, g.used 2)
    | _ => ([], [], true)) = ([6, 5], [], false) := by decide

end Props.C05
