import Upf.Model.AgentMod
namespace Agent

theorem find_map_set (l : List (Nat × Conn)) (a : Nat) (c : Conn) (h : l.any (·.1 = a) = true) :
    (l.map fun e => if e.1 = a then (a, c) else e).find? (·.1 = a) = some (a, c) := by
  induction l with
  | nil => simp at h
  | cons x xs ih =>
    simp only [List.map_cons, List.find?_cons]
    by_cases hx : x.1 = a
    · simp [hx]
    · simp only [hx, if_false, decide_false]
      apply ih
      simpa [hx] using h

theorem find_append_new (l : List (Nat × Conn)) (a : Nat) (c : Conn) (h : l.any (·.1 = a) = false) :
    (l ++ [(a, c)]).find? (·.1 = a) = some (a, c) := by
  induction l with
  | nil => simp
  | cons x xs ih =>
    have hx : ¬ x.1 = a := by
      intro e; simp [e] at h
    have hxs : xs.any (·.1 = a) = false := by
      simpa [hx] using h
    simp [List.find?_cons, hx, ih hxs]

/-- reading back the association just written -/
theorem conn_setConn (w : World) (a : Nat) (c : Conn) : (w.setConn a c).conn a = c := by
  unfold World.setConn World.conn
  split
  · rename_i h
    simp only
    rw [find_map_set w.conns a c h]; rfl
  · rename_i h
    simp only
    rw [find_append_new w.conns a c (Bool.eq_false_iff.mpr h)]; rfl

end Agent
