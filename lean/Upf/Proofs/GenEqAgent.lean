import Upf.Model.Agent
import Upf.Gen.Leaf
/-!
Ties between the hand-written Agent model (BESS side) and the leaf functions REGENERATED from /repo (`Gen.Leaf`):
the model's `calcBurst`, `actionValue`, `has2ndBit`, `has5thBit`, `needAllocIP` are the Go functions
`calcBurstSizeFromRate`, `bess.setActionValue`, `has2ndBit`, `has5thBit`, `needAllocIP` on every input of their
machine types. A change of one of these functions in /repo changes `Gen.Leaf` and breaks the tie.
-/
namespace Agent

/-- `calcBurstSizeFromRate` on uint64 is the model's `calcBurst` on the numbers, every pair of 64-bit inputs -/
theorem calcBurst_gen (kbps ms : BitVec 64) :
    (Gen.Leaf.calcBurstSizeFromRate kbps ms).toNat = calcBurst kbps.toNat ms.toNat := by
  simp only [Gen.Leaf.calcBurstSizeFromRate, calcBurst, u64, BitVec.toNat_add, BitVec.toNat_mul, BitVec.toNat_udiv,
    BitVec.toNat_umod, BitVec.toNat_ofNat]

theorem has2ndBit_gen : ∀ f < 256, Gen.Leaf.has2ndBit (BitVec.ofNat 8 f) = has2ndBit f := by decide +kernel
theorem has5thBit_gen : ∀ f < 256, Gen.Leaf.has5thBit (BitVec.ofNat 8 f) = has5thBit f := by decide +kernel
theorem needAllocIP_gen : ∀ f < 256, Gen.Leaf.needAllocIP (BitVec.ofNat 8 f) = needAllocIP f := by decide +kernel

theorem band_ne (a k : BitVec 8) : ((a &&& k) != 0#8) = decide (a.toNat &&& k.toNat ≠ 0) := by
  rw [← BitVec.toNat_and]
  by_cases h : (a &&& k) = 0#8
  · simp [h]
  · have : (a &&& k).toNat ≠ 0 := fun e => h (BitVec.eq_of_toNat_eq (by simpa using e))
    have h2 : ((a &&& k) != 0#8) = true := by simp [bne_iff_ne, h]
    rw [h2]; exact (decide_eq_true this).symm
theorem beq_nat (d k : BitVec 8) : (d == k) = decide (d.toNat = k.toNat) := by
  by_cases h : d = k
  · simp [h]
  · have : d.toNat ≠ k.toNat := fun e => h (BitVec.eq_of_toNat_eq e)
    simp [h, this]
theorem actionValue_gen (d a : BitVec 8) :
    (Gen.Leaf.bess_setActionValue d a).toNat = actionValue { dstIntf := d.toNat, applyAction := a.toNat } := by
  unfold Gen.Leaf.bess_setActionValue actionValue
  simp only [band_ne, beq_nat, ActionForward, ActionDrop, ActionBuffer, ActionNotify, Gen.Consts.ActionForward, Gen.Consts.ActionDrop,
    Gen.Consts.ActionBuffer, Gen.Consts.ActionNotify, Gen.Consts.farForwardD, Gen.Consts.farForwardU, Gen.Consts.farDrop, Gen.Consts.farNotify,
    BitVec.toNat_ofNat, Bool.or_eq_true, decide_eq_true_eq]
  repeat' split
  all_goals simp_all
end Agent
