import Upf.Model.Strip

namespace Strip

#eval removeComments "{\n  // c1\n  \"a\": 1, /* x // y */ \"b\": 2, /* open\n \"p\": \"/tmp/x\" /*/ */ }"

end Strip

namespace Strip

theorem strip_code_ne (c : Char) (rest : List Char) (h : c ≠ '/') :
    strip .code (c :: rest) = c :: strip .code rest := by
  cases rest with
  | nil => simp [strip]
  | cons d r => simp [strip, h]

theorem plain_append (cs rest : List Char) (h : Plain cs) :
    strip .code (cs ++ rest) = cs ++ strip .code rest := by
  induction cs with
  | nil => simp
  | cons c t ih =>
    obtain ⟨h1, h2, h3⟩ := h
    have ht : Plain t := by
      cases t with
      | nil => exact ⟨trivial, trivial, by simp⟩
      | cons d r => exact ⟨h1.2, h2.2, by simpa [List.getLast?_cons_cons] using h3⟩
    by_cases hc : c = '/'
    · subst hc
      cases t with
      | nil => simp at h3
      | cons d r =>
        have hd1 : d ≠ '/' := fun e => h1.1 ⟨rfl, e⟩
        have hd2 : d ≠ '*' := fun e => h2.1 ⟨rfl, e⟩
        have := ih ht
        simp only [List.cons_append] at this ⊢
        simp [strip, hd1, hd2, this]
    · have := ih ht
      cases t with
      | nil =>
        cases rest with
        | nil => simp [strip]
        | cons d r => simp [strip, hc]
      | cons d r =>
        simp only [List.cons_append] at this ⊢
        simp [strip, hc, this]

theorem line_skip (body rest : List Char) (h : '\n' ∉ body) :
    strip .line (body ++ rest) = strip .line rest := by
  induction body with
  | nil => simp
  | cons c t ih =>
    have hc : c ≠ '\n' := by intro e; subst e; simp at h
    have ht : '\n' ∉ t := by intro e; exact h (List.mem_cons_of_mem _ e)
    simp [strip, hc, ih ht]

theorem hasClose_body (body rest : List Char) (h : '\n' ∉ body) :
    hasClose (body ++ '*' :: '/' :: rest) = true := by
  induction body with
  | nil => simp [hasClose]
  | cons c t ih =>
    have hc : c ≠ '\n' := by intro e; subst e; simp at h
    have ht : '\n' ∉ t := by intro e; exact h (List.mem_cons_of_mem _ e)
    have := ih ht
    cases t with
    | nil =>
      simp only [List.cons_append, List.nil_append] at this ⊢
      by_cases hs : c = '*'
      · subst hs; simp [hasClose]
      · simp [hasClose, hc, hs]
    | cons d r =>
      simp only [List.cons_append] at this ⊢
      by_cases hs : c = '*'
      · subst hs
        by_cases hd : d = '/'
        · subst hd; simp [hasClose]
        · simp [hasClose, hd, this]
      · simp [hasClose, hc, hs, this]

theorem block_skip (body rest : List Char) (h : NoPair '*' '/' (body ++ ['*'])) :
    strip .block (body ++ '*' :: '/' :: rest) = strip .code rest := by
  induction body with
  | nil => simp [strip]
  | cons c t ih =>
    cases t with
    | nil =>
      simp only [List.cons_append, List.nil_append] at h ⊢
      by_cases hc : c = '*'
      · subst hc; simp [strip]
      · simp [strip, hc]
    | cons d r =>
      simp only [List.cons_append] at h ih ⊢
      have hp := h.1
      have := ih h.2
      by_cases hc : c = '*'
      · subst hc
        have hd : d ≠ '/' := fun e => hp ⟨rfl, e⟩
        simp [strip, hd] at this ⊢
        exact this
      · simp [strip, hc] at this ⊢
        exact this

theorem strip_render (ps : List Piece) (h : WF ps) : strip .code (render ps) = expected ps := by
  induction ps with
  | nil => simp [render, expected, strip]
  | cons p ps ih =>
    cases p with
    | text cs =>
      obtain ⟨hp, hw⟩ := h
      simp only [render, expected]
      rw [plain_append cs _ hp, ih hw]
    | line b =>
      obtain ⟨hb, hw, hnext⟩ := h
      simp only [render, expected]
      have e : strip .code ('/' :: '/' :: (b ++ render ps)) = strip .line (b ++ render ps) := by
        simp [strip]
      rw [e, line_skip b _ hb]
      rcases hnext with rfl | ⟨cs, ps', rfl⟩
      · simp [render, expected, strip]
      · have := ih hw
        simp only [render, expected] at this ⊢
        simp only [List.cons_append] at this ⊢
        have hnl : strip .line ('\n' :: (cs ++ render ps')) = '\n' :: strip .code (cs ++ render ps') := by
          simp [strip]
        rw [hnl]
        have hpl : Plain ('\n' :: cs) := hw.1
        have e2 : strip .code ('\n' :: (cs ++ render ps')) = '\n' :: strip .code (cs ++ render ps') :=
          strip_code_ne _ _ (by decide)
        rw [e2] at this
        exact this
    | block b =>
      obtain ⟨hb, hnp, hw⟩ := h
      simp only [render, expected]
      have hc := hasClose_body b (render ps) hb
      have e : strip .code ('/' :: '*' :: (b ++ '*' :: '/' :: render ps))
             = strip .block (b ++ '*' :: '/' :: render ps) := by
        simp [strip, hc]
      rw [e, block_skip b _ hnp, ih hw]

#print axioms strip_render

end Strip

