import Upf.Model.Strip

namespace Strip

theorem strip_code_ne (c : Char) (rest : List Char) (h : c ≠ '/') :
    strip .code (c :: rest) = c :: strip .code rest := by
  cases rest with
  | nil => simp [strip]
  | cons d r => simp [strip, h]

theorem plain_append (cs rest : List Char) (h : Plain cs) :
    strip .code (cs ++ rest) = cs ++ strip .code rest := by
  induction cs with
  | nil => simp
  | cons c t ih =>
    obtain ⟨h1, h2, h3⟩ := h
    have ht : Plain t := by
      cases t with
      | nil => exact ⟨trivial, trivial, by simp⟩
      | cons d r => exact ⟨h1.2, h2.2, by simpa [List.getLast?_cons_cons] using h3⟩
    by_cases hc : c = '/'
    · subst hc
      cases t with
      | nil => simp at h3
      | cons d r =>
        have hd1 : d ≠ '/' := fun e => h1.1 ⟨rfl, e⟩
        have hd2 : d ≠ '*' := fun e => h2.1 ⟨rfl, e⟩
        have := ih ht
        simp only [List.cons_append] at this ⊢
        simp [strip, hd1, hd2, this]
    · have := ih ht
      cases t with
      | nil =>
        cases rest with
        | nil => simp [strip]
        | cons d r => simp [strip, hc]
      | cons d r =>
        simp only [List.cons_append] at this ⊢
        simp [strip, hc, this]

theorem line_skip (body rest : List Char) (h : '\n' ∉ body) :
    strip .line (body ++ rest) = strip .line rest := by
  induction body with
  | nil => simp
  | cons c t ih =>
    have hc : c ≠ '\n' := by intro e; subst e; simp at h
    have ht : '\n' ∉ t := by intro e; exact h (List.mem_cons_of_mem _ e)
    simp [strip, hc, ih ht]

theorem hasClose_body (body rest : List Char) (h : '\n' ∉ body) :
    hasClose (body ++ '*' :: '/' :: rest) = true := by
  induction body with
  | nil => simp [hasClose]
  | cons c t ih =>
    have hc : c ≠ '\n' := by intro e; subst e; simp at h
    have ht : '\n' ∉ t := by intro e; exact h (List.mem_cons_of_mem _ e)
    have := ih ht
    cases t with
    | nil =>
      simp only [List.cons_append, List.nil_append] at this ⊢
      by_cases hs : c = '*'
      · subst hs; simp [hasClose]
      · simp [hasClose, hc, hs]
    | cons d r =>
      simp only [List.cons_append] at this ⊢
      by_cases hs : c = '*'
      · subst hs
        by_cases hd : d = '/'
        · subst hd; simp [hasClose]
        · simp [hasClose, hd, this]
      · simp [hasClose, hc, hs, this]

theorem block_skip (body rest : List Char) (h : NoPair '*' '/' (body ++ ['*'])) :
    strip .block (body ++ '*' :: '/' :: rest) = strip .code rest := by
  induction body with
  | nil => simp [strip]
  | cons c t ih =>
    cases t with
    | nil =>
      simp only [List.cons_append, List.nil_append] at h ⊢
      by_cases hc : c = '*'
      · subst hc; simp [strip]
      · simp [strip, hc]
    | cons d r =>
      simp only [List.cons_append] at h ih ⊢
      have hp := h.1
      have := ih h.2
      by_cases hc : c = '*'
      · subst hc
        have hd : d ≠ '/' := fun e => hp ⟨rfl, e⟩
        simp [strip, hd] at this ⊢
        exact this
      · simp [strip, hc] at this ⊢
        exact this

theorem strip_render (ps : List Piece) (h : WF ps) : strip .code (render ps) = expected ps := by
  induction ps with
  | nil => simp [render, expected, strip]
  | cons p ps ih =>
    cases p with
    | text cs =>
      obtain ⟨hp, hw⟩ := h
      simp only [render, expected]
      rw [plain_append cs _ hp, ih hw]
    | line b =>
      obtain ⟨hb, hw, hnext⟩ := h
      simp only [render, expected]
      have e : strip .code ('/' :: '/' :: (b ++ render ps)) = strip .line (b ++ render ps) := by
        simp [strip]
      rw [e, line_skip b _ hb]
      rcases hnext with rfl | ⟨cs, ps', rfl⟩
      · simp [render, expected, strip]
      · have := ih hw
        simp only [render, expected] at this ⊢
        simp only [List.cons_append] at this ⊢
        have hnl : strip .line ('\n' :: (cs ++ render ps')) = '\n' :: strip .code (cs ++ render ps') := by
          simp [strip]
        rw [hnl]
        have hpl : Plain ('\n' :: cs) := hw.1
        have e2 : strip .code ('\n' :: (cs ++ render ps')) = '\n' :: strip .code (cs ++ render ps') :=
          strip_code_ne _ _ (by decide)
        rw [e2] at this
        exact this
    | block b =>
      obtain ⟨hb, hnp, hw⟩ := h
      simp only [render, expected]
      have hc := hasClose_body b (render ps) hb
      have e : strip .code ('/' :: '*' :: (b ++ '*' :: '/' :: render ps))
             = strip .block (b ++ '*' :: '/' :: render ps) := by
        simp [strip, hc]
      rw [e, block_skip b _ hnp, ih hw]

/-! ## further facts about the scanner -/

/-- the scanner only deletes: its output is never longer than its input (in every mode) -/
theorem strip_length_le (m : Mode) (s : List Char) : (strip m s).length ≤ s.length := by
  fun_induction strip m s <;> simp_all <;> omega

theorem noPair_append (a b : Char) (xs ys : List Char) (hx : NoPair a b xs) (hy : NoPair a b ys)
    (hl : xs.getLast? ≠ some a) : NoPair a b (xs ++ ys) := by
  induction xs with
  | nil => simpa using hy
  | cons x t ih =>
    cases t with
    | nil =>
      cases ys with
      | nil => simp [NoPair]
      | cons y r =>
        have : x ≠ a := by simpa using hl
        simp only [List.cons_append, List.nil_append, NoPair]
        exact ⟨fun h => this h.1, hy⟩
    | cons d r =>
      simp only [List.cons_append, NoPair] at hx ih ⊢
      exact ⟨hx.1, ih hx.2 (by simpa [List.getLast?_cons_cons] using hl)⟩

theorem plain_nil : Plain [] := ⟨trivial, trivial, by simp⟩

theorem plain_concat (xs ys : List Char) (hx : Plain xs) (hy : Plain ys) : Plain (xs ++ ys) := by
  obtain ⟨x1, x2, x3⟩ := hx
  obtain ⟨y1, y2, y3⟩ := hy
  refine ⟨noPair_append _ _ _ _ x1 y1 x3, noPair_append _ _ _ _ x2 y2 x3, ?_⟩
  cases ys with
  | nil => simpa using x3
  | cons y r => simpa [List.getLast?_append] using y3

/-- what is left of a well-formed document is comment-free text -/
theorem expected_plain (ps : List Piece) (h : WF ps) : Plain (expected ps) := by
  induction ps with
  | nil => exact plain_nil
  | cons p ps ih =>
    cases p with
    | text cs => exact plain_concat _ _ h.1 (ih h.2)
    | line b => exact ih h.2.1
    | block b => exact ih h.2.2

/-- comment-free text is left alone -/
theorem strip_plain (cs : List Char) (h : Plain cs) : strip .code cs = cs := by
  have := plain_append cs [] h
  simpa [strip] using this

/-- on well-formed documents a second pass changes nothing -/
theorem strip_idem_render (ps : List Piece) (h : WF ps) :
    strip .code (strip .code (render ps)) = strip .code (render ps) := by
  rw [strip_render ps h, strip_plain _ (expected_plain ps h)]

/-! ## the executable well-formedness check is sound -/

theorem noPairB_sound (a b : Char) (l : List Char) (h : noPairB a b l = true) : NoPair a b l := by
  induction l with
  | nil => trivial
  | cons x t ih =>
    cases t with
    | nil => trivial
    | cons y r =>
      simp only [noPairB, Bool.and_eq_true, Bool.not_eq_true', Bool.and_eq_false_iff, beq_eq_false_iff_ne] at h
      refine ⟨?_, ih h.2⟩
      rintro ⟨rfl, rfl⟩
      rcases h.1 with h1 | h1 <;> exact h1 rfl

theorem plainB_sound (cs : List Char) (h : plainB cs = true) : Plain cs := by
  simp only [plainB, Bool.and_eq_true, bne_iff_ne] at h
  exact ⟨noPairB_sound _ _ _ h.1.1, noPairB_sound _ _ _ h.1.2, h.2⟩

theorem wfB_sound (ps : List Piece) (h : wfB ps = true) : WF ps := by
  induction ps with
  | nil => trivial
  | cons p ps ih =>
    cases p with
    | text cs =>
      simp only [wfB, Bool.and_eq_true] at h
      exact ⟨plainB_sound cs h.1, ih h.2⟩
    | line b =>
      simp only [wfB, Bool.and_eq_true, Bool.not_eq_true', List.contains_eq_mem, decide_eq_false_iff_not] at h
      refine ⟨h.1.1, ih h.1.2, ?_⟩
      have hs := h.2
      cases ps with
      | nil => exact Or.inl rfl
      | cons q qs =>
        right
        cases q with
        | text cs =>
          cases cs with
          | nil => simp [startsWithNewlineText] at hs
          | cons c r =>
            by_cases hc : c = '\n'
            · subst hc; exact ⟨r, qs, rfl⟩
            · exfalso
              unfold startsWithNewlineText at hs
              split at hs
              · cases ‹_ :: _ = []›
              · rename_i heq
                injection heq with h1 _
                injection h1 with h1
                injection h1 with h1 _
                exact hc h1
              · cases hs
        | line b' => simp [startsWithNewlineText] at hs
        | block b' => simp [startsWithNewlineText] at hs
    | block b =>
      simp only [wfB, Bool.and_eq_true, Bool.not_eq_true', List.contains_eq_mem, decide_eq_false_iff_not] at h
      exact ⟨h.1.1, noPairB_sound _ _ _ h.1.2, ih h.2⟩

end Strip

