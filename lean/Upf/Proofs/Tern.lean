import Upf.Model.Tern

namespace Tern

theorem limit_sub (m : U16) : limit - m = ~~~m := by
  unfold limit
  bv_omega

theorem and_not_self_of_disjoint (a b : U16) (h : a &&& b = 0#16) : a &&& ~~~b = a := by
  ext i hi
  have := congrArg (fun v => v[i]) h
  simp at this
  simp
  intro ha
  cases hb : b[i] <;> simp_all

theorem disjoint_add (a b : U16) (h : a &&& b = 0#16) : (a + b).toNat = a.toNat + b.toNat := by
  have h1 : a.toNat ≤ (~~~b).toNat := by
    have := and_not_self_of_disjoint a b h
    calc a.toNat = (a &&& ~~~b).toNat := by rw [this]
      _ ≤ (~~~b).toNat := by rw [BitVec.toNat_and]; exact Nat.and_le_right
  rw [BitVec.toNat_not] at h1
  rw [BitVec.toNat_add]
  have := b.isLt
  omega

theorem not_and_and (p t : U16) : (~~~t) &&& (p &&& t) = 0#16 := by
  ext i hi
  simp
  intro h1 h2
  simp_all

theorem and_toNat_le (p t : U16) : (p &&& t).toNat ≤ p.toNat := by
  rw [BitVec.toNat_and]; exact Nat.and_le_left

theorem good_of_test (port end_ tm : U16)
    (h1 : ¬ (port &&& tm) < port) (h2 : maxPort (port &&& tm) tm ≤ end_) : Good port end_ tm := by
  have hle := and_toNat_le port tm
  have heq : port &&& tm = port := by
    apply BitVec.eq_of_toNat_eq
    have : ¬ (port &&& tm).toNat < port.toNat := by simpa [BitVec.lt_def] using h1
    omega
  refine ⟨heq, ?_⟩
  unfold maxPort at h2
  rw [limit_sub, heq, heq] at h2
  have hd : (~~~tm) &&& port = 0#16 := by
    have := not_and_and port tm
    rwa [heq] at this
  have hs := disjoint_add (~~~tm) port hd
  have : ((~~~tm) + port).toNat ≤ end_.toNat := by simpa [BitVec.le_def] using h2
  omega

theorem loopBody_good (port end_ : U16) (s s' : LoopSt)
    (h : loopBody port end_ s = some s') (hg : Good port end_ s.mask) : Good port end_ s'.mask := by
  unfold loopBody at h
  split at h
  · simp only at h
    split at h
    · cases h
    · rename_i hlt
      cases h
      simp only
      split
      · rename_i hm
        exact good_of_test port end_ s.testMask hlt hm
      · exact hg
  · cases h

theorem loop_good (port end_ : U16) (fuel : Nat) (s : LoopSt)
    (hg : Good port end_ s.mask) : Good port end_ (loop port end_ fuel s) := by
  induction fuel generalizing s with
  | zero => simpa [loop] using hg
  | succ n ih =>
    unfold loop
    split
    · exact hg
    · rename_i s' h
      exact ih s' (loopBody_good port end_ s s' h hg)

theorem portMask_good (port end_ : U16) (h : port ≤ end_) : Good port end_ (portMask port end_) := by
  apply loop_good
  simp only [init, Good, limit]
  constructor
  · have : (65535#16 : U16) = BitVec.allOnes 16 := by decide
    rw [this, BitVec.and_allOnes]
  · have : port.toNat ≤ end_.toNat := by simpa [BitVec.le_def] using h
    simp; omega

theorem hi_step (i : Nat) : hi i - (1#16 <<< i) = hi (i+1) := by
  unfold hi limit
  by_cases h : i < 16
  · have : ∀ k : Fin 16, (0xFFFF#16 <<< k.val) - (1#16 <<< k.val) = 0xFFFF#16 <<< (k.val+1) := by decide
    exact this ⟨i, h⟩
  · have h1 : 16 ≤ i := by omega
    rw [BitVec.shiftLeft_eq_zero h1, BitVec.shiftLeft_eq_zero h1, BitVec.shiftLeft_eq_zero (by omega)]
    decide

theorem getLsbD_limit (k : Nat) : (65535#16 : U16).getLsbD k = decide (k < 16) := by
  by_cases h : k < 16
  · have : ∀ q : Fin 16, (65535#16 : U16).getLsbD q.val = true := by decide
    simp [h, this ⟨k, h⟩]
  · simp [h]; exact BitVec.getLsbD_of_ge _ _ (by omega)

theorem and_hi (p : U16) (j : Nat) : p &&& hi j = (p >>> j) <<< j := by
  unfold hi limit
  apply BitVec.eq_of_getLsbD_eq
  intro i hi
  simp [BitVec.getLsbD_shiftLeft, BitVec.getLsbD_ushiftRight]
  by_cases h : i < j
  · simp [h]
  · have : j + (i - j) = i := by omega
    simp [h, this, getLsbD_limit]
    have h2 : i - j < 16 := by omega
    simp [hi, h2]

theorem and_hi_toNat (p : U16) (j : Nat) : (p &&& hi j).toNat = p.toNat / 2^j * 2^j := by
  rw [and_hi]
  simp [BitVec.toNat_shiftLeft, BitVec.toNat_ushiftRight, Nat.shiftLeft_eq, Nat.shiftRight_eq_div_pow]
  have h1 : p.toNat / 2^j * 2^j ≤ p.toNat := Nat.div_mul_le_self _ _
  have h2 : p.toNat < 65536 := p.isLt
  omega

theorem loopBody_inv (port end_ : U16) (s s' : LoopSt)
    (h : loopBody port end_ s = some s') (hi_ : Inv s) : Inv s' := by
  obtain ⟨⟨i, ht, hb⟩, hs⟩ := hi_
  unfold loopBody at h
  split at h
  · simp only at h
    split at h
    · cases h
    · cases h
      constructor
      · refine ⟨i+1, ?_, ?_⟩
        · simp only; rw [ht, hb, hi_step]
        · simp only; rw [hb, ← BitVec.shiftLeft_add]
      · simp only
        split
        · exact ⟨i, ht⟩
        · exact hs
  · cases h

theorem loop_shape (port end_ : U16) (fuel : Nat) (s : LoopSt) (h : Inv s) :
    Shape (loop port end_ fuel s) := by
  induction fuel generalizing s with
  | zero => simpa [loop] using h.shape
  | succ n ih =>
    unfold loop
    split
    · exact h.shape
    · rename_i s' hb
      exact ih s' (loopBody_inv port end_ s s' hb h)

theorem portMask_shape (port end_ : U16) : Shape (portMask port end_) := by
  apply loop_shape
  constructor
  · exact ⟨0, by simp [init, hi], by simp [init]⟩
  · exact ⟨0, by simp [init, hi]⟩

theorem hi_toNat (j : Nat) (h : j ≤ 16) : (hi j).toNat = 65536 - 2^j := by
  have : ∀ k : Fin 17, (hi k.val).toNat = 65536 - 2^k.val := by decide
  exact this ⟨j, by omega⟩

theorem hi_ge (j : Nat) (h : 16 ≤ j) : hi j = 0#16 := by
  unfold hi; exact BitVec.shiftLeft_eq_zero h

theorem two_pow_le (j : Nat) (h : j ≤ 16) : 2^j ≤ 65536 := by
  have : (2:Nat)^j ≤ 2^16 := Nat.pow_le_pow_right (by decide) h
  simpa using this

/-- a rule with a shaped, good mask matches exactly the block [port, port + ~mask] -/
theorem block_cover (port end_ m : U16) (hs : Shape m) (hg : Good port end_ m) (p : U16) :
    (p &&& m = port &&& m) ↔ (port.toNat ≤ p.toNat ∧ p.toNat ≤ port.toNat + (~~~m).toNat) := by
  obtain ⟨j, rfl⟩ := hs
  obtain ⟨hal, _⟩ := hg
  by_cases hj : j ≤ 16
  · have hB := two_pow_le j hj
    have hpos : 0 < 2^j := Nat.two_pow_pos j
    have hn : (~~~hi j).toNat = 2^j - 1 := by
      rw [BitVec.toNat_not, hi_toNat j hj]; omega
    rw [hn, hal]
    have hq : port.toNat / 2^j * 2^j = port.toNat := by
      have := congrArg BitVec.toNat hal
      rwa [and_hi_toNat] at this
    constructor
    · intro h
      have h' := congrArg BitVec.toNat h
      rw [and_hi_toNat] at h'
      have h1 : p.toNat / 2^j * 2^j ≤ p.toNat := Nat.div_mul_le_self _ _
      have h2 : p.toNat % 2^j < 2^j := Nat.mod_lt _ hpos
      have h3 := Nat.div_add_mod p.toNat (2^j)
      rw [Nat.mul_comm] at h3
      omega
    · intro ⟨h1, h2⟩
      apply BitVec.eq_of_toNat_eq
      rw [and_hi_toNat]
      have : p.toNat / 2^j = port.toNat / 2^j := by
        apply Nat.div_eq_of_lt_le
        · rw [hq]; exact h1
        · rw [Nat.add_mul, hq]; omega
      rw [this, hq]
  · have hz := hi_ge j (by omega)
    rw [hz] at hal ⊢
    have hp0 : port = 0#16 := by rw [← hal]; simp
    subst hp0
    simp
    have := p.isLt
    omega

theorem maxPort_toNat (port end_ m : U16) (hg : Good port end_ m) :
    (maxPort port m).toNat = port.toNat + (~~~m).toNat := by
  obtain ⟨hal, _⟩ := hg
  unfold maxPort
  rw [limit_sub, hal]
  have hd : (~~~m) &&& port = 0#16 := by
    have := not_and_and port m
    rwa [hal] at this
  rw [disjoint_add _ _ hd]; omega

theorem expand_cover (high : U16) : ∀ (fuel port : Nat), port ≤ high.toNat + 1 →
    high.toNat + 1 - port ≤ fuel → ∀ p : U16,
    (∃ r ∈ expand high fuel port, r.matches p) ↔ (port ≤ p.toNat ∧ p.toNat ≤ high.toNat) := by
  intro fuel
  induction fuel with
  | zero =>
    intro port h1 h2 p
    simp [expand]; omega
  | succ n ih =>
    intro port h1 h2 p
    unfold expand
    by_cases hle : port ≤ high.toNat
    · simp only [hle, if_true]
      have hlt : port < 65536 := by have := high.isLt; omega
      have hP : (BitVec.ofNat 16 port).toNat = port := by simp [BitVec.toNat_ofNat]; omega
      have hPle : BitVec.ofNat 16 port ≤ high := by simp [BitVec.le_def, hP]; exact hle
      have hg := portMask_good (BitVec.ofNat 16 port) high hPle
      have hs := portMask_shape (BitVec.ofNat 16 port) high
      have hmax := maxPort_toNat _ _ _ hg
      have hbc := block_cover _ _ _ hs hg p
      rw [hP] at hmax hbc
      have hgb := hg.2
      rw [hP] at hgb
      have ihn := ih ((maxPort (BitVec.ofNat 16 port) (portMask (BitVec.ofNat 16 port) high)).toNat + 1)
        (by omega) (by omega) p
      constructor
      · rintro ⟨r, hr, hm⟩
        rw [List.mem_cons] at hr
        rcases hr with rfl | hr
        · have := hbc.mp hm
          omega
        · have := ihn.mp ⟨r, hr, hm⟩
          omega
      · intro ⟨h3, h4⟩
        by_cases hin : p.toNat ≤ port + (~~~portMask (BitVec.ofNat 16 port) high).toNat
        · exact ⟨_, List.mem_cons_self, hbc.mpr ⟨h3, hin⟩⟩
        · obtain ⟨r, hr, hm⟩ := ihn.mpr ⟨by omega, h4⟩
          exact ⟨r, List.mem_cons_of_mem _ hr, hm⟩
    · simp [hle]; omega

/-- the ternary expansion matches exactly the ports of [low, high] — for all 2^32 ranges -/
theorem ternary_cover (low high : U16) (p : U16) :
    (∃ r ∈ ternary low high, r.matches p) ↔ (low.toNat ≤ p.toNat ∧ p.toNat ≤ high.toNat) := by
  unfold ternary
  by_cases h : low.toNat ≤ high.toNat + 1
  · apply expand_cover
    · exact h
    · have := high.isLt; omega
  · -- inverted far: no rules, nothing denoted
    have : ¬ low.toNat ≤ high.toNat := by omega
    unfold expand
    simp [this]; omega

#print axioms ternary_cover

end Tern

