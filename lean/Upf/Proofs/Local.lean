import Upf.Proofs.BessImage
import Upf.Proofs.AgentReply
/-! Store-level locality (C11): a session request of association `a` never changes what the agent holds for another association. -/
namespace Agent

theorem find_map_ne (a a' : Nat) (c : Conn) (h : a' ≠ a) : ∀ l : List (Nat × Conn),
    (l.map fun e => if e.1 = a then (a, c) else e).find? (fun e => decide (e.1 = a')) = l.find? (fun e => decide (e.1 = a'))
  | [] => rfl
  | e :: rest => by
    rw [List.map_cons, List.find?_cons, List.find?_cons, find_map_ne a a' c h rest]
    by_cases he : e.1 = a
    · have h1 : ¬ e.1 = a' := fun x => h (x.symm.trans he)
      have h2 : ¬ a = a' := fun x => h x.symm
      simp only [he, if_true, h2, decide_false]
    · simp only [he, if_false]

theorem connOf_setL_ne (l : List (Nat × Conn)) (a a' : Nat) (c : Conn) (h : a' ≠ a) : connOf (setL l a c) a' = connOf l a' := by
  unfold connOf setL
  split
  · rw [find_map_ne a a' c h l]
  · rw [List.find?_append]
    have : [(a, c)].find? (fun e => decide (e.1 = a')) = none := by simp [Ne.symm h]
    rw [this]; simp

theorem conn_setConn_ne (w : World) (a a' : Nat) (c : Conn) (h : a' ≠ a) : (w.setConn a c).conn a' = w.conn a' := by
  rw [conn_eq, setConn_conns, connOf_setL_ne _ _ _ _ h]; rfl

theorem establish_local (cfg : Cfg) (w : World) (a a' lseid : Nat) (r : EstReq) (h : a' ≠ a) :
    (establish cfg w a lseid r).1.conn a' = w.conn a' := by
  rcases establish_cases cfg w a lseid r with ⟨hc, _, _⟩ | ⟨s, _, _, hc, _, _⟩
  · rw [conn_eq, hc]; rfl
  · rw [conn_eq, hc, connOf_setL_ne _ _ _ _ h]; rfl

theorem delete_local (cfg : Cfg) (w : World) (a a' seid : Nat) (h : a' ≠ a) :
    (deleteSession cfg w a seid).1.conn a' = w.conn a' := by
  rcases deleteSession_cases cfg w a seid with ⟨_, hw⟩ | ⟨s, _, _, hc⟩
  · rw [hw]
  · rw [conn_eq, hc, connOf_setL_ne _ _ _ _ h]; rfl

theorem modify_local (cfg : Cfg) (w : World) (a a' : Nat) (r : ModReq) (h : a' ≠ a) :
    (modify cfg w a r).world.conn a' = w.conn a' := by
  unfold modify
  cases hfind : (w.conn a).sessions.find? (·.lseid = r.seid) with
  | none => simp [hfind]
  | some s0 =>
    simp only [hfind]
    cases r.cpFseid with
    | none =>
      dsimp only
      repeat' split
      all_goals first
        | rfl
        | exact conn_setConn_ne _ a a' _ h
    | some v =>
      obtain ⟨cp, ip⟩ := v
      dsimp only
      repeat' split
      all_goals first
        | rfl
        | exact conn_setConn_ne _ a a' _ h

theorem report_local (cfg : Cfg) (w : World) (a a' seid : Nat) (h : a' ≠ a) :
    (reportContextNotFound cfg w a seid).conn a' = w.conn a' := by
  unfold reportContextNotFound
  dsimp only
  cases (w.conn a).sessions.find? (·.lseid = seid) with
  | none => rfl
  | some s => dsimp only; rw [conn_setConn_ne _ a a' _ h]; rfl

theorem find_filter_ne (a a' : Nat) (h : a' ≠ a) : ∀ l : List (Nat × Conn),
    (l.filter (·.1 ≠ a)).find? (fun e => decide (e.1 = a')) = l.find? (fun e => decide (e.1 = a'))
  | [] => rfl
  | e :: rest => by
    have ih := find_filter_ne a a' h rest
    by_cases he : e.1 = a
    · have h1 : ¬ e.1 = a' := fun x => h (x.symm.trans he)
      have hf : (e :: rest).filter (·.1 ≠ a) = rest.filter (·.1 ≠ a) := by simp [he]
      rw [hf, ih, List.find?_cons]
      simp only [h1, decide_false]
    · have hf : (e :: rest).filter (·.1 ≠ a) = e :: rest.filter (·.1 ≠ a) := by simp [he]
      rw [hf, List.find?_cons, List.find?_cons, ih]

/-- an association's ending (release, timeout, heartbeat failure, stop) removes its own record only -/
theorem shutdown_local (cfg : Cfg) (w : World) (a a' : Nat) (h : a' ≠ a) : (shutdownConn cfg w a).conn a' = w.conn a' := by
  unfold shutdownConn World.conn
  dsimp only
  rw [foldl_drop_conns, find_filter_ne a a' h]

end Agent
