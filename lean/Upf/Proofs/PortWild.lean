import Upf.Model.PortProduct
import Upf.Proofs.PortProduct
/-! C17: a wildcard rule (mask 0) is produced only for the full range 0-65535 or the zero value 0-0. -/
namespace Tern

theorem expand_mem (high : U16) : ∀ (fuel port : Nat) (r : Rule), r ∈ expand high fuel port →
    port ≤ r.port.toNat ∧ Good r.port high r.mask := by
  intro fuel
  induction fuel with
  | zero => intro port r h; simp [expand] at h
  | succ n ih =>
    intro port r h
    unfold expand at h
    by_cases hle : port ≤ high.toNat
    · simp only [hle, if_true] at h
      have hlt : port < 65536 := by have := high.isLt; omega
      have hP : (BitVec.ofNat 16 port).toNat = port := by simp [BitVec.toNat_ofNat]; omega
      have hPle : BitVec.ofNat 16 port ≤ high := by simp [BitVec.le_def, hP]; exact hle
      have hg := portMask_good (BitVec.ofNat 16 port) high hPle
      rw [List.mem_cons] at h
      rcases h with rfl | h
      · exact ⟨by simp only [hP]; omega, hg⟩
      · have := ih _ r h
        refine ⟨?_, this.2⟩
        have h1 := this.1
        have hmax := maxPort_toNat _ _ _ hg
        rw [hP] at hmax
        omega
    · simp [hle] at h

theorem ternary_mask_zero (low high : U16) (r : Rule) (h : r ∈ ternary low high) (hm : r.mask = 0#16) :
    low = 0#16 ∧ high = 0xFFFF#16 := by
  obtain ⟨h1, _, h3⟩ := expand_mem high _ _ r h
  rw [hm] at h3
  have e : (~~~(0#16 : U16)).toNat = 65535 := by decide
  rw [e] at h3
  have := high.isLt
  constructor <;> apply BitVec.eq_of_toNat_eq <;> simp <;> omega

theorem exactRules_mask (pr : PR) (r : Rule) (h : r ∈ exactRules pr) : r.mask = 0xFFFF#16 := by
  unfold exactRules at h
  simp only [List.mem_map] at h
  obtain ⟨n, _, rfl⟩ := h
  rfl

theorem complex_wildcard_only_full (s : Strategy) (pr : PR) (rs : List Rule) (h : asComplex s pr = some rs)
    (r : Rule) (hr : r ∈ rs) (hm : r.mask = 0#16) : pr.isWildcard := by
  unfold asComplex at h
  split at h
  · cases h
    simp only [List.mem_singleton] at hr
    subst hr
    simp at hm
  · split at h
    · rename_i hw; exact hw
    · cases s with
      | exact =>
        simp only at h
        split at h
        · cases h
        · cases h
          have := exactRules_mask pr r hr
          rw [hm] at this
          exact absurd this (by decide)
      | ternary =>
        simp only at h
        cases h
        have := ternary_mask_zero pr.low pr.high r hr hm
        exact Or.inl this

end Tern
