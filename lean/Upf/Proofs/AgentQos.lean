import Upf.Model.Agent
/-! QER arithmetic of `addQER` (bess.go) on the Agent model. -/
namespace Agent

theorem consts_gates : Gen.Consts.qerGateMeter = 0 ∧ Gen.Consts.qerGateStatusDrop = 5 ∧ Gen.Consts.qerGateUnmeter = 6 := by decide

theorem u64_id (n : Nat) (h : n < 18446744073709551616) : u64 n = n := Nat.mod_eq_of_lt h

/-- closed gate: the direction is dropped, whatever the rates -/
theorem half_closed (status mbr gbr c0 p0 : Nat) (h : status ≠ 0) :
    (qerHalf status mbr gbr c0 p0).1 = Gen.Consts.qerGateStatusDrop := by
  simp [qerHalf, h]

/-- both rates zero: unmetered -/
theorem half_unmetered (c0 p0 : Nat) : (qerHalf 0 0 0 c0 p0).1 = Gen.Consts.qerGateUnmeter := by
  simp [qerHalf]

/-- open gate with a rate, 40-bit rates, GBR ≤ MBR: metered, peak = MBR × 125, committed = max (GBR × 125) 1 -/
theorem half_exact (mbr gbr c0 p0 : Nat) (hm : mbr < 2^40) (hle : gbr ≤ mbr) (hne : mbr ≠ 0 ∨ gbr ≠ 0) :
    qerHalf 0 mbr gbr c0 p0 = (Gen.Consts.qerGateMeter, max (gbr * 125) 1, mbr * 125) := by
  have hg : gbr < 2^40 := by omega
  have hpos : 0 < mbr := by rcases hne with h | h <;> omega
  have e1 : u64 (gbr * 1000) / 8 = gbr * 125 := by
    rw [u64_id _ (by omega)]; omega
  have e2 : u64 (mbr * 1000) / 8 = mbr * 125 := by
    rw [u64_id _ (by omega)]; omega
  simp only [qerHalf, hne, if_true, e1, e2]
  simp only [ne_eq, not_true_eq_false, if_false]
  congr 2
  omega

/-- `calcBurstSizeFromRate` is exactly ⌊rate × duration / 8⌋ bytes (rate in kbit/s, duration in ms) as long as it fits 64 bits -/
theorem calcBurst_exact (kbps ms : Nat) (h : kbps * ms < 2^64) : calcBurst kbps ms = kbps * ms / 8 := by
  have hk : kbps = kbps / 8 * 8 + kbps % 8 := by omega
  have hmul : kbps * ms = (kbps / 8 * ms) * 8 + kbps % 8 * ms := by
    conv => lhs; rw [hk]
    rw [Nat.add_mul, Nat.mul_right_comm]
  have h1 : kbps / 8 * ms ≤ kbps * ms := by rw [hmul]; omega
  have h2 : kbps % 8 * ms ≤ kbps * ms := by rw [hmul]; omega
  have e : kbps * ms / 8 = kbps / 8 * ms + kbps % 8 * ms / 8 := by
    rw [hmul, Nat.add_comm, Nat.add_mul_div_right _ _ (by decide : 0 < 8), Nat.add_comm]
  unfold calcBurst
  rw [u64_id (kbps / 8 * ms) (by omega), u64_id (kbps % 8 * ms) (by omega), ← e, u64_id _ (by omega)]

end Agent
