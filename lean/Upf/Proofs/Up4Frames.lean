import Upf.Proofs.Up4Meters
/-! Everything in up4.go other than configureMeters / resetMeters leaves the meter pools and the `meters` map alone;
hence the create / update / delete orchestration keeps the meter invariant, for every environment. -/
namespace Up4

/-- the part of the state the meter invariant speaks about -/
def St.mtr (s : St) : List Nat × List Nat × List ((Nat × Nat) × Meter) := (s.appFree, s.sessFree, s.meters)

theorem minv_of_mtr {s s' : St} (h : s'.mtr = s.mtr) (hI : MInv s) : MInv s' := by
  simp only [St.mtr, Prod.mk.injEq] at h
  obtain ⟨a, b, c⟩ := h
  show MI s'.appFree s'.sessFree s'.meters
  rw [a, b, c]; exact hI

@[simp] theorem write_mtr (c : Ctx) (ups : List Upd) : (write c ups).1.st.mtr = c.st.mtr := by simp [St.mtr]

theorem allocCounters_mtr : ∀ (n : Nat) (todo done : List Agent.Pdr) (c : Ctx), (allocCounters c n done todo).1.st.mtr = c.st.mtr
  | 0, _, _, c => by simp [allocCounters]
  | _ + 1, [], _, c => by simp [allocCounters]
  | n + 1, p :: todo, done, c => by
    unfold allocCounters
    cases hp : pop c c.st.ctrFree with
    | none => rfl
    | some r =>
      obtain ⟨id, free, c1⟩ := r
      have hst := (pop_spec hp).2.2
      simp only
      split
      · rw [allocCounters_mtr n todo]; simp [St.mtr, hst]
      · simp [St.mtr, hst]

theorem addOrUpdatePeer_mtr (cfg : Cfg4) (c : Ctx) (f : Agent.Far) : (addOrUpdatePeer cfg c f).1.st.mtr = c.st.mtr := by
  unfold addOrUpdatePeer
  try dsimp only
  cases hm : mapGet c.st.peers (tpOf cfg f) with
  | some pr =>
    simp only
    cases hb : buildPeer pr.id (tpOf cfg f) with
    | none => rfl
    | some e => simp [St.mtr]
  | none =>
    simp only
    cases hp : c.st.peerPool with
    | nil => rfl
    | cons id pool =>
      simp only
      cases hb : buildPeer id (tpOf cfg f) with
      | none => rfl
      | some e =>
        simp only
        split <;> simp [St.mtr]

theorem updatePeers_mtr (cfg : Cfg4) : ∀ (fs : List Agent.Far) (c : Ctx), (updatePeers cfg c fs).1.st.mtr = c.st.mtr
  | [], c => by simp [updatePeers]
  | f :: rest, c => by
    unfold updatePeers
    split
    · have h := addOrUpdatePeer_mtr cfg c f
      generalize addOrUpdatePeer cfg c f = r at h
      obtain ⟨c1, b⟩ := r
      cases b
      · exact h
      · simp only; rw [updatePeers_mtr cfg rest c1]; exact h
    · exact updatePeers_mtr cfg rest c

theorem addApp_mtr (cfg : Cfg4) (st : St) (p : Agent.Pdr) : (addApp cfg st p).1.mtr = st.mtr := by
  unfold addApp
  try dsimp only
  cases mapGet st.apps (afOf p) with
  | some ap => rfl
  | none =>
    simp only
    cases st.appPool with
    | nil => rfl
    | cons id pool =>
      simp only
      cases buildApplication p cfg.sliceID id <;> rfl

theorem removeApp_mtr (cfg : Cfg4) (st : St) (p : Agent.Pdr) : (removeApp cfg st p).1.mtr = st.mtr := by
  unfold removeApp
  try dsimp only
  cases mapGet st.apps (afOf p) with
  | none => rfl
  | some ap =>
    simp only
    split
    · rfl
    · cases ap.entry <;> rfl

theorem appStep_mtr (cfg : Cfg4) (op : Op) (st : St) (p : Agent.Pdr) : (appStep cfg op st p).1.mtr = st.mtr := by
  unfold appStep
  split
  · rfl
  · split
    · have := addApp_mtr cfg st p
      generalize addApp cfg st p = r at this
      obtain ⟨s1, o⟩ := r
      cases o with
      | none => exact this
      | some x => obtain ⟨e, id⟩ := x; exact this
    · exact removeApp_mtr cfg st _

/-- the state after `prepare` is the one before, or the one after the application step -/
theorem prepare_state (cfg : Cfg4) (fars : List Agent.Far) (qers : List Agent.Qer) (op : Op) (st : St) (p : Agent.Pdr) :
    (prepare cfg fars qers op st p).1 = st ∨ ∃ p', (prepare cfg fars qers op st p).1 = (appStep cfg op st p').1 := by
  unfold prepare
  repeat' (first | exact Or.inl rfl | exact Or.inr ⟨_, rfl⟩ | split | dsimp only)

theorem prepare_mtr (cfg : Cfg4) (fars : List Agent.Far) (qers : List Agent.Qer) (op : Op) (st : St) (p : Agent.Pdr) :
    (prepare cfg fars qers op st p).1.mtr = st.mtr := by
  rcases prepare_state cfg fars qers op st p with h | ⟨p', h⟩
  · rw [h]
  · rw [h]; exact appStep_mtr cfg op st p'

theorem modifyFwd_mtr (cfg : Cfg4) (fars : List Agent.Far) (qers : List Agent.Qer) (op : Op) :
    ∀ (ps : List Agent.Pdr) (c : Ctx), (modifyFwd cfg fars qers op c ps).1.st.mtr = c.st.mtr
  | [], c => by simp [modifyFwd]
  | p :: rest, c => by
    unfold modifyFwd
    have h := prepare_mtr cfg fars qers op c.st p
    generalize prepare cfg fars qers op c.st p = r at h
    obtain ⟨st, oe⟩ := r
    cases oe with
    | none => exact h
    | some entries =>
      simp only
      split
      · rw [modifyFwd_mtr cfg fars qers op rest]; simpa using h
      · simpa using h

theorem removePeer_mtr (cfg : Cfg4) (c : Ctx) (f : Agent.Far) : (removePeer cfg c f).st.mtr = c.st.mtr := by
  unfold removePeer
  try dsimp only
  cases mapGet c.st.peers (tpOf cfg f) with
  | none => rfl
  | some pr =>
    simp only
    split
    · rfl
    · cases buildPeer pr.id (tpOf cfg f) with
      | none => rfl
      | some e => simp [St.mtr]

theorem removePeers_mtr (cfg : Cfg4) : ∀ (fs : List Agent.Far) (c : Ctx), (fs.foldl (removePeer cfg) c).st.mtr = c.st.mtr
  | [], c => rfl
  | f :: rest, c => by simp only [List.foldl_cons]; rw [removePeers_mtr cfg rest, removePeer_mtr]

theorem updateMaps_mtr : ∀ (ps : List Agent.Pdr) (st : St), (updateMaps st ps).mtr = st.mtr
  | [], st => rfl
  | p :: rest, st => by
    unfold updateMaps
    simp only [List.foldl_cons]
    have := updateMaps_mtr rest (if p.srcIface = Sdf.access then st
      else { st with ue2f := mapPut st.ue2f p.ueAddress p.fseID, f2ue := mapPut st.f2ue p.fseID p.ueAddress })
    unfold updateMaps at this
    rw [this]; split <;> rfl

theorem removeMaps_mtr : ∀ (ps : List Agent.Pdr) (st : St), (removeMaps st ps).mtr = st.mtr
  | [], st => rfl
  | p :: rest, st => by
    unfold removeMaps
    simp only [List.foldl_cons]
    have := removeMaps_mtr rest (if p.srcIface = Sdf.access then st
      else { st with ue2f := mapDel st.ue2f p.ueAddress, f2ue := mapDel st.f2ue p.fseID })
    unfold removeMaps at this
    rw [this]; split <;> rfl

/-! ## the orchestration -/

/-- **sendCreate** keeps the meter invariant — for every pick and every outcome of every Write, accepted or refused -/
theorem sendCreate_inv (cfg : Cfg4) (c : Ctx) (all updated : Rules) (hI : MInv c.st) : MInv (sendCreate cfg c all updated).1.st := by
  unfold sendCreate
  have h1 := allocCounters_mtr updated.pdrs.length all.pdrs [] c
  generalize allocCounters c updated.pdrs.length [] all.pdrs = r1 at h1
  obtain ⟨c1, pdrs, ok1⟩ := r1
  have hI1 : MInv c1.st := minv_of_mtr h1 hI
  cases ok1
  · exact hI1
  · simp only [Bool.not_true, Bool.false_eq_true, if_false]
    have hI1' : MInv (updateMaps c1.st updated.pdrs) := minv_of_mtr (updateMaps_mtr _ _) hI1
    have h2 := configureMeters_inv updated.qers.length updated.qers { c1 with st := updateMaps c1.st updated.pdrs } hI1'
    generalize configureMeters updated.qers.length { c1 with st := updateMaps c1.st updated.pdrs } updated.qers = r2 at h2
    obtain ⟨c2, ok2⟩ := r2
    cases ok2
    · exact h2
    · simp only [Bool.not_true, Bool.false_eq_true, if_false]
      have h3 := updatePeers_mtr cfg updated.fars c2
      generalize updatePeers cfg c2 updated.fars = r3 at h3
      obtain ⟨c3, ok3⟩ := r3
      have hI3 : MInv c3.st := minv_of_mtr h3 h2
      cases ok3
      · exact hI3
      · simp only [Bool.not_true, Bool.false_eq_true, if_false]
        exact minv_of_mtr (modifyFwd_mtr cfg all.fars all.qers .insert pdrs c3) hI3

/-- **sendUpdate** does not touch the meter pools at all -/
theorem sendUpdate_inv (cfg : Cfg4) (c : Ctx) (all updated : Rules) (hI : MInv c.st) : MInv (sendUpdate cfg c all updated).1.st := by
  unfold sendUpdate
  dsimp only
  have h3 := updatePeers_mtr cfg updated.fars { c with st := updateMaps c.st updated.pdrs }
  generalize updatePeers cfg { c with st := updateMaps c.st updated.pdrs } updated.fars = r3 at h3
  obtain ⟨c3, ok3⟩ := r3
  have hI3 : MInv c3.st := minv_of_mtr (h3.trans (updateMaps_mtr _ _)) hI
  cases ok3
  · exact hI3
  · simp only [Bool.not_true, Bool.false_eq_true, if_false]
    exact minv_of_mtr (modifyFwd_mtr cfg all.fars all.qers .modify all.pdrs c3) hI3

/-- **sendDelete** keeps the meter invariant whatever fails -/
theorem sendDelete_inv (cfg : Cfg4) (c : Ctx) (del : Rules) (hI : MInv c.st) : MInv (sendDelete cfg c del).1.st := by
  unfold sendDelete
  have h1 := modifyFwd_mtr cfg del.fars del.qers .delete del.pdrs c
  generalize modifyFwd cfg del.fars del.qers .delete c del.pdrs = r1 at h1
  obtain ⟨c1, ok1⟩ := r1
  have hI1 : MInv c1.st := minv_of_mtr h1 hI
  cases ok1
  · exact hI1
  · simp only [Bool.not_true, Bool.false_eq_true, if_false]
    have hI2 := resetMeters_inv del.qers { c1 with st := { c1.st with ctrFree := del.pdrs.foldl (fun l p => setAdd l p.ctrID) c1.st.ctrFree } } hI1
    exact minv_of_mtr ((removeMaps_mtr _ _).trans (removePeers_mtr cfg del.fars _)) hI2

/-- the pools `start` creates satisfy the invariant -/
theorem start_inv (cfg : Cfg4) (srv : Srv) (injs : List Inj) : MInv (start cfg srv injs).1.st := by
  have h2 : arrSize Up4.info.meters Gen.P4Constants.MeterPreQosPipeAppMeter = 1024 := by decide
  have h3 : arrSize Up4.info.meters Gen.P4Constants.MeterPreQosPipeSessionMeter = 1024 := by decide
  have hnd : ((List.range 1023).map (· + 1)).Nodup := by
    rw [List.nodup_iff_pairwise_ne] 
    exact List.pairwise_map.mpr ((List.pairwise_lt_range (n := 1023)).imp (by intro a b h; omega))
  have hempty : MI [] [] [] := ⟨by simp, by simp, by simp [mapGet], by simp [mapGet], by simp [mapGet], by simp, by simp, by simp [mapGet], by simp [mapGet]⟩
  have hfull : MI ((List.range 1023).map (· + 1)) ((List.range 1023).map (· + 1)) [] :=
    ⟨hnd, hnd, by simp [mapGet], by simp [mapGet], by simp [mapGet],
     by intro x hx; simp at hx; omega, by intro x hx; simp at hx; omega, by simp [mapGet], by simp [mapGet]⟩
  unfold start
  simp only [h2, h3, Nat.reduceSub]
  generalize (List.range 1023).map (· + 1) = R at hfull ⊢
  split
  · show MI _ _ _; simp only [write_appFree, write_sessFree, write_meters]; exact hempty
  · split
    · show MI _ _ _; simp only [write_appFree, write_sessFree, write_meters]; exact hfull
    · show MI _ _ _; simp only [write_meters]; exact hfull

end Up4
