import Upf.Proofs.Up4Basic
/-! C04, crash clause on the model: whatever a previous incarnation left in the switch, after a start-up whose two Writes are
served, the seven tables the agent owns hold nothing but the two interfaces entries. -/
namespace Up4

/-- a batch of DELETEs without injected fault removes exactly the entries whose key some DELETE names -/
theorem batch_deletes (es : List Entry) : ∀ (s : Srv) (j : Nat),
    ((s.batch .none (es.map fun e => (⟨.delete, .tbl e⟩ : Upd)) j).1.entries =
      s.entries.filter fun x => !(es.any fun d => x.key == d.key)) ∧
    (s.batch .none (es.map fun e => (⟨.delete, .tbl e⟩ : Upd)) j).1.meters = s.meters := by
  induction es with
  | nil =>
    intro s j
    refine ⟨?_, rfl⟩
    simp only [List.map_nil, Srv.batch, List.any_nil, Bool.not_false]
    exact (List.filter_eq_self.mpr (fun _ _ => rfl)).symm
  | cons d rest ih =>
    intro s j
    simp only [List.map_cons, Srv.batch]
    have hstep : (s.apply ⟨.delete, .tbl d⟩).1.entries = s.entries.filter (fun x => !(x.key == d.key)) ∧
        (s.apply ⟨.delete, .tbl d⟩).1.meters = s.meters := by
      unfold Srv.apply
      simp only
      split
      · exact ⟨rfl, rfl⟩
      · rename_i hh
        refine ⟨?_, rfl⟩
        -- no entry has that key: filtering changes nothing
        have : ∀ x ∈ s.entries, (x.key == d.key) = false := by
          intro x hx
          cases h : (x.key == d.key) with
          | false => rfl
          | true =>
            have hany : s.has d = true := by unfold Srv.has; exact List.any_eq_true.mpr ⟨x, hx, h⟩
            exact absurd hany hh
        symm
        apply List.filter_eq_self.mpr
        intro x hx; simp [this x hx]
    obtain ⟨he, hm⟩ := ih (s.apply ⟨.delete, .tbl d⟩).1 (j + 1)
    refine ⟨?_, by rw [hm, hstep.2]⟩
    rw [he, hstep.1, List.filter_filter]
    congr 1
    funext x
    simp only [List.any_cons, Bool.not_or, Bool.and_comm]

/-- the DELETEs `start` issues name every entry of the tables the agent owns: after that Write (served) none is left -/
theorem clear_write (c : Ctx) (hn : nextInj c = .none) (e : Entry)
    (he : e ∈ (write c
      (clearedTables.flatMap fun t => (c.st.srv.entries.filter (·.table == t)).map fun e => (⟨.delete, .tbl e⟩ : Upd))).1.st.srv.entries) :
    e.table ∉ clearedTables := by
  unfold write at he
  simp only [hn, reduceCtorEq, if_false] at he
  have hmap : (clearedTables.flatMap fun t => (c.st.srv.entries.filter (·.table == t)).map fun e => (⟨.delete, .tbl e⟩ : Upd)) =
      (clearedTables.flatMap fun t => c.st.srv.entries.filter (·.table == t)).map fun e => (⟨.delete, .tbl e⟩ : Upd) := by
    simp [List.map_flatMap]
  rw [hmap, (batch_deletes _ c.st.srv 0).1] at he
  intro ht
  have hmem := List.mem_filter.mp he
  have : (clearedTables.flatMap fun t => c.st.srv.entries.filter (·.table == t)).any (fun d => e.key == d.key) = true := by
    apply List.any_eq_true.mpr
    exact ⟨e, List.mem_flatMap.mpr ⟨e.table, ht, List.mem_filter.mpr ⟨hmem.1, by simp⟩⟩, by simp⟩
  simp [this] at hmem

/-- two INSERTs add at most the two entries -/
theorem insert2_entries (c : Ctx) (a b e : Entry)
    (he : e ∈ (write c [⟨.insert, .tbl a⟩, ⟨.insert, .tbl b⟩]).1.st.srv.entries) : e ∈ c.st.srv.entries ∨ e = a ∨ e = b := by
  unfold write at he
  by_cases hr : nextInj c = .rpc
  · simp only [hr, if_true] at he; exact Or.inl he
  · simp only [hr, if_false, Srv.batch] at he
    -- each step either keeps the entries or appends its entry
    have step : ∀ (s : Srv) (x : Entry) (inj : Inj) (j : Nat) (y : Entry),
        y ∈ (match inj with | .upd k code => if k = j then (s, code) else s.apply ⟨.insert, .tbl x⟩ | _ => s.apply ⟨.insert, .tbl x⟩).1.entries →
        y ∈ s.entries ∨ y = x := by
      intro s x inj j y hy
      have happ : ∀ y, y ∈ (s.apply ⟨.insert, .tbl x⟩).1.entries → y ∈ s.entries ∨ y = x := by
        intro y hy
        unfold Srv.apply at hy
        simp only at hy
        split at hy
        · exact Or.inl hy
        · simp at hy; exact hy
      cases inj with
      | none => exact happ y hy
      | rpc => exact happ y hy
      | upd k code =>
        simp only at hy
        split at hy
        · exact Or.inl hy
        · exact happ y hy
    rcases step _ b (nextInj c) 1 e he with h | h
    · rcases step _ a (nextInj c) 0 e h with h | h
      · exact Or.inl h
      · exact Or.inr (Or.inl h)
    · exact Or.inr (Or.inr h)

/-- **start-up clears what a previous incarnation left**: when `start` reports success with no injected fault, every entry of the
seven tables the agent owns is one of the two interfaces entries it has just written -/
theorem start_tables (cfg : Cfg4) (srv : Srv) (ue n3 : Entry)
    (hue : buildInterface cfg.uePool.1 cfg.uePool.2 cfg.sliceID true = some ue)
    (hn3 : buildInterface cfg.accessIP cfg.accessLen cfg.sliceID false = some n3)
    (e : Entry) (he : e ∈ (start cfg srv []).1.st.srv.entries) (ht : e.table ∈ clearedTables) : e = ue ∨ e = n3 := by
  unfold start at he
  simp only [hue, hn3] at he
  generalize hc0 : ({ st := { peerPool := (List.range Gen.Consts.maxGTPTunnelPeerIDs).map (· + 2),
                              appPool := (List.range Gen.Consts.maxApplicationIDs).map (· + 1), srv := srv }, injs := [] } : Ctx) = c0 at he
  have hn : nextInj c0 = .none := by rw [← hc0]; rfl
  have hsrv : c0.st.srv = srv := by rw [← hc0]
  have hclear := clear_write c0 hn
  rw [hsrv] at hclear
  split at he
  · exact absurd ht (hclear e he)
  · rcases insert2_entries _ ue n3 e he with h | h
    · exact absurd ht (hclear e h)
    · exact h

end Up4
