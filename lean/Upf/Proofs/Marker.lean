import Upf.Model.Marker

namespace Marker

theorem updateOne_spec : ∀ (fars : List Far) (u : Far),
    (updateOne fars u).map (·.2) = (find fars u.id).map (fun old => if u.sndem then [marker old] else []) := by
  intro fars
  induction fars with
  | nil => intro u; simp [updateOne, find]
  | cons v vs ih =>
    intro u
    by_cases h : v.id = u.id
    · simp [updateOne, find, h]
    · have := ih u
      have hb : (v.id == u.id) = false := by simp [h]
      simp only [updateOne, h, if_false, find, List.find?_cons, hb] at this ⊢
      rw [Option.map_map]
      simpa [Function.comp_def, find] using this

/-- an update leaves the stored FARs with other ids findable exactly as before -/
theorem updateOne_other : ∀ (fars fars' : List Far) (u : Far) (m : List Pkt) (id : Nat),
    updateOne fars u = some (fars', m) → id ≠ u.id → find fars' id = find fars id := by
  intro fars
  induction fars with
  | nil => intro fars' u m id h; simp [updateOne] at h
  | cons v vs ih =>
    intro fars' u m id h hne
    by_cases hv : v.id = u.id
    · simp [updateOne, hv] at h
      obtain ⟨rfl, _⟩ := h
      have h1 : ¬ u.id = id := fun e => hne e.symm
      have h2 : ¬ v.id = id := fun e => hne (by rw [← e, hv])
      simp [find, List.find?_cons, h1, h2]
    · simp only [updateOne, hv, if_false] at h
      cases hr : updateOne vs u with
      | none => rw [hr] at h; cases h
      | some p =>
        obtain ⟨vs', m'⟩ := p
        rw [hr] at h
        simp at h
        obtain ⟨rfl, _⟩ := h
        have := ih vs' u m' id hr hne
        by_cases hv2 : v.id = id
        · simp [find, List.find?_cons, hv2]
        · have hb : (v.id == id) = false := by simp [hv2]
          simp only [find, List.find?_cons, hb] at this ⊢
          exact this

theorem flatMap_congr' {α β : Type} (f g : α → List β) : ∀ (l : List α), (∀ x ∈ l, f x = g x) →
    l.flatMap f = l.flatMap g := by
  intro l
  induction l with
  | nil => intro _; rfl
  | cons a as ih =>
    intro h
    simp only [List.flatMap_cons]
    rw [h a List.mem_cons_self, ih (fun x hx => h x (List.mem_cons_of_mem _ hx))]

/-- exactly one marker per flagged update of a known FAR, built from the FAR stored BEFORE this message,
    in the order of the Update FAR IEs — provided the message does not update one FAR twice -/
theorem markers_exact : ∀ (us : List Far) (fars : List Far), (us.map (·.id)).Nodup →
    (updateAll fars us).2 =
      us.flatMap fun u => match find fars u.id with
        | some old => if u.sndem then [marker old] else []
        | none => [] := by
  intro us
  induction us with
  | nil => intro fars _; simp [updateAll]
  | cons u us ih =>
    intro fars hnd
    simp only [List.map_cons, List.nodup_cons] at hnd
    have hspec := updateOne_spec fars u
    simp only [updateAll, List.flatMap_cons]
    cases hr : updateOne fars u with
    | none =>
      rw [hr] at hspec
      simp only [Option.map_none] at hspec
      have hf : find fars u.id = none := by
        cases hfind : find fars u.id with
        | none => rfl
        | some o => rw [hfind] at hspec; cases hspec
      simp only [hf, List.nil_append]
      exact ih fars hnd.2
    | some p =>
      obtain ⟨fars', m⟩ := p
      rw [hr] at hspec
      simp only [Option.map_some] at hspec
      cases hfind : find fars u.id with
      | none => rw [hfind] at hspec; cases hspec
      | some old =>
        rw [hfind] at hspec
        simp only [Option.map_some, Option.some.injEq] at hspec
        simp only
        rw [ih fars' hnd.2, hspec]
        congr 1
        -- the later updates have other ids, so they see the same stored FARs
        apply flatMap_congr'
        intro w hw
        have hne : w.id ≠ u.id := fun e => hnd.1 (e ▸ List.mem_map.mpr ⟨w, hw, rfl⟩)
        rw [updateOne_other fars fars' u m w.id hr hne]

#print axioms markers_exact

end Marker

