import Upf.Proofs.Up4Ids
/-!
Tunnel-peer references (C04, "one tunnel_peers entry per distinct GTP peer, present iff a live rule uses it"):
after `updateTunnelPeersBasedOnFARs` succeeded, every FAR of the request that names a tunnel towards the access
network — whatever its action (fix 83b28b9) — holds a reference on its peer, references only ever grow while peers are
added, and the rest of `sendCreate` / `sendUpdate` does not touch them. Together with `prepare`, which builds (and
deletes) a PDR's entries only while the peer of its FAR is known, a request that was accepted leaves every
tunnel-naming FAR it carried with a recorded peer.
-/
namespace Up4
open Agent

/-- the FAR holds a reference on the peer of its tunnel -/
def HasRef (cfg : Cfg4) (st : St) (f : Far) : Prop :=
  ∃ pr, mapGet st.peers (tpOf cfg f) = some pr ∧ (f.fseID, f.farID) ∈ pr.usedBy

/-- the FAR names a tunnel towards the access network -/
def namesTunnel (f : Far) : Prop := f.dstIntf = 0 ∧ f.tunnelTEID ≠ 0

theorem mem_pairAdd_self (l : List (Nat × Nat)) (x : Nat × Nat) : x ∈ pairAdd l x := by
  unfold pairAdd
  split
  · rename_i h; exact List.contains_iff_mem.mp h
  · simp

theorem mem_pairAdd_of_mem {l : List (Nat × Nat)} {y : Nat × Nat} (x : Nat × Nat) (h : y ∈ l) : y ∈ pairAdd l x := by
  unfold pairAdd
  split
  · exact h
  · simp [h]

/-- a successful `addOrUpdateGTPTunnelPeer` records the FAR's reference -/
theorem addOrUpdatePeer_ref (cfg : Cfg4) (c : Ctx) (f : Far) (ok : (addOrUpdatePeer cfg c f).2 = true) :
    HasRef cfg (addOrUpdatePeer cfg c f).1.st f := by
  unfold addOrUpdatePeer at ok ⊢
  try dsimp only at ok ⊢
  cases hm : mapGet c.st.peers (tpOf cfg f) with
  | some pr =>
    simp only [hm] at ok ⊢
    cases hb : buildPeer pr.id (tpOf cfg f) with
    | none => simp only [hb] at ok; exact absurd ok (by simp)
    | some e =>
      simp only [hb] at ok ⊢
      refine ⟨{ pr with usedBy := pairAdd pr.usedBy (f.fseID, f.farID) }, ?_, mem_pairAdd_self _ _⟩
      simp only [write_peers]
      rw [mapGet_mapPut]; simp
  | none =>
    simp only [hm] at ok ⊢
    cases hp : c.st.peerPool with
    | nil => simp only [hp] at ok; exact absurd ok (by simp)
    | cons id pool =>
      simp only [hp] at ok ⊢
      cases hb : buildPeer id (tpOf cfg f) with
      | none => simp only [hb] at ok; exact absurd ok (by simp)
      | some e =>
        simp only [hb] at ok ⊢
        split at ok
        · rename_i hr
          simp only [hr, if_true]
          refine ⟨{ id := id, usedBy := [(f.fseID, f.farID)] }, ?_, by simp⟩
          simp only [write_peers]
          rw [mapGet_mapPut]; simp
        · exact absurd ok (by simp)

/-- references only grow while peers are added (whether or not the call succeeds) -/
theorem addOrUpdatePeer_mono (cfg : Cfg4) (c : Ctx) (f g : Far) (h : HasRef cfg c.st g) :
    HasRef cfg (addOrUpdatePeer cfg c f).1.st g := by
  obtain ⟨pg, hg, hmem⟩ := h
  unfold addOrUpdatePeer
  try dsimp only
  cases hm : mapGet c.st.peers (tpOf cfg f) with
  | some pr =>
    simp only
    have key : HasRef cfg { c.st with peers := mapPut c.st.peers (tpOf cfg f) { pr with usedBy := pairAdd pr.usedBy (f.fseID, f.farID) } } g := by
      unfold HasRef
      simp only
      rw [mapGet_mapPut]
      by_cases he : (tpOf cfg g == tpOf cfg f) = true
      · simp only [he, if_true]
        have : tpOf cfg g = tpOf cfg f := beq_iff_eq.mp he
        rw [this, hm] at hg
        cases hg
        exact ⟨_, rfl, mem_pairAdd_of_mem _ hmem⟩
      · simp only [he]
        exact ⟨pg, hg, hmem⟩
    cases hb : buildPeer pr.id (tpOf cfg f) with
    | none => exact key
    | some e =>
      simp only
      unfold HasRef at key ⊢
      simp only [write_peers]
      exact key
  | none =>
    simp only
    have hne : (tpOf cfg g == tpOf cfg f) = false := by
      cases hq : (tpOf cfg g == tpOf cfg f) with
      | false => rfl
      | true =>
        have : tpOf cfg g = tpOf cfg f := beq_iff_eq.mp hq
        rw [this, hm] at hg; cases hg
    cases hp : c.st.peerPool with
    | nil => exact ⟨pg, hg, hmem⟩
    | cons id pool =>
      simp only
      cases hb : buildPeer id (tpOf cfg f) with
      | none => exact ⟨pg, hg, hmem⟩
      | some e =>
        simp only
        split
        · unfold HasRef
          simp only [write_peers]
          rw [mapGet_mapPut]
          simp only [hne]
          exact ⟨pg, hg, hmem⟩
        · unfold HasRef
          simp only [write_peers]
          exact ⟨pg, hg, hmem⟩

theorem updatePeers_mono (cfg : Cfg4) (g : Far) : ∀ (fs : List Far) (c : Ctx), HasRef cfg c.st g → HasRef cfg (updatePeers cfg c fs).1.st g
  | [], c, h => by simpa [updatePeers] using h
  | f :: rest, c, h => by
    unfold updatePeers
    split
    · have h1 := addOrUpdatePeer_mono cfg c f g h
      generalize addOrUpdatePeer cfg c f = r at h1
      obtain ⟨c1, b⟩ := r
      cases b
      · exact h1
      · exact updatePeers_mono cfg g rest c1 h1
    · exact updatePeers_mono cfg g rest c h

/-- `updateTunnelPeersBasedOnFARs` succeeded: every FAR of the list that names a tunnel holds its reference -/
theorem updatePeers_refs (cfg : Cfg4) : ∀ (fs : List Far) (c : Ctx), (updatePeers cfg c fs).2 = true →
    ∀ f ∈ fs, namesTunnel f → HasRef cfg (updatePeers cfg c fs).1.st f
  | [], _, _ => by intro f hf; cases hf
  | f0 :: rest, c, ok => by
    intro f hf hn
    unfold updatePeers at ok ⊢
    by_cases hc : f0.dstIntf = 0 ∧ f0.tunnelTEID ≠ 0
    · rw [if_pos hc] at ok ⊢
      have href := addOrUpdatePeer_ref cfg c f0
      generalize addOrUpdatePeer cfg c f0 = r at ok href ⊢
      obtain ⟨c1, b⟩ := r
      cases b
      · simp at ok
      · simp only at ok ⊢
        rcases List.mem_cons.mp hf with rfl | hr
        · exact updatePeers_mono cfg f rest c1 (href rfl)
        · exact updatePeers_refs cfg rest c1 ok f hr hn
    · rw [if_neg hc] at ok ⊢
      rcases List.mem_cons.mp hf with rfl | hr
      · exact absurd hn hc
      · exact updatePeers_refs cfg rest c ok f hr hn

theorem hasRef_of_pp {cfg : Cfg4} {s s' : St} (e : s'.pp = s.pp) {f : Far} (h : HasRef cfg s f) : HasRef cfg s' f := by
  have : s'.peers = s.peers := by simp only [St.pp, Prod.mk.injEq] at e; exact e.2
  unfold HasRef at h ⊢
  rw [this]; exact h

/-- an accepted `sendCreate`: every FAR of the request that names a tunnel holds a reference on its peer -/
theorem sendCreate_refs (cfg : Cfg4) (c : Ctx) (all updated : Rules) (ok : (sendCreate cfg c all updated).2.2 = true) :
    ∀ f ∈ updated.fars, namesTunnel f → HasRef cfg (sendCreate cfg c all updated).1.st f := by
  intro f hf hn
  unfold sendCreate at ok ⊢
  generalize allocCounters c updated.pdrs.length [] all.pdrs = r1 at ok ⊢
  obtain ⟨c1, pdrs, ok1⟩ := r1
  cases ok1
  · simp at ok
  · simp only [Bool.not_true, Bool.false_eq_true, if_false] at ok ⊢
    generalize configureMeters updated.qers.length { c1 with st := updateMaps c1.st updated.pdrs } updated.qers = r2 at ok ⊢
    obtain ⟨c2, ok2⟩ := r2
    cases ok2
    · simp at ok
    · simp only [Bool.not_true, Bool.false_eq_true, if_false] at ok ⊢
      have h3 := updatePeers_refs cfg updated.fars c2
      generalize updatePeers cfg c2 updated.fars = r3 at ok h3 ⊢
      obtain ⟨c3, ok3⟩ := r3
      cases ok3
      · simp at ok
      · simp only [Bool.not_true, Bool.false_eq_true, if_false] at ok ⊢
        have h4 := modifyFwd_pp cfg all.fars all.qers .insert pdrs c3
        generalize modifyFwd cfg all.fars all.qers .insert c3 pdrs = r4 at ok h4 ⊢
        obtain ⟨c4, ok4⟩ := r4
        exact hasRef_of_pp h4 (h3 rfl f hf hn)

/-- an accepted `sendUpdate`: the same for the FARs the modification created or updated -/
theorem sendUpdate_refs (cfg : Cfg4) (c : Ctx) (all updated : Rules) (ok : (sendUpdate cfg c all updated).2 = true) :
    ∀ f ∈ updated.fars, namesTunnel f → HasRef cfg (sendUpdate cfg c all updated).1.st f := by
  intro f hf hn
  unfold sendUpdate at ok ⊢
  dsimp only at ok ⊢
  have h3 := updatePeers_refs cfg updated.fars { c with st := updateMaps c.st updated.pdrs }
  generalize updatePeers cfg { c with st := updateMaps c.st updated.pdrs } updated.fars = r3 at ok h3 ⊢
  obtain ⟨c3, ok3⟩ := r3
  cases ok3
  · simp at ok
  · simp only [Bool.not_true, Bool.false_eq_true, if_false] at ok ⊢
    exact hasRef_of_pp (modifyFwd_pp cfg all.fars all.qers .modify all.pdrs c3) (h3 rfl f hf hn)

/-- `modifyUP4ForwardingConfiguration` builds a PDR's entries only while the peer of its FAR is known -/
theorem prepare_needs_peer (cfg : Cfg4) (fars : List Far) (qers : List Qer) (op : Op) (st : St) (p : Pdr) (es : List Entry) (far : Far)
    (hf : fars.find? (·.farID = p.farID) = some far) (ht : namesTunnel far)
    (h : (prepare cfg fars qers op st p).2 = some es) : (mapGet st.peers (tpOf cfg far)).isSome := by
  unfold prepare at h
  split at h
  · simp at h
  · simp only [hf] at h
    split at h
    · simp at h
    · rename_i hc
      cases hp : mapGet st.peers (tpOf cfg far) with
      | some _ => rfl
      | none => exact absurd ⟨by simp [hp], ht.1, ht.2⟩ hc

/-- `removeGTPTunnelPeer` drops the reference of the removed FAR only: every other FAR keeps its own -/
theorem removePeer_keeps_others (cfg : Cfg4) (c : Ctx) (f g : Far) (hne : (g.fseID, g.farID) ≠ (f.fseID, f.farID))
    (h : HasRef cfg c.st g) : HasRef cfg (removePeer cfg c f).st g := by
  obtain ⟨pg, hg, hmem⟩ := h
  unfold removePeer
  try dsimp only
  cases hm : mapGet c.st.peers (tpOf cfg f) with
  | none => exact ⟨pg, hg, hmem⟩
  | some pr =>
    simp only
    by_cases he : (tpOf cfg g == tpOf cfg f) = true
    · -- same peer: g's reference survives the filter, so the peer is still in use and stays
      have heq : tpOf cfg g = tpOf cfg f := beq_iff_eq.mp he
      rw [heq, hm] at hg
      have hpp : pr = pg := Option.some.inj hg
      subst hpp
      have hin : (g.fseID, g.farID) ∈ pr.usedBy.filter (· != (f.fseID, f.farID)) := by
        rw [List.mem_filter]
        exact ⟨hmem, by simpa using hne⟩
      have hne' : pr.usedBy.filter (· != (f.fseID, f.farID)) ≠ [] := List.ne_nil_of_mem hin
      rw [if_pos hne']
      unfold HasRef
      simp only
      rw [mapGet_mapPut]
      simp only [he, if_true]
      exact ⟨_, rfl, hin⟩
    · have key : HasRef cfg { c.st with peers := mapPut c.st.peers (tpOf cfg f) { pr with usedBy := pr.usedBy.filter (· != (f.fseID, f.farID)) } } g := by
        unfold HasRef
        simp only
        rw [mapGet_mapPut]
        simp only [he]
        exact ⟨pg, hg, hmem⟩
      split
      · exact key
      · cases hb : buildPeer pr.id (tpOf cfg f) with
        | none => exact key
        | some e =>
          simp only
          unfold HasRef at key ⊢
          simp only [write_peers] at key ⊢
          rw [mapGet_mapDel]
          simp only [he]
          exact key

theorem removePeers_keep_others (cfg : Cfg4) (g : Far) : ∀ (fs : List Far) (c : Ctx),
    (∀ f ∈ fs, (g.fseID, g.farID) ≠ (f.fseID, f.farID)) → HasRef cfg c.st g → HasRef cfg (fs.foldl (removePeer cfg) c).st g
  | [], _, _, h => h
  | f :: rest, c, hd, h =>
    removePeers_keep_others cfg g rest (removePeer cfg c f) (fun f' hf' => hd f' (List.mem_cons_of_mem _ hf'))
      (removePeer_keeps_others cfg c f g (hd f (List.mem_cons_self ..)) h)

end Up4
