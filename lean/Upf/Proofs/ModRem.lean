import Upf.Proofs.HistBase
import Upf.Proofs.PoolWorld
/-!
C03 / C05 / C07 on the agent model, Session Modifications that only REMOVE rules (Remove PDR / FAR / QER): the entries of the removed
rules leave the tables, the TEIDs the UP chose for removed PDRs are returned, everything else stays — for sessions whose rules have
pairwise different table keys (the envelope of C03) and whose session-QER marking is stable.
-/
namespace Agent

/-- with pairwise different keys the value under a key is the value of the one entry that has it -/
theorem lastVal_of_nodup (es : List (String × String)) (hnd : (es.map (·.1)).Nodup) (k v : String) :
    lastVal es k = some v ↔ (k, v) ∈ es := by
  induction es with
  | nil => simp [lastVal]
  | cons e rest ih =>
    have hnd' : e.1 ∉ rest.map (·.1) ∧ (rest.map (·.1)).Nodup := by
      rw [List.map_cons] at hnd; exact List.nodup_cons.mp hnd
    rw [lastVal_cons, lastVal_single]
    by_cases hk : k = e.1
    · have hnone : lastVal rest k = none := lastVal_none _ _ (hk ▸ hnd'.1)
      rw [hnone, if_pos hk]
      constructor
      · intro h; simp at h; subst h; rw [hk]; exact List.mem_cons_self
      · intro h
        rcases List.mem_cons.mp h with h | h
        · rw [← h]; simp
        · exact absurd (List.mem_map.mpr ⟨(k, v), h, rfl⟩) (hk ▸ hnd'.1)
    · rw [if_neg hk]
      have : ((lastVal rest k).or none) = lastVal rest k := by cases lastVal rest k <;> rfl
      rw [this, ih hnd'.2]
      constructor
      · exact fun h => List.mem_cons_of_mem _ h
      · intro h
        rcases List.mem_cons.mp h with h | h
        · exact absurd (by rw [← h]) hk
        · exact h

/-- `removeAll` splits the list: what it removed and what it kept, together, are the list it was given -/
theorem removeAll_perm {α : Type} (idOf : α → Nat) : ∀ (ids : List Nat) (st st2 del : List α),
    removeAll idOf st ids = some (st2, del) → st.Perm (del ++ st2)
  | [], st, st2, del, h => by
    simp only [removeAll, Option.some.injEq, Prod.mk.injEq] at h
    obtain ⟨rfl, rfl⟩ := h; simp
  | id :: rest, st, st2, del, h => by
    unfold removeAll at h
    cases hf : st.find? (fun x => idOf x = id) with
    | none => simp [hf] at h
    | some x =>
      simp only [hf] at h
      cases hr : removeAll idOf (st.eraseP (fun y => idOf y = id)) rest with
      | none => simp [hr] at h
      | some v =>
        obtain ⟨s, del'⟩ := v
        simp only [hr, Option.map_some, Option.some.injEq, Prod.mk.injEq] at h
        obtain ⟨rfl, rfl⟩ := h
        have ih := removeAll_perm idOf rest _ _ _ hr
        have hx : (fun y => decide (idOf y = id)) x = true := by
          have := List.find?_some hf; simpa using this
        have hmem : x ∈ st := List.mem_of_find?_eq_some hf
        obtain ⟨a, l₁, l₂, hnone, ha, hst, her⟩ := List.exists_of_eraseP (p := fun y => decide (idOf y = id)) hmem hx
        have hax : a = x := by
          rw [hst, List.find?_append] at hf
          have : l₁.find? (fun x => decide (idOf x = id)) = none := List.find?_eq_none.mpr (fun y hy => by simpa using hnone y hy)
          simp [this, List.find?_cons, ha] at hf
          exact hf
        subst hax
        rw [her] at ih
        rw [hst]
        exact (List.perm_middle).trans (List.Perm.cons a ih)


/-- a Session Modification that carries Remove PDR / FAR / QER IEs only (and possibly a CP F-SEID) -/
def RemOnly (r : ModReq) : Prop :=
  r.createPdrs = [] ∧ r.createFars = [] ∧ r.createQers = [] ∧ r.updatePdrs = [] ∧ r.updateFars = [] ∧ r.updateQers = []

def afterRemoval (r : ModReq) (s0 : Session) (pdrs2 : List Pdr) (fars2 : List Far) (qers2 : List Qer) : Session :=
  { s0 with rseid := (match r.cpFseid with | some (cp, _) => cp | none => s0.rseid), pdrs := pdrs2, fars := fars2, qers := qers2 }

theorem sendAdd_nil (cfg : Cfg) (t : Tables) : sendAdd cfg t [] [] [] = t := rfl

theorem modify_remOnly_cases (cfg : Cfg) (w : World) (a : Nat) (r : ModReq) (s0 : Session) (hr : RemOnly r)
    (h : (w.conn a).sessions.find? (·.lseid = r.seid) = some s0)
    (hstable : markSessionQer s0.pdrs s0.qers = (s0.qers, s0.pdrs)) :
    ((modify cfg w a r).world.conns = w.conns ∧ (modify cfg w a r).world.tables = w.tables ∧
      (modify cfg w a r).world.teid = w.teid ∧ (modify cfg w a r).world.pool = w.pool) ∨
    ∃ pdrs2 delP fars2 delF qers2 delQ,
      removeAll (·.pdrID) s0.pdrs r.removePdrs = some (pdrs2, delP) ∧
      removeAll (·.farID) s0.fars r.removeFars = some (fars2, delF) ∧
      removeAll (·.qerID) s0.qers r.removeQers = some (qers2, delQ) ∧
      (modify cfg w a r).world.tables = sendDel cfg w.tables delP delF delQ ∧
      (modify cfg w a r).world.conns = setL w.conns a { w.conn a with sessions := (w.conn a).sessions.map (fun x =>
        if x.lseid = r.seid then (afterRemoval r s0 pdrs2 fars2 qers2) else x) } ∧
      (modify cfg w a r).world.teid = delP.foldl (fun g p => if p.chooseTeid then Teid.free g p.tunnelTEID else g) w.teid ∧
      (modify cfg w a r).world.pool = w.pool := by
  obtain ⟨h1, h2, h3, h4, h5, h6⟩ := hr
  unfold modify afterRemoval
  simp only [h, h1, h2, h3, h4, h5, h6]
  cases hc : r.cpFseid with
  | none =>
    dsimp only
    simp only [parsePdrs, mapFars, pure, Except.pure, List.map_nil, List.append_nil, updPdrs, updFars, updQers, List.foldl_nil, hstable, sendAdd_nil]
    cases hp : removeAll (·.pdrID) s0.pdrs r.removePdrs with
    | none => left; exact ⟨rfl, rfl, rfl, rfl⟩
    | some vp =>
      obtain ⟨pdrs2, delP⟩ := vp
      dsimp only
      cases hf : removeAll (·.farID) s0.fars r.removeFars with
      | none => left; exact ⟨rfl, rfl, rfl, rfl⟩
      | some vf =>
        obtain ⟨fars2, delF⟩ := vf
        dsimp only
        cases hq : removeAll (·.qerID) s0.qers r.removeQers with
        | none => left; exact ⟨rfl, rfl, rfl, rfl⟩
        | some vq =>
          obtain ⟨qers2, delQ⟩ := vq
          right
          refine ⟨pdrs2, delP, fars2, delF, qers2, delQ, rfl, rfl, rfl, ?_, ?_, ?_, ?_⟩
          · dsimp only; rw [setConn_tables]
          · dsimp only; rw [setConn_conns]
          · dsimp only; rw [setConn_teid]
          · dsimp only; rw [setConn_pool]
  | some v =>
    obtain ⟨cp, ip⟩ := v
    dsimp only
    simp only [parsePdrs, mapFars, pure, Except.pure, List.map_nil, List.append_nil, updPdrs, updFars, updQers, List.foldl_nil, hstable, sendAdd_nil]
    cases hp : removeAll (·.pdrID) s0.pdrs r.removePdrs with
    | none => left; exact ⟨rfl, rfl, rfl, rfl⟩
    | some vp =>
      obtain ⟨pdrs2, delP⟩ := vp
      dsimp only
      cases hf : removeAll (·.farID) s0.fars r.removeFars with
      | none => left; exact ⟨rfl, rfl, rfl, rfl⟩
      | some vf =>
        obtain ⟨fars2, delF⟩ := vf
        dsimp only
        cases hq : removeAll (·.qerID) s0.qers r.removeQers with
        | none => left; exact ⟨rfl, rfl, rfl, rfl⟩
        | some vq =>
          obtain ⟨qers2, delQ⟩ := vq
          right
          refine ⟨pdrs2, delP, fars2, delF, qers2, delQ, rfl, rfl, rfl, ?_, ?_, ?_, ?_⟩
          · dsimp only; rw [setConn_tables]
          · dsimp only; rw [setConn_conns]
          · dsimp only; rw [setConn_teid]
          · dsimp only; rw [setConn_pool]


/-- the rules of a session, split into removed and kept ones: table by table the entries split accordingly -/
theorem kv_split (cfg : Cfg) (s0 D S : Session) (hp : s0.pdrs.Perm (D.pdrs ++ S.pdrs)) (hf : s0.fars.Perm (D.fars ++ S.fars))
    (hq : s0.qers.Perm (D.qers ++ S.qers)) (X : Tb) : (s0.kv cfg X).Perm (D.kv cfg X ++ S.kv cfg X) := by
  cases X
  · show (pdrKV s0.pdrs).Perm (pdrKV D.pdrs ++ pdrKV S.pdrs)
    unfold pdrKV; rw [← List.flatMap_append]; exact List.Perm.flatMap_right _ hp
  · show (farKV s0.fars).Perm (farKV D.fars ++ farKV S.fars)
    unfold farKV; rw [← List.map_append]; exact List.Perm.map _ hf
  · show (appQerKV cfg s0.qers).Perm (appQerKV cfg D.qers ++ appQerKV cfg S.qers)
    unfold appQerKV; rw [← List.flatMap_append, ← List.filter_append]; exact List.Perm.flatMap_right _ (List.Perm.filter _ hq)
  · show (sessQerKV cfg s0.qers).Perm (sessQerKV cfg D.qers ++ sessQerKV cfg S.qers)
    unfold sessQerKV; rw [← List.flatMap_append, ← List.filter_append]; exact List.Perm.flatMap_right _ (List.Perm.filter _ hq)

/-- the rules of the session have pairwise different keys in every lookup table (the envelope of C03: an unambiguous rule set) -/
def SelfNodup (cfg : Cfg) (s : Session) : Prop := ∀ X, (s.keysOf cfg X).Nodup

/-- removing some of a session's rules: their entries leave, the kept ones stay, other sessions are untouched -/
theorem ImgOf.remove {cfg : Cfg} {t : Tables} {R : List Session} (s0 D S : Session) (h : ImgOf cfg t (s0 :: R))
    (hd : ∀ x ∈ R, Disj cfg s0 x) (hnd : SelfNodup cfg s0)
    (hsplit : ∀ X, (s0.kv cfg X).Perm (D.kv cfg X ++ S.kv cfg X)) :
    ImgOf cfg (sendDel cfg t D.pdrs D.fars D.qers) (S :: R) := by
  intro X k v
  rw [get_sendDel]
  have hperm := hsplit X
  have hndX : ((D.kv cfg X ++ S.kv cfg X).map (·.1)).Nodup := (hperm.map _).nodup_iff.mp (hnd X)
  rw [List.map_append] at hndX
  have hndS : ((S.kv cfg X).map (·.1)).Nodup := (List.nodup_append.mp hndX).2.1
  have hdisj : ∀ k, k ∈ D.keysOf cfg X → k ∉ S.keysOf cfg X := fun k h1 h2 => (List.nodup_append.mp hndX).2.2 k h1 k h2 rfl
  have hs0 : ∀ k v, lastVal (s0.kv cfg X) k = some v ↔ (k, v) ∈ s0.kv cfg X := fun k v => lastVal_of_nodup _ (hnd X) k v
  have hS : ∀ k v, lastVal (S.kv cfg X) k = some v ↔ (k, v) ∈ S.kv cfg X := fun k v => lastVal_of_nodup _ hndS k v
  constructor
  · intro hv
    by_cases hk : k ∈ D.keysOf cfg X
    · simp [hk] at hv
    · rw [if_neg hk] at hv
      obtain ⟨x, hx, hxv⟩ := (h X k v).mp hv
      rcases List.mem_cons.mp hx with rfl | hx'
      · have hm := hperm.mem_iff.mp ((hs0 k v).mp hxv)
        rcases List.mem_append.mp hm with hm | hm
        · exact absurd (List.mem_map.mpr ⟨(k, v), hm, rfl⟩) hk
        · exact ⟨S, List.mem_cons_self, (hS k v).mpr hm⟩
      · exact ⟨x, List.mem_cons_of_mem _ hx', hxv⟩
  · rintro ⟨x, hx, hxv⟩
    rcases List.mem_cons.mp hx with rfl | hx'
    · have hm : (k, v) ∈ x.kv cfg X := (hS k v).mp hxv
      have hk : k ∉ D.keysOf cfg X := fun hk => hdisj k hk (List.mem_map.mpr ⟨(k, v), hm, rfl⟩)
      rw [if_neg hk]
      exact (h X k v).mpr ⟨s0, List.mem_cons_self, (hs0 k v).mpr (hperm.mem_iff.mpr (List.mem_append_right _ hm))⟩
    · have hkx : k ∈ x.keysOf cfg X := key_of_lastVal hxv
      have hk0 : k ∉ s0.keysOf cfg X := fun hk0 => (hd x hx').keys X k hk0 hkx
      have hk : k ∉ D.keysOf cfg X := by
        intro hk
        obtain ⟨e, he, hek⟩ := List.mem_map.mp hk
        exact hk0 (List.mem_map.mpr ⟨e, hperm.mem_iff.mpr (List.mem_append_left _ he), hek⟩)
      rw [if_neg hk]
      exact (h X k v).mpr ⟨x, List.mem_cons_of_mem _ hx', hxv⟩


/-- rewriting one stored session: the list of all stored sessions before and after, around a common rest -/
theorem replace_perms (cfg : Cfg) (w : World) (a seid : Nat) (s0 s' : Session) (hI : Inv cfg w)
    (hfind : (w.conn a).sessions.find? (·.lseid = seid) = some s0) :
    ∃ R, (allSessions w).Perm (s0 :: R) ∧ ∀ w' : World,
      w'.conns = setL w.conns a { w.conn a with sessions := (w.conn a).sessions.map (fun x => if x.lseid = seid then s' else x) } →
      (allSessions w').Perm (s' :: R) := by
  obtain ⟨rest, p1, p2⟩ := conn_sublist_perm w a hI.keys
  have hpw : ((w.conn a).sessions ++ rest).Pairwise (Disj cfg) := pairwise_perm p1 hI.disj
  have hpc : (w.conn a).sessions.Pairwise (fun x y => x.lseid ≠ y.lseid) := (List.pairwise_append.mp hpw).1.imp (fun h => h.1)
  refine ⟨(w.conn a).sessions.filter (·.lseid ≠ seid) ++ rest, p1.trans (List.Perm.append_right rest (filter_perm seid _ s0 hpc hfind)), ?_⟩
  intro w' hc
  unfold allSessions; rw [hc]
  exact (p2 _).trans (List.Perm.append_right rest (map_replace_perm seid _ _ s0 hpc hfind))

/-- **a modification that only removes rules keeps the tables the image of the store** -/
theorem modRem_inv (cfg : Cfg) (w : World) (a : Nat) (r : ModReq) (s0 : Session) (hI : Inv cfg w) (hr : RemOnly r)
    (h : (w.conn a).sessions.find? (·.lseid = r.seid) = some s0)
    (hstable : markSessionQer s0.pdrs s0.qers = (s0.qers, s0.pdrs)) (hnd : SelfNodup cfg s0) : Inv cfg (modify cfg w a r).world := by
  rcases modify_remOnly_cases cfg w a r s0 hr h hstable with ⟨hc, ht, _, _⟩ | ⟨pdrs2, delP, fars2, delF, qers2, delQ, hp, hf, hq, ht, hc, _, _⟩
  · exact hI.congr hc ht
  · obtain ⟨R, pold, pnew⟩ := replace_perms cfg w a r.seid s0 (afterRemoval r s0 pdrs2 fars2 qers2) hI h
    have pnew' := pnew _ hc
    have hpold := pairwise_perm pold hI.disj
    have hd0 := (List.pairwise_cons.mp hpold).1
    let D : Session := { lseid := 0, rseid := 0, pdrs := delP, fars := delF, qers := delQ }
    have hsplit : ∀ X, (s0.kv cfg X).Perm (D.kv cfg X ++ (afterRemoval r s0 pdrs2 fars2 qers2).kv cfg X) :=
      kv_split cfg s0 D _ (removeAll_perm _ _ _ _ _ hp) (removeAll_perm _ _ _ _ _ hf) (removeAll_perm _ _ _ _ _ hq)
    -- the kept rules' keys are among the session's keys
    have hsub : ∀ X k, k ∈ (afterRemoval r s0 pdrs2 fars2 qers2).keysOf cfg X → k ∈ s0.keysOf cfg X := by
      intro X k hk
      obtain ⟨e, he, hek⟩ := List.mem_map.mp hk
      exact List.mem_map.mpr ⟨e, (hsplit X).mem_iff.mpr (List.mem_append_right _ he), hek⟩
    have hd' : ∀ x ∈ R, Disj cfg (afterRemoval r s0 pdrs2 fars2 qers2) x := by
      intro x hx
      have d := hd0 x hx
      exact ⟨d.1, fun k hk => d.2.1 k (hsub .pdr k hk), fun k hk => d.2.2.1 k (hsub .far k hk),
             fun k hk => d.2.2.2.1 k (hsub .app k hk), fun k hk => d.2.2.2.2 k (hsub .sess k hk)⟩
    refine ⟨by rw [hc]; exact keys_setL _ _ _ hI.keys, ?_, ?_⟩
    · exact pairwise_perm pnew'.symm (List.pairwise_cons.mpr ⟨hd', (List.pairwise_cons.mp hpold).2⟩)
    · refine ImgOf.perm ?_ pnew'.symm
      rw [ht]
      exact ImgOf.remove s0 D _ (hI.img.perm pold) hd0 hnd hsplit

theorem chosenL_perm {l l' : List Pdr} (p : l.Perm l') : (chosenL l).Perm (chosenL l') := by
  unfold chosenL; exact List.Perm.map _ (List.Perm.filter _ p)

/-- … returns the TEIDs the UP chose for the removed PDRs, and only those -/
theorem modRem_teid (cfg : Cfg) (w : World) (a : Nat) (r : ModReq) (s0 : Session) (hI : Inv cfg w) (hT : TeidInv w) (hr : RemOnly r)
    (h : (w.conn a).sessions.find? (·.lseid = r.seid) = some s0)
    (hstable : markSessionQer s0.pdrs s0.qers = (s0.qers, s0.pdrs)) : TeidInv (modify cfg w a r).world := by
  rcases modify_remOnly_cases cfg w a r s0 hr h hstable with ⟨hc, _, hte, _⟩ | ⟨pdrs2, delP, fars2, delF, qers2, delQ, hp, _, _, _, hc, hte, _⟩
  · exact hT.congr hc hte
  · obtain ⟨R, pold, pnew⟩ := replace_perms cfg w a r.seid s0 (afterRemoval r s0 pdrs2 fars2 qers2) hI h
    have pnew' := pnew _ hc
    have c1 := chosen_perm pold
    have c2 := chosen_perm pnew'
    simp only [List.flatMap_cons] at c1 c2
    have hsplit : (chosenL s0.pdrs).Perm (chosenL delP ++ chosenL pdrs2) := by
      rw [← chosenL_append]; exact chosenL_perm (removeAll_perm _ _ _ _ _ hp)
    have hheld : Held ((chosenL pdrs2 ++ R.flatMap fun s => chosenL s.pdrs) ++ chosenL delP) w.teid := by
      refine hT.held.perm (c1.trans ?_)
      refine (List.Perm.append_right _ hsplit).trans ?_
      rw [List.append_assoc]
      exact List.perm_append_comm
    have hr' := release_held _ delP w.teid hheld
    refine ⟨by rw [hte, hr'.2]; exact hT.off, ?_⟩
    rw [hte]
    exact hr'.1.perm c2.symm

/-- … and leaves the address pool alone; every held address stays owned -/
theorem modRem_pool (base : List Nat) (cfg : Cfg) (w : World) (a : Nat) (r : ModReq) (s0 : Session) (hI : Inv cfg w) (hr : RemOnly r)
    (h : (w.conn a).sessions.find? (·.lseid = r.seid) = some s0)
    (hstable : markSessionQer s0.pdrs s0.qers = (s0.qers, s0.pdrs)) (hP : PoolInv base w.pool) (hO : Owned w) :
    PoolInv base (modify cfg w a r).world.pool ∧ Owned (modify cfg w a r).world := by
  have hl : s0.lseid = r.seid := by simpa using List.find?_some h
  rcases modify_remOnly_cases cfg w a r s0 hr h hstable with ⟨hc, _, _, hpo⟩ | ⟨pdrs2, delP, fars2, delF, qers2, delQ, _, _, _, _, hc, _, hpo⟩
  · exact ⟨by rw [hpo]; exact hP, hO.congr hpo (fun s hs => by unfold allSessions at hs ⊢; rw [hc]; exact hs)⟩
  · obtain ⟨R, pold, pnew⟩ := replace_perms cfg w a r.seid s0 (afterRemoval r s0 pdrs2 fars2 qers2) hI h
    have pnew' := pnew _ hc
    refine ⟨by rw [hpo]; exact hP, ?_⟩
    intro k hk
    rw [hpo] at hk
    obtain ⟨x, hx, hxl⟩ := hO k hk
    rcases List.mem_cons.mp (pold.mem_iff.mp hx) with rfl | hx'
    · exact ⟨afterRemoval r x pdrs2 fars2 qers2, pnew'.mem_iff.mpr List.mem_cons_self, hxl⟩
    · exact ⟨x, pnew'.mem_iff.mpr (List.mem_cons_of_mem _ hx'), hxl⟩

theorem modRem_farwf (cfg : Cfg) (w : World) (a : Nat) (r : ModReq) (s0 : Session) (hI : Inv cfg w) (hW : FarWf w) (hr : RemOnly r)
    (h : (w.conn a).sessions.find? (·.lseid = r.seid) = some s0)
    (hstable : markSessionQer s0.pdrs s0.qers = (s0.qers, s0.pdrs)) : FarWf (modify cfg w a r).world := by
  rcases modify_remOnly_cases cfg w a r s0 hr h hstable with ⟨hc, _, _, _⟩ | ⟨pdrs2, delP, fars2, delF, qers2, delQ, _, hf, _, _, hc, _, _⟩
  · intro s hs; unfold allSessions at hs; rw [hc] at hs; exact hW s hs
  · obtain ⟨R, pold, pnew⟩ := replace_perms cfg w a r.seid s0 (afterRemoval r s0 pdrs2 fars2 qers2) hI h
    have pnew' := pnew _ hc
    intro x hx
    rcases List.mem_cons.mp (pnew'.mem_iff.mp hx) with rfl | hx'
    · intro q hq
      have hq0 : q ∈ s0.fars := (removeAll_perm _ _ _ _ _ hf).mem_iff.mpr (List.mem_append_right _ hq)
      exact hW s0 (pold.mem_iff.mpr List.mem_cons_self) q hq0
    · exact hW x (pold.mem_iff.mpr (List.mem_cons_of_mem _ hx'))

end Agent
