import Upf.Model.Denote
import Upf.Proofs.PortProduct

namespace Tern

/-- for ALL packets: some written entry matches the packet iff the PDR denotes it -/
theorem entries_denote (p : PdrM) (es : List Entry) (h : pdrEntries p = some es) (k : Pkt) :
    (∃ e ∈ es, e.matches k) ↔ p.denotes k := by
  unfold pdrEntries at h
  cases hc : cartesian p.srcPorts p.dstPorts with
  | none => rw [hc] at h; cases h
  | some rs =>
    rw [hc] at h
    have hes : es = rs.map fun r => (⟨p, r⟩ : Entry) := by
      simpa using h.symm
    subst hes
    have pc := product_cover p.srcPorts p.dstPorts rs hc k.srcPort k.dstPort
    constructor
    · rintro ⟨e, he, hm⟩
      obtain ⟨r, hr, rfl⟩ := List.mem_map.mp he
      obtain ⟨h1, h2, h3, h4, h5, h6, h7⟩ := hm
      exact ⟨h1, h2, h3, h4, h5, pc.mp ⟨r, hr, h6⟩, h7⟩
    · intro hd
      obtain ⟨h1, h2, h3, h4, h5, h6, h7⟩ := hd
      obtain ⟨r, hr, hm⟩ := pc.mpr h6
      exact ⟨⟨p, r⟩, List.mem_map.mpr ⟨r, hr, rfl⟩, h1, h2, h3, h4, h5, hm, h7⟩

/-- priority = MaxUint32 − precedence orders entries as precedence orders PDRs (no wrap on uint32) -/
theorem priority_order (a b : BitVec 32) (h : a.toNat < b.toNat) :
    (0xFFFFFFFF#32 - b).toNat < (0xFFFFFFFF#32 - a).toNat := by
  have ha := a.isLt; have hb := b.isLt
  rw [BitVec.toNat_sub, BitVec.toNat_sub]
  simp only [BitVec.toNat_ofNat]
  omega

#print axioms entries_denote
#print axioms priority_order

end Tern

