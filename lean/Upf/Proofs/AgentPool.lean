import Upf.Model.AgentMod
import Upf.Proofs.IPPool
/-! The UE address pool invariant (C06) is preserved by everything the agent model does with the pool (C05). -/
namespace Agent

def PoolInv (base : List Nat) : Option Pool.P → Prop
  | none => True
  | some p => Pool.Inv base p

theorem inv_ueStep (base : List Nat) (seid : Nat) (ueip : Option (Nat × Nat)) (pool : Option Pool.P) (p : Pdr)
    (h : PoolInv base pool) : PoolInv base (ueStep seid ueip pool p).2 := by
  unfold ueStep
  split
  · exact h
  · split
    · split
      · exact h
      · rename_i pl
        split
        · exact h
        · rename_i a pl' ha
          have := Pool.inv_alloc base pl seid h
          rw [ha] at this
          exact this
    · split <;> exact h

theorem inv_parsePDI1 (base : List Nat) (seid : Nat) (ie : PdrIE) (pool : Option Pool.P) (p : Pdr)
    (h : PoolInv base pool) : PoolInv base (parsePDI1 seid ie pool p).2 := by
  unfold parsePDI1
  split
  · exact h
  · exact inv_ueStep base seid ie.ueip pool _ h

theorem inv_parsePDR (base : List Nat) (seid : Nat) (apps : List (String × List String)) (ie : PdrIE) (pool : Option Pool.P)
    (h : PoolInv base pool) : PoolInv base (parsePDR seid apps ie pool).2 := by
  unfold parsePDR
  have := inv_parsePDI1 base seid ie pool { fseID := seid } h
  split
  · rename_i e pool' he; rw [he] at this; exact this
  · rename_i p pool' he
    rw [he] at this
    split <;> exact this

theorem inv_release (base : List Nat) (pool : Option Pool.P) (g : Teid.G) (lseid : Nat) (pdrs : List Pdr)
    (h : PoolInv base pool) : PoolInv base (releaseRes pool g lseid pdrs).1 := by
  unfold releaseRes
  cases pool with
  | none => exact h
  | some pl => exact Pool.inv_dealloc base pl lseid h

/-- after a session's resources are released, its SEID holds no address -/
theorem release_frees_address (pl : Pool.P) (g : Teid.G) (lseid : Nat) (pdrs : List Pdr)
    (hk : (pl.inv.map (·.1)).Nodup) :
    match (releaseRes (some pl) g lseid pdrs).1 with
    | some pl' => Pool.lookup pl' lseid = none
    | none => False := by
  simp only [releaseRes, Option.map_some]
  unfold Pool.dealloc
  split
  · rename_i h; simpa using h
  · simp only [Pool.lookup]
    simp [List.find?_filter]

theorem inv_estPdrs (base : List Nat) (cfg : Cfg) (lseid fseidIP : Nat) (apps : List (String × List String)) :
    ∀ (ies : List PdrIE) (pool : Option Pool.P) (g : Teid.G) (acc : List Pdr), PoolInv base pool →
    match estPdrs cfg lseid fseidIP apps ies pool g acc with
    | .error (_, _, pool', _) => PoolInv base pool'
    | .ok (_, pool', _) => PoolInv base pool' := by
  intro ies
  induction ies with
  | nil => intro pool g acc h; simpa [estPdrs, pure, Except.pure] using h
  | cons ie rest ih =>
    intro pool g acc h
    unfold estPdrs
    have hp := inv_parsePDR base lseid apps ie pool h
    cases hq : parsePDR lseid apps ie pool with
    | mk res pool' =>
      rw [hq] at hp
      cases res with
      | error e =>
        cases e with
        | reject cause => simpa [throw, throwThe, MonadExceptOf.throw] using hp
      | ok p =>
        simp only
        by_cases hc : p.chooseTeid = true
        · simp only [hc, if_true]
          cases Teid.allocate M g with
          | none => simpa [throw, throwThe, MonadExceptOf.throw] using hp
          | some v => obtain ⟨id, g'⟩ := v; exact ih _ _ _ hp
        · simp only [hc]; exact ih _ _ _ hp

/-- establishment keeps the pool invariant, whether accepted or refused at any point -/
theorem inv_establish (base : List Nat) (cfg : Cfg) (w : World) (a lseid : Nat) (r : EstReq)
    (h : PoolInv base w.pool) : PoolInv base (establish cfg w a lseid r).1.pool := by
  simp only [establish]
  split
  · exact h
  · have he := inv_estPdrs base cfg lseid r.cpIP (w.conn a).apps r.pdrs w.pool w.teid [] h
    cases hq : estPdrs cfg lseid r.cpIP (w.conn a).apps r.pdrs w.pool w.teid [] with
    | error e =>
      obtain ⟨cause, pdrs, pool, g⟩ := e
      rw [hq] at he
      exact inv_release base pool g lseid pdrs he
    | ok v =>
      obtain ⟨pdrs, pool, g⟩ := v
      rw [hq] at he
      simp only
      cases mapFars cfg lseid r.cpIP false r.fars with
      | error e => cases e; exact inv_release base pool g lseid pdrs he
      | ok fars =>
        simp only [World.setConn]
        split <;> exact he

/-- deletion keeps the pool invariant -/
theorem inv_delete (base : List Nat) (cfg : Cfg) (w : World) (a seid : Nat)
    (h : PoolInv base w.pool) : PoolInv base (deleteSession cfg w a seid).1.pool := by
  simp only [deleteSession]
  split
  · exact h
  · rename_i s _
    simp only [World.setConn]
    split <;> exact inv_release base w.pool w.teid s.lseid s.pdrs h

end Agent
