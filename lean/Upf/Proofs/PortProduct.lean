import Upf.Model.PortProduct
import Upf.Proofs.PortRange

namespace Tern

theorem product_cover (s d : PR) (rs : List Rule2) (h : cartesian s d = some rs) (sp dp : U16) :
    (∃ r ∈ rs, r.matches sp dp) ↔ (s.denotes sp ∧ d.denotes dp) := by
  unfold cartesian at h
  split at h
  · cases h
  · split at h
    · split at h
      · rename_i rs' t h1 h2
        cases h
        have c1 := complex_cover .exact s rs' h1 sp
        have c2 := trivial_cover d t h2 dp
        simp only [List.mem_map, Rule2.matches]
        constructor
        · rintro ⟨r, ⟨r0, hr0, rfl⟩, hm1, hm2⟩
          exact ⟨c1.mp ⟨r0, hr0, hm1⟩, c2.mp hm2⟩
        · rintro ⟨h3, h4⟩
          obtain ⟨r0, hr0, hm⟩ := c1.mpr h3
          exact ⟨⟨r0, t⟩, ⟨r0, hr0, rfl⟩, hm, c2.mpr h4⟩
      · cases h
    · split at h
      · split at h
        · rename_i rs' t h1 h2
          cases h
          have c1 := complex_cover .exact d rs' h1 dp
          have c2 := trivial_cover s t h2 sp
          simp only [List.mem_map, Rule2.matches]
          constructor
          · rintro ⟨r, ⟨r0, hr0, rfl⟩, hm1, hm2⟩
            exact ⟨c2.mp hm1, c1.mp ⟨r0, hr0, hm2⟩⟩
          · rintro ⟨h3, h4⟩
            obtain ⟨r0, hr0, hm⟩ := c1.mpr h4
            exact ⟨⟨t, r0⟩, ⟨r0, hr0, rfl⟩, c2.mpr h3, hm⟩
        · cases h
      · split at h
        · rename_i a b h1 h2
          cases h
          have c1 := trivial_cover s a h1 sp
          have c2 := trivial_cover d b h2 dp
          simp only [List.mem_singleton, exists_eq_left, Rule2.matches]
          exact ⟨fun ⟨x, y⟩ => ⟨c1.mp x, c2.mp y⟩, fun ⟨x, y⟩ => ⟨c1.mpr x, c2.mpr y⟩⟩
        · cases h

theorem trivial_none_iff (pr : PR) : asTrivial pr = none ↔ pr.isRange := by
  unfold asTrivial PR.isRange
  split
  · rename_i h; simp [h]
  · rename_i h
    split
    · rename_i h2; simp [h2]
    · rename_i h2; simp [h, h2]

theorem complex_exact_none_iff (pr : PR) : asComplex .exact pr = none ↔ (pr.isRange ∧ pr.width > 100#16) := by
  unfold asComplex PR.isRange
  split
  · rename_i h; simp [h]
  · rename_i h
    split
    · rename_i h2; simp [h2]
    · rename_i h2
      simp only [h, h2, not_false_eq_true, and_self, true_and]
      split <;> simp_all

/-- refused exactly when: both true ranges, or the single true range is wider than 100 -/
theorem refused_iff (s d : PR) : cartesian s d = none ↔
    ((s.isRange ∧ d.isRange) ∨ (s.isRange ∧ s.width > 100#16) ∨ (d.isRange ∧ d.width > 100#16)) := by
  unfold cartesian
  by_cases hs : s.isRange <;> by_cases hd : d.isRange
  · simp [hs, hd]
  · have ht : asTrivial d ≠ none := fun e => hd ((trivial_none_iff d).mp e)
    simp only [hs, hd, and_false, if_false, if_true, false_or, true_and, false_and, or_false]
    cases h1 : asComplex .exact s with
    | none =>
      have := (complex_exact_none_iff s).mp h1
      simp [this.2]
    | some rs =>
      cases h2 : asTrivial d with
      | none => exact absurd h2 ht
      | some t =>
        simp
        apply Classical.byContradiction
        intro hw
        have hw' : s.width > 100#16 := by
          simpa [BitVec.lt_def, BitVec.le_def, Nat.not_le] using hw
        have := (complex_exact_none_iff s).mpr ⟨hs, hw'⟩
        rw [h1] at this; cases this
  · have ht : asTrivial s ≠ none := fun e => hs ((trivial_none_iff s).mp e)
    simp only [hs, hd, false_and, if_false, if_true, false_or, true_and]
    cases h1 : asComplex .exact d with
    | none =>
      have := (complex_exact_none_iff d).mp h1
      simp [this.2]
    | some rs =>
      cases h2 : asTrivial s with
      | none => exact absurd h2 ht
      | some t =>
        simp
        apply Classical.byContradiction
        intro hw
        have hw' : d.width > 100#16 := by
          simpa [BitVec.lt_def, BitVec.le_def, Nat.not_le] using hw
        have := (complex_exact_none_iff d).mpr ⟨hd, hw'⟩
        rw [h1] at this; cases this
  · have ht1 : asTrivial s ≠ none := fun e => hs ((trivial_none_iff s).mp e)
    have ht2 : asTrivial d ≠ none := fun e => hd ((trivial_none_iff d).mp e)
    simp only [hs, hd, false_and, if_false, false_or, or_self, iff_false]
    cases h1 : asTrivial s with
    | none => exact absurd h1 ht1
    | some a =>
      cases h2 : asTrivial d with
      | none => exact absurd h2 ht2
      | some b => simp

#print axioms product_cover
#print axioms refused_iff

end Tern

