import Upf.Model.PortRange
import Upf.Proofs.Tern

namespace Tern

theorem matches_full (v p : U16) : (Rule.matches ⟨v, 0xFFFF#16⟩ p) ↔ p = v := by
  unfold Rule.matches
  have e : (0xFFFF#16 : U16) = BitVec.allOnes 16 := by decide
  simp only [e, BitVec.and_allOnes]

theorem matches_any (v p : U16) : Rule.matches ⟨v, 0#16⟩ p := by
  unfold Rule.matches; simp

theorem trivial_cover (pr : PR) (r : Rule) (h : asTrivial pr = some r) (p : U16) :
    r.matches p ↔ pr.denotes p := by
  unfold asTrivial at h
  split at h
  · cases h; rename_i hw
    exact ⟨fun _ => Or.inl hw, fun _ => matches_any _ _⟩
  · rename_i hnw
    split at h
    · cases h; rename_i he
      rw [matches_full]
      unfold PR.denotes
      constructor
      · intro e; subst e; right; rw [he.1]; omega
      · rintro (hw | ⟨h1, h2⟩)
        · exact absurd hw hnw
        · apply BitVec.eq_of_toNat_eq; rw [he.1] at h1 ⊢; omega
    · cases h

theorem exact_rules_cover (pr : PR) (p : U16) :
    (∃ r ∈ exactRules pr, r.matches p) ↔ (pr.low.toNat ≤ p.toNat ∧ p.toNat ≤ pr.high.toNat) := by
  unfold exactRules
  constructor
  · rintro ⟨r, hr, hm⟩
    simp only [List.mem_map, List.mem_range'_1] at hr
    obtain ⟨n, ⟨h1, h2⟩, rfl⟩ := hr
    rw [matches_full] at hm
    subst hm
    have hh := pr.high.isLt
    have : n < 65536 := by omega
    simp [BitVec.toNat_ofNat, Nat.mod_eq_of_lt this]
    omega
  · intro ⟨h1, h2⟩
    refine ⟨⟨BitVec.ofNat 16 p.toNat, 0xFFFF#16⟩, ?_, ?_⟩
    · simp only [List.mem_map, List.mem_range'_1]
      exact ⟨p.toNat, ⟨h1, by omega⟩, rfl⟩
    · rw [matches_full]; simp

theorem complex_cover (s : Strategy) (pr : PR) (rs : List Rule) (h : asComplex s pr = some rs) (p : U16) :
    (∃ r ∈ rs, r.matches p) ↔ pr.denotes p := by
  unfold asComplex at h
  split at h
  · cases h; rename_i he
    simp only [List.mem_singleton, exists_eq_left, matches_full]
    unfold PR.denotes
    constructor
    · intro e; subst e; right; rw [he.1]; omega
    · rintro (hw | ⟨h1, h2⟩)
      · rcases hw with ⟨a, b⟩ | ⟨a, b⟩
        · exfalso; have := he.1; rw [a, b] at this; exact absurd this (by decide)
        · exact absurd b he.2
      · apply BitVec.eq_of_toNat_eq; rw [he.1] at h1 ⊢; omega
  · rename_i hne
    split at h
    · cases h; rename_i hw
      exact ⟨fun _ => Or.inl hw, fun _ => ⟨_, List.mem_singleton.mpr rfl, matches_any _ _⟩⟩
    · rename_i hnw
      have hden : pr.denotes p ↔ (pr.low.toNat ≤ p.toNat ∧ p.toNat ≤ pr.high.toNat) := by
        unfold PR.denotes
        exact ⟨fun h => h.elim (fun hw => absurd hw hnw) id, Or.inr⟩
      cases s with
      | exact =>
        simp only at h
        split at h
        · cases h
        · cases h; rw [hden]; exact exact_rules_cover pr p
      | ternary =>
        simp only at h
        cases h; rw [hden]; exact ternary_cover pr.low pr.high p

#print axioms complex_cover

end Tern

