import Upf.Proofs.HistBase
import Upf.Proofs.PoolWorld
import Upf.Proofs.ModRem
import Upf.Proofs.ModAdd
/-!
Histories of the agent model: association setup, PFD update, establishment, deletion, report "context not found",
association ending, and Session Modifications that update FARs only. Both invariants (`Inv`: tables = image of the store;
`TeidInv`: chosen TEIDs distinct, in use, none leaked) hold after every step of every history in the envelope.
-/
namespace Agent

inductive Ev
  | assoc (a : Nat) (node : String)
  | pfd (a : Nat) (apps : List (String × List String)) (ok : Bool)
  | est (a lseid : Nat) (r : EstReq)
  | del (a seid : Nat)
  | report (a seid : Nat)
  | shutdown (a : Nat)
  | modFar (a : Nat) (r : ModReq)
  | modRem (a : Nat) (r : ModReq)
  | modAdd (a : Nat) (r : ModReq)

def stepEv (cfg : Cfg) (w : World) : Ev → World
  | .assoc a node => assocSetup w a node
  | .pfd a apps ok => pfdManagement w a apps ok
  | .est a lseid r => (establish cfg w a lseid r).1
  | .del a seid => (deleteSession cfg w a seid).1
  | .report a seid => reportContextNotFound cfg w a seid
  | .shutdown a => shutdownConn cfg w a
  | .modFar a r => (modify cfg w a r).world
  | .modRem a r => (modify cfg w a r).world
  | .modAdd a r => (modify cfg w a r).world

/-- the envelope of C03 along a history: a session that an establishment stores has a SEID and keys no stored session has;
a modification in the history carries Update FAR IEs only, or Remove PDR / FAR / QER IEs only, or Create PDR / FAR / QER IEs only
(`AddEnv`: new rule IDs, no CHOOSE F-TEID, keys no other session has), on a session whose session-QER marking
is stable (the open finding "session-QER relabelled" is outside) and — for removals — whose rules have pairwise different table keys. That the stored FARs carry their session's SEID is NOT assumed: it is the invariant `FarWf`. -/
def EnvOK (cfg : Cfg) : World → List Ev → Prop
  | _, [] => True
  | w, ev :: rest =>
    (match ev with
     | .est a lseid r => (establish cfg w a lseid r).2.upSeid.isSome → ∀ s : Session, newSession cfg w a lseid r = some s →
         ∀ s' ∈ allSessions w, Disj cfg s s'
     | .modFar a r => FarOnly r ∧ ∀ s0, (w.conn a).sessions.find? (·.lseid = r.seid) = some s0 →
         markSessionQer s0.pdrs s0.qers = (s0.qers, s0.pdrs)
     | .modRem a r => RemOnly r ∧ ∀ s0, (w.conn a).sessions.find? (·.lseid = r.seid) = some s0 →
         markSessionQer s0.pdrs s0.qers = (s0.qers, s0.pdrs) ∧ SelfNodup cfg s0
     | .modAdd a r => AddOnly r ∧ ∀ s0, (w.conn a).sessions.find? (·.lseid = r.seid) = some s0 →
         ∀ cp pool1 cf, parsePdrs r.seid (fseidIPOf' r) (w.conn a).apps r.createPdrs w.pool = .ok (cp, pool1) →
           mapFars cfg r.seid (fseidIPOf' r) false r.createFars = .ok cf → AddEnv cfg w r s0 cp cf
     | _ => True) ∧ EnvOK cfg (stepEv cfg w ev) rest

theorem step_inv (cfg : Cfg) (w : World) (ev : Ev) (hI : Inv cfg w) (hW : FarWf w) (henv : EnvOK cfg w [ev]) : Inv cfg (stepEv cfg w ev) := by
  cases ev with
  | assoc a node =>
    exact setL_same_sessions cfg w a { w.conn a with remoteNode := node } hI rfl (assocSetup w a node) (setConn_conns _ _ _) (setConn_tables _ _ _)
  | pfd a apps ok =>
    cases ok
    · exact hI
    · exact setL_same_sessions cfg w a { w.conn a with apps := apps } hI rfl (w.setConn a { w.conn a with apps := apps })
        (setConn_conns _ _ _) (setConn_tables _ _ _)
  | est a lseid r => exact establish_inv cfg w a lseid r hI henv.1
  | del a seid => exact delete_inv cfg w a seid hI
  | report a seid => exact report_inv cfg w a seid hI
  | shutdown a => exact shutdown_inv cfg w a hI
  | modFar a r =>
    show Inv cfg (modify cfg w a r).world
    cases hf : (w.conn a).sessions.find? (·.lseid = r.seid) with
    | none => rw [modify_unknown cfg w a r hf]; exact hI
    | some s0 =>
      exact modFar_inv cfg w a r s0 hI henv.1.1 hf (henv.1.2 s0 hf)
        (hW s0 (mem_conn_all w a hI.keys s0 (List.mem_of_find?_eq_some hf)))
  | modRem a r =>
    show Inv cfg (modify cfg w a r).world
    cases hf : (w.conn a).sessions.find? (·.lseid = r.seid) with
    | none => rw [modify_unknown cfg w a r hf]; exact hI
    | some s0 => exact modRem_inv cfg w a r s0 hI henv.1.1 hf (henv.1.2 s0 hf).1 (henv.1.2 s0 hf).2
  | modAdd a r =>
    show Inv cfg (modify cfg w a r).world
    cases hf : (w.conn a).sessions.find? (·.lseid = r.seid) with
    | none => rw [modify_unknown cfg w a r hf]; exact hI
    | some s0 => exact (modAdd_inv cfg w a r s0 hI hW henv.1.1 hf (henv.1.2 s0 hf)).1

/-- the well-formedness of the stored FARs is kept by every step -/
theorem step_farwf (cfg : Cfg) (w : World) (ev : Ev) (hI : Inv cfg w) (hW : FarWf w) (henv : EnvOK cfg w [ev]) : FarWf (stepEv cfg w ev) := by
  -- a step whose stored sessions are among the old ones keeps it
  have sub : ∀ w' : World, (∀ s ∈ allSessions w', s ∈ allSessions w) → FarWf w' := fun w' h s hs => hW s (h s hs)
  cases ev with
  | assoc a node =>
    exact sub _ (same_sessions_mem w a { w.conn a with remoteNode := node } hI.keys rfl (assocSetup w a node) (setConn_conns _ _ _))
  | pfd a apps ok =>
    cases ok
    · exact hW
    · exact sub _ (same_sessions_mem w a { w.conn a with apps := apps } hI.keys rfl (w.setConn a { w.conn a with apps := apps }) (setConn_conns _ _ _))
  | est a lseid r =>
    show FarWf (establish cfg w a lseid r).1
    rcases establish_cases cfg w a lseid r with ⟨hc, _, _⟩ | ⟨s, hl, _, hc, hfars, _⟩
    · exact sub _ (fun s hs => by unfold allSessions at hs ⊢; rw [hc] at hs; exact hs)
    · intro x hx
      have hp := append_session_perm w a s hI.keys
      unfold allSessions at hx; rw [hc] at hx
      rcases List.mem_cons.mp (hp.mem_iff.mp hx) with rfl | hx'
      · rw [hl]; exact mapFars_fse cfg lseid r.cpIP false r.fars _ hfars
      · exact hW x hx'
  | del a seid =>
    show FarWf (deleteSession cfg w a seid).1
    rcases deleteSession_cases cfg w a seid with ⟨_, hw⟩ | ⟨s, hfind, _, hc⟩
    · rw [hw]; exact hW
    · have p := remove_perm cfg w a seid s hI hfind
      exact sub _ (fun x hx => by unfold allSessions at hx; rw [hc] at hx; exact p.mem_iff.mpr (List.mem_cons_of_mem _ hx))
  | report a seid =>
    show FarWf (reportContextNotFound cfg w a seid)
    unfold reportContextNotFound
    dsimp only
    cases hfind : (w.conn a).sessions.find? (·.lseid = seid) with
    | none => exact hW
    | some s =>
      dsimp only
      have p := remove_perm cfg w a seid s hI hfind
      refine sub _ (fun x hx => ?_)
      unfold allSessions at hx; rw [setConn_conns] at hx
      exact p.mem_iff.mpr (List.mem_cons_of_mem _ hx)
  | shutdown a =>
    show FarWf (shutdownConn cfg w a)
    have p := flat_filter a w.conns hI.keys
    refine sub _ (fun x hx => ?_)
    unfold shutdownConn allSessions at hx
    dsimp only at hx
    rw [foldl_drop_conns] at hx
    exact p.mem_iff.mpr (List.mem_append_right _ hx)
  | modFar a r =>
    show FarWf (modify cfg w a r).world
    cases hf : (w.conn a).sessions.find? (·.lseid = r.seid) with
    | none => rw [modify_unknown cfg w a r hf]; exact hW
    | some s0 =>
      have hl : s0.lseid = r.seid := by simpa using List.find?_some hf
      have hwf0 := hW s0 (mem_conn_all w a hI.keys s0 (List.mem_of_find?_eq_some hf))
      rcases modify_farOnly_cases cfg w a r s0 henv.1.1 hf (henv.1.2 s0 hf) with ⟨hc, _⟩ | ⟨uf, hu, _, hc⟩
      · exact sub _ (fun s hs => by unfold allSessions at hs ⊢; rw [hc] at hs; exact hs)
      · obtain ⟨rest, p1, p2⟩ := conn_sublist_perm w a hI.keys
        have hpw : ((w.conn a).sessions ++ rest).Pairwise (Disj cfg) := pairwise_perm p1 hI.disj
        have hpc : (w.conn a).sessions.Pairwise (fun x y => x.lseid ≠ y.lseid) := (List.pairwise_append.mp hpw).1.imp (fun h => h.1)
        have pold : (allSessions w).Perm (s0 :: ((w.conn a).sessions.filter (·.lseid ≠ r.seid) ++ rest)) :=
          p1.trans (List.Perm.append_right rest (filter_perm r.seid _ s0 hpc hf))
        have pnew : (allSessions (modify cfg w a r).world).Perm
            (afterFarUpdate r s0 uf :: ((w.conn a).sessions.filter (·.lseid ≠ r.seid) ++ rest)) := by
          unfold allSessions; rw [hc]
          exact (p2 _).trans (List.Perm.append_right rest (map_replace_perm r.seid _ _ s0 hpc hf))
        intro x hx
        rcases List.mem_cons.mp (pnew.mem_iff.mp hx) with rfl | hx'
        · have hufse : ∀ f ∈ uf, f.fseID = s0.lseid := by rw [hl]; exact mapFars_fse cfg r.seid _ true r.updateFars uf hu
          exact (farLoop_updFars s0.lseid s0.fars uf hwf0 hufse).fse
        · exact hW x (pold.mem_iff.mpr (List.mem_cons_of_mem _ hx'))
  | modRem a r =>
    show FarWf (modify cfg w a r).world
    cases hf : (w.conn a).sessions.find? (·.lseid = r.seid) with
    | none => rw [modify_unknown cfg w a r hf]; exact hW
    | some s0 => exact modRem_farwf cfg w a r s0 hI hW henv.1.1 hf (henv.1.2 s0 hf).1
  | modAdd a r =>
    show FarWf (modify cfg w a r).world
    cases hf : (w.conn a).sessions.find? (·.lseid = r.seid) with
    | none => rw [modify_unknown cfg w a r hf]; exact hW
    | some s0 => exact (modAdd_inv cfg w a r s0 hI hW henv.1.1 hf (henv.1.2 s0 hf)).2

/-- **C03 on the agent model, every history**: from start-up on, after every association setup, PFD update, establishment
(accepted or refused), deletion, report "context not found", association ending and FAR-updating modification, over any number of
associations and sessions, the four lookup tables are the image of the stored sessions -/
theorem inv_run (cfg : Cfg) : ∀ (evs : List Ev) (w : World), Inv cfg w → FarWf w → EnvOK cfg w evs →
    Inv cfg (evs.foldl (stepEv cfg) w) ∧ FarWf (evs.foldl (stepEv cfg) w)
  | [], _, hI, hW, _ => ⟨hI, hW⟩
  | ev :: rest, w, hI, hW, henv => by
    rw [List.foldl_cons]
    exact inv_run cfg rest _ (step_inv cfg w ev hI hW ⟨henv.1, trivial⟩) (step_farwf cfg w ev hI hW ⟨henv.1, trivial⟩) henv.2

theorem farwf_start (pool : Option Pool.P) (g : Teid.G) : FarWf { pool := pool, teid := g } := by
  intro s hs; simp [allSessions, flat] at hs

/-- a FAR-updating modification chooses and releases no TEID -/
theorem modFar_teid (cfg : Cfg) (w : World) (a : Nat) (r : ModReq) (s0 : Session) (hI : Inv cfg w) (hT : TeidInv w) (hr : FarOnly r)
    (h : (w.conn a).sessions.find? (·.lseid = r.seid) = some s0)
    (hstable : markSessionQer s0.pdrs s0.qers = (s0.qers, s0.pdrs)) : TeidInv (modify cfg w a r).world := by
  have hteid : (modify cfg w a r).world.teid = w.teid := by
    obtain ⟨h1, h2, h3, h4, h5, h6, h7, h8⟩ := hr
    unfold modify
    simp only [h, h1, h2, h3, h4, h5, h6, h7, h8]
    simp only [parsePdrs, mapFars, pure, Except.pure, removeAll]
    repeat' split
    all_goals first | rfl | (rw [setConn_teid]; rfl) | (rw [setConn_teid])
  rcases modify_farOnly_cases cfg w a r s0 hr h hstable with ⟨hc, _⟩ | ⟨uf, _, _, hc⟩
  · exact hT.congr hc hteid
  · obtain ⟨rest, p1, p2⟩ := conn_sublist_perm w a hI.keys
    have hpw : ((w.conn a).sessions ++ rest).Pairwise (Disj cfg) := pairwise_perm p1 hI.disj
    have hpc : (w.conn a).sessions.Pairwise (fun x y => x.lseid ≠ y.lseid) := (List.pairwise_append.mp hpw).1.imp (fun h => h.1)
    have pold : (allSessions w).Perm (s0 :: ((w.conn a).sessions.filter (·.lseid ≠ r.seid) ++ rest)) :=
      p1.trans (List.Perm.append_right rest (filter_perm r.seid _ s0 hpc h))
    have pnew : (allSessions (modify cfg w a r).world).Perm
        (afterFarUpdate r s0 uf :: ((w.conn a).sessions.filter (·.lseid ≠ r.seid) ++ rest)) := by
      unfold allSessions; rw [hc]
      exact (p2 _).trans (List.Perm.append_right rest (map_replace_perm r.seid _ _ s0 hpc h))
    refine ⟨by rw [hteid]; exact hT.off, ?_⟩
    rw [hteid]
    have c1 := chosen_perm pold
    have c2 := chosen_perm pnew
    simp only [List.flatMap_cons] at c1 c2
    exact hT.held.perm (c1.trans c2.symm)

/-- **both invariants along every history** -/
theorem inv_teid_run (cfg : Cfg) : ∀ (evs : List Ev) (w : World), Inv cfg w → FarWf w → TeidInv w → EnvOK cfg w evs →
    Inv cfg (evs.foldl (stepEv cfg) w) ∧ TeidInv (evs.foldl (stepEv cfg) w)
  | [], _, hI, _, hT, _ => ⟨hI, hT⟩
  | ev :: rest, w, hI, hW, hT, henv => by
    rw [List.foldl_cons]
    have hI' : Inv cfg (stepEv cfg w ev) := step_inv cfg w ev hI hW ⟨henv.1, trivial⟩
    refine inv_teid_run cfg rest _ hI' (step_farwf cfg w ev hI hW ⟨henv.1, trivial⟩) ?_ henv.2
    cases ev with
    | assoc a node => exact hT.congr_sessions cfg w a { w.conn a with remoteNode := node } hI rfl rfl (assocSetup w a node) (setConn_conns _ _ _) (setConn_teid _ _ _)
    | pfd a apps ok =>
      cases ok
      · exact hT
      · exact hT.congr_sessions cfg w a { w.conn a with apps := apps } hI rfl rfl (w.setConn a { w.conn a with apps := apps }) (setConn_conns _ _ _) (setConn_teid _ _ _)
    | est a lseid r => exact establish_teid cfg w a lseid r hI.keys hT
    | del a seid => exact delete_teid cfg w a seid hI hT
    | report a seid => exact report_teid cfg w a seid hI hT
    | shutdown a => exact shutdown_teid cfg w a hI hT
    | modFar a r =>
      show TeidInv (modify cfg w a r).world
      cases hf : (w.conn a).sessions.find? (·.lseid = r.seid) with
      | none => rw [modify_unknown cfg w a r hf]; exact hT
      | some s0 => exact modFar_teid cfg w a r s0 hI hT henv.1.1 hf (henv.1.2 s0 hf)
    | modRem a r =>
      show TeidInv (modify cfg w a r).world
      cases hf : (w.conn a).sessions.find? (·.lseid = r.seid) with
      | none => rw [modify_unknown cfg w a r hf]; exact hT
      | some s0 => exact modRem_teid cfg w a r s0 hI hT henv.1.1 hf (henv.1.2 s0 hf).1
    | modAdd a r =>
      show TeidInv (modify cfg w a r).world
      cases hf : (w.conn a).sessions.find? (·.lseid = r.seid) with
      | none => rw [modify_unknown cfg w a r hf]; exact hT
      | some s0 => exact modAdd_teid cfg w a r s0 hI hT henv.1.1 hf (henv.1.2 s0 hf)

/-- the pool invariant of C06 and "every held address is held by a stored session" after one step -/
theorem step_pool (base : List Nat) (cfg : Cfg) (w : World) (ev : Ev) (hI : Inv cfg w) (henv : EnvOK cfg w [ev])
    (hP : PoolInv base w.pool) (hO : Owned w) : PoolInv base (stepEv cfg w ev).pool ∧ Owned (stepEv cfg w ev) := by
  cases ev with
  | assoc a node =>
    obtain ⟨rest, p1, p2⟩ := conn_sublist_perm w a hI.keys
    refine ⟨by show PoolInv base (w.setConn a _).pool; rw [setConn_pool]; exact hP, ?_⟩
    refine hO.congr (setConn_pool _ _ _) (fun s hs => ?_)
    show s ∈ allSessions (w.setConn a { w.conn a with remoteNode := node })
    unfold allSessions; rw [setConn_conns]
    exact (p2 { w.conn a with remoteNode := node }).mem_iff.mpr (p1.mem_iff.mp hs)
  | pfd a apps ok =>
    cases ok
    · exact ⟨hP, hO⟩
    · obtain ⟨rest, p1, p2⟩ := conn_sublist_perm w a hI.keys
      refine ⟨by show PoolInv base (w.setConn a _).pool; rw [setConn_pool]; exact hP, ?_⟩
      refine hO.congr (setConn_pool _ _ _) (fun s hs => ?_)
      show s ∈ allSessions (w.setConn a { w.conn a with apps := apps })
      unfold allSessions; rw [setConn_conns]
      exact (p2 { w.conn a with apps := apps }).mem_iff.mpr (p1.mem_iff.mp hs)
  | est a lseid r => exact ⟨inv_establish base cfg w a lseid r hP, establish_owned cfg w a lseid r hI.keys hO⟩
  | del a seid => exact ⟨inv_delete base cfg w a seid hP, delete_owned cfg w a seid hI hO⟩
  | report a seid =>
    refine ⟨?_, report_owned cfg w a seid hI hO⟩
    show PoolInv base (reportContextNotFound cfg w a seid).pool
    unfold reportContextNotFound
    dsimp only
    split
    · exact hP
    · rename_i s _
      rw [setConn_pool]
      exact inv_release base w.pool w.teid s.lseid s.pdrs hP
  | shutdown a =>
    refine ⟨?_, shutdown_owned cfg w a hI hO⟩
    show PoolInv base (shutdownConn cfg w a).pool
    unfold shutdownConn
    exact foldl_drop_poolinv base cfg _ w hP
  | modFar a r =>
    show PoolInv base (modify cfg w a r).world.pool ∧ Owned (modify cfg w a r).world
    cases hf : (w.conn a).sessions.find? (·.lseid = r.seid) with
    | none => rw [modify_unknown cfg w a r hf]; exact ⟨hP, hO⟩
    | some s0 =>
      exact ⟨by rw [modify_farOnly_pool cfg w a r henv.1.1]; exact hP, modFar_owned cfg w a r s0 hI hO henv.1.1 hf (henv.1.2 s0 hf)⟩
  | modRem a r =>
    show PoolInv base (modify cfg w a r).world.pool ∧ Owned (modify cfg w a r).world
    cases hf : (w.conn a).sessions.find? (·.lseid = r.seid) with
    | none => rw [modify_unknown cfg w a r hf]; exact ⟨hP, hO⟩
    | some s0 => exact modRem_pool base cfg w a r s0 hI henv.1.1 hf (henv.1.2 s0 hf).1 hP hO
  | modAdd a r =>
    show PoolInv base (modify cfg w a r).world.pool ∧ Owned (modify cfg w a r).world
    cases hf : (w.conn a).sessions.find? (·.lseid = r.seid) with
    | none => rw [modify_unknown cfg w a r hf]; exact ⟨hP, hO⟩
    | some s0 => exact modAdd_pool base cfg w a r s0 hI hP hO henv.1.1 hf (henv.1.2 s0 hf)

/-- **along every history**: the pool invariant of C06 holds and every held address is held by a stored session -/
theorem pool_run (base : List Nat) (cfg : Cfg) : ∀ (evs : List Ev) (w : World), Inv cfg w → FarWf w → EnvOK cfg w evs → PoolInv base w.pool → Owned w →
    PoolInv base (evs.foldl (stepEv cfg) w).pool ∧ Owned (evs.foldl (stepEv cfg) w)
  | [], _, _, _, _, hP, hO => ⟨hP, hO⟩
  | ev :: rest, w, hI, hW, henv, hP, hO => by
    rw [List.foldl_cons]
    have h1 := step_pool base cfg w ev hI ⟨henv.1, trivial⟩ hP hO
    exact pool_run base cfg rest _ (step_inv cfg w ev hI hW ⟨henv.1, trivial⟩) (step_farwf cfg w ev hI hW ⟨henv.1, trivial⟩) henv.2 h1.1 h1.2


end Agent
