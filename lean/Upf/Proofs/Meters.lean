import Upf.Model.Meters

namespace Meters

/-- consequences: no cell is free and held, or held twice, or free twice — in either pool -/
theorem app_exclusive (ua us : List Nat) (s : St) (h : Inv ua us s) : (s.appFree ++ heldBy .app s).Nodup :=
  h.app.nodup_iff.mpr h.ua_nd
theorem sess_exclusive (ua us : List Nat) (s : St) (h : Inv ua us s) : (s.sessFree ++ heldBy .sess s).Nodup :=
  h.sess.nodup_iff.mpr h.us_nd

theorem held_cons_same (k : Kind) (key : Nat) (m : Meter) (ms : List (Nat × Meter)) (hk : m.kind = k) :
    held k ((key, m) :: ms) = cells m ++ held k ms := by
  simp [held, List.filter_cons, hk]

theorem held_cons_other (k : Kind) (key : Nat) (m : Meter) (ms : List (Nat × Meter)) (hk : m.kind ≠ k) :
    held k ((key, m) :: ms) = held k ms := by
  simp [held, List.filter_cons, hk]

theorem erase_perm_cons {a : Nat} {l : List Nat} (h : a ∈ l) : (a :: l.erase a).Perm l :=
  (List.perm_cons_erase h).symm

theorem inv_configure_sess (ua us : List Nat) (s s' : St) (key a b : Nat) (ok : Bool) (h : Inv ua us s)
    (hs : configure s key .sess true a b ok = some s') : Inv ua us s' := by
  simp only [configure] at hs
  split at hs
  · rename_i hc
    obtain ⟨ha, hb, hne, hkey⟩ := hc
    cases ok
    · simp at hs; subst hs; exact h
    · simp only [if_true] at hs
      cases hs
      have hb' : b ∈ s.sessFree.erase a := (List.mem_erase_of_ne hne).mpr hb
      refine ⟨?_, ?_, h.ua_nd, h.us_nd, ?_⟩
      · show (s.appFree ++ held .app ((key, ⟨.sess, a, b⟩) :: s.meters)).Perm ua
        rw [held_cons_other .app key ⟨.sess, a, b⟩ s.meters (by simp)]; exact h.app
      · show ((s.sessFree.erase a).erase b ++ held .sess ((key, ⟨.sess, a, b⟩) :: s.meters)).Perm us
        rw [held_cons_same .sess key ⟨.sess, a, b⟩ s.meters rfl]
        have hcells : cells ⟨.sess, a, b⟩ = [a, b] := by simp [cells, hne]
        rw [hcells]
        refine List.Perm.trans ?_ h.sess
        have p1 : (a :: b :: (s.sessFree.erase a).erase b).Perm s.sessFree :=
          ((erase_perm_cons hb').cons a).trans (erase_perm_cons ha)
        have : ((s.sessFree.erase a).erase b ++ ([a, b] ++ held .sess s.meters)).Perm
               ((a :: b :: (s.sessFree.erase a).erase b) ++ held .sess s.meters) := by
          simp only [List.cons_append, List.nil_append]
          refine List.Perm.trans List.perm_middle ?_
          exact (List.Perm.cons a List.perm_middle)
        exact this.trans (p1.append_right _)
      · show (((key, (⟨.sess, a, b⟩ : Meter)) :: s.meters).map (·.1)).Nodup
        simp only [List.map_cons]; exact List.nodup_cons.mpr ⟨hkey, h.keys⟩
  · cases hs

theorem inv_configure_app (ua us : List Nat) (s s' : St) (key a b : Nat) (bidir ok : Bool) (h : Inv ua us s)
    (hs : configure s key .app bidir a b ok = some s') : Inv ua us s' := by
  simp only [configure] at hs
  split at hs
  · rename_i hc
    obtain ⟨ha, hbd, hkey⟩ := hc
    cases ok
    · simp at hs; subst hs; exact h
    · simp only [if_true] at hs
      cases hs
      refine ⟨?_, ?_, h.ua_nd, h.us_nd, ?_⟩
      · show ((s.appFree.erase a).erase (if bidir = true then b else a) ++
              held .app ((key, ⟨.app, a, if bidir = true then b else a⟩) :: s.meters)).Perm ua
        rw [held_cons_same .app key ⟨.app, a, if bidir = true then b else a⟩ s.meters rfl]
        refine List.Perm.trans ?_ h.app
        cases bidir
        · -- unidirectional: one cell, the second erase is a no-op
          have hna : a ∉ s.appFree.erase a := by
            have hnd : s.appFree.Nodup := (List.nodup_append.mp (h.app.nodup_iff.mpr h.ua_nd)).1
            exact fun hin => (hnd.mem_erase_iff.mp hin).1 rfl
          simp only [Bool.false_eq_true, if_false, cells, if_true]
          rw [List.erase_of_not_mem hna]
          have p1 : (a :: s.appFree.erase a).Perm s.appFree := erase_perm_cons ha
          have : (s.appFree.erase a ++ ([a] ++ held .app s.meters)).Perm ((a :: s.appFree.erase a) ++ held .app s.meters) := by
            simp only [List.cons_append, List.nil_append]; exact List.perm_middle
          exact this.trans (p1.append_right _)
        · obtain ⟨hb, hne⟩ := hbd rfl
          have hb' : b ∈ s.appFree.erase a := (List.mem_erase_of_ne hne).mpr hb
          have hcells : cells ⟨.app, a, b⟩ = [a, b] := by simp [cells, hne]
          simp only [if_true]
          rw [hcells]
          have p1 : (a :: b :: (s.appFree.erase a).erase b).Perm s.appFree :=
            ((erase_perm_cons hb').cons a).trans (erase_perm_cons ha)
          have : ((s.appFree.erase a).erase b ++ ([a, b] ++ held .app s.meters)).Perm
                 ((a :: b :: (s.appFree.erase a).erase b) ++ held .app s.meters) := by
            simp only [List.cons_append, List.nil_append]
            refine List.Perm.trans List.perm_middle ?_
            exact (List.Perm.cons a List.perm_middle)
          exact this.trans (p1.append_right _)
      · show (s.sessFree ++ held .sess ((key, ⟨.app, a, if bidir = true then b else a⟩) :: s.meters)).Perm us
        rw [held_cons_other .sess key ⟨.app, a, if bidir = true then b else a⟩ s.meters (by simp)]; exact h.sess
      · show (((key, (⟨.app, a, if bidir = true then b else a⟩ : Meter)) :: s.meters).map (·.1)).Nodup
        simp only [List.map_cons]; exact List.nodup_cons.mpr ⟨hkey, h.keys⟩
  · cases hs

/-- with unique keys, removing key `key` from the meters removes exactly that meter's cells from `held` -/
theorem held_remove (k : Kind) : ∀ (ms : List (Nat × Meter)) (key : Nat) (m : Meter), (ms.map (·.1)).Nodup →
    ms.find? (fun e => e.1 == key) = some (key, m) →
    (held k ms).Perm ((if m.kind = k then cells m else []) ++ held k (ms.filter (fun e => e.1 != key))) := by
  intro ms
  induction ms with
  | nil => intro key m _ h; simp at h
  | cons e es ih =>
    intro key m hnd hf
    simp only [List.map_cons, List.nodup_cons] at hnd
    by_cases he : e.1 = key
    · -- e is the meter; the rest has no such key
      have hrest : es.filter (fun x => x.1 != key) = es := by
        apply List.filter_eq_self.mpr
        intro y hy
        simp only [bne_iff_ne, ne_eq]
        intro e2
        exact hnd.1 (List.mem_map.mpr ⟨y, hy, by rw [e2, he]⟩)
      have hem : e = (key, m) := by simpa [List.find?_cons, he] using hf
      subst hem
      have : ((key, m) :: es).filter (fun x => x.1 != key) = es := by
        simp [List.filter_cons, hrest]
      rw [this]
      by_cases hk : m.kind = k
      · rw [held_cons_same k key m es hk]; simp [hk]
      · rw [held_cons_other k key m es hk]; simp [hk]
    · have hb : (e.1 == key) = false := by simp [he]
      have hf' : es.find? (fun x => x.1 == key) = some (key, m) := by
        simpa [List.find?_cons, hb] using hf
      have := ih key m hnd.2 hf'
      have hfil : (e :: es).filter (fun x => x.1 != key) = e :: es.filter (fun x => x.1 != key) := by
        simp [List.filter_cons, he]
      rw [hfil]
      obtain ⟨ek, em⟩ := e
      by_cases hk : em.kind = k
      · rw [held_cons_same k ek em es hk, held_cons_same k ek em _ hk]
        refine (this.append_left (cells em)).trans ?_
        simp only [← List.append_assoc]
        exact List.Perm.append_right _ List.perm_append_comm
      · rw [held_cons_other k ek em es hk, held_cons_other k ek em _ hk]; exact this

theorem inv_reset (ua us : List Nat) (s : St) (key : Nat) (h : Inv ua us s) : Inv ua us (reset s key) := by
  unfold reset
  cases hf : s.meters.find? (fun e => e.1 == key) with
  | none => exact h
  | some p =>
    obtain ⟨k0, m⟩ := p
    have hk0 : k0 = key := by
      have := List.find?_some hf; simpa using this
    subst hk0
    have hkeys' : ((s.meters.filter (fun e => e.1 != k0)).map (·.1)).Nodup :=
      (List.Sublist.map _ List.filter_sublist).nodup h.keys
    have ra := held_remove .app s.meters k0 m h.keys hf
    have rs := held_remove .sess s.meters k0 m h.keys hf
    simp only
    cases hkind : m.kind with
    | app =>
      simp only [hkind, if_true] at ra rs ⊢
      refine ⟨?_, ?_, h.ua_nd, h.us_nd, hkeys'⟩
      · show ((s.appFree ++ cells m) ++ held .app (s.meters.filter (fun e => e.1 != k0))).Perm ua
        rw [List.append_assoc]
        exact (ra.append_left s.appFree).symm.trans h.app
      · show (s.sessFree ++ held .sess (s.meters.filter (fun e => e.1 != k0))).Perm us
        have : (held .sess s.meters).Perm (held .sess (s.meters.filter (fun e => e.1 != k0))) := by
          simpa using rs
        exact (this.append_left s.sessFree).symm.trans h.sess
    | sess =>
      simp only [hkind, if_true] at ra rs ⊢
      refine ⟨?_, ?_, h.ua_nd, h.us_nd, hkeys'⟩
      · show (s.appFree ++ held .app (s.meters.filter (fun e => e.1 != k0))).Perm ua
        have : (held .app s.meters).Perm (held .app (s.meters.filter (fun e => e.1 != k0))) := by
          simpa using ra
        exact (this.append_left s.appFree).symm.trans h.app
      · show ((s.sessFree ++ cells m) ++ held .sess (s.meters.filter (fun e => e.1 != k0))).Perm us
        rw [List.append_assoc]
        exact (rs.append_left s.sessFree).symm.trans h.sess

#print axioms inv_configure_app
#print axioms inv_reset

end Meters

