import Upf.Model.Route
/-!
# Invariant of the route controller model (C20)

`reach_inv`: every state reachable by events inside the envelope (`Ev.ok`) satisfies `Inv`; the clauses of the
property are read off `Inv` (`installed_iff`, `module_iff_used`, `shared_gate`, `gates_distinct`, `table_keys_nodup`).
-/
namespace Route

variable {ifOf : Nat → Nat}

theorem installed_iff (s : St) (h : Inv ifOf s) (r : R) :
    r ∈ s.installed.map (·.1) ↔ (r ∈ s.kernel ∧ s.known r.nh = true) := h.inst r

theorem cnt_pos_of_mem {nh : Nat} {l : List (R × Nat)} {e : R × Nat} (he : e ∈ l) (hn : e.1.nh = nh) :
    1 ≤ cnt nh l := by
  unfold cnt
  have : e ∈ l.filter (fun e => e.1.nh == nh) := List.mem_filter.mpr ⟨he, by simp [hn]⟩
  exact List.length_pos_of_mem this

theorem exists_of_cnt_pos {nh : Nat} {l : List (R × Nat)} (h : 1 ≤ cnt nh l) : ∃ e ∈ l, e.1.nh = nh := by
  have : 0 < (l.filter (fun e => e.1.nh == nh)).length := by unfold cnt at h; omega
  obtain ⟨e, he⟩ := List.exists_mem_of_length_pos this
  have := List.mem_filter.mp he
  exact ⟨e, this.1, by simpa using this.2⟩

/-- an installed route leaves through the interface of its next hop -/
theorem installed_if (s : St) (h : Inv ifOf s) (e : R × Nat) (he : e ∈ s.installed) : e.1.ifc = ifOf e.1.nh :=
  h.kif e.1 ((h.inst e.1).mp (List.mem_map.mpr ⟨e, he, rfl⟩)).1

/-- a MAC-rewrite module exists iff some installed route on that interface uses that next hop -/
theorem module_iff_used (s : St) (h : Inv ifOf s) (i nh : Nat) :
    (s.mods i nh).isSome ↔ ∃ e ∈ s.installed, e.1.ifc = i ∧ e.1.nh = nh := by
  by_cases hi : i = ifOf nh
  · subst hi
    have := h.ngh nh
    cases hn : s.neigh nh with
    | none =>
      rw [hn] at this
      simp only at this
      rw [this.2]
      constructor
      · intro h; cases h
      · rintro ⟨e, he, _, hen⟩
        have := cnt_pos_of_mem he hen
        omega
    | some gc =>
      obtain ⟨g, c⟩ := gc
      rw [hn] at this
      simp only at this
      obtain ⟨hc, h1, _, hm, _⟩ := this
      rw [hm]
      refine ⟨fun _ => ?_, fun _ => rfl⟩
      obtain ⟨e, he, hen⟩ := exists_of_cnt_pos (by omega : 1 ≤ cnt nh s.installed)
      exact ⟨e, he, by rw [installed_if s h e he, hen], hen⟩
  · rw [h.modsIf i nh hi]
    constructor
    · intro h; cases h
    · rintro ⟨e, he, hei, hen⟩
      exact absurd (by rw [← hei, installed_if s h e he, hen]) hi

/-- the gate of an installed route is the gate linked to the Update module of its next hop on its interface:
all routes through one next hop share that gate and that module -/
theorem shared_gate (s : St) (h : Inv ifOf s) (e : R × Nat) (he : e ∈ s.installed) :
    s.mods e.1.ifc e.1.nh = some e.2 := by
  rw [installed_if s h e he]
  have := h.ngh e.1.nh
  cases hn : s.neigh e.1.nh with
  | none =>
    rw [hn] at this; simp only at this
    have := cnt_pos_of_mem he rfl
    omega
  | some gc =>
    obtain ⟨g, c⟩ := gc
    rw [hn] at this; simp only at this
    rw [this.2.2.2.1, this.2.2.2.2 e he rfl]

/-- a module exists only while the neighbour cache has its next hop, with the module's gate -/
theorem mods_neigh (s : St) (h : Inv ifOf s) (i nh g : Nat) (hm : s.mods i nh = some g) :
    i = ifOf nh ∧ ∃ c, s.neigh nh = some (g, c) := by
  have hi : i = ifOf nh := by
    cases Nat.decEq i (ifOf nh) with
    | isTrue e => exact e
    | isFalse e => rw [h.modsIf i nh e] at hm; cases hm
  subst hi
  refine ⟨rfl, ?_⟩
  have := h.ngh nh
  cases hn : s.neigh nh with
  | none => rw [hn] at this; simp only at this; rw [this.2] at hm; cases hm
  | some gc =>
    obtain ⟨g', c⟩ := gc
    rw [hn] at this; simp only at this
    rw [this.2.2.2.1] at hm
    cases hm
    exact ⟨c, rfl⟩

/-- two live next hops on one interface never share a gate -/
theorem gates_distinct (s : St) (h : Inv ifOf s) (i a b g g' : Nat)
    (ha : s.mods i a = some g) (hb : s.mods i b = some g') (hab : a ≠ b) : g ≠ g' := by
  obtain ⟨hia, ca, hna⟩ := mods_neigh s h i a g ha
  obtain ⟨hib, cb, hnb⟩ := mods_neigh s h i b g' hb
  exact h.gates a b g g' ca cb hna hnb hab (hia.symm.trans hib)

theorem key_inj_of_nodup : ∀ (l : List R), (l.map R.key).Nodup → ∀ a ∈ l, ∀ b ∈ l, a.key = b.key → a = b := by
  intro l
  induction l with
  | nil => intro _ a ha; cases ha
  | cons x xs ih =>
    intro hnd a ha b hb hk
    simp only [List.map_cons, List.nodup_cons] at hnd
    rcases List.mem_cons.mp ha with rfl | ha' <;> rcases List.mem_cons.mp hb with rfl | hb'
    · rfl
    · exact absurd (hk ▸ List.mem_map.mpr ⟨b, hb', rfl⟩) hnd.1
    · exact absurd (hk ▸ List.mem_map.mpr ⟨a, ha', rfl⟩) hnd.1
    · exact ih hnd.2 a ha' b hb' hk

/-- a lookup table holds at most one entry per (interface, prefix): bessd's `delete prefix` removes exactly the
route it was issued for, and `add` never replaces another route's entry -/
theorem table_keys_unique (s : St) (h : Inv ifOf s) (e e' : R × Nat) (he : e ∈ s.installed) (he' : e' ∈ s.installed)
    (hk : e.1.key = e'.1.key) : e.1 = e'.1 :=
  key_inj_of_nodup s.kernel h.keyN e.1 ((h.inst e.1).mp (List.mem_map.mpr ⟨e, he, rfl⟩)).1
    e'.1 ((h.inst e'.1).mp (List.mem_map.mpr ⟨e', he', rfl⟩)).1 hk

theorem table_delete_by_key (s : St) (h : Inv ifOf s) (r : R) (hr : r ∈ s.installed.map (·.1)) :
    s.installed.filter (fun e => e.1.key != r.key) = s.installed.filter (fun e => e.1 != r) := by
  obtain ⟨e0, he0, hr0⟩ := List.mem_map.mp hr
  have hr0 : e0.1 = r := hr0
  apply List.filter_congr
  intro e he
  by_cases hk : e.1.key = r.key
  · have := table_keys_unique s h e e0 he he0 (by rw [hr0]; exact hk)
    rw [hr0] at this
    rw [this]
    simp
  · have hne : e.1 ≠ r := fun x => hk (by rw [x])
    have h1 : (e.1.key != r.key) = true := bne_iff_ne.mpr hk
    have h2 : (e.1 != r) = true := bne_iff_ne.mpr hne
    rw [h1, h2]

theorem inv_init (known : Nat → Bool) : Inv ifOf (init known) := by
  constructor <;> simp [init, cnt]

theorem cnt_cons (nh : Nat) (e : R × Nat) (l : List (R × Nat)) :
    cnt nh (e :: l) = (if e.1.nh = nh then 1 else 0) + cnt nh l := by
  unfold cnt
  by_cases h : e.1.nh = nh <;> simp [h] <;> omega

/-- "weak" invariant used while a batch of pending routes is being installed:
    everything of Inv except the clauses about kernel/pending, which are re-established at the end -/
structure W (ifOf : Nat → Nat) (s : St) : Prop where
  instN : (s.installed.map (·.1)).Nodup
  ngh  : ∀ nh, match s.neigh nh with
               | some (g, c) => c = cnt nh s.installed ∧ 1 ≤ c ∧ g < s.gateCnt (ifOf nh) ∧
                                s.mods (ifOf nh) nh = some g ∧ (∀ e ∈ s.installed, e.1.nh = nh → e.2 = g)
               | none => cnt nh s.installed = 0 ∧ s.mods (ifOf nh) nh = none
  modsIf : ∀ i nh, i ≠ ifOf nh → s.mods i nh = none
  gates : ∀ a b g h c d, s.neigh a = some (g, c) → s.neigh b = some (h, d) → a ≠ b → ifOf a = ifOf b → g ≠ h

theorem Inv.toW {s : St} (h : Inv ifOf s) : W ifOf s := ⟨h.instN, h.ngh, h.modsIf, h.gates⟩

theorem w_addNeighbor (s : St) (r : R) (h : W ifOf s) (hnew : r ∉ s.installed.map (·.1))
    (hif : r.ifc = ifOf r.nh) : W ifOf (addNeighbor s r) := by
  unfold addNeighbor
  cases hn : s.neigh r.nh with
  | some gc =>
    obtain ⟨g, c⟩ := gc
    have hr := h.ngh r.nh
    rw [hn] at hr; simp only at hr
    obtain ⟨hc, h1, hg, hm, hall⟩ := hr
    refine ⟨?_, ?_, h.modsIf, ?_⟩
    · simp only [List.map_cons]; exact List.nodup_cons.mpr ⟨hnew, h.instN⟩
    · intro nh
      by_cases e : nh = r.nh
      · subst e
        simp only [if_true]
        refine ⟨?_, by omega, hg, hm, ?_⟩
        · rw [cnt_cons]; simp; omega
        · intro e he hen
          rcases List.mem_cons.mp he with rfl | he'
          · rfl
          · exact hall e he' hen
      · simp only [e, if_false]
        have := h.ngh nh
        have hne : ¬ r.nh = nh := fun x => e x.symm
        cases hnn : s.neigh nh with
        | none =>
          rw [hnn] at this; simp only at this ⊢
          exact ⟨by rw [cnt_cons]; simp [hne]; exact this.1, this.2⟩
        | some gc' =>
          obtain ⟨g', c'⟩ := gc'
          rw [hnn] at this; simp only at this ⊢
          obtain ⟨a1, a2, a3, a4, a5⟩ := this
          refine ⟨by rw [cnt_cons]; simp [hne]; exact a1, a2, a3, a4, ?_⟩
          intro e' he' hen'
          rcases List.mem_cons.mp he' with rfl | he''
          · exact absurd hen' hne
          · exact a5 e' he'' hen'
    · intro a b g1 g2 c1 c2 ha hb hab hiab
      simp only at ha hb
      by_cases ea : a = r.nh <;> by_cases eb : b = r.nh
      · exact absurd (ea.trans eb.symm) hab
      · simp only [ea, eb, if_true, if_false] at ha hb
        cases ha
        exact h.gates r.nh b _ _ _ _ hn hb (fun x => eb x.symm) (ea ▸ hiab)
      · simp only [ea, eb, if_true, if_false] at ha hb
        cases hb
        exact h.gates a r.nh _ _ _ _ ha hn ea (eb ▸ hiab)
      · simp only [ea, eb, if_false] at ha hb
        exact h.gates a b g1 g2 c1 c2 ha hb hab hiab
  | none =>
    have hr := h.ngh r.nh
    rw [hn] at hr; simp only at hr
    obtain ⟨hc0, hm0⟩ := hr
    -- every existing gate is below the counter of its interface
    have hbelow : ∀ a g c, s.neigh a = some (g, c) → g < s.gateCnt (ifOf a) := by
      intro a g c ha
      have := h.ngh a; rw [ha] at this; exact this.2.2.1
    refine ⟨?_, ?_, ?_, ?_⟩
    · simp only [List.map_cons]; exact List.nodup_cons.mpr ⟨hnew, h.instN⟩
    · intro nh
      by_cases e : nh = r.nh
      · subst e
        simp only [if_true, ← hif, and_self]
        refine ⟨by rw [cnt_cons]; simp; omega, by omega, by omega, trivial, ?_⟩
        intro e he hen
        rcases List.mem_cons.mp he with rfl | he'
        · rfl
        · have := cnt_pos_of_mem he' hen; omega
      · simp only [e, if_false, and_false]
        have := h.ngh nh
        have hne : ¬ r.nh = nh := fun x => e x.symm
        cases hnn : s.neigh nh with
        | none =>
          rw [hnn] at this; simp only at this ⊢
          exact ⟨by rw [cnt_cons]; simp [hne]; exact this.1, this.2⟩
        | some gc' =>
          obtain ⟨g', c'⟩ := gc'
          rw [hnn] at this; simp only at this ⊢
          obtain ⟨a1, a2, a3, a4, a5⟩ := this
          refine ⟨by rw [cnt_cons]; simp [hne]; exact a1, a2, ?_, a4, ?_⟩
          · by_cases hi : ifOf nh = r.ifc
            · simp only [hi, if_true]; rw [hi] at a3; omega
            · simp only [hi, if_false]; exact a3
          · intro e' he' hen'
            rcases List.mem_cons.mp he' with rfl | he''
            · exact absurd hen' hne
            · exact a5 e' he'' hen'
    · intro i nh hne
      by_cases hc : i = r.ifc ∧ nh = r.nh
      · exact absurd (by rw [hc.1, hc.2, hif]) hne
      · simp only [hc, if_false]; exact h.modsIf i nh hne
    · intro a b g1 g2 c1 c2 ha hb hab hiab
      simp only at ha hb
      by_cases ea : a = r.nh <;> by_cases eb : b = r.nh
      · exact absurd (ea.trans eb.symm) hab
      · simp only [ea, eb, if_true, if_false] at ha hb
        cases ha
        have := hbelow b g2 c2 hb
        rw [← hiab, ea, ← hif] at this; omega
      · simp only [ea, eb, if_true, if_false] at ha hb
        cases hb
        have := hbelow a g1 c1 ha
        rw [hiab, eb, ← hif] at this; omega
      · simp only [ea, eb, if_false] at ha hb
        exact h.gates a b g1 g2 c1 c2 ha hb hab hiab

/-- addNeighbor only adds `r` to the installed routes and leaves kernel/known/pending alone -/
theorem addNeighbor_fields (s : St) (r : R) :
    (addNeighbor s r).kernel = s.kernel ∧ (addNeighbor s r).known = s.known ∧
    (addNeighbor s r).pending = s.pending ∧
    (addNeighbor s r).installed.map (·.1) = r :: s.installed.map (·.1) := by
  unfold addNeighbor
  cases s.neigh r.nh with
  | none => simp
  | some gc => obtain ⟨g, c⟩ := gc; simp

theorem inv_newRoute (s : St) (r : R) (h : Inv ifOf s) (hif : r.ifc = ifOf r.nh)
    (hkey : r.key ∉ s.kernel.map R.key) : Inv ifOf (newRoute s r) := by
  have hfresh : r ∉ s.kernel := fun hin => hkey (List.mem_map.mpr ⟨r, hin, rfl⟩)
  have hkif : ∀ x ∈ r :: s.kernel, x.ifc = ifOf x.nh := by
    intro x hx
    rcases List.mem_cons.mp hx with rfl | hx'
    · exact hif
    · exact h.kif x hx'
  have hkeyN : ((r :: s.kernel).map R.key).Nodup := by
    simp only [List.map_cons]; exact List.nodup_cons.mpr ⟨hkey, h.keyN⟩
  unfold newRoute
  simp only
  have hnot : r ∉ s.installed.map (·.1) := fun hin => hfresh ((h.inst r).mp hin).1
  split
  · rename_i hk
    have hk' : s.known r.nh = true := hk
    have w1 : W ifOf { s with kernel := r :: s.kernel } := ⟨h.instN, h.ngh, h.modsIf, h.gates⟩
    have w2 := w_addNeighbor { s with kernel := r :: s.kernel } r w1 hnot hif
    obtain ⟨f1, f2, f3, f4⟩ := addNeighbor_fields { s with kernel := r :: s.kernel } r
    simp only at f1 f2 f3 f4
    refine ⟨?_, by rw [f1]; exact hkif, by rw [f1]; exact hkeyN, ?_, w2.instN, ?_, by rw [f3]; exact h.pendN,
      w2.ngh, w2.modsIf, w2.gates⟩
    · rw [f1]; exact List.nodup_cons.mpr ⟨hfresh, h.kn⟩
    · intro x
      rw [f4, f1, f2]
      simp only [List.mem_cons]
      constructor
      · rintro (rfl | hx)
        · exact ⟨Or.inl rfl, hk'⟩
        · have := (h.inst x).mp hx; exact ⟨Or.inr this.1, this.2⟩
      · rintro ⟨rfl | hx, hkn⟩
        · exact Or.inl rfl
        · exact Or.inr ((h.inst x).mpr ⟨hx, hkn⟩)
    · intro x
      rw [f3, f1, f2]
      simp only [List.mem_cons]
      constructor
      · intro hx; have := (h.pend x).mp hx; exact ⟨Or.inr this.1, this.2⟩
      · rintro ⟨rfl | hx, hkn⟩
        · rw [hk'] at hkn; cases hkn
        · exact (h.pend x).mpr ⟨hx, hkn⟩
  · rename_i hk
    have hk' : s.known r.nh = false := by cases h' : s.known r.nh <;> simp_all
    have hnp : r ∉ s.pending := fun hin => hfresh ((h.pend r).mp hin).1
    refine ⟨List.nodup_cons.mpr ⟨hfresh, h.kn⟩, hkif, hkeyN, ?_, h.instN, ?_, ?_, h.ngh, h.modsIf, h.gates⟩
    · intro x
      simp only [List.mem_cons]
      constructor
      · intro hx; have := (h.inst x).mp hx; exact ⟨Or.inr this.1, this.2⟩
      · rintro ⟨rfl | hx, hkn⟩
        · rw [hk'] at hkn; cases hkn
        · exact (h.inst x).mpr ⟨hx, hkn⟩
    · intro x
      simp only [List.mem_append, List.mem_cons, List.not_mem_nil, or_false]
      constructor
      · rintro (hx | rfl)
        · have := (h.pend x).mp hx; exact ⟨Or.inr this.1, this.2⟩
        · exact ⟨Or.inl rfl, hk'⟩
      · rintro ⟨rfl | hx, hkn⟩
        · exact Or.inr rfl
        · exact Or.inl ((h.pend x).mpr ⟨hx, hkn⟩)
    · show (s.pending ++ [r]).Nodup
      rw [List.nodup_append]
      refine ⟨h.pendN, by simp, ?_⟩
      intro a ha b hb
      simp only [List.mem_singleton] at hb
      subst hb
      exact fun e => hnp (e ▸ ha)

/-- installing a batch of routes one by one -/
theorem w_fold : ∀ (batch : List R) (s : St), W ifOf s → (∀ x ∈ batch, x ∉ s.installed.map (·.1)) → batch.Nodup →
    (∀ x ∈ batch, x.ifc = ifOf x.nh) →
    W ifOf (batch.foldl addNeighbor s) ∧ (batch.foldl addNeighbor s).kernel = s.kernel ∧
    (batch.foldl addNeighbor s).known = s.known ∧ (batch.foldl addNeighbor s).pending = s.pending ∧
    (∀ x, x ∈ (batch.foldl addNeighbor s).installed.map (·.1) ↔ (x ∈ batch ∨ x ∈ s.installed.map (·.1))) := by
  intro batch
  induction batch with
  | nil => intro s h _ _ _; simp [h]
  | cons b bs ih =>
    intro s h hnot hnd hifs
    obtain ⟨f1, f2, f3, f4⟩ := addNeighbor_fields s b
    have hb : b ∉ s.installed.map (·.1) := hnot b List.mem_cons_self
    have w1 := w_addNeighbor s b h hb (hifs b List.mem_cons_self)
    have hnd' := List.nodup_cons.mp hnd
    have hnot' : ∀ x ∈ bs, x ∉ (addNeighbor s b).installed.map (·.1) := by
      intro x hx
      rw [f4]
      simp only [List.mem_cons, not_or]
      exact ⟨fun e => hnd'.1 (e ▸ hx), hnot x (List.mem_cons_of_mem _ hx)⟩
    obtain ⟨g0, g1, g2, g3, g4⟩ := ih (addNeighbor s b) w1 hnot' hnd'.2
      (fun x hx => hifs x (List.mem_cons_of_mem _ hx))
    refine ⟨g0, by rw [List.foldl_cons, g1, f1], by rw [List.foldl_cons, g2, f2], by rw [List.foldl_cons, g3, f3], ?_⟩
    intro x
    rw [List.foldl_cons, g4 x, f4]
    simp only [List.mem_cons]
    constructor
    · rintro (h1 | rfl | h3)
      · exact Or.inl (Or.inr h1)
      · exact Or.inl (Or.inl rfl)
      · exact Or.inr h3
    · rintro ((rfl | h1) | h3)
      · exact Or.inr (Or.inl rfl)
      · exact Or.inl h1
      · exact Or.inr (Or.inr h3)

theorem inv_newNeigh (s : St) (nh : Nat) (h : Inv ifOf s) : Inv ifOf (newNeigh s nh) := by
  unfold newNeigh
  simp only
  -- the batch: pending routes through nh
  have hbatch_nd : (s.pending.filter (fun r => r.nh == nh)).Nodup := (List.filter_sublist.nodup h.pendN)
  have hbatch_not : ∀ x ∈ s.pending.filter (fun r => r.nh == nh), x ∉ s.installed.map (·.1) := by
    intro x hx hin
    have h1 := (h.pend x).mp (List.mem_filter.mp hx).1
    have h2 := (h.inst x).mp hin
    rw [h1.2] at h2; cases h2.2
  have hbatch_if : ∀ x ∈ s.pending.filter (fun r => r.nh == nh), x.ifc = ifOf x.nh := by
    intro x hx
    exact h.kif x ((h.pend x).mp (List.mem_filter.mp hx).1).1
  obtain ⟨w, k1, k2, k3, k4⟩ := w_fold (s.pending.filter (fun r => r.nh == nh))
    { s with known := fun x => if x = nh then true else s.known x,
             pending := s.pending.filter (fun r => r.nh != nh) }
    ⟨h.instN, h.ngh, h.modsIf, h.gates⟩ hbatch_not hbatch_nd hbatch_if
  simp only at k1 k2 k3 k4
  refine ⟨by rw [k1]; exact h.kn, by rw [k1]; exact h.kif, by rw [k1]; exact h.keyN, ?_, w.instN, ?_,
    by rw [k3]; exact (List.filter_sublist.nodup h.pendN), w.ngh, w.modsIf, w.gates⟩
  · intro x
    rw [k4 x, k1, k2]
    simp only [List.mem_filter, beq_iff_eq]
    constructor
    · rintro (⟨hp, hn⟩ | hi)
      · exact ⟨((h.pend x).mp hp).1, by simp [hn]⟩
      · have := (h.inst x).mp hi
        refine ⟨this.1, ?_⟩
        by_cases e : x.nh = nh <;> simp [e, this.2]
    · rintro ⟨hk, hkn⟩
      by_cases hold : s.known x.nh = true
      · exact Or.inr ((h.inst x).mpr ⟨hk, hold⟩)
      · have hf : s.known x.nh = false := by cases h' : s.known x.nh <;> simp_all
        have hxn : x.nh = nh := by
          by_cases e : x.nh = nh
          · exact e
          · simp [e, hf] at hkn
        exact Or.inl ⟨(h.pend x).mpr ⟨hk, hf⟩, hxn⟩
  · intro x
    rw [k3, k1, k2]
    simp only [List.mem_filter, bne_iff_ne, ne_eq]
    constructor
    · rintro ⟨hp, hn⟩
      have := (h.pend x).mp hp
      exact ⟨this.1, by simp [hn, this.2]⟩
    · rintro ⟨hk, hkn⟩
      have hne : ¬ x.nh = nh := by intro e; simp [e] at hkn
      have hf : s.known x.nh = false := by simpa [hne] using hkn
      exact ⟨(h.pend x).mpr ⟨hk, hf⟩, hne⟩

theorem cnt_filter_ne (nh : Nat) (r : R) : ∀ (l : List (R × Nat)), (l.map (·.1)).Nodup →
    cnt nh (l.filter (fun e => e.1 != r)) + (if r ∈ l.map (·.1) ∧ r.nh = nh then 1 else 0) = cnt nh l := by
  intro l
  induction l with
  | nil => intro _; simp [cnt]
  | cons e es ih =>
    intro hnd
    simp only [List.map_cons, List.nodup_cons] at hnd
    have := ih hnd.2
    by_cases he : e.1 = r
    · -- e is the removed entry; r is not in the rest
      have hnr : r ∉ es.map (·.1) := he ▸ hnd.1
      have hf : (e :: es).filter (fun x => x.1 != r) = es.filter (fun x => x.1 != r) := by
        simp [he]
      rw [hf, cnt_cons]
      simp only [hnr, false_and, if_false, Nat.add_zero] at this
      rw [this]
      simp only [List.map_cons, List.mem_cons, he, true_or, true_and]
      by_cases hn : r.nh = nh <;> simp [hn] <;> omega
    · have hf : (e :: es).filter (fun x => x.1 != r) = e :: es.filter (fun x => x.1 != r) := by
        simp [he]
      rw [hf, cnt_cons, cnt_cons]
      have hmem : (r ∈ (e :: es).map (·.1)) ↔ r ∈ es.map (·.1) := by
        simp only [List.map_cons, List.mem_cons]
        exact ⟨fun h => h.elim (fun x => absurd x.symm he) id, Or.inr⟩
      simp only [hmem]
      omega

theorem delRoute_none (s : St) (r : R) (h : s.neigh r.nh = none) :
    delRoute s r = { s with kernel := s.kernel.erase r, pending := s.pending.erase r } := by
  simp [delRoute, h]

theorem delRoute_one (s : St) (r : R) (g : Nat) (h : s.neigh r.nh = some (g, 1)) :
    delRoute s r = { s with kernel := s.kernel.erase r,
                            installed := s.installed.filter (fun e => e.1 != r),
                            mods := fun i x => if i = r.ifc ∧ x = r.nh then none else s.mods i x,
                            neigh := fun x => if x = r.nh then none else s.neigh x } := by
  simp [delRoute, h]

theorem delRoute_many (s : St) (r : R) (g c : Nat) (h : s.neigh r.nh = some (g, c)) (hc : c ≠ 1) :
    delRoute s r = { s with kernel := s.kernel.erase r,
                            installed := s.installed.filter (fun e => e.1 != r),
                            neigh := fun x => if x = r.nh then some (g, c - 1) else s.neigh x } := by
  simp [delRoute, h, hc]

theorem inv_delRoute (s : St) (r : R) (h : Inv ifOf s) (hin : r ∈ s.kernel) : Inv ifOf (delRoute s r) := by
  have hkn' : (s.kernel.erase r).Nodup := h.kn.erase r
  have hmem_erase : ∀ x, x ∈ s.kernel.erase r ↔ (x ∈ s.kernel ∧ x ≠ r) := by
    intro x; rw [h.kn.mem_erase_iff]; exact ⟨fun ⟨a, b⟩ => ⟨b, a⟩, fun ⟨a, b⟩ => ⟨b, a⟩⟩
  have hkif' : ∀ x ∈ s.kernel.erase r, x.ifc = ifOf x.nh := fun x hx => h.kif x ((hmem_erase x).mp hx).1
  have hkeyN' : ((s.kernel.erase r).map R.key).Nodup :=
    (List.Sublist.map _ List.erase_sublist).nodup h.keyN
  have hrif : r.ifc = ifOf r.nh := h.kif r hin
  have hr := h.ngh r.nh
  cases hn : s.neigh r.nh with
  | none =>
    rw [delRoute_none s r hn]
    rw [hn] at hr; simp only at hr
    have hni : r ∉ s.installed.map (·.1) := by
      intro hi
      obtain ⟨e, he, rfl⟩ := List.mem_map.mp hi
      have := cnt_pos_of_mem he rfl; omega
    have hunk : s.known r.nh = false := by
      cases hk : s.known r.nh
      · rfl
      · exact absurd ((h.inst r).mpr ⟨hin, hk⟩) hni
    refine ⟨hkn', hkif', hkeyN', ?_, h.instN, ?_, h.pendN.erase r, h.ngh, h.modsIf, h.gates⟩
    · intro x
      show x ∈ s.installed.map (·.1) ↔ (x ∈ s.kernel.erase r ∧ s.known x.nh = true)
      rw [hmem_erase]
      constructor
      · intro hx
        have := (h.inst x).mp hx
        exact ⟨⟨this.1, fun e => hni (e ▸ hx)⟩, this.2⟩
      · rintro ⟨⟨hk, _⟩, hkn⟩; exact (h.inst x).mpr ⟨hk, hkn⟩
    · intro x
      show x ∈ s.pending.erase r ↔ (x ∈ s.kernel.erase r ∧ s.known x.nh = false)
      rw [h.pendN.mem_erase_iff, hmem_erase]
      constructor
      · rintro ⟨hne, hp⟩; have := (h.pend x).mp hp; exact ⟨⟨this.1, hne⟩, this.2⟩
      · rintro ⟨⟨hk, hne⟩, hkn⟩; exact ⟨hne, (h.pend x).mpr ⟨hk, hkn⟩⟩
  | some gc =>
    obtain ⟨g, c⟩ := gc
    rw [hn] at hr; simp only at hr
    obtain ⟨hc, h1, hg, hm, hall⟩ := hr
    have hknown : s.known r.nh = true := by
      obtain ⟨e, he, hen⟩ := exists_of_cnt_pos (by omega : 1 ≤ cnt r.nh s.installed)
      have := (h.inst e.1).mp (List.mem_map.mpr ⟨e, he, rfl⟩)
      rw [hen] at this; exact this.2
    have hri : r ∈ s.installed.map (·.1) := (h.inst r).mpr ⟨hin, hknown⟩
    have hnp : r ∉ s.pending := fun hp => by
      have := (h.pend r).mp hp; rw [hknown] at this; cases this.2
    have hcf := fun nh => cnt_filter_ne nh r s.installed h.instN
    have hinstN' : ((s.installed.filter (fun e => e.1 != r)).map (·.1)).Nodup :=
      (List.Sublist.map _ List.filter_sublist).nodup h.instN
    have hinst' : ∀ x, x ∈ (s.installed.filter (fun e => e.1 != r)).map (·.1) ↔
        (x ∈ s.kernel.erase r ∧ s.known x.nh = true) := by
      intro x
      rw [hmem_erase]
      simp only [List.mem_map, List.mem_filter, bne_iff_ne, ne_eq]
      constructor
      · rintro ⟨e, ⟨he, hne⟩, rfl⟩
        have := (h.inst e.1).mp (List.mem_map.mpr ⟨e, he, rfl⟩)
        exact ⟨⟨this.1, hne⟩, this.2⟩
      · rintro ⟨⟨hk, hne⟩, hkn⟩
        obtain ⟨e, he, rfl⟩ := List.mem_map.mp ((h.inst x).mpr ⟨hk, hkn⟩)
        exact ⟨e, ⟨he, hne⟩, rfl⟩
    have hpend' : ∀ x, x ∈ s.pending ↔ (x ∈ s.kernel.erase r ∧ s.known x.nh = false) := by
      intro x
      rw [hmem_erase]
      constructor
      · intro hp; have := (h.pend x).mp hp; exact ⟨⟨this.1, fun e => hnp (e ▸ hp)⟩, this.2⟩
      · rintro ⟨⟨hk, _⟩, hkn⟩; exact (h.pend x).mpr ⟨hk, hkn⟩
    have hsub : ∀ e ∈ s.installed.filter (fun e => e.1 != r), e ∈ s.installed :=
      fun e he => (List.mem_filter.mp he).1
    -- the counts of the other next hops are untouched
    have hother : ∀ nh, nh ≠ r.nh → cnt nh (s.installed.filter (fun e => e.1 != r)) = cnt nh s.installed := by
      intro nh e
      have hne : ¬ r.nh = nh := fun x => e x.symm
      have hcn := hcf nh
      simp only [hne, and_false, if_false, Nat.add_zero] at hcn
      exact hcn
    have hmine : cnt r.nh (s.installed.filter (fun e => e.1 != r)) + 1 = cnt r.nh s.installed := by
      have := hcf r.nh
      simpa [hri] using this
    have hrest : ∀ nh, nh ≠ r.nh →
        match s.neigh nh with
        | some (g', c') => c' = cnt nh (s.installed.filter (fun e => e.1 != r)) ∧ 1 ≤ c' ∧ g' < s.gateCnt (ifOf nh) ∧
              s.mods (ifOf nh) nh = some g' ∧ (∀ e ∈ s.installed.filter (fun e => e.1 != r), e.1.nh = nh → e.2 = g')
        | none => cnt nh (s.installed.filter (fun e => e.1 != r)) = 0 ∧ s.mods (ifOf nh) nh = none := by
      intro nh e
      have := h.ngh nh
      cases hnn : s.neigh nh with
      | none => rw [hnn] at this; simp only at this ⊢; exact ⟨by rw [hother nh e]; exact this.1, this.2⟩
      | some gc' =>
        obtain ⟨g', c'⟩ := gc'
        rw [hnn] at this; simp only at this ⊢
        obtain ⟨a1, a2, a3, a4, a5⟩ := this
        exact ⟨by rw [hother nh e]; exact a1, a2, a3, a4, fun e' he' hen' => a5 e' (hsub e' he') hen'⟩
    by_cases hc1 : c = 1
    · subst hc1
      rw [delRoute_one s r g hn]
      refine ⟨hkn', hkif', hkeyN', hinst', hinstN', hpend', h.pendN, ?_, ?_, ?_⟩
      · intro nh
        by_cases e : nh = r.nh
        · subst e
          simp only [if_true, ← hrif, and_self]
          exact ⟨by omega, trivial⟩
        · simp only [e, if_false, and_false]
          exact hrest nh e
      · intro i nh hne
        by_cases hcnd : i = r.ifc ∧ nh = r.nh
        · simp only [hcnd, and_self, if_true]
        · simp only [hcnd, if_false]; exact h.modsIf i nh hne
      · intro a b g1 g2 c1 c2 ha hb hab hiab
        simp only at ha hb
        by_cases ea : a = r.nh
        · simp [ea] at ha
        · by_cases eb : b = r.nh
          · simp [eb] at hb
          · simp only [ea, eb, if_false] at ha hb
            exact h.gates a b g1 g2 c1 c2 ha hb hab hiab
    · rw [delRoute_many s r g c hn hc1]
      refine ⟨hkn', hkif', hkeyN', hinst', hinstN', hpend', h.pendN, ?_, h.modsIf, ?_⟩
      · intro nh
        by_cases e : nh = r.nh
        · subst e
          simp only [if_true]
          exact ⟨by omega, by omega, hg, hm, fun e' he' hen' => hall e' (hsub e' he') hen'⟩
        · simp only [e, if_false]
          exact hrest nh e
      · intro a b g1 g2 c1 c2 ha hb hab hiab
        simp only at ha hb
        by_cases ea : a = r.nh <;> by_cases eb : b = r.nh
        · exact absurd (ea.trans eb.symm) hab
        · simp only [ea, eb, if_true, if_false] at ha hb
          cases ha
          exact h.gates r.nh b _ _ _ _ hn hb (fun x => eb x.symm) (ea ▸ hiab)
        · simp only [ea, eb, if_true, if_false] at ha hb
          cases hb
          exact h.gates a r.nh _ _ _ _ ha hn ea (eb ▸ hiab)
        · simp only [ea, eb, if_false] at ha hb
          exact h.gates a b g1 g2 c1 c2 ha hb hab hiab

theorem inv_step (s : St) (e : Ev) (h : Inv ifOf s) (hok : e.ok ifOf s) : Inv ifOf (step s e) := by
  cases e with
  | newRoute r => exact inv_newRoute s r h hok.1 hok.2
  | delRoute r => exact inv_delRoute s r h hok
  | newNeigh nh => exact inv_newNeigh s nh h

/-- every reachable state satisfies the invariant -/
theorem reach_inv {s : St} (h : Reach ifOf s) : Inv ifOf s := by
  induction h with
  | init known => exact inv_init known
  | @step s e _ hok ih => exact inv_step s e ih hok

/-- the same for explicit event sequences -/
theorem run_inv : ∀ (evs : List Ev) (s : St), Inv ifOf s → Valid ifOf s evs → Inv ifOf (run s evs) := by
  intro evs
  induction evs with
  | nil => intro s h _; exact h
  | cons e es ih =>
    intro s h hv
    exact ih (step s e) (inv_step s e h hv.1) hv.2

theorem run_reach : ∀ (evs : List Ev) (s : St), Reach ifOf s → Valid ifOf s evs → Reach ifOf (run s evs) := by
  intro evs
  induction evs with
  | nil => intro s h _; exact h
  | cons e es ih =>
    intro s h hv
    exact ih (step s e) (Reach.step h hv.1) hv.2

theorem valid_append : ∀ (evs evs' : List Ev) (s : St), Valid ifOf s evs → Valid ifOf (run s evs) evs' →
    Valid ifOf s (evs ++ evs') := by
  intro evs
  induction evs with
  | nil => intro evs' s _ h; exact h
  | cons e es ih =>
    intro evs' s hv h
    exact ⟨hv.1, ih evs' (step s e) hv.2 h⟩

theorem foldl_addNeighbor_env : ∀ (batch : List R) (s : St),
    (batch.foldl addNeighbor s).kernel = s.kernel ∧ (batch.foldl addNeighbor s).known = s.known := by
  intro batch
  induction batch with
  | nil => intro s; exact ⟨rfl, rfl⟩
  | cons b bs ih =>
    intro s
    obtain ⟨f1, f2, _, _⟩ := addNeighbor_fields s b
    obtain ⟨g1, g2⟩ := ih (addNeighbor s b)
    exact ⟨by rw [List.foldl_cons, g1, f1], by rw [List.foldl_cons, g2, f2]⟩

/-- the environment components follow the events, whatever the controller does -/
theorem step_env (s : St) (e : Ev) :
    (step s e).kernel = kernelStep s.kernel e ∧ (step s e).known = knownStep s.known e := by
  cases e with
  | newRoute r =>
    simp only [step, newRoute, kernelStep, knownStep]
    split
    · obtain ⟨f1, f2, _, _⟩ := addNeighbor_fields { s with kernel := r :: s.kernel } r
      exact ⟨f1, f2⟩
    · exact ⟨rfl, rfl⟩
  | delRoute r =>
    simp only [step, kernelStep, knownStep]
    cases hn : s.neigh r.nh with
    | none => rw [delRoute_none s r hn]; exact ⟨rfl, rfl⟩
    | some gc =>
      obtain ⟨g, c⟩ := gc
      by_cases hc : c = 1
      · subst hc; rw [delRoute_one s r g hn]; exact ⟨rfl, rfl⟩
      · rw [delRoute_many s r g c hn hc]; exact ⟨rfl, rfl⟩
  | newNeigh nh =>
    simp only [step, newNeigh, kernelStep, knownStep]
    obtain ⟨g1, g2⟩ := foldl_addNeighbor_env (s.pending.filter (fun r => r.nh == nh))
      { s with known := fun x => if x = nh then true else s.known x,
               pending := s.pending.filter (fun r => r.nh != nh) }
    exact ⟨g1, g2⟩

theorem run_env : ∀ (evs : List Ev) (s : St),
    (run s evs).kernel = evs.foldl kernelStep s.kernel ∧ (run s evs).known = evs.foldl knownStep s.known := by
  intro evs
  induction evs with
  | nil => intro s; exact ⟨rfl, rfl⟩
  | cons e es ih =>
    intro s
    obtain ⟨h1, h2⟩ := ih (step s e)
    obtain ⟨s1, s2⟩ := step_env s e
    exact ⟨by simp only [run, List.foldl_cons] at h1 ⊢; rw [h1, s1],
           by simp only [run, List.foldl_cons] at h2 ⊢; rw [h2, s2]⟩

end Route
