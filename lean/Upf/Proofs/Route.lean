import Upf.Model.Route

namespace Route

theorem installed_iff (s : St) (h : Inv s) (r : R) :
    r ∈ s.installed.map (·.1) ↔ (r ∈ s.kernel ∧ s.known r.nh = true) := h.inst r

theorem cnt_pos_of_mem {nh : Nat} {l : List (R × Nat)} {e : R × Nat} (he : e ∈ l) (hn : e.1.nh = nh) :
    1 ≤ cnt nh l := by
  unfold cnt
  have : e ∈ l.filter (fun e => e.1.nh == nh) := List.mem_filter.mpr ⟨he, by simp [hn]⟩
  exact List.length_pos_of_mem this

/-- a MAC-rewrite module exists iff some installed route uses it, and that route points at its gate -/
theorem module_iff_used (s : St) (h : Inv s) (nh : Nat) :
    (s.mods nh).isSome ↔ ∃ e ∈ s.installed, e.1.nh = nh := by
  have := h.ngh nh
  cases hn : s.neigh nh with
  | none =>
    rw [hn] at this
    simp only at this
    rw [this.2]
    constructor
    · intro h; cases h
    · rintro ⟨e, he, hen⟩
      have := cnt_pos_of_mem he hen
      omega
  | some gc =>
    obtain ⟨g, c⟩ := gc
    rw [hn] at this
    simp only at this
    obtain ⟨hc, h1, _, hm, _⟩ := this
    rw [hm]
    refine ⟨fun _ => ?_, fun _ => rfl⟩
    have : 0 < (s.installed.filter (fun e => e.1.nh == nh)).length := by unfold cnt at hc; omega
    obtain ⟨e, he⟩ := List.exists_mem_of_length_pos this
    have := List.mem_filter.mp he
    exact ⟨e, this.1, by simpa using this.2⟩

/-- all routes through one next hop share its gate; two live next hops never share a gate -/
theorem shared_gate (s : St) (h : Inv s) (e : R × Nat) (he : e ∈ s.installed) :
    s.mods e.1.nh = some e.2 := by
  have := h.ngh e.1.nh
  cases hn : s.neigh e.1.nh with
  | none =>
    rw [hn] at this; simp only at this
    have := cnt_pos_of_mem he rfl
    omega
  | some gc =>
    obtain ⟨g, c⟩ := gc
    rw [hn] at this; simp only at this
    rw [this.2.2.2.1, this.2.2.2.2 e he rfl]

theorem inv_init : Inv { kernel := [], known := fun _ => false, neigh := fun _ => none, pending := [],
                         gateCnt := 0, installed := [], mods := fun _ => none } := by
  constructor <;> simp [cnt]

end Route

namespace Route

theorem cnt_cons (nh : Nat) (e : R × Nat) (l : List (R × Nat)) :
    cnt nh (e :: l) = (if e.1.nh = nh then 1 else 0) + cnt nh l := by
  unfold cnt
  by_cases h : e.1.nh = nh <;> simp [List.filter_cons, h] <;> omega

theorem Inv.toW {s : St} (h : Inv s) : W s := ⟨h.instN, h.ngh, h.gates⟩

theorem w_addNeighbor (s : St) (r : R) (h : W s) (hnew : r ∉ s.installed.map (·.1)) : W (addNeighbor s r) := by
  unfold addNeighbor
  cases hn : s.neigh r.nh with
  | some gc =>
    obtain ⟨g, c⟩ := gc
    have hr := h.ngh r.nh
    rw [hn] at hr; simp only at hr
    obtain ⟨hc, h1, hg, hm, hall⟩ := hr
    refine ⟨?_, ?_, ?_⟩
    · simp only [List.map_cons]; exact List.nodup_cons.mpr ⟨hnew, h.instN⟩
    · intro nh
      by_cases e : nh = r.nh
      · subst e
        simp only [if_true]
        refine ⟨?_, by omega, hg, hm, ?_⟩
        · rw [cnt_cons]; simp; omega
        · intro e he hen
          rcases List.mem_cons.mp he with rfl | he'
          · rfl
          · exact hall e he' hen
      · simp only [e, if_false]
        have := h.ngh nh
        have hne : ¬ r.nh = nh := fun x => e x.symm
        cases hnn : s.neigh nh with
        | none =>
          rw [hnn] at this; simp only at this ⊢
          exact ⟨by rw [cnt_cons]; simp [hne]; exact this.1, this.2⟩
        | some gc' =>
          obtain ⟨g', c'⟩ := gc'
          rw [hnn] at this; simp only at this ⊢
          obtain ⟨a1, a2, a3, a4, a5⟩ := this
          refine ⟨by rw [cnt_cons]; simp [hne]; exact a1, a2, a3, a4, ?_⟩
          intro e' he' hen'
          rcases List.mem_cons.mp he' with rfl | he''
          · exact absurd hen' hne
          · exact a5 e' he'' hen'
    · intro a b g1 g2 c1 c2 ha hb hab
      simp only at ha hb
      by_cases ea : a = r.nh <;> by_cases eb : b = r.nh
      · exact absurd (ea.trans eb.symm) hab
      · simp only [ea, eb, if_true, if_false] at ha hb
        cases ha
        exact h.gates r.nh b _ _ _ _ hn hb (fun x => eb x.symm)
      · simp only [ea, eb, if_true, if_false] at ha hb
        cases hb
        exact h.gates a r.nh _ _ _ _ ha hn ea
      · simp only [ea, eb, if_false] at ha hb
        exact h.gates a b g1 g2 c1 c2 ha hb hab
  | none =>
    have hr := h.ngh r.nh
    rw [hn] at hr; simp only at hr
    obtain ⟨hc0, hm0⟩ := hr
    -- every existing gate is below gateCnt
    have hbelow : ∀ a g c, s.neigh a = some (g, c) → g < s.gateCnt := by
      intro a g c ha
      have := h.ngh a; rw [ha] at this; exact this.2.2.1
    refine ⟨?_, ?_, ?_⟩
    · simp only [List.map_cons]; exact List.nodup_cons.mpr ⟨hnew, h.instN⟩
    · intro nh
      by_cases e : nh = r.nh
      · subst e
        simp only [if_true]
        refine ⟨by rw [cnt_cons]; simp; omega, by omega, by omega, by simp, ?_⟩
        intro e he hen
        rcases List.mem_cons.mp he with rfl | he'
        · rfl
        · have := cnt_pos_of_mem he' hen; omega
      · simp only [e, if_false]
        have := h.ngh nh
        have hne : ¬ r.nh = nh := fun x => e x.symm
        cases hnn : s.neigh nh with
        | none =>
          rw [hnn] at this; simp only at this ⊢
          exact ⟨by rw [cnt_cons]; simp [hne]; exact this.1, this.2⟩
        | some gc' =>
          obtain ⟨g', c'⟩ := gc'
          rw [hnn] at this; simp only at this ⊢
          obtain ⟨a1, a2, a3, a4, a5⟩ := this
          refine ⟨by rw [cnt_cons]; simp [hne]; exact a1, a2, by omega, a4, ?_⟩
          intro e' he' hen'
          rcases List.mem_cons.mp he' with rfl | he''
          · exact absurd hen' hne
          · exact a5 e' he'' hen'
    · intro a b g1 g2 c1 c2 ha hb hab
      simp only at ha hb
      by_cases ea : a = r.nh <;> by_cases eb : b = r.nh
      · exact absurd (ea.trans eb.symm) hab
      · simp only [ea, eb, if_true, if_false] at ha hb
        cases ha
        have := hbelow b g2 c2 hb; omega
      · simp only [ea, eb, if_true, if_false] at ha hb
        cases hb
        have := hbelow a g1 c1 ha; omega
      · simp only [ea, eb, if_false] at ha hb
        exact h.gates a b g1 g2 c1 c2 ha hb hab

/-- addNeighbor only adds `r` to the installed routes and leaves kernel/known/pending alone -/
theorem addNeighbor_fields (s : St) (r : R) :
    (addNeighbor s r).kernel = s.kernel ∧ (addNeighbor s r).known = s.known ∧
    (addNeighbor s r).pending = s.pending ∧
    (addNeighbor s r).installed.map (·.1) = r :: s.installed.map (·.1) := by
  unfold addNeighbor
  cases s.neigh r.nh with
  | none => simp
  | some gc => obtain ⟨g, c⟩ := gc; simp

theorem inv_newRoute (s : St) (r : R) (h : Inv s) (hfresh : r ∉ s.kernel) : Inv (newRoute s r) := by
  unfold newRoute
  simp only
  have hnot : r ∉ s.installed.map (·.1) := fun hin => hfresh ((h.inst r).mp hin).1
  split
  · rename_i hk
    have hk' : s.known r.nh = true := hk
    have w1 : W { s with kernel := r :: s.kernel } := ⟨h.instN, h.ngh, h.gates⟩
    have w2 := w_addNeighbor { s with kernel := r :: s.kernel } r w1 hnot
    obtain ⟨f1, f2, f3, f4⟩ := addNeighbor_fields { s with kernel := r :: s.kernel } r
    simp only at f1 f2 f3 f4
    refine ⟨?_, ?_, w2.instN, ?_, by rw [f3]; exact h.pendN, w2.ngh, w2.gates⟩
    · rw [f1]; exact List.nodup_cons.mpr ⟨hfresh, h.kn⟩
    · intro x
      rw [f4, f1, f2]
      simp only [List.mem_cons]
      constructor
      · rintro (rfl | hx)
        · exact ⟨Or.inl rfl, hk'⟩
        · have := (h.inst x).mp hx; exact ⟨Or.inr this.1, this.2⟩
      · rintro ⟨rfl | hx, hkn⟩
        · exact Or.inl rfl
        · exact Or.inr ((h.inst x).mpr ⟨hx, hkn⟩)
    · intro x
      rw [f3, f1, f2]
      simp only [List.mem_cons]
      constructor
      · intro hx; have := (h.pend x).mp hx; exact ⟨Or.inr this.1, this.2⟩
      · rintro ⟨rfl | hx, hkn⟩
        · rw [hk'] at hkn; cases hkn
        · exact (h.pend x).mpr ⟨hx, hkn⟩
  · rename_i hk
    have hk' : s.known r.nh = false := by cases h' : s.known r.nh <;> simp_all
    have hnp : r ∉ s.pending := fun hin => hfresh ((h.pend r).mp hin).1
    refine ⟨List.nodup_cons.mpr ⟨hfresh, h.kn⟩, ?_, h.instN, ?_, List.nodup_cons.mpr ⟨hnp, h.pendN⟩, h.ngh, h.gates⟩
    · intro x
      simp only [List.mem_cons]
      constructor
      · intro hx; have := (h.inst x).mp hx; exact ⟨Or.inr this.1, this.2⟩
      · rintro ⟨rfl | hx, hkn⟩
        · rw [hk'] at hkn; cases hkn
        · exact (h.inst x).mpr ⟨hx, hkn⟩
    · intro x
      simp only [List.mem_cons]
      constructor
      · rintro (rfl | hx)
        · exact ⟨Or.inl rfl, hk'⟩
        · have := (h.pend x).mp hx; exact ⟨Or.inr this.1, this.2⟩
      · rintro ⟨rfl | hx, hkn⟩
        · exact Or.inl rfl
        · exact Or.inr ((h.pend x).mpr ⟨hx, hkn⟩)

/-- installing a batch of routes one by one -/
theorem w_fold : ∀ (batch : List R) (s : St), W s → (∀ x ∈ batch, x ∉ s.installed.map (·.1)) → batch.Nodup →
    W (batch.foldl addNeighbor s) ∧ (batch.foldl addNeighbor s).kernel = s.kernel ∧
    (batch.foldl addNeighbor s).known = s.known ∧ (batch.foldl addNeighbor s).pending = s.pending ∧
    (∀ x, x ∈ (batch.foldl addNeighbor s).installed.map (·.1) ↔ (x ∈ batch ∨ x ∈ s.installed.map (·.1))) := by
  intro batch
  induction batch with
  | nil => intro s h _ _; simp [h]
  | cons b bs ih =>
    intro s h hnot hnd
    obtain ⟨f1, f2, f3, f4⟩ := addNeighbor_fields s b
    have hb : b ∉ s.installed.map (·.1) := hnot b List.mem_cons_self
    have w1 := w_addNeighbor s b h hb
    have hnd' := List.nodup_cons.mp hnd
    have hnot' : ∀ x ∈ bs, x ∉ (addNeighbor s b).installed.map (·.1) := by
      intro x hx
      rw [f4]
      simp only [List.mem_cons, not_or]
      exact ⟨fun e => hnd'.1 (e ▸ hx), hnot x (List.mem_cons_of_mem _ hx)⟩
    obtain ⟨g0, g1, g2, g3, g4⟩ := ih (addNeighbor s b) w1 hnot' hnd'.2
    refine ⟨g0, by rw [List.foldl_cons, g1, f1], by rw [List.foldl_cons, g2, f2], by rw [List.foldl_cons, g3, f3], ?_⟩
    intro x
    rw [List.foldl_cons, g4 x, f4]
    simp only [List.mem_cons]
    constructor
    · rintro (h1 | rfl | h3)
      · exact Or.inl (Or.inr h1)
      · exact Or.inl (Or.inl rfl)
      · exact Or.inr h3
    · rintro ((rfl | h1) | h3)
      · exact Or.inr (Or.inl rfl)
      · exact Or.inl h1
      · exact Or.inr (Or.inr h3)

theorem inv_newNeigh (s : St) (nh : Nat) (h : Inv s) : Inv (newNeigh s nh) := by
  unfold newNeigh
  simp only
  -- the batch: pending routes through nh
  have hbatch_nd : (s.pending.filter (fun r => r.nh == nh)).Nodup := (List.filter_sublist.nodup h.pendN)
  have hbatch_not : ∀ x ∈ s.pending.filter (fun r => r.nh == nh), x ∉ s.installed.map (·.1) := by
    intro x hx hin
    have h1 := (h.pend x).mp (List.mem_filter.mp hx).1
    have h2 := (h.inst x).mp hin
    rw [h1.2] at h2; cases h2.2
  obtain ⟨w, k1, k2, k3, k4⟩ := w_fold (s.pending.filter (fun r => r.nh == nh))
    { s with known := fun x => if x = nh then true else s.known x,
             pending := s.pending.filter (fun r => r.nh != nh) }
    ⟨h.instN, h.ngh, h.gates⟩ hbatch_not hbatch_nd
  simp only at k1 k2 k3 k4
  refine ⟨by rw [k1]; exact h.kn, ?_, w.instN, ?_, by rw [k3]; exact (List.filter_sublist.nodup h.pendN), w.ngh, w.gates⟩
  · intro x
    rw [k4 x, k1, k2]
    simp only [List.mem_filter, beq_iff_eq]
    constructor
    · rintro (⟨hp, hn⟩ | hi)
      · exact ⟨((h.pend x).mp hp).1, by simp [hn]⟩
      · have := (h.inst x).mp hi
        refine ⟨this.1, ?_⟩
        by_cases e : x.nh = nh <;> simp [e, this.2]
    · rintro ⟨hk, hkn⟩
      by_cases hold : s.known x.nh = true
      · exact Or.inr ((h.inst x).mpr ⟨hk, hold⟩)
      · have hf : s.known x.nh = false := by cases h' : s.known x.nh <;> simp_all
        have hxn : x.nh = nh := by
          by_cases e : x.nh = nh
          · exact e
          · simp [e, hf] at hkn
        exact Or.inl ⟨(h.pend x).mpr ⟨hk, hf⟩, hxn⟩
  · intro x
    rw [k3, k1, k2]
    simp only [List.mem_filter, bne_iff_ne, ne_eq]
    constructor
    · rintro ⟨hp, hn⟩
      have := (h.pend x).mp hp
      exact ⟨this.1, by simp [hn, this.2]⟩
    · rintro ⟨hk, hkn⟩
      have hne : ¬ x.nh = nh := by intro e; simp [e] at hkn
      have hf : s.known x.nh = false := by simpa [hne] using hkn
      exact ⟨(h.pend x).mpr ⟨hk, hf⟩, hne⟩

theorem cnt_filter_ne (nh : Nat) (r : R) : ∀ (l : List (R × Nat)), (l.map (·.1)).Nodup →
    cnt nh (l.filter (fun e => e.1 != r)) + (if r ∈ l.map (·.1) ∧ r.nh = nh then 1 else 0) = cnt nh l := by
  intro l
  induction l with
  | nil => intro _; simp [cnt]
  | cons e es ih =>
    intro hnd
    simp only [List.map_cons, List.nodup_cons] at hnd
    have := ih hnd.2
    by_cases he : e.1 = r
    · -- e is the removed entry; r is not in the rest
      have hnr : r ∉ es.map (·.1) := he ▸ hnd.1
      have hf : (e :: es).filter (fun x => x.1 != r) = es.filter (fun x => x.1 != r) := by
        simp [List.filter_cons, he]
      rw [hf, cnt_cons]
      simp only [hnr, false_and, if_false, Nat.add_zero] at this
      rw [this]
      simp only [List.map_cons, List.mem_cons, he, true_or, true_and]
      by_cases hn : r.nh = nh <;> simp [hn, he] <;> omega
    · have hf : (e :: es).filter (fun x => x.1 != r) = e :: es.filter (fun x => x.1 != r) := by
        simp [List.filter_cons, he]
      rw [hf, cnt_cons, cnt_cons]
      have hmem : (r ∈ (e :: es).map (·.1)) ↔ r ∈ es.map (·.1) := by
        simp only [List.map_cons, List.mem_cons]
        exact ⟨fun h => h.elim (fun x => absurd x.symm he) id, Or.inr⟩
      simp only [hmem]
      omega

theorem delRoute_none (s : St) (r : R) (h : s.neigh r.nh = none) :
    delRoute s r = { s with kernel := s.kernel.erase r, pending := s.pending.erase r } := by
  simp [delRoute, h]

theorem delRoute_one (s : St) (r : R) (g : Nat) (h : s.neigh r.nh = some (g, 1)) :
    delRoute s r = { s with kernel := s.kernel.erase r,
                            installed := s.installed.filter (fun e => e.1 != r),
                            mods := fun x => if x = r.nh then none else s.mods x,
                            neigh := fun x => if x = r.nh then none else s.neigh x } := by
  simp [delRoute, h]

theorem delRoute_many (s : St) (r : R) (g c : Nat) (h : s.neigh r.nh = some (g, c)) (hc : c ≠ 1) :
    delRoute s r = { s with kernel := s.kernel.erase r,
                            installed := s.installed.filter (fun e => e.1 != r),
                            neigh := fun x => if x = r.nh then some (g, c - 1) else s.neigh x } := by
  simp [delRoute, h, hc]

theorem inv_delRoute (s : St) (r : R) (h : Inv s) (hin : r ∈ s.kernel) : Inv (delRoute s r) := by
  have hkn' : (s.kernel.erase r).Nodup := h.kn.erase r
  have hmem_erase : ∀ x, x ∈ s.kernel.erase r ↔ (x ∈ s.kernel ∧ x ≠ r) := by
    intro x; rw [h.kn.mem_erase_iff]; exact ⟨fun ⟨a, b⟩ => ⟨b, a⟩, fun ⟨a, b⟩ => ⟨b, a⟩⟩
  have hr := h.ngh r.nh
  cases hn : s.neigh r.nh with
  | none =>
    rw [delRoute_none s r hn]
    rw [hn] at hr; simp only at hr
    have hni : r ∉ s.installed.map (·.1) := by
      intro hi
      obtain ⟨e, he, rfl⟩ := List.mem_map.mp hi
      have := cnt_pos_of_mem he rfl; omega
    have hunk : s.known r.nh = false := by
      cases hk : s.known r.nh
      · rfl
      · exact absurd ((h.inst r).mpr ⟨hin, hk⟩) hni
    refine ⟨hkn', ?_, h.instN, ?_, h.pendN.erase r, h.ngh, h.gates⟩
    · intro x
      show x ∈ s.installed.map (·.1) ↔ (x ∈ s.kernel.erase r ∧ s.known x.nh = true)
      rw [hmem_erase]
      constructor
      · intro hx
        have := (h.inst x).mp hx
        exact ⟨⟨this.1, fun e => hni (e ▸ hx)⟩, this.2⟩
      · rintro ⟨⟨hk, _⟩, hkn⟩; exact (h.inst x).mpr ⟨hk, hkn⟩
    · intro x
      show x ∈ s.pending.erase r ↔ (x ∈ s.kernel.erase r ∧ s.known x.nh = false)
      rw [h.pendN.mem_erase_iff, hmem_erase]
      constructor
      · rintro ⟨hne, hp⟩; have := (h.pend x).mp hp; exact ⟨⟨this.1, hne⟩, this.2⟩
      · rintro ⟨⟨hk, hne⟩, hkn⟩; exact ⟨hne, (h.pend x).mpr ⟨hk, hkn⟩⟩
  | some gc =>
    obtain ⟨g, c⟩ := gc
    rw [hn] at hr; simp only at hr
    obtain ⟨hc, h1, hg, hm, hall⟩ := hr
    have hknown : s.known r.nh = true := by
      have : 0 < (s.installed.filter (fun e => e.1.nh == r.nh)).length := by unfold cnt at hc; omega
      obtain ⟨e, he⟩ := List.exists_mem_of_length_pos this
      have hm' := List.mem_filter.mp he
      have hen : e.1.nh = r.nh := by simpa using hm'.2
      have := (h.inst e.1).mp (List.mem_map.mpr ⟨e, hm'.1, rfl⟩)
      rw [hen] at this; exact this.2
    have hri : r ∈ s.installed.map (·.1) := (h.inst r).mpr ⟨hin, hknown⟩
    have hnp : r ∉ s.pending := fun hp => by
      have := (h.pend r).mp hp; rw [hknown] at this; cases this.2
    have hcf := fun nh => cnt_filter_ne nh r s.installed h.instN
    have hinstN' : ((s.installed.filter (fun e => e.1 != r)).map (·.1)).Nodup :=
      (List.Sublist.map _ List.filter_sublist).nodup h.instN
    have hinst' : ∀ x, x ∈ (s.installed.filter (fun e => e.1 != r)).map (·.1) ↔
        (x ∈ s.kernel.erase r ∧ s.known x.nh = true) := by
      intro x
      rw [hmem_erase]
      simp only [List.mem_map, List.mem_filter, bne_iff_ne, ne_eq]
      constructor
      · rintro ⟨e, ⟨he, hne⟩, rfl⟩
        have := (h.inst e.1).mp (List.mem_map.mpr ⟨e, he, rfl⟩)
        exact ⟨⟨this.1, hne⟩, this.2⟩
      · rintro ⟨⟨hk, hne⟩, hkn⟩
        obtain ⟨e, he, rfl⟩ := List.mem_map.mp ((h.inst x).mpr ⟨hk, hkn⟩)
        exact ⟨e, ⟨he, hne⟩, rfl⟩
    have hpend' : ∀ x, x ∈ s.pending ↔ (x ∈ s.kernel.erase r ∧ s.known x.nh = false) := by
      intro x
      rw [hmem_erase]
      constructor
      · intro hp; have := (h.pend x).mp hp; exact ⟨⟨this.1, fun e => hnp (e ▸ hp)⟩, this.2⟩
      · rintro ⟨⟨hk, _⟩, hkn⟩; exact (h.pend x).mpr ⟨hk, hkn⟩
    have hsub : ∀ e ∈ s.installed.filter (fun e => e.1 != r), e ∈ s.installed :=
      fun e he => (List.mem_filter.mp he).1
    -- the counts of the other next hops are untouched
    have hother : ∀ nh, nh ≠ r.nh → cnt nh (s.installed.filter (fun e => e.1 != r)) = cnt nh s.installed := by
      intro nh e
      have hne : ¬ r.nh = nh := fun x => e x.symm
      have hcn := hcf nh
      simp only [hne, and_false, if_false, Nat.add_zero] at hcn
      exact hcn
    have hmine : cnt r.nh (s.installed.filter (fun e => e.1 != r)) + 1 = cnt r.nh s.installed := by
      have := hcf r.nh
      simpa [hri] using this
    have hrest : ∀ nh, nh ≠ r.nh →
        match s.neigh nh with
        | some (g', c') => c' = cnt nh (s.installed.filter (fun e => e.1 != r)) ∧ 1 ≤ c' ∧ g' < s.gateCnt ∧
              s.mods nh = some g' ∧ (∀ e ∈ s.installed.filter (fun e => e.1 != r), e.1.nh = nh → e.2 = g')
        | none => cnt nh (s.installed.filter (fun e => e.1 != r)) = 0 ∧ s.mods nh = none := by
      intro nh e
      have := h.ngh nh
      cases hnn : s.neigh nh with
      | none => rw [hnn] at this; simp only at this ⊢; exact ⟨by rw [hother nh e]; exact this.1, this.2⟩
      | some gc' =>
        obtain ⟨g', c'⟩ := gc'
        rw [hnn] at this; simp only at this ⊢
        obtain ⟨a1, a2, a3, a4, a5⟩ := this
        exact ⟨by rw [hother nh e]; exact a1, a2, a3, a4, fun e' he' hen' => a5 e' (hsub e' he') hen'⟩
    by_cases hc1 : c = 1
    · subst hc1
      rw [delRoute_one s r g hn]
      refine ⟨hkn', hinst', hinstN', hpend', h.pendN, ?_, ?_⟩
      · intro nh
        by_cases e : nh = r.nh
        · subst e
          simp only [if_true]
          exact ⟨by omega, by simp⟩
        · simp only [e, if_false]
          exact hrest nh e
      · intro a b g1 g2 c1 c2 ha hb hab
        simp only at ha hb
        by_cases ea : a = r.nh
        · simp [ea] at ha
        · by_cases eb : b = r.nh
          · simp [eb] at hb
          · simp only [ea, eb, if_false] at ha hb
            exact h.gates a b g1 g2 c1 c2 ha hb hab
    · rw [delRoute_many s r g c hn hc1]
      refine ⟨hkn', hinst', hinstN', hpend', h.pendN, ?_, ?_⟩
      · intro nh
        by_cases e : nh = r.nh
        · subst e
          simp only [if_true]
          exact ⟨by omega, by omega, hg, hm, fun e' he' hen' => hall e' (hsub e' he') hen'⟩
        · simp only [e, if_false]
          exact hrest nh e
      · intro a b g1 g2 c1 c2 ha hb hab
        simp only at ha hb
        by_cases ea : a = r.nh <;> by_cases eb : b = r.nh
        · exact absurd (ea.trans eb.symm) hab
        · simp only [ea, eb, if_true, if_false] at ha hb
          cases ha
          exact h.gates r.nh b _ _ _ _ hn hb (fun x => eb x.symm)
        · simp only [ea, eb, if_true, if_false] at ha hb
          cases hb
          exact h.gates a r.nh _ _ _ _ ha hn ea
        · simp only [ea, eb, if_false] at ha hb
          exact h.gates a b g1 g2 c1 c2 ha hb hab

/-- every reachable state satisfies the invariant, hence the three read-off theorems of Route.lean -/
theorem reach_inv {s : St} (h : Reach s) : Inv s := by
  induction h with
  | init => exact inv_init
  | @step s e _ hok ih =>
    cases e with
    | newRoute r => exact inv_newRoute s r ih hok
    | delRoute r => exact inv_delRoute s r ih hok
    | newNeigh nh => exact inv_newNeigh s nh ih

#print axioms reach_inv

end Route

