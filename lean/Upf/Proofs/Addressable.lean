import Upf.Proofs.AnyHistory
/-! C02: the UP F-SEID an accepted establishment returns addresses the session in all later requests, until the session ends. -/
namespace Agent

/-- a session with SEID `l` is stored for association `a` -/
def Known (w : World) (a l : Nat) : Prop := ((w.conn a).sessions.find? (·.lseid = l)).isSome = true

theorem isSome_find_iff (ss : List Session) (l : Nat) : (ss.find? (·.lseid = l)).isSome = true ↔ ∃ x ∈ ss, x.lseid = l := by
  rw [List.find?_isSome]; simp

/-- requests that end the session `l` of association `a` -/
def Req.ends (a l : Nat) : Req → Bool
  | .del a' s => a' = a ∧ s = l
  | .report a' s => a' = a ∧ s = l
  | .shutdown a' => a' = a
  | _ => false

theorem modify_known (cfg : Cfg) (w : World) (a l : Nat) (r : ModReq) (h : Known w a l) : Known (modify cfg w a r).world a l := by
  unfold Known at *
  obtain ⟨x, hx, hl⟩ := (isSome_find_iff _ l).mp h
  unfold modify
  cases hfind : (w.conn a).sessions.find? (·.lseid = r.seid) with
  | none => simp only [hfind]; exact h
  | some s0 =>
    have hs0 : s0.lseid = r.seid := by simpa using List.find?_some hfind
    simp only [hfind]
    cases r.cpFseid with
    | none =>
      dsimp only
      repeat' split
      all_goals first
        | exact h
        | (dsimp only; rw [conn_setConn]; dsimp only
           refine (isSome_find_iff _ l).mpr ?_
           by_cases hxl : x.lseid = r.seid
           · exact ⟨_, List.mem_map.mpr ⟨x, hx, by rw [if_pos hxl]⟩, by dsimp only; rw [hs0, ← hxl, hl]⟩
           · exact ⟨x, List.mem_map.mpr ⟨x, hx, by rw [if_neg hxl]⟩, hl⟩)
    | some v =>
      obtain ⟨cpS, ip⟩ := v
      dsimp only
      repeat' split
      all_goals first
        | exact h
        | (dsimp only; rw [conn_setConn]; dsimp only
           refine (isSome_find_iff _ l).mpr ?_
           by_cases hxl : x.lseid = r.seid
           · exact ⟨_, List.mem_map.mpr ⟨x, hx, by rw [if_pos hxl]⟩, by dsimp only; rw [hs0, ← hxl, hl]⟩
           · exact ⟨x, List.mem_map.mpr ⟨x, hx, by rw [if_neg hxl]⟩, hl⟩)

theorem establish_known (cfg : Cfg) (w : World) (a l lseid : Nat) (r : EstReq) (h : Known w a l) :
    Known (establish cfg w a lseid r).1 a l := by
  unfold Known at *
  rcases establish_cases cfg w a lseid r with ⟨hc, _, _⟩ | ⟨s, _, _, hc, _, _⟩
  · rw [conn_eq, hc]; exact h
  · rw [conn_eq, hc, connOf_setL]
    obtain ⟨x, hx, hl⟩ := (isSome_find_iff _ l).mp h
    exact (isSome_find_iff _ l).mpr ⟨x, List.mem_append_left _ hx, hl⟩

/-- an accepted establishment makes its UP F-SEID known -/
theorem establish_makes_known (cfg : Cfg) (w : World) (a lseid : Nat) (r : EstReq)
    (h : (establish cfg w a lseid r).2.upSeid = some lseid) : Known (establish cfg w a lseid r).1 a lseid := by
  unfold Known
  rcases establish_cases cfg w a lseid r with ⟨_, _, hn⟩ | ⟨s, hs, _, hc, _, _⟩
  · rw [hn] at h; cases h
  · rw [conn_eq, hc, connOf_setL]
    exact (isSome_find_iff _ lseid).mpr ⟨s, List.mem_append_right _ List.mem_cons_self, hs⟩

theorem delete_known (cfg : Cfg) (w : World) (a l seid : Nat) (hne : seid ≠ l) (h : Known w a l) :
    Known (deleteSession cfg w a seid).1 a l := by
  unfold Known at *
  rcases deleteSession_cases cfg w a seid with ⟨_, hw⟩ | ⟨s, _, _, hc⟩
  · rw [hw]; exact h
  · rw [conn_eq, hc, connOf_setL]
    obtain ⟨x, hx, hl⟩ := (isSome_find_iff _ l).mp h
    exact (isSome_find_iff _ l).mpr ⟨x, List.mem_filter.mpr ⟨hx, by simpa [hl] using fun e => hne e.symm⟩, hl⟩

theorem report_known (cfg : Cfg) (w : World) (a l seid : Nat) (hne : seid ≠ l) (h : Known w a l) :
    Known (reportContextNotFound cfg w a seid) a l := by
  unfold Known at *
  unfold reportContextNotFound
  dsimp only
  cases (w.conn a).sessions.find? (·.lseid = seid) with
  | none => exact h
  | some s =>
    dsimp only
    rw [conn_setConn]
    obtain ⟨x, hx, hl⟩ := (isSome_find_iff _ l).mp h
    exact (isSome_find_iff _ l).mpr ⟨x, List.mem_filter.mpr ⟨hx, by simpa [hl] using fun e => hne e.symm⟩, hl⟩

theorem stepReq_known (cfg : Cfg) (w : World) (a l : Nat) (q : Req) (hq : q.ends a l = false) (h : Known w a l) :
    Known (stepReq cfg w q) a l := by
  by_cases hby : a = q.by
  · cases q with
    | assoc a' node =>
      have : a' = a := hby.symm
      subst this
      show Known (assocSetup w a' node) a' l
      unfold Known assocSetup; rw [conn_setConn]; exact h
    | pfd a' apps ok =>
      have : a' = a := hby.symm
      subst this
      show Known (pfdManagement w a' apps ok) a' l
      unfold pfdManagement
      cases ok with
      | true => simp only [if_true]; unfold Known; rw [conn_setConn]; exact h
      | false => exact h
    | est a' lseid r => have : a' = a := hby.symm; subst this; exact establish_known cfg w a' l lseid r h
    | mod a' r => have : a' = a := hby.symm; subst this; exact modify_known cfg w a' l r h
    | del a' seid =>
      have : a' = a := hby.symm
      subst this
      have hne : seid ≠ l := by intro e; simp [Req.ends, e] at hq
      exact delete_known cfg w a' l seid hne h
    | report a' seid =>
      have : a' = a := hby.symm
      subst this
      have hne : seid ≠ l := by intro e; simp [Req.ends, e] at hq
      exact report_known cfg w a' l seid hne h
    | shutdown a' => have : a' = a := hby.symm; subst this; simp [Req.ends] at hq
  · unfold Known; rw [stepReq_local cfg w q a hby]; exact h

/-- **a session stays addressable until it ends**: once an accepted establishment has returned UP F-SEID `l` to association `a`,
after ANY further requests — of any association, accepted or refused, in any number — none of which is the deletion of `l`, a
report for `l` answered "context not found" or the ending of association `a`, the session `l` is still known to `a`
(so a modification or deletion naming it is not answered "unknown session") -/
theorem known_until_ended (cfg : Cfg) (a l : Nat) : ∀ (qs : List Req) (w : World), (∀ q ∈ qs, q.ends a l = false) → Known w a l →
    Known (qs.foldl (stepReq cfg) w) a l
  | [], _, _, h => h
  | q :: rest, w, hq, h => by
    rw [List.foldl_cons]
    exact known_until_ended cfg a l rest _ (fun x hx => hq x (List.mem_cons_of_mem _ hx))
      (stepReq_known cfg w a l q (hq q List.mem_cons_self) h)

/-- and a known session's modification is not refused as unknown: the reply carries the control plane's SEID for it, not 0 by default -/
theorem known_modify_addressed (cfg : Cfg) (w : World) (a : Nat) (r : ModReq) (h : Known w a r.seid) :
    ∃ s0, (w.conn a).sessions.find? (·.lseid = r.seid) = some s0 ∧ (modify cfg w a r).reply.seid = cpSeidAfter r s0 := by
  unfold Known at h
  cases hf : (w.conn a).sessions.find? (·.lseid = r.seid) with
  | none => rw [hf] at h; cases h
  | some s0 => exact ⟨s0, rfl, mod_reply_seid cfg w a r s0 hf⟩

end Agent
