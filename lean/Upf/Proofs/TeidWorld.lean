import Upf.Proofs.BessImage
import Upf.Proofs.Teid
/-!
C07 at the level of the agent: **the TEIDs the agent has chosen for the stored sessions (F-TEID with the CHOOSE flag)
are non-zero, pairwise different — across all associations — and marked in use in the allocator**, along every history
of establishments (accepted or refused at any point), deletions, reports "context not found" and association endings.
-/
namespace Agent

def chosenL (pdrs : List Pdr) : List Nat := (pdrs.filter (·.chooseTeid)).map (·.tunnelTEID)
def chosen (w : World) : List Nat := (allSessions w).flatMap fun s => chosenL s.pdrs

/-- identifiers that are pairwise different, non-zero and in use in the allocator — and nothing else is in use (no leak) -/
def Held (l : List Nat) (g : Teid.G) : Prop :=
  l.Nodup ∧ (∀ t ∈ l, 1 ≤ t ∧ g.used (t - 1) = true) ∧ ∀ x, g.used x = true → x + 1 ∈ l

theorem Held.perm {l l' : List Nat} {g : Teid.G} (h : Held l g) (p : l.Perm l') : Held l' g :=
  ⟨p.nodup_iff.mp h.1, fun t ht => h.2.1 t (p.mem_iff.mpr ht), fun x hx => p.mem_iff.mp (h.2.2 x hx)⟩

theorem chosenL_cons (p : Pdr) (l : List Pdr) : chosenL (p :: l) = if p.chooseTeid then p.tunnelTEID :: chosenL l else chosenL l := by
  unfold chosenL; by_cases h : p.chooseTeid <;> simp [h]

theorem chosenL_reverse (l : List Pdr) : chosenL l.reverse = (chosenL l).reverse := by
  unfold chosenL; rw [List.filter_reverse, List.map_reverse]

theorem chosenL_append (a b : List Pdr) : chosenL (a ++ b) = chosenL a ++ chosenL b := by
  unfold chosenL; rw [List.filter_append, List.map_append]

/-- `MarkSessionQer` only reorders QER lists -/
theorem chosenL_mark (pdrs : List Pdr) (qers : List Qer) : chosenL (markSessionQer pdrs qers).2 = chosenL pdrs := by
  unfold markSessionQer
  repeat' split
  all_goals first | rfl | skip
  unfold chosenL
  rw [List.filter_map, List.map_map]
  rfl

/-- what the PDR loop leaves, in both outcomes: the rules parsed so far and the allocator -/
def outG : Except (Nat × List Pdr × Option Pool.P × Teid.G) (List Pdr × Option Pool.P × Teid.G) → List Pdr × Teid.G
  | .ok (pdrs, _, g) => (pdrs, g)
  | .error (_, pdrs, _, g) => (pdrs, g)

/-- the PDR loop of an establishment: what it has chosen so far stays different from everything held, in both outcomes -/
theorem estPdrs_held (cfg : Cfg) (lseid ip : Nat) (apps : List (String × List String)) (ext : List Nat) :
    ∀ (ies : List PdrIE) (pool : Option Pool.P) (g : Teid.G) (acc : List Pdr), g.offset < M → Held (ext ++ chosenL acc) g →
    (outG (estPdrs cfg lseid ip apps ies pool g acc)).2.offset < M ∧
      Held (ext ++ chosenL (outG (estPdrs cfg lseid ip apps ies pool g acc)).1) (outG (estPdrs cfg lseid ip apps ies pool g acc)).2
  | [], pool, g, acc, ho, hh => by
    unfold estPdrs
    show g.offset < M ∧ Held (ext ++ chosenL acc.reverse) g
    exact ⟨ho, hh.perm (List.Perm.append_left _ (by rw [chosenL_reverse]; exact (List.reverse_perm _).symm))⟩
  | ie :: rest, pool, g, acc, ho, hh => by
    unfold estPdrs
    have hrev : Held (ext ++ chosenL acc.reverse) g :=
      hh.perm (List.Perm.append_left _ (by rw [chosenL_reverse]; exact (List.reverse_perm _).symm))
    cases hp : parsePDR lseid apps ie pool with
    | mk res pool' =>
    cases res with
    | error e => cases e with | reject cause => exact ⟨ho, hrev⟩
    | ok p =>
      dsimp only
      by_cases hc : p.chooseTeid = true
      · rw [if_pos hc]
        cases ha : Teid.allocate M g with
        | none => exact ⟨ho, hrev⟩
        | some v =>
          obtain ⟨id, g'⟩ := v
          dsimp only
          obtain ⟨h0, _, hfree, hused, hsame, ho'⟩ := Teid.alloc_fresh M g id g' ho ha
          apply estPdrs_held cfg lseid ip apps ext rest pool' g' _ ho'
          rw [chosenL_cons]
          simp only [hc, if_true]
          have hnot : id ∉ ext ++ chosenL acc := by
            intro hm
            have := (hh.2.1 id hm).2
            rw [hfree] at this; cases this
          refine ⟨?_, ?_, ?_⟩
          · have : (ext ++ id :: chosenL acc).Perm (id :: (ext ++ chosenL acc)) := List.perm_middle
            exact this.nodup_iff.mpr (List.nodup_cons.mpr ⟨hnot, hh.1⟩)
          · intro t ht
            rcases List.mem_append.mp ht with h1 | h1
            · have ht' := hh.2.1 t (List.mem_append_left _ h1)
              have hne : t ≠ id := fun e => hnot (e ▸ List.mem_append_left _ h1)
              exact ⟨ht'.1, by rw [hsame (t - 1) (by omega)]; exact ht'.2⟩
            · rcases List.mem_cons.mp h1 with rfl | h2
              · exact ⟨by omega, hused⟩
              · have ht' := hh.2.1 t (List.mem_append_right _ h2)
                have hne : t ≠ id := fun e => hnot (e ▸ List.mem_append_right _ h2)
                exact ⟨ht'.1, by rw [hsame (t - 1) (by omega)]; exact ht'.2⟩
          · intro x hx
            by_cases hxi : x = id - 1
            · have : x + 1 = id := by omega
              rw [this]; exact List.mem_append_right _ List.mem_cons_self
            · rw [hsame x hxi] at hx
              rcases List.mem_append.mp (hh.2.2 x hx) with h1 | h1
              · exact List.mem_append_left _ h1
              · exact List.mem_append_right _ (List.mem_cons_of_mem _ h1)
      · rw [if_neg hc]
        apply estPdrs_held cfg lseid ip apps ext rest pool' g _ ho
        rw [chosenL_cons]
        have : p.chooseTeid = false := by simpa using hc
        simp only [this]
        exact hh


theorem free_offset (g : Teid.G) (id : Nat) : (Teid.free g id).offset = g.offset := by
  unfold Teid.free; split <;> rfl

theorem free_keeps (g : Teid.G) (id t : Nat) (ht : 1 ≤ t) (hne : t ≠ id) (h : g.used (t - 1) = true) :
    (Teid.free g id).used (t - 1) = true := by
  unfold Teid.free
  split
  · exact h
  · have : t - 1 ≠ id - 1 := by omega
    simp [this, h]

theorem free_used (g : Teid.G) (id x : Nat) (hid : 1 ≤ id) (h : (Teid.free g id).used x = true) : x ≠ id - 1 ∧ g.used x = true := by
  unfold Teid.free at h
  rw [if_neg (by omega)] at h
  by_cases hx : x = id - 1
  · simp [hx] at h
  · simpa [hx] using h

/-- `RemoveSession` gives back exactly the session's own TEIDs: everything else that is held stays held -/
theorem release_held (ext : List Nat) : ∀ (pdrs : List Pdr) (g : Teid.G), Held (ext ++ chosenL pdrs) g →
    Held ext (pdrs.foldl (fun g p => if p.chooseTeid then Teid.free g p.tunnelTEID else g) g) ∧
    (pdrs.foldl (fun g p => if p.chooseTeid then Teid.free g p.tunnelTEID else g) g).offset = g.offset
  | [], g, h => by simpa [chosenL] using h
  | p :: rest, g, h => by
    rw [List.foldl_cons]
    by_cases hc : p.chooseTeid = true
    · rw [chosenL_cons] at h; simp only [hc, if_true] at h ⊢
      have hp : (ext ++ p.tunnelTEID :: chosenL rest).Perm (p.tunnelTEID :: (ext ++ chosenL rest)) := List.perm_middle
      have hnd := hp.nodup_iff.mp h.1
      have hnot := (List.nodup_cons.mp hnd).1
      have hself : p.tunnelTEID ∈ ext ++ p.tunnelTEID :: chosenL rest := List.mem_append_right _ List.mem_cons_self
      have h' : Held (ext ++ chosenL rest) (Teid.free g p.tunnelTEID) := by
        refine ⟨(List.nodup_cons.mp hnd).2, fun t ht => ?_, fun x hx => ?_⟩
        · have hm : t ∈ ext ++ p.tunnelTEID :: chosenL rest := hp.mem_iff.mpr (List.mem_cons_of_mem _ ht)
          exact ⟨(h.2.1 t hm).1, free_keeps g _ t (h.2.1 t hm).1 (fun e => hnot (e ▸ ht)) (h.2.1 t hm).2⟩
        · obtain ⟨hne, hu⟩ := free_used g _ x (h.2.1 _ hself).1 hx
          have := hp.mem_iff.mp (h.2.2 x hu)
          rcases List.mem_cons.mp this with e | hm
          · have := (h.2.1 _ hself).1; omega
          · exact hm
      have := release_held ext rest _ h'
      exact ⟨this.1, by rw [this.2, free_offset]⟩
    · have hc' : p.chooseTeid = false := by simpa using hc
      rw [chosenL_cons] at h; simp only [hc'] at h ⊢
      exact release_held ext rest g h

/-! ## the world -/

structure TeidInv (w : World) : Prop where
  off : w.teid.offset < M
  held : Held (chosen w) w.teid

theorem chosen_perm {w : World} {l : List Session} (p : (allSessions w).Perm l) : (chosen w).Perm (l.flatMap fun s => chosenL s.pdrs) :=
  List.Perm.flatMap_right _ p

theorem TeidInv.congr {w w' : World} (h : TeidInv w) (hc : w'.conns = w.conns) (ht : w'.teid = w.teid) : TeidInv w' := by
  refine ⟨by rw [ht]; exact h.off, ?_⟩
  have : chosen w' = chosen w := by unfold chosen allSessions; rw [hc]
  rw [this, ht]; exact h.held


theorem append_session_perm (w : World) (a : Nat) (s : Session) (hk : (w.conns.map (·.1)).Nodup) :
    (flat (setL w.conns a { w.conn a with sessions := (w.conn a).sessions ++ [s] })).Perm (s :: allSessions w) := by
  obtain ⟨rest, p1, p2⟩ := conn_sublist_perm w a hk
  refine (p2 _).trans ?_
  dsimp only
  refine List.Perm.trans ?_ (List.Perm.cons s p1.symm)
  rw [List.append_assoc]
  exact (List.perm_middle).trans (by simp)

theorem releaseRes_snd (pool : Option Pool.P) (g : Teid.G) (lseid : Nat) (pdrs : List Pdr) :
    (releaseRes pool g lseid pdrs).2 = pdrs.foldl (fun g p => if p.chooseTeid then Teid.free g p.tunnelTEID else g) g := rfl

/-- **establishment, accepted or refused at any point, keeps the chosen TEIDs distinct and in use** -/
theorem establish_teid (cfg : Cfg) (w : World) (a lseid : Nat) (r : EstReq) (hk : (w.conns.map (·.1)).Nodup) (hT : TeidInv w) :
    TeidInv (establish cfg w a lseid r).1 := by
  have hloop := estPdrs_held cfg lseid r.cpIP (w.conn a).apps (chosen w) r.pdrs w.pool w.teid [] hT.off (by simpa [chosenL] using hT.held)
  unfold establish
  dsimp only
  by_cases hne : r.nodeID ≠ (w.conn a).remoteNode
  · rw [if_pos hne]; exact hT
  · rw [if_neg hne]
    cases hest : estPdrs cfg lseid r.cpIP (w.conn a).apps r.pdrs w.pool w.teid [] with
    | error e =>
      obtain ⟨cause, pdrs, pool, g⟩ := e
      rw [hest] at hloop
      dsimp only
      have hr := release_held (chosen w) pdrs g hloop.2
      refine ⟨?_, ?_⟩
      · show (releaseRes pool g lseid pdrs).2.offset < M
        rw [releaseRes_snd, hr.2]; exact hloop.1
      · show Held (chosen w) (releaseRes pool g lseid pdrs).2
        rw [releaseRes_snd]; exact hr.1
    | ok v =>
      obtain ⟨pdrs, pool, g⟩ := v
      rw [hest] at hloop
      dsimp only
      cases hf : mapFars cfg lseid r.cpIP false r.fars with
      | error e =>
        cases e with | reject cause =>
        dsimp only
        have hr := release_held (chosen w) pdrs g hloop.2
        refine ⟨?_, ?_⟩
        · show (releaseRes pool g lseid pdrs).2.offset < M
          rw [releaseRes_snd, hr.2]; exact hloop.1
        · show Held (chosen w) (releaseRes pool g lseid pdrs).2
          rw [releaseRes_snd]; exact hr.1
      | ok fars =>
        dsimp only
        have ht : ∀ (W : World) (c : Conn), (W.setConn a c).teid = W.teid := by
          intro W c; unfold World.setConn; split <;> rfl
        refine ⟨by rw [ht]; exact hloop.1, ?_⟩
        rw [ht]
        have hp := append_session_perm w a
          { lseid := lseid, rseid := r.cpSeid,
            pdrs := (markSessionQer (markSessionQer pdrs (r.qers.map fun ie => { parseQER lseid ie with fseidIP := r.cpIP })).2
                      (r.qers.map fun ie => { parseQER lseid ie with fseidIP := r.cpIP })).2,
            fars := fars,
            qers := (markSessionQer pdrs (r.qers.map fun ie => { parseQER lseid ie with fseidIP := r.cpIP })).1 } hk
        have hch := List.Perm.flatMap_right (fun s : Session => chosenL s.pdrs) hp
        simp only [List.flatMap_cons, chosenL_mark] at hch
        refine Held.perm hloop.2 ?_
        refine List.Perm.trans List.perm_append_comm hch.symm |>.trans ?_
        unfold chosen allSessions
        rw [setConn_conns]


theorem setConn_teid (w : World) (a : Nat) (c : Conn) : (w.setConn a c).teid = w.teid := by
  unfold World.setConn; split <;> rfl

theorem TeidInv.congr_sessions {w : World} (hT : TeidInv w) (cfg : Cfg) (w0 : World) (a : Nat) (c : Conn) (hI : Inv cfg w0) (hw : w0 = w)
    (hs : c.sessions = (w.conn a).sessions) (w' : World) (hc : w'.conns = setL w.conns a c) (ht : w'.teid = w.teid) : TeidInv w' := by
  subst hw
  obtain ⟨rest, p1, p2⟩ := conn_sublist_perm w0 a hI.keys
  have p : (allSessions w0).Perm (allSessions w') := by
    unfold allSessions; rw [hc]; exact p1.trans (by rw [← hs]; exact (p2 c).symm)
  refine ⟨by rw [ht]; exact hT.off, ?_⟩
  rw [ht]
  exact hT.held.perm (List.Perm.flatMap_right _ p)

/-- **deletion returns exactly the session's own TEIDs** -/
theorem delete_teid (cfg : Cfg) (w : World) (a seid : Nat) (hI : Inv cfg w) (hT : TeidInv w) : TeidInv (deleteSession cfg w a seid).1 := by
  unfold deleteSession
  dsimp only
  cases hfind : (w.conn a).sessions.find? (·.lseid = seid) with
  | none => exact hT
  | some s =>
    dsimp only
    have p := remove_perm cfg w a seid s hI hfind
    have hch : (chosen w).Perm ((flat (setL w.conns a { w.conn a with sessions := (w.conn a).sessions.filter (·.lseid ≠ seid) })).flatMap
        (fun s => chosenL s.pdrs) ++ chosenL s.pdrs) := by
      refine (chosen_perm p).trans ?_
      simp only [List.flatMap_cons]
      exact List.perm_append_comm
    have hr := release_held _ s.pdrs w.teid (hT.held.perm hch)
    refine ⟨?_, ?_⟩
    · rw [setConn_teid]; show (releaseRes w.pool w.teid s.lseid s.pdrs).2.offset < M
      rw [releaseRes_snd, hr.2]; exact hT.off
    · rw [setConn_teid]; unfold chosen allSessions; rw [setConn_conns]
      show Held _ (releaseRes w.pool w.teid s.lseid s.pdrs).2
      rw [releaseRes_snd]; exact hr.1

theorem report_teid (cfg : Cfg) (w : World) (a seid : Nat) (hI : Inv cfg w) (hT : TeidInv w) :
    TeidInv (reportContextNotFound cfg w a seid) := by
  unfold reportContextNotFound
  dsimp only
  cases hfind : (w.conn a).sessions.find? (·.lseid = seid) with
  | none => exact hT
  | some s =>
    dsimp only
    have p := remove_perm cfg w a seid s hI hfind
    have hch : (chosen w).Perm ((flat (setL w.conns a { w.conn a with sessions := (w.conn a).sessions.filter (·.lseid ≠ seid) })).flatMap
        (fun s => chosenL s.pdrs) ++ chosenL s.pdrs) := by
      refine (chosen_perm p).trans ?_
      simp only [List.flatMap_cons]
      exact List.perm_append_comm
    have hr := release_held _ s.pdrs w.teid (hT.held.perm hch)
    refine ⟨?_, ?_⟩
    · rw [setConn_teid]; show (releaseRes w.pool w.teid s.lseid s.pdrs).2.offset < M
      rw [releaseRes_snd, hr.2]; exact hT.off
    · rw [setConn_teid]; unfold chosen allSessions; rw [setConn_conns]
      show Held _ (releaseRes w.pool w.teid s.lseid s.pdrs).2
      rw [releaseRes_snd]; exact hr.1

theorem foldl_drop_teid (cfg : Cfg) (ext : List Nat) : ∀ (ss : List Session) (w : World),
    w.teid.offset < M → Held (ext ++ ss.flatMap (fun s => chosenL s.pdrs)) w.teid →
    (ss.foldl (dropSession cfg) w).teid.offset < M ∧ Held ext (ss.foldl (dropSession cfg) w).teid
  | [], w, ho, h => by
    simp only [List.flatMap_nil, List.append_nil] at h
    exact ⟨ho, h⟩
  | s :: rest, w, ho, h => by
    rw [List.foldl_cons]
    have h' : Held ((ext ++ rest.flatMap (fun s => chosenL s.pdrs)) ++ chosenL s.pdrs) w.teid := by
      refine h.perm ?_
      simp only [List.flatMap_cons, List.append_assoc]
      exact List.Perm.append_left _ List.perm_append_comm
    have hr := release_held _ s.pdrs w.teid h'
    apply foldl_drop_teid cfg ext rest
    · show (releaseRes w.pool w.teid s.lseid s.pdrs).2.offset < M
      rw [releaseRes_snd, hr.2]; exact ho
    · show Held _ (releaseRes w.pool w.teid s.lseid s.pdrs).2
      rw [releaseRes_snd]; exact hr.1

/-- **an association ending returns the TEIDs of its sessions, and only those** -/
theorem shutdown_teid (cfg : Cfg) (w : World) (a : Nat) (hI : Inv cfg w) (hT : TeidInv w) : TeidInv (shutdownConn cfg w a) := by
  unfold shutdownConn
  dsimp only
  have p := flat_filter a w.conns hI.keys
  have hch : (chosen w).Perm ((flat (w.conns.filter (·.1 ≠ a))).flatMap (fun s => chosenL s.pdrs) ++
      (w.conn a).sessions.flatMap (fun s => chosenL s.pdrs)) := by
    refine (chosen_perm p).trans ?_
    rw [List.flatMap_append]
    exact List.perm_append_comm
  have := foldl_drop_teid cfg _ (w.conn a).sessions w hT.off (hT.held.perm hch)
  refine ⟨this.1, ?_⟩
  unfold chosen allSessions
  dsimp only
  rw [foldl_drop_conns]
  exact this.2

end Agent
