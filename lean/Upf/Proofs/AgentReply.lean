import Upf.Model.AgentMod
import Upf.Proofs.BessAddDel
/-! How the Session Modification handler addresses its reply and what it remembers of a CP F-SEID change (C02). -/
namespace Agent

/-- the control plane's SEID for the session after this request: the one the request brings, else the stored one -/
def cpSeidAfter (r : ModReq) (s0 : Session) : Nat := match r.cpFseid with | some (cp, _) => cp | none => s0.rseid

theorem mod_reply_seid (cfg : Cfg) (w : World) (a : Nat) (r : ModReq) (s0 : Session)
    (h : (w.conn a).sessions.find? (·.lseid = r.seid) = some s0) :
    (modify cfg w a r).reply.seid = cpSeidAfter r s0 := by
  unfold modify cpSeidAfter
  simp only [h]
  cases r.cpFseid with
  | none =>
    dsimp only
    repeat' split
    all_goals rfl
  | some v =>
    obtain ⟨cp, ip⟩ := v
    dsimp only
    repeat' split
    all_goals rfl

theorem find_map_replace (seid : Nat) (s' : Session) (hs : s'.lseid = seid) : ∀ l : List Session,
    (l.map fun x => if x.lseid = seid then s' else x).find? (·.lseid = seid) = (l.find? (·.lseid = seid)).map fun _ => s'
  | [] => rfl
  | x :: rest => by
    simp only [List.map_cons, List.find?_cons]
    by_cases hx : x.lseid = seid
    · simp [hx, hs]
    · simp [hx, find_map_replace seid s' hs rest]

theorem find_map_replace2 (seid : Nat) (l : List Session) (s0 : Session) (h : l.find? (·.lseid = seid) = some s0) (f : Session)
    (hf : f.lseid = seid) : (l.map fun x => if x.lseid = seid then f else x).find? (·.lseid = seid) = some f := by
  rw [find_map_replace seid f hf, h]; rfl

/-- an accepted modification stores the session under its SEID with the control plane's SEID the reply was addressed to — so a
CP F-SEID change is remembered for every later response -/
theorem mod_accepted_stores_cp_seid (cfg : Cfg) (w : World) (a : Nat) (r : ModReq) (s0 : Session)
    (h : (w.conn a).sessions.find? (·.lseid = r.seid) = some s0)
    (hacc : (modify cfg w a r).reply.cause = causeAccepted) :
    ∃ s', ((modify cfg w a r).world.conn a).sessions.find? (·.lseid = r.seid) = some s' ∧ s'.rseid = cpSeidAfter r s0 ∧ s'.lseid = r.seid := by
  have hl : s0.lseid = r.seid := by simpa using List.find?_some h
  revert hacc
  unfold modify cpSeidAfter
  simp only [h]
  cases r.cpFseid with
  | none =>
    dsimp only
    repeat' split
    all_goals first
      | (intro _; dsimp only; rw [conn_setConn]; dsimp only; exact ⟨_, find_map_replace2 r.seid _ s0 h _ (by exact hl), rfl, hl⟩)
      | (intro hacc; simp [causeRejected, causeAccepted] at hacc; done)
  | some v =>
    obtain ⟨cp, ip⟩ := v
    dsimp only
    repeat' split
    all_goals first
      | (intro _; dsimp only; rw [conn_setConn]; dsimp only; exact ⟨_, find_map_replace2 r.seid _ s0 h _ (by exact hl), rfl, hl⟩)
      | (intro hacc; simp [causeRejected, causeAccepted] at hacc; done)
/-- … and the next response for that session — here the Session Deletion Response — is addressed with it -/
theorem cp_seid_change_is_remembered (cfg : Cfg) (w : World) (a : Nat) (r : ModReq) (s0 : Session)
    (h : (w.conn a).sessions.find? (·.lseid = r.seid) = some s0)
    (hacc : (modify cfg w a r).reply.cause = causeAccepted) :
    (deleteSession cfg (modify cfg w a r).world a r.seid).2 = { cause := causeAccepted, seid := cpSeidAfter r s0 } := by
  obtain ⟨s', hf, hr, _⟩ := mod_accepted_stores_cp_seid cfg w a r s0 h hacc
  unfold deleteSession
  simp only [hf, hr]

/-- a Session Modification that is not answered "accepted" leaves the session store and the TEID allocator exactly as they were:
nothing of a refused request is committed (the datapath may have been written: `sendAdd` precedes the removals) -/
theorem refused_modification_commits_nothing (cfg : Cfg) (w : World) (a : Nat) (r : ModReq)
    (hrej : (modify cfg w a r).reply.cause ≠ causeAccepted) :
    (modify cfg w a r).world.conns = w.conns ∧ (modify cfg w a r).world.teid = w.teid := by
  revert hrej
  unfold modify
  cases hfind : (w.conn a).sessions.find? (·.lseid = r.seid) with
  | none => simp [hfind]
  | some s0 =>
    simp only [hfind]
    cases r.cpFseid with
    | none =>
      dsimp only
      repeat' split
      all_goals first
        | (intro _; exact ⟨rfl, rfl⟩)
        | (intro h; exact absurd rfl h)
    | some v =>
      obtain ⟨cp, ip⟩ := v
      dsimp only
      repeat' split
      all_goals first
        | (intro _; exact ⟨rfl, rfl⟩)
        | (intro h; exact absurd rfl h)

end Agent
