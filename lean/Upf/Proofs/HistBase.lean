import Upf.Proofs.BessImage
import Upf.Proofs.ModFar
import Upf.Proofs.TeidWorld
/-! Small facts shared by the history theorems. -/
namespace Agent

theorem modify_unknown (cfg : Cfg) (w : World) (a : Nat) (r : ModReq)
    (h : (w.conn a).sessions.find? (·.lseid = r.seid) = none) : (modify cfg w a r).world = w := by
  unfold modify; simp only [h]

/-- every stored FAR carries the SEID of its session (what `parseFAR` writes and `UpdateFAR` keeps) -/
def FarWf (w : World) : Prop := ∀ s ∈ allSessions w, ∀ q ∈ s.fars, q.fseID = s.lseid

theorem mem_conn_all (w : World) (a : Nat) (hk : (w.conns.map (·.1)).Nodup) (s : Session) (h : s ∈ (w.conn a).sessions) : s ∈ allSessions w := by
  obtain ⟨rest, p1, _⟩ := conn_sublist_perm w a hk
  exact p1.mem_iff.mpr (List.mem_append_left _ h)

theorem same_sessions_mem (w : World) (a : Nat) (c : Conn) (hk : (w.conns.map (·.1)).Nodup) (hs : c.sessions = (w.conn a).sessions)
    (w' : World) (hc : w'.conns = setL w.conns a c) : ∀ s, s ∈ allSessions w' → s ∈ allSessions w := by
  intro s h
  obtain ⟨rest, p1, p2⟩ := conn_sublist_perm w a hk
  unfold allSessions at h; rw [hc] at h
  have := (p2 c).mem_iff.mp h
  rw [hs] at this
  exact p1.mem_iff.mpr this

end Agent
