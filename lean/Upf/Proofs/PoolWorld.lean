import Upf.Proofs.HistBase
import Upf.Proofs.AgentPool
/-!
C05 / C06 at the level of the agent: along every history the UE address pool keeps its invariant (free ++ held is a
permutation of the configured addresses, no address twice, no session twice) and **every held address is held by a
stored session** — none is leaked, whichever way sessions end and wherever an establishment is refused.
-/
namespace Agent

def poolKeys : Option Pool.P → List Nat
  | none => []
  | some p => p.inv.map (·.1)

theorem keys_alloc (pl : Pool.P) (s : Nat) : ∀ k ∈ (Pool.alloc pl s).2.inv.map (·.1), k ∈ pl.inv.map (·.1) ∨ k = s := by
  intro k hk
  unfold Pool.alloc at hk
  split at hk
  · exact Or.inl hk
  · split at hk
    · exact Or.inl hk
    · simp only [List.map_cons, List.mem_cons] at hk
      rcases hk with rfl | hk
      · exact Or.inr rfl
      · exact Or.inl hk

theorem keys_ueStep (seid : Nat) (ueip : Option (Nat × Nat)) (pool : Option Pool.P) (p : Pdr) :
    ∀ k ∈ poolKeys (ueStep seid ueip pool p).2, k ∈ poolKeys pool ∨ k = seid := by
  intro k hk
  unfold ueStep at hk
  split at hk
  · exact Or.inl hk
  · split at hk
    · split at hk
      · exact Or.inl hk
      · rename_i pl
        split at hk
        · exact Or.inl hk
        · rename_i a pl' ha
          have := keys_alloc pl seid k
          rw [ha] at this
          exact this hk
    · split at hk <;> exact Or.inl hk

theorem keys_parsePDR (seid : Nat) (apps : List (String × List String)) (ie : PdrIE) (pool : Option Pool.P) :
    ∀ k ∈ poolKeys (parsePDR seid apps ie pool).2, k ∈ poolKeys pool ∨ k = seid := by
  intro k hk
  have h1 : ∀ k ∈ poolKeys (parsePDI1 seid ie pool { fseID := seid }).2, k ∈ poolKeys pool ∨ k = seid := by
    intro k hk
    unfold parsePDI1 at hk
    split at hk
    · exact Or.inl hk
    · exact keys_ueStep seid ie.ueip pool _ k hk
  unfold parsePDR at hk
  split at hk
  · rename_i e pool' he; rw [he] at h1; exact h1 k hk
  · rename_i p pool' he
    rw [he] at h1
    split at hk <;> exact h1 k hk

/-- the pool in both outcomes of the PDR loop -/
def outP : Except (Nat × List Pdr × Option Pool.P × Teid.G) (List Pdr × Option Pool.P × Teid.G) → Option Pool.P
  | .ok (_, pool, _) => pool
  | .error (_, _, pool, _) => pool

theorem keys_estPdrs (cfg : Cfg) (lseid ip : Nat) (apps : List (String × List String)) :
    ∀ (ies : List PdrIE) (pool : Option Pool.P) (g : Teid.G) (acc : List Pdr),
    ∀ k ∈ poolKeys (outP (estPdrs cfg lseid ip apps ies pool g acc)), k ∈ poolKeys pool ∨ k = lseid
  | [], pool, g, acc => by
    intro k hk; unfold estPdrs at hk; exact Or.inl hk
  | ie :: rest, pool, g, acc => by
    intro k hk
    unfold estPdrs at hk
    have hp := keys_parsePDR lseid apps ie pool
    cases hpp : parsePDR lseid apps ie pool with
    | mk res pool' =>
    rw [hpp] at hp hk
    cases res with
    | error e => cases e with | reject cause => exact hp k hk
    | ok p =>
      dsimp only at hk
      by_cases hc : p.chooseTeid = true
      · rw [if_pos hc] at hk
        cases ha : Teid.allocate M g with
        | none => rw [ha] at hk; exact hp k hk
        | some v =>
          obtain ⟨id, g'⟩ := v
          rw [ha] at hk
          dsimp only at hk
          rcases keys_estPdrs cfg lseid ip apps rest pool' g' _ k hk with h | h
          · exact hp k h
          · exact Or.inr h
      · rw [if_neg hc] at hk
        rcases keys_estPdrs cfg lseid ip apps rest pool' g _ k hk with h | h
        · exact hp k h
        · exact Or.inr h

theorem keys_release (pool : Option Pool.P) (g : Teid.G) (lseid : Nat) (pdrs : List Pdr) :
    ∀ k ∈ poolKeys (releaseRes pool g lseid pdrs).1, k ∈ poolKeys pool ∧ k ≠ lseid := by
  intro k hk
  unfold releaseRes at hk
  cases pool with
  | none => cases hk
  | some pl =>
    simp only [Option.map_some, poolKeys] at hk ⊢
    unfold Pool.dealloc at hk
    split at hk
    · rename_i hl
      refine ⟨hk, fun e => ?_⟩
      subst e
      obtain ⟨x, hx, hxk⟩ := List.mem_map.mp hk
      unfold Pool.lookup at hl
      have hl' : ∀ (a b : Nat), (a, b) ∈ pl.inv → ¬a = k := by simpa using hl
      exact hl' x.1 x.2 hx hxk
    · obtain ⟨x, hx, hxk⟩ := List.mem_map.mp hk
      have hf := List.mem_filter.mp hx
      exact ⟨List.mem_map.mpr ⟨x, hf.1, hxk⟩, by rw [← hxk]; simpa using hf.2⟩


/-! ## the world -/

/-- every held address is held under the SEID of a stored session -/
def Owned (w : World) : Prop := ∀ k ∈ poolKeys w.pool, ∃ s ∈ allSessions w, s.lseid = k

theorem setConn_pool (w : World) (a : Nat) (c : Conn) : (w.setConn a c).pool = w.pool := by
  unfold World.setConn; split <;> rfl

theorem Owned.congr {w w' : World} (h : Owned w) (hp : w'.pool = w.pool) (hs : ∀ s, s ∈ allSessions w → s ∈ allSessions w') : Owned w' := by
  intro k hk
  rw [hp] at hk
  obtain ⟨s, hs', hl⟩ := h k hk
  exact ⟨s, hs s hs', hl⟩

/-- **establishment, accepted or refused at any point, leaks no address** -/
theorem establish_owned (cfg : Cfg) (w : World) (a lseid : Nat) (r : EstReq) (hk : (w.conns.map (·.1)).Nodup) (hO : Owned w) :
    Owned (establish cfg w a lseid r).1 := by
  have hloop := keys_estPdrs cfg lseid r.cpIP (w.conn a).apps r.pdrs w.pool w.teid []
  unfold establish
  dsimp only
  by_cases hne : r.nodeID ≠ (w.conn a).remoteNode
  · rw [if_pos hne]; exact hO
  · rw [if_neg hne]
    -- a refusal after the loop releases what the session holds: only keys other than `lseid` remain, all of them old
    have hrefuse : ∀ (pool : Option Pool.P) (g : Teid.G) (pdrs : List Pdr), (∀ k ∈ poolKeys pool, k ∈ poolKeys w.pool ∨ k = lseid) →
        Owned { w with pool := (releaseRes pool g lseid pdrs).1, teid := (releaseRes pool g lseid pdrs).2 } := by
      intro pool g pdrs hkeys k hk'
      obtain ⟨h1, h2⟩ := keys_release pool g lseid pdrs k hk'
      rcases hkeys k h1 with h | h
      · exact hO k h
      · exact absurd h h2
    cases hest : estPdrs cfg lseid r.cpIP (w.conn a).apps r.pdrs w.pool w.teid [] with
    | error e =>
      obtain ⟨cause, pdrs, pool, g⟩ := e
      rw [hest] at hloop
      exact hrefuse pool g pdrs hloop
    | ok v =>
      obtain ⟨pdrs, pool, g⟩ := v
      rw [hest] at hloop
      dsimp only
      cases hf : mapFars cfg lseid r.cpIP false r.fars with
      | error e => cases e with | reject cause => exact hrefuse pool g pdrs hloop
      | ok fars =>
        dsimp only
        intro k hk'
        rw [setConn_pool] at hk'
        have hp := append_session_perm w a
          { lseid := lseid, rseid := r.cpSeid,
            pdrs := (markSessionQer (markSessionQer pdrs (r.qers.map fun ie => { parseQER lseid ie with fseidIP := r.cpIP })).2
                      (r.qers.map fun ie => { parseQER lseid ie with fseidIP := r.cpIP })).2,
            fars := fars,
            qers := (markSessionQer pdrs (r.qers.map fun ie => { parseQER lseid ie with fseidIP := r.cpIP })).1 } hk
        unfold allSessions
        rw [setConn_conns]
        rcases hloop k hk' with h | h
        · obtain ⟨s, hs, hl⟩ := hO k h
          exact ⟨s, hp.mem_iff.mpr (List.mem_cons_of_mem _ hs), hl⟩
        · exact ⟨_, hp.mem_iff.mpr List.mem_cons_self, h.symm⟩

/-- a stored session leaves: its address is returned, the others stay owned -/
theorem remove_owned (cfg : Cfg) (w : World) (a seid : Nat) (s : Session) (hI : Inv cfg w) (hO : Owned w)
    (hfind : (w.conn a).sessions.find? (·.lseid = seid) = some s) (w' : World)
    (hp : w'.pool = (releaseRes w.pool w.teid s.lseid s.pdrs).1)
    (hc : w'.conns = setL w.conns a { w.conn a with sessions := (w.conn a).sessions.filter (·.lseid ≠ seid) }) : Owned w' := by
  intro k hk
  rw [hp] at hk
  obtain ⟨h1, h2⟩ := keys_release w.pool w.teid s.lseid s.pdrs k hk
  obtain ⟨x, hx, hl⟩ := hO k h1
  have p := remove_perm cfg w a seid s hI hfind
  rcases List.mem_cons.mp (p.mem_iff.mp hx) with rfl | hx'
  · exact absurd hl.symm h2
  · exact ⟨x, by unfold allSessions; rw [hc]; exact hx', hl⟩

theorem delete_owned (cfg : Cfg) (w : World) (a seid : Nat) (hI : Inv cfg w) (hO : Owned w) : Owned (deleteSession cfg w a seid).1 := by
  unfold deleteSession
  dsimp only
  cases hfind : (w.conn a).sessions.find? (·.lseid = seid) with
  | none => exact hO
  | some s =>
    dsimp only
    exact remove_owned cfg w a seid s hI hO hfind _ (by rw [setConn_pool]) (by rw [setConn_conns])

theorem report_owned (cfg : Cfg) (w : World) (a seid : Nat) (hI : Inv cfg w) (hO : Owned w) : Owned (reportContextNotFound cfg w a seid) := by
  unfold reportContextNotFound
  dsimp only
  cases hfind : (w.conn a).sessions.find? (·.lseid = seid) with
  | none => exact hO
  | some s =>
    dsimp only
    exact remove_owned cfg w a seid s hI hO hfind _ (by rw [setConn_pool]; rfl) (by rw [setConn_conns]; rfl)

theorem foldl_drop_pool (cfg : Cfg) : ∀ (ss : List Session) (w : World),
    ∀ k ∈ poolKeys (ss.foldl (dropSession cfg) w).pool, k ∈ poolKeys w.pool ∧ ∀ s ∈ ss, k ≠ s.lseid
  | [], w => fun k hk => ⟨hk, fun s hs => by cases hs⟩
  | s :: rest, w => by
    intro k hk
    rw [List.foldl_cons] at hk
    obtain ⟨h1, h2⟩ := foldl_drop_pool cfg rest (dropSession cfg w s) k hk
    have h3 : k ∈ poolKeys (releaseRes w.pool w.teid s.lseid s.pdrs).1 := h1
    obtain ⟨h4, h5⟩ := keys_release w.pool w.teid s.lseid s.pdrs k h3
    exact ⟨h4, fun x hx => by rcases List.mem_cons.mp hx with rfl | hx; exact h5; exact h2 x hx⟩

theorem shutdown_owned (cfg : Cfg) (w : World) (a : Nat) (hI : Inv cfg w) (hO : Owned w) : Owned (shutdownConn cfg w a) := by
  unfold shutdownConn
  dsimp only
  intro k hk
  obtain ⟨h1, h2⟩ := foldl_drop_pool cfg (w.conn a).sessions w k hk
  obtain ⟨x, hx, hl⟩ := hO k h1
  have p := flat_filter a w.conns hI.keys
  rcases List.mem_append.mp (p.mem_iff.mp hx) with hx' | hx'
  · exact absurd hl.symm (h2 x hx')
  · refine ⟨x, ?_, hl⟩
    unfold allSessions; dsimp only; rw [foldl_drop_conns]; exact hx'


theorem modify_farOnly_pool (cfg : Cfg) (w : World) (a : Nat) (r : ModReq) (hr : FarOnly r) : (modify cfg w a r).world.pool = w.pool := by
  obtain ⟨h1, h2, h3, h4, h5, h6, h7, h8⟩ := hr
  unfold modify
  simp only [h1, h2, h3, h4, h5, h6, h7, h8]
  simp only [parsePdrs, mapFars, pure, Except.pure]
  repeat' split
  all_goals first | rfl | (rw [setConn_pool])

theorem modFar_owned (cfg : Cfg) (w : World) (a : Nat) (r : ModReq) (s0 : Session) (hI : Inv cfg w) (hO : Owned w) (hr : FarOnly r)
    (h : (w.conn a).sessions.find? (·.lseid = r.seid) = some s0)
    (hstable : markSessionQer s0.pdrs s0.qers = (s0.qers, s0.pdrs)) : Owned (modify cfg w a r).world := by
  have hpool := modify_farOnly_pool cfg w a r hr
  rcases modify_farOnly_cases cfg w a r s0 hr h hstable with ⟨hc, _⟩ | ⟨uf, _, _, hc⟩
  · exact hO.congr hpool (fun s hs => by unfold allSessions at hs ⊢; rw [hc]; exact hs)
  · obtain ⟨rest, p1, p2⟩ := conn_sublist_perm w a hI.keys
    have hpw : ((w.conn a).sessions ++ rest).Pairwise (Disj cfg) := pairwise_perm p1 hI.disj
    have hpc : (w.conn a).sessions.Pairwise (fun x y => x.lseid ≠ y.lseid) := (List.pairwise_append.mp hpw).1.imp (fun h => h.1)
    have pold : (allSessions w).Perm (s0 :: ((w.conn a).sessions.filter (·.lseid ≠ r.seid) ++ rest)) :=
      p1.trans (List.Perm.append_right rest (filter_perm r.seid _ s0 hpc h))
    have pnew : (allSessions (modify cfg w a r).world).Perm
        (afterFarUpdate r s0 uf :: ((w.conn a).sessions.filter (·.lseid ≠ r.seid) ++ rest)) := by
      unfold allSessions; rw [hc]
      exact (p2 _).trans (List.Perm.append_right rest (map_replace_perm r.seid _ _ s0 hpc h))
    intro k hk
    rw [hpool] at hk
    obtain ⟨x, hx, hl⟩ := hO k hk
    rcases List.mem_cons.mp (pold.mem_iff.mp hx) with rfl | hx'
    · exact ⟨afterFarUpdate r x uf, pnew.mem_iff.mpr List.mem_cons_self, hl⟩
    · exact ⟨x, pnew.mem_iff.mpr (List.mem_cons_of_mem _ hx'), hl⟩

theorem foldl_drop_poolinv (base : List Nat) (cfg : Cfg) : ∀ (ss : List Session) (w : World), PoolInv base w.pool →
    PoolInv base (ss.foldl (dropSession cfg) w).pool
  | [], _, h => h
  | s :: rest, w, h => by
    rw [List.foldl_cons]
    exact foldl_drop_poolinv base cfg rest _ (inv_release base w.pool w.teid s.lseid s.pdrs h)

end Agent
