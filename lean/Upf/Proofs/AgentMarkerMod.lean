import Upf.Proofs.AgentMarker
/-! End markers at the level of the Session Modification handler (`Agent.modify`), C14. -/
namespace Agent
/-- the address the created / updated rules get as F-SEID address: the one a CP F-SEID of this request brings, else 0 -/
def fseidIPOf (r : ModReq) : Nat := match r.cpFseid with | some (_, ip) => ip | none => 0

/-- the markers a modification emits: with the feature on, exactly those its Update FAR loop collected over the session's FARs
(stored and just created) — whether or not a later Remove step fails; with the feature off, none -/
theorem modify_markers (cfg : Cfg) (w : World) (a : Nat) (r : ModReq) (s0 : Session)
    (h : (w.conn a).sessions.find? (·.lseid = r.seid) = some s0)
    (cp up : List Pdr) (pool1 pool2 : Option Pool.P) (cf uf : List Far)
    (hcp : parsePdrs r.seid (fseidIPOf r) (w.conn a).apps r.createPdrs w.pool = .ok (cp, pool1))
    (hcf : mapFars cfg r.seid (fseidIPOf r) false r.createFars = .ok cf)
    (hup : parsePdrs r.seid (fseidIPOf r) (w.conn a).apps r.updatePdrs pool1 = .ok (up, pool2))
    (huf : mapFars cfg r.seid (fseidIPOf r) true r.updateFars = .ok uf) :
    (modify cfg w a r).markers = if cfg.endMarker then (updFars (s0.fars ++ cf) uf).2.2 else [] := by
  unfold modify
  unfold fseidIPOf at hcp hcf hup huf
  simp only [h]
  cases hc : r.cpFseid with
  | none =>
    simp only [hc] at hcp hcf hup huf
    simp only [hcp, hcf, hup, huf]
    repeat' split
    all_goals rfl
  | some v =>
    obtain ⟨c, ip⟩ := v
    simp only [hc] at hcp hcf hup huf
    simp only [hcp, hcf, hup, huf]
    repeat' split
    all_goals rfl

/-- a modification refused before anything was programmed (unknown session, or a Create / Update rule that does not parse) emits none -/
theorem modify_no_marker_unknown_session (cfg : Cfg) (w : World) (a : Nat) (r : ModReq)
    (h : (w.conn a).sessions.find? (·.lseid = r.seid) = none) : (modify cfg w a r).markers = [] := by
  unfold modify; simp only [h]

theorem modify_no_marker_bad_create_pdr (cfg : Cfg) (w : World) (a : Nat) (r : ModReq) (e : PErr × Option Pool.P)
    (hcp : parsePdrs r.seid (fseidIPOf r) (w.conn a).apps r.createPdrs w.pool = .error e) : (modify cfg w a r).markers = [] := by
  unfold modify
  unfold fseidIPOf at hcp
  cases hf : (w.conn a).sessions.find? (·.lseid = r.seid) with
  | none => simp only [hf]
  | some s0 =>
    obtain ⟨e1, e2⟩ := e
    simp only [hf]
    cases hc : r.cpFseid with
    | none => simp only [hc] at hcp; simp only [hcp]
    | some v => obtain ⟨c, ip⟩ := v; simp only [hc] at hcp; simp only [hcp]

theorem modify_no_marker_bad_update_far (cfg : Cfg) (w : World) (a : Nat) (r : ModReq) (e : PErr)
    (huf : mapFars cfg r.seid (fseidIPOf r) true r.updateFars = .error e) : (modify cfg w a r).markers = [] := by
  unfold modify
  unfold fseidIPOf at huf
  cases hf : (w.conn a).sessions.find? (·.lseid = r.seid) with
  | none => simp only [hf]
  | some s0 =>
    simp only [hf]
    cases hc : r.cpFseid with
    | none =>
      simp only [hc] at huf; simp only [huf]
      repeat' split
      all_goals rfl
    | some v =>
      obtain ⟨c, ip⟩ := v; simp only [hc] at huf; simp only [huf]
      repeat' split
      all_goals rfl

end Agent
