import Upf.Model.Lockset

namespace Lockset

theorem inv_step (guard : Loc → Lock) (s s' : St) (a : Act) (h : Inv guard s) (hs : step guard s a = some s') :
    Inv guard s' := by
  cases a with
  | acquire t l =>
    simp only [step] at hs
    split at hs
    · rename_i hfree
      cases hs
      intro u x hu
      have := h u x hu
      simp only
      by_cases e : guard x = l
      · rw [e] at this; rw [hfree] at this; cases this
      · simp [e, this]
    · cases hs
  | release t l =>
    simp only [step] at hs
    split at hs
    · rename_i hc
      cases hs
      intro u x hu
      have := h u x hu
      simp only
      by_cases e : guard x = l
      · rw [e] at this
        rw [hc.1] at this
        cases this
        rw [hc.2] at hu; cases hu
      · simp [e, this]
    · cases hs
  | enter t x =>
    simp only [step] at hs
    split at hs
    · rename_i hc
      cases hs
      intro u y hu
      simp only at hu ⊢
      by_cases e : u = t
      · subst e; simp at hu; subst hu; exact hc.1
      · simp [e] at hu; exact h u y hu
    · cases hs
  | leave t =>
    simp only [step] at hs
    cases hs
    intro u y hu
    simp only at hu ⊢
    by_cases e : u = t
    · simp [e] at hu
    · simp [e] at hu; exact h u y hu

/-- in every reachable state two different threads are never inside accesses to locations
    guarded by the same mutex — in particular never inside the same location: no data race -/
theorem race_free (guard : Loc → Lock) : ∀ (acts : List Act) (s s' : St), Inv guard s →
    run guard s acts = some s' →
    ∀ t u x y, t ≠ u → s'.inside t = some x → s'.inside u = some y → guard x ≠ guard y := by
  intro acts
  induction acts with
  | nil =>
    intro s s' h hr t u x y htu hx hy e
    simp [run] at hr; subst hr
    have a := h t x hx
    have b := h u y hy
    rw [e] at a; rw [a] at b; cases b; exact htu rfl
  | cons a as ih =>
    intro s s' h hr
    simp only [run] at hr
    split at hr
    · cases hr
    · rename_i s1 h1
      exact ih s1 s' (inv_step guard s s1 a h h1) hr

#print axioms race_free

end Lockset

