import Upf.Model.Teid

namespace Teid

theorem scan_some {M used} : ∀ {f o r}, o < M → scan M used f o = some r → r < M ∧ used r = false := by
  intro f
  induction f with
  | zero => intro o r _ h; simp [scan] at h
  | succ n ih =>
    intro o r ho h
    simp only [scan] at h
    split at h
    · exact ih (Nat.mod_lt _ (by omega)) h
    · cases h; exact ⟨ho, by simp_all⟩

/-- if the scan fails, every one of the `f` visited positions is used -/
theorem scan_none {M used} (hM : 0 < M) : ∀ {f o}, o < M → scan M used f o = none →
    ∀ k, k < f → used ((o + k) % M) = true := by
  intro f
  induction f with
  | zero => intro o _ _ k hk; omega
  | succ n ih =>
    intro o ho h k hk
    simp only [scan] at h
    split at h
    · rename_i hu
      cases k with
      | zero => simpa [Nat.mod_eq_of_lt ho] using hu
      | succ j =>
        have := ih (Nat.mod_lt _ hM) h j (by omega)
        have e : ((o + 1) % M + j) % M = (o + (j + 1)) % M := by
          rw [Nat.add_mod, Nat.mod_mod, ← Nat.add_mod]; congr 1; omega
        unfold nextOff at this
        rwa [e] at this
    · cases h

/-- every residue is visited by a full cycle -/
theorem residue_hit (M o x : Nat) (ho : o < M) (hx : x < M) : ∃ k, k < M ∧ (o + k) % M = x := by
  by_cases h : o ≤ x
  · exact ⟨x - o, by omega, by rw [show o + (x - o) = x by omega]; exact Nat.mod_eq_of_lt hx⟩
  · refine ⟨x + M - o, by omega, ?_⟩
    rw [show o + (x + M - o) = x + M by omega, Nat.add_mod_right]; exact Nat.mod_eq_of_lt hx

theorem alloc_fresh (M : Nat) (g : G) (id : Nat) (g' : G) (ho : g.offset < M)
    (h : allocate M g = some (id, g')) :
    id ≠ 0 ∧ id ≤ M ∧ g.used (id - 1) = false ∧ g'.used (id - 1) = true ∧
    (∀ x, x ≠ id - 1 → g'.used x = g.used x) ∧ g'.offset < M := by
  unfold allocate at h
  split at h
  · cases h
  · rename_i o hs
    cases h
    obtain ⟨h1, h2⟩ := scan_some ho hs
    refine ⟨by omega, by omega, by simpa using h2, by simp, ?_, Nat.mod_lt _ (by omega)⟩
    intro x hx; simp at hx ⊢; intro hxo; exact absurd hxo hx

theorem alloc_full (M : Nat) (g : G) (hM : 0 < M) (ho : g.offset < M) (h : allocate M g = none) :
    ∀ x, x < M → g.used x = true := by
  unfold allocate at h
  split at h
  · rename_i hs
    intro x hx
    obtain ⟨k, hk, e⟩ := residue_hit M g.offset x ho hx
    have := scan_none hM ho hs k hk
    rwa [e] at this
  · cases h

#print axioms alloc_full
#print axioms alloc_fresh

end Teid

