import Upf.Model.Agent
/-! Soundness of `MarkSessionQer` as it is in session_qer.go now (Agent.markSessionQer). -/
namespace Agent

theorem intersect_sub_right (a b : List Nat) : ∀ x ∈ intersect a b, x ∈ b := by
  intro x hx; simp [intersect] at hx; exact hx.2

theorem intersect_sub_left (a b : List Nat) : ∀ x ∈ intersect a b, x ∈ a := by
  intro x hx; simp [intersect] at hx; exact hx.1

/-- every candidate is in every PDR's list and in the starting list -/
theorem common_sub : ∀ (ls : List (List Nat)) (acc r : List Nat), common acc ls = some r →
    (∀ x ∈ r, x ∈ acc) ∧ ∀ l ∈ ls, ∀ x ∈ r, x ∈ l := by
  intro ls
  induction ls with
  | nil => intro acc r h; simp [common] at h; subst h; exact ⟨fun _ h => h, fun _ h => by cases h⟩
  | cons l ls ih =>
    intro acc r h
    simp only [common] at h
    split at h
    · cases h
    · obtain ⟨h1, h2⟩ := ih _ r h
      refine ⟨fun x hx => intersect_sub_left acc l x (h1 x hx), ?_⟩
      intro l' hl' x hx
      rcases List.mem_cons.mp hl' with rfl | hin
      · exact intersect_sub_right acc _ x (h1 x hx)
      · exact h2 l' hin x hx

/-- the chosen triple points at a candidate without GBR, and carries its ID -/
theorem choose_spec (cands : List Nat) : ∀ (qs : List Qer) (i : Nat) (best : Option (Nat × Nat × Nat)) (all : List Qer),
    (∀ j id m, best = some (j, id, m) → ∃ q, all[j]? = some q ∧ q.qerID = id ∧ cands.contains q.qerID = true ∧ ¬ (q.ulGbr > 0 ∨ q.dlGbr > 0)) →
    (∀ k q, qs[k]? = some q → all[i + k]? = some q) →
    ∀ j id m, choose cands qs i best = some (j, id, m) →
      ∃ q, all[j]? = some q ∧ q.qerID = id ∧ cands.contains q.qerID = true ∧ ¬ (q.ulGbr > 0 ∨ q.dlGbr > 0) := by
  intro qs
  induction qs with
  | nil => intro i best all hb _ j id m h; simp [choose] at h; exact hb j id m h
  | cons q qs ih =>
    intro i best all hb hall j id m h
    have hq : all[i]? = some q := by simpa using hall 0 q (by simp)
    have hshift : ∀ k q', qs[k]? = some q' → all[i + 1 + k]? = some q' := by
      intro k q' hk
      have := hall (k+1) q' (by simpa using hk)
      rwa [show i + (k + 1) = i + 1 + k by omega] at this
    simp only [choose] at h
    split at h
    · rename_i hc
      have hnew : ∀ j id m, some (i, q.qerID, q.ulMbr) = some (j, id, m) →
          ∃ q', all[j]? = some q' ∧ q'.qerID = id ∧ cands.contains q'.qerID = true ∧ ¬ (q'.ulGbr > 0 ∨ q'.dlGbr > 0) := by
        intro j id m e; cases e; exact ⟨q, hq, rfl, hc.1, hc.2⟩
      split at h
      · exact ih (i+1) _ all hnew hshift j id m h
      · split at h
        · exact ih (i+1) _ all hnew hshift j id m h
        · exact ih (i+1) _ all hb hshift j id m h
    · exact ih (i+1) _ all hb hshift j id m h

/-- soundness of one marking call: a QER that this call marks is referenced by every PDR of the session,
and it carries no guaranteed bit rate -/
theorem mark_sound (pdrs : List Pdr) (qers : List Qer) (k : Nat) (q q' : Qer)
    (hq : qers[k]? = some q) (hq' : (markSessionQer pdrs qers).1[k]? = some q')
    (hnew : q.session = false) (hmarked : q'.session = true) :
    (∀ p ∈ pdrs, q'.qerID ∈ p.qerIDs) ∧ q'.ulGbr = 0 ∧ q'.dlGbr = 0 := by
  unfold markSessionQer at hq'
  split at hq'
  · rw [hq] at hq'; cases hq'; simp [hnew] at hmarked
  · rename_i last hlast
    split at hq'
    · rw [hq] at hq'; cases hq'; simp [hnew] at hmarked
    · split at hq'
      · rw [hq] at hq'; cases hq'; simp [hnew] at hmarked
      · rename_i cands hc
        split at hq'
        · rw [hq] at hq'; cases hq'; simp [hnew] at hmarked
        · rename_i i id m hch
          obtain ⟨qi, hqi, _, hcand, hg⟩ := choose_spec cands qers 0 none qers (by intro j id m e; cases e)
            (by intro k q h; simpa using h) i id m hch
          simp only [List.getElem?_mapIdx, hq, Option.map_some] at hq'
          by_cases hik : k = i
          · subst hik
            simp only [if_true, Option.some.injEq] at hq'
            rw [hq] at hqi; cases hqi
            subst hq'
            have hin : q.qerID ∈ cands := by simpa using hcand
            refine ⟨?_, by simp at hg ⊢; omega, by simp at hg ⊢; omega⟩
            intro p hp
            exact (common_sub (pdrs.map (·.qerIDs)) last.qerIDs cands hc).2 p.qerIDs (List.mem_map.mpr ⟨p, hp, rfl⟩) q.qerID hin
          · simp only [hik, if_false, Option.some.injEq] at hq'
            subst hq'; simp [hnew] at hmarked

theorem mark_form (pdrs : List Pdr) (qers : List Qer) :
    (markSessionQer pdrs qers).1 = qers ∨
    ∃ i, (markSessionQer pdrs qers).1 = qers.mapIdx (fun j q => if j = i then { q with session := true } else q) := by
  unfold markSessionQer
  split
  · exact Or.inl rfl
  · split
    · exact Or.inl rfl
    · split
      · exact Or.inl rfl
      · split
        · exact Or.inl rfl
        · rename_i i id m _; exact Or.inr ⟨i, rfl⟩

/-- one call marks at most one QER -/
theorem mark_at_most_one (pdrs : List Pdr) (qers : List Qer) (k1 k2 : Nat) (q1 q2 q1' q2' : Qer)
    (h1 : qers[k1]? = some q1) (h2 : qers[k2]? = some q2)
    (h1' : (markSessionQer pdrs qers).1[k1]? = some q1') (h2' : (markSessionQer pdrs qers).1[k2]? = some q2')
    (n1 : q1.session = false) (n2 : q2.session = false) (m1 : q1'.session = true) (m2 : q2'.session = true) : k1 = k2 := by
  rcases mark_form pdrs qers with e | ⟨i, e⟩
  · rw [e, h1] at h1'; cases h1'; simp [n1] at m1
  · rw [e] at h1' h2'
    simp only [List.getElem?_mapIdx, h1, h2, Option.map_some] at h1' h2'
    by_cases e1 : k1 = i
    · by_cases e2 : k2 = i
      · omega
      · simp only [e2, if_false, Option.some.injEq] at h2'; subst h2'; simp [n2] at m2
    · simp only [e1, if_false, Option.some.injEq] at h1'; subst h1'; simp [n1] at m1

/-- marking never changes anything but the level of QERs, and keeps every PDR's QER list a permutation of itself -/
theorem mark_keeps_lists (pdrs : List Pdr) (qers : List Qer) :
    ((markSessionQer pdrs qers).2.map (·.pdrID)) = pdrs.map (·.pdrID) := by
  unfold markSessionQer
  split
  · rfl
  · split
    · rfl
    · split
      · rfl
      · split
        · rfl
        · simp [List.map_map, Function.comp_def]

end Agent
