import Upf.Proofs.ModPool
import Upf.Proofs.AgentReply
import Upf.Proofs.Local
/-! Histories of ARBITRARY requests (no envelope): what holds of the agent model after any sequence of association setups, PFD
updates, establishments, modifications (any mix of IEs), deletions, reports and association endings. -/
namespace Agent

inductive Req
  | assoc (a : Nat) (node : String)
  | pfd (a : Nat) (apps : List (String × List String)) (ok : Bool)
  | est (a lseid : Nat) (r : EstReq)
  | mod (a : Nat) (r : ModReq)
  | del (a seid : Nat)
  | report (a seid : Nat)
  | shutdown (a : Nat)

def stepReq (cfg : Cfg) (w : World) : Req → World
  | .assoc a node => assocSetup w a node
  | .pfd a apps ok => pfdManagement w a apps ok
  | .est a lseid r => (establish cfg w a lseid r).1
  | .mod a r => (modify cfg w a r).world
  | .del a seid => (deleteSession cfg w a seid).1
  | .report a seid => reportContextNotFound cfg w a seid
  | .shutdown a => shutdownConn cfg w a

theorem stepReq_pool (base : List Nat) (cfg : Cfg) (w : World) (q : Req) (h : PoolInv base w.pool) :
    PoolInv base (stepReq cfg w q).pool := by
  cases q with
  | assoc a node => show PoolInv base (assocSetup w a node).pool; unfold assocSetup; rw [setConn_pool]; exact h
  | pfd a apps ok =>
    show PoolInv base (pfdManagement w a apps ok).pool
    unfold pfdManagement
    cases ok with
    | true => simp only [if_true]; rw [setConn_pool]; exact h
    | false => exact h
  | est a lseid r => exact inv_establish base cfg w a lseid r h
  | mod a r => exact (modify_pool_any base cfg w a r h).1
  | del a seid => exact inv_delete base cfg w a seid h
  | report a seid =>
    show PoolInv base (reportContextNotFound cfg w a seid).pool
    unfold reportContextNotFound
    dsimp only
    split
    · exact h
    · rename_i s _; rw [setConn_pool]; exact inv_release base w.pool w.teid s.lseid s.pdrs h
  | shutdown a =>
    show PoolInv base (shutdownConn cfg w a).pool
    unfold shutdownConn
    dsimp only
    exact foldl_drop_poolinv base cfg _ w h

/-- the UE address pool's invariant survives EVERY sequence of requests, with no assumption on them -/
theorem pool_any_history (base : List Nat) (cfg : Cfg) : ∀ (qs : List Req) (w : World), PoolInv base w.pool →
    PoolInv base (qs.foldl (stepReq cfg) w).pool
  | [], _, h => h
  | q :: rest, w, h => by rw [List.foldl_cons]; exact pool_any_history base cfg rest _ (stepReq_pool base cfg w q h)

/-- the association a request belongs to -/
def Req.by : Req → Nat
  | .assoc a _ => a | .pfd a _ _ => a | .est a _ _ => a | .mod a _ => a | .del a _ => a | .report a _ => a | .shutdown a => a

theorem stepReq_local (cfg : Cfg) (w : World) (q : Req) (a' : Nat) (h : a' ≠ q.by) : (stepReq cfg w q).conn a' = w.conn a' := by
  cases q with
  | assoc a node => exact conn_setConn_ne w a a' _ h
  | pfd a apps ok =>
    show (pfdManagement w a apps ok).conn a' = w.conn a'
    unfold pfdManagement
    cases ok with
    | true => simp only [if_true]; exact conn_setConn_ne w a a' _ h
    | false => rfl
  | est a lseid r => exact establish_local cfg w a a' lseid r h
  | mod a r => exact modify_local cfg w a a' r h
  | del a seid => exact delete_local cfg w a a' seid h
  | report a seid => exact report_local cfg w a a' seid h
  | shutdown a => exact shutdown_local cfg w a a' h

/-- whatever the OTHER associations send, in any number and order, and however they end: the record of association `a'` —
node ID, PFD table, every stored session with all its rules — is what it was -/
theorem foreign_history_keeps_record (cfg : Cfg) (a' : Nat) : ∀ (qs : List Req) (w : World), (∀ q ∈ qs, a' ≠ q.by) →
    (qs.foldl (stepReq cfg) w).conn a' = w.conn a'
  | [], _, _ => rfl
  | q :: rest, w, h => by
    rw [List.foldl_cons, foreign_history_keeps_record cfg a' rest _ (fun x hx => h x (List.mem_cons_of_mem _ hx))]
    exact stepReq_local cfg w q a' (h q List.mem_cons_self)

/-- a request that can make a session hold a UE address: an establishment or a modification -/
def Req.mayAllocate : Req → Bool
  | .est _ _ _ => true
  | .mod _ _ => true
  | _ => false

/-- **addresses are only taken by establishments and modifications** (and there only under the SEID the request names —
`any_modification_keeps_pool`): after any other request every session that holds an address held it before -/
theorem only_est_or_mod_take_addresses (cfg : Cfg) (w : World) (q : Req) (hq : q.mayAllocate = false) (k : Nat)
    (h : k ∈ poolKeys (stepReq cfg w q).pool) : k ∈ poolKeys w.pool := by
  cases q with
  | assoc a node =>
    have : (stepReq cfg w (.assoc a node)).pool = w.pool := by show (assocSetup w a node).pool = w.pool; unfold assocSetup; rw [setConn_pool]
    rw [this] at h; exact h
  | pfd a apps ok =>
    have : (stepReq cfg w (.pfd a apps ok)).pool = w.pool := by
      show (pfdManagement w a apps ok).pool = w.pool
      unfold pfdManagement
      cases ok with
      | true => simp only [if_true]; rw [setConn_pool]
      | false => rfl
    rw [this] at h; exact h
  | est a lseid r => simp [Req.mayAllocate] at hq
  | mod a r => simp [Req.mayAllocate] at hq
  | del a seid =>
    have h' : k ∈ poolKeys (deleteSession cfg w a seid).1.pool := h
    unfold deleteSession at h'
    dsimp only at h'
    split at h'
    · exact h'
    · rename_i s _
      rw [setConn_pool] at h'
      exact (keys_release w.pool w.teid s.lseid s.pdrs k h').1
  | report a seid =>
    have h' : k ∈ poolKeys (reportContextNotFound cfg w a seid).pool := h
    unfold reportContextNotFound at h'
    dsimp only at h'
    split at h'
    · exact h'
    · rename_i s _
      rw [setConn_pool] at h'
      exact (keys_release w.pool w.teid s.lseid s.pdrs k h').1
  | shutdown a =>
    have h' : k ∈ poolKeys (shutdownConn cfg w a).pool := h
    unfold shutdownConn at h'
    dsimp only at h'
    exact (foldl_drop_pool cfg _ w k h').1

end Agent
