import Upf.Model.Notif

namespace Notif

/-- invariant used below: `last f = some t` means a notification for f was forwarded at t ≤ every later time -/
theorem spacing_aux (iv : Nat) : ∀ (evs : List (Nat × Nat)) (st : St) (f t0 : Nat),
    st.last f = some t0 → (∀ e ∈ evs, t0 ≤ e.1) → Mono evs →
    ∀ e ∈ run iv st evs, e.2 = f → e.1 ≥ t0 + iv := by
  intro evs
  induction evs with
  | nil => intro st f t0 _ _ _ e he; simp [run] at he
  | cons ev rest ih =>
    intro st f t0 hl hge hm e he hef
    obtain ⟨t, g⟩ := ev
    have ht : t0 ≤ t := hge (t, g) List.mem_cons_self
    have hrest : ∀ x ∈ rest, t ≤ x.1 := by
      intro x hx
      cases rest with
      | nil => cases hx
      | cons y ys =>
        have h1 : t ≤ y.1 := hm.1
        rcases List.mem_cons.mp hx with rfl | hx'
        · exact h1
        · -- monotone tail
          have : ∀ (l : List (Nat × Nat)) (a : Nat × Nat), Mono (a :: l) → ∀ z ∈ l, a.1 ≤ z.1 := by
            intro l
            induction l with
            | nil => intro a _ z hz; cases hz
            | cons b bs ihl =>
              intro a hmab z hz
              rcases List.mem_cons.mp hz with rfl | hz'
              · exact hmab.1
              · exact Nat.le_trans hmab.1 (ihl b hmab.2 z hz')
          exact Nat.le_trans h1 (this ys y hm.2 x hx')
    have hmrest : Mono rest := by
      cases rest with
      | nil => trivial
      | cons y ys => exact hm.2
    simp only [run] at he
    by_cases hgf : g = f
    · subst hgf
      simp only [shouldNotify, hl] at he
      by_cases hiv : t - t0 ≥ iv
      · simp only [hiv, if_true] at he
        rcases List.mem_cons.mp he with rfl | he'
        · simp; omega
        · have := ih _ g t (by simp) hrest hmrest e he' hef
          omega
      · simp only [hiv, if_false] at he
        exact ih st g t0 hl (fun x hx => Nat.le_trans ht (hrest x hx)) hmrest e he hef
    · -- another session's report does not touch f's entry
      have keep : ∀ st', (shouldNotify iv st t g).2 = st' → st'.last f = some t0 := by
        intro st' hs
        subst hs
        unfold shouldNotify
        split
        · simp [Ne.symm hgf, hl]
        · split
          · simp [Ne.symm hgf, hl]
          · exact hl
      have hst := keep _ rfl
      cases hb : (shouldNotify iv st t g).1
      · simp only [hb] at he
        exact ih _ f t0 hst (fun x hx => Nat.le_trans ht (hrest x hx)) hmrest e (by simpa using he) hef
      · simp only [hb, if_true] at he
        rcases List.mem_cons.mp he with rfl | he'
        · exact absurd hef hgf
        · exact ih _ f t0 hst (fun x hx => Nat.le_trans ht (hrest x hx)) hmrest e he' hef

/-- a first report for a session is never suppressed -/
theorem first_passes (iv : Nat) (st : St) (t f : Nat) (rest : List (Nat × Nat)) (h : st.last f = none) :
    (t, f) ∈ run iv st ((t, f) :: rest) := by
  simp [run, shouldNotify, h]

#print axioms spacing_aux

end Notif

namespace Retry

theorem go_bound (seq : Nat) : ∀ (es : List Ev) (r tx : Nat), (go seq r tx es).1 ≤ tx + r := by
  intro es
  induction es with
  | nil => intro r tx; simp [go]
  | cons e es ih =>
    intro r tx
    cases e with
    | timeout =>
      simp only [go]
      split
      · have := ih (r-1) (tx+1); omega
      · simp
    | resp s =>
      simp only [go]
      split
      · simp
      · exact ih r tx
    | shutdown => simp [go]

theorem tx_bound (seq N : Nat) (es : List Ev) : (send seq N es).1 ≤ 1 + N := by
  have := go_bound seq es N 1; unfold send; omega

/-- declared dead only after every one of the 1+N transmissions timed out -/
theorem dead_all_timeouts (seq : Nat) : ∀ (es : List Ev) (r tx : Nat), (go seq r tx es).2 = .dead →
    (go seq r tx es).1 = tx + r ∧ (es.filter (fun e => match e with | .timeout => true | _ => false)).length ≥ r + 1 := by
  intro es
  induction es with
  | nil => intro r tx h; simp [go] at h
  | cons e es ih =>
    intro r tx h
    cases e with
    | timeout =>
      simp only [go] at h ⊢
      split at h
      · rename_i hr
        simp only [hr, if_true]
        have := ih (r-1) (tx+1) h
        simp; omega
      · rename_i hr; simp [hr]; omega
    | resp s =>
      simp only [go] at h ⊢
      split at h
      · cases h
      · rename_i hs
        simp only [hs, if_false]
        have := ih r tx h
        simpa using this
    | shutdown => simp [go] at h

#print axioms dead_all_timeouts

theorem goU8_eq (seq : Nat) : ∀ (es : List Ev) (r : BitVec 8) (tx : Nat), goU8 seq r tx es = go seq r.toNat tx es
  | [], r, tx => by simp [goU8, go]
  | .timeout :: es, r, tx => by
    unfold goU8 go
    by_cases h : r > 0#8
    · have h1 : r.toNat > 0 := by simpa [BitVec.lt_def] using h
      have h2 : (r - 1#8).toNat = r.toNat - 1 := by
        rw [BitVec.toNat_sub]; simp; omega
      simp only [h, h1, if_true]
      rw [goU8_eq seq es, h2]
    · have h1 : ¬ r.toNat > 0 := by simpa [BitVec.lt_def] using h
      simp only [h, h1, if_false]
  | .resp s :: es, r, tx => by
    unfold goU8 go
    split
    · rfl
    · exact goU8_eq seq es r tx
  | .shutdown :: es, r, tx => by simp [goU8, go]

/-- at the code's width the loop is the modelled one: for every configured budget 0..255 -/
theorem sendU8_eq (seq : Nat) (N : BitVec 8) (es : List Ev) : sendU8 seq N es = send seq N.toNat es := goU8_eq seq es N 1

theorem tx_bound_u8 (seq : Nat) (N : BitVec 8) (es : List Ev) : (sendU8 seq N es).1 ≤ 1 + N.toNat ∧ (sendU8 seq N es).1 ≤ 256 := by
  rw [sendU8_eq]
  have := tx_bound seq N.toNat es
  have := N.isLt
  omega

end Retry

