import Upf.Proofs.Up4Frames
/-!
C15 on the model, tunnel-peer IDs and application IDs: for every environment the ID a recorded peer / application holds is
not in the free queue, two recorded peers / applications never hold the same ID, and the queue has no duplicates.
(An ID whose INSERT failed is dropped — a leak, which this property does not forbid.)
-/
namespace Up4

/-- free queue vs. recorded holders, for a map whose values carry an `id` -/
structure IdInv {κ ν : Type} [BEq κ] (idOf : ν → Nat) (pool : List Nat) (m : List (κ × ν)) : Prop where
  nd : pool.Nodup
  held : ∀ k v, mapGet m k = some v → idOf v ∉ pool
  owners : ∀ k1 k2 v1 v2, k1 ≠ k2 → mapGet m k1 = some v1 → mapGet m k2 = some v2 → idOf v1 ≠ idOf v2

variable {κ ν : Type} [BEq κ] [LawfulBEq κ]


theorem beq_false_of_ne' {k k' : κ} (h : k ≠ k') : (k == k') = false := by
  cases h2 : (k == k') with
  | false => rfl
  | true => exact absurd (beq_iff_eq.mp h2) h

/-- re-recording a holder with the same ID (reference added or dropped) -/
theorem idinv_update {idOf : ν → Nat} {pool : List Nat} {m : List (κ × ν)} (h : IdInv idOf pool m) (k : κ) (v v' : ν)
    (hg : mapGet m k = some v) (hid : idOf v' = idOf v) : IdInv idOf pool (mapPut m k v') := by
  have get : ∀ k2 w, mapGet (mapPut m k v') k2 = some w → (k2 = k ∧ w = v') ∨ (k2 ≠ k ∧ mapGet m k2 = some w) := by
    intro k2 w hw
    rw [mapGet_mapPut] at hw
    by_cases hk : k2 = k
    · subst hk; simp at hw; exact Or.inl ⟨rfl, hw.symm⟩
    · rw [beq_false_of_ne' hk] at hw; exact Or.inr ⟨hk, by simpa using hw⟩
  refine ⟨h.nd, ?_, ?_⟩
  · intro k2 w hw
    rcases get k2 w hw with ⟨_, rfl⟩ | ⟨_, h'⟩
    · rw [hid]; exact h.held k v hg
    · exact h.held k2 w h'
  · intro k1 k2 v1 v2 hne h1 h2
    rcases get k1 v1 h1 with ⟨e1, rfl⟩ | ⟨n1, h1'⟩ <;> rcases get k2 v2 h2 with ⟨e2, rfl⟩ | ⟨n2, h2'⟩
    · exact absurd (e1.trans e2.symm) hne
    · rw [hid]; exact h.owners k k2 v v2 (fun e => n2 e.symm) hg h2'
    · rw [hid]; exact h.owners k1 k v1 v n1 h1' hg
    · exact h.owners k1 k2 v1 v2 hne h1' h2'

/-- the head of the queue is taken and not (yet, or never) recorded -/
theorem idinv_take {idOf : ν → Nat} {id : Nat} {pool : List Nat} {m : List (κ × ν)} (h : IdInv idOf (id :: pool) m) :
    IdInv idOf pool m :=
  ⟨(List.nodup_cons.mp h.nd).2, fun k v hv hx => h.held k v hv (List.mem_cons_of_mem _ hx), h.owners⟩

/-- the taken ID is recorded under a key that had no holder -/
theorem idinv_record {idOf : ν → Nat} {id : Nat} {pool : List Nat} {m : List (κ × ν)} (h : IdInv idOf (id :: pool) m) (k : κ) (v : ν)
    (hg : mapGet m k = none) (hid : idOf v = id) : IdInv idOf pool (mapPut m k v) := by
  have hnd := List.nodup_cons.mp h.nd
  have get : ∀ k2 w, mapGet (mapPut m k v) k2 = some w → (k2 = k ∧ w = v) ∨ (k2 ≠ k ∧ mapGet m k2 = some w) := by
    intro k2 w hw
    rw [mapGet_mapPut] at hw
    by_cases hk : k2 = k
    · subst hk; simp at hw; exact Or.inl ⟨rfl, hw.symm⟩
    · rw [beq_false_of_ne' hk] at hw; exact Or.inr ⟨hk, by simpa using hw⟩
  refine ⟨hnd.2, ?_, ?_⟩
  · intro k2 w hw
    rcases get k2 w hw with ⟨_, rfl⟩ | ⟨_, h'⟩
    · rw [hid]; exact hnd.1
    · exact fun hx => h.held k2 w h' (List.mem_cons_of_mem _ hx)
  · intro k1 k2 v1 v2 hne h1 h2
    rcases get k1 v1 h1 with ⟨e1, rfl⟩ | ⟨n1, h1'⟩ <;> rcases get k2 v2 h2 with ⟨e2, rfl⟩ | ⟨n2, h2'⟩
    · exact absurd (e1.trans e2.symm) hne
    · rw [hid]; intro e; exact h.held k2 v2 h2' (e ▸ List.mem_cons_self)
    · rw [hid]; intro e; exact h.held k1 v1 h1' (e ▸ List.mem_cons_self)
    · exact h.owners k1 k2 v1 v2 hne h1' h2'

/-- a holder is forgotten and its ID appended to the queue -/
theorem idinv_release {idOf : ν → Nat} {pool : List Nat} {m : List (κ × ν)} (h : IdInv idOf pool m) (k : κ) (v : ν)
    (hg : mapGet m k = some v) : IdInv idOf (pool ++ [idOf v]) (mapDel m k) := by
  have get : ∀ k2 w, mapGet (mapDel m k) k2 = some w → k2 ≠ k ∧ mapGet m k2 = some w := by
    intro k2 w hw
    rw [mapGet_mapDel] at hw
    by_cases hk : k2 = k
    · subst hk; simp at hw
    · rw [beq_false_of_ne' hk] at hw; exact ⟨hk, by simpa using hw⟩
  refine ⟨?_, ?_, ?_⟩
  · exact List.nodup_append.mpr ⟨h.nd, by simp, by
      intro a ha b hb; simp at hb; subst hb; intro e; subst e; exact h.held k v hg ha⟩
  · intro k2 w hw hx
    obtain ⟨hne, h'⟩ := get k2 w hw
    rcases List.mem_append.mp hx with a | a
    · exact h.held k2 w h' a
    · simp at a; exact h.owners k2 k w v hne h' hg a
  · intro k1 k2 v1 v2 hne h1 h2
    exact h.owners k1 k2 v1 v2 hne (get k1 v1 h1).2 (get k2 v2 h2).2

/-! ## tunnel peers -/

abbrev PInv (st : St) : Prop := IdInv (fun (p : Shared) => p.id) st.peerPool st.peers

theorem addOrUpdatePeer_pinv (cfg : Cfg4) (c : Ctx) (f : Agent.Far) (h : PInv c.st) : PInv (addOrUpdatePeer cfg c f).1.st := by
  unfold addOrUpdatePeer
  try dsimp only
  cases hm : mapGet c.st.peers (tpOf cfg f) with
  | some pr =>
    simp only
    have hu : IdInv (fun (p : Shared) => p.id) c.st.peerPool
        (mapPut c.st.peers (tpOf cfg f) { pr with usedBy := pairAdd pr.usedBy (f.fseID, f.farID) }) :=
      idinv_update h _ pr _ hm rfl
    cases hb : buildPeer pr.id (tpOf cfg f) with
    | none => exact hu
    | some e => simp only; show IdInv _ _ _; simp only [write_peerPool, write_peers]; exact hu
  | none =>
    simp only
    cases hp : c.st.peerPool with
    | nil => simp only; exact h
    | cons id pool =>
      simp only
      have h' : IdInv (fun (p : Shared) => p.id) (id :: pool) c.st.peers := hp ▸ h
      cases hb : buildPeer id (tpOf cfg f) with
      | none => exact idinv_take h'
      | some e =>
        simp only
        split
        · show IdInv _ _ _
          simp only [write_peerPool, write_peers]
          exact idinv_record h' _ _ hm rfl
        · show IdInv _ _ _
          simp only [write_peerPool, write_peers]
          exact idinv_take h'

theorem updatePeers_pinv (cfg : Cfg4) : ∀ (fs : List Agent.Far) (c : Ctx), PInv c.st → PInv (updatePeers cfg c fs).1.st
  | [], c, h => by simpa [updatePeers] using h
  | f :: rest, c, h => by
    unfold updatePeers
    split
    · have h1 := addOrUpdatePeer_pinv cfg c f h
      generalize addOrUpdatePeer cfg c f = r at h1
      obtain ⟨c1, b⟩ := r
      cases b
      · exact h1
      · exact updatePeers_pinv cfg rest c1 h1
    · exact updatePeers_pinv cfg rest c h

theorem removePeer_pinv (cfg : Cfg4) (c : Ctx) (f : Agent.Far) (h : PInv c.st) : PInv (removePeer cfg c f).st := by
  unfold removePeer
  try dsimp only
  cases hm : mapGet c.st.peers (tpOf cfg f) with
  | none => exact h
  | some pr =>
    simp only
    have hu : IdInv (fun (p : Shared) => p.id) c.st.peerPool
        (mapPut c.st.peers (tpOf cfg f) { pr with usedBy := pr.usedBy.filter (· != (f.fseID, f.farID)) }) :=
      idinv_update h _ pr _ hm rfl
    split
    · exact hu
    · cases hb : buildPeer pr.id (tpOf cfg f) with
      | none => exact hu
      | some e =>
        simp only
        show IdInv _ _ _
        simp only [write_peerPool, write_peers]
        have hg : mapGet (mapPut c.st.peers (tpOf cfg f) { pr with usedBy := pr.usedBy.filter (· != (f.fseID, f.farID)) }) (tpOf cfg f)
            = some { pr with usedBy := pr.usedBy.filter (· != (f.fseID, f.farID)) } := by rw [mapGet_mapPut]; simp
        have := idinv_release hu _ _ hg
        exact this

/-! ## applications -/

abbrev AInv (st : St) : Prop := IdInv (fun (a : AppRec) => a.id) st.appPool st.apps

theorem addApp_ainv (cfg : Cfg4) (st : St) (p : Agent.Pdr) (h : AInv st) : AInv (addApp cfg st p).1 := by
  unfold addApp
  try dsimp only
  cases hm : mapGet st.apps (afOf p) with
  | some ap => simp only; exact idinv_update h _ ap _ hm rfl
  | none =>
    simp only
    cases hp : st.appPool with
    | nil => simp only; exact h
    | cons id pool =>
      simp only
      have h' : IdInv (fun (a : AppRec) => a.id) (id :: pool) st.apps := hp ▸ h
      cases hb : buildApplication p cfg.sliceID id with
      | none => exact idinv_take h'
      | some e => exact idinv_record h' _ _ hm rfl

theorem removeApp_ainv (cfg : Cfg4) (st : St) (p : Agent.Pdr) (h : AInv st) : AInv (removeApp cfg st p).1 := by
  unfold removeApp
  try dsimp only
  cases hm : mapGet st.apps (afOf p) with
  | none => exact h
  | some ap =>
    obtain ⟨aid, used, entry⟩ := ap
    simp only
    have hu : IdInv (fun (a : AppRec) => a.id) st.appPool
        (mapPut st.apps (afOf p) { id := aid, usedBy := used.filter (· != (p.fseID, p.pdrID)), entry := entry }) :=
      idinv_update h _ ⟨aid, used, entry⟩ _ hm rfl
    split
    · exact hu
    · cases entry with
      | none => exact hu
      | some e =>
        simp only
        have hg : mapGet (mapPut st.apps (afOf p) { id := aid, usedBy := used.filter (· != (p.fseID, p.pdrID)), entry := some e }) (afOf p)
            = some { id := aid, usedBy := used.filter (· != (p.fseID, p.pdrID)), entry := some e } := by rw [mapGet_mapPut]; simp
        exact idinv_release hu _ _ hg

theorem appStep_ainv (cfg : Cfg4) (op : Op) (st : St) (p : Agent.Pdr) (h : AInv st) : AInv (appStep cfg op st p).1 := by
  unfold appStep
  split
  · exact h
  · split
    · have := addApp_ainv cfg st p h
      generalize addApp cfg st p = r at this
      obtain ⟨s1, o⟩ := r
      cases o with
      | none => exact this
      | some x => obtain ⟨e, id⟩ := x; exact this
    · exact removeApp_ainv cfg st p h

theorem prepare_ainv (cfg : Cfg4) (fars : List Agent.Far) (qers : List Agent.Qer) (op : Op) (st : St) (p : Agent.Pdr) (h : AInv st) :
    AInv (prepare cfg fars qers op st p).1 := by
  rcases prepare_state cfg fars qers op st p with e | ⟨p', e⟩
  · rw [e]; exact h
  · rw [e]; exact appStep_ainv cfg op st p' h

theorem modifyFwd_ainv (cfg : Cfg4) (fars : List Agent.Far) (qers : List Agent.Qer) (op : Op) :
    ∀ (ps : List Agent.Pdr) (c : Ctx), AInv c.st → AInv (modifyFwd cfg fars qers op c ps).1.st
  | [], c, h => by simpa [modifyFwd] using h
  | p :: rest, c, h => by
    unfold modifyFwd
    have h1 := prepare_ainv cfg fars qers op c.st p h
    generalize prepare cfg fars qers op c.st p = r at h1
    obtain ⟨st, oe⟩ := r
    cases oe with
    | none => exact h1
    | some entries =>
      simp only
      have hw : AInv (write { c with st := st } (entries.map fun e => (⟨op, .tbl e⟩ : Upd))).1.st := by
        show IdInv _ _ _; simp only [write_appPool, write_apps]; exact h1
      split
      · exact modifyFwd_ainv cfg fars qers op rest _ hw
      · exact hw

/-! ## frames: who touches which part -/

/-- tunnel-peer part and application part of the state -/
def St.pp (s : St) : List Nat × List (TP × Shared) := (s.peerPool, s.peers)
def St.ap (s : St) : List Nat × List (AF × AppRec) := (s.appPool, s.apps)

theorem pinv_of_pp {s s' : St} (e : s'.pp = s.pp) (h : PInv s) : PInv s' := by
  simp only [St.pp, Prod.mk.injEq] at e; show IdInv _ s'.peerPool s'.peers; rw [e.1, e.2]; exact h
theorem ainv_of_ap {s s' : St} (e : s'.ap = s.ap) (h : AInv s) : AInv s' := by
  simp only [St.ap, Prod.mk.injEq] at e; show IdInv _ s'.appPool s'.apps; rw [e.1, e.2]; exact h

@[simp] theorem write_pp (c : Ctx) (ups : List Upd) : (write c ups).1.st.pp = c.st.pp := by simp [St.pp]
@[simp] theorem write_ap (c : Ctx) (ups : List Upd) : (write c ups).1.st.ap = c.st.ap := by simp [St.ap]

def St.ids (s : St) : (List Nat × List (TP × Shared)) × (List Nat × List (AF × AppRec)) := (s.pp, s.ap)

@[simp] theorem write_ids (c : Ctx) (ups : List Upd) : (write c ups).1.st.ids = c.st.ids := by simp [St.ids]

theorem pp_of_ids {s s' : St} (e : s'.ids = s.ids) : s'.pp = s.pp := by simp only [St.ids, Prod.mk.injEq] at e; exact e.1
theorem ap_of_ids {s s' : St} (e : s'.ids = s.ids) : s'.ap = s.ap := by simp only [St.ids, Prod.mk.injEq] at e; exact e.2

theorem allocCounters_ids : ∀ (n : Nat) (todo done : List Agent.Pdr) (c : Ctx), (allocCounters c n done todo).1.st.ids = c.st.ids
  | 0, _, _, c => by simp [allocCounters]
  | _ + 1, [], _, c => by simp [allocCounters]
  | n + 1, p :: todo, done, c => by
    unfold allocCounters
    cases hp : pop c c.st.ctrFree with
    | none => rfl
    | some r =>
      obtain ⟨id, free, c1⟩ := r
      have hst := (pop_spec hp).2.2
      simp only
      split
      · rw [allocCounters_ids n todo]; simp [St.ids, St.pp, St.ap, hst]
      · simp [St.ids, St.pp, St.ap, hst]

theorem configureSessMeter_ids (c : Ctx) (q : Agent.Qer) : (configureSessMeter c q).1.st.ids = c.st.ids := by
  unfold configureSessMeter
  cases h1 : pop c c.st.sessFree with
  | none => rfl
  | some r1 =>
    obtain ⟨ul, free, c1⟩ := r1
    have hst1 := (pop_spec h1).2.2
    simp only
    cases h2 : pop { c1 with st := { c1.st with sessFree := free } } free with
    | none => simp [St.ids, St.pp, St.ap, hst1]
    | some r2 =>
      obtain ⟨dl, free2, c2⟩ := r2
      have hst2 := (pop_spec h2).2.2
      simp only at hst2
      simp only
      split <;> simp [St.ids, St.pp, St.ap, hst1, hst2]

theorem configureAppMeter_ids (c : Ctx) (q : Agent.Qer) (bidir : Bool) : (configureAppMeter c q bidir).1.st.ids = c.st.ids := by
  unfold configureAppMeter
  cases h1 : pop c c.st.appFree with
  | none => rfl
  | some r1 =>
    obtain ⟨ul, free, c1⟩ := r1
    have hst1 := (pop_spec h1).2.2
    simp only
    cases bidir with
    | false =>
      simp only [Bool.false_eq_true, if_false]
      repeat' split
      all_goals simp [St.ids, St.pp, St.ap, hst1]
    | true =>
      simp only [if_true]
      cases h2 : pop { c1 with st := { c1.st with appFree := free } } free with
      | none => simp [St.ids, St.pp, St.ap, hst1]
      | some r2 =>
        obtain ⟨dl, free2, c2⟩ := r2
        have hst2 := (pop_spec h2).2.2
        simp only at hst2
        simp only
        repeat' split
        all_goals simp [St.ids, St.pp, St.ap, hst1, hst2]

theorem configureMeters_ids (n : Nat) : ∀ (qs : List Agent.Qer) (c : Ctx), (configureMeters n c qs).1.st.ids = c.st.ids
  | [], c => by simp [configureMeters]
  | q :: rest, c => by
    unfold configureMeters
    have h1 : (if q.session then configureSessMeter c q else configureAppMeter c q (n == 1)).1.st.ids = c.st.ids := by
      split
      · exact configureSessMeter_ids c q
      · exact configureAppMeter_ids c q _
    generalize (if q.session then configureSessMeter c q else configureAppMeter c q (n == 1)) = r at h1
    obtain ⟨c1, m⟩ := r
    cases m with
    | none => exact h1
    | some m => simp only; rw [configureMeters_ids n rest]; exact h1

theorem resetMeters_ids : ∀ (qs : List Agent.Qer) (c : Ctx), (resetMeters c qs).st.ids = c.st.ids
  | [], c => by simp [resetMeters]
  | q :: rest, c => by
    unfold resetMeters
    cases mapGet c.st.meters (q.qerID, q.fseID) with
    | none => simp only; exact resetMeters_ids rest c
    | some m =>
      simp only
      split
      · rw [resetMeters_ids rest]; split <;> simp [St.ids, St.pp, St.ap]
      · rw [resetMeters_ids rest]; simp [St.ids, St.pp, St.ap]

theorem updateMaps_ids : ∀ (ps : List Agent.Pdr) (st : St), (updateMaps st ps).ids = st.ids
  | [], st => rfl
  | p :: rest, st => by
    unfold updateMaps
    simp only [List.foldl_cons]
    have := updateMaps_ids rest (if p.srcIface = Sdf.access then st
      else { st with ue2f := mapPut st.ue2f p.ueAddress p.fseID, f2ue := mapPut st.f2ue p.fseID p.ueAddress })
    unfold updateMaps at this
    rw [this]; split <;> rfl

theorem removeMaps_ids : ∀ (ps : List Agent.Pdr) (st : St), (removeMaps st ps).ids = st.ids
  | [], st => rfl
  | p :: rest, st => by
    unfold removeMaps
    simp only [List.foldl_cons]
    have := removeMaps_ids rest (if p.srcIface = Sdf.access then st
      else { st with ue2f := mapDel st.ue2f p.ueAddress, f2ue := mapDel st.f2ue p.fseID })
    unfold removeMaps at this
    rw [this]; split <;> rfl

/-! application functions leave the tunnel-peer part alone, tunnel-peer functions the application part -/

theorem addApp_pp (cfg : Cfg4) (st : St) (p : Agent.Pdr) : (addApp cfg st p).1.pp = st.pp := by
  unfold addApp
  try dsimp only
  cases mapGet st.apps (afOf p) with
  | some ap => rfl
  | none =>
    simp only
    cases st.appPool with
    | nil => rfl
    | cons id pool => simp only; cases buildApplication p cfg.sliceID id <;> rfl

theorem removeApp_pp (cfg : Cfg4) (st : St) (p : Agent.Pdr) : (removeApp cfg st p).1.pp = st.pp := by
  unfold removeApp
  try dsimp only
  cases mapGet st.apps (afOf p) with
  | none => rfl
  | some ap =>
    simp only
    split
    · rfl
    · cases ap.entry <;> rfl

theorem appStep_pp (cfg : Cfg4) (op : Op) (st : St) (p : Agent.Pdr) : (appStep cfg op st p).1.pp = st.pp := by
  unfold appStep
  split
  · rfl
  · split
    · have := addApp_pp cfg st p
      generalize addApp cfg st p = r at this
      obtain ⟨s1, o⟩ := r
      cases o with
      | none => exact this
      | some x => obtain ⟨e, id⟩ := x; exact this
    · exact removeApp_pp cfg st _

theorem modifyFwd_pp (cfg : Cfg4) (fars : List Agent.Far) (qers : List Agent.Qer) (op : Op) :
    ∀ (ps : List Agent.Pdr) (c : Ctx), (modifyFwd cfg fars qers op c ps).1.st.pp = c.st.pp
  | [], c => by simp [modifyFwd]
  | p :: rest, c => by
    unfold modifyFwd
    have h : (prepare cfg fars qers op c.st p).1.pp = c.st.pp := by
      rcases prepare_state cfg fars qers op c.st p with e | ⟨p', e⟩
      · rw [e]
      · rw [e]; exact appStep_pp cfg op c.st p'
    generalize prepare cfg fars qers op c.st p = r at h
    obtain ⟨st, oe⟩ := r
    cases oe with
    | none => exact h
    | some entries =>
      simp only
      split
      · rw [modifyFwd_pp cfg fars qers op rest]; simpa using h
      · simpa using h

theorem addOrUpdatePeer_ap (cfg : Cfg4) (c : Ctx) (f : Agent.Far) : (addOrUpdatePeer cfg c f).1.st.ap = c.st.ap := by
  unfold addOrUpdatePeer
  try dsimp only
  cases hm : mapGet c.st.peers (tpOf cfg f) with
  | some pr =>
    simp only
    cases hb : buildPeer pr.id (tpOf cfg f) with
    | none => rfl
    | some e => simp [St.ap]
  | none =>
    simp only
    cases hp : c.st.peerPool with
    | nil => rfl
    | cons id pool =>
      simp only
      cases hb : buildPeer id (tpOf cfg f) with
      | none => rfl
      | some e => simp only; split <;> simp [St.ap]

theorem updatePeers_ap (cfg : Cfg4) : ∀ (fs : List Agent.Far) (c : Ctx), (updatePeers cfg c fs).1.st.ap = c.st.ap
  | [], c => by simp [updatePeers]
  | f :: rest, c => by
    unfold updatePeers
    split
    · have h := addOrUpdatePeer_ap cfg c f
      generalize addOrUpdatePeer cfg c f = r at h
      obtain ⟨c1, b⟩ := r
      cases b
      · exact h
      · simp only; rw [updatePeers_ap cfg rest c1]; exact h
    · exact updatePeers_ap cfg rest c

theorem removePeer_ap (cfg : Cfg4) (c : Ctx) (f : Agent.Far) : (removePeer cfg c f).st.ap = c.st.ap := by
  unfold removePeer
  try dsimp only
  cases mapGet c.st.peers (tpOf cfg f) with
  | none => rfl
  | some pr =>
    simp only
    split
    · rfl
    · cases buildPeer pr.id (tpOf cfg f) with
      | none => rfl
      | some e => simp [St.ap]

theorem removePeers_ap (cfg : Cfg4) : ∀ (fs : List Agent.Far) (c : Ctx), (fs.foldl (removePeer cfg) c).st.ap = c.st.ap
  | [], c => rfl
  | f :: rest, c => by simp only [List.foldl_cons]; rw [removePeers_ap cfg rest, removePeer_ap]

theorem removePeers_pinv (cfg : Cfg4) : ∀ (fs : List Agent.Far) (c : Ctx), PInv c.st → PInv (fs.foldl (removePeer cfg) c).st
  | [], c, h => h
  | f :: rest, c, h => by simp only [List.foldl_cons]; exact removePeers_pinv cfg rest _ (removePeer_pinv cfg c f h)

/-! ## the orchestration keeps both ID invariants, for every environment -/

structure IdsInv (st : St) : Prop where
  peers : PInv st
  apps : AInv st

theorem idsinv_of_ids {s s' : St} (e : s'.ids = s.ids) (h : IdsInv s) : IdsInv s' :=
  ⟨pinv_of_pp (pp_of_ids e) h.peers, ainv_of_ap (ap_of_ids e) h.apps⟩

theorem updatePeers_idsinv (cfg : Cfg4) (fs : List Agent.Far) (c : Ctx) (h : IdsInv c.st) : IdsInv (updatePeers cfg c fs).1.st :=
  ⟨updatePeers_pinv cfg fs c h.peers, ainv_of_ap (updatePeers_ap cfg fs c) h.apps⟩

theorem modifyFwd_idsinv (cfg : Cfg4) (fars : List Agent.Far) (qers : List Agent.Qer) (op : Op) (ps : List Agent.Pdr) (c : Ctx)
    (h : IdsInv c.st) : IdsInv (modifyFwd cfg fars qers op c ps).1.st :=
  ⟨pinv_of_pp (modifyFwd_pp cfg fars qers op ps c) h.peers, modifyFwd_ainv cfg fars qers op ps c h.apps⟩

theorem sendCreate_idsinv (cfg : Cfg4) (c : Ctx) (all updated : Rules) (hI : IdsInv c.st) : IdsInv (sendCreate cfg c all updated).1.st := by
  unfold sendCreate
  have h1 := allocCounters_ids updated.pdrs.length all.pdrs [] c
  generalize allocCounters c updated.pdrs.length [] all.pdrs = r1 at h1
  obtain ⟨c1, pdrs, ok1⟩ := r1
  have hI1 : IdsInv c1.st := idsinv_of_ids h1 hI
  cases ok1
  · exact hI1
  · simp only [Bool.not_true, Bool.false_eq_true, if_false]
    have h2 := configureMeters_ids updated.qers.length updated.qers { c1 with st := updateMaps c1.st updated.pdrs }
    generalize configureMeters updated.qers.length { c1 with st := updateMaps c1.st updated.pdrs } updated.qers = r2 at h2
    obtain ⟨c2, ok2⟩ := r2
    have hI2 : IdsInv c2.st := idsinv_of_ids (h2.trans (updateMaps_ids _ _)) hI1
    cases ok2
    · exact hI2
    · simp only [Bool.not_true, Bool.false_eq_true, if_false]
      have hI3 := updatePeers_idsinv cfg updated.fars c2 hI2
      generalize updatePeers cfg c2 updated.fars = r3 at hI3
      obtain ⟨c3, ok3⟩ := r3
      cases ok3
      · exact hI3
      · simp only [Bool.not_true, Bool.false_eq_true, if_false]
        exact modifyFwd_idsinv cfg all.fars all.qers .insert pdrs c3 hI3

theorem sendUpdate_idsinv (cfg : Cfg4) (c : Ctx) (all updated : Rules) (hI : IdsInv c.st) : IdsInv (sendUpdate cfg c all updated).1.st := by
  unfold sendUpdate
  dsimp only
  have hI0 : IdsInv (updateMaps c.st updated.pdrs) := idsinv_of_ids (updateMaps_ids _ _) hI
  have hI3 := updatePeers_idsinv cfg updated.fars { c with st := updateMaps c.st updated.pdrs } hI0
  generalize updatePeers cfg { c with st := updateMaps c.st updated.pdrs } updated.fars = r3 at hI3
  obtain ⟨c3, ok3⟩ := r3
  cases ok3
  · exact hI3
  · simp only [Bool.not_true, Bool.false_eq_true, if_false]
    exact modifyFwd_idsinv cfg all.fars all.qers .modify all.pdrs c3 hI3

theorem sendDelete_idsinv (cfg : Cfg4) (c : Ctx) (del : Rules) (hI : IdsInv c.st) : IdsInv (sendDelete cfg c del).1.st := by
  unfold sendDelete
  have h1 := modifyFwd_idsinv cfg del.fars del.qers .delete del.pdrs c hI
  generalize modifyFwd cfg del.fars del.qers .delete c del.pdrs = r1 at h1
  obtain ⟨c1, ok1⟩ := r1
  cases ok1
  · exact h1
  · simp only [Bool.not_true, Bool.false_eq_true, if_false]
    have h2 : IdsInv (resetMeters { c1 with st := { c1.st with ctrFree := del.pdrs.foldl (fun l p => setAdd l p.ctrID) c1.st.ctrFree } } del.qers).st :=
      idsinv_of_ids (resetMeters_ids _ _) (idsinv_of_ids (by simp [St.ids, St.pp, St.ap]) h1)
    generalize resetMeters { c1 with st := { c1.st with ctrFree := del.pdrs.foldl (fun l p => setAdd l p.ctrID) c1.st.ctrFree } } del.qers = c2 at h2
    have h3 : IdsInv (del.fars.foldl (removePeer cfg) c2).st :=
      ⟨removePeers_pinv cfg del.fars c2 h2.peers, ainv_of_ap (removePeers_ap cfg del.fars c2) h2.apps⟩
    exact idsinv_of_ids (removeMaps_ids _ _) h3

/-- the queues `start` creates: 2…254 and 1…254, nothing recorded -/
theorem start_idsinv (cfg : Cfg4) (srv : Srv) (injs : List Inj) : IdsInv (start cfg srv injs).1.st := by
  have hp : ((List.range Gen.Consts.maxGTPTunnelPeerIDs).map (· + 2)).Nodup := by
    rw [List.nodup_iff_pairwise_ne]
    exact List.pairwise_map.mpr ((List.pairwise_lt_range (n := Gen.Consts.maxGTPTunnelPeerIDs)).imp (by intro a b h; omega))
  have ha : ((List.range Gen.Consts.maxApplicationIDs).map (· + 1)).Nodup := by
    rw [List.nodup_iff_pairwise_ne]
    exact List.pairwise_map.mpr ((List.pairwise_lt_range (n := Gen.Consts.maxApplicationIDs)).imp (by intro a b h; omega))
  have base : IdsInv { peerPool := (List.range Gen.Consts.maxGTPTunnelPeerIDs).map (· + 2),
                       appPool := (List.range Gen.Consts.maxApplicationIDs).map (· + 1), srv := srv } :=
    ⟨⟨hp, by simp [mapGet], by simp [mapGet]⟩, ⟨ha, by simp [mapGet], by simp [mapGet]⟩⟩
  unfold start
  dsimp only
  repeat' split
  all_goals (apply idsinv_of_ids _ base; simp [St.ids, St.pp, St.ap])

end Up4
