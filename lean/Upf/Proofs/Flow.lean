import Upf.Model.Flow
namespace Flow
variable {Net Port : Type}

theorem roundtrip (L : Lex Net Port) (ue : String) (r : Rule)
    (ha : r.action = "permit" ∨ r.action = "deny") (hd : r.dir = "in" ∨ r.dir = "out")
    (n1 n2 : Net) (hn1 : L.parseNet (xform ue r.src.addr) = some n1) (hn2 : L.parseNet (xform ue r.dst.addr) = some n2)
    (p1 p2 : Port)
    (hp1 : ∀ s, r.src.port = some s → L.parsePort s = some p1 ∧ s ≠ "to")
    (hp1' : r.src.port = none → p1 = L.wild)
    (hp2 : ∀ s, r.dst.port = some s → L.parsePort s = some p2)
    (hp2' : r.dst.port = none → p2 = L.wild) :
    parse L ue r.render = some { action := r.action, dir := r.dir, proto := r.proto,
                                 src := ⟨some n1, p1⟩, dst := ⟨some n2, p2⟩ } := by
  obtain ⟨a, d, pr, ⟨sa, sp⟩, ⟨da, dp⟩⟩ := r
  simp only at ha hd hn1 hn2 hp1 hp1' hp2 hp2'
  have hna : ¬ ¬ (a = "permit" ∨ a = "deny") := fun h => h ha
  have hnd : ¬ ¬ (d = "in" ∨ d = "out") := fun h => h hd
  cases sp with
  | none =>
    have e1 := hp1' rfl
    cases dp with
    | none =>
      have e2 := hp2' rfl
      subst e1 e2
      simp [Rule.render, EP.render, parse, hna, hnd, loop, hn1, hn2]
    | some q =>
      have e2 := hp2 q rfl
      subst e1
      simp [Rule.render, EP.render, parse, hna, hnd, loop, hn1, hn2, e2]
  | some s =>
    obtain ⟨e1, hs⟩ := hp1 s rfl
    cases dp with
    | none =>
      have e2 := hp2' rfl
      subst e2
      simp [Rule.render, EP.render, parse, hna, hnd, loop, hn1, hn2, e1, hs]
    | some q =>
      have e2 := hp2 q rfl
      simp [Rule.render, EP.render, parse, hna, hnd, loop, hn1, hn2, e1, e2, hs]

/-! refused classes -/
theorem refused_short (L : Lex Net Port) (ue : String) (toks : List String) (h : toks.length < 3) :
    parse L ue toks = none := by
  match toks, h with
  | [], _ => rfl
  | [_], _ => rfl
  | [_, _], _ => rfl

theorem refused_action (L : Lex Net Port) (ue a : String) (rest : List String)
    (h : ¬ (a = "permit" ∨ a = "deny")) : parse L ue (a :: rest) = none := by
  match rest with
  | [] => rfl
  | [_] => rfl
  | d :: p :: r => simp [parse, h]

theorem refused_dir (L : Lex Net Port) (ue a d : String) (rest : List String)
    (h : ¬ (d = "in" ∨ d = "out")) : parse L ue (a :: d :: rest) = none := by
  match rest with
  | [] => rfl
  | p :: r =>
    simp only [parse]
    split
    · rfl
    · simp [h]

/-- a result always has both endpoints (so parseSDFFilter never dereferences a nil IPNet) -/
theorem ok_has_both (L : Lex Net Port) (ue : String) (toks : List String) (f : IPF Net Port)
    (h : parse L ue toks = some f) : f.src.net.isSome ∧ f.dst.net.isSome := by
  unfold parse at h
  split at h
  · split at h
    · cases h
    · split at h
      · cases h
      · split at h
        · cases h
        · split at h
          · rename_i hb; cases h; exact hb
          · cases h
  · cases h

/-- a keyword in last position (missing address) is refused wherever it occurs, given that the lexers
    reject the bare keywords as addresses and ports -/
theorem loop_trailing_kw (L : Lex Net Port) (ue kw : String) (hk : kw = "from" ∨ kw = "to")
    (hnet : L.parseNet (xform ue kw) = none) (hport : L.parsePort kw = none) :
    ∀ (n : Nat) (pre : List String), pre.length = n → ∀ f : IPF Net Port, loop L ue (pre ++ [kw]) f = none := by
  intro n
  induction n using Nat.strongRecOn with
  | _ n ih =>
    intro pre hl f
    match pre, hl with
    | [], _ => simp [loop, hk]
    | [t], _ =>
      simp only [List.cons_append, List.nil_append, loop]
      split
      · simp [hnet]
      · split
        · simp [hnet]
        · simp [hk]
    | [t, x], hl2 =>
      have hn2 : n = 2 := by simpa using hl2.symm
      simp only [List.cons_append, List.nil_append, loop]
      split
      · cases L.parseNet (xform ue x) with
        | none => rfl
        | some nn =>
          simp only
          split
          · simp [loop, hk]
          · simp [hport]
      · split
        · cases L.parseNet (xform ue x) with
          | none => rfl
          | some nn => simp [hport]
        · have h1 := ih 1 (by omega) [x] rfl f
          simpa [loop, hk] using h1
    | t :: x :: y :: rest, hl' =>
      have hlen : (t :: x :: y :: rest).length = n := hl'
      simp only [List.length_cons] at hlen
      simp only [List.cons_append, loop]
      split
      · cases L.parseNet (xform ue x) with
        | none => rfl
        | some nn =>
          simp only
          split
          · exact ih (rest.length + 1) (by omega) (y :: rest) rfl _
          · cases L.parsePort y with
            | none => rfl
            | some pp => exact ih rest.length (by omega) rest rfl _
      · split
        · cases L.parseNet (xform ue x) with
          | none => rfl
          | some nn =>
            cases L.parsePort y with
            | none => rfl
            | some pp => exact ih rest.length (by omega) rest rfl _
        · exact ih (rest.length + 2) (by omega) (x :: y :: rest) rfl f

#print axioms roundtrip
#print axioms loop_trailing_kw
end Flow
