import Upf.Model.Agent
/-!
"add/modify send upserts, delete sends the same key fields" (C03), on the model of bess.go's command stream with its
real key strings: whatever rule set `SendMsgToUPF(add)` installed, `SendMsgToUPF(del)` with the same stored rules
removes exactly the keys it was installed under — every other entry of the four lookup tables is untouched, and when
the keys were fresh the tables are the ones before the session existed. For all tables, rule sets and configurations.
-/
namespace Agent

/-- keep the entries whose key is not in `K` -/
def Table.without (t : Table) (K : List String) : Table := t.filter fun e => !K.contains e.1

theorem Table.without_replace (t : Table) (k v : String) (K : List String) (hkc : K.contains k = true) :
    (t.map fun e => if e.1 == k then (k, v) else e).filter (fun e => !K.contains e.1) = t.filter (fun e => !K.contains e.1) := by
  induction t with
  | nil => rfl
  | cons e rest ih =>
    rw [List.map_cons, List.filter_cons, List.filter_cons, ih]
    by_cases he : (e.1 == k) = true
    · have hk' : e.1 = k := by simpa using he
      rw [if_pos he]
      have hkm : k ∈ K := List.contains_iff_mem.mp hkc
      simp [hk', hkm]
    · rw [if_neg he]

theorem Table.without_upsert (t : Table) (k v : String) (K : List String) (hk : k ∈ K) :
    (t.upsert k v).without K = t.without K := by
  unfold Table.upsert Table.without
  have hkc : K.contains k = true := List.contains_iff_mem.mpr hk
  split
  · -- the key exists: the entry is replaced in place, and is dropped by the filter before and after
    exact Table.without_replace t k v K hkc
  · rw [List.filter_append]
    simp only [List.filter_cons, hkc, Bool.not_true, Bool.false_eq_true, if_false, List.filter_nil, List.append_nil]

theorem Table.without_foldl_upsert (es : List (String × String)) (K : List String) (h : ∀ e ∈ es, e.1 ∈ K) :
    ∀ t : Table, (es.foldl (fun tb e => tb.upsert e.1 e.2) t).without K = t.without K := by
  induction es with
  | nil => intro t; rfl
  | cons e rest ih =>
    intro t
    simp only [List.foldl_cons]
    rw [ih (fun e' he' => h e' (List.mem_cons_of_mem _ he'))]
    exact Table.without_upsert t e.1 e.2 K (h e (List.mem_cons_self ..))

theorem Table.foldl_del (es : List (String × String)) :
    ∀ t : Table, es.foldl (fun tb e => tb.del e.1) t = t.without (es.map (·.1)) := by
  induction es with
  | nil => intro t; exact (List.filter_eq_self.mpr (by simp)).symm
  | cons e rest ih =>
    intro t
    simp only [List.foldl_cons, List.map_cons]
    rw [ih]
    unfold Table.del Table.without
    rw [List.filter_filter]
    congr 1
    funext x
    simp only [List.contains_cons]
    cases h1 : (x.1 == e.1) <;> cases h2 : (List.map (fun x => x.1) rest).contains x.1 <;> simp [bne, h1]

theorem Table.without_without (t : Table) (K L : List String) : (t.without K).without L = t.without (K ++ L) := by
  unfold Table.without
  rw [List.filter_filter]
  congr 1
  funext x
  simp only [List.contains_append]
  cases (K.contains x.1) <;> cases (L.contains x.1) <;> rfl

theorem Table.without_fresh (t : Table) (K : List String) (h : ∀ k ∈ K, k ∉ t.map (·.1)) : t.without K = t := by
  unfold Table.without
  rw [List.filter_eq_self]
  intro e he
  cases hc : K.contains e.1 with
  | false => rfl
  | true => exact absurd (List.mem_map_of_mem he) (h e.1 (List.contains_iff_mem.mp hc))

/-! ## the three rule types -/

def pdrKV (pdrs : List Pdr) : List (String × String) := pdrs.flatMap fun p => (pdrEntries p).getD []
def farKV (fars : List Far) : List (String × String) := fars.map farEntry
def appQerKV (cfg : Cfg) (qers : List Qer) : List (String × String) := (qers.filter (!·.session)).flatMap (qerEntries cfg)
def sessQerKV (cfg : Cfg) (qers : List Qer) : List (String × String) := (qers.filter (·.session)).flatMap (qerEntries cfg)

theorem addPdrs_eq (pdrs : List Pdr) : ∀ t : Tables, pdrs.foldl addPdr t =
    { t with pdr := (pdrKV pdrs).foldl (fun tb e => tb.upsert e.1 e.2) t.pdr } := by
  induction pdrs with
  | nil => intro t; rfl
  | cons p rest ih =>
    intro t
    simp only [List.foldl_cons, pdrKV, List.flatMap_cons, List.foldl_append]
    rw [ih]
    unfold addPdr
    cases pdrEntries p <;> simp [pdrKV]

theorem delPdrs_eq (pdrs : List Pdr) : ∀ t : Tables, pdrs.foldl delPdr t =
    { t with pdr := (pdrKV pdrs).foldl (fun tb e => tb.del e.1) t.pdr } := by
  induction pdrs with
  | nil => intro t; rfl
  | cons p rest ih =>
    intro t
    simp only [List.foldl_cons, pdrKV, List.flatMap_cons, List.foldl_append]
    rw [ih]
    unfold delPdr
    cases pdrEntries p <;> simp [pdrKV]

theorem addFars_eq (fars : List Far) : ∀ t : Tables, fars.foldl addFar t =
    { t with far := (farKV fars).foldl (fun tb e => tb.upsert e.1 e.2) t.far } := by
  induction fars with
  | nil => intro t; rfl
  | cons f rest ih => intro t; simp only [List.foldl_cons, farKV, List.map_cons]; rw [ih]; simp [addFar, farKV]

theorem delFars_eq (fars : List Far) : ∀ t : Tables, fars.foldl delFar t =
    { t with far := (farKV fars).foldl (fun tb e => tb.del e.1) t.far } := by
  induction fars with
  | nil => intro t; rfl
  | cons f rest ih => intro t; simp only [List.foldl_cons, farKV, List.map_cons]; rw [ih]; simp [delFar, farKV]

theorem addQers_eq (cfg : Cfg) (qers : List Qer) : ∀ t : Tables, qers.foldl (addQer cfg) t =
    { t with appQer := (appQerKV cfg qers).foldl (fun tb e => tb.upsert e.1 e.2) t.appQer,
             sessQer := (sessQerKV cfg qers).foldl (fun tb e => tb.upsert e.1 e.2) t.sessQer } := by
  induction qers with
  | nil => intro t; rfl
  | cons q rest ih =>
    intro t
    simp only [List.foldl_cons]
    rw [ih]
    unfold addQer
    cases hs : q.session <;> simp [appQerKV, sessQerKV, hs, List.foldl_append]

theorem delQers_eq (cfg : Cfg) (qers : List Qer) : ∀ t : Tables, qers.foldl (delQer cfg) t =
    { t with appQer := (appQerKV cfg qers).foldl (fun tb e => tb.del e.1) t.appQer,
             sessQer := (sessQerKV cfg qers).foldl (fun tb e => tb.del e.1) t.sessQer } := by
  induction qers with
  | nil => intro t; rfl
  | cons q rest ih =>
    intro t
    simp only [List.foldl_cons]
    rw [ih]
    unfold delQer
    cases hs : q.session <;> simp [appQerKV, sessQerKV, hs, List.foldl_append]

/-- one table: deleting the keys that were upserted leaves the table without those keys -/
theorem Table.del_after_upsert (es : List (String × String)) (t : Table) :
    es.foldl (fun tb e => tb.del e.1) (es.foldl (fun tb e => tb.upsert e.1 e.2) t) = t.without (es.map (·.1)) := by
  rw [Table.foldl_del]
  exact Table.without_foldl_upsert es _ (fun e he => List.mem_map_of_mem he) t

/-- **delete key = add key**: after add and delete of the same stored rules, each lookup table is the table before,
less the keys of those rules — nothing else is added, changed or removed -/
theorem sendDel_sendAdd (cfg : Cfg) (t : Tables) (pdrs : List Pdr) (fars : List Far) (qers : List Qer) :
    sendDel cfg (sendAdd cfg t pdrs fars qers) pdrs fars qers =
      { pdr := t.pdr.without ((pdrKV pdrs).map (·.1)), far := t.far.without ((farKV fars).map (·.1)),
        appQer := t.appQer.without ((appQerKV cfg qers).map (·.1)), sessQer := t.sessQer.without ((sessQerKV cfg qers).map (·.1)) } := by
  unfold sendDel sendAdd
  simp only [addPdrs_eq, addFars_eq, addQers_eq, delPdrs_eq, delFars_eq, delQers_eq, Table.del_after_upsert]

/-- with fresh keys (no other live rule has them) the tables are exactly those before the session was installed -/
theorem sendDel_sendAdd_fresh (cfg : Cfg) (t : Tables) (pdrs : List Pdr) (fars : List Far) (qers : List Qer)
    (hp : ∀ k ∈ (pdrKV pdrs).map (·.1), k ∉ t.pdr.map (·.1)) (hf : ∀ k ∈ (farKV fars).map (·.1), k ∉ t.far.map (·.1))
    (ha : ∀ k ∈ (appQerKV cfg qers).map (·.1), k ∉ t.appQer.map (·.1))
    (hs : ∀ k ∈ (sessQerKV cfg qers).map (·.1), k ∉ t.sessQer.map (·.1)) :
    sendDel cfg (sendAdd cfg t pdrs fars qers) pdrs fars qers = t := by
  rw [sendDel_sendAdd, Table.without_fresh _ _ hp, Table.without_fresh _ _ hf, Table.without_fresh _ _ ha, Table.without_fresh _ _ hs]

/-- deletion alone: only the keys of the deleted rules leave the tables -/
theorem sendDel_eq (cfg : Cfg) (t : Tables) (pdrs : List Pdr) (fars : List Far) (qers : List Qer) :
    sendDel cfg t pdrs fars qers =
      { pdr := t.pdr.without ((pdrKV pdrs).map (·.1)), far := t.far.without ((farKV fars).map (·.1)),
        appQer := t.appQer.without ((appQerKV cfg qers).map (·.1)), sessQer := t.sessQer.without ((sessQerKV cfg qers).map (·.1)) } := by
  unfold sendDel
  simp only [delPdrs_eq, delFars_eq, delQers_eq, Table.foldl_del]

theorem setConn_tables (w : World) (a : Nat) (c : Conn) : (w.setConn a c).tables = w.tables := by
  unfold World.setConn; split <;> rfl

/-- `handleSessionDeletionRequest` on a known session: exactly the keys of the session's stored rules leave the tables -/
theorem deleteSession_tables (cfg : Cfg) (w : World) (a seid : Nat) (s : Session)
    (h : (w.conn a).sessions.find? (·.lseid = seid) = some s) :
    (deleteSession cfg w a seid).1.tables =
      { pdr := w.tables.pdr.without ((pdrKV s.pdrs).map (·.1)), far := w.tables.far.without ((farKV s.fars).map (·.1)),
        appQer := w.tables.appQer.without ((appQerKV cfg s.qers).map (·.1)),
        sessQer := w.tables.sessQer.without ((sessQerKV cfg s.qers).map (·.1)) } := by
  unfold deleteSession
  simp only [h, setConn_tables]
  exact sendDel_eq cfg w.tables s.pdrs s.fars s.qers

/-- an entry under a key none of the session's rules has is still there, unchanged, after the deletion -/
theorem Table.mem_without {t : Table} {K : List String} {e : String × String} (he : e ∈ t) (hk : e.1 ∉ K) : e ∈ t.without K := by
  unfold Table.without
  rw [List.mem_filter]
  refine ⟨he, ?_⟩
  cases hc : K.contains e.1 with
  | false => rfl
  | true => exact absurd (List.contains_iff_mem.mp hc) hk

/-- nothing under a deleted key remains -/
theorem Table.not_mem_without {t : Table} {K : List String} {e : String × String} (hk : e.1 ∈ K) : e ∉ t.without K := by
  unfold Table.without
  rw [List.mem_filter]
  intro h
  have hc : K.contains e.1 = true := List.contains_iff_mem.mpr hk
  have h2 := h.2
  rw [hc] at h2
  exact absurd h2 (by decide)

theorem find_replace (a : Nat) (c : Conn) : ∀ (l : List (Nat × Conn)), (l.any fun x => decide (x.1 = a)) = true →
    (l.map fun e => if e.1 = a then (a, c) else e).find? (fun x => decide (x.1 = a)) = some (a, c)
  | [], h => by simp at h
  | e :: rest, h => by
    simp only [List.map_cons, List.find?_cons]
    by_cases he : e.1 = a
    · simp [he]
    · have hr : (rest.any fun x => decide (x.1 = a)) = true := by
        simp only [List.any_cons, he, decide_false, Bool.false_or] at h; exact h
      simp only [he, if_false, decide_false]
      exact find_replace a c rest hr

theorem conn_setConn (w : World) (a : Nat) (c : Conn) : (w.setConn a c).conn a = c := by
  unfold World.setConn World.conn
  split
  · rename_i h
    simp only
    rw [find_replace a c w.conns h]
    rfl
  · rename_i h
    simp only
    rw [List.find?_append]
    have : w.conns.find? (fun x => decide (x.1 = a)) = none := by
      rw [List.find?_eq_none]
      intro x hx hxa
      exact h (List.any_eq_true.mpr ⟨x, hx, hxa⟩)
    simp [this]

/-- `handleSessionEstablishmentRequest`, accepted (the reply carries a UP F-SEID): the new session is appended to the
association's store and exactly its rules are upserted -/
theorem establish_tables (cfg : Cfg) (w : World) (a lseid : Nat) (r : EstReq)
    (h : (establish cfg w a lseid r).2.upSeid.isSome) :
    ∃ s : Session, s.lseid = lseid ∧
      (establish cfg w a lseid r).1.tables = sendAdd cfg w.tables s.pdrs s.fars s.qers ∧
      ((establish cfg w a lseid r).1.conn a).sessions = (w.conn a).sessions ++ [s] := by
  unfold establish at h ⊢
  dsimp only at h ⊢
  by_cases hne : r.nodeID ≠ (w.conn a).remoteNode
  · rw [if_pos hne] at h; simp at h
  · rw [if_neg hne] at h ⊢
    cases hest : estPdrs cfg lseid r.cpIP (w.conn a).apps r.pdrs w.pool w.teid [] with
    | error e => simp only [hest] at h; simp at h
    | ok v =>
      obtain ⟨pdrs, pool, g⟩ := v
      simp only [hest] at h ⊢
      cases hf : mapFars cfg lseid r.cpIP false r.fars with
      | error e => cases e with | reject cause => simp only [hf] at h; simp at h
      | ok fars =>
        simp only [hf] at h ⊢
        refine ⟨{ lseid := lseid, rseid := r.cpSeid,
                  pdrs := (markSessionQer (markSessionQer pdrs (r.qers.map fun ie => { parseQER lseid ie with fseidIP := r.cpIP })).2
                            (r.qers.map fun ie => { parseQER lseid ie with fseidIP := r.cpIP })).2,
                  fars := fars,
                  qers := (markSessionQer pdrs (r.qers.map fun ie => { parseQER lseid ie with fseidIP := r.cpIP })).1 }, rfl, ?_, ?_⟩
        · rw [setConn_tables]
        · rw [conn_setConn]

/-- attach / detach: an accepted establishment followed by the deletion of that session leaves every lookup table as it
was before the session existed, whenever the session's keys were not in use (distinct live rules have distinct keys) and
its SEID is new on the association -/
theorem establish_then_delete (cfg : Cfg) (w : World) (a lseid : Nat) (r : EstReq)
    (h : (establish cfg w a lseid r).2.upSeid.isSome)
    (hnew : ∀ x ∈ (w.conn a).sessions, x.lseid ≠ lseid)
    (hfresh : ∀ s : Session, (establish cfg w a lseid r).1.tables = sendAdd cfg w.tables s.pdrs s.fars s.qers →
      (∀ k ∈ (pdrKV s.pdrs).map (·.1), k ∉ w.tables.pdr.map (·.1)) ∧ (∀ k ∈ (farKV s.fars).map (·.1), k ∉ w.tables.far.map (·.1)) ∧
      (∀ k ∈ (appQerKV cfg s.qers).map (·.1), k ∉ w.tables.appQer.map (·.1)) ∧
      (∀ k ∈ (sessQerKV cfg s.qers).map (·.1), k ∉ w.tables.sessQer.map (·.1))) :
    (deleteSession cfg (establish cfg w a lseid r).1 a lseid).1.tables = w.tables := by
  obtain ⟨s, hl, ht, hs⟩ := establish_tables cfg w a lseid r h
  have hfind : (((establish cfg w a lseid r).1.conn a).sessions.find? (·.lseid = lseid)) = some s := by
    rw [hs, List.find?_append]
    have : (w.conn a).sessions.find? (fun x => decide (x.lseid = lseid)) = none := by
      rw [List.find?_eq_none]
      intro x hx
      simpa using hnew x hx
    simp [this, hl]
  rw [deleteSession_tables cfg _ a lseid s hfind, ht]
  obtain ⟨hp, hf, ha, hq⟩ := hfresh s ht
  have := sendDel_sendAdd_fresh cfg w.tables s.pdrs s.fars s.qers hp hf ha hq
  rw [sendDel_eq] at this
  exact this

end Agent
