import Upf.Model.Qos

namespace Qos

theorem scaled (r : U64) (h : r.toNat < 2^40) : ((r * 1000#64) / 8#64).toNat = r.toNat * 125 := by
  rw [BitVec.toNat_udiv, BitVec.toNat_mul]
  simp
  have : r.toNat * 1000 < 18446744073709551616 := by omega
  rw [Nat.mod_eq_of_lt this]
  omega

theorem maxU_toNat (x y : U64) : (maxU x y).toNat = max x.toNat y.toNat := by
  unfold maxU
  split <;> rename_i h <;> simp [BitVec.lt_def] at h <;> omega

theorem cir_exact (gbr : U64) (h : gbr.toNat < 2^40) : (cir gbr).toNat = max (gbr.toNat * 125) 1 := by
  unfold cir; rw [maxU_toNat, scaled gbr h]; rfl

/-- the peak rate programmed is exactly MBR × 125 bytes/s whenever GBR ≤ MBR and the QER is metered -/
theorem pir_exact (mbr gbr : U64) (hm : mbr.toNat < 2^40) (hle : gbr.toNat ≤ mbr.toNat)
    (hne : mbr ≠ 0#64 ∨ gbr ≠ 0#64) : (pir mbr gbr).toNat = mbr.toNat * 125 := by
  have hg : gbr.toNat < 2^40 := by omega
  have hpos : 0 < mbr.toNat := by
    rcases hne with h | h
    · rcases Nat.eq_zero_or_pos mbr.toNat with e | e
      · exact absurd (BitVec.eq_of_toNat_eq (by simpa using e)) h
      · exact e
    · rcases Nat.eq_zero_or_pos gbr.toNat with e | e
      · exact absurd (BitVec.eq_of_toNat_eq (by simpa using e)) h
      · omega
  unfold pir
  rw [maxU_toNat, scaled mbr hm, cir_exact gbr hg]
  omega

theorem closed_drops (status : BitVec 8) (mbr gbr : U64) (h : status ≠ 0#8) : gate status mbr gbr = .drop := by
  simp [gate, h]

theorem unmetered_iff (mbr gbr : U64) : gate 0#8 mbr gbr = .unmeter ↔ (mbr = 0#64 ∧ gbr = 0#64) := by
  unfold gate
  by_cases h1 : mbr = 0#64 <;> by_cases h2 : gbr = 0#64 <;> simp [h1, h2]

#print axioms pir_exact

end Qos

