import Upf.Proofs.Teid
/-! C07: over every operation sequence the TEIDs allocated and not yet freed are pairwise distinct and non-zero. -/
namespace Teid

inductive Op | alloc | free (id : Nat)

/-- state with a ghost list of live ids (allocated, not freed) -/
structure S where
  g : G
  live : List Nat

def stepAlloc (M : Nat) (s : S) : S :=
  match allocate M s.g with
  | none => s
  | some (id, g') => { g := g', live := id :: s.live }

def stepFree (s : S) (id : Nat) : S := { g := free s.g id, live := s.live.filter (· != id) }

def stepS (M : Nat) (s : S) : Op → S
  | .alloc => stepAlloc M s
  | .free id => stepFree s id

structure InvS (M : Nat) (s : S) : Prop where
  off : s.g.offset < M
  nodup : s.live.Nodup
  used : ∀ id ∈ s.live, id ≠ 0 ∧ id ≤ M ∧ s.g.used (id - 1) = true

theorem inv_alloc (M : Nat) (s : S) (h : InvS M s) : InvS M (stepAlloc M s) := by
  unfold stepAlloc
  split
  · exact h
  · rename_i id g' ha
    obtain ⟨h1, h2, h3, h4, h5, h6⟩ := alloc_fresh M s.g id g' h.off ha
    refine ⟨h6, ?_, ?_⟩
    · apply List.nodup_cons.mpr
      refine ⟨?_, h.nodup⟩
      intro hm
      have := (h.used id hm).2.2
      rw [h3] at this; cases this
    · intro x hx
      rcases List.mem_cons.mp hx with rfl | hx
      · exact ⟨h1, h2, h4⟩
      · obtain ⟨a, b, c⟩ := h.used x hx
        refine ⟨a, b, ?_⟩
        by_cases e : x - 1 = id - 1
        · rw [e]; exact h4
        · rw [h5 _ e]; exact c

theorem inv_free (M : Nat) (s : S) (id : Nat) (h : InvS M s) : InvS M (stepFree s id) := by
  unfold stepFree
  refine ⟨?_, h.nodup.filter _, ?_⟩
  · simp only [free]; split <;> exact h.off
  · intro x hx
    have hx' := List.mem_filter.mp hx
    have hne : x ≠ id := by simpa using hx'.2
    obtain ⟨a, b, c⟩ := h.used x hx'.1
    refine ⟨a, b, ?_⟩
    simp only [free]
    split
    · exact c
    · have : x - 1 ≠ id - 1 := by omega
      simp [this, c]

theorem inv_stepS (M : Nat) (s : S) (op : Op) (h : InvS M s) : InvS M (stepS M s op) := by
  cases op with
  | alloc => exact inv_alloc M s h
  | free id => exact inv_free M s id h

def runS (M : Nat) (s : S) (ops : List Op) : S := ops.foldl (stepS M) s

theorem inv_runS (M : Nat) (ops : List Op) : ∀ (s : S), InvS M s → InvS M (runS M s ops) := by
  induction ops with
  | nil => intro s h; exact h
  | cons o os ih => intro s h; exact ih _ (inv_stepS M s o h)

def init : S := { g := { offset := 0, used := fun _ => false }, live := [] }

theorem inv_init (M : Nat) (hM : 0 < M) : InvS M init := ⟨hM, List.nodup_nil, by intro id h; cases h⟩

end Teid
