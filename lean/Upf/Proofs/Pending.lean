import Upf.Model.Pending
namespace Pending

theorem inv_step (s : St) (e : Ev) (h : Inv s) : Inv (step true true s e).1 := by
  cases e with
  | originate q =>
    simp only [step]
    split
    · intro _ x hx
      rcases List.mem_cons.mp hx with rfl | hx
      · rfl
      · exact h (by assumption) x (List.mem_filter.mp hx).1
    · exact h
  | response q =>
    simp only [step]
    split
    · exact h
    · rename_i hs
      split
      · exact h
      · intro hv x hx
        simp only [if_true] at hx hv
        exact h (by simpa using hs) x (List.mem_filter.mp hx).1
      · exact h
  | giveUp q =>
    simp only [step]
    split
    · exact h
    · intro hv; simp at hv

/-- with both facts, the reader never blocks on a response, whatever arrives (late, duplicated, wrong sequence number) -/
theorem never_blocks (s : St) (e : Ev) (h : Inv s) : (step true true s e).2 ≠ .blocked := by
  cases e with
  | originate q => simp only [step]; split <;> simp
  | giveUp q => simp only [step]; split <;> simp
  | response q =>
    simp only [step]
    split
    · simp
    · rename_i hs
      split
      · simp
      · simp
      · rename_i q' hf
        have hm := List.mem_of_find?_eq_some hf
        have := h (by simpa using hs) _ hm
        simp at this

def run (s : St) (es : List Ev) : St := es.foldl (fun s e => (step true true s e).1) s

theorem inv_run (es : List Ev) : ∀ s, Inv s → Inv (run s es) := by
  induction es with
  | nil => intro s h; exact h
  | cons e es ih => intro s h; exact ih _ (inv_step s e h)

end Pending
