import Upf.Proofs.ModAdd
namespace Agent

/-- EVERY Session Modification — any mix of create / update / remove IEs, accepted or refused at any point — keeps the UE address
pool's invariant, and the only session under which an address can newly be held is the one the request names -/
theorem modify_pool_any (base : List Nat) (cfg : Cfg) (w : World) (a : Nat) (r : ModReq) (hP : PoolInv base w.pool) :
    PoolInv base (modify cfg w a r).world.pool ∧
    ∀ k ∈ poolKeys (modify cfg w a r).world.pool, k ∈ poolKeys w.pool ∨ k = r.seid := by
  unfold modify
  cases hfind : (w.conn a).sessions.find? (·.lseid = r.seid) with
  | none => simp only [hfind]; exact ⟨hP, fun k hk => Or.inl hk⟩
  | some s0 =>
    simp only [hfind]
    cases r.cpFseid with
    | none =>
      dsimp only
      have h1 := parsePdrs_pool base r.seid 0 (w.conn a).apps r.createPdrs w.pool hP
      cases hc : parsePdrs r.seid 0 (w.conn a).apps r.createPdrs w.pool with
      | error e =>
        obtain ⟨e, pool⟩ := e
        rw [hc] at h1
        exact h1
      | ok v =>
        obtain ⟨cp, pool⟩ := v
        rw [hc] at h1
        dsimp only
        cases hf : mapFars cfg r.seid 0 false r.createFars with
        | error e => exact h1
        | ok cf =>
          dsimp only
          have h2 := parsePdrs_pool base r.seid 0 (w.conn a).apps r.updatePdrs pool h1.1
          have h2k : ∀ k ∈ poolKeys (poolOut (parsePdrs r.seid 0 (w.conn a).apps r.updatePdrs pool)), k ∈ poolKeys w.pool ∨ k = r.seid := by
            intro k hk
            rcases h2.2 k hk with h | h
            · exact h1.2 k h
            · exact Or.inr h
          cases hu : parsePdrs r.seid 0 (w.conn a).apps r.updatePdrs pool with
          | error e =>
            obtain ⟨e, pool2⟩ := e
            rw [hu] at h2 h2k
            exact ⟨h2.1, h2k⟩
          | ok v2 =>
            obtain ⟨up, pool2⟩ := v2
            rw [hu] at h2 h2k
            dsimp only
            repeat' split
            all_goals first
              | exact ⟨h2.1, h2k⟩
              | (dsimp only; rw [setConn_pool]; exact ⟨h2.1, h2k⟩)
    | some v =>
      obtain ⟨cpS, ip⟩ := v
      dsimp only
      have h1 := parsePdrs_pool base r.seid ip (w.conn a).apps r.createPdrs w.pool hP
      cases hc : parsePdrs r.seid ip (w.conn a).apps r.createPdrs w.pool with
      | error e =>
        obtain ⟨e, pool⟩ := e
        rw [hc] at h1
        exact h1
      | ok v =>
        obtain ⟨cp, pool⟩ := v
        rw [hc] at h1
        dsimp only
        cases hf : mapFars cfg r.seid ip false r.createFars with
        | error e => exact h1
        | ok cf =>
          dsimp only
          have h2 := parsePdrs_pool base r.seid ip (w.conn a).apps r.updatePdrs pool h1.1
          have h2k : ∀ k ∈ poolKeys (poolOut (parsePdrs r.seid ip (w.conn a).apps r.updatePdrs pool)), k ∈ poolKeys w.pool ∨ k = r.seid := by
            intro k hk
            rcases h2.2 k hk with h | h
            · exact h1.2 k h
            · exact Or.inr h
          cases hu : parsePdrs r.seid ip (w.conn a).apps r.updatePdrs pool with
          | error e =>
            obtain ⟨e, pool2⟩ := e
            rw [hu] at h2 h2k
            exact ⟨h2.1, h2k⟩
          | ok v2 =>
            obtain ⟨up, pool2⟩ := v2
            rw [hu] at h2 h2k
            dsimp only
            repeat' split
            all_goals first
              | exact ⟨h2.1, h2k⟩
              | (dsimp only; rw [setConn_pool]; exact ⟨h2.1, h2k⟩)

end Agent
