import Upf.Model.AgentMod
import Upf.Proofs.BessAddDel
/-!
The other ways a session ends on BESS (Association Release, timeout / heartbeat failure: `shutdownConn`; Session Report
Response "context not found": `reportContextNotFound`) delete the stored rules exactly like a Session Deletion, and what a
later ending removes never brings an entry back.
-/
namespace Agent

theorem dropSession_tables (cfg : Cfg) (w : World) (s : Session) :
    (dropSession cfg w s).tables =
      { pdr := w.tables.pdr.without ((pdrKV s.pdrs).map (·.1)), far := w.tables.far.without ((farKV s.fars).map (·.1)),
        appQer := w.tables.appQer.without ((appQerKV cfg s.qers).map (·.1)),
        sessQer := w.tables.sessQer.without ((sessQerKV cfg s.qers).map (·.1)) } := by
  unfold dropSession
  exact sendDel_eq cfg w.tables s.pdrs s.fars s.qers

theorem Table.mem_of_mem_without {t : Table} {K : List String} {e : String × String} (h : e ∈ t.without K) : e ∈ t := by
  unfold Table.without at h
  exact (List.mem_filter.mp h).1

/-- the four tables as one list of (table name, entry) — to state "no entry of the session anywhere" once -/
def Tables.all (t : Tables) : List (String × String × String) :=
  t.pdr.map (("pdrLookup", ·)) ++ t.far.map (("farLookup", ·)) ++ t.appQer.map (("appQERLookup", ·)) ++ t.sessQer.map (("sessionQERLookup", ·))

/-- the keys a session's stored rules occupy, per table -/
def Session.keys (cfg : Cfg) (s : Session) : List (String × String) :=
  ((pdrKV s.pdrs).map fun e => ("pdrLookup", e.1)) ++ ((farKV s.fars).map fun e => ("farLookup", e.1)) ++
  ((appQerKV cfg s.qers).map fun e => ("appQERLookup", e.1)) ++ ((sessQerKV cfg s.qers).map fun e => ("sessionQERLookup", e.1))

/-- an entry of table `m` under key `k` -/
def Tables.has (t : Tables) (m k : String) : Prop := ∃ v, (m, k, v) ∈ t.all

theorem has_drop_sub (cfg : Cfg) (w : World) (s : Session) (m k : String) (h : (dropSession cfg w s).tables.has m k) : w.tables.has m k := by
  obtain ⟨v, hv⟩ := h
  refine ⟨v, ?_⟩
  rw [dropSession_tables] at hv
  simp only [Tables.all, List.mem_append, List.mem_map, Prod.mk.injEq] at hv ⊢
  rcases hv with ((⟨e, he, h1⟩ | ⟨e, he, h1⟩) | ⟨e, he, h1⟩) | ⟨e, he, h1⟩
  · exact Or.inl (Or.inl (Or.inl ⟨e, Table.mem_of_mem_without he, h1⟩))
  · exact Or.inl (Or.inl (Or.inr ⟨e, Table.mem_of_mem_without he, h1⟩))
  · exact Or.inl (Or.inr ⟨e, Table.mem_of_mem_without he, h1⟩)
  · exact Or.inr ⟨e, Table.mem_of_mem_without he, h1⟩

theorem drop_removes_own (cfg : Cfg) (w : World) (s : Session) (m k : String) (hk : (m, k) ∈ s.keys cfg) :
    ¬ (dropSession cfg w s).tables.has m k := by
  intro ⟨v, hv⟩
  rw [dropSession_tables] at hv
  simp only [Tables.all, List.mem_append, List.mem_map, Prod.mk.injEq] at hv
  simp only [Session.keys, List.mem_append, List.mem_map, Prod.mk.injEq] at hk
  rcases hv with ((⟨e, he, h1, h2⟩ | ⟨e, he, h1, h2⟩) | ⟨e, he, h1, h2⟩) | ⟨e, he, h1, h2⟩ <;>
  rcases hk with ((⟨x, hx, g1, g2⟩ | ⟨x, hx, g1, g2⟩) | ⟨x, hx, g1, g2⟩) | ⟨x, hx, g1, g2⟩ <;>
  first
  | (rw [← h1] at g1; exact absurd g1 (by decide))
  | (refine Table.not_mem_without (e := e) ?_ he
     have : e.1 = k := by rw [h2]
     rw [this, ← g2]
     exact List.mem_map_of_mem hx)

theorem foldl_drop_sub (cfg : Cfg) (m k : String) : ∀ (ss : List Session) (w : World),
    (ss.foldl (dropSession cfg) w).tables.has m k → w.tables.has m k
  | [], _, h => h
  | s :: rest, w, h => has_drop_sub cfg w s m k (foldl_drop_sub cfg m k rest (dropSession cfg w s) h)

theorem foldl_drop_removes (cfg : Cfg) (m k : String) : ∀ (ss : List Session) (w : World) (s : Session), s ∈ ss → (m, k) ∈ s.keys cfg →
    ¬ (ss.foldl (dropSession cfg) w).tables.has m k
  | [], _, _, hs, _ => by cases hs
  | s0 :: rest, w, s, hs, hk => by
    simp only [List.foldl_cons]
    rcases List.mem_cons.mp hs with rfl | hr
    · intro h
      exact drop_removes_own cfg w s m k hk (foldl_drop_sub cfg m k rest _ h)
    · exact foldl_drop_removes cfg m k rest _ s hr hk

/-- **Association Release / timeout / heartbeat failure**: afterwards no lookup table has an entry under a key of any rule of
any session of the association -/
theorem shutdown_leaves_no_key (cfg : Cfg) (w : World) (a : Nat) (s : Session) (hs : s ∈ (w.conn a).sessions)
    (m k : String) (hk : (m, k) ∈ s.keys cfg) : ¬ (shutdownConn cfg w a).tables.has m k := by
  unfold shutdownConn
  exact foldl_drop_removes cfg m k _ w s hs hk

/-- … and it adds nothing: whatever the tables hold afterwards they held before -/
theorem shutdown_adds_nothing (cfg : Cfg) (w : World) (a : Nat) (m k : String) (h : (shutdownConn cfg w a).tables.has m k) :
    w.tables.has m k := by
  unfold shutdownConn at h
  exact foldl_drop_sub cfg m k _ w h

/-- **Session Report Response "context not found"** -/
theorem report_leaves_no_key (cfg : Cfg) (w : World) (a seid : Nat) (s : Session)
    (h : (w.conn a).sessions.find? (·.lseid = seid) = some s) (m k : String) (hk : (m, k) ∈ s.keys cfg) :
    ¬ (reportContextNotFound cfg w a seid).tables.has m k := by
  unfold reportContextNotFound
  simp only [h, setConn_tables]
  exact drop_removes_own cfg w s m k hk

end Agent
