import Upf.Model.Conf

namespace Conf

theorem finish_valid (P : Preds) (raw c : C) (h : finish P raw = some c) : Valid P raw c := by
  unfold finish at h
  simp only at h
  split at h
  · rename_i hv
    cases h
    unfold validate at hv
    simp only [Bool.and_eq_true] at hv
    obtain ⟨⟨⟨⟨⟨⟨h1, h2⟩, h3⟩, h4⟩, h5⟩, h6⟩, h7⟩ := hv
    refine ⟨⟨h4, ?_⟩, ⟨by simpa using h5, ?_⟩, ⟨by simpa using h6, ?_⟩, ?_, ?_, ?_, ?_, ?_⟩
    · intro e; simp [defaults, e]
    · intro e; simp [defaults, e]
    · intro e; simp [defaults, e]
    · intro he
      have he' : raw.enableHB = true := he
      simp only [defaults, he', if_true] at h7 ⊢
      exact ⟨h7, fun e => by simp [e]⟩
    · by_cases hp : raw.enableP4rt = true
      · have : (defaults raw).enableP4rt = true := hp
        simp only [this, if_true] at h1 ⊢
        simp only [Bool.and_eq_true, beq_iff_eq] at h1
        exact ⟨h1.2, h1.1.1, h1.1.2⟩
      · have hf : (defaults raw).enableP4rt = false := by
          cases h' : raw.enableP4rt <;> simp_all [defaults]
        simp only [hf] at h1 ⊢
        simpa using h1
    · intro he
      have : (defaults raw).enableUeIPAlloc = true := he
      simp only [this, if_true] at h2
      exact h2
    · intro p hp
      exact List.all_eq_true.mp h3 p hp
    · simp [defaults]
  · cases h

#print axioms finish_valid

end Conf

