import Upf.Model.Conf

namespace Conf

/-! ## the regenerated constants are the documented defaults -/

theorem respTimeoutDefaultStr_eq : respTimeoutDefaultStr = "2s" := by decide
theorem hbIntervalDefaultStr_eq : hbIntervalDefaultStr = "5s" := by decide
theorem readTimeoutDefaultSecs_eq : readTimeoutDefaultSecs = 15 := by decide
theorem maxReqRetriesDefault_eq : maxReqRetriesDefault = 5 := by decide
theorem modes_eq : modes = ["af_packet", "af_xdp", "cndp", "dpdk", "sim"] := by decide
theorem init_logLevel : init.logLevel = infoLevel := by decide
theorem init_defaultTC : init.defaultTC = elasticTC := by decide

theorem mem_modes (m : String) : m ∈ modes ↔ m ∈ ["af_xdp", "af_packet", "cndp", "dpdk", "sim"] := by
  rw [modes_eq]
  simp only [List.mem_cons, List.not_mem_nil, or_false]
  constructor <;> intro h <;> rcases h with h | h | h | h | h <;> simp [h]

theorem mem_modes' (m : String) :
    m ∈ modes ↔ (m = "af_xdp" ∨ m = "af_packet" ∨ m = "cndp" ∨ m = "dpdk" ∨ m = "sim") := by
  rw [mem_modes]; simp

/-! ## validation -/

theorem check_none (b : Bool) (e : Err) : check b e = none ↔ b = false := by
  unfold check; cases b <;> simp

theorem check_some (b : Bool) (e e' : Err) : check b e = some e' ↔ b = true ∧ e' = e := by
  unfold check; cases b <;> simp [eq_comm]

/-- no check refuses iff the configuration is sound -/
theorem validate_none_iff (P : Preds) (c : C) : validate P c = none ↔ Sound P c := by
  unfold validate checks Sound
  simp only [List.findSome?_eq_none_iff, List.mem_cons, List.not_mem_nil, or_false, id, forall_eq_or_imp, forall_eq,
    check_none, Option.map_eq_none_iff, List.find?_eq_none]
  have hm := mem_modes' c.mode
  cases hp : c.enableP4rt <;> cases ha : c.enableUeIPAlloc <;> cases hh : c.enableHB <;>
    simp <;> (try constructor) <;> (try intro h) <;> simp_all

/-- what a refusal means, error by error -/
def ErrMeans (P : Preds) (c : C) : Err → Prop
  | .decode => False
  | .accessIP => c.enableP4rt = true ∧ P.cidr c.accessIP = false
  | .uePoolP4 => c.enableP4rt = true ∧ P.cidr c.uePool = false
  | .modeP4 => c.enableP4rt = true ∧ c.mode ≠ ""
  | .modeBess => c.enableP4rt = false ∧ c.mode ∉ modes
  | .uePoolAlloc => c.enableUeIPAlloc = true ∧ P.cidr c.uePool = false
  | .peer p => p ∈ c.peers ∧ P.ip p = false
  | .respTimeout => P.dur c.respTimeout = false
  | .readTimeout => c.readTimeout = 0
  | .retries => c.maxReqRetries = 0
  | .hbInterval => c.enableHB = true ∧ P.dur c.hbInterval = false

theorem validate_some_means (P : Preds) (c : C) (e : Err) (h : validate P c = some e) : ErrMeans P c e := by
  unfold validate at h
  obtain ⟨a, ha, hae⟩ := List.exists_of_findSome?_eq_some h
  simp only [id] at hae
  subst hae
  simp only [checks, List.mem_cons, List.not_mem_nil, or_false] at ha
  rcases ha with ha | ha | ha | ha | ha | ha | ha | ha | ha | ha
  all_goals first
    | (have ha' := (check_some _ _ _).mp ha.symm
       obtain ⟨hb, rfl⟩ := ha'
       simp [ErrMeans] at hb ⊢
       simp_all)
    | skip
  · -- the peer
    have ha' := ha.symm
    simp only [Option.map_eq_some_iff] at ha'
    obtain ⟨p, hp, rfl⟩ := ha'
    have h1 := List.mem_of_find?_eq_some hp
    have h2 := List.find?_some hp
    simp [ErrMeans, h1] at h2 ⊢
    exact h2

/-- a refusal never happens on a sound configuration, and a sound configuration is never refused -/
theorem validate_some_not_sound (P : Preds) (c : C) (e : Err) (h : validate P c = some e) : ¬ Sound P c := by
  intro hs
  rw [(validate_none_iff P c).mpr hs] at h
  cases h

/-! ## defaults -/

theorem defaults_filled (raw : C) : Filled raw (defaults raw) := by
  unfold Filled defaults
  simp only [respTimeoutDefaultStr_eq, hbIntervalDefaultStr_eq, readTimeoutDefaultSecs_eq, maxReqRetriesDefault_eq]
  refine ⟨trivial, trivial, trivial, ?_, ?_, trivial, trivial, trivial, trivial, trivial, trivial, trivial, trivial, trivial⟩
  · intro h; simp [h]
  · intro h; simp [h]

theorem defaults_idem (raw : C) : defaults (defaults raw) = defaults raw := by
  unfold defaults
  simp only [respTimeoutDefaultStr_eq, hbIntervalDefaultStr_eq, readTimeoutDefaultSecs_eq, maxReqRetriesDefault_eq]
  cases raw with
  | mk mode p4 acc pool alloc peers resp read retr hb hbi lvl tc =>
    simp only [C.mk.injEq, true_and]
    refine ⟨?_, ?_, ?_, ?_⟩
    · by_cases h : resp = "" <;> simp [h]
    · by_cases h : read = 0 <;> simp [h]
    · by_cases h : retr = 0 <;> simp [h]
    · by_cases h : hb = true ∧ hbi = ""
      · simp [h]
      · simp [h]

/-! ## finish = defaults ; validate -/

theorem finish_ok_iff (P : Preds) (raw c : C) : finish P raw = .ok c ↔ c = defaults raw ∧ Sound P (defaults raw) := by
  unfold finish
  simp only
  cases hv : validate P (defaults raw) with
  | none =>
    have := (validate_none_iff P _).mp hv
    simp [this, eq_comm]
  | some e =>
    have := validate_some_not_sound P _ e hv
    simp [this]

theorem finish_error_iff (P : Preds) (raw : C) (e : Err) :
    finish P raw = .error e ↔ validate P (defaults raw) = some e := by
  unfold finish
  simp only
  cases hv : validate P (defaults raw) <;> simp

theorem finish_valid (P : Preds) (raw c : C) (h : finish P raw = .ok c) : Valid P raw c := by
  obtain ⟨rfl, hs⟩ := (finish_ok_iff P raw c).mp h
  exact ⟨hs, defaults_filled raw⟩

/-- refusal is justified: the error names a check that the configuration (with defaults) really fails -/
theorem finish_error_means (P : Preds) (raw : C) (e : Err) (h : finish P raw = .error e) :
    ErrMeans P (defaults raw) e ∧ ¬ Sound P (defaults raw) := by
  have hv := (finish_error_iff P raw e).mp h
  exact ⟨validate_some_means P _ e hv, validate_some_not_sound P _ e hv⟩

/-- after the defaults the two `== 0` checks of `validateConf` cannot fire (they are dead code in `LoadConfigFile`) -/
theorem finish_zero_checks_dead (P : Preds) (raw : C) :
    finish P raw ≠ .error .readTimeout ∧ finish P raw ≠ .error .retries ∧ finish P raw ≠ .error .decode := by
  refine ⟨?_, ?_, ?_⟩ <;> intro h <;> have hm := (finish_error_means P raw _ h).1
  · simp only [ErrMeans, defaults, readTimeoutDefaultSecs_eq] at hm
    split at hm <;> simp_all
  · simp only [ErrMeans, defaults, maxReqRetriesDefault_eq] at hm
    split at hm <;> simp_all
  · exact hm

/-! ## decode ; finish -/

theorem load_ok_iff (P : Preds) (d : Doc) (c : C) :
    load P d = .ok c ↔ ∃ raw, decode P d = some raw ∧ finish P raw = .ok c := by
  unfold load
  cases decode P d <;> simp

theorem load_valid (P : Preds) (d : Doc) (c : C) (h : load P d = .ok c) :
    ∃ raw, decode P d = some raw ∧ Valid P raw c := by
  obtain ⟨raw, hd, hf⟩ := (load_ok_iff P d c).mp h
  exact ⟨raw, hd, finish_valid P raw c hf⟩

theorem load_decode_error_iff (P : Preds) (d : Doc) : load P d = .error .decode ↔ decode P d = none := by
  unfold load
  cases hd : decode P d with
  | none => simp
  | some raw =>
    have := (finish_zero_checks_dead P raw).2.2
    simp only [reduceCtorEq, iff_false]
    exact this

theorem decode_fields (P : Preds) (d : Doc) (raw : C) (h : decode P d = some raw) :
    decStr "" d.mode = some raw.mode ∧ decBool false d.enableP4rt = some raw.enableP4rt ∧
    decStr "" d.accessIP = some raw.accessIP ∧ decStr "" d.uePool = some raw.uePool ∧
    decBool false d.enableUeIPAlloc = some raw.enableUeIPAlloc ∧ decPeers d.peers = some raw.peers ∧
    decStr "" d.respTimeout = some raw.respTimeout ∧ decUint 32 0 d.readTimeout = some raw.readTimeout ∧
    decUint 8 0 d.maxReqRetries = some raw.maxReqRetries ∧ decBool false d.enableHB = some raw.enableHB ∧
    decStr "" d.hbInterval = some raw.hbInterval ∧ decLevel P infoLevel d.logLevel = some raw.logLevel ∧
    decUint 8 elasticTC d.defaultTC = some raw.defaultTC := by
  unfold decode at h
  simp only [Option.bind_eq_bind, Option.bind_eq_some_iff, Option.pure_def, Option.some.injEq] at h
  obtain ⟨_, h1, _, h2, _, h3, _, h4, _, h5, _, h6, _, h7, _, h8, _, h9, _, h10, _, h11, _, h12, _, h13, rfl⟩ := h
  rw [init_logLevel] at h12
  rw [init_defaultTC] at h13
  exact ⟨h1, h2, h3, h4, h5, h6, h7, h8, h9, h10, h11, h12, h13⟩

end Conf
