import Upf.Proofs.AnyHistory
namespace Agent

theorem free_only_clears (g : Teid.G) (id x : Nat) (h : (Teid.free g id).used x = true) : g.used x = true := by
  unfold Teid.free at h
  split at h
  · exact h
  · by_cases hx : x = id - 1
    · simp [hx] at h
    · simpa [hx] using h

theorem foldl_free_only_clears : ∀ (ps : List Pdr) (g : Teid.G) (x : Nat),
    (ps.foldl (fun g p => if p.chooseTeid then Teid.free g p.tunnelTEID else g) g).used x = true → g.used x = true
  | [], _, _, h => h
  | p :: rest, g, x, h => by
    rw [List.foldl_cons] at h
    have := foldl_free_only_clears rest _ x h
    split at this
    · exact free_only_clears g _ x this
    · exact this

theorem foldl_free_offset : ∀ (ps : List Pdr) (g : Teid.G),
    (ps.foldl (fun g p => if p.chooseTeid then Teid.free g p.tunnelTEID else g) g).offset = g.offset
  | [], _ => rfl
  | p :: rest, g => by
    rw [List.foldl_cons, foldl_free_offset rest]
    split
    · exact free_offset g _
    · rfl

/-- **the Session Modification handler allocates no TEID**: whatever the request carries — also a Create PDR or Update PDR whose
F-TEID has the CHOOSE flag — no TEID that was free becomes marked in use, and the allocator's cursor does not move; it can only
return TEIDs (those of removed PDRs, when the request is accepted) -/
theorem modify_allocates_no_teid (cfg : Cfg) (w : World) (a : Nat) (r : ModReq) :
    (∀ x, (modify cfg w a r).world.teid.used x = true → w.teid.used x = true) ∧
    (modify cfg w a r).world.teid.offset = w.teid.offset := by
  unfold modify
  cases hfind : (w.conn a).sessions.find? (·.lseid = r.seid) with
  | none => simp [hfind]
  | some s0 =>
    simp only [hfind]
    cases r.cpFseid with
    | none =>
      dsimp only
      repeat' split
      all_goals first
        | exact ⟨fun _ h => h, rfl⟩
        | (dsimp only; rw [setConn_teid]; dsimp only
           exact ⟨fun x h => foldl_free_only_clears _ _ x h, foldl_free_offset _ _⟩)
    | some v =>
      obtain ⟨cpS, ip⟩ := v
      dsimp only
      repeat' split
      all_goals first
        | exact ⟨fun _ h => h, rfl⟩
        | (dsimp only; rw [setConn_teid]; dsimp only
           exact ⟨fun x h => foldl_free_only_clears _ _ x h, foldl_free_offset _ _⟩)

end Agent
