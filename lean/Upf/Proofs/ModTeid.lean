import Upf.Proofs.AnyHistory
namespace Agent

theorem free_only_clears (g : Teid.G) (id x : Nat) (h : (Teid.free g id).used x = true) : g.used x = true := by
  unfold Teid.free at h
  split at h
  · exact h
  · by_cases hx : x = id - 1
    · simp [hx] at h
    · simpa [hx] using h

theorem foldl_free_only_clears : ∀ (ps : List Pdr) (g : Teid.G) (x : Nat),
    (ps.foldl (fun g p => if p.chooseTeid then Teid.free g p.tunnelTEID else g) g).used x = true → g.used x = true
  | [], _, _, h => h
  | p :: rest, g, x, h => by
    rw [List.foldl_cons] at h
    have := foldl_free_only_clears rest _ x h
    split at this
    · exact free_only_clears g _ x this
    · exact this

theorem foldl_free_offset : ∀ (ps : List Pdr) (g : Teid.G),
    (ps.foldl (fun g p => if p.chooseTeid then Teid.free g p.tunnelTEID else g) g).offset = g.offset
  | [], _ => rfl
  | p :: rest, g => by
    rw [List.foldl_cons, foldl_free_offset rest]
    split
    · exact free_offset g _
    · rfl

/-- **the Session Modification handler allocates no TEID**: whatever the request carries — also a Create PDR or Update PDR whose
F-TEID has the CHOOSE flag — no TEID that was free becomes marked in use, and the allocator's cursor does not move; it can only
return TEIDs (those of removed PDRs, when the request is accepted) -/
theorem modify_allocates_no_teid (cfg : Cfg) (w : World) (a : Nat) (r : ModReq) :
    (∀ x, (modify cfg w a r).world.teid.used x = true → w.teid.used x = true) ∧
    (modify cfg w a r).world.teid.offset = w.teid.offset := by
  unfold modify
  cases hfind : (w.conn a).sessions.find? (·.lseid = r.seid) with
  | none => simp [hfind]
  | some s0 =>
    simp only [hfind]
    cases r.cpFseid with
    | none =>
      dsimp only
      repeat' split
      all_goals first
        | exact ⟨fun _ h => h, rfl⟩
        | (dsimp only; rw [setConn_teid]; dsimp only
           exact ⟨fun x h => foldl_free_only_clears _ _ x h, foldl_free_offset _ _⟩)
    | some v =>
      obtain ⟨cpS, ip⟩ := v
      dsimp only
      repeat' split
      all_goals first
        | exact ⟨fun _ h => h, rfl⟩
        | (dsimp only; rw [setConn_teid]; dsimp only
           exact ⟨fun x h => foldl_free_only_clears _ _ x h, foldl_free_offset _ _⟩)

theorem foldl_drop_teid_only_clears (cfg : Cfg) : ∀ (ss : List Session) (w : World) (x : Nat),
    (ss.foldl (dropSession cfg) w).teid.used x = true → w.teid.used x = true
  | [], _, _, h => h
  | s :: rest, w, x, h => by
    rw [List.foldl_cons] at h
    have := foldl_drop_teid_only_clears cfg rest _ x h
    exact foldl_free_only_clears s.pdrs w.teid x this

/-- a request is an establishment -/
def Req.isEst : Req → Bool
  | .est _ _ _ => true
  | _ => false

/-- **only Session Establishment takes TEIDs**: every other request — modifications with any mix of IEs, deletions, reports,
association setups and endings, PFD updates — leaves every free TEID free -/
theorem only_establishment_takes_teids (cfg : Cfg) (w : World) (q : Req) (hq : q.isEst = false) (x : Nat)
    (h : (stepReq cfg w q).teid.used x = true) : w.teid.used x = true := by
  cases q with
  | assoc a node =>
    have : (stepReq cfg w (.assoc a node)).teid = w.teid := by show (assocSetup w a node).teid = w.teid; unfold assocSetup; rw [setConn_teid]
    rw [this] at h; exact h
  | pfd a apps ok =>
    have : (stepReq cfg w (.pfd a apps ok)).teid = w.teid := by
      show (pfdManagement w a apps ok).teid = w.teid
      unfold pfdManagement
      cases ok with
      | true => simp only [if_true]; rw [setConn_teid]
      | false => rfl
    rw [this] at h; exact h
  | est a lseid r => simp [Req.isEst] at hq
  | mod a r => exact (modify_allocates_no_teid cfg w a r).1 x h
  | del a seid =>
    have h' : (deleteSession cfg w a seid).1.teid.used x = true := h
    unfold deleteSession at h'
    dsimp only at h'
    split at h'
    · exact h'
    · rename_i s _
      rw [setConn_teid] at h'
      exact foldl_free_only_clears s.pdrs w.teid x h'
  | report a seid =>
    have h' : (reportContextNotFound cfg w a seid).teid.used x = true := h
    unfold reportContextNotFound at h'
    dsimp only at h'
    split at h'
    · exact h'
    · rename_i s _
      rw [setConn_teid] at h'
      exact foldl_free_only_clears s.pdrs w.teid x h'
  | shutdown a =>
    have h' : (shutdownConn cfg w a).teid.used x = true := h
    unfold shutdownConn at h'
    dsimp only at h'
    exact foldl_drop_teid_only_clears cfg _ w x h'

theorem free_clears (g : Teid.G) (id : Nat) (h : 1 ≤ id) : (Teid.free g id).used (id - 1) = false := by
  unfold Teid.free
  rw [if_neg (by omega)]
  simp

theorem foldl_free_stays_clear : ∀ (ps : List Pdr) (g : Teid.G) (x : Nat), g.used x = false →
    (ps.foldl (fun g p => if p.chooseTeid then Teid.free g p.tunnelTEID else g) g).used x = false
  | [], _, _, h => h
  | p :: rest, g, x, h => by
    rw [List.foldl_cons]
    apply foldl_free_stays_clear rest
    split
    · cases hb : (Teid.free g p.tunnelTEID).used x with
      | false => rfl
      | true => rw [free_only_clears g _ x hb] at h; cases h
    · exact h

theorem foldl_free_clears : ∀ (ps : List Pdr) (g : Teid.G) (p : Pdr), p ∈ ps → p.chooseTeid = true → 1 ≤ p.tunnelTEID →
    (ps.foldl (fun g p => if p.chooseTeid then Teid.free g p.tunnelTEID else g) g).used (p.tunnelTEID - 1) = false
  | [], _, _, hp, _, _ => by cases hp
  | q :: rest, g, p, hp, hc, h1 => by
    rw [List.foldl_cons]
    rcases List.mem_cons.mp hp with rfl | hp
    · apply foldl_free_stays_clear
      rw [if_pos hc]
      exact free_clears g _ h1
    · exact foldl_free_clears rest _ p hp hc h1

/-- **a Session Deletion returns what the session holds — in every state, whatever preceded** (no envelope): afterwards the session's
SEID holds no UE address, and every TEID the UP chose for one of its stored PDRs is free again -/
theorem deletion_returns_address_and_teids (cfg : Cfg) (w : World) (a seid : Nat) (s : Session)
    (hf : (w.conn a).sessions.find? (·.lseid = seid) = some s) :
    s.lseid ∉ poolKeys (deleteSession cfg w a seid).1.pool ∧
    ∀ p ∈ s.pdrs, p.chooseTeid = true → 1 ≤ p.tunnelTEID → (deleteSession cfg w a seid).1.teid.used (p.tunnelTEID - 1) = false := by
  unfold deleteSession
  simp only [hf]
  rw [setConn_pool, setConn_teid]
  refine ⟨fun hk => (keys_release w.pool w.teid s.lseid s.pdrs _ hk).2 rfl, fun p hp hc h1 => ?_⟩
  exact foldl_free_clears s.pdrs w.teid p hp hc h1

theorem report_returns_address_and_teids (cfg : Cfg) (w : World) (a seid : Nat) (s : Session)
    (hf : (w.conn a).sessions.find? (·.lseid = seid) = some s) :
    s.lseid ∉ poolKeys (reportContextNotFound cfg w a seid).pool ∧
    ∀ p ∈ s.pdrs, p.chooseTeid = true → 1 ≤ p.tunnelTEID → (reportContextNotFound cfg w a seid).teid.used (p.tunnelTEID - 1) = false := by
  unfold reportContextNotFound
  simp only [hf]
  rw [setConn_pool, setConn_teid]
  refine ⟨fun hk => (keys_release w.pool w.teid s.lseid s.pdrs _ hk).2 rfl, fun p hp hc h1 => ?_⟩
  exact foldl_free_clears s.pdrs w.teid p hp hc h1

theorem foldl_drop_stays_clear (cfg : Cfg) : ∀ (ss : List Session) (w : World) (x : Nat), w.teid.used x = false →
    (ss.foldl (dropSession cfg) w).teid.used x = false
  | [], _, _, h => h
  | s :: rest, w, x, h => by
    rw [List.foldl_cons]
    exact foldl_drop_stays_clear cfg rest _ x (foldl_free_stays_clear s.pdrs w.teid x h)

theorem foldl_drop_clears (cfg : Cfg) : ∀ (ss : List Session) (w : World) (s : Session) (p : Pdr), s ∈ ss → p ∈ s.pdrs →
    p.chooseTeid = true → 1 ≤ p.tunnelTEID → (ss.foldl (dropSession cfg) w).teid.used (p.tunnelTEID - 1) = false
  | [], _, _, _, hs, _, _, _ => by cases hs
  | t :: rest, w, s, p, hs, hp, hc, h1 => by
    rw [List.foldl_cons]
    rcases List.mem_cons.mp hs with rfl | hs
    · exact foldl_drop_stays_clear cfg rest _ _ (foldl_free_clears s.pdrs w.teid p hp hc h1)
    · exact foldl_drop_clears cfg rest _ s p hs hp hc h1

/-- an association's ending (release, read timeout, heartbeat failure, stop) returns what every one of its sessions holds -/
theorem shutdown_returns_addresses_and_teids (cfg : Cfg) (w : World) (a : Nat) (s : Session) (hs : s ∈ (w.conn a).sessions) :
    s.lseid ∉ poolKeys (shutdownConn cfg w a).pool ∧
    ∀ p ∈ s.pdrs, p.chooseTeid = true → 1 ≤ p.tunnelTEID → (shutdownConn cfg w a).teid.used (p.tunnelTEID - 1) = false := by
  unfold shutdownConn
  dsimp only
  refine ⟨fun hk => (foldl_drop_pool cfg _ w _ hk).2 s hs rfl, fun p hp hc h1 => ?_⟩
  exact foldl_drop_clears cfg _ w s p hs hp hc h1

end Agent
