import Upf.Proofs.Up4Ids
/-!
Counter cells (C15): what `sendCreate`'s counter loop hands out and what `sendDelete` takes back, for every pool content,
every environment (the cell `Pop()` returns, the fate of every Write) and every request.

* the cells handed out by one establishment are pairwise distinct, were free, and are no longer free;
  nothing else leaves the pool and nothing enters it (`allocCounters_spec`);
* a successful deletion returns exactly the cells of the deleted PDRs (`release_spec`);
* hence the ledger invariant `CInv free held` — free and held cells are disjoint, neither has a duplicate — is kept by
  every allocation (held grows by the cells handed out) and every release of held cells (`alloc_keeps_ledger`,
  `release_keeps_ledger`): no cell is ever held twice or free and held.
-/
namespace Up4
open Agent

/-- the PDRs with the cells they were given -/
def assign (ps : List Pdr) (ids : List Nat) : List Pdr := List.zipWith (fun p id => { p with ctrID := id }) ps ids

theorem allocCounters_spec : ∀ (n : Nat) (todo done : List Pdr) (c : Ctx), c.st.ctrFree.Nodup →
    ∃ ids : List Nat, ids.Nodup ∧ (∀ i ∈ ids, i ∈ c.st.ctrFree) ∧
      (∀ x, x ∈ (allocCounters c n done todo).1.st.ctrFree ↔ (x ∈ c.st.ctrFree ∧ x ∉ ids)) ∧
      (allocCounters c n done todo).1.st.ctrFree.Nodup ∧
      ((allocCounters c n done todo).2.2 = true →
        (allocCounters c n done todo).2.1 = done.reverse ++ assign (todo.take n) ids ++ todo.drop n ∧ ids.length = min n todo.length)
  | 0, todo, done, c, hnd => by
    refine ⟨[], List.nodup_nil, by simp, by simp [allocCounters], by simpa [allocCounters] using hnd, ?_⟩
    intro _
    simp [allocCounters, assign]
  | n + 1, [], done, c, hnd => by
    refine ⟨[], List.nodup_nil, by simp, by simp [allocCounters], by simpa [allocCounters] using hnd, ?_⟩
    intro _
    simp [allocCounters, assign]
  | n + 1, p :: todo, done, c, hnd => by
    unfold allocCounters
    cases hp : pop c c.st.ctrFree with
    | none =>
      refine ⟨[], List.nodup_nil, by simp, by simp, by simpa using hnd, ?_⟩
      intro h; simp at h
    | some r =>
      obtain ⟨id, free, c1⟩ := r
      obtain ⟨hin, hfree, hst⟩ := pop_spec hp
      simp only
      have hfnd : free.Nodup := by rw [hfree]; exact hnd.erase id
      have hidf : id ∉ free := by rw [hfree]; exact hnd.not_mem_erase
      have hmem : ∀ x, x ∈ free ↔ (x ∈ c.st.ctrFree ∧ x ≠ id) := by
        intro x; rw [hfree, hnd.mem_erase_iff]; exact And.comm
      split
      · -- the counters were reset: the loop goes on with the pool less this cell
        have hc3 : (write { c1 with st := { c1.st with ctrFree := free } }
            [⟨.modify, .counter Gen.P4Constants.CounterPreQosPipePreQosCounter id⟩,
             ⟨.modify, .counter Gen.P4Constants.CounterPostQosPipePostQosCounter id⟩]).1.st.ctrFree = free := by simp
        generalize (write { c1 with st := { c1.st with ctrFree := free } }
            [⟨.modify, .counter Gen.P4Constants.CounterPreQosPipePreQosCounter id⟩,
             ⟨.modify, .counter Gen.P4Constants.CounterPostQosPipePostQosCounter id⟩]).1 = c3 at hc3 ⊢
        obtain ⟨ids, hids, hsub, hiff, hnd', hres⟩ := allocCounters_spec n todo ({ p with ctrID := id } :: done) c3 (by rw [hc3]; exact hfnd)
        refine ⟨id :: ids, ?_, ?_, ?_, hnd', ?_⟩
        · refine List.nodup_cons.mpr ⟨?_, hids⟩
          intro hi; exact hidf (hc3 ▸ hsub id hi)
        · intro i hi
          rcases List.mem_cons.mp hi with rfl | h
          · exact hin
          · exact ((hmem i).mp (hc3 ▸ hsub i h)).1
        · intro x
          rw [hiff x, hc3, hmem x]
          simp only [List.mem_cons, not_or]
          constructor
          · rintro ⟨⟨h1, h2⟩, h3⟩; exact ⟨h1, h2, h3⟩
          · rintro ⟨h1, h2, h3⟩; exact ⟨⟨h1, h2⟩, h3⟩
        · intro hok
          obtain ⟨h1, h2⟩ := hres hok
          refine ⟨?_, ?_⟩
          · rw [h1]; simp [assign]
          · simp only [List.length_cons, h2]; omega
      · -- the Write failed: the cell has left the pool (it is not handed back), the request is refused
        refine ⟨[id], by simp, by simpa using hin, ?_, by simpa using hfnd, ?_⟩
        · intro x; simp only [write_ctrFree, List.mem_singleton]; exact hmem x
        · intro h; simp at h

/-- the cells an accepted `sendCreate` gave to the session's PDRs: pairwise distinct, taken from the free pool, no longer free -/
theorem created_cells_exclusive (c : Ctx) (n : Nat) (pdrs : List Pdr) (hnd : c.st.ctrFree.Nodup)
    (hok : (allocCounters c n [] pdrs).2.2 = true) :
    ∃ ids : List Nat, ids.Nodup ∧ ids.length = min n pdrs.length ∧
      (allocCounters c n [] pdrs).2.1 = assign (pdrs.take n) ids ++ pdrs.drop n ∧
      (∀ i ∈ ids, i ∈ c.st.ctrFree ∧ i ∉ (allocCounters c n [] pdrs).1.st.ctrFree) ∧
      (∀ x ∈ (allocCounters c n [] pdrs).1.st.ctrFree, x ∈ c.st.ctrFree) := by
  obtain ⟨ids, hids, hsub, hiff, _, hres⟩ := allocCounters_spec n pdrs [] c hnd
  obtain ⟨h1, h2⟩ := hres hok
  refine ⟨ids, hids, h2, by simpa using h1, ?_, ?_⟩
  · intro i hi
    exact ⟨hsub i hi, fun h => ((hiff i).mp h).2 hi⟩
  · intro x hx; exact ((hiff x).mp hx).1

/-! ## release -/

theorem setAdd_mem (l : List Nat) (x y : Nat) : y ∈ setAdd l x ↔ y ∈ l ∨ y = x := by
  unfold setAdd
  split
  · rename_i h
    have : x ∈ l := List.contains_iff_mem.mp h
    constructor
    · exact Or.inl
    · rintro (h | rfl) <;> assumption
  · simp

theorem setAdd_nodup' (l : List Nat) (x : Nat) (h : l.Nodup) : (setAdd l x).Nodup := by
  unfold setAdd
  split
  · exact h
  · rename_i hc
    have : x ∉ l := fun hx => hc (List.contains_iff_mem.mpr hx)
    exact List.nodup_append.mpr ⟨h, by simp, by intro a ha b hb; simp at hb; subst hb; intro e; subst e; exact this ha⟩

theorem release_mem (ids : List Nat) : ∀ (free : List Nat) (y : Nat), y ∈ ids.foldl setAdd free ↔ y ∈ free ∨ y ∈ ids := by
  induction ids with
  | nil => intro free y; simp
  | cons i rest ih =>
    intro free y
    simp only [List.foldl_cons]
    rw [ih, setAdd_mem]
    simp only [List.mem_cons]
    constructor
    · rintro ((h | h) | h)
      · exact Or.inl h
      · exact Or.inr (Or.inl h)
      · exact Or.inr (Or.inr h)
    · rintro (h | h | h)
      · exact Or.inl (Or.inl h)
      · exact Or.inl (Or.inr h)
      · exact Or.inr h

theorem release_nodup (ids : List Nat) : ∀ (free : List Nat), free.Nodup → (ids.foldl setAdd free).Nodup := by
  induction ids with
  | nil => intro free h; exact h
  | cons i rest ih => intro free h; exact ih _ (setAdd_nodup' free i h)

/-! ## the ledger: free cells and held cells -/

/-- free and held cells are disjoint and neither list has a duplicate -/
structure CInv (free held : List Nat) : Prop where
  free_nodup : free.Nodup
  held_nodup : held.Nodup
  disjoint : ∀ x ∈ held, x ∉ free

/-- an allocation (accepted or refused half-way) keeps the ledger when the cells that left the pool are booked as held -/
theorem alloc_keeps_ledger (c : Ctx) (n : Nat) (done todo : List Pdr) (held : List Nat) (h : CInv c.st.ctrFree held) :
    ∃ ids : List Nat, CInv (allocCounters c n done todo).1.st.ctrFree (held ++ ids) := by
  obtain ⟨ids, hids, hsub, hiff, hnd', _⟩ := allocCounters_spec n todo done c h.free_nodup
  refine ⟨ids, hnd', ?_, ?_⟩
  · refine List.nodup_append.mpr ⟨h.held_nodup, hids, ?_⟩
    intro a ha b hb e
    subst e
    exact h.disjoint a ha (hsub a hb)
  · intro x hx hfree
    obtain ⟨h1, h2⟩ := (hiff x).mp hfree
    rcases List.mem_append.mp hx with hh | hi
    · exact h.disjoint x hh h1
    · exact h2 hi

/-- releasing cells that are held (each once) keeps the ledger: they become free, the others stay held -/
theorem release_keeps_ledger (free held ids : List Nat) (h : CInv free held) :
    CInv (ids.foldl setAdd free) (held.filter fun x => !ids.contains x) := by
  refine ⟨release_nodup ids free h.free_nodup, h.held_nodup.filter _, ?_⟩
  intro x hx hfree
  obtain ⟨hh, hni⟩ := List.mem_filter.mp hx
  have hni' : x ∉ ids := by
    intro hi
    simp at hni
    exact hni hi
  rcases (release_mem ids free x).mp hfree with h1 | h1
  · exact h.disjoint x hh h1
  · exact hni' h1

/-! ## only the counter loop and a successful deletion touch the counter pool -/

theorem configureSessMeter_ctr (c : Ctx) (q : Qer) : (configureSessMeter c q).1.st.ctrFree = c.st.ctrFree := by
  unfold configureSessMeter
  cases h1 : pop c c.st.sessFree with
  | none => rfl
  | some r1 =>
    obtain ⟨ul, free, c1⟩ := r1
    have hst1 := (pop_spec h1).2.2
    simp only
    cases h2 : pop { c1 with st := { c1.st with sessFree := free } } free with
    | none => simp [hst1]
    | some r2 =>
      obtain ⟨dl, free2, c2⟩ := r2
      have hst2 := (pop_spec h2).2.2
      simp only at hst2
      simp only
      split <;> simp [hst1, hst2]

theorem configureAppMeter_ctr (c : Ctx) (q : Qer) (bidir : Bool) : (configureAppMeter c q bidir).1.st.ctrFree = c.st.ctrFree := by
  unfold configureAppMeter
  cases h1 : pop c c.st.appFree with
  | none => rfl
  | some r1 =>
    obtain ⟨ul, free, c1⟩ := r1
    have hst1 := (pop_spec h1).2.2
    simp only
    cases bidir with
    | false =>
      simp only [Bool.false_eq_true, if_false]
      repeat' split
      all_goals simp [hst1]
    | true =>
      simp only [if_true]
      cases h2 : pop { c1 with st := { c1.st with appFree := free } } free with
      | none => simp [hst1]
      | some r2 =>
        obtain ⟨dl, free2, c2⟩ := r2
        have hst2 := (pop_spec h2).2.2
        simp only at hst2
        simp only
        repeat' split
        all_goals simp [hst1, hst2]

theorem configureMeters_ctr (n : Nat) : ∀ (qs : List Qer) (c : Ctx), (configureMeters n c qs).1.st.ctrFree = c.st.ctrFree
  | [], c => by simp [configureMeters]
  | q :: rest, c => by
    unfold configureMeters
    have h1 : (if q.session then configureSessMeter c q else configureAppMeter c q (n == 1)).1.st.ctrFree = c.st.ctrFree := by
      split
      · exact configureSessMeter_ctr c q
      · exact configureAppMeter_ctr c q _
    generalize (if q.session then configureSessMeter c q else configureAppMeter c q (n == 1)) = r at h1
    obtain ⟨c1, m⟩ := r
    cases m with
    | none => exact h1
    | some m => simp only; rw [configureMeters_ctr n rest]; exact h1

theorem resetMeters_ctr : ∀ (qs : List Qer) (c : Ctx), (resetMeters c qs).st.ctrFree = c.st.ctrFree
  | [], c => by simp [resetMeters]
  | q :: rest, c => by
    unfold resetMeters
    cases mapGet c.st.meters (q.qerID, q.fseID) with
    | none => simp only; exact resetMeters_ctr rest c
    | some m =>
      simp only
      split
      · rw [resetMeters_ctr rest]; split <;> simp
      · rw [resetMeters_ctr rest]

theorem addOrUpdatePeer_ctr (cfg : Cfg4) (c : Ctx) (f : Far) : (addOrUpdatePeer cfg c f).1.st.ctrFree = c.st.ctrFree := by
  unfold addOrUpdatePeer
  try dsimp only
  cases hm : mapGet c.st.peers (tpOf cfg f) with
  | some pr =>
    simp only
    cases hb : buildPeer pr.id (tpOf cfg f) with
    | none => rfl
    | some e => simp
  | none =>
    simp only
    cases hp : c.st.peerPool with
    | nil => rfl
    | cons id pool =>
      simp only
      cases hb : buildPeer id (tpOf cfg f) with
      | none => rfl
      | some e =>
        simp only
        split <;> simp

theorem updatePeers_ctr (cfg : Cfg4) : ∀ (fs : List Far) (c : Ctx), (updatePeers cfg c fs).1.st.ctrFree = c.st.ctrFree
  | [], c => by simp [updatePeers]
  | f :: rest, c => by
    unfold updatePeers
    split
    · have h := addOrUpdatePeer_ctr cfg c f
      generalize addOrUpdatePeer cfg c f = r at h
      obtain ⟨c1, b⟩ := r
      cases b
      · exact h
      · simp only; rw [updatePeers_ctr cfg rest c1]; exact h
    · exact updatePeers_ctr cfg rest c

theorem addApp_ctr (cfg : Cfg4) (st : St) (p : Pdr) : (addApp cfg st p).1.ctrFree = st.ctrFree := by
  unfold addApp
  try dsimp only
  cases mapGet st.apps (afOf p) with
  | some ap => rfl
  | none =>
    simp only
    cases st.appPool with
    | nil => rfl
    | cons id pool =>
      simp only
      cases buildApplication p cfg.sliceID id <;> rfl

theorem removeApp_ctr (cfg : Cfg4) (st : St) (p : Pdr) : (removeApp cfg st p).1.ctrFree = st.ctrFree := by
  unfold removeApp
  try dsimp only
  cases mapGet st.apps (afOf p) with
  | none => rfl
  | some ap =>
    simp only
    split
    · rfl
    · cases ap.entry <;> rfl

theorem appStep_ctr (cfg : Cfg4) (op : Op) (st : St) (p : Pdr) : (appStep cfg op st p).1.ctrFree = st.ctrFree := by
  unfold appStep
  split
  · rfl
  · split
    · have := addApp_ctr cfg st p
      generalize addApp cfg st p = r at this
      obtain ⟨s1, o⟩ := r
      cases o with
      | none => exact this
      | some x => obtain ⟨e, id⟩ := x; exact this
    · exact removeApp_ctr cfg st _

theorem prepare_ctr (cfg : Cfg4) (fars : List Far) (qers : List Qer) (op : Op) (st : St) (p : Pdr) :
    (prepare cfg fars qers op st p).1.ctrFree = st.ctrFree := by
  rcases prepare_state cfg fars qers op st p with h | ⟨p', h⟩
  · rw [h]
  · rw [h]; exact appStep_ctr cfg op st p'

theorem modifyFwd_ctr (cfg : Cfg4) (fars : List Far) (qers : List Qer) (op : Op) :
    ∀ (ps : List Pdr) (c : Ctx), (modifyFwd cfg fars qers op c ps).1.st.ctrFree = c.st.ctrFree
  | [], c => by simp [modifyFwd]
  | p :: rest, c => by
    unfold modifyFwd
    have h := prepare_ctr cfg fars qers op c.st p
    generalize prepare cfg fars qers op c.st p = r at h
    obtain ⟨st, oe⟩ := r
    cases oe with
    | none => exact h
    | some entries =>
      simp only
      split
      · rw [modifyFwd_ctr cfg fars qers op rest]; simpa using h
      · simpa using h

theorem removePeer_ctr (cfg : Cfg4) (c : Ctx) (f : Far) : (removePeer cfg c f).st.ctrFree = c.st.ctrFree := by
  unfold removePeer
  try dsimp only
  cases mapGet c.st.peers (tpOf cfg f) with
  | none => rfl
  | some pr =>
    simp only
    split
    · rfl
    · cases buildPeer pr.id (tpOf cfg f) with
      | none => rfl
      | some e => simp

theorem removePeers_ctr (cfg : Cfg4) : ∀ (fs : List Far) (c : Ctx), (fs.foldl (removePeer cfg) c).st.ctrFree = c.st.ctrFree
  | [], c => rfl
  | f :: rest, c => by simp only [List.foldl_cons]; rw [removePeers_ctr cfg rest, removePeer_ctr]

theorem updateMaps_ctr : ∀ (ps : List Pdr) (st : St), (updateMaps st ps).ctrFree = st.ctrFree
  | [], st => rfl
  | p :: rest, st => by
    unfold updateMaps
    simp only [List.foldl_cons]
    have := updateMaps_ctr rest (if p.srcIface = Sdf.access then st
      else { st with ue2f := mapPut st.ue2f p.ueAddress p.fseID, f2ue := mapPut st.f2ue p.fseID p.ueAddress })
    unfold updateMaps at this
    rw [this]; split <;> rfl

theorem removeMaps_ctr : ∀ (ps : List Pdr) (st : St), (removeMaps st ps).ctrFree = st.ctrFree
  | [], st => rfl
  | p :: rest, st => by
    unfold removeMaps
    simp only [List.foldl_cons]
    have := removeMaps_ctr rest (if p.srcIface = Sdf.access then st
      else { st with ue2f := mapDel st.ue2f p.ueAddress, f2ue := mapDel st.f2ue p.fseID })
    unfold removeMaps at this
    rw [this]; split <;> rfl

/-- **sendCreate**: the counter pool afterwards is the pool after the counter loop — accepted or refused at any later step -/
theorem sendCreate_ctr (cfg : Cfg4) (c : Ctx) (all updated : Rules) :
    (sendCreate cfg c all updated).1.st.ctrFree = (allocCounters c updated.pdrs.length [] all.pdrs).1.st.ctrFree := by
  unfold sendCreate
  generalize allocCounters c updated.pdrs.length [] all.pdrs = r1
  obtain ⟨c1, pdrs, ok1⟩ := r1
  cases ok1
  · rfl
  · simp only [Bool.not_true, Bool.false_eq_true, if_false]
    have h2 := configureMeters_ctr updated.qers.length updated.qers { c1 with st := updateMaps c1.st updated.pdrs }
    generalize configureMeters updated.qers.length { c1 with st := updateMaps c1.st updated.pdrs } updated.qers = r2 at h2
    obtain ⟨c2, ok2⟩ := r2
    have h2' : c2.st.ctrFree = c1.st.ctrFree := h2.trans (updateMaps_ctr _ _)
    cases ok2
    · exact h2'
    · simp only [Bool.not_true, Bool.false_eq_true, if_false]
      have h3 := updatePeers_ctr cfg updated.fars c2
      generalize updatePeers cfg c2 updated.fars = r3 at h3
      obtain ⟨c3, ok3⟩ := r3
      cases ok3
      · exact h3.trans h2'
      · simp only [Bool.not_true, Bool.false_eq_true, if_false]
        exact (modifyFwd_ctr cfg all.fars all.qers .insert pdrs c3).trans (h3.trans h2')

/-- **sendUpdate** never touches the counter pool -/
theorem sendUpdate_ctr (cfg : Cfg4) (c : Ctx) (all updated : Rules) : (sendUpdate cfg c all updated).1.st.ctrFree = c.st.ctrFree := by
  unfold sendUpdate
  dsimp only
  have h3 := updatePeers_ctr cfg updated.fars { c with st := updateMaps c.st updated.pdrs }
  generalize updatePeers cfg { c with st := updateMaps c.st updated.pdrs } updated.fars = r3 at h3
  obtain ⟨c3, ok3⟩ := r3
  have h3' : c3.st.ctrFree = c.st.ctrFree := h3.trans (updateMaps_ctr _ _)
  cases ok3
  · exact h3'
  · simp only [Bool.not_true, Bool.false_eq_true, if_false]
    exact (modifyFwd_ctr cfg all.fars all.qers .modify all.pdrs c3).trans h3'

/-- **sendDelete**: refused — the pool is untouched (the cells stay with the session); accepted — the pool gains exactly the cells of
the deleted PDRs -/
theorem sendDelete_ctr (cfg : Cfg4) (c : Ctx) (del : Rules) :
    (sendDelete cfg c del).1.st.ctrFree =
      if (sendDelete cfg c del).2 then (del.pdrs.map (·.ctrID)).foldl setAdd c.st.ctrFree else c.st.ctrFree := by
  unfold sendDelete
  have h1 := modifyFwd_ctr cfg del.fars del.qers .delete del.pdrs c
  generalize modifyFwd cfg del.fars del.qers .delete c del.pdrs = r1 at h1
  obtain ⟨c1, ok1⟩ := r1
  cases ok1
  · simpa using h1
  · simp only [Bool.not_true, Bool.false_eq_true, if_false, if_true]
    rw [removeMaps_ctr, removePeers_ctr, resetMeters_ctr]
    have h1' : c1.st.ctrFree = c.st.ctrFree := h1
    simp only [h1', List.foldl_map]

/-! ## the ledger along a request: cells that left the pool are held until an accepted deletion returns them -/

/-- cells of `free` that are no longer in `free'` -/
def leftPool (free free' : List Nat) : List Nat := free.filter fun x => !free'.contains x

/-- whatever made the pool shrink to a duplicate-free sub-pool: booking the cells that left as held keeps the ledger -/
theorem shrink_keeps_ledger {free free' held : List Nat} (h : CInv free held) (hnd : free'.Nodup) (hsub : ∀ x ∈ free', x ∈ free) :
    CInv free' (held ++ leftPool free free') := by
  refine ⟨hnd, ?_, ?_⟩
  · refine List.nodup_append.mpr ⟨h.held_nodup, h.free_nodup.filter _, ?_⟩
    intro a ha b hb e
    subst e
    exact h.disjoint a ha (List.mem_filter.mp hb).1
  · intro x hx hf
    rcases List.mem_append.mp hx with hh | hl
    · exact h.disjoint x hh (hsub x hf)
    · have := (List.mem_filter.mp hl).2
      simp at this
      exact this hf

/-- **sendCreate** (accepted or refused anywhere): the ledger is kept with the cells that left the pool booked as held -/
theorem sendCreate_ledger (cfg : Cfg4) (c : Ctx) (all updated : Rules) (held : List Nat) (h : CInv c.st.ctrFree held) :
    CInv (sendCreate cfg c all updated).1.st.ctrFree (held ++ leftPool c.st.ctrFree (sendCreate cfg c all updated).1.st.ctrFree) := by
  rw [sendCreate_ctr]
  obtain ⟨ids, _, _, hiff, hnd', _⟩ := allocCounters_spec updated.pdrs.length all.pdrs [] c h.free_nodup
  exact shrink_keeps_ledger h hnd' (fun x hx => ((hiff x).mp hx).1)

/-- **sendDelete**: refused — nothing changes; accepted — the cells of the deleted PDRs are free again and no longer held -/
theorem sendDelete_ledger (cfg : Cfg4) (c : Ctx) (del : Rules) (held : List Nat) (h : CInv c.st.ctrFree held) :
    CInv (sendDelete cfg c del).1.st.ctrFree
      (if (sendDelete cfg c del).2 then held.filter (fun x => !(del.pdrs.map (·.ctrID)).contains x) else held) := by
  rw [sendDelete_ctr]
  split
  · exact release_keeps_ledger _ _ _ h
  · exact h

/-- after start-up (whatever the switch held, whatever failed) the counter pool has no duplicate -/
theorem start_ctr_nodup (cfg : Cfg4) (srv : Srv) (injs : List Inj) : (start cfg srv injs).1.st.ctrFree.Nodup := by
  unfold start
  simp only
  generalize arrSize info.counters Gen.P4Constants.CounterPreQosPipePreQosCounter = n
  split
  · simp
  · split
    · simp only [write_ctrFree]; exact List.nodup_range
    · exact List.nodup_range

/-! ## what the session stores: the PDRs `sendCreate` returns -/

theorem sendCreate_pdrs (cfg : Cfg4) (c : Ctx) (all updated : Rules) :
    (sendCreate cfg c all updated).2.1 = (allocCounters c updated.pdrs.length [] all.pdrs).2.1 := by
  unfold sendCreate
  generalize allocCounters c updated.pdrs.length [] all.pdrs = r1
  obtain ⟨c1, pdrs, ok1⟩ := r1
  cases ok1
  · rfl
  · simp only [Bool.not_true, Bool.false_eq_true, if_false]
    generalize configureMeters updated.qers.length { c1 with st := updateMaps c1.st updated.pdrs } updated.qers = r2
    obtain ⟨c2, ok2⟩ := r2
    cases ok2
    · rfl
    · simp only [Bool.not_true, Bool.false_eq_true, if_false]
      generalize updatePeers cfg c2 updated.fars = r3
      obtain ⟨c3, ok3⟩ := r3
      cases ok3
      · rfl
      · rfl

theorem sendCreate_ok_alloc (cfg : Cfg4) (c : Ctx) (all updated : Rules) (hok : (sendCreate cfg c all updated).2.2 = true) :
    (allocCounters c updated.pdrs.length [] all.pdrs).2.2 = true := by
  unfold sendCreate at hok
  generalize allocCounters c updated.pdrs.length [] all.pdrs = r1 at hok ⊢
  obtain ⟨c1, pdrs, ok1⟩ := r1
  cases ok1
  · simp at hok
  · rfl

theorem map_ctrID_assign : ∀ (ps : List Pdr) (ids : List Nat), ids.length = ps.length → (assign ps ids).map (·.ctrID) = ids
  | [], [], _ => rfl
  | [], _ :: _, h => by simp at h
  | _ :: _, [], h => by simp at h
  | p :: ps, i :: ids, h => by
    simp only [assign, List.zipWith_cons_cons, List.map_cons, List.cons.injEq, true_and]
    exact map_ctrID_assign ps ids (by simpa using h)

theorem map_pdrID_assign : ∀ (ps : List Pdr) (ids : List Nat), ids.length = ps.length → (assign ps ids).map (·.pdrID) = ps.map (·.pdrID)
  | [], [], _ => rfl
  | [], _ :: _, h => by simp at h
  | _ :: _, [], h => by simp at h
  | p :: ps, i :: ids, h => by
    simp only [assign, List.zipWith_cons_cons, List.map_cons, List.cons.injEq, true_and]
    exact map_pdrID_assign ps ids (by simpa using h)

/-- **an accepted establishment** (every PDR of the session is new: the handler passes the same list twice): the PDRs the session
stores are the request's PDRs, each with a cell of its own — pairwise distinct cells, all of them free before and none free after -/
theorem established_pdrs_hold_fresh_cells (cfg : Cfg4) (c : Ctx) (all updated : Rules) (hnd : c.st.ctrFree.Nodup)
    (hlen : updated.pdrs.length = all.pdrs.length) (hok : (sendCreate cfg c all updated).2.2 = true) :
    ((sendCreate cfg c all updated).2.1.map (·.ctrID)).Nodup ∧
    (∀ i ∈ (sendCreate cfg c all updated).2.1.map (·.ctrID), i ∈ c.st.ctrFree ∧ i ∉ (sendCreate cfg c all updated).1.st.ctrFree) ∧
    (sendCreate cfg c all updated).2.1.map (·.pdrID) = all.pdrs.map (·.pdrID) := by
  have hok' := sendCreate_ok_alloc cfg c all updated hok
  obtain ⟨ids, hids, hl, heq, hfresh, _⟩ := created_cells_exclusive c updated.pdrs.length all.pdrs hnd hok'
  rw [sendCreate_pdrs, sendCreate_ctr, heq, hlen]
  have hl' : ids.length = all.pdrs.length := by rw [hl, hlen]; exact Nat.min_self _
  simp only [List.take_length, List.drop_length, List.append_nil]
  rw [map_ctrID_assign _ _ hl', map_pdrID_assign _ _ hl']
  refine ⟨hids, ?_, rfl⟩
  intro i hi
  have := hfresh i hi
  rw [hlen] at this
  exact this

end Up4
