import Upf.Proofs.BessImage
import Std.Data.String.ToNat
/-!
C03, agent level, Session Modifications that update FARs only (handover, idle / active transitions, action changes): the
farLookup entries are upserted under the keys they already have, so the tables stay the image of the store.
-/
namespace Agent

theorem commaSep2_inj (a b c : Nat) (h : commaSep [a, c] = commaSep [b, c]) : a = b := by
  have e : ∀ x : Nat, commaSep [x, c] = toString x ++ ("," ++ toString c) := by
    intro x; show _ = _; rw [← String.append_assoc]; rfl
  rw [e a, e b] at h
  have h2 := congrArg String.toList h
  simp only [String.toList_append] at h2
  have h3 := List.append_cancel_right h2
  exact Nat.repr_inj.mp (String.toList_inj.mp h3)

/-- within one session the farLookup key determines the FAR ID -/
theorem farKey_inj (f g : Far) (h : f.fseID = g.fseID) : (farEntry f).1 = (farEntry g).1 ↔ f.farID = g.farID := by
  unfold farEntry
  constructor
  · intro hk; dsimp only at hk; rw [h] at hk; exact commaSep2_inj _ _ _ hk
  · intro hid; dsimp only; rw [h, hid]

/-- `UpdateFAR` on the stored list: every rule with the ID is replaced -/
def replFar (f : Far) (st : List Far) : List Far := st.map fun q => if q.farID = f.farID then f else q

theorem lastVal_cons (e : String × String) (es : List (String × String)) (k : String) :
    lastVal (e :: es) k = (lastVal es k).or (lastVal [e] k) := by
  have : e :: es = [e] ++ es := rfl
  rw [this, lastVal_append]

theorem farKV_cons (f : Far) (l : List Far) : farKV (f :: l) = farEntry f :: farKV l := rfl

theorem replFar_keys (n : Nat) (f : Far) (hf : f.fseID = n) : ∀ (st : List Far), (∀ q ∈ st, q.fseID = n) →
    (farKV (replFar f st)).map (·.1) = (farKV st).map (·.1)
  | [], _ => rfl
  | q :: rest, h => by
    have ih := replFar_keys n f hf rest (fun x hx => h x (List.mem_cons_of_mem _ hx))
    unfold replFar at ih ⊢
    simp only [List.map_cons, farKV_cons]
    rw [ih]
    by_cases hq : q.farID = f.farID
    · simp only [hq, if_true]
      rw [(farKey_inj f q (by rw [hf, h q List.mem_cons_self])).mpr hq.symm]
    · simp only [hq, if_false]

theorem replFar_fse (n : Nat) (f : Far) (hf : f.fseID = n) (st : List Far) (h : ∀ q ∈ st, q.fseID = n) : ∀ q ∈ replFar f st, q.fseID = n := by
  intro q hq
  unfold replFar at hq
  obtain ⟨x, hx, rfl⟩ := List.mem_map.mp hq
  by_cases hxf : x.farID = f.farID
  · simp only [hxf, if_true]; exact hf
  · simp only [hxf, if_false]; exact h x hx

theorem lastVal_replFar (n : Nat) (f : Far) (hf : f.fseID = n) (k : String) : ∀ (st : List Far), (∀ q ∈ st, q.fseID = n) →
    lastVal (farKV (replFar f st)) k =
      if st.any (·.farID = f.farID) then (lastVal [farEntry f] k).or (lastVal (farKV st) k) else lastVal (farKV st) k
  | [], _ => by simp [replFar, farKV]
  | q :: rest, h => by
    have hrest : ∀ x ∈ rest, x.fseID = n := fun x hx => h x (List.mem_cons_of_mem _ hx)
    have ih := lastVal_replFar n f hf k rest hrest
    have hq : q.fseID = n := h q List.mem_cons_self
    have hcons : replFar f (q :: rest) = (if q.farID = f.farID then f else q) :: replFar f rest := rfl
    rw [hcons, farKV_cons, farKV_cons, lastVal_cons, lastVal_cons (farEntry q), ih]
    -- the single-entry values
    have hsingle : ∀ x : Far, lastVal [farEntry x] k = if k = (farEntry x).1 then some (farEntry x).2 else none := fun x => lastVal_single _ _
    by_cases hkf : k = (farEntry f).1
    · -- under the key of f: the new value wins wherever the ID occurs
      have hlf : lastVal [farEntry f] k = some (farEntry f).2 := by rw [hsingle, if_pos hkf]
      by_cases hqf : q.farID = f.farID
      · simp only [hqf, if_true, List.any_cons, decide_true, Bool.true_or, hlf]
        by_cases hr : rest.any (·.farID = f.farID) = true
        · simp [hr, hlf]
        · have hnone : lastVal (farKV rest) k = none := by
            apply lastVal_none
            intro hm
            obtain ⟨e, he, hek⟩ := List.mem_map.mp hm
            obtain ⟨x, hx, rfl⟩ := List.mem_map.mp he
            have : x.farID = f.farID := (farKey_inj x f (by rw [hrest x hx, hf])).mp (by rw [hek, hkf])
            exact hr (List.any_eq_true.mpr ⟨x, hx, by simpa using this⟩)
          simp [hr, hnone]
      · have hqk : lastVal [farEntry q] k = none := by
          rw [hsingle, if_neg]
          intro e; exact hqf ((farKey_inj q f (by rw [hq, hf])).mp (by rw [← e, hkf]))
        simp only [hqf, if_false, List.any_cons, decide_false, Bool.false_or, hqk]
        by_cases hr : rest.any (·.farID = f.farID) = true
        · simp [hr, hlf]
        · simp [hr]
    · have hlf : lastVal [farEntry f] k = none := by rw [hsingle, if_neg hkf]
      have hgq : lastVal [farEntry (if q.farID = f.farID then f else q)] k = lastVal [farEntry q] k := by
        by_cases hqf : q.farID = f.farID
        · simp only [hqf, if_true, hlf]
          rw [hsingle, if_neg]
          intro e; exact hkf (by rw [e]; exact (farKey_inj q f (by rw [hq, hf])).mpr hqf)
        · simp only [hqf, if_false]
      rw [hgq]
      by_cases hr : rest.any (·.farID = f.farID) = true
      · by_cases hqf : q.farID = f.farID <;> simp [hr, hlf, hqf]
      · by_cases hqf : q.farID = f.farID <;> simp [hr, hlf, hqf]


/-- the Update FAR loop: the stored list it leaves denotes, key by key, what upserting the sent rules over the old list's entries gives,
under exactly the old list's keys -/
structure FarLoop (n : Nat) (L st sent : List Far) : Prop where
  fse : ∀ q ∈ st, q.fseID = n
  keys : (farKV st).map (·.1) = (farKV L).map (·.1)
  val : ∀ k, lastVal (farKV st) k = (lastVal (farKV sent) k).or (lastVal (farKV L) k)

def updStep : List Far × List Far × List Marker → Far → List Far × List Far × List Marker := fun (st, sent, ms) f =>
  match st.find? (·.farID = f.farID) with
  | none => (st, sent, ms)
  | some old => (st.map fun q => if q.farID = f.farID then f else q, sent ++ [f], if f.sendEndMarker then ms ++ [markerOf old] else ms)

theorem updFars_eq (stored ups : List Far) : updFars stored ups = ups.foldl updStep (stored, [], []) := rfl

theorem farLoop_fold (n : Nat) (L : List Far) : ∀ (ups : List Far) (st sent : List Far) (ms : List Marker), (∀ f ∈ ups, f.fseID = n) →
    FarLoop n L st sent → FarLoop n L (ups.foldl updStep (st, sent, ms)).1 (ups.foldl updStep (st, sent, ms)).2.1
  | [], _, _, _, _, h => h
  | f :: rest, st, sent, ms, hu, h => by
    rw [List.foldl_cons]
    have hf : f.fseID = n := hu f List.mem_cons_self
    have hrest : ∀ x ∈ rest, x.fseID = n := fun x hx => hu x (List.mem_cons_of_mem _ hx)
    cases hfind : st.find? (·.farID = f.farID) with
    | none =>
      have : updStep (st, sent, ms) f = (st, sent, ms) := by simp only [updStep, hfind]
      rw [this]; exact farLoop_fold n L rest st sent ms hrest h
    | some old =>
      have : updStep (st, sent, ms) f = (replFar f st, sent ++ [f], if f.sendEndMarker then ms ++ [markerOf old] else ms) := by
        simp only [updStep, hfind, replFar]
      rw [this]
      apply farLoop_fold n L rest _ _ _ hrest
      have hany : st.any (·.farID = f.farID) = true :=
        List.any_eq_true.mpr ⟨old, List.mem_of_find?_eq_some hfind, by simpa using List.find?_some hfind⟩
      refine ⟨replFar_fse n f hf st h.fse, by rw [replFar_keys n f hf st h.fse]; exact h.keys, fun k => ?_⟩
      rw [lastVal_replFar n f hf k st h.fse, if_pos hany, h.val k]
      have : farKV (sent ++ [f]) = farKV sent ++ [farEntry f] := by simp [farKV]
      rw [this, lastVal_append, Option.or_assoc]

theorem farLoop_updFars (n : Nat) (L ups : List Far) (hL : ∀ q ∈ L, q.fseID = n) (hu : ∀ f ∈ ups, f.fseID = n) :
    FarLoop n L (updFars L ups).1 (updFars L ups).2.1 := by
  rw [updFars_eq]
  exact farLoop_fold n L ups L [] [] hu ⟨hL, rfl, fun k => by simp [farKV, lastVal]⟩

theorem applyFwd_fse (cfg : Cfg) (f : Far) (w : FwdIE) : (applyFwd cfg f w).fseID = f.fseID := by
  unfold applyFwd
  cases w.ohc <;> cases w.dst <;> cases w.smreq <;> dsimp only <;> repeat' split
  all_goals rfl

theorem parseFAR_fse (cfg : Cfg) (seid : Nat) (ie : FarIE) (upd : Bool) (f : Far) (h : parseFAR cfg seid ie upd = .ok f) : f.fseID = seid := by
  unfold parseFAR at h
  simp only [bind, Except.bind, pure, Except.pure] at h
  repeat' split at h
  all_goals first
    | (cases h; rfl)
    | (cases h; exact applyFwd_fse _ _ _)
    | (cases h; done)

/-- what `parseFAR` makes carries the session's SEID -/
theorem mapFars_fse (cfg : Cfg) (lseid ip : Nat) (upd : Bool) : ∀ (ies : List FarIE) (fs : List Far),
    mapFars cfg lseid ip upd ies = .ok fs → ∀ f ∈ fs, f.fseID = lseid
  | [], fs, h => by
    simp only [mapFars, pure, Except.pure] at h; cases h; intro f hf; cases hf
  | ie :: rest, fs, h => by
    unfold mapFars at h
    cases hp : parseFAR cfg lseid ie upd with
    | error e => simp [hp, bind, Except.bind] at h
    | ok f0 =>
      cases hr : mapFars cfg lseid ip upd rest with
      | error e => simp [hp, hr, bind, Except.bind] at h
      | ok fs0 =>
        simp only [hp, hr, bind, Except.bind, pure, Except.pure] at h
        cases h
        intro f hf
        rcases List.mem_cons.mp hf with rfl | hf
        · -- the parsed rule
          exact parseFAR_fse cfg lseid ie upd f0 hp
        · exact mapFars_fse cfg lseid ip upd rest fs0 hr f hf


/-! ## the handler on a request that only updates FARs -/

/-- a Session Modification that carries Update FAR IEs only (and possibly a CP F-SEID) -/
def FarOnly (r : ModReq) : Prop :=
  r.createPdrs = [] ∧ r.createFars = [] ∧ r.createQers = [] ∧ r.updatePdrs = [] ∧ r.updateQers = [] ∧
  r.removePdrs = [] ∧ r.removeFars = [] ∧ r.removeQers = []

def afterFarUpdate (r : ModReq) (s0 : Session) (uf : List Far) : Session :=
  { s0 with rseid := (match r.cpFseid with | some (cp, _) => cp | none => s0.rseid), fars := (updFars s0.fars uf).1 }

theorem modify_farOnly_cases (cfg : Cfg) (w : World) (a : Nat) (r : ModReq) (s0 : Session) (hr : FarOnly r)
    (h : (w.conn a).sessions.find? (·.lseid = r.seid) = some s0)
    (hstable : markSessionQer s0.pdrs s0.qers = (s0.qers, s0.pdrs)) :
    ((modify cfg w a r).world.conns = w.conns ∧ (modify cfg w a r).world.tables = w.tables) ∨
    ∃ uf, mapFars cfg r.seid (match r.cpFseid with | some (_, ip) => ip | none => 0) true r.updateFars = .ok uf ∧
      (modify cfg w a r).world.tables = sendAdd cfg w.tables [] (updFars s0.fars uf).2.1 [] ∧
      (modify cfg w a r).world.conns = setL w.conns a { w.conn a with sessions := (w.conn a).sessions.map (fun x =>
        if x.lseid = r.seid then (afterFarUpdate r s0 uf) else x) } := by
  obtain ⟨h1, h2, h3, h4, h5, h6, h7, h8⟩ := hr
  unfold modify afterFarUpdate
  simp only [h, h1, h2, h3, h4, h5, h6, h7, h8]
  cases hc : r.cpFseid with
  | none =>
    dsimp only
    simp only [parsePdrs, mapFars, pure, Except.pure, List.map_nil, List.append_nil, updPdrs, updQers, List.foldl_nil, removeAll]
    cases hu : mapFars cfg r.seid 0 true r.updateFars with
    | error e => left; exact ⟨rfl, rfl⟩
    | ok uf =>
      right
      refine ⟨uf, rfl, ?_, ?_⟩
      · dsimp only; simp only [hstable, List.map_nil]; rw [setConn_tables]; rfl
      · dsimp only; simp only [hstable, List.map_nil]; rw [setConn_conns]
  | some v =>
    obtain ⟨cp, ip⟩ := v
    dsimp only
    simp only [parsePdrs, mapFars, pure, Except.pure, List.map_nil, List.append_nil, updPdrs, updQers, List.foldl_nil, removeAll]
    cases hu : mapFars cfg r.seid ip true r.updateFars with
    | error e => left; exact ⟨rfl, rfl⟩
    | ok uf =>
      right
      refine ⟨uf, rfl, ?_, ?_⟩
      · dsimp only; simp only [hstable, List.map_nil]; rw [setConn_tables]; rfl
      · dsimp only; simp only [hstable, List.map_nil]; rw [setConn_conns]


/-- in a store whose SEIDs are distinct, rewriting the session with SEID `seid` rewrites exactly the one found -/
theorem map_replace_perm (seid : Nat) (s' : Session) : ∀ (l : List Session) (s : Session), l.Pairwise (fun x y => x.lseid ≠ y.lseid) →
    l.find? (·.lseid = seid) = some s → (l.map fun x => if x.lseid = seid then s' else x).Perm (s' :: l.filter (·.lseid ≠ seid))
  | [], _, _, h => by simp at h
  | x :: rest, s, hp, h => by
    have hp' := List.pairwise_cons.mp hp
    by_cases hx : x.lseid = seid
    · have hm : (rest.map fun y => if y.lseid = seid then s' else y) = rest := by
        have hid : ∀ y ∈ rest, (if y.lseid = seid then s' else y) = id y := by
          intro y hy; have := hp'.1 y hy; rw [hx] at this
          have hne : ¬ y.lseid = seid := fun e => this e.symm
          simp [hne]
        rw [List.map_congr_left hid, List.map_id]
      have hf : rest.filter (·.lseid ≠ seid) = rest := by
        apply List.filter_eq_self.mpr
        intro y hy; have := hp'.1 y hy; rw [hx] at this; simpa using fun e => this (Eq.symm e)
      simp only [List.map_cons, hx, if_true, hm]
      have : (x :: rest).filter (·.lseid ≠ seid) = rest := by simp [hx]; simpa using hf
      rw [this]
    · have hfind : rest.find? (·.lseid = seid) = some s := by simpa [List.find?_cons, hx] using h
      have ih := map_replace_perm seid s' rest s hp'.2 hfind
      have : (x :: rest).filter (·.lseid ≠ seid) = x :: rest.filter (·.lseid ≠ seid) := by simp [hx]
      rw [this]
      simp only [List.map_cons, hx, if_false]
      exact (List.Perm.cons x ih).trans (List.Perm.swap s' x _)

theorem afterFarUpdate_kv (cfg : Cfg) (r : ModReq) (s0 : Session) (uf : List Far) (X : Tb) (hX : X ≠ Tb.far) :
    (afterFarUpdate r s0 uf).kv cfg X = s0.kv cfg X := by
  cases X <;> first | rfl | exact absurd rfl hX

/-- **a modification that only updates FARs keeps the tables the image of the store** (stable marking: open finding
"session-QER relabelled" excluded; the stored FARs carry the session's SEID, which `parseFAR` guarantees) -/
theorem modFar_inv (cfg : Cfg) (w : World) (a : Nat) (r : ModReq) (s0 : Session) (hI : Inv cfg w) (hr : FarOnly r)
    (h : (w.conn a).sessions.find? (·.lseid = r.seid) = some s0)
    (hstable : markSessionQer s0.pdrs s0.qers = (s0.qers, s0.pdrs))
    (hwf : ∀ q ∈ s0.fars, q.fseID = s0.lseid) : Inv cfg (modify cfg w a r).world := by
  have hl : s0.lseid = r.seid := by simpa using List.find?_some h
  rcases modify_farOnly_cases cfg w a r s0 hr h hstable with ⟨hc, ht⟩ | ⟨uf, hu, ht, hc⟩
  · exact hI.congr hc ht
  · -- the loop invariant of the Update FAR loop
    have hufse : ∀ f ∈ uf, f.fseID = s0.lseid := by rw [hl]; exact mapFars_fse cfg r.seid _ true r.updateFars uf hu
    have loop := farLoop_updFars s0.lseid s0.fars uf hwf hufse
    -- the store: s0 is replaced by s'
    obtain ⟨rest, p1, p2⟩ := conn_sublist_perm w a hI.keys
    have hpw : ((w.conn a).sessions ++ rest).Pairwise (Disj cfg) := pairwise_perm p1 hI.disj
    have hpc : (w.conn a).sessions.Pairwise (fun x y => x.lseid ≠ y.lseid) := (List.pairwise_append.mp hpw).1.imp (fun h => h.1)
    have pold : (allSessions w).Perm (s0 :: ((w.conn a).sessions.filter (·.lseid ≠ r.seid) ++ rest)) :=
      p1.trans (List.Perm.append_right rest (filter_perm r.seid _ s0 hpc h))
    have pnew : (allSessions (modify cfg w a r).world).Perm
        (afterFarUpdate r s0 uf :: ((w.conn a).sessions.filter (·.lseid ≠ r.seid) ++ rest)) := by
      unfold allSessions; rw [hc]
      exact (p2 _).trans (List.Perm.append_right rest (map_replace_perm r.seid _ _ s0 hpc h))
    have hpold := pairwise_perm pold hI.disj
    have hd0 := (List.pairwise_cons.mp hpold).1
    -- s' has s0's SEID and keys
    have hkeys : ∀ X, (afterFarUpdate r s0 uf).keysOf cfg X = s0.keysOf cfg X := by
      intro X
      by_cases hX : X = Tb.far
      · subst hX; exact loop.keys
      · unfold Session.keysOf; rw [afterFarUpdate_kv cfg r s0 uf X hX]
    have hd' : ∀ x ∈ (w.conn a).sessions.filter (·.lseid ≠ r.seid) ++ rest, Disj cfg (afterFarUpdate r s0 uf) x := by
      intro x hx
      have d := hd0 x hx
      exact ⟨d.1, fun k hk => d.2.1 k (hkeys .pdr ▸ hk), fun k hk => d.2.2.1 k (hkeys .far ▸ hk),
             fun k hk => d.2.2.2.1 k (hkeys .app ▸ hk), fun k hk => d.2.2.2.2 k (hkeys .sess ▸ hk)⟩
    refine ⟨by rw [hc]; exact keys_setL _ _ _ hI.keys, ?_, ?_⟩
    · exact pairwise_perm pnew.symm (List.pairwise_cons.mpr ⟨hd', (List.pairwise_cons.mp hpold).2⟩)
    · refine ImgOf.perm ?_ pnew.symm
      have himg := hI.img.perm pold
      rw [ht]
      -- the pseudo-session that carries the sent FARs
      have hget : ∀ X k, ((sendAdd cfg w.tables [] (updFars s0.fars uf).2.1 []).tab X).get k =
          (if X = Tb.far then lastVal (farKV (updFars s0.fars uf).2.1) k else none).or ((w.tables.tab X).get k) := by
        intro X k
        have := get_sendAdd cfg w.tables { lseid := 0, rseid := 0, pdrs := [], fars := (updFars s0.fars uf).2.1, qers := [] } X k
        rw [this]
        cases X <;> simp [Session.kv, pdrKV, appQerKV, sessQerKV, lastVal]
      intro X k v
      rw [hget]
      by_cases hX : X = Tb.far
      · subst hX
        simp only [if_true]
        have hval := loop.val k
        constructor
        · intro hv
          cases hs : lastVal (farKV (updFars s0.fars uf).2.1) k with
          | some v' =>
            rw [hs] at hv
            refine ⟨afterFarUpdate r s0 uf, List.mem_cons_self, ?_⟩
            show lastVal (farKV (updFars s0.fars uf).1) k = some v
            rw [hval, hs]; simpa using hv
          | none =>
            rw [hs] at hv
            obtain ⟨x, hx, hxv⟩ := (himg .far k v).mp (by simpa using hv)
            rcases List.mem_cons.mp hx with rfl | hx
            · refine ⟨afterFarUpdate r x uf, List.mem_cons_self, ?_⟩
              show lastVal (farKV (updFars x.fars uf).1) k = some v
              rw [hval, hs]; exact hxv
            · exact ⟨x, List.mem_cons_of_mem _ hx, hxv⟩
        · rintro ⟨x, hx, hxv⟩
          rcases List.mem_cons.mp hx with rfl | hx
          · have hxv' : lastVal (farKV (updFars s0.fars uf).1) k = some v := hxv
            rw [hval] at hxv'
            cases hs : lastVal (farKV (updFars s0.fars uf).2.1) k with
            | some v' => rw [hs] at hxv'; simpa using hxv'
            | none =>
              rw [hs] at hxv'
              have hxv'' : lastVal (s0.kv cfg .far) k = some v := by
                show lastVal (farKV s0.fars) k = some v
                simpa using hxv'
              have := (himg .far k v).mpr ⟨s0, List.mem_cons_self, hxv''⟩
              simpa using this
          · have hk : k ∈ x.keysOf cfg .far := key_of_lastVal hxv
            have hnot : k ∉ s0.keysOf cfg .far := fun hk0 => (hd0 x hx).keys .far k hk0 hk
            have hs : lastVal (farKV (updFars s0.fars uf).2.1) k = none := by
              cases hs : lastVal (farKV (updFars s0.fars uf).2.1) k with
              | none => rfl
              | some v' =>
                exfalso; apply hnot
                rw [← hkeys .far]
                have : lastVal (farKV (updFars s0.fars uf).1) k = some v' := by rw [hval, hs]; rfl
                exact (lastVal_isSome (farKV (updFars s0.fars uf).1) k).mp (by rw [this]; rfl)
            rw [hs]
            have := (himg .far k v).mpr ⟨x, List.mem_cons_of_mem _ hx, hxv⟩
            simpa using this
      · simp only [hX, if_false, Option.none_or]
        rw [himg X k v]
        constructor
        · rintro ⟨x, hx, hxv⟩
          rcases List.mem_cons.mp hx with rfl | hx
          · exact ⟨afterFarUpdate r x uf, List.mem_cons_self, by rw [afterFarUpdate_kv cfg r x uf X hX]; exact hxv⟩
          · exact ⟨x, List.mem_cons_of_mem _ hx, hxv⟩
        · rintro ⟨x, hx, hxv⟩
          rcases List.mem_cons.mp hx with rfl | hx
          · exact ⟨s0, List.mem_cons_self, by rw [← afterFarUpdate_kv cfg r s0 uf X hX]; exact hxv⟩
          · exact ⟨x, List.mem_cons_of_mem _ hx, hxv⟩

end Agent
