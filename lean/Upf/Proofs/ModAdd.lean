import Upf.Proofs.HistBase
import Upf.Proofs.PoolWorld
import Upf.Proofs.ModRem
/-!
C03 / C05 / C06 / C07 on the agent model, Session Modifications that only CREATE rules (Create PDR / FAR / QER): the created rules'
entries are upserted, nothing else changes — for created rules whose IDs are new in the session, whose keys no other session has, that
carry no CHOOSE F-TEID (a modification allocates no TEID), and a session-QER marking that is stable for the enlarged rule set.
-/
namespace Agent

def AddOnly (r : ModReq) : Prop :=
  r.updatePdrs = [] ∧ r.updateFars = [] ∧ r.updateQers = [] ∧ r.removePdrs = [] ∧ r.removeFars = [] ∧ r.removeQers = []

def fseidIPOf' (r : ModReq) : Nat := match r.cpFseid with | some (_, ip) => ip | none => 0

def afterCreate (r : ModReq) (s0 : Session) (cp : List Pdr) (cf : List Far) (cq : List Qer) : Session :=
  { s0 with rseid := (match r.cpFseid with | some (c, _) => c | none => s0.rseid), pdrs := s0.pdrs ++ cp, fars := s0.fars ++ cf, qers := s0.qers ++ cq }

def createdQers (r : ModReq) : List Qer := r.createQers.map fun ie => { parseQER r.seid ie with fseidIP := fseidIPOf' r }

/-- the copies handed to the datapath take their QER lists / levels from the marked session: with a stable marking and new IDs they are
the created rules themselves -/
theorem map_find_self_pdr (st cp : List Pdr) (hnew : ∀ p ∈ cp, ∀ q ∈ st, q.pdrID ≠ p.pdrID) (hnd : (cp.map (·.pdrID)).Nodup) :
    cp.map (withMarkedLists (st ++ cp)) = cp := by
  have key : ∀ p ∈ cp, (st ++ cp).find? (·.pdrID = p.pdrID) = some p := by
    intro p hp
    rw [List.find?_append]
    have h1 : st.find? (·.pdrID = p.pdrID) = none := List.find?_eq_none.mpr (fun q hq => by simpa using hnew p hp q hq)
    rw [h1]
    simp only [Option.none_or]
    -- the first rule of `cp` with this ID is `p` itself (IDs are pairwise different)
    induction cp with
    | nil => cases hp
    | cons x rest ih =>
      have hnd' := List.nodup_cons.mp (by rw [List.map_cons] at hnd; exact hnd)
      rcases List.mem_cons.mp hp with rfl | hp'
      · simp
      · have hne : x.pdrID ≠ p.pdrID := fun e => hnd'.1 (e ▸ List.mem_map_of_mem hp')
        simp only [List.find?_cons, hne, decide_false]
        exact ih (fun p hp q hq => hnew p (List.mem_cons_of_mem _ hp) q hq) hnd'.2 hp'
  have : ∀ p ∈ cp, withMarkedLists (st ++ cp) p = id p := by
    intro p hp; unfold withMarkedLists; rw [key p hp]; rfl
  rw [List.map_congr_left this, List.map_id]

theorem map_find_self_qer (st cq : List Qer) (hnew : ∀ p ∈ cq, ∀ q ∈ st, q.qerID ≠ p.qerID) (hnd : (cq.map (·.qerID)).Nodup) :
    cq.map (withMarkedLevel (st ++ cq)) = cq := by
  have key : ∀ p ∈ cq, (st ++ cq).find? (·.qerID = p.qerID) = some p := by
    intro p hp
    rw [List.find?_append]
    have h1 : st.find? (·.qerID = p.qerID) = none := List.find?_eq_none.mpr (fun q hq => by simpa using hnew p hp q hq)
    rw [h1]
    simp only [Option.none_or]
    induction cq with
    | nil => cases hp
    | cons x rest ih =>
      have hnd' := List.nodup_cons.mp (by rw [List.map_cons] at hnd; exact hnd)
      rcases List.mem_cons.mp hp with rfl | hp'
      · simp
      · have hne : x.qerID ≠ p.qerID := fun e => hnd'.1 (e ▸ List.mem_map_of_mem hp')
        simp only [List.find?_cons, hne, decide_false]
        exact ih (fun p hp q hq => hnew p (List.mem_cons_of_mem _ hp) q hq) hnd'.2 hp'
  have : ∀ p ∈ cq, withMarkedLevel (st ++ cq) p = id p := by
    intro p hp; unfold withMarkedLevel; rw [key p hp]; rfl
  rw [List.map_congr_left this, List.map_id]


/-- the pool after the Create PDR loop of a modification, in both outcomes -/
def poolOut : Except (PErr × Option Pool.P) (List Pdr × Option Pool.P) → Option Pool.P
  | .ok (_, pool) => pool
  | .error (_, pool) => pool

theorem parsePdrs_pool (base : List Nat) (seid ip : Nat) (apps : List (String × List String)) :
    ∀ (ies : List PdrIE) (pool : Option Pool.P), PoolInv base pool →
    PoolInv base (poolOut (parsePdrs seid ip apps ies pool)) ∧
    ∀ k ∈ poolKeys (poolOut (parsePdrs seid ip apps ies pool)), k ∈ poolKeys pool ∨ k = seid
  | [], pool, h => ⟨h, fun k hk => Or.inl hk⟩
  | ie :: rest, pool, h => by
    unfold parsePdrs
    have hi := inv_parsePDR base seid apps ie pool h
    have hk := keys_parsePDR seid apps ie pool
    cases hp : parsePDR seid apps ie pool with
    | mk res pool' =>
    rw [hp] at hi hk
    cases res with
    | error e => exact ⟨hi, hk⟩
    | ok p =>
      have ih := parsePdrs_pool base seid ip apps rest pool' hi
      dsimp only
      cases hr : parsePdrs seid ip apps rest pool' with
      | error e =>
        rw [hr] at ih
        obtain ⟨e1, e2⟩ := e
        refine ⟨ih.1, fun k hk' => ?_⟩
        rcases ih.2 k hk' with h1 | h1
        · exact hk k h1
        · exact Or.inr h1
      | ok v =>
        rw [hr] at ih
        obtain ⟨ps, pool''⟩ := v
        refine ⟨ih.1, fun k hk' => ?_⟩
        rcases ih.2 k hk' with h1 | h1
        · exact hk k h1
        · exact Or.inr h1

/-- what `parsePDR` writes into the rule: the CHOOSE flag is the IE's, the session's SEID is the rule's -/
theorem parsePdrs_ids (seid ip : Nat) (apps : List (String × List String)) :
    ∀ (ies : List PdrIE) (pool pool' : Option Pool.P) (cp : List Pdr), parsePdrs seid ip apps ies pool = .ok (cp, pool') →
    cp.map (·.pdrID) = ies.map (·.id)
  | [], pool, pool', cp, h => by
    simp only [parsePdrs, pure, Except.pure, Except.ok.injEq, Prod.mk.injEq] at h
    rw [← h.1]; rfl
  | ie :: rest, pool, pool', cp, h => by
    unfold parsePdrs at h
    cases hp : parsePDR seid apps ie pool with
    | mk res pool1 =>
    rw [hp] at h
    cases res with
    | error e => simp [throw, throwThe, MonadExceptOf.throw] at h
    | ok p =>
      dsimp only at h
      cases hr : parsePdrs seid ip apps rest pool1 with
      | error e => rw [hr] at h; simp [bind, Except.bind] at h
      | ok v =>
        obtain ⟨ps, pool2⟩ := v
        rw [hr] at h
        simp only [bind, Except.bind, pure, Except.pure, Except.ok.injEq, Prod.mk.injEq] at h
        rw [← h.1]
        have ih := parsePdrs_ids seid ip apps rest pool1 pool2 ps hr
        simp only [List.map_cons, ih]
        congr 1
        -- the parsed rule carries the IE's ID
        unfold parsePDR at hp
        split at hp
        · cases hp
        · split at hp
          · cases hp
          · simp only [Prod.mk.injEq, Except.ok.injEq] at hp
            rw [← hp.1]


/-- a create-only modification refused while parsing leaves store, tables and TEIDs alone (an address taken for the session stays taken) -/
theorem modify_addOnly_refused (cfg : Cfg) (w : World) (a : Nat) (r : ModReq) (s0 : Session) (hr : AddOnly r)
    (h : (w.conn a).sessions.find? (·.lseid = r.seid) = some s0)
    (hbad : (∃ e, parsePdrs r.seid (fseidIPOf' r) (w.conn a).apps r.createPdrs w.pool = .error e) ∨
            (∃ e, mapFars cfg r.seid (fseidIPOf' r) false r.createFars = .error e)) :
    (modify cfg w a r).world.conns = w.conns ∧ (modify cfg w a r).world.tables = w.tables ∧ (modify cfg w a r).world.teid = w.teid ∧
    (modify cfg w a r).world.pool = poolOut (parsePdrs r.seid (fseidIPOf' r) (w.conn a).apps r.createPdrs w.pool) := by
  obtain ⟨h1, h2, h3, h4, h5, h6⟩ := hr
  unfold modify
  unfold fseidIPOf' at hbad ⊢
  simp only [h, h1, h2, h3, h4, h5, h6]
  cases hc : r.cpFseid with
  | none =>
    simp only [hc] at hbad ⊢
    cases hp : parsePdrs r.seid 0 (w.conn a).apps r.createPdrs w.pool with
    | error e => obtain ⟨e1, e2⟩ := e; exact ⟨rfl, rfl, rfl, rfl⟩
    | ok v =>
      obtain ⟨cp, pool1⟩ := v
      dsimp only
      cases hf : mapFars cfg r.seid 0 false r.createFars with
      | error e => exact ⟨rfl, rfl, rfl, rfl⟩
      | ok cf =>
        rcases hbad with ⟨e, he⟩ | ⟨e, he⟩
        · rw [hp] at he; cases he
        · rw [hf] at he; cases he
  | some v =>
    obtain ⟨c, ip⟩ := v
    simp only [hc] at hbad ⊢
    cases hp : parsePdrs r.seid ip (w.conn a).apps r.createPdrs w.pool with
    | error e => obtain ⟨e1, e2⟩ := e; exact ⟨rfl, rfl, rfl, rfl⟩
    | ok v =>
      obtain ⟨cp, pool1⟩ := v
      dsimp only
      cases hf : mapFars cfg r.seid ip false r.createFars with
      | error e => exact ⟨rfl, rfl, rfl, rfl⟩
      | ok cf =>
        rcases hbad with ⟨e, he⟩ | ⟨e, he⟩
        · rw [hp] at he; cases he
        · rw [hf] at he; cases he

/-- an accepted create-only modification: the created rules are upserted and appended to the stored session -/
theorem modify_addOnly_ok (cfg : Cfg) (w : World) (a : Nat) (r : ModReq) (s0 : Session) (hr : AddOnly r)
    (h : (w.conn a).sessions.find? (·.lseid = r.seid) = some s0)
    (cp : List Pdr) (pool1 : Option Pool.P) (cf : List Far)
    (hp : parsePdrs r.seid (fseidIPOf' r) (w.conn a).apps r.createPdrs w.pool = .ok (cp, pool1))
    (hf : mapFars cfg r.seid (fseidIPOf' r) false r.createFars = .ok cf)
    (hstable : markSessionQer (s0.pdrs ++ cp) (s0.qers ++ createdQers r) = (s0.qers ++ createdQers r, s0.pdrs ++ cp))
    (hnewP : ∀ p ∈ cp, ∀ q ∈ s0.pdrs, q.pdrID ≠ p.pdrID) (hndP : (cp.map (·.pdrID)).Nodup)
    (hnewQ : ∀ p ∈ createdQers r, ∀ q ∈ s0.qers, q.qerID ≠ p.qerID) (hndQ : ((createdQers r).map (·.qerID)).Nodup) :
    (modify cfg w a r).world.tables = sendAdd cfg w.tables cp cf (createdQers r) ∧
    (modify cfg w a r).world.conns = setL w.conns a { w.conn a with sessions := (w.conn a).sessions.map (fun x =>
      if x.lseid = r.seid then (afterCreate r s0 cp cf (createdQers r)) else x) } ∧
    (modify cfg w a r).world.teid = w.teid ∧ (modify cfg w a r).world.pool = pool1 := by
  obtain ⟨h1, h2, h3, h4, h5, h6⟩ := hr
  have hmp := map_find_self_pdr s0.pdrs cp hnewP hndP
  have hmq := map_find_self_qer s0.qers (createdQers r) hnewQ hndQ
  unfold modify afterCreate
  unfold createdQers fseidIPOf' at *
  simp only [h, h1, h2, h3, h4, h5, h6]
  cases hc : r.cpFseid with
  | none =>
    simp only [hc] at hp hf hstable hmq ⊢
    simp only [hp, hf]
    simp only [parsePdrs, mapFars, pure, Except.pure, List.map_nil, List.append_nil, updPdrs, updFars, updQers, List.foldl_nil, removeAll,
      hstable, hmp, hmq]
    refine ⟨?_, ?_, ?_, ?_⟩
    · rw [setConn_tables]; rfl
    · rw [setConn_conns]
    · rw [setConn_teid]
    · rw [setConn_pool]
  | some v =>
    obtain ⟨c, ip⟩ := v
    simp only [hc] at hp hf hstable hmq ⊢
    simp only [hp, hf]
    simp only [parsePdrs, mapFars, pure, Except.pure, List.map_nil, List.append_nil, updPdrs, updFars, updQers, List.foldl_nil, removeAll,
      hstable, hmp, hmq]
    refine ⟨?_, ?_, ?_, ?_⟩
    · rw [setConn_tables]; rfl
    · rw [setConn_conns]
    · rw [setConn_teid]
    · rw [setConn_pool]


theorem kv_append (cfg : Cfg) (s0 C S : Session) (hp : S.pdrs = s0.pdrs ++ C.pdrs) (hf : S.fars = s0.fars ++ C.fars)
    (hq : S.qers = s0.qers ++ C.qers) (X : Tb) : S.kv cfg X = s0.kv cfg X ++ C.kv cfg X := by
  cases X
  · show pdrKV S.pdrs = pdrKV s0.pdrs ++ pdrKV C.pdrs
    rw [hp]; unfold pdrKV; rw [List.flatMap_append]
  · show farKV S.fars = farKV s0.fars ++ farKV C.fars
    rw [hf]; unfold farKV; rw [List.map_append]
  · show appQerKV cfg S.qers = appQerKV cfg s0.qers ++ appQerKV cfg C.qers
    rw [hq]; unfold appQerKV; rw [List.filter_append, List.flatMap_append]
  · show sessQerKV cfg S.qers = sessQerKV cfg s0.qers ++ sessQerKV cfg C.qers
    rw [hq]; unfold sessQerKV; rw [List.filter_append, List.flatMap_append]

/-- rules are added to a stored session: their entries are upserted over the session's, other sessions are untouched -/
theorem ImgOf.extend {cfg : Cfg} {t : Tables} {R : List Session} (s0 C S : Session) (h : ImgOf cfg t (s0 :: R))
    (hkv : ∀ X, S.kv cfg X = s0.kv cfg X ++ C.kv cfg X)
    (hd : ∀ x ∈ R, ∀ X k, k ∈ C.keysOf cfg X → k ∉ x.keysOf cfg X) :
    ImgOf cfg (sendAdd cfg t C.pdrs C.fars C.qers) (S :: R) := by
  intro X k v
  rw [get_sendAdd]
  have hS : lastVal (S.kv cfg X) k = (lastVal (C.kv cfg X) k).or (lastVal (s0.kv cfg X) k) := by rw [hkv X, lastVal_append]
  constructor
  · intro hv
    cases hc : lastVal (C.kv cfg X) k with
    | some v' =>
      rw [hc] at hv
      exact ⟨S, List.mem_cons_self, by rw [hS, hc]; simpa using hv⟩
    | none =>
      rw [hc] at hv
      obtain ⟨x, hx, hxv⟩ := (h X k v).mp (by simpa using hv)
      rcases List.mem_cons.mp hx with rfl | hx'
      · exact ⟨S, List.mem_cons_self, by rw [hS, hc]; simpa using hxv⟩
      · exact ⟨x, List.mem_cons_of_mem _ hx', hxv⟩
  · rintro ⟨x, hx, hxv⟩
    rcases List.mem_cons.mp hx with rfl | hx'
    · rw [hS] at hxv
      cases hc : lastVal (C.kv cfg X) k with
      | some v' => rw [hc] at hxv; simpa using hxv
      | none =>
        rw [hc] at hxv
        have := (h X k v).mpr ⟨s0, List.mem_cons_self, by simpa using hxv⟩
        simpa using this
    · have hk : k ∈ x.keysOf cfg X := key_of_lastVal hxv
      have hc : lastVal (C.kv cfg X) k = none := lastVal_none _ _ (fun hck => hd x hx' X k hck hk)
      rw [hc]
      have := (h X k v).mpr ⟨x, List.mem_cons_of_mem _ hx', hxv⟩
      simpa using this

/-- the envelope of a create-only modification, for the rules it parsed: new IDs, no CHOOSE F-TEID, keys no other session has, and a
session-QER marking that is stable for the enlarged rule set -/
structure AddEnv (cfg : Cfg) (w : World) (r : ModReq) (s0 : Session) (cp : List Pdr) (cf : List Far) : Prop where
  stable : markSessionQer (s0.pdrs ++ cp) (s0.qers ++ createdQers r) = (s0.qers ++ createdQers r, s0.pdrs ++ cp)
  newP : ∀ p ∈ cp, ∀ q ∈ s0.pdrs, q.pdrID ≠ p.pdrID
  ndP : (cp.map (·.pdrID)).Nodup
  newQ : ∀ p ∈ createdQers r, ∀ q ∈ s0.qers, q.qerID ≠ p.qerID
  ndQ : ((createdQers r).map (·.qerID)).Nodup
  noChoose : ∀ p ∈ cp, p.chooseTeid = false
  keys : ∀ x ∈ allSessions w, x.lseid ≠ s0.lseid → ∀ X k,
    k ∈ ({ lseid := 0, rseid := 0, pdrs := cp, fars := cf, qers := createdQers r } : Session).keysOf cfg X → k ∉ x.keysOf cfg X

/-- **a modification that only creates rules keeps the tables the image of the store** (and the stored FARs well-formed) -/
theorem modAdd_inv (cfg : Cfg) (w : World) (a : Nat) (r : ModReq) (s0 : Session) (hI : Inv cfg w) (hW : FarWf w) (hr : AddOnly r)
    (h : (w.conn a).sessions.find? (·.lseid = r.seid) = some s0)
    (henv : ∀ cp pool1 cf, parsePdrs r.seid (fseidIPOf' r) (w.conn a).apps r.createPdrs w.pool = .ok (cp, pool1) →
      mapFars cfg r.seid (fseidIPOf' r) false r.createFars = .ok cf → AddEnv cfg w r s0 cp cf) :
    Inv cfg (modify cfg w a r).world ∧ FarWf (modify cfg w a r).world := by
  have hl : s0.lseid = r.seid := by simpa using List.find?_some h
  have hs0 : s0 ∈ allSessions w := mem_conn_all w a hI.keys s0 (List.mem_of_find?_eq_some h)
  have refused : ((∃ e, parsePdrs r.seid (fseidIPOf' r) (w.conn a).apps r.createPdrs w.pool = .error e) ∨
      (∃ e, mapFars cfg r.seid (fseidIPOf' r) false r.createFars = .error e)) →
      Inv cfg (modify cfg w a r).world ∧ FarWf (modify cfg w a r).world := fun hbad => by
    obtain ⟨hc, ht, _, _⟩ := modify_addOnly_refused cfg w a r s0 hr h hbad
    have hall : allSessions (modify cfg w a r).world = allSessions w := by unfold allSessions; rw [hc]
    exact ⟨hI.congr hc ht, fun s hs => hW s (hall ▸ hs)⟩
  cases hp : parsePdrs r.seid (fseidIPOf' r) (w.conn a).apps r.createPdrs w.pool with
  | error e => exact refused (Or.inl ⟨e, hp⟩)
  | ok v =>
    obtain ⟨cp, pool1⟩ := v
    cases hf : mapFars cfg r.seid (fseidIPOf' r) false r.createFars with
    | error e => exact refused (Or.inr ⟨e, hf⟩)
    | ok cf =>
      have E := henv cp pool1 cf hp hf
      obtain ⟨ht, hc, hte, hpo⟩ := modify_addOnly_ok cfg w a r s0 hr h cp pool1 cf hp hf E.stable E.newP E.ndP E.newQ E.ndQ
      obtain ⟨R, pold, pnew⟩ := replace_perms cfg w a r.seid s0 (afterCreate r s0 cp cf (createdQers r)) hI h
      have pnew' := pnew _ hc
      have hpold := pairwise_perm pold hI.disj
      have hd0 := (List.pairwise_cons.mp hpold).1
      have hRin : ∀ x ∈ R, x ∈ allSessions w ∧ x.lseid ≠ s0.lseid := fun x hx =>
        ⟨pold.mem_iff.mpr (List.mem_cons_of_mem _ hx), fun e => (hd0 x hx).1 e.symm⟩
      let C : Session := { lseid := 0, rseid := 0, pdrs := cp, fars := cf, qers := createdQers r }
      have hkv : ∀ X, (afterCreate r s0 cp cf (createdQers r)).kv cfg X = s0.kv cfg X ++ C.kv cfg X :=
        kv_append cfg s0 C _ rfl rfl rfl
      have hdC : ∀ x ∈ R, ∀ X k, k ∈ C.keysOf cfg X → k ∉ x.keysOf cfg X := fun x hx => E.keys x (hRin x hx).1 (hRin x hx).2
      have hkeysS : ∀ X k, k ∈ (afterCreate r s0 cp cf (createdQers r)).keysOf cfg X → k ∈ s0.keysOf cfg X ∨ k ∈ C.keysOf cfg X := by
        intro X k hk
        unfold Session.keysOf at hk ⊢
        rw [hkv X, List.map_append] at hk
        exact List.mem_append.mp hk
      have hd' : ∀ x ∈ R, Disj cfg (afterCreate r s0 cp cf (createdQers r)) x := by
        intro x hx
        have d := hd0 x hx
        have key : ∀ X k, k ∈ (afterCreate r s0 cp cf (createdQers r)).keysOf cfg X → k ∉ x.keysOf cfg X := by
          intro X k hk
          rcases hkeysS X k hk with h1 | h1
          · exact d.keys X k h1
          · exact hdC x hx X k h1
        exact ⟨d.1, key .pdr, key .far, key .app, key .sess⟩
      refine ⟨⟨by rw [hc]; exact keys_setL _ _ _ hI.keys, ?_, ?_⟩, ?_⟩
      · exact pairwise_perm pnew'.symm (List.pairwise_cons.mpr ⟨hd', (List.pairwise_cons.mp hpold).2⟩)
      · refine ImgOf.perm ?_ pnew'.symm
        rw [ht]
        exact ImgOf.extend s0 C _ (hI.img.perm pold) hkv hdC
      · intro x hx
        rcases List.mem_cons.mp (pnew'.mem_iff.mp hx) with rfl | hx'
        · intro q hq
          rcases List.mem_append.mp hq with h1 | h1
          · exact hW s0 hs0 q h1
          · have := mapFars_fse cfg r.seid _ false r.createFars cf hf q h1
            rw [this]; exact hl.symm
        · exact hW x (hRin x hx').1

/-- … chooses and returns no TEID -/
theorem modAdd_teid (cfg : Cfg) (w : World) (a : Nat) (r : ModReq) (s0 : Session) (hI : Inv cfg w) (hT : TeidInv w) (hr : AddOnly r)
    (h : (w.conn a).sessions.find? (·.lseid = r.seid) = some s0)
    (henv : ∀ cp pool1 cf, parsePdrs r.seid (fseidIPOf' r) (w.conn a).apps r.createPdrs w.pool = .ok (cp, pool1) →
      mapFars cfg r.seid (fseidIPOf' r) false r.createFars = .ok cf → AddEnv cfg w r s0 cp cf) : TeidInv (modify cfg w a r).world := by
  have refused : ((∃ e, parsePdrs r.seid (fseidIPOf' r) (w.conn a).apps r.createPdrs w.pool = .error e) ∨
      (∃ e, mapFars cfg r.seid (fseidIPOf' r) false r.createFars = .error e)) → TeidInv (modify cfg w a r).world := fun hbad => by
    obtain ⟨hc, _, hte, _⟩ := modify_addOnly_refused cfg w a r s0 hr h hbad
    exact hT.congr hc hte
  cases hp : parsePdrs r.seid (fseidIPOf' r) (w.conn a).apps r.createPdrs w.pool with
  | error e => exact refused (Or.inl ⟨e, hp⟩)
  | ok v =>
    obtain ⟨cp, pool1⟩ := v
    cases hf : mapFars cfg r.seid (fseidIPOf' r) false r.createFars with
    | error e => exact refused (Or.inr ⟨e, hf⟩)
    | ok cf =>
      have E := henv cp pool1 cf hp hf
      obtain ⟨ht, hc, hte, hpo⟩ := modify_addOnly_ok cfg w a r s0 hr h cp pool1 cf hp hf E.stable E.newP E.ndP E.newQ E.ndQ
      obtain ⟨R, pold, pnew⟩ := replace_perms cfg w a r.seid s0 (afterCreate r s0 cp cf (createdQers r)) hI h
      have pnew' := pnew _ hc
      have hpold := pairwise_perm pold hI.disj
      have hd0 := (List.pairwise_cons.mp hpold).1
      have hRin : ∀ x ∈ R, x ∈ allSessions w ∧ x.lseid ≠ s0.lseid := fun x hx =>
        ⟨pold.mem_iff.mpr (List.mem_cons_of_mem _ hx), fun e => (hd0 x hx).1 e.symm⟩
      have c1 := chosen_perm pold
      have c2 := chosen_perm pnew'
      simp only [List.flatMap_cons] at c1 c2
      have hnil : chosenL cp = [] := by
        unfold chosenL
        rw [List.filter_eq_nil_iff.mpr (fun p hp' => by simp [E.noChoose p hp'])]; rfl
      have hsame : chosenL (afterCreate r s0 cp cf (createdQers r)).pdrs = chosenL s0.pdrs := by
        show chosenL (s0.pdrs ++ cp) = _
        rw [chosenL_append, hnil, List.append_nil]
      rw [hsame] at c2
      exact ⟨by rw [hte]; exact hT.off, by rw [hte]; exact hT.held.perm (c1.trans c2.symm)⟩

/-- … takes at most an address for the session itself: the pool invariant holds and every held address stays owned -/
theorem modAdd_pool (base : List Nat) (cfg : Cfg) (w : World) (a : Nat) (r : ModReq) (s0 : Session) (hI : Inv cfg w)
    (hP : PoolInv base w.pool) (hO : Owned w) (hr : AddOnly r)
    (h : (w.conn a).sessions.find? (·.lseid = r.seid) = some s0)
    (henv : ∀ cp pool1 cf, parsePdrs r.seid (fseidIPOf' r) (w.conn a).apps r.createPdrs w.pool = .ok (cp, pool1) →
      mapFars cfg r.seid (fseidIPOf' r) false r.createFars = .ok cf → AddEnv cfg w r s0 cp cf) :
    PoolInv base (modify cfg w a r).world.pool ∧ Owned (modify cfg w a r).world := by
  have hl : s0.lseid = r.seid := by simpa using List.find?_some h
  have hpool := parsePdrs_pool base r.seid (fseidIPOf' r) (w.conn a).apps r.createPdrs w.pool hP
  have hs0 : s0 ∈ allSessions w := mem_conn_all w a hI.keys s0 (List.mem_of_find?_eq_some h)
  have hown : ∀ k ∈ poolKeys (poolOut (parsePdrs r.seid (fseidIPOf' r) (w.conn a).apps r.createPdrs w.pool)), ∃ s ∈ allSessions w, s.lseid = k := by
    intro k hk
    rcases hpool.2 k hk with h1 | h1
    · exact hO k h1
    · exact ⟨s0, hs0, by rw [hl, h1]⟩
  have refused : ((∃ e, parsePdrs r.seid (fseidIPOf' r) (w.conn a).apps r.createPdrs w.pool = .error e) ∨
      (∃ e, mapFars cfg r.seid (fseidIPOf' r) false r.createFars = .error e)) →
      PoolInv base (modify cfg w a r).world.pool ∧ Owned (modify cfg w a r).world := fun hbad => by
    obtain ⟨hc, _, _, hpo⟩ := modify_addOnly_refused cfg w a r s0 hr h hbad
    have hall : allSessions (modify cfg w a r).world = allSessions w := by unfold allSessions; rw [hc]
    exact ⟨by rw [hpo]; exact hpool.1, fun k hk => by rw [hpo] at hk; rw [hall]; exact hown k hk⟩
  cases hp : parsePdrs r.seid (fseidIPOf' r) (w.conn a).apps r.createPdrs w.pool with
  | error e => exact refused (Or.inl ⟨e, hp⟩)
  | ok v =>
    obtain ⟨cp, pool1⟩ := v
    cases hf : mapFars cfg r.seid (fseidIPOf' r) false r.createFars with
    | error e => exact refused (Or.inr ⟨e, hf⟩)
    | ok cf =>
      have E := henv cp pool1 cf hp hf
      obtain ⟨ht, hc, hte, hpo⟩ := modify_addOnly_ok cfg w a r s0 hr h cp pool1 cf hp hf E.stable E.newP E.ndP E.newQ E.ndQ
      obtain ⟨R, pold, pnew⟩ := replace_perms cfg w a r.seid s0 (afterCreate r s0 cp cf (createdQers r)) hI h
      have pnew' := pnew _ hc
      have hpold := pairwise_perm pold hI.disj
      have hd0 := (List.pairwise_cons.mp hpold).1
      have hRin : ∀ x ∈ R, x ∈ allSessions w ∧ x.lseid ≠ s0.lseid := fun x hx =>
        ⟨pold.mem_iff.mpr (List.mem_cons_of_mem _ hx), fun e => (hd0 x hx).1 e.symm⟩
      refine ⟨by rw [hpo]; have := hpool.1; rw [hp] at this; exact this, ?_⟩
      intro k hk
      rw [hpo] at hk
      have hk' : k ∈ poolKeys (poolOut (parsePdrs r.seid (fseidIPOf' r) (w.conn a).apps r.createPdrs w.pool)) := by rw [hp]; exact hk
      obtain ⟨x, hx, hxl⟩ := hown k hk'
      rcases List.mem_cons.mp (pold.mem_iff.mp hx) with rfl | hx'
      · exact ⟨afterCreate r x cp cf (createdQers r), pnew'.mem_iff.mpr List.mem_cons_self, hxl⟩
      · exact ⟨x, pnew'.mem_iff.mpr (List.mem_cons_of_mem _ hx'), hxl⟩

end Agent
