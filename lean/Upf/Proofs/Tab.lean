import Upf.Model.Tab

namespace Tab

variable {K V : Type} [DecidableEq K]

theorem apply_other (t : T K V) (c : Cmd K V) (x : K) (h : x ≠ c.key) : apply t c x = t x := by
  cases c <;> simp [apply, Cmd.key] at h ⊢ <;> simp [h]

theorem apply_same (t t' : T K V) (c : Cmd K V) : apply t c c.key = apply t' c c.key := by
  cases c <;> simp [apply, Cmd.key]

theorem commute (a b : Cmd K V) (h : a.key ≠ b.key) (t : T K V) :
    apply (apply t a) b = apply (apply t b) a := by
  funext x
  by_cases hb : x = b.key
  · subst hb
    rw [apply_other _ a _ (Ne.symm h)]
    exact apply_same _ _ b
  · rw [apply_other _ b _ hb]
    by_cases ha : x = a.key
    · subst ha; exact (apply_same _ _ a)
    · rw [apply_other _ a _ ha, apply_other _ a _ ha, apply_other _ b _ hb]

theorem run_cons (t : T K V) (c) (cs : List (Cmd K V)) : run t (c :: cs) = run (apply t c) cs := rfl

/-- a command commutes past a whole stream whose keys all differ from its own -/
theorem past (b : Cmd K V) : ∀ (xs : List (Cmd K V)) (t : T K V), (∀ a ∈ xs, a.key ≠ b.key) →
    run (apply t b) xs = apply (run t xs) b := by
  intro xs
  induction xs with
  | nil => intro t _; rfl
  | cons a as ih =>
    intro t h
    rw [run_cons, run_cons, ← commute a b (h a List.mem_cons_self) t]
    exact ih _ (fun x hx => h x (List.mem_cons_of_mem _ hx))

theorem run_append (t : T K V) (xs ys : List (Cmd K V)) : run t (xs ++ ys) = run (run t xs) ys := by
  simp [run, List.foldl_append]

/-- two associations' command streams on disjoint keys: every interleaving ends in the same table as
    running one stream after the other -/
theorem interleave_eq_seq : ∀ (xs ys zs : List (Cmd K V)), Interleave xs ys zs →
    (∀ a ∈ xs, ∀ b ∈ ys, a.key ≠ b.key) → ∀ t : T K V, run t zs = run (run t xs) ys := by
  intro xs ys zs hi
  induction hi with
  | nil => intro _ t; rfl
  | left hi ih =>
    intro hd t
    rw [run_cons, run_cons]
    exact ih (fun a ha b hb => hd a (List.mem_cons_of_mem _ ha) b hb) _
  | @right y xs ys zs hi ih =>
    intro hd t
    rw [run_cons, run_cons, ih (fun a ha b hb => hd a ha b (List.mem_cons_of_mem _ hb)) _]
    rw [past y xs t (fun a ha => hd a ha y List.mem_cons_self)]

#print axioms interleave_eq_seq

end Tab

