import Upf.Proofs.History
import Upf.Proofs.AgentReply
/-!
An accepted Session Modification that creates rules, updates FARs and removes rules in ONE message (no Update PDR / Update QER) leaves
the world exactly as the three messages "create", "update FARs", "remove" sent one after the other would — so the history theorems
(tables = image, TEIDs, pool) cover it through `modAdd`, `modFar`, `modRem`.
-/
namespace Agent

def rAdd (r : ModReq) : ModReq := { seid := r.seid, cpFseid := r.cpFseid, createPdrs := r.createPdrs, createFars := r.createFars, createQers := r.createQers }
def rUpd (r : ModReq) : ModReq := { seid := r.seid, cpFseid := r.cpFseid, updateFars := r.updateFars }
def rRem (r : ModReq) : ModReq := { seid := r.seid, cpFseid := r.cpFseid, removePdrs := r.removePdrs, removeFars := r.removeFars, removeQers := r.removeQers }

theorem rAdd_addOnly (r : ModReq) : AddOnly (rAdd r) := ⟨rfl, rfl, rfl, rfl, rfl, rfl⟩
theorem rUpd_farOnly (r : ModReq) : FarOnly (rUpd r) := ⟨rfl, rfl, rfl, rfl, rfl, rfl, rfl, rfl⟩
theorem rRem_remOnly (r : ModReq) : RemOnly (rRem r) := ⟨rfl, rfl, rfl, rfl, rfl, rfl⟩

/-- upserting FARs in two batches is upserting them in one; PDRs, FARs and QERs live in different tables -/
theorem sendAdd_split (cfg : Cfg) (t : Tables) (cp : List Pdr) (cf uf : List Far) (cq : List Qer) :
    sendAdd cfg t cp (cf ++ uf) cq = sendAdd cfg (sendAdd cfg t cp cf cq) [] uf [] := by
  unfold sendAdd
  simp only [addPdrs_eq, addFars_eq, addQers_eq, List.foldl_nil, farKV, List.map_append, List.foldl_append, pdrKV, appQerKV, sessQerKV,
    List.filter_nil, List.flatMap_nil]

theorem World.ext' {w1 w2 : World} (h1 : w1.conns = w2.conns) (h2 : w1.pool = w2.pool) (h3 : w1.teid = w2.teid) (h4 : w1.tables = w2.tables) :
    w1 = w2 := by
  cases w1; cases w2; simp_all

theorem setL_setL (l : List (Nat × Conn)) (a : Nat) (c1 c2 : Conn) (h : l.any (·.1 = a) = true) :
    setL (setL l a c1) a c2 = setL l a c2 := by
  unfold setL
  rw [if_pos h]
  have h' : (l.map fun e => if e.1 = a then (a, c1) else e).any (·.1 = a) = true := by
    rw [List.any_map]
    obtain ⟨x, hx, hxa⟩ := List.any_eq_true.mp h
    exact List.any_eq_true.mpr ⟨x, hx, by simp only [Function.comp]; have : x.1 = a := by simpa using hxa
                                          simp [this]⟩
  rw [if_pos h', List.map_map, if_pos h]
  apply List.map_congr_left
  intro e _
  by_cases he : e.1 = a <;> simp [Function.comp, he]


/-- an accepted FAR-updating modification, field by field -/
theorem modify_farOnly_ok (cfg : Cfg) (w : World) (a : Nat) (r : ModReq) (s0 : Session) (hr : FarOnly r)
    (h : (w.conn a).sessions.find? (·.lseid = r.seid) = some s0)
    (hstable : markSessionQer s0.pdrs s0.qers = (s0.qers, s0.pdrs)) (uf : List Far)
    (hu : mapFars cfg r.seid (fseidIPOf' r) true r.updateFars = .ok uf) :
    (modify cfg w a r).world.tables = sendAdd cfg w.tables [] (updFars s0.fars uf).2.1 [] ∧
    (modify cfg w a r).world.conns = setL w.conns a { w.conn a with sessions := (w.conn a).sessions.map (fun x =>
      if x.lseid = r.seid then (afterFarUpdate r s0 uf) else x) } ∧
    (modify cfg w a r).world.teid = w.teid ∧ (modify cfg w a r).world.pool = w.pool := by
  obtain ⟨h1, h2, h3, h4, h5, h6, h7, h8⟩ := hr
  unfold modify afterFarUpdate
  unfold fseidIPOf' at hu
  simp only [h, h1, h2, h3, h4, h5, h6, h7, h8]
  cases hc : r.cpFseid with
  | none =>
    simp only [hc] at hu ⊢
    simp only [parsePdrs, mapFars, pure, Except.pure, List.map_nil, List.append_nil, updPdrs, updQers, List.foldl_nil, removeAll, hu, hstable]
    refine ⟨?_, ?_, ?_, ?_⟩
    · rw [setConn_tables]; rfl
    · rw [setConn_conns]
    · rw [setConn_teid]
    · rw [setConn_pool]
  | some v =>
    obtain ⟨cp, ip⟩ := v
    simp only [hc] at hu ⊢
    simp only [parsePdrs, mapFars, pure, Except.pure, List.map_nil, List.append_nil, updPdrs, updQers, List.foldl_nil, removeAll, hu, hstable]
    refine ⟨?_, ?_, ?_, ?_⟩
    · rw [setConn_tables]; rfl
    · rw [setConn_conns]
    · rw [setConn_teid]
    · rw [setConn_pool]

/-- an accepted removal-only modification, field by field -/
theorem modify_remOnly_ok (cfg : Cfg) (w : World) (a : Nat) (r : ModReq) (s0 : Session) (hr : RemOnly r)
    (h : (w.conn a).sessions.find? (·.lseid = r.seid) = some s0)
    (hstable : markSessionQer s0.pdrs s0.qers = (s0.qers, s0.pdrs))
    (pdrs2 delP : List Pdr) (fars2 delF : List Far) (qers2 delQ : List Qer)
    (hp : removeAll (·.pdrID) s0.pdrs r.removePdrs = some (pdrs2, delP))
    (hf : removeAll (·.farID) s0.fars r.removeFars = some (fars2, delF))
    (hq : removeAll (·.qerID) s0.qers r.removeQers = some (qers2, delQ)) :
    (modify cfg w a r).world.tables = sendDel cfg w.tables delP delF delQ ∧
    (modify cfg w a r).world.conns = setL w.conns a { w.conn a with sessions := (w.conn a).sessions.map (fun x =>
      if x.lseid = r.seid then (afterRemoval r s0 pdrs2 fars2 qers2) else x) } ∧
    (modify cfg w a r).world.teid = delP.foldl (fun g p => if p.chooseTeid then Teid.free g p.tunnelTEID else g) w.teid ∧
    (modify cfg w a r).world.pool = w.pool := by
  obtain ⟨h1, h2, h3, h4, h5, h6⟩ := hr
  unfold modify afterRemoval
  simp only [h, h1, h2, h3, h4, h5, h6]
  cases hc : r.cpFseid with
  | none =>
    dsimp only
    simp only [parsePdrs, mapFars, pure, Except.pure, List.map_nil, List.append_nil, updPdrs, updFars, updQers, List.foldl_nil, hstable, sendAdd_nil, hp, hf, hq]
    refine ⟨?_, ?_, ?_, ?_⟩
    · rw [setConn_tables]
    · rw [setConn_conns]
    · rw [setConn_teid]
    · rw [setConn_pool]
  | some v =>
    obtain ⟨cp, ip⟩ := v
    dsimp only
    simp only [parsePdrs, mapFars, pure, Except.pure, List.map_nil, List.append_nil, updPdrs, updFars, updQers, List.foldl_nil, hstable, sendAdd_nil, hp, hf, hq]
    refine ⟨?_, ?_, ?_, ?_⟩
    · rw [setConn_tables]
    · rw [setConn_conns]
    · rw [setConn_teid]
    · rw [setConn_pool]


/-- the session a mixed modification stores -/
def afterMixed (r : ModReq) (s0 : Session) (pdrs2 : List Pdr) (fars2 : List Far) (qers2 : List Qer) : Session :=
  { s0 with rseid := (match r.cpFseid with | some (c, _) => c | none => s0.rseid), pdrs := pdrs2, fars := fars2, qers := qers2 }

/-- an accepted modification that creates rules, updates FARs and removes rules (no Update PDR / QER), field by field -/
theorem modify_mixed_ok (cfg : Cfg) (w : World) (a : Nat) (r : ModReq) (s0 : Session) (hr : r.updatePdrs = [] ∧ r.updateQers = [])
    (h : (w.conn a).sessions.find? (·.lseid = r.seid) = some s0)
    (cp : List Pdr) (pool1 : Option Pool.P) (cf uf : List Far)
    (hp : parsePdrs r.seid (fseidIPOf' r) (w.conn a).apps r.createPdrs w.pool = .ok (cp, pool1))
    (hf : mapFars cfg r.seid (fseidIPOf' r) false r.createFars = .ok cf)
    (hu : mapFars cfg r.seid (fseidIPOf' r) true r.updateFars = .ok uf)
    (hstable : markSessionQer (s0.pdrs ++ cp) (s0.qers ++ createdQers r) = (s0.qers ++ createdQers r, s0.pdrs ++ cp))
    (hnewP : ∀ p ∈ cp, ∀ q ∈ s0.pdrs, q.pdrID ≠ p.pdrID) (hndP : (cp.map (·.pdrID)).Nodup)
    (hnewQ : ∀ p ∈ createdQers r, ∀ q ∈ s0.qers, q.qerID ≠ p.qerID) (hndQ : ((createdQers r).map (·.qerID)).Nodup)
    (pdrs2 delP : List Pdr) (fars2 delF : List Far) (qers2 delQ : List Qer)
    (hrp : removeAll (·.pdrID) (s0.pdrs ++ cp) r.removePdrs = some (pdrs2, delP))
    (hrf : removeAll (·.farID) (updFars (s0.fars ++ cf) uf).1 r.removeFars = some (fars2, delF))
    (hrq : removeAll (·.qerID) (s0.qers ++ createdQers r) r.removeQers = some (qers2, delQ)) :
    (modify cfg w a r).world.tables =
      sendDel cfg (sendAdd cfg w.tables cp (cf ++ (updFars (s0.fars ++ cf) uf).2.1) (createdQers r)) delP delF delQ ∧
    (modify cfg w a r).world.conns = setL w.conns a { w.conn a with sessions := (w.conn a).sessions.map (fun x =>
      if x.lseid = r.seid then (afterMixed r s0 pdrs2 fars2 qers2) else x) } ∧
    (modify cfg w a r).world.teid = delP.foldl (fun g p => if p.chooseTeid then Teid.free g p.tunnelTEID else g) w.teid ∧
    (modify cfg w a r).world.pool = pool1 := by
  obtain ⟨h4, h5⟩ := hr
  have hmp := map_find_self_pdr s0.pdrs cp hnewP hndP
  have hmq := map_find_self_qer s0.qers (createdQers r) hnewQ hndQ
  unfold modify afterMixed
  unfold createdQers fseidIPOf' at *
  simp only [h, h4, h5]
  cases hc : r.cpFseid with
  | none =>
    simp only [hc] at hp hf hu hstable hmq hrq ⊢
    simp only [hp, hf, hu]
    simp only [parsePdrs, pure, Except.pure, List.map_nil, List.append_nil, updPdrs, updQers, List.foldl_nil, hstable, hmp, hmq, hrp, hrf, hrq]
    refine ⟨?_, ?_, ?_, ?_⟩
    · rw [setConn_tables]
    · rw [setConn_conns]
    · rw [setConn_teid]
    · rw [setConn_pool]
  | some v =>
    obtain ⟨c, ip⟩ := v
    simp only [hc] at hp hf hu hstable hmq hrq ⊢
    simp only [hp, hf, hu]
    simp only [parsePdrs, pure, Except.pure, List.map_nil, List.append_nil, updPdrs, updQers, List.foldl_nil, hstable, hmp, hmq, hrp, hrf, hrq]
    refine ⟨?_, ?_, ?_, ?_⟩
    · rw [setConn_tables]
    · rw [setConn_conns]
    · rw [setConn_teid]
    · rw [setConn_pool]


theorem any_of_conn_sessions (l : List (Nat × Conn)) (a : Nat) (s : Session) (h : s ∈ (connOf l a).sessions) : l.any (·.1 = a) = true := by
  unfold connOf at h
  cases hf : l.find? (fun x => decide (x.1 = a)) with
  | none => rw [hf] at h; simp at h
  | some e =>
    exact List.any_eq_true.mpr ⟨e, List.mem_of_find?_eq_some hf, by simpa using List.find?_some hf⟩

/-- **one message = three messages**: an accepted modification that creates rules, updates FARs and removes rules leaves the world
exactly as its create part, its Update FAR part and its remove part sent one after the other -/
theorem modify_mixed_decomposes (cfg : Cfg) (w : World) (a : Nat) (r : ModReq) (s0 : Session) (hr : r.updatePdrs = [] ∧ r.updateQers = [])
    (h : (w.conn a).sessions.find? (·.lseid = r.seid) = some s0)
    (cp : List Pdr) (pool1 : Option Pool.P) (cf uf : List Far)
    (hp : parsePdrs r.seid (fseidIPOf' r) (w.conn a).apps r.createPdrs w.pool = .ok (cp, pool1))
    (hf : mapFars cfg r.seid (fseidIPOf' r) false r.createFars = .ok cf)
    (hu : mapFars cfg r.seid (fseidIPOf' r) true r.updateFars = .ok uf)
    (hstable : markSessionQer (s0.pdrs ++ cp) (s0.qers ++ createdQers r) = (s0.qers ++ createdQers r, s0.pdrs ++ cp))
    (hnewP : ∀ p ∈ cp, ∀ q ∈ s0.pdrs, q.pdrID ≠ p.pdrID) (hndP : (cp.map (·.pdrID)).Nodup)
    (hnewQ : ∀ p ∈ createdQers r, ∀ q ∈ s0.qers, q.qerID ≠ p.qerID) (hndQ : ((createdQers r).map (·.qerID)).Nodup)
    (pdrs2 delP : List Pdr) (fars2 delF : List Far) (qers2 delQ : List Qer)
    (hrp : removeAll (·.pdrID) (s0.pdrs ++ cp) r.removePdrs = some (pdrs2, delP))
    (hrf : removeAll (·.farID) (updFars (s0.fars ++ cf) uf).1 r.removeFars = some (fars2, delF))
    (hrq : removeAll (·.qerID) (s0.qers ++ createdQers r) r.removeQers = some (qers2, delQ)) :
    (modify cfg w a r).world =
      (modify cfg (modify cfg (modify cfg w a (rAdd r)).world a (rUpd r)).world a (rRem r)).world := by
  have hl : s0.lseid = r.seid := by simpa using List.find?_some h
  have hany : w.conns.any (·.1 = a) = true := any_of_conn_sessions w.conns a s0 (by rw [← conn_eq]; exact List.mem_of_find?_eq_some h)
  -- the single message
  obtain ⟨mt, mc, mte, mpo⟩ := modify_mixed_ok cfg w a r s0 hr h cp pool1 cf uf hp hf hu hstable hnewP hndP hnewQ hndQ pdrs2 delP fars2 delF qers2 delQ hrp hrf hrq
  -- 1. the create part
  obtain ⟨t1, c1, te1, po1⟩ := modify_addOnly_ok cfg w a (rAdd r) s0 (rAdd_addOnly r) h cp pool1 cf hp hf hstable hnewP hndP hnewQ hndQ
  let s1 := afterCreate (rAdd r) s0 cp cf (createdQers (rAdd r))
  have hs1l : s1.lseid = r.seid := hl
  have conn1 : (modify cfg w a (rAdd r)).world.conn a =
      { w.conn a with sessions := (w.conn a).sessions.map (fun x => if x.lseid = r.seid then s1 else x) } := by
    rw [conn_eq, c1, connOf_setL]; try rfl
  have find1 : ((modify cfg w a (rAdd r)).world.conn a).sessions.find? (·.lseid = (rUpd r).seid) = some s1 := by
    rw [conn1]; exact find_map_replace2 r.seid _ s0 h s1 hs1l
  -- 2. the Update FAR part
  obtain ⟨t2, c2, te2, po2⟩ := modify_farOnly_ok cfg (modify cfg w a (rAdd r)).world a (rUpd r) s1 (rUpd_farOnly r) find1 hstable uf hu
  let s2 := afterFarUpdate (rUpd r) s1 uf
  have hs2l : s2.lseid = r.seid := hl
  have conn2 : (modify cfg (modify cfg w a (rAdd r)).world a (rUpd r)).world.conn a =
      { w.conn a with sessions := ((w.conn a).sessions.map (fun x => if x.lseid = r.seid then s1 else x)).map (fun x => if x.lseid = r.seid then s2 else x) } := by
    rw [conn_eq, c2, connOf_setL, conn1]; try rfl
  have find2 : ((modify cfg (modify cfg w a (rAdd r)).world a (rUpd r)).world.conn a).sessions.find? (·.lseid = (rRem r).seid) = some s2 := by
    rw [conn2]
    exact find_map_replace2 r.seid _ s1 (find_map_replace2 r.seid _ s0 h s1 hs1l) s2 hs2l
  -- 3. the remove part
  obtain ⟨t3, c3, te3, po3⟩ := modify_remOnly_ok cfg (modify cfg (modify cfg w a (rAdd r)).world a (rUpd r)).world a (rRem r) s2 (rRem_remOnly r)
    find2 hstable pdrs2 delP fars2 delF qers2 delQ hrp hrf hrq
  -- the store after each part, as one `setL` on the original association list
  have e2 : (modify cfg (modify cfg w a (rAdd r)).world a (rUpd r)).world.conns =
      setL w.conns a { w.conn a with sessions := ((w.conn a).sessions.map (fun x => if x.lseid = r.seid then s1 else x)).map (fun x => if x.lseid = r.seid then s2 else x) } := by
    rw [c2, c1, conn1, setL_setL _ _ _ _ hany]; try rfl
  have e3 : (modify cfg (modify cfg (modify cfg w a (rAdd r)).world a (rUpd r)).world a (rRem r)).world.conns =
      setL w.conns a { w.conn a with sessions := (((w.conn a).sessions.map (fun x => if x.lseid = r.seid then s1 else x)).map
        (fun x => if x.lseid = r.seid then s2 else x)).map (fun x => if x.lseid = r.seid then (afterRemoval (rRem r) s2 pdrs2 fars2 qers2) else x) } := by
    rw [c3, e2, conn2, setL_setL _ _ _ _ hany]; try rfl
  have hs3 : afterRemoval (rRem r) s2 pdrs2 fars2 qers2 = afterMixed r s0 pdrs2 fars2 qers2 := by
    unfold afterRemoval afterMixed
    cases hc : r.cpFseid <;> simp [s2, s1, afterFarUpdate, afterCreate, rRem, rUpd, rAdd, hc]
  apply World.ext'
  · rw [mc, e3]
    have hmaps : (w.conn a).sessions.map (fun x => if x.lseid = r.seid then (afterMixed r s0 pdrs2 fars2 qers2) else x) =
        (((w.conn a).sessions.map (fun x => if x.lseid = r.seid then s1 else x)).map
          (fun x => if x.lseid = r.seid then s2 else x)).map (fun x => if x.lseid = r.seid then (afterRemoval (rRem r) s2 pdrs2 fars2 qers2) else x) := by
      rw [List.map_map, List.map_map]
      apply List.map_congr_left
      intro x _
      by_cases hx : x.lseid = r.seid
      · simp only [Function.comp, hx, if_true, hs1l, hs2l, hs3]
      · simp only [Function.comp, hx, if_false]
    rw [hmaps]
  · rw [mpo, po3, po2, po1]
  · rw [mte, te3, te2, te1]
  · rw [mt, t3, t2, t1, sendAdd_split]
    rfl


/-- the hypotheses under which one mixed message is three messages -/
structure MixedOk (cfg : Cfg) (w : World) (a : Nat) (r : ModReq) (s0 : Session) : Prop where
  noUpd : r.updatePdrs = [] ∧ r.updateQers = []
  find : (w.conn a).sessions.find? (·.lseid = r.seid) = some s0
  parsed : ∃ cp pool1 cf uf pdrs2 delP fars2 delF qers2 delQ,
    parsePdrs r.seid (fseidIPOf' r) (w.conn a).apps r.createPdrs w.pool = .ok (cp, pool1) ∧
    mapFars cfg r.seid (fseidIPOf' r) false r.createFars = .ok cf ∧
    mapFars cfg r.seid (fseidIPOf' r) true r.updateFars = .ok uf ∧
    markSessionQer (s0.pdrs ++ cp) (s0.qers ++ createdQers r) = (s0.qers ++ createdQers r, s0.pdrs ++ cp) ∧
    (∀ p ∈ cp, ∀ q ∈ s0.pdrs, q.pdrID ≠ p.pdrID) ∧ (cp.map (·.pdrID)).Nodup ∧
    (∀ p ∈ createdQers r, ∀ q ∈ s0.qers, q.qerID ≠ p.qerID) ∧ ((createdQers r).map (·.qerID)).Nodup ∧
    removeAll (·.pdrID) (s0.pdrs ++ cp) r.removePdrs = some (pdrs2, delP) ∧
    removeAll (·.farID) (updFars (s0.fars ++ cf) uf).1 r.removeFars = some (fars2, delF) ∧
    removeAll (·.qerID) (s0.qers ++ createdQers r) r.removeQers = some (qers2, delQ)

theorem MixedOk.world {cfg : Cfg} {w : World} {a : Nat} {r : ModReq} {s0 : Session} (h : MixedOk cfg w a r s0) :
    (modify cfg w a r).world = [Ev.modAdd a (rAdd r), Ev.modFar a (rUpd r), Ev.modRem a (rRem r)].foldl (stepEv cfg) w := by
  obtain ⟨cp, pool1, cf, uf, pdrs2, delP, fars2, delF, qers2, delQ, hp, hf, hu, hst, h1, h2, h3, h4, hrp, hrf, hrq⟩ := h.parsed
  exact modify_mixed_decomposes cfg w a r s0 h.noUpd h.find cp pool1 cf uf hp hf hu hst h1 h2 h3 h4 pdrs2 delP fars2 delF qers2 delQ hrp hrf hrq

/-- **every accepted modification without Update PDR / Update QER keeps all the invariants**, whenever its three parts are in the envelope -/
theorem mixed_inv (base : List Nat) (cfg : Cfg) (w : World) (a : Nat) (r : ModReq) (s0 : Session) (hm : MixedOk cfg w a r s0)
    (hI : Inv cfg w) (hW : FarWf w) (hT : TeidInv w) (hP : PoolInv base w.pool) (hO : Owned w)
    (henv : EnvOK cfg w [Ev.modAdd a (rAdd r), Ev.modFar a (rUpd r), Ev.modRem a (rRem r)]) :
    Inv cfg (modify cfg w a r).world ∧ FarWf (modify cfg w a r).world ∧ TeidInv (modify cfg w a r).world ∧
    PoolInv base (modify cfg w a r).world.pool ∧ Owned (modify cfg w a r).world := by
  rw [hm.world]
  have h1 := inv_run cfg _ w hI hW henv
  have h2 := inv_teid_run cfg _ w hI hW hT henv
  have h3 := pool_run base cfg _ w hI hW henv hP hO
  exact ⟨h1.1, h1.2, h2.2, h3.1, h3.2⟩

end Agent
