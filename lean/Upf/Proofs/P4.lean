import Upf.Model.P4

namespace P4

theorem uplink_valid (n3 teid meter : BitVec 32) :
    ∃ e, buildUplinkSession info n3 teid meter = some e ∧ valid info e := by
  refine ⟨_, by simp [buildUplinkSession, withExact, withParam, Info.table?, Info.action?, Table.field?, Action.param?, info]; rfl, ?_⟩
  refine ⟨_, by simp [Info.table?, info]; rfl, ?_, ?_, ?_⟩
  · intro m hm
    simp at hm
    rcases hm with rfl | rfl
    · exact ⟨⟨1, "n3_address", 32, .exact⟩, by simp, rfl, rfl, n3.isLt⟩
    · exact ⟨⟨2, "teid", 32, .exact⟩, by simp, rfl, rfl, teid.isLt⟩
  · simp
  · refine ⟨_, by simp [Info.action?, info]; rfl, by simp, ?_, by simp⟩
    intro pv hpv
    simp at hpv
    subst hpv
    exact ⟨⟨1, "session_meter_idx", 32⟩, by simp, rfl, meter.isLt⟩

#print axioms uplink_valid

end P4

