import Upf.Proofs.Up4Basic
/-!
C15 on the model, meter cells: for every environment (every pick of `Pop()`, every outcome of every Write) the two meter
pools stay exclusive — a cell is never free while a recorded meter holds it, never held by two meters, never outside
its array — and an application-meter operation never touches the session pool nor the reverse (no migration).
-/
namespace Up4

/-! ## maps and sets -/

theorem mapGet_mapPut {κ ν : Type} [BEq κ] [LawfulBEq κ] (m : List (κ × ν)) (k k' : κ) (v : ν) :
    mapGet (mapPut m k v) k' = if k' == k then some v else mapGet m k' := by
  induction m with
  | nil =>
    simp only [mapPut, mapGet]
    by_cases h : (k' == k) = true
    · have : k = k' := by have := beq_iff_eq.mp h; exact this.symm
      subst this; simp
    · have : (k == k') = false := by
        cases h2 : (k == k') with
        | false => rfl
        | true => have := beq_iff_eq.mp h2; subst this; simp at h
      simp [h, this]
  | cons e rest ih =>
    simp only [mapPut]
    by_cases hek : (e.1 == k) = true
    · have hk : e.1 = k := beq_iff_eq.mp hek
      simp only [hek, if_true, mapGet]
      by_cases h : (k' == k) = true
      · have : k' = k := beq_iff_eq.mp h
        subst this; simp
      · have hne : (k == k') = false := by
          cases h2 : (k == k') with
          | false => rfl
          | true => have := beq_iff_eq.mp h2; subst this; simp at h
        have hne' : (e.1 == k') = false := by rw [hk]; exact hne
        simp [h, hne, hne']
    · simp only [hek, mapGet]
      by_cases he' : (e.1 == k') = true
      · have : e.1 = k' := beq_iff_eq.mp he'
        have hkk : (k' == k) = false := by
          cases h2 : (k' == k) with
          | false => rfl
          | true => have := beq_iff_eq.mp h2; subst this; rw [‹e.1 = k'›] at hek; simp at hek
        simp [mapGet, he', hkk]
      · have hf : (e.1 == k) = false := by simpa using hek
        have hf' : (e.1 == k') = false := by simpa using he'
        simp only [hf, hf', Bool.false_eq_true, if_false, mapGet]
        exact ih

theorem mapGet_mapDel {κ ν : Type} [BEq κ] [LawfulBEq κ] (m : List (κ × ν)) (k k' : κ) :
    mapGet (mapDel m k) k' = if k' == k then none else mapGet m k' := by
  induction m with
  | nil => simp [mapDel, mapGet]
  | cons e rest ih =>
    simp only [mapDel]
    by_cases hek : (e.1 == k) = true
    · have hk : e.1 = k := beq_iff_eq.mp hek
      simp only [hek, if_true, ih, mapGet]
      by_cases h : (k' == k) = true
      · simp [h]
      · have hne' : (e.1 == k') = false := by
          cases h2 : (e.1 == k') with
          | false => rfl
          | true => have := beq_iff_eq.mp h2; rw [hk] at this; subst this; simp at h
        simp [h, hne']
    · simp only [hek, mapGet]
      by_cases he' : (e.1 == k') = true
      · have : e.1 = k' := beq_iff_eq.mp he'
        have hkk : (k' == k) = false := by
          cases h2 : (k' == k) with
          | false => rfl
          | true => have := beq_iff_eq.mp h2; subst this; rw [‹e.1 = k'›] at hek; simp at hek
        simp [mapGet, he', hkk]
      · have hf : (e.1 == k) = false := by simpa using hek
        have hf' : (e.1 == k') = false := by simpa using he'
        simp only [hf, hf', Bool.false_eq_true, if_false, mapGet]
        exact ih

theorem mem_setAdd (l : List Nat) (x y : Nat) : y ∈ setAdd l x ↔ y ∈ l ∨ y = x := by
  unfold setAdd
  split
  · rename_i h
    have : x ∈ l := by simpa using h
    constructor
    · intro hy; exact Or.inl hy
    · rintro (hy | rfl) <;> assumption
  · simp

theorem nodup_setAdd (l : List Nat) (x : Nat) (h : l.Nodup) : (setAdd l x).Nodup := by
  unfold setAdd
  split
  · exact h
  · rename_i hc
    have : x ∉ l := by simpa using hc
    exact List.nodup_append.mpr ⟨h, by simp, by intro a ha b hb; simp at hb; subst hb; intro e; subst e; exact this ha⟩

/-- `Pop()`: the cell comes out of the pool -/
theorem pop_spec {c c' : Ctx} {free f : List Nat} {x : Nat} (h : pop c free = some (x, f, c')) :
    x ∈ free ∧ f = free.erase x ∧ c'.st = c.st := by
  unfold pop at h
  split at h
  · cases h
  · rename_i y ys
    split at h
    · split at h
      · rename_i hc
        cases h
        exact ⟨by simpa using hc, rfl, rfl⟩
      · cases h; exact ⟨by simp, rfl, rfl⟩
    · cases h; exact ⟨by simp, rfl, rfl⟩

/-! ## the invariant -/

structure MI (app sess : List Nat) (ms : List ((Nat × Nat) × Meter)) : Prop where
  appNd : app.Nodup
  sessNd : sess.Nodup
  /-- a cell a recorded application meter holds is not free (in its own pool) -/
  appHeld : ∀ k m, mapGet ms k = some m → m.kind = 1 → m.ul ∉ app ∧ m.dl ∉ app
  sessHeld : ∀ k m, mapGet ms k = some m → m.kind = 2 → m.ul ∉ sess ∧ m.dl ∉ sess
  /-- two recorded meters of the same pool share no cell -/
  owners : ∀ k1 k2 m1 m2, k1 ≠ k2 → mapGet ms k1 = some m1 → mapGet ms k2 = some m2 → m1.kind = m2.kind →
    m1.ul ≠ m2.ul ∧ m1.ul ≠ m2.dl ∧ m1.dl ≠ m2.ul ∧ m1.dl ≠ m2.dl
  /-- every cell, free or held, lies inside its array and is not the reserved cell 0 -/
  appRange : ∀ x ∈ app, 1 ≤ x ∧ x < 1024
  sessRange : ∀ x ∈ sess, 1 ≤ x ∧ x < 1024
  heldRange : ∀ k m, mapGet ms k = some m → 1 ≤ m.ul ∧ m.ul < 1024 ∧ 1 ≤ m.dl ∧ m.dl < 1024
  kinds : ∀ k m, mapGet ms k = some m → m.kind = 1 ∨ m.kind = 2

/-- the invariant of the two meter pools and the `meters` map -/
abbrev MInv (st : St) : Prop := MI st.appFree st.sessFree st.meters

theorem mem_erase_nodup {l : List Nat} {x y : Nat} (h : l.Nodup) : y ∈ l.erase x ↔ y ∈ l ∧ y ≠ x := by
  rw [List.Nodup.mem_erase_iff h]; constructor <;> (intro ⟨a, b⟩; exact ⟨b, a⟩)

/-- `configureSessMeter`, whatever is picked and whatever the Write does -/
theorem configureSessMeter_spec (c : Ctx) (q : Agent.Qer) (hI : MInv c.st) :
    (configureSessMeter c q).1.st.appFree = c.st.appFree ∧ (configureSessMeter c q).1.st.meters = c.st.meters ∧
    ((configureSessMeter c q).2 = none → (∀ x, x ∈ (configureSessMeter c q).1.st.sessFree ↔ x ∈ c.st.sessFree) ∧
        (configureSessMeter c q).1.st.sessFree.Nodup) ∧
    (∀ m, (configureSessMeter c q).2 = some m → m.kind = 2 ∧ m.ul ∈ c.st.sessFree ∧ m.dl ∈ c.st.sessFree ∧ m.ul ≠ m.dl ∧
        (configureSessMeter c q).1.st.sessFree = (c.st.sessFree.erase m.ul).erase m.dl) := by
  unfold configureSessMeter
  cases h1 : pop c c.st.sessFree with
  | none => simp [hI.sessNd]
  | some r1 =>
    obtain ⟨ul, free, c1⟩ := r1
    obtain ⟨hul, hfree, hst1⟩ := pop_spec h1
    have hul0 : ul ≠ 0 := by have := hI.sessRange ul hul; omega
    simp only
    cases h2 : pop { c1 with st := { c1.st with sessFree := free } } free with
    | none =>
      simp only [hul0, ne_eq, not_false_eq_true, if_true, hst1, true_and]
      refine ⟨fun _ => ⟨?_, ?_⟩, by simp⟩
      · intro x; rw [mem_setAdd, hfree, mem_erase_nodup hI.sessNd]
        constructor
        · rintro (⟨h, _⟩ | rfl) <;> assumption
        · intro h; by_cases hx : x = ul
          · exact Or.inr hx
          · exact Or.inl ⟨h, hx⟩
      · exact nodup_setAdd _ _ (hfree ▸ hI.sessNd.erase ul)
    | some r2 =>
      obtain ⟨dl, free2, c2⟩ := r2
      obtain ⟨hdl, hfree2, hst2⟩ := pop_spec h2
      simp only at hst2
      have hnd1 : free.Nodup := hfree ▸ hI.sessNd.erase ul
      have hdl' : dl ∈ c.st.sessFree ∧ dl ≠ ul := by rw [hfree] at hdl; exact (mem_erase_nodup hI.sessNd).mp hdl
      have hdl0 : dl ≠ 0 := by have := hI.sessRange dl hdl'.1; omega
      simp only
      generalize hups : ([⟨.modify, .meter Gen.P4Constants.MeterPreQosPipeSessionMeter ul (some (meterCfg q.ulMbr))⟩,
        ⟨.modify, .meter Gen.P4Constants.MeterPreQosPipeSessionMeter dl (some (meterCfg q.dlMbr))⟩] : List Upd) = ups
      generalize hcw : ({ c2 with st := { c2.st with sessFree := free2 } } : Ctx) = cw
      have ha : cw.st.appFree = c.st.appFree := by rw [← hcw]; simp [hst2, hst1]
      have hm : cw.st.meters = c.st.meters := by rw [← hcw]; simp [hst2, hst1]
      have hs : cw.st.sessFree = free2 := by rw [← hcw]
      by_cases hok : ((write cw ups).2 == .ok) = true
      · simp only [hok, if_true, write_appFree, write_meters, write_sessFree, ha, hm, hs]
        refine ⟨trivial, trivial, by simp, ?_⟩
        intro m hm
        cases hm
        exact ⟨rfl, hul, hdl'.1, fun h => hdl'.2 h.symm, by rw [hfree2, hfree]⟩
      · simp only [hok, Bool.false_eq_true, if_false, write_appFree, write_meters, write_sessFree, ha, hm, hs, hul0, hdl0, ne_eq, not_false_eq_true, if_true]
        refine ⟨trivial, trivial, fun _ => ⟨?_, ?_⟩, by simp⟩
        · intro x
          rw [mem_setAdd, mem_setAdd, hfree2, mem_erase_nodup hnd1, hfree, mem_erase_nodup hI.sessNd]
          constructor
          · rintro ((⟨⟨h, _⟩, _⟩ | rfl) | rfl)
            · exact h
            · exact hul
            · exact hdl'.1
          · intro h
            by_cases hx : x = dl
            · exact Or.inr hx
            · by_cases hx2 : x = ul
              · exact Or.inl (Or.inr hx2)
              · exact Or.inl (Or.inl ⟨⟨h, hx2⟩, hx⟩)
        · exact nodup_setAdd _ _ (nodup_setAdd _ _ (hfree2 ▸ hnd1.erase dl))

/-- `configureApplicationMeter`, whatever is picked and whatever the Write does: on failure the application pool is what it
was and the session pool is never touched (the cells go back to the pool they were taken from) -/
theorem configureAppMeter_spec (c : Ctx) (q : Agent.Qer) (bidir : Bool) (hI : MInv c.st) :
    (configureAppMeter c q bidir).1.st.sessFree = c.st.sessFree ∧ (configureAppMeter c q bidir).1.st.meters = c.st.meters ∧
    ((configureAppMeter c q bidir).2 = none → (∀ x, x ∈ (configureAppMeter c q bidir).1.st.appFree ↔ x ∈ c.st.appFree) ∧
        (configureAppMeter c q bidir).1.st.appFree.Nodup) ∧
    (∀ m, (configureAppMeter c q bidir).2 = some m → m.kind = 1 ∧ m.ul ∈ c.st.appFree ∧ m.dl ∈ c.st.appFree ∧
        (∀ x, x ∈ (configureAppMeter c q bidir).1.st.appFree ↔ x ∈ c.st.appFree ∧ x ≠ m.ul ∧ x ≠ m.dl) ∧
        (configureAppMeter c q bidir).1.st.appFree.Nodup) := by
  unfold configureAppMeter
  cases h1 : pop c c.st.appFree with
  | none => simp [hI.appNd]
  | some r1 =>
    obtain ⟨ul, free, c1⟩ := r1
    obtain ⟨hul, hfree, hst1⟩ := pop_spec h1
    have hul0 : ul ≠ 0 := by have := hI.appRange ul hul; omega
    have hnd1 : free.Nodup := hfree ▸ hI.appNd.erase ul
    simp only
    cases bidir with
    | false =>
      simp only [Bool.false_eq_true, if_false, ne_eq, not_true_eq_false, and_false, List.append_nil, hul0, not_false_eq_true, if_true]
      generalize hups : ([⟨.modify, .meter Gen.P4Constants.MeterPreQosPipeAppMeter ul (some (meterCfg q.ulMbr))⟩] : List Upd) = ups
      generalize hcw : ({ c1 with st := { c1.st with appFree := free } } : Ctx) = cw
      have ha : cw.st.sessFree = c.st.sessFree := by rw [← hcw]; simp [hst1]
      have hm : cw.st.meters = c.st.meters := by rw [← hcw]; simp [hst1]
      have hs : cw.st.appFree = free := by rw [← hcw]
      by_cases hok : ((write cw ups).2 == .ok) = true
      · simp only [hok, if_true, write_appFree, write_meters, write_sessFree, ha, hm, hs]
        refine ⟨trivial, trivial, by simp, ?_⟩
        intro m hm
        cases hm
        refine ⟨rfl, hul, hul, ?_, hnd1⟩
        intro x; rw [hfree, mem_erase_nodup hI.appNd]
        constructor
        · rintro ⟨a, b⟩; exact ⟨a, b, b⟩
        · rintro ⟨a, b, _⟩; exact ⟨a, b⟩
      · simp only [hok, Bool.false_eq_true, if_false, write_appFree, write_meters, write_sessFree, ha, hm, hs, false_and]
        refine ⟨trivial, trivial, fun _ => ⟨?_, nodup_setAdd _ _ hnd1⟩, by simp⟩
        intro x; rw [mem_setAdd, hfree, mem_erase_nodup hI.appNd]
        constructor
        · rintro (⟨h, _⟩ | rfl) <;> assumption
        · intro h; by_cases hx : x = ul
          · exact Or.inr hx
          · exact Or.inl ⟨h, hx⟩
    | true =>
      simp only [if_true]
      cases h2 : pop { c1 with st := { c1.st with appFree := free } } free with
      | none =>
        simp only [hst1]
        refine ⟨trivial, trivial, fun _ => ⟨?_, nodup_setAdd _ _ hnd1⟩, by simp⟩
        intro x; rw [mem_setAdd, hfree, mem_erase_nodup hI.appNd]
        constructor
        · rintro (⟨h, _⟩ | rfl) <;> assumption
        · intro h; by_cases hx : x = ul
          · exact Or.inr hx
          · exact Or.inl ⟨h, hx⟩
      | some r2 =>
        obtain ⟨dl, free2, c2⟩ := r2
        obtain ⟨hdl, hfree2, hst2⟩ := pop_spec h2
        simp only at hst2
        have hdl' : dl ∈ c.st.appFree ∧ dl ≠ ul := by rw [hfree] at hdl; exact (mem_erase_nodup hI.appNd).mp hdl
        have hdl0 : dl ≠ 0 := by have := hI.appRange dl hdl'.1; omega
        simp only [hul0, hdl'.2, hdl0, ne_eq, not_false_eq_true, if_true, and_self]
        generalize hups : ([⟨.modify, .meter Gen.P4Constants.MeterPreQosPipeAppMeter ul (some (meterCfg q.ulMbr))⟩] ++
          [⟨.modify, .meter Gen.P4Constants.MeterPreQosPipeAppMeter dl (some (meterCfg q.dlMbr))⟩] : List Upd) = ups
        generalize hcw : ({ c2 with st := { c2.st with appFree := free2 } } : Ctx) = cw
        have ha : cw.st.sessFree = c.st.sessFree := by rw [← hcw]; simp [hst2, hst1]
        have hm : cw.st.meters = c.st.meters := by rw [← hcw]; simp [hst2, hst1]
        have hs : cw.st.appFree = free2 := by rw [← hcw]
        by_cases hok : ((write cw ups).2 == .ok) = true
        · simp only [hok, if_true, write_appFree, write_meters, write_sessFree, ha, hm, hs]
          refine ⟨trivial, trivial, by simp, ?_⟩
          intro m hm
          cases hm
          refine ⟨rfl, hul, hdl'.1, ?_, hfree2 ▸ hnd1.erase dl⟩
          intro x; rw [hfree2, mem_erase_nodup hnd1, hfree, mem_erase_nodup hI.appNd]
          constructor
          · rintro ⟨⟨a, b⟩, d⟩; exact ⟨a, b, d⟩
          · rintro ⟨a, b, d⟩; exact ⟨⟨a, b⟩, d⟩
        · simp only [hok, Bool.false_eq_true, if_false, write_appFree, write_meters, write_sessFree, ha, hm, hs]
          refine ⟨trivial, trivial, fun _ => ⟨?_, nodup_setAdd _ _ (nodup_setAdd _ _ (hfree2 ▸ hnd1.erase dl))⟩, by simp⟩
          intro x
          rw [mem_setAdd, mem_setAdd, hfree2, mem_erase_nodup hnd1, hfree, mem_erase_nodup hI.appNd]
          constructor
          · rintro ((⟨⟨h, _⟩, _⟩ | rfl) | rfl)
            · exact h
            · exact hul
            · exact hdl'.1
          · intro h
            by_cases hx : x = dl
            · exact Or.inr hx
            · by_cases hx2 : x = ul
              · exact Or.inl (Or.inr hx2)
              · exact Or.inl (Or.inl ⟨⟨h, hx2⟩, hx⟩)

theorem beq_false_of_ne {k k' : Nat × Nat} (h : k ≠ k') : (k == k') = false := by
  cases h2 : (k == k') with
  | false => rfl
  | true => exact absurd (beq_iff_eq.mp h2) h

/-- a new session meter whose two cells come out of the free pool keeps the invariant -/
theorem mi_put_sess {app sess : List Nat} {ms : List ((Nat × Nat) × Meter)} (hI : MI app sess ms) (key : Nat × Nat) (m : Meter)
    (free' : List Nat) (hk : m.kind = 2) (hul : m.ul ∈ sess) (hdl : m.dl ∈ sess)
    (hmem : ∀ x, x ∈ free' ↔ x ∈ sess ∧ x ≠ m.ul ∧ x ≠ m.dl) (hnd : free'.Nodup) :
    MI app free' (mapPut ms key m) := by
  have get : ∀ k m', mapGet (mapPut ms key m) k = some m' → (k = key ∧ m' = m) ∨ (k ≠ key ∧ mapGet ms k = some m') := by
    intro k m' h
    rw [mapGet_mapPut] at h
    by_cases hk : k = key
    · subst hk; simp at h; exact Or.inl ⟨rfl, h.symm⟩
    · rw [beq_false_of_ne hk] at h; exact Or.inr ⟨hk, by simpa using h⟩
  refine ⟨hI.appNd, hnd, ?_, ?_, ?_, hI.appRange, ?_, ?_, ?_⟩
  · intro k m' h hk1
    rcases get k m' h with ⟨_, rfl⟩ | ⟨_, h'⟩
    · omega
    · exact hI.appHeld k m' h' hk1
  · intro k m' h hk2
    rcases get k m' h with ⟨_, rfl⟩ | ⟨_, h'⟩
    · exact ⟨fun hx => ((hmem _).mp hx).2.1 rfl, fun hx => ((hmem _).mp hx).2.2 rfl⟩
    · have := hI.sessHeld k m' h' hk2
      exact ⟨fun hx => this.1 ((hmem _).mp hx).1, fun hx => this.2 ((hmem _).mp hx).1⟩
  · intro k1 k2 m1 m2 hne h1 h2 hkk
    rcases get k1 m1 h1 with ⟨e1, rfl⟩ | ⟨n1, h1'⟩ <;> rcases get k2 m2 h2 with ⟨e2, rfl⟩ | ⟨n2, h2'⟩
    · exact absurd (e1.trans e2.symm) hne
    · have := hI.sessHeld k2 m2 h2' (by omega)
      refine ⟨?_, ?_, ?_, ?_⟩ <;> (intro e; first | exact this.1 (e ▸ hul) | exact this.2 (e ▸ hul) | exact this.1 (e ▸ hdl) | exact this.2 (e ▸ hdl))
    · have := hI.sessHeld k1 m1 h1' (by omega)
      refine ⟨?_, ?_, ?_, ?_⟩ <;> (intro e; first | exact this.1 (e ▸ hul) | exact this.2 (e ▸ hul) | exact this.1 (e ▸ hdl) | exact this.2 (e ▸ hdl))
    · exact hI.owners k1 k2 m1 m2 hne h1' h2' hkk
  · intro x hx; exact hI.sessRange x ((hmem x).mp hx).1
  · intro k m' h
    rcases get k m' h with ⟨_, rfl⟩ | ⟨_, h'⟩
    · have a := hI.sessRange _ hul; have b := hI.sessRange _ hdl; omega
    · exact hI.heldRange k m' h'
  · intro k m' h
    rcases get k m' h with ⟨_, rfl⟩ | ⟨_, h'⟩
    · exact Or.inr hk
    · exact hI.kinds k m' h'

/-- a new application meter whose cells come out of the free pool keeps the invariant -/
theorem mi_put_app {app sess : List Nat} {ms : List ((Nat × Nat) × Meter)} (hI : MI app sess ms) (key : Nat × Nat) (m : Meter)
    (free' : List Nat) (hk : m.kind = 1) (hul : m.ul ∈ app) (hdl : m.dl ∈ app)
    (hmem : ∀ x, x ∈ free' ↔ x ∈ app ∧ x ≠ m.ul ∧ x ≠ m.dl) (hnd : free'.Nodup) :
    MI free' sess (mapPut ms key m) := by
  have get : ∀ k m', mapGet (mapPut ms key m) k = some m' → (k = key ∧ m' = m) ∨ (k ≠ key ∧ mapGet ms k = some m') := by
    intro k m' h
    rw [mapGet_mapPut] at h
    by_cases hk : k = key
    · subst hk; simp at h; exact Or.inl ⟨rfl, h.symm⟩
    · rw [beq_false_of_ne hk] at h; exact Or.inr ⟨hk, by simpa using h⟩
  refine ⟨hnd, hI.sessNd, ?_, ?_, ?_, ?_, hI.sessRange, ?_, ?_⟩
  · intro k m' h hk1
    rcases get k m' h with ⟨_, rfl⟩ | ⟨_, h'⟩
    · exact ⟨fun hx => ((hmem _).mp hx).2.1 rfl, fun hx => ((hmem _).mp hx).2.2 rfl⟩
    · have := hI.appHeld k m' h' hk1
      exact ⟨fun hx => this.1 ((hmem _).mp hx).1, fun hx => this.2 ((hmem _).mp hx).1⟩
  · intro k m' h hk2
    rcases get k m' h with ⟨_, rfl⟩ | ⟨_, h'⟩
    · omega
    · exact hI.sessHeld k m' h' hk2
  · intro k1 k2 m1 m2 hne h1 h2 hkk
    rcases get k1 m1 h1 with ⟨e1, rfl⟩ | ⟨n1, h1'⟩ <;> rcases get k2 m2 h2 with ⟨e2, rfl⟩ | ⟨n2, h2'⟩
    · exact absurd (e1.trans e2.symm) hne
    · have := hI.appHeld k2 m2 h2' (by omega)
      refine ⟨?_, ?_, ?_, ?_⟩ <;> (intro e; first | exact this.1 (e ▸ hul) | exact this.2 (e ▸ hul) | exact this.1 (e ▸ hdl) | exact this.2 (e ▸ hdl))
    · have := hI.appHeld k1 m1 h1' (by omega)
      refine ⟨?_, ?_, ?_, ?_⟩ <;> (intro e; first | exact this.1 (e ▸ hul) | exact this.2 (e ▸ hul) | exact this.1 (e ▸ hdl) | exact this.2 (e ▸ hdl))
    · exact hI.owners k1 k2 m1 m2 hne h1' h2' hkk
  · intro x hx; exact hI.appRange x ((hmem x).mp hx).1
  · intro k m' h
    rcases get k m' h with ⟨_, rfl⟩ | ⟨_, h'⟩
    · have a := hI.appRange _ hul; have b := hI.appRange _ hdl; omega
    · exact hI.heldRange k m' h'
  · intro k m' h
    rcases get k m' h with ⟨_, rfl⟩ | ⟨_, h'⟩
    · exact Or.inl hk
    · exact hI.kinds k m' h'

/-- pools with the same members (sets) -/
theorem mi_congr {app sess app' sess' : List Nat} {ms : List ((Nat × Nat) × Meter)} (hI : MI app sess ms)
    (ha : ∀ x, x ∈ app' ↔ x ∈ app) (hs : ∀ x, x ∈ sess' ↔ x ∈ sess) (hna : app'.Nodup) (hns : sess'.Nodup) : MI app' sess' ms :=
  ⟨hna, hns,
   fun k m h hk => ⟨fun hx => (hI.appHeld k m h hk).1 ((ha _).mp hx), fun hx => (hI.appHeld k m h hk).2 ((ha _).mp hx)⟩,
   fun k m h hk => ⟨fun hx => (hI.sessHeld k m h hk).1 ((hs _).mp hx), fun hx => (hI.sessHeld k m h hk).2 ((hs _).mp hx)⟩,
   hI.owners, fun x hx => hI.appRange x ((ha x).mp hx), fun x hx => hI.sessRange x ((hs x).mp hx), hI.heldRange, hI.kinds⟩

/-- **configureMeters** keeps the invariant for every environment; so does its failure -/
theorem configureMeters_inv (n : Nat) : ∀ (qs : List Agent.Qer) (c : Ctx), MInv c.st → MInv (configureMeters n c qs).1.st
  | [], c, h => by simpa [configureMeters] using h
  | q :: rest, c, hI => by
    unfold configureMeters
    by_cases hs : q.session = true
    · simp only [hs, if_true]
      obtain ⟨ha, hm, hnone, hsome⟩ := configureSessMeter_spec c q hI
      generalize configureSessMeter c q = r at ha hm hnone hsome
      obtain ⟨c1, om⟩ := r
      cases om with
      | none =>
        simp only
        have := hnone rfl
        show MI c1.st.appFree c1.st.sessFree c1.st.meters
        rw [ha, hm]
        exact mi_congr hI (fun _ => Iff.rfl) this.1 hI.appNd this.2
      | some m =>
        simp only
        apply configureMeters_inv n rest
        obtain ⟨hk, hul, hdl, hne, hfree⟩ := hsome m rfl
        show MI c1.st.appFree c1.st.sessFree (mapPut c1.st.meters (q.qerID, q.fseID) m)
        rw [ha, hm]
        refine mi_put_sess hI _ m _ hk hul hdl ?_ (hfree ▸ (hI.sessNd.erase _).erase _)
        intro x; rw [hfree, mem_erase_nodup (hI.sessNd.erase _), mem_erase_nodup hI.sessNd]
        constructor
        · rintro ⟨⟨a, b⟩, d⟩; exact ⟨a, b, d⟩
        · rintro ⟨a, b, d⟩; exact ⟨⟨a, b⟩, d⟩
    · simp only [hs]
      obtain ⟨ha, hm, hnone, hsome⟩ := configureAppMeter_spec c q (n == 1) hI
      generalize configureAppMeter c q (n == 1) = r at ha hm hnone hsome
      obtain ⟨c1, om⟩ := r
      cases om with
      | none =>
        have := hnone rfl
        show MI c1.st.appFree c1.st.sessFree c1.st.meters
        rw [ha, hm]
        exact mi_congr hI this.1 (fun _ => Iff.rfl) this.2 hI.sessNd
      | some m =>
        apply configureMeters_inv n rest
        obtain ⟨hk, hul, hdl, hmem, hnd⟩ := hsome m rfl
        show MI c1.st.appFree c1.st.sessFree (mapPut c1.st.meters (q.qerID, q.fseID) m)
        rw [ha, hm]
        exact mi_put_app hI _ m _ hk hul hdl hmem hnd

theorem get_del {ms : List ((Nat × Nat) × Meter)} {key k : Nat × Nat} {m' : Meter} (h : mapGet (mapDel ms key) k = some m') :
    k ≠ key ∧ mapGet ms k = some m' := by
  rw [mapGet_mapDel] at h
  by_cases hk : k = key
  · subst hk; simp at h
  · rw [beq_false_of_ne hk] at h; exact ⟨hk, by simpa using h⟩

/-- releasing the cells of a recorded application meter into the application pool, and forgetting the meter -/
theorem mi_del_app {app sess : List Nat} {ms : List ((Nat × Nat) × Meter)} (hI : MI app sess ms) (key : Nat × Nat) (m : Meter)
    (hg : mapGet ms key = some m) (hk : m.kind = 1) (app' : List Nat)
    (hmem : ∀ x, x ∈ app' ↔ x ∈ app ∨ x = m.ul ∨ x = m.dl) (hnd : app'.Nodup) : MI app' sess (mapDel ms key) := by
  refine ⟨hnd, hI.sessNd, ?_, ?_, ?_, ?_, hI.sessRange, ?_, ?_⟩
  · intro k m' h hk1
    obtain ⟨hne, h'⟩ := get_del h
    have ho := hI.owners k key m' m hne h' hg (by omega)
    have hh := hI.appHeld k m' h' hk1
    constructor
    · intro hx; rcases (hmem _).mp hx with a | a | a
      · exact hh.1 a
      · exact ho.1 a
      · exact ho.2.1 a
    · intro hx; rcases (hmem _).mp hx with a | a | a
      · exact hh.2 a
      · exact ho.2.2.1 a
      · exact ho.2.2.2 a
  · intro k m' h hk2
    obtain ⟨_, h'⟩ := get_del h
    exact hI.sessHeld k m' h' hk2
  · intro k1 k2 m1 m2 hne h1 h2 hkk
    exact hI.owners k1 k2 m1 m2 hne (get_del h1).2 (get_del h2).2 hkk
  · intro x hx
    have hr := hI.heldRange key m hg
    rcases (hmem x).mp hx with a | a | a
    · exact hI.appRange x a
    · subst a; omega
    · subst a; omega
  · intro k m' h; exact hI.heldRange k m' (get_del h).2
  · intro k m' h; exact hI.kinds k m' (get_del h).2

theorem mi_del_sess {app sess : List Nat} {ms : List ((Nat × Nat) × Meter)} (hI : MI app sess ms) (key : Nat × Nat) (m : Meter)
    (hg : mapGet ms key = some m) (hk : m.kind = 2) (sess' : List Nat)
    (hmem : ∀ x, x ∈ sess' ↔ x ∈ sess ∨ x = m.ul ∨ x = m.dl) (hnd : sess'.Nodup) : MI app sess' (mapDel ms key) := by
  refine ⟨hI.appNd, hnd, ?_, ?_, ?_, hI.appRange, ?_, ?_, ?_⟩
  · intro k m' h hk1
    obtain ⟨_, h'⟩ := get_del h
    exact hI.appHeld k m' h' hk1
  · intro k m' h hk2
    obtain ⟨hne, h'⟩ := get_del h
    have ho := hI.owners k key m' m hne h' hg (by omega)
    have hh := hI.sessHeld k m' h' hk2
    constructor
    · intro hx; rcases (hmem _).mp hx with a | a | a
      · exact hh.1 a
      · exact ho.1 a
      · exact ho.2.1 a
    · intro hx; rcases (hmem _).mp hx with a | a | a
      · exact hh.2 a
      · exact ho.2.2.1 a
      · exact ho.2.2.2 a
  · intro k1 k2 m1 m2 hne h1 h2 hkk
    exact hI.owners k1 k2 m1 m2 hne (get_del h1).2 (get_del h2).2 hkk
  · intro x hx
    have hr := hI.heldRange key m hg
    rcases (hmem x).mp hx with a | a | a
    · exact hI.sessRange x a
    · subst a; omega
    · subst a; omega
  · intro k m' h; exact hI.heldRange k m' (get_del h).2
  · intro k m' h; exact hI.kinds k m' (get_del h).2

/-- **resetMeters** keeps the invariant whatever the reset Writes do -/
theorem resetMeters_inv : ∀ (qs : List Agent.Qer) (c : Ctx), MInv c.st → MInv (resetMeters c qs).st
  | [], c, h => by simpa [resetMeters] using h
  | q :: rest, c, hI => by
    unfold resetMeters
    cases hg : mapGet c.st.meters (q.qerID, q.fseID) with
    | none => simp only; exact resetMeters_inv rest c hI
    | some m =>
      simp only
      have hr := hI.heldRange _ m hg
      have hul0 : m.ul ≠ 0 := by omega
      have hdl0 : m.dl ≠ 0 := by omega
      rcases hI.kinds _ m hg with hk | hk
      · simp only [hk, true_or, if_true]
        apply resetMeters_inv rest
        simp only [write_appFree, write_sessFree, write_meters, hul0, hdl0, ne_eq, not_false_eq_true, if_true, and_true]
        show MI _ c.st.sessFree (mapDel c.st.meters (q.qerID, q.fseID))
        by_cases hd : m.dl = m.ul
        · simp only [hd, not_true_eq_false, if_false]
          refine mi_del_app hI _ m hg hk _ ?_ (nodup_setAdd _ _ hI.appNd)
          intro x; rw [mem_setAdd, hd]; constructor
          · rintro (a | a); exact Or.inl a; exact Or.inr (Or.inl a)
          · rintro (a | a | a); exact Or.inl a; exact Or.inr a; exact Or.inr a
        · simp only [hd, not_false_eq_true, if_true]
          refine mi_del_app hI _ m hg hk _ ?_ (nodup_setAdd _ _ (nodup_setAdd _ _ hI.appNd))
          intro x; rw [mem_setAdd, mem_setAdd]; constructor
          · rintro ((a | a) | a); exact Or.inl a; exact Or.inr (Or.inl a); exact Or.inr (Or.inr a)
          · rintro (a | a | a); exact Or.inl (Or.inl a); exact Or.inl (Or.inr a); exact Or.inr a
      · have h21 : ((2 : Nat) = 1) = False := by decide
        simp only [hk, or_true, if_true, h21, if_false]
        apply resetMeters_inv rest
        simp only [write_appFree, write_sessFree, write_meters, hul0, hdl0, ne_eq, not_false_eq_true, if_true]
        show MI c.st.appFree _ (mapDel c.st.meters (q.qerID, q.fseID))
        refine mi_del_sess hI _ m hg hk _ ?_ (nodup_setAdd _ _ (nodup_setAdd _ _ hI.sessNd))
        intro x; rw [mem_setAdd, mem_setAdd]; constructor
        · rintro ((a | a) | a); exact Or.inl a; exact Or.inr (Or.inl a); exact Or.inr (Or.inr a)
        · rintro (a | a | a); exact Or.inl (Or.inl a); exact Or.inl (Or.inr a); exact Or.inr a

end Up4
