import Upf.Model.IPPool

namespace Pool

theorem lookup_none_not_key (p : P) (s : Nat) (h : lookup p s = none) : s ∉ p.inv.map (·.1) := by
  unfold lookup at h
  simp at h
  intro hm
  simp at hm
  obtain ⟨a, ha⟩ := hm
  exact h s a ha rfl

theorem lookup_some_mem (p : P) (s a : Nat) (h : lookup p s = some a) : (s, a) ∈ p.inv := by
  unfold lookup at h
  simp at h
  obtain ⟨k, hk⟩ := h
  have := List.mem_of_find?_eq_some hk
  have hp := List.find?_some hk
  simp at hp
  subst hp
  exact this

theorem inv_alloc (base : List Nat) (p : P) (s : Nat) (h : Inv base p) : Inv base (alloc p s).2 := by
  unfold alloc
  split
  · exact h
  · rename_i hl
    split
    · exact h
    · rename_i a fs hf
      refine ⟨?_, h.nodup, ?_⟩
      · have := h.perm
        rw [hf] at this
        simp only [List.map_cons]
        refine List.Perm.trans ?_ this
        simp only [List.cons_append]
        exact List.perm_middle
      · simp only [List.map_cons]
        exact List.nodup_cons.mpr ⟨lookup_none_not_key p s hl, h.keys⟩

/-- with unique keys, filtering out key `s` removes exactly the pair (s,a) -/
theorem filter_perm (l : List (Nat × Nat)) (s a : Nat) (hk : (l.map (·.1)).Nodup) (hm : (s, a) ∈ l) :
    ((s, a) :: l.filter (·.1 != s)).Perm l := by
  induction l with
  | nil => cases hm
  | cons x xs ih =>
    simp only [List.map_cons, List.nodup_cons] at hk
    obtain ⟨hx, hxs⟩ := hk
    rcases List.mem_cons.mp hm with e | hin
    · subst e
      have hnone : xs.filter (·.1 != s) = xs := by
        apply List.filter_eq_self.mpr
        intro y hy
        simp
        intro e
        apply hx
        simp
        exact ⟨y.2, by rw [← e]; exact hy⟩
      simp [hnone]
    · have hne : x.1 ≠ s := by
        intro e
        apply hx
        simp
        exact ⟨a, by rw [e]; exact hin⟩
      have : (x :: xs).filter (·.1 != s) = x :: xs.filter (·.1 != s) := by
        simp [List.filter_cons, hne]
      rw [this]
      exact (List.Perm.swap _ _ _).trans ((ih hxs hin).cons x)

theorem inv_dealloc (base : List Nat) (p : P) (s : Nat) (h : Inv base p) : Inv base (dealloc p s).2 := by
  unfold dealloc
  split
  · exact h
  · rename_i a hl
    have hm := lookup_some_mem p s a hl
    refine ⟨?_, h.nodup, ?_⟩
    · refine List.Perm.trans ?_ h.perm
      have fp := filter_perm p.inv s a h.keys hm
      have : (p.inv.map (·.2)).Perm (a :: (p.inv.filter (·.1 != s)).map (·.2)) := by
        have := (fp.map (·.2)).symm
        simpa using this
      simp only [List.append_assoc, List.singleton_append]
      exact (List.Perm.append_left p.free this).symm
    · exact (List.Sublist.map _ List.filter_sublist).nodup h.keys

theorem inv_step (base : List Nat) (p : P) (op : Op) (h : Inv base p) : Inv base (step p op) := by
  cases op with
  | alloc s => exact inv_alloc base p s h
  | dealloc s => exact inv_dealloc base p s h

theorem reachable (base : List Nat) (h : base.Nodup) (ops : List Op) :
    Inv base (ops.foldl step { free := base, inv := [] }) := by
  have h0 : Inv base { free := base, inv := [] } := ⟨by simp, h, by simp⟩
  generalize ({ free := base, inv := [] } : P) = p at h0
  induction ops generalizing p with
  | nil => simpa using h0
  | cons o os ih => exact ih _ (inv_step base p o h0)

/-- exclusive: an address is never held by two sessions -/
theorem exclusive (base : List Nat) (p : P) (h : Inv base p) (s1 s2 a : Nat)
    (h1 : (s1, a) ∈ p.inv) (h2 : (s2, a) ∈ p.inv) : s1 = s2 := by
  have hnd : (p.free ++ p.inv.map (·.2)).Nodup := h.perm.nodup_iff.mpr h.nodup
  have hv : (p.inv.map (·.2)).Nodup := (List.nodup_append.mp hnd).2.1
  have : ∀ (l : List (Nat × Nat)), (l.map (·.2)).Nodup → (s1, a) ∈ l → (s2, a) ∈ l → s1 = s2 := by
    intro l
    induction l with
    | nil => intro _ h; cases h
    | cons x xs ih =>
      intro hn m1 m2
      simp only [List.map_cons, List.nodup_cons] at hn
      rcases List.mem_cons.mp m1 with e1 | m1 <;> rcases List.mem_cons.mp m2 with e2 | m2
      · rw [← e1] at e2; exact (Prod.mk.inj e2).1.symm
      · exfalso; apply hn.1; simp; exact ⟨s2, by rw [← e1]; exact m2⟩
      · exfalso; apply hn.1; simp; exact ⟨s1, by rw [← e2]; exact m1⟩
      · exact ih hn.2 m1 m2
  exact this p.inv hv h1 h2

/-- every address handed out comes from the pool, and refused only when nothing is free -/
theorem alloc_from_base (base : List Nat) (p : P) (h : Inv base p) (s a : Nat)
    (ha : (alloc p s).1 = some a) : a ∈ base := by
  unfold alloc at ha
  split at ha
  · rename_i a' hl
    cases ha
    have := lookup_some_mem p s a hl
    exact h.perm.subset (List.mem_append_right _ (List.mem_map.mpr ⟨(s, a), this, rfl⟩))
  · split at ha
    · cases ha
    · rename_i a' fs hf
      cases ha
      exact h.perm.subset (List.mem_append_left _ (by rw [hf]; exact List.mem_cons_self))

theorem refuse_iff_full (p : P) (s : Nat) :
    (alloc p s).1 = none ↔ (lookup p s = none ∧ p.free = []) := by
  unfold alloc
  split
  · rename_i a hl; simp [hl]
  · rename_i hl
    split
    · rename_i hf; simp [hl, hf]
    · rename_i a fs hf; simp [hf]

theorem sticky (p : P) (s a : Nat) (h : (alloc p s).1 = some a) :
    (alloc (alloc p s).2 s).1 = some a := by
  unfold alloc at h ⊢
  split at h
  · rename_i a' hl; cases h; simp [hl]
  · rename_i hl
    split at h
    · cases h
    · rename_i a' fs hf
      cases h
      simp [hl, hf, lookup]

#print axioms reachable
#print axioms exclusive
#print axioms sticky

end Pool

