import Upf.Proofs.Life
/-! C10: what has been deleted plus what is still to delete is constant for an existing association: every session of
an ending association is issued to the datapath for deletion exactly once (the list is consumed, never refilled). -/
namespace Life

def ledger (c : Conn) : List Nat := c.deleted ++ c.sessions

theorem ledger_upd_other (f : Nat → Conn) (a b : Nat) (c : Conn) (h : a ≠ b) : ledger (upd f b c a) = ledger (f a) := by
  simp [upd, h]

open Classical in
theorem ledger_const (f : Facts) (s s' : St) (act : Act) (a : Nat) (hs : step f s act = some s')
    (hex : (s.conns a).exists_ = true) : ledger (s'.conns a) = ledger (s.conns a) := by
  cases act with
  | newConn b sess =>
    simp only [step] at hs
    split at hs
    · cases hs
    · rename_i hn
      cases hs
      by_cases hab : a = b
      · subst hab; simp [hex] at hn
      · simp [upd, hab]
  | trigger b =>
    simp only [step] at hs
    split at hs
    · cases hs
    · split at hs
      · cases hs; rfl
      · cases hs
        by_cases hab : a = b
        · subst hab; simp [upd, ledger]
        · simp [upd, hab]
  | sd b i =>
    simp only [step] at hs
    split at hs
    · cases hs
    · rename_i pc hpc
      by_cases hab : a = b
      · subst hab
        split at hs
        · split at hs
          · cases hs; rfl
          · cases hs; simp [upd, ledger]
        · cases hs; simp [upd, ledger]
        · split at hs
          · cases hs; simp [upd, ledger]
          · rename_i x xs hx
            cases hs
            simp [upd, ledger, hx]
        · split at hs
          · cases hs; rfl
          · split at hs
            · cases hs
            · cases hs; simp [upd, ledger]
        · cases hs; simp [upd, ledger]
        · cases hs
      · split at hs
        · split at hs
          · cases hs; rfl
          · cases hs; simp [upd, hab]
        · cases hs; simp [upd, hab]
        · split at hs
          · cases hs; simp [upd, hab]
          · cases hs; simp [upd, hab]
        · split at hs
          · cases hs; rfl
          · split at hs
            · cases hs
            · cases hs; simp [upd, hab]
        · cases hs; simp [upd, hab]
        · cases hs
  | nRecv => simp only [step] at hs; split at hs <;> cases hs; rfl
  | stop => simp only [step] at hs; cases hs; rfl
  | nCloseListener => simp only [step] at hs; split at hs <;> cases hs; rfl
  | nCloseDone =>
    simp only [step] at hs
    split at hs
    · cases hs
    · split at hs <;> cases hs; rfl
  | nExit => simp only [step] at hs; split at hs <;> cases hs; rfl

end Life
