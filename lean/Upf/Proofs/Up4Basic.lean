import Upf.Model.Up4
/-! Basic facts about the UP4 model: a Write RPC touches the switch, the environment and the log, nothing else. -/
namespace Up4

/-- the plug-in's own bookkeeping (everything in `St` except the switch) -/
structure Books where
  ctrFree : List Nat
  appFree : List Nat
  sessFree : List Nat
  peerPool : List Nat
  appPool : List Nat
  peers : List (TP × Shared)
  apps : List (AF × AppRec)
  meters : List ((Nat × Nat) × Meter)
  ue2f : List (Nat × Nat)
  f2ue : List (Nat × Nat)

def St.books (s : St) : Books :=
  ⟨s.ctrFree, s.appFree, s.sessFree, s.peerPool, s.appPool, s.peers, s.apps, s.meters, s.ue2f, s.f2ue⟩

@[simp] theorem write_books (c : Ctx) (ups : List Upd) : (write c ups).1.st.books = c.st.books := by
  unfold write
  by_cases h : nextInj c = .rpc <;> simp [h, St.books]

@[simp] theorem write_ctrFree (c : Ctx) (ups : List Upd) : (write c ups).1.st.ctrFree = c.st.ctrFree := by
  have := congrArg Books.ctrFree (write_books c ups); simpa [St.books] using this
@[simp] theorem write_appFree (c : Ctx) (ups : List Upd) : (write c ups).1.st.appFree = c.st.appFree := by
  have := congrArg Books.appFree (write_books c ups); simpa [St.books] using this
@[simp] theorem write_sessFree (c : Ctx) (ups : List Upd) : (write c ups).1.st.sessFree = c.st.sessFree := by
  have := congrArg Books.sessFree (write_books c ups); simpa [St.books] using this
@[simp] theorem write_peerPool (c : Ctx) (ups : List Upd) : (write c ups).1.st.peerPool = c.st.peerPool := by
  have := congrArg Books.peerPool (write_books c ups); simpa [St.books] using this
@[simp] theorem write_appPool (c : Ctx) (ups : List Upd) : (write c ups).1.st.appPool = c.st.appPool := by
  have := congrArg Books.appPool (write_books c ups); simpa [St.books] using this
@[simp] theorem write_peers (c : Ctx) (ups : List Upd) : (write c ups).1.st.peers = c.st.peers := by
  have := congrArg Books.peers (write_books c ups); simpa [St.books] using this
@[simp] theorem write_apps (c : Ctx) (ups : List Upd) : (write c ups).1.st.apps = c.st.apps := by
  have := congrArg Books.apps (write_books c ups); simpa [St.books] using this
@[simp] theorem write_meters (c : Ctx) (ups : List Upd) : (write c ups).1.st.meters = c.st.meters := by
  have := congrArg Books.meters (write_books c ups); simpa [St.books] using this

end Up4
