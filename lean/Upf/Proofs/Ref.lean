import Upf.Model.Ref
import Upf.Proofs.Tab

namespace Ref

open Tab

theorem farVal_cons_eq (f : Far) (fs : List Far) : farVal (f :: fs) f.id = some f.val := by
  simp [farVal]

theorem farVal_cons_ne (f : Far) (fs : List Far) (fid : Nat) (h : f.id ≠ fid) :
    farVal (f :: fs) fid = farVal fs fid := by
  simp [farVal, List.find?_cons, h]

theorem farVal_none_of_not_mem (fs : List Far) (fid : Nat) (h : fid ∉ fs.map (·.id)) : farVal fs fid = none := by
  unfold farVal
  have : fs.find? (fun f => f.id == fid) = none := by
    apply List.find?_eq_none.mpr
    intro x hx hc
    simp at hc
    exact h (List.mem_map.mpr ⟨x, hx, hc⟩)
  simp [this]

/-- table after adding a list of FARs with distinct ids -/
theorem run_add (seid : Nat) : ∀ (fars : List Far) (t : T Key Nat), (fars.map (·.id)).Nodup →
    ∀ (fid sd : Nat), run t (addCmds seid fars) (fid, sd) =
      if sd = seid then (farVal fars fid).orElse (fun _ => t (fid, sd)) else t (fid, sd) := by
  intro fars
  induction fars with
  | nil => intro t _ fid sd; simp [addCmds, run, farVal]
  | cons f fs ih =>
    intro t hnd fid sd
    simp only [List.map_cons, List.nodup_cons] at hnd
    have hrec := ih (apply t (.add (f.id, seid) f.val)) hnd.2 fid sd
    have hunf : run t (addCmds seid (f :: fs)) = run (apply t (.add (f.id, seid) f.val)) (addCmds seid fs) := rfl
    rw [hunf, hrec]
    by_cases hs : sd = seid
    · subst hs
      simp only [if_true]
      by_cases hf : f.id = fid
      · subst hf
        rw [farVal_cons_eq, farVal_none_of_not_mem fs f.id hnd.1]
        simp [apply]
      · rw [farVal_cons_ne f fs fid hf]
        cases farVal fs fid with
        | some v => simp
        | none =>
          have hne : (fid, sd) ≠ (f.id, sd) := by
            intro e; exact hf (Prod.mk.inj e).1.symm
          simp [apply, hne]
    · have hne : (fid, sd) ≠ (f.id, seid) := by
        intro e; exact hs (Prod.mk.inj e).2
      simp [hs, apply, hne]

theorem find_fresh (store : List Sess) (seid : Nat) (h : ∀ s ∈ store, s.seid ≠ seid) :
    store.find? (fun s => s.seid == seid) = none := by
  apply List.find?_eq_none.mpr
  intro x hx hc
  simp at hc
  exact h x hx hc

theorem est_refines (store : List Sess) (seid : Nat) (fars : List Far)
    (hfresh : ∀ s ∈ store, s.seid ≠ seid) (hnd : (fars.map (·.id)).Nodup) :
    run (image store) (addCmds seid fars) = image (⟨seid, fars⟩ :: store) := by
  funext ⟨fid, sd⟩
  rw [run_add seid fars _ hnd fid sd]
  by_cases hs : sd = seid
  · subst hs
    have hold : image store (fid, sd) = none := by
      simp [image, find_fresh store sd hfresh]
    simp only [if_true, hold]
    simp [image, List.find?_cons]
  · have : (seid == sd) = false := by simp; exact fun e => hs e.symm
    simp [hs, image, List.find?_cons, this]

/-- deleting the stored FARs of a session removes exactly its keys -/
theorem run_del (seid : Nat) : ∀ (fars : List Far) (t : T Key Nat) (fid sd : Nat),
    run t (delCmds seid fars) (fid, sd) =
      if sd = seid ∧ fid ∈ fars.map (·.id) then none else t (fid, sd) := by
  intro fars
  induction fars with
  | nil => intro t fid sd; simp [delCmds, run]
  | cons f fs ih =>
    intro t fid sd
    have hunf : run t (delCmds seid (f :: fs)) = run (apply t (.del (f.id, seid))) (delCmds seid fs) := rfl
    rw [hunf, ih]
    by_cases hs : sd = seid
    · subst hs
      by_cases hm : fid ∈ fs.map (·.id)
      · simp [hm]
      · by_cases hf : fid = f.id
        · subst hf; simp [hm, apply]
        · have hne : (fid, sd) ≠ (f.id, sd) := by intro e; exact hf (Prod.mk.inj e).1
          have hm' : ¬ fid ∈ (f :: fs).map (·.id) := by
            simp only [List.map_cons, List.mem_cons, not_or]; exact ⟨hf, hm⟩
          simp only [hm, hm', and_false, if_false]
          simp [apply, hne]
    · have hne : (fid, sd) ≠ (f.id, seid) := by intro e; exact hs (Prod.mk.inj e).2
      simp [hs, apply, hne]

theorem del_refines (store : List Sess) (s : Sess) (hfresh : ∀ x ∈ store, x.seid ≠ s.seid) :
    run (image (s :: store)) (delCmds s.seid s.fars) = image store := by
  funext ⟨fid, sd⟩
  rw [run_del]
  by_cases hs : sd = s.seid
  · subst hs
    have hold : image store (fid, s.seid) = none := by
      simp [image, find_fresh store s.seid hfresh]
    rw [hold]
    by_cases hm : fid ∈ s.fars.map (·.id)
    · simp [hm]
    · simp only [hm, and_false, if_false]
      simp [image, List.find?_cons, farVal_none_of_not_mem s.fars fid hm]
  · have : (s.seid == sd) = false := by simp; exact fun e => hs e.symm
    simp [hs, image, List.find?_cons, this]

#print axioms est_refines
#print axioms del_refines

end Ref

