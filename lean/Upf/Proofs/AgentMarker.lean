import Upf.Model.AgentMod
/-! C14: the markers `updFars` produces are exactly one per flagged update of a known FAR, built from the FAR
stored BEFORE the message, in message order — given distinct FAR IDs within the message. -/
namespace Agent

def replaceFar (st : List Far) (f : Far) : List Far := st.map fun q => if q.farID = f.farID then f else q

def stepFar (acc : List Far × List Far × List Marker) (f : Far) : List Far × List Far × List Marker :=
  match acc.1.find? (·.farID = f.farID) with
  | none => acc
  | some old => (replaceFar acc.1 f, acc.2.1 ++ [f], if f.sendEndMarker then acc.2.2 ++ [markerOf old] else acc.2.2)

theorem updFars_eq (stored ups : List Far) : updFars stored ups = ups.foldl stepFar (stored, [], []) := by
  unfold updFars
  congr 1

/-- replacing a FAR with another ID does not change what is stored under `id` -/
theorem find_replace_ne (st : List Far) (f : Far) (id : Nat) (h : f.farID ≠ id) :
    (replaceFar st f).find? (·.farID = id) = st.find? (·.farID = id) := by
  induction st with
  | nil => rfl
  | cons q qs ih =>
    have e : replaceFar (q :: qs) f = (if q.farID = f.farID then f else q) :: replaceFar qs f := rfl
    rw [e, List.find?_cons, List.find?_cons, ih]
    by_cases hq : q.farID = f.farID
    · have : q.farID ≠ id := by rw [hq]; exact h
      simp [hq, h, this]
    · simp [hq]

def expected (stored : List Far) (ups : List Far) : List Marker :=
  ups.filterMap fun f => if f.sendEndMarker then (stored.find? (·.farID = f.farID)).map markerOf else none

theorem fold_markers (stored : List Far) : ∀ (ups : List Far) (st sent : List Far) (ms : List Marker),
    (ups.map (·.farID)).Nodup →
    (∀ f ∈ ups, st.find? (·.farID = f.farID) = stored.find? (·.farID = f.farID)) →
    (ups.foldl stepFar (st, sent, ms)).2.2 = ms ++ expected stored ups := by
  intro ups
  induction ups with
  | nil => intro st sent ms _ _; simp [expected]
  | cons f fs ih =>
    intro st sent ms hnd hst
    have hnd' : (fs.map (·.farID)).Nodup := (List.nodup_cons.mp hnd).2
    have hnot : ∀ g ∈ fs, f.farID ≠ g.farID := by
      intro g hg e
      exact (List.nodup_cons.mp hnd).1 (List.mem_map.mpr ⟨g, hg, e.symm⟩)
    have hf := hst f List.mem_cons_self
    simp only [List.foldl_cons]
    cases hfind : st.find? (·.farID = f.farID) with
    | none =>
      have hs : stepFar (st, sent, ms) f = (st, sent, ms) := by simp [stepFar, hfind]
      rw [hs, ih st sent ms hnd' (fun g hg => hst g (List.mem_cons_of_mem _ hg))]
      rw [hfind] at hf
      simp [expected, List.filterMap_cons, ← hf]
    | some old =>
      have hs : stepFar (st, sent, ms) f =
          (replaceFar st f, sent ++ [f], if f.sendEndMarker then ms ++ [markerOf old] else ms) := by simp [stepFar, hfind]
      rw [hs, ih _ _ _ hnd' (fun g hg => by
        rw [find_replace_ne st f g.farID (hnot g hg)]; exact hst g (List.mem_cons_of_mem _ hg))]
      rw [hfind] at hf
      by_cases hm : f.sendEndMarker
      · simp [expected, List.filterMap_cons, ← hf, hm]
      · simp [expected, List.filterMap_cons, hm]

/-- markers of one message: one per flagged update of a known FAR, from the FAR stored before the message, in order -/
theorem updFars_markers (stored ups : List Far) (hnd : (ups.map (·.farID)).Nodup) :
    (updFars stored ups).2.2 = expected stored ups := by
  rw [updFars_eq]
  simpa using fold_markers stored ups stored [] [] hnd (fun _ _ => rfl)

end Agent
