import Upf.Model.AgentUp4
import Upf.Proofs.Up4Counters
import Upf.Proofs.BessAddDel
/-!
The handlers on UP4 store what the plug-in returns: the session an accepted establishment appends to the association's store
carries, PDR by PDR, the counter cells `sendCreate` took from the pool for it.
-/
namespace Agent4
open Agent Up4

/-- **accepted establishment on UP4**: the stored session's PDRs hold pairwise distinct counter cells, every one of them free
before the request and not free after it -/
theorem establish_session_cells (cfg : Cfg) (cfg4 : Cfg4) (x : World4) (a lseid : Nat) (r : EstReq) (hnd : x.c.st.ctrFree.Nodup)
    (h : (establish cfg cfg4 x a lseid r).2.upSeid.isSome) :
    ∃ s : Session, s.lseid = lseid ∧
      ((establish cfg cfg4 x a lseid r).1.w.conn a).sessions = (x.w.conn a).sessions ++ [s] ∧
      (s.pdrs.map (·.ctrID)).Nodup ∧
      ∀ i ∈ s.pdrs.map (·.ctrID), i ∈ x.c.st.ctrFree ∧ i ∉ (establish cfg cfg4 x a lseid r).1.c.st.ctrFree := by
  unfold establish at h ⊢
  dsimp only at h ⊢
  by_cases hne : r.nodeID ≠ (x.w.conn a).remoteNode
  · rw [if_pos hne] at h; simp at h
  · rw [if_neg hne] at h ⊢
    cases hest : estPdrs cfg lseid r.cpIP (x.w.conn a).apps r.pdrs x.w.pool x.w.teid [] with
    | error e => simp only [hest] at h; simp at h
    | ok v =>
      obtain ⟨pdrs, pool, g⟩ := v
      simp only [hest] at h ⊢
      cases hf : mapFars cfg lseid r.cpIP false r.fars with
      | error e => cases e with | reject cause => simp only [hf] at h; simp at h
      | ok fars =>
        simp only [hf] at h ⊢
        -- the request handed to the plug-in: the same PDR list as "all" and as "updated"
        generalize hq : (r.qers.map fun ie => { parseQER lseid ie with fseidIP := r.cpIP }) = qers at h ⊢
        generalize hall : ({ pdrs := (markSessionQer (markSessionQer pdrs qers).2 qers).2, fars := fars, qers := (markSessionQer pdrs qers).1 } : Rules) = all at h ⊢
        generalize hupd : ({ pdrs := (markSessionQer (markSessionQer pdrs qers).2 qers).2, fars := fars, qers := (markSessionQer (markSessionQer pdrs qers).2 qers).1 } : Rules) = upd at h ⊢
        have hlen : upd.pdrs.length = all.pdrs.length := by rw [← hall, ← hupd]
        have key := established_pdrs_hold_fresh_cells cfg4 x.c all upd hnd hlen
        generalize sendCreate cfg4 x.c all upd = res at h key ⊢
        obtain ⟨c4, pdrs3, ok⟩ := res
        cases ok
        · simp at h
        · simp only [Bool.not_true, Bool.false_eq_true, if_false] at h ⊢
          obtain ⟨k1, k2, _⟩ := key rfl
          refine ⟨{ lseid := lseid, rseid := r.cpSeid, pdrs := pdrs3, fars := fars, qers := (markSessionQer pdrs qers).1 }, rfl, ?_, k1, k2⟩
          rw [conn_setConn]

/-- **Session Deletion on UP4**: accepted — the session leaves the store and exactly its PDRs' cells return to the pool;
refused — the store is untouched and the pool too (the session keeps its cells) -/
theorem delete_session_cells (cfg4 : Cfg4) (x : World4) (a seid : Nat) (s : Session)
    (hs : (x.w.conn a).sessions.find? (·.lseid = seid) = some s) :
    ((deleteSession cfg4 x a seid).2.cause = causeAccepted →
        (deleteSession cfg4 x a seid).1.c.st.ctrFree = (s.pdrs.map (·.ctrID)).foldl setAdd x.c.st.ctrFree ∧
        ((deleteSession cfg4 x a seid).1.w.conn a).sessions = (x.w.conn a).sessions.filter (·.lseid ≠ seid)) ∧
    ((deleteSession cfg4 x a seid).2.cause ≠ causeAccepted →
        (deleteSession cfg4 x a seid).1.c.st.ctrFree = x.c.st.ctrFree ∧ (deleteSession cfg4 x a seid).1.w = x.w) := by
  unfold deleteSession
  simp only [hs]
  have key := sendDelete_ctr cfg4 x.c (rulesOf s)
  generalize sendDelete cfg4 x.c (rulesOf s) = res at key ⊢
  obtain ⟨c4, ok⟩ := res
  cases ok
  · simp only [Bool.not_false, if_true]
    refine ⟨?_, ?_⟩
    · intro h; exact absurd h (by decide)
    · intro _; exact ⟨by simpa using key, trivial⟩
  · simp only [Bool.not_true, Bool.false_eq_true, if_false]
    refine ⟨?_, ?_⟩
    · intro _
      refine ⟨by simpa [rulesOf] using key, ?_⟩
      rw [conn_setConn]
    · intro h; exact absurd rfl h

end Agent4
