import Upf.Model.NewPool

namespace NewPool

theorem range'_drop1_dropLast (a n : Nat) (h : 2 ≤ n) :
    ((List.range' a n).drop 1).dropLast = List.range' (a + 1) (n - 2) := by
  obtain ⟨k, rfl⟩ : ∃ k, n = k + 2 := ⟨n - 2, by omega⟩
  have e1 : (List.range' a (k + 2)).drop 1 = List.range' (a + 1) (k + 1) := by
    simp [List.range'_succ]
  rw [e1]
  have e2 : List.range' (a + 1) (k + 1) = List.range' (a + 1) k ++ [a + 1 + k] := by
    rw [List.range'_concat]; simp
  rw [e2, List.dropLast_concat]
  simp

theorem newPool_spec (ip : U32) (len : Nat) (hl : len ≤ 30) :
    ∃ l, newPool ip len = some l ∧ l.Nodup ∧ l.length = 2 ^ (32 - len) - 2 ∧
      ∀ a, a ∈ l ↔ ((ip &&& maskOf len).toNat < a ∧ a < (ip &&& maskOf len).toNat + 2 ^ (32 - len) - 1) := by
  have h2 : 2 ≤ 2 ^ (32 - len) := by
    have : 2 ^ 2 ≤ 2 ^ (32 - len) := Nat.pow_le_pow_right (by decide) (by omega)
    omega
  have hn : newPool ip len = some (List.range' ((ip &&& maskOf len).toNat + 1) (2 ^ (32 - len) - 2)) := by
    unfold newPool
    simp only [Nat.not_lt.mpr h2, if_false]
    rw [range'_drop1_dropLast _ _ h2]
  refine ⟨_, hn, List.nodup_range', by simp, ?_⟩
  intro a
  simp only [List.mem_range'_1]
  omega

#print axioms newPool_spec

end NewPool

